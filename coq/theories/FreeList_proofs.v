(* FreeList_proofs: the encoder round trip through Image.free_walk, and the conservation theorems of
   the allocator mirror (FreeList.v).  Properties C19 and C17. *)
From Coq Require Import List Bool Arith NArith Lia Permutation.
From Nomt Require Import Image FreeList.
Import ListNotations.

(* ---------------------------------------------------------------------------------------------- *)
(* A. lists: the binary drop / take of Image.v are skipn / firstn                                  *)

Lemma skipn_skipn' : forall {A} (a b : nat) (l : list A), skipn a (skipn b l) = skipn (b + a) l.
Proof.
  intros A a b. induction b as [|b IH]; intros l; [reflexivity|].
  destruct l as [|x l]; cbn [skipn plus]; [destruct a; reflexivity|]. apply IH.
Qed.

Lemma tl_skipn : forall {A} (l : list A), tl l = skipn 1 l.
Proof. intros A [|x l]; reflexivity. Qed.

Lemma drop_pos_skipn : forall {A} (p : positive) (l : list A), drop_pos p l = skipn (Pos.to_nat p) l.
Proof.
  intros A p. induction p as [q IH|q IH|]; intros l; cbn [drop_pos].
  - rewrite !IH, tl_skipn, !skipn_skipn'. f_equal. lia.
  - rewrite !IH, skipn_skipn'. f_equal. lia.
  - apply tl_skipn.
Qed.

Lemma dropN_skipn : forall {A} (n : N) (l : list A), dropN n l = skipn (N.to_nat n) l.
Proof. intros A [|p] l; [reflexivity|]. apply drop_pos_skipn. Qed.

Lemma firstn_add : forall {A} (a b : nat) (l : list A),
    firstn (a + b) l = firstn a l ++ firstn b (skipn a l).
Proof.
  intros A a b. induction a as [|a IH]; intros l; [reflexivity|].
  destruct l as [|x l]; cbn [plus firstn skipn app]; [destruct b; reflexivity|].
  rewrite IH. reflexivity.
Qed.

Lemma take_rev_spec : forall {A} (p : positive) (l acc : list A),
    (Pos.to_nat p <= length l)%nat ->
    take_rev p l acc = Some (rev (firstn (Pos.to_nat p) l) ++ acc, skipn (Pos.to_nat p) l).
Proof.
  intros A p. induction p as [q IH|q IH|]; intros l acc Hlen; cbn [take_rev].
  - destruct l as [|x l]; [cbn [length] in Hlen; lia|]. cbn [length] in Hlen.
    assert (Hq : (Pos.to_nat q <= length l)%nat) by lia.
    rewrite (IH l (x :: acc) Hq).
    assert (Hq2 : (Pos.to_nat q <= length (skipn (Pos.to_nat q) l))%nat)
      by (rewrite skipn_length; lia).
    rewrite (IH _ _ Hq2).
    replace (Pos.to_nat q~1) with (S (Pos.to_nat q + Pos.to_nat q)) by lia.
    cbn [firstn skipn rev]. rewrite firstn_add, rev_app_distr, skipn_skipn'.
    rewrite <- !app_assoc. reflexivity.
  - assert (Hq : (Pos.to_nat q <= length l)%nat) by lia.
    rewrite (IH l acc Hq).
    assert (Hq2 : (Pos.to_nat q <= length (skipn (Pos.to_nat q) l))%nat)
      by (rewrite skipn_length; lia).
    rewrite (IH _ _ Hq2).
    replace (Pos.to_nat q~0) with (Pos.to_nat q + Pos.to_nat q)%nat by lia.
    rewrite firstn_add, rev_app_distr, skipn_skipn', <- app_assoc. reflexivity.
  - destruct l as [|x l]; [cbn [length] in Hlen; lia|]. reflexivity.
Qed.

Lemma split_exact_spec : forall {A} (n : N) (l : list A),
    (N.to_nat n <= length l)%nat ->
    split_exact n l = Some (firstn (N.to_nat n) l, skipn (N.to_nat n) l).
Proof.
  intros A [|p] l H; [reflexivity|].
  unfold split_exact. cbn [N.to_nat] in *. rewrite take_rev_spec by exact H.
  rewrite rev_append_rev, app_nil_r, app_nil_r, rev_involutive. reflexivity.
Qed.

Lemma sliceN_spec : forall {A} (off len : N) (l : list A),
    (N.to_nat off + N.to_nat len <= length l)%nat ->
    sliceN off len l = Some (firstn (N.to_nat len) (skipn (N.to_nat off) l)).
Proof.
  intros A off len l H. unfold sliceN. rewrite dropN_skipn.
  rewrite split_exact_spec by (rewrite skipn_length; lia). reflexivity.
Qed.

(* ---------------------------------------------------------------------------------------------- *)
(* little-endian numbers                                                                           *)

Lemma le_bytes_length : forall k n, length (le_bytes k n) = k.
Proof. induction k as [|k IH]; intros n; cbn [le_bytes length]; [reflexivity|]. rewrite IH. reflexivity. Qed.

Lemma le_num_le_bytes : forall k n, (n < 256 ^ N.of_nat k)%N -> le_num (le_bytes k n) = n.
Proof.
  induction k as [|k IH]; intros n H.
  - cbn [le_bytes le_num]. cbn in H. lia.
  - cbn [le_bytes le_num]. rewrite IH.
    + pose proof (N.div_mod n 256). lia.
    + rewrite Nat2N.inj_succ, N.pow_succ_r' in H. apply N.div_lt_upper_bound; lia.
Qed.

Lemma u32s_le_bytes : forall items,
    Forall (fun x => (x < 2 ^ 32)%N) items -> u32s (flat_map (le_bytes 4) items) = items.
Proof.
  intros items H. induction H as [|x r Hx Hr IH]; [reflexivity|].
  cbn [flat_map]. change (le_bytes 4 x) with
    [x mod 256; (x / 256) mod 256; (x / 256 / 256) mod 256; (x / 256 / 256 / 256) mod 256]%N.
  cbn [app u32s]. rewrite IH. f_equal.
  assert (E : le_num (le_bytes 4 x) = x) by (apply le_num_le_bytes; exact Hx).
  change (le_bytes 4 x) with
    [x mod 256; (x / 256) mod 256; (x / 256 / 256) mod 256; (x / 256 / 256 / 256) mod 256]%N in E.
  cbn [le_num] in E. lia.
Qed.

Lemma flat_map_le4_length : forall items, length (flat_map (le_bytes 4) items) = (4 * length items)%nat.
Proof.
  induction items as [|x r IH]; [reflexivity|].
  cbn [flat_map length]. rewrite app_length, le_bytes_length, IH. lia.
Qed.

(* ---------------------------------------------------------------------------------------------- *)
(* decoding an encoded portion page (any content after the defined prefix)                         *)

Definition item_ok (x : N) : Prop := (x < 2 ^ 32)%N.

Lemma encode_prefix_length : forall prev items,
    length (encode_prefix prev items) = (6 + 4 * length items)%nat.
Proof.
  intros. unfold encode_prefix. rewrite !app_length, !le_bytes_length, flat_map_le4_length. lia.
Qed.

Lemma decode_encoded_page : forall pn prev items tail,
    (prev < 2 ^ 32)%N -> (length items <= 1022)%nat -> Forall item_ok items ->
    length (encode_prefix prev items ++ tail) = 4096%nat ->
    decode_free_page pn (encode_prefix prev items ++ tail) = Ok (prev, items).
Proof.
  intros pn prev items tail Hp Hl Hi Hlen.
  pose proof (encode_prefix_length prev items) as Hpl.
  set (pg := encode_prefix prev items ++ tail) in *.
  assert (Hpg : pg = le_bytes 4 prev ++ le_bytes 2 (lenN items) ++ flat_map (le_bytes 4) items ++ tail).
  { unfold pg, encode_prefix. rewrite <- !app_assoc. reflexivity. }
  assert (Hn : (lenN items <= 1022)%N) by (rewrite lenN_length; lia).
  unfold decode_free_page.
  (* prev *)
  assert (E1 : u32 pg 0 = Some prev).
  { unfold u32. rewrite sliceN_spec by (cbn; lia). cbn [N.to_nat skipn option_map].
    change (Pos.to_nat 4) with (length (le_bytes 4 prev) + 0)%nat at 1.
    rewrite Hpg, firstn_app_2. cbn [firstn]. rewrite app_nil_r.
    rewrite le_num_le_bytes by exact Hp. reflexivity. }
  rewrite E1. cbn [need bind].
  (* count *)
  assert (E2 : u16 pg 4 = Some (lenN items)).
  { unfold u16. rewrite sliceN_spec by (cbn; lia). cbn [option_map].
    rewrite Hpg.
    replace (skipn (N.to_nat 4) (le_bytes 4 prev ++ le_bytes 2 (lenN items) ++ flat_map (le_bytes 4) items ++ tail))
      with (le_bytes 2 (lenN items) ++ flat_map (le_bytes 4) items ++ tail).
    2:{ rewrite skipn_app, le_bytes_length.
        change (N.to_nat 4) with 4%nat. rewrite (skipn_all2 (le_bytes 4 prev)) by (rewrite le_bytes_length; lia).
        reflexivity. }
    change (N.to_nat 2) with (length (le_bytes 2 (lenN items)) + 0)%nat.
    rewrite firstn_app_2. cbn [firstn]. rewrite app_nil_r.
    rewrite le_num_le_bytes; [reflexivity|]. cbn. lia. }
  rewrite E2. cbn [need bind].
  unfold guard. destruct (lenN items <=? MAX_PNS_PER_PAGE)%N eqn:Eg.
  2:{ apply N.leb_gt in Eg. unfold MAX_PNS_PER_PAGE in Eg. lia. }
  cbn [bind].
  assert (E3 : sliceN 6 (4 * lenN items) pg = Some (flat_map (le_bytes 4) items)).
  { rewrite sliceN_spec.
    2:{ rewrite Hlen, lenN_length. change (N.to_nat 6) with 6%nat. lia. }
    f_equal. rewrite Hpg.
    replace (skipn (N.to_nat 6) (le_bytes 4 prev ++ le_bytes 2 (lenN items) ++ flat_map (le_bytes 4) items ++ tail))
      with (flat_map (le_bytes 4) items ++ tail).
    2:{ rewrite app_assoc. rewrite skipn_app.
        rewrite skipn_all2 by (rewrite app_length, !le_bytes_length; cbn; lia).
        rewrite app_length, !le_bytes_length. reflexivity. }
    replace (N.to_nat (4 * lenN items)) with (length (flat_map (le_bytes 4) items) + 0)%nat.
    2:{ rewrite flat_map_le4_length, lenN_length. lia. }
    rewrite firstn_app_2. cbn [firstn]. apply app_nil_r. }
  rewrite E3. cbn [need bind]. rewrite u32s_le_bytes by exact Hi. reflexivity.
Qed.

Lemma full_page_ok : forall c pn (pg : list N), length pg = 4096%nat -> full_page c pn (Some pg) = Ok pg.
Proof.
  intros c pn pg H. unfold full_page. rewrite dropN_skipn.
  change (N.to_nat (PAGE - 1)) with 4095%nat.
  assert (Hl : length (skipn 4095 pg) = 1%nat) by (rewrite skipn_length; lia).
  destruct (skipn 4095 pg) as [|x [|y r]]; cbn [length] in Hl; try lia. reflexivity.
Qed.

(* ---------------------------------------------------------------------------------------------- *)
(* encode_decode                                                                                   *)

(* what can be written into the u32 / u16 fields, and page 0 is the end marker *)
Definition disk_ok (d : list (N * list N)) : Prop :=
  Forall (fun p => (0 < fst p < 2 ^ 32)%N /\ (length (snd p) <= 1022)%nat /\ Forall item_ok (snd p)) d.

(* the reader returns, for every portion, a 4096-byte page that starts with its encoding *)
Definition serves (rd : N -> option (list N)) (d : list (N * list N)) : Prop :=
  Forall (fun w => exists tail,
              rd (fst (fst w)) = Some (encode_prefix (snd (fst w)) (snd w) ++ tail)
              /\ length (encode_prefix (snd (fst w)) (snd w) ++ tail) = 4096%nat) (layout d).

Lemma free_walk_encoded : forall c rd d fuel acc,
    disk_ok d -> serves rd d -> (length d <= fuel)%nat ->
    free_walk fuel c rd (disk_head d) acc = Ok (rev acc ++ d).
Proof.
  intros c rd d. induction d as [|[pn its] r IH]; intros fuel acc Hok Hs Hf.
  - cbn [disk_head]. destruct fuel; cbn [free_walk N.eqb]; rewrite rev_append_rev; reflexivity.
  - inversion Hok as [|p0 r0 Hp Hr]; subst. cbn [fst snd] in Hp. destruct Hp as [Hpn [Hl Hi]].
    cbn [layout] in Hs. inversion Hs as [|w0 r1 Hw Hrs]; subst. cbn [fst snd] in Hw.
    destruct Hw as [tail [Hrd Hlen]].
    destruct fuel as [|f]; [cbn [length] in Hf; lia|].
    cbn [disk_head free_walk].
    destruct (pn =? 0)%N eqn:E0; [apply N.eqb_eq in E0; lia|].
    rewrite Hrd, full_page_ok by exact Hlen. cbn [bind].
    assert (Hprev : (match r with [] => 0 | (q, _) :: _ => q end < 2 ^ 32)%N).
    { destruct r as [|[q qi] r']; [cbn; lia|]. inversion Hr as [|p1 r2 Hq _]; subst.
      cbn [fst] in Hq. lia. }
    rewrite decode_encoded_page by assumption. cbn [bind fst snd].
    replace (match r with [] => 0%N | (q, _) :: _ => q end) with (disk_head r) by (destruct r as [|[q qi] r']; reflexivity).
    rewrite IH; [|exact Hr|exact Hrs|cbn [length] in Hf; lia].
    cbn [rev]. rewrite <- app_assoc. reflexivity.
Qed.

(* round trip: Image.free_walk over the encoded pages (whatever follows the defined prefix of a
   page) returns the encoded list: same portions, same items, same order *)
Theorem encode_decode_any_tail : forall c rd d fuel,
    disk_ok d -> serves rd d -> (length d <= fuel)%nat ->
    free_walk fuel c rd (disk_head d) [] = Ok d.
Proof. intros c rd d fuel H1 H2 H3. apply (free_walk_encoded c rd d fuel [] H1 H2 H3). Qed.

Lemma pad_page_length : forall l, (length l <= 4096)%nat -> length (pad_page l) = 4096%nat.
Proof.
  intros l H. unfold pad_page, zeros. rewrite app_length.
  assert (E : forall n, length (repeatN 0%N n) = n) by (induction n as [|n IHn]; cbn; [reflexivity|rewrite IHn; reflexivity]).
  rewrite E. lia.
Qed.

Lemma rd_of_layout : forall d0 d,
    NoDup (map fst d0) -> (exists pre, d0 = pre ++ d) -> disk_ok d0 ->
    serves (rd_of (encode_fl d0)) d.
Proof.
  intros d0 d Hnd. induction d as [|[pn its] r IH]; intros [pre Hpre] Hok; [constructor|].
  cbn [layout]. constructor.
  - cbn [fst snd].
    set (prev := match r with [] => 0%N | (q, _) :: _ => q end).
    exists (zeros (4096 - length (encode_prefix prev its))).
    assert (Hits : (length its <= 1022)%nat).
    { unfold disk_ok in Hok. rewrite Forall_forall in Hok.
      assert (Hin : In (pn, its) d0) by (subst d0; apply in_or_app; right; left; reflexivity).
      apply Hok in Hin. cbn [snd] in Hin. tauto. }
    split.
    2:{ apply pad_page_length. rewrite encode_prefix_length. lia. }
    unfold rd_of, encode_fl. subst d0.
    assert (Hfind : forall pre0 : list (N * list N),
               ~ In pn (map fst pre0) ->
               find (fun p : N * list N => (fst p =? pn)%N)
                    (map (fun w : wpage => (fst (fst w), encode_page (snd (fst w)) (snd w))) (layout (pre0 ++ (pn, its) :: r)))
               = Some (pn, encode_page prev its)).
    { induction pre0 as [|[q qi] pre0 IHp]; intros Hni.
      - cbn [app layout map find fst snd]. rewrite N.eqb_refl. reflexivity.
      - cbn [app layout map find fst snd].
        destruct (q =? pn)%N eqn:Eq.
        + apply N.eqb_eq in Eq. exfalso. apply Hni. left. exact Eq.
        + apply IHp. intros Hin. apply Hni. right. exact Hin. }
    rewrite Hfind.
    + reflexivity.
    + rewrite map_app in Hnd. cbn [map fst] in Hnd. apply NoDup_remove_2 in Hnd.
      intros Hin. apply Hnd. apply in_or_app. left. exact Hin.
  - apply IH; [|exact Hok]. exists (pre ++ [(pn, its)]). rewrite <- app_assoc. exact Hpre.
Qed.

(* the statement with the encoder's own pages (zero padded) *)
Theorem encode_decode : forall c d fuel,
    disk_ok d -> NoDup (map fst d) -> (length d <= fuel)%nat ->
    free_walk fuel c (rd_of (encode_fl d)) (disk_head d) [] = Ok d.
Proof.
  intros c d fuel Hok Hnd Hf. apply encode_decode_any_tail; [exact Hok| |exact Hf].
  apply rd_of_layout; [exact Hnd|exists []; reflexivity|exact Hok].
Qed.

(* ---------------------------------------------------------------------------------------------- *)
(* B. multisets of page numbers                                                                    *)

Definition cnt (l : list N) (x : N) : nat := count_occ N.eq_dec l x.
Definition one (y x : N) : nat := if N.eq_dec y x then 1 else 0.
Definition meq (a b : list N) : Prop := forall x, cnt a x = cnt b x.

Lemma cnt_nil : forall x, cnt [] x = 0.
Proof. reflexivity. Qed.
Lemma cnt_cons : forall y l x, cnt (y :: l) x = one y x + cnt l x.
Proof. intros y l x. unfold cnt, one. cbn [count_occ]. destruct (N.eq_dec y x); reflexivity. Qed.
Lemma cnt_app : forall a b x, cnt (a ++ b) x = cnt a x + cnt b x.
Proof. intros. apply count_occ_app. Qed.
Lemma cnt_rev : forall a x, cnt (rev a) x = cnt a x.
Proof. intros. apply count_occ_rev. Qed.
Lemma one_same : forall x, one x x = 1.
Proof. intros x. unfold one. destruct (N.eq_dec x x); congruence. Qed.
Lemma one_le : forall y x, one y x <= 1.
Proof. intros y x. unfold one. destruct (N.eq_dec y x); lia. Qed.
Lemma one_diff : forall y x, y <> x -> one y x = 0.
Proof. intros y x H. unfold one. destruct (N.eq_dec y x); congruence. Qed.

Lemma meq_perm : forall a b, meq a b <-> Permutation a b.
Proof. intros a b. symmetry. apply (Permutation_count_occ N.eq_dec). Qed.

Lemma cnt_in : forall l x, In x l <-> cnt l x > 0.
Proof. intros. apply count_occ_In. Qed.
Lemma cnt_not_in : forall l x, ~ In x l <-> cnt l x = 0.
Proof. intros. apply count_occ_not_In. Qed.
Lemma nodup_cnt : forall l, NoDup l <-> forall x, cnt l x <= 1.
Proof. intros. apply NoDup_count_occ. Qed.

Ltac cnt_norm := repeat (rewrite ?cnt_app, ?cnt_cons, ?cnt_nil, ?cnt_rev).
Ltac cnt_norm_in H := repeat (rewrite ?cnt_app, ?cnt_cons, ?cnt_nil, ?cnt_rev in H).

Lemma heads_cons : forall h its r, heads ((h, its) :: r) = h :: heads r.
Proof. reflexivity. Qed.
Lemma stack_cons : forall (h : N) its r, stack ((h, its) :: r) = its ++ stack r.
Proof. reflexivity. Qed.

Lemma seqN_app : forall a k b, seqN b (a + k) = seqN b a ++ seqN (b + N.of_nat a)%N k.
Proof.
  induction a as [|a IH]; intros k b.
  - cbn [plus seqN app N.of_nat]. rewrite N.add_0_r. reflexivity.
  - cbn [plus seqN app]. rewrite IH.
    replace (N.succ b + N.of_nat a)%N with (b + N.of_nat (S a))%N by lia. reflexivity.
Qed.

Lemma seqN_in : forall k b x, In x (seqN b k) <-> (b <= x /\ x < b + N.of_nat k)%N.
Proof.
  induction k as [|k IH]; intros b x.
  - cbn [seqN In N.of_nat]. lia.
  - cbn [seqN In]. rewrite IH. lia.
Qed.

Lemma seqN_nodup : forall k b, NoDup (seqN b k).
Proof.
  induction k as [|k IH]; intros b; cbn [seqN]; constructor; [|apply IH].
  rewrite seqN_in. lia.
Qed.

Lemma seqN_length : forall k b, length (seqN b k) = k.
Proof. induction k as [|k IH]; intros b; cbn [seqN length]; [reflexivity|]. rewrite IH. reflexivity. Qed.

(* ---------------------------------------------------------------------------------------------- *)
(* pop, discard                                                                                    *)

Lemma pop_ps_some : forall ps rel x ps' rel',
    pop_ps ps rel = Some (Some (x, ps', rel')) ->
    stack ps = x :: stack ps' /\
    (forall z, cnt (heads ps) z + cnt rel z = cnt (heads ps') z + cnt rel' z) /\
    (ps' = [] -> stack ps' = []).
Proof.
  intros ps rel x ps' rel' H. unfold pop_ps in H.
  destruct ps as [|[hpn its] rest]; [discriminate|].
  destruct its as [|y its']; [discriminate|].
  destruct its' as [|y2 its''].
  - injection H as <- <- <-. rewrite stack_cons, heads_cons. cbn [app]. split; [reflexivity|].
    split; [|intros ->; reflexivity]. intros z. cnt_norm. lia.
  - injection H as <- <- <-. rewrite !stack_cons, !heads_cons. cbn [app]. split; [reflexivity|].
    split; [|discriminate]. intros z. cnt_norm. lia.
Qed.

Lemma pop_ps_none : forall ps rel, pop_ps ps rel = Some None -> ps = [].
Proof.
  intros ps rel H. unfold pop_ps in H. destruct ps as [|[hpn its] rest]; [reflexivity|].
  destruct its as [|y [|y2 its'']]; discriminate.
Qed.

Lemma discard_spec : forall n ps rel d ps' rel' b,
    discard n ps rel = (d, ps', rel', b) ->
    stack ps = firstn n (stack ps) ++ stack ps' /\
    d = length (firstn n (stack ps)) /\
    (forall z, cnt (heads ps) z + cnt rel z = cnt (heads ps') z + cnt rel' z).
Proof.
  intros n ps. revert n. induction ps as [|[hpn its] rest IH]; intros n rel d ps' rel' b H.
  - assert (H' : (d, ps', rel', b) = (0, @nil portion, rel, false)) by (destruct n; cbn [discard] in H; congruence).
    injection H' as -> -> -> ->. cbn [stack flat_map]. rewrite firstn_nil.
    split; [reflexivity|split; [reflexivity|intros z; reflexivity]].
  - destruct n as [|n'].
    + cbn [discard] in H. injection H as <- <- <- <-. cbn [firstn app length].
      split; [reflexivity|split; [reflexivity|intros z; reflexivity]].
    + cbn [discard] in H.
      set (n := S n') in *.
      set (k := Nat.min (length its) n) in *.
      destruct (skipn k its) as [|y its'] eqn:Es.
      * (* the whole portion goes *)
        assert (Hk : k = length its /\ length its <= n).
        { assert (Hl : length (skipn k its) = 0) by (rewrite Es; reflexivity).
          rewrite skipn_length in Hl. unfold k in *. lia. }
        destruct Hk as [Hk Hle]. clearbody k. subst k.
        destruct (discard (n - length its) rest (hpn :: rel)) as [[[d1 ps1] rel1] b1] eqn:Ed.
        injection H as <- <- <- <-.
        apply IH in Ed. destruct Ed as [E1 [E2 E3]].
        rewrite stack_cons, heads_cons.
        assert (Hn : n = length its + (n - length its)) by lia.
        rewrite Hn at 1 2. rewrite !firstn_app_2.
        split; [rewrite <- app_assoc; f_equal; exact E1|].
        split; [rewrite app_length, E2; reflexivity|].
        intros z. specialize (E3 z). cnt_norm. cnt_norm_in E3. lia.
      * (* part of the head portion stays *)
        injection H as <- <- <- <-.
        assert (Hk : k = n /\ n < length its).
        { assert (Hl : length (skipn k its) > 0) by (rewrite Es; cbn; lia).
          rewrite skipn_length in Hl. unfold k in *. lia. }
        destruct Hk as [Hk Hlt]. rewrite Hk in Es.
        rewrite !stack_cons, !heads_cons.
        rewrite firstn_app. replace (n - length its) with 0 by lia. cbn [firstn]. rewrite app_nil_r.
        split; [rewrite <- Es, app_assoc, firstn_skipn; reflexivity|].
        split; [rewrite firstn_length; lia|].
        intros z. reflexivity.
Qed.

(* ---------------------------------------------------------------------------------------------- *)
(* preallocate                                                                                     *)

Definition Hm (st : pre) (z : N) : nat :=
  cnt (heads (p_ps st)) z + cnt (p_rel st) z + cnt (p_new st) z + cnt (p_push st) z.

Definition pre_rel (st st' : pre) : Prop :=
  exists popped k,
    stack (p_ps st) = popped ++ stack (p_ps st') /\
    p_bump st' = (p_bump st + N.of_nat k)%N /\
    (forall z, Hm st z + cnt popped z + cnt (seqN (p_bump st) k) z = Hm st' z) /\
    incl (seqN (p_bump st) k) (p_new st') /\
    (0 < k -> p_ps st' = []) /\
    (exists e, p_new st' = p_new st ++ e) /\
    (exists e, p_push st' = p_push st ++ e).

Lemma pre_rel_refl : forall st, pre_rel st st.
Proof.
  intros st. exists [], 0. cbn [app seqN N.of_nat]. rewrite N.add_0_r.
  split; [reflexivity|]. split; [reflexivity|]. split; [intros z; cnt_norm; lia|].
  split; [intros x []|]. split; [lia|]. split; exists []; rewrite app_nil_r; reflexivity.
Qed.

Section Pre.
  Variable cap : nat.

  Lemma pre_loop_nil : forall fuel st st',
      pre_loop cap fuel st = Some st' -> p_ps st = [] -> p_ps st' = [].
  Proof.
    induction fuel as [|f IH]; intros st st' H Hnil.
    - cbn [pre_loop] in H. destruct (p_i st <? length (p_push st)); [discriminate|].
      injection H as <-. exact Hnil.
    - cbn [pre_loop] in H. destruct (p_i st <? length (p_push st)); [|injection H as <-; exact Hnil].
      rewrite Hnil in H. replace (if p_nfp st then [] else []) with (@nil portion) in H by (destruct (p_nfp st); reflexivity).
      cbn [pop_ps] in H. apply IH in H; [exact H|reflexivity].
  Qed.

  Lemma pre_loop_rel : forall fuel st st', pre_loop cap fuel st = Some st' -> pre_rel st st'.
  Proof.
    induction fuel as [|f IH]; intros st st' H.
    - cbn [pre_loop] in H. destruct (p_i st <? length (p_push st)); [discriminate|].
      injection H as <-. apply pre_rel_refl.
    - cbn [pre_loop] in H. destruct (p_i st <? length (p_push st)); [|injection H as <-; apply pre_rel_refl].
      destruct st as [ps rel push new bump i nfp]. cbn [p_ps p_rel p_push p_new p_bump p_i p_nfp] in H.
      destruct (if nfp then ps else []) as [|[h its] r] eqn:Esel.
      + (* pop or bump *)
        destruct (pop_ps ps rel) as [[[[pn ps1] rel1]|]|] eqn:Epop; [| |discriminate].
        * apply pop_ps_some in Epop. destruct Epop as [Est [Ehd _]].
          destruct rel1 as [|x rel2].
          -- apply IH in H. destruct H as [popped [k [E1 [E2 [E3 [E4 [E5 [[e6 E6] [e7 E7]]]]]]]]].
             cbn [p_ps p_rel p_push p_new p_bump] in *.
             exists (pn :: popped), k. cbn [p_ps p_rel p_push p_new p_bump].
             split; [rewrite Est, E1; reflexivity|]. split; [exact E2|].
             split.
             { intros z. specialize (E3 z). specialize (Ehd z). unfold Hm in *.
               cbn [p_ps p_rel p_push p_new] in *. cnt_norm. cnt_norm_in E3. cnt_norm_in Ehd. lia. }
             split; [exact E4|]. split; [exact E5|].
             split; [exists ([pn] ++ e6); rewrite E6, <- app_assoc; reflexivity|].
             exists e7; exact E7.
          -- apply IH in H. destruct H as [popped [k [E1 [E2 [E3 [E4 [E5 [[e6 E6] [e7 E7]]]]]]]]].
             cbn [p_ps p_rel p_push p_new p_bump] in *.
             exists (pn :: popped), k. cbn [p_ps p_rel p_push p_new p_bump].
             split; [rewrite Est, E1; reflexivity|]. split; [exact E2|].
             split.
             { intros z. specialize (E3 z). specialize (Ehd z). unfold Hm in *.
               cbn [p_ps p_rel p_push p_new] in *. cnt_norm. cnt_norm_in E3. cnt_norm_in Ehd. lia. }
             split; [exact E4|]. split; [exact E5|].
             split; [exists ([pn; x] ++ e6); rewrite E6, <- app_assoc; reflexivity|].
             exists e7; exact E7.
        * apply pop_ps_none in Epop. subst ps.
          pose proof (pre_loop_nil _ _ _ H eq_refl) as Hnil.
          apply IH in H. destruct H as [popped [k [E1 [E2 [E3 [E4 [E5 [[e6 E6] [e7 E7]]]]]]]]].
          cbn [p_ps p_rel p_push p_new p_bump] in *.
          exists popped, (S k). cbn [p_ps p_rel p_push p_new p_bump].
          split; [exact E1|]. split; [rewrite E2; lia|].
          split.
          { intros z. specialize (E3 z). unfold Hm in *.
            cbn [p_ps p_rel p_push p_new seqN] in *. cnt_norm. cnt_norm_in E3. lia. }
          split.
          { intros y Hy. cbn [seqN In] in Hy. destruct Hy as [<-|Hy]; [|apply E4; exact Hy].
            rewrite E6. apply in_or_app. left. apply in_or_app. right. left. reflexivity. }
          split; [intros _; exact Hnil|].
          split; [exists ([bump] ++ e6); rewrite E6, <- app_assoc; reflexivity|].
          exists e7; exact E7.
      + (* the untouched full portion below is opened: its page number is scheduled for pushing,
           one of its items becomes its new page number *)
        destruct nfp; [|discriminate]. subst ps.
        destruct its as [|y its']; [discriminate|].
        apply IH in H. destruct H as [popped [k [E1 [E2 [E3 [E4 [E5 [[e6 E6] [e7 E7]]]]]]]]].
        cbn [p_ps p_rel p_push p_new p_bump] in *.
        exists (y :: popped), k. cbn [p_ps p_rel p_push p_new p_bump].
        split; [rewrite stack_cons in *; cbn [app]; rewrite E1; reflexivity|]. split; [exact E2|].
        split.
        { intros z. specialize (E3 z). unfold Hm in *.
          cbn [p_ps p_rel p_push p_new] in *. rewrite heads_cons in *. cnt_norm. cnt_norm_in E3. lia. }
        split; [exact E4|]. split; [exact E5|].
        split; [exists e6; exact E6|].
        exists ([h] ++ e7). rewrite E7, <- app_assoc. reflexivity.
  Qed.

  (* lines 212-258 *)
  Lemma pre_first_rel : forall ps rel push bump st,
      pre_first cap ps rel push bump = Some st ->
      exists popped,
        stack ps = popped ++ stack (p_ps st) /\ p_bump st = bump /\
        (forall z, cnt (heads ps) z + cnt rel z + cnt push z + cnt popped z = Hm st z) /\
        (exists e, p_push st = push ++ e).
  Proof.
    intros ps rel push bump st H. unfold pre_first in H.
    destruct (pop_ps ps rel) as [[[[pn ps1] rel1]|]|] eqn:Epop; [| |discriminate].
    - apply pop_ps_some in Epop. destruct Epop as [Est [Ehd _]].
      assert (Hgen : forall st0, p_bump st0 = bump ->
                 stack ps1 = stack (p_ps st0) ->
                 (forall z, cnt (heads ps1) z + cnt rel1 z + cnt push z + one pn z = Hm st0 z) ->
                 (exists e, p_push st0 = push ++ e) ->
                 exists popped,
                   stack ps = popped ++ stack (p_ps st0) /\ p_bump st0 = bump /\
                   (forall z, cnt (heads ps) z + cnt rel z + cnt push z + cnt popped z = Hm st0 z) /\
                   (exists e, p_push st0 = push ++ e)).
      { intros st0 Hb Hs Hc He. exists [pn].
        split; [rewrite Est, Hs; reflexivity|]. split; [exact Hb|]. split; [|exact He].
        intros z. specialize (Hc z). specialize (Ehd z). cnt_norm. lia. }
      destruct rel1 as [|x rel2].
      + destruct ps1 as [|[h its] r]; [discriminate|].
        destruct (csub cap (length its)) as [i|]; [|discriminate]. cbn [obind] in H.
        injection H as <-. apply Hgen; cbn [p_ps p_rel p_push p_new p_bump].
        * reflexivity.
        * reflexivity.
        * intros z. unfold Hm. cbn [p_ps p_rel p_push p_new]. rewrite !heads_cons. cnt_norm. lia.
        * exists [h]. reflexivity.
      + destruct ps1 as [|[nh nits] r].
        * injection H as <-. apply Hgen; cbn [p_ps p_rel p_push p_new p_bump].
          -- reflexivity.
          -- reflexivity.
          -- intros z. unfold Hm. cbn [p_ps p_rel p_push p_new]. cnt_norm. lia.
          -- exists [x]. reflexivity.
        * destruct (length nits =? cap - 1).
          -- destruct (csub cap (length nits)) as [i|]; [|discriminate]. cbn [obind] in H.
             injection H as <-. apply Hgen; cbn [p_ps p_rel p_push p_new p_bump].
             ++ reflexivity.
             ++ reflexivity.
             ++ intros z. unfold Hm. cbn [p_ps p_rel p_push p_new]. rewrite !heads_cons. cnt_norm. lia.
             ++ exists [nh; x]. reflexivity.
          -- injection H as <-. apply Hgen; cbn [p_ps p_rel p_push p_new p_bump].
             ++ reflexivity.
             ++ reflexivity.
             ++ intros z. unfold Hm. cbn [p_ps p_rel p_push p_new]. rewrite !heads_cons. cnt_norm. lia.
             ++ exists [x]. reflexivity.
    - injection H as <-. exists []. cbn [p_ps p_bump p_push app].
      split; [reflexivity|]. split; [reflexivity|].
      split; [intros z; unfold Hm; cbn [p_ps p_rel p_push p_new]; cnt_norm; lia|].
      exists []. rewrite app_nil_r. reflexivity.
  Qed.

  Lemma preallocate_rel : forall ps rel push bump st',
      preallocate cap ps rel push bump = Some st' ->
      exists popped k,
        stack ps = popped ++ stack (p_ps st') /\
        p_bump st' = (bump + N.of_nat k)%N /\
        (forall z, cnt (heads ps) z + cnt rel z + cnt push z + cnt popped z + cnt (seqN bump k) z = Hm st' z) /\
        incl (seqN bump k) (p_new st') /\
        (0 < k -> p_ps st' = []) /\
        (exists e, p_push st' = push ++ e).
  Proof.
    intros ps rel push bump st' H. unfold preallocate in H.
    destruct (pre_first cap ps rel push bump) as [st|] eqn:E1; [|discriminate]. cbn [obind] in H.
    apply pre_first_rel in E1. destruct E1 as [p1 [A1 [A2 [A3 [a4 A4]]]]].
    apply pre_loop_rel in H. destruct H as [p2 [k [B1 [B2 [B3 [B4 [B5 [_ [b7 B7]]]]]]]]].
    exists (p1 ++ p2), k. rewrite A2 in *.
    split; [rewrite A1, B1, app_assoc; reflexivity|]. split; [exact B2|].
    split; [intros z; specialize (A3 z); specialize (B3 z); cnt_norm; lia|].
    split; [exact B4|]. split; [exact B5|].
    exists (a4 ++ b7). rewrite B7, A4, app_assoc. reflexivity.
  Qed.

  (* push_and_encode: the scheduled page numbers go on top of the stack in order, the new pages
     become the page numbers of the new portions in order *)
  Lemma push_enc_spec : forall push ps new clean enc ps' enc',
      push_enc cap ps push new clean enc = Some (ps', enc') ->
      stack ps' = rev push ++ stack ps /\ heads ps' = rev new ++ heads ps.
  Proof.
    induction push as [|pn rest IH]; intros ps new clean enc ps' enc' H; cbn [push_enc] in H.
    - destruct new; [|discriminate]. injection H as <- _. split; reflexivity.
    - destruct ((match ps with [] => true | (_, its) :: _ => length its =? cap end)
                || (match ps with [] => false | (_, its) :: _ => length its =? cap - 1 end
                    && negb (is_nil new) && is_nil rest)).
      + destruct new as [|np new']; [discriminate|].
        apply IH in H. destruct H as [H1 H2]. rewrite stack_cons in H1. rewrite heads_cons in H2.
        cbn [rev]. rewrite <- !app_assoc. cbn [app]. split; assumption.
      + destruct ps as [|[h its] r]; [discriminate|].
        destruct (length its <? cap); [|discriminate].
        apply IH in H. destruct H as [H1 H2]. rewrite stack_cons in *. rewrite heads_cons in *.
        cbn [rev]. rewrite <- !app_assoc. cbn [app]. split; assumption.
  Qed.

  Lemma pop_ps_rel : forall ps rel x ps' rel',
      pop_ps ps rel = Some (Some (x, ps', rel')) -> rel' = rel \/ exists h, rel' = h :: rel.
  Proof.
    intros ps rel x ps' rel' H. unfold pop_ps in H.
    destruct ps as [|[hpn its] rest]; [discriminate|].
    destruct its as [|y [|y2 its'']]; [discriminate| |]; injection H as <- <- <-.
    - right. exists hpn. reflexivity.
    - left. reflexivity.
  Qed.

  Lemma pre_loop_rel_nil : forall fuel st st',
      pre_loop cap fuel st = Some st' -> p_rel st = [] -> p_rel st' = [].
  Proof.
    induction fuel as [|f IH]; intros st st' H Hnil.
    - cbn [pre_loop] in H. destruct (p_i st <? length (p_push st)); [discriminate|].
      injection H as <-. exact Hnil.
    - cbn [pre_loop] in H. destruct (p_i st <? length (p_push st)); [|injection H as <-; exact Hnil].
      destruct (if p_nfp st then p_ps st else []) as [|[h its] r].
      + destruct (pop_ps (p_ps st) (p_rel st)) as [[[[pn ps1] rel1]|]|] eqn:Epop; [| |discriminate].
        * apply pop_ps_rel in Epop. rewrite Hnil in Epop.
          destruct rel1 as [|x rel2].
          -- apply IH in H; [exact H|reflexivity].
          -- apply IH in H; [exact H|]. cbn [p_rel].
             destruct Epop as [Ep|[h Ep]]; [discriminate|]. injection Ep as _ <-. reflexivity.
        * apply IH in H; [exact H|exact Hnil].
      + destruct its as [|y its']; [discriminate|]. apply IH in H; [exact H|exact Hnil].
  Qed.

  Lemma preallocate_rel_nil : forall ps push bump st',
      preallocate cap ps [] push bump = Some st' -> p_rel st' = [].
  Proof.
    intros ps push bump st' H. unfold preallocate in H.
    destruct (pre_first cap ps [] push bump) as [st|] eqn:E1; [|discriminate]. cbn [obind] in H.
    apply pre_loop_rel_nil in H; [exact H|].
    unfold pre_first in E1.
    destruct (pop_ps ps []) as [[[[pn ps1] rel1]|]|] eqn:Epop; [| |discriminate].
    - apply pop_ps_rel in Epop.
      destruct rel1 as [|x rel2].
      + destruct ps1 as [|[h its] r]; [discriminate|].
        destruct (csub cap (length its)); [|discriminate]. injection E1 as <-. reflexivity.
      + assert (Hr : rel2 = []) by (destruct Epop as [Ep|[h Ep]]; [discriminate|injection Ep as _ <-; reflexivity]).
        subst rel2.
        destruct ps1 as [|[nh nits] r]; [injection E1 as <-; reflexivity|].
        destruct (length nits =? cap - 1).
        * destruct (csub cap (length nits)); [|discriminate]. injection E1 as <-. reflexivity.
        * injection E1 as <-. reflexivity.
    - injection E1 as <-. reflexivity.
  Qed.

  (* FreeList::commit as a whole: nothing is lost, nothing is invented except [k] frontier pages,
     which become portion pages and are taken only when no item is left ([rest] = []).  The items
     that stay keep their place at the bottom of the stack; everything pushed is on top in the
     order of pushing: first [freed], then the released portion pages, then the page numbers
     scheduled by preallocate *)
  Theorem commit_conservation : forall s freed bump s' bump' ws,
      commit cap s freed bump = Some (s', bump', ws) ->
      exists popped k pushed rest,
        bump' = (bump + N.of_nat k)%N /\
        stack (fl_portions s) = popped ++ rest /\
        stack (fl_portions s') = rev pushed ++ rest /\
        (forall z, cnt (heads (fl_portions s)) z + cnt (fl_released s) z + cnt freed z
                   + cnt popped z + cnt (seqN bump k) z
                   = cnt (heads (fl_portions s')) z + cnt (fl_released s') z + cnt pushed z) /\
        incl (seqN bump k) (heads (fl_portions s')) /\
        (0 < k -> rest = []) /\
        (fl_pop s = true \/ freed <> [] ->
         fl_released s' = [] /\ exists extra, pushed = freed ++ rev (fl_released s) ++ extra).
  Proof.
    intros s freed bump s' bump' ws H. unfold commit in H.
    destruct (negb (fl_pop s) && is_nil freed) eqn:Enoop.
    - injection H as <- <- <-. cbn [fl_portions fl_released].
      apply andb_true_iff in Enoop. destruct Enoop as [Ep Ef].
      destruct freed; [|discriminate]. apply negb_true_iff in Ep.
      exists [], 0, [], (stack (fl_portions s)). cbn [N.of_nat seqN app rev].
      split; [lia|]. split; [reflexivity|]. split; [reflexivity|].
      split; [intros z; cnt_norm; lia|]. split; [intros y []|]. split; [lia|].
      intros [Hc|Hc]; [congruence|contradiction].
    - destruct (preallocate cap (fl_portions s) [] (freed ++ rev (fl_released s)) bump) as [st|] eqn:Epre; [|discriminate].
      cbn [obind] in H.
      destruct (push_enc cap (p_ps st) (p_push st) (p_new st) (head_untouched st) []) as [[ps' enc']|] eqn:Eenc; [|discriminate].
      cbn [obind fst snd] in H. injection H as <- <- <-. cbn [fl_portions fl_released].
      pose proof (preallocate_rel_nil _ _ _ _ Epre) as Hrel.
      apply preallocate_rel in Epre. destruct Epre as [popped [k [A1 [A2 [A3 [A4 [A5 [e A6]]]]]]]].
      apply push_enc_spec in Eenc. destruct Eenc as [B1 B2].
      exists popped, k, (p_push st), (stack (p_ps st)).
      split; [exact A2|]. split; [exact A1|]. split; [exact B1|].
      split.
      { intros z. specialize (A3 z). unfold Hm in A3. rewrite Hrel in A3 |- *. rewrite B2. cnt_norm. cnt_norm_in A3. lia. }
      split; [intros y Hy; rewrite B2; apply in_or_app; left; apply in_rev; rewrite rev_involutive; apply A4; exact Hy|].
      split; [intros Hk; rewrite (A5 Hk); reflexivity|].
      intros _. split; [exact Hrel|]. exists e. rewrite A6, <- app_assoc. reflexivity.
  Qed.

  Lemma push_enc_written : forall push ps new clean enc ps' enc',
      push_enc cap ps push new clean enc = Some (ps', enc') ->
      forall w, In w enc' -> In w enc \/ In (fst (fst w)) (heads ps').
  Proof.
    induction push as [|pn rest IH]; intros ps new clean enc ps' enc' H w Hw; cbn [push_enc] in H.
    - destruct new; [|discriminate]. injection H as <- <-.
      destruct clean; [left; exact Hw|].
      apply in_app_or in Hw. destruct Hw as [Hw|Hw]; [left; exact Hw|right].
      destruct ps as [|[h its] r]; [destruct Hw|]. cbn [encode_head In] in Hw.
      destruct Hw as [<-|[]]. left. reflexivity.
    - assert (Hsub : forall ps1 new1 c1 enc1, push_enc cap ps1 rest new1 c1 enc1 = Some (ps', enc') ->
                                       forall h, In h (heads ps1) -> In h (heads ps')).
      { intros ps1 new1 c1 enc1 H1 h Hh. apply push_enc_spec in H1. destruct H1 as [_ H1].
        rewrite H1. apply in_or_app. right. exact Hh. }
      destruct ((match ps with [] => true | (_, its) :: _ => length its =? cap end)
                || (match ps with [] => false | (_, its) :: _ => length its =? cap - 1 end
                    && negb (is_nil new) && is_nil rest)).
      + destruct new as [|np new']; [discriminate|].
        pose proof (Hsub _ _ _ _ H) as Hs.
        apply (IH _ _ _ _ _ _ H) in Hw. destruct Hw as [Hw|Hw]; [|right; exact Hw].
        destruct clean; [left; exact Hw|].
        apply in_app_or in Hw. destruct Hw as [Hw|Hw]; [left; exact Hw|right].
        destruct ps as [|[h its] r]; [destruct Hw|]. cbn [encode_head In] in Hw.
        destruct Hw as [<-|[]]. cbn [fst]. apply Hs. rewrite !heads_cons. right. left. reflexivity.
      + destruct ps as [|[h its] r]; [discriminate|].
        destruct (length its <? cap); [|discriminate].
        apply (IH _ _ _ _ _ _ H) in Hw. exact Hw.
  Qed.

  Lemma commit_written : forall s freed bump s' bump' ws,
      commit cap s freed bump = Some (s', bump', ws) ->
      forall w, In w ws -> In (fst (fst w)) (heads (fl_portions s')).
  Proof.
    intros s freed bump s' bump' ws H w Hw. unfold commit in H.
    destruct (negb (fl_pop s) && is_nil freed); [injection H as _ _ <-; destruct Hw|].
    destruct (preallocate cap (fl_portions s) [] (freed ++ rev (fl_released s)) bump) as [st|]; [|discriminate].
    cbn [obind] in H. destruct (push_enc cap (p_ps st) (p_push st) (p_new st) (head_untouched st) []) as [[ps2 enc2]|] eqn:Eenc; [|discriminate].
    cbn [obind fst snd] in H. injection H as <- _ <-. cbn [fl_portions].
    destruct (push_enc_written _ _ _ _ _ _ _ Eenc w Hw) as [[]|Hh]. exact Hh.
  Qed.

  Lemma commit_pop_false : forall s freed bump s' bump' ws,
      commit cap s freed bump = Some (s', bump', ws) -> fl_pop s' = false.
  Proof.
    intros s freed bump s' bump' ws H. unfold commit in H.
    destruct (negb (fl_pop s) && is_nil freed); [injection H as <- _ _; reflexivity|].
    destruct (preallocate cap (fl_portions s) [] (freed ++ rev (fl_released s)) bump) as [st|]; [|discriminate].
    cbn [obind] in H. destruct (push_enc cap (p_ps st) (p_push st) (p_new st) (head_untouched st) []) as [r|]; [|discriminate].
    cbn [obind] in H. injection H as <- _ _. reflexivity.
  Qed.

End Pre.

(* ---------------------------------------------------------------------------------------------- *)
(* C. get_nth_pop is the n-th pop (on the lists FreeList::read and commit produce)                 *)

Section Nth.
  Variable cap : nat.
  Hypothesis cap_pos : 1 <= cap.

  Definition full (p : portion) : Prop := length (snd p) = cap.

  Lemma forallb_full : forall r, forallb (fun p : portion => length (snd p) =? cap) r = true <-> Forall full r.
  Proof.
    intros r. rewrite forallb_forall, Forall_forall. split; intros H p Hp.
    - apply H in Hp. apply Nat.eqb_eq in Hp. exact Hp.
    - apply Nat.eqb_eq. apply H. exact Hp.
  Qed.

  Lemma shape_b_cons : forall h its r,
      shape_b cap ((h, its) :: r) = true <->
      (1 <= length its <= cap /\
       match r with
       | [] => True
       | (_, pits) :: r' =>
           (length pits = cap \/ (length pits = cap - 1 /\ length its = 1)) /\ Forall full r'
       end).
  Proof.
    intros h its r. cbn [shape_b]. rewrite !andb_true_iff, Nat.leb_le, Nat.leb_le.
    destruct r as [|[p pits] r'].
    - intuition.
    - rewrite andb_true_iff, orb_true_iff, andb_true_iff, !Nat.eqb_eq, forallb_full. intuition.
  Qed.

  Lemma stack_full_length : forall r, Forall full r -> length (stack r) = length r * cap.
  Proof.
    intros r H. induction H as [|[p its] r Hp Hr IH]; [reflexivity|].
    rewrite stack_cons, app_length, IH. unfold full in Hp. cbn [snd length] in *. lia.
  Qed.

  Lemma stack_full_nth : forall r n, Forall full r ->
      nth_error (stack r) n = obind (nth_error r (n / cap)) (fun p => nth_error (snd p) (n mod cap)).
  Proof.
    intros r n H. revert n. induction H as [|[p its] r Hp Hr IH]; intros n.
    - cbn [stack flat_map]. destruct (n / cap), n; reflexivity.
    - unfold full in Hp. cbn [snd] in Hp. rewrite stack_cons.
      destruct (Nat.lt_ge_cases n cap) as [Hlt|Hge].
      + rewrite Nat.div_small, Nat.mod_small by exact Hlt. cbn [nth_error obind snd].
        apply nth_error_app1. lia.
      + rewrite nth_error_app2 by lia. rewrite Hp, IH.
        assert (Hd : n / cap = S ((n - cap) / cap)).
        { replace n with ((n - cap) + 1 * cap) at 1 by lia. rewrite Nat.div_add by lia. lia. }
        assert (Hm' : n mod cap = (n - cap) mod cap).
        { replace n with ((n - cap) + 1 * cap) at 1 by lia. rewrite Nat.mod_add by lia. reflexivity. }
        rewrite Hd, Hm'. reflexivity.
  Qed.

  Lemma vec_at_spec : forall {A} (l : list A) k, k < length l -> vec_at l k = nth_error l (length l - 1 - k).
  Proof. intros A l k H. unfold vec_at. apply Nat.ltb_lt in H. rewrite H. reflexivity. Qed.

  Lemma csub_spec : forall a b, b <= a -> csub a b = Some (a - b).
  Proof. intros a b H. unfold csub. apply Nat.leb_le in H. rewrite H. reflexivity. Qed.

  Lemma clean_b_spec : forall s,
      clean_b cap s = true ->
      fl_pop s = false /\ fl_released s = [] /\ fl_len s = fst (len_frag cap (fl_portions s)) /\
      fl_frag s = snd (len_frag cap (fl_portions s)) /\ shape_b cap (fl_portions s) = true.
  Proof.
    intros s H. unfold clean_b in H. rewrite !andb_true_iff in H.
    destruct H as [[[[H1 H2] H3] H4] H5].
    split; [apply negb_true_iff; exact H1|].
    split; [destruct (fl_released s); [reflexivity|discriminate]|].
    split; [apply Nat.eqb_eq; exact H3|]. split; [apply eqb_prop; exact H4|exact H5].
  Qed.

  (* the recorded length is the number of items *)
  Lemma clean_len : forall s, clean_b cap s = true -> fl_len s = length (stack (fl_portions s)).
  Proof.
    intros s H. apply clean_b_spec in H. destruct H as [_ [_ [Hl [_ Hs]]]]. rewrite Hl. clear Hl.
    destruct (fl_portions s) as [|[h its] r]; [reflexivity|].
    apply shape_b_cons in Hs. destruct Hs as [Hits Hr].
    cbn [len_frag]. destruct r as [|[p pits] r'].
    - cbn [fst]. rewrite stack_cons, app_length. cbn [stack flat_map length]. lia.
    - destruct Hr as [Hp Hf]. rewrite !stack_cons, !app_length, (stack_full_length _ Hf).
      destruct (length its =? 1) eqn:E1; cbn [fst].
      + apply Nat.eqb_eq in E1. lia.
      + apply Nat.eqb_neq in E1. cbn [length]. lia.
  Qed.

  Lemma full_index : forall (l : list portion) q j, Forall full l -> j < cap ->
      obind (nth_error l q)
            (fun p0 => obind (csub cap j) (fun a => obind (csub a 1) (fun i => vec_at (snd p0) i)))
      = obind (nth_error l q) (fun p => nth_error (snd p) j).
  Proof.
    intros l q j Hf Hj. destruct (nth_error l q) as [p0|] eqn:E; cbn [obind]; [|reflexivity].
    assert (Hp : full p0) by (rewrite Forall_forall in Hf; apply Hf; eapply nth_error_In; exact E).
    unfold full in Hp.
    rewrite csub_spec by lia. cbn [obind]. rewrite csub_spec by lia. cbn [obind].
    rewrite vec_at_spec by lia. f_equal. lia.
  Qed.

  Theorem get_nth_pop_spec : forall s n,
      clean_b cap s = true -> n < fl_len s ->
      get_nth_pop cap s n = nth_error (stack (fl_portions s)) n.
  Proof.
    intros s n Hc Hn. pose proof (clean_len s Hc) as Hlen. rewrite Hlen in Hn.
    apply clean_b_spec in Hc. destruct Hc as [_ [_ [_ [Hfr Hs]]]].
    unfold get_nth_pop. rewrite Hfr. clear Hfr Hlen.
    destruct (fl_portions s) as [|[h its] r]; [cbn [stack flat_map length] in Hn; lia|].
    apply shape_b_cons in Hs. destruct Hs as [Hits Hr].
    destruct r as [|[p pits] r'].
    - (* a single portion *)
      cbn [len_frag snd length]. rewrite stack_cons in *. cbn [stack flat_map] in *. rewrite app_nil_r in *.
      rewrite csub_spec by lia. cbn [obind]. rewrite vec_at_spec by (cbn [length]; lia). cbn [length].
      cbn [length Nat.sub nth_error obind snd].
      apply Nat.ltb_lt in Hn. rewrite Hn. apply Nat.ltb_lt in Hn.
      rewrite csub_spec by lia. cbn [obind]. rewrite csub_spec by lia. cbn [obind].
      rewrite vec_at_spec by lia. f_equal. lia.
    - destruct Hr as [Hp Hf].
      rewrite !stack_cons, !app_length, (stack_full_length _ Hf) in Hn.
      cbn [len_frag snd].
      destruct (length its =? 1) eqn:E1.
      + apply Nat.eqb_eq in E1.
        destruct (length pits =? cap) eqn:E2; cbn [snd negb].
        * (* head of one item, everything below full: not fragmented *)
          apply Nat.eqb_eq in E2.
          assert (Hfall : Forall full (@cons portion (p, pits) r')) by (constructor; [exact E2|exact Hf]).
          cbn [length]. rewrite csub_spec by lia. cbn [obind].
          rewrite vec_at_spec by (cbn [length]; lia). cbn [length].
          replace (S (S (length r')) - 1 - (S (S (length r')) - 1)) with 0 by lia.
          cbn [nth_error obind snd]. rewrite E1.
          destruct (n <? 1) eqn:En.
          -- apply Nat.ltb_lt in En. assert (n = 0) by lia. subst n.
             rewrite csub_spec by lia. cbn [obind]. rewrite csub_spec by lia. cbn [obind].
             rewrite vec_at_spec by lia. rewrite E1. cbn [Nat.sub].
             rewrite stack_cons. destruct its as [|x [|]]; cbn [length] in E1; try lia. reflexivity.
          -- apply Nat.ltb_ge in En.
             assert (Hq : (n - 1) / cap < S (length r')).
             { apply Nat.div_lt_upper_bound; lia. }
             rewrite csub_spec by lia. cbn [obind].
             rewrite vec_at_spec by (cbn [length]; lia). cbn [length].
             replace (S (S (length r')) - 1 - (S (S (length r')) - (2 + (n - 1) / cap))) with (S ((n - 1) / cap)) by lia.
             cbn [nth_error].
             rewrite (stack_cons h its), nth_error_app2 by lia. rewrite E1.
             etransitivity; [apply full_index; [exact Hfall|apply Nat.mod_upper_bound; lia]|].
             symmetry. apply stack_full_nth. exact Hfall.
        * (* the fragmented shape *)
          apply Nat.eqb_neq in E2.
          assert (Hpl : length pits = cap - 1) by (destruct Hp as [Hp|[Hp _]]; [contradiction|exact Hp]).
          destruct its as [|x [|]]; cbn [length] in E1; try lia. clear E1.
          rewrite !stack_cons. cbn [app length].
          destruct (n =? 0) eqn:En0.
          -- apply Nat.eqb_eq in En0. subst n.
             rewrite csub_spec by lia. cbn [obind]. rewrite vec_at_spec by (cbn [length]; lia). cbn [length].
             replace (S (S (length r')) - 1 - (S (S (length r')) - 1)) with 0 by lia.
             cbn [nth_error obind snd]. reflexivity.
          -- apply Nat.eqb_neq in En0.
             destruct (n <? cap) eqn:Enc.
             ++ apply Nat.ltb_lt in Enc.
                rewrite csub_spec by lia. cbn [obind]. rewrite vec_at_spec by (cbn [length]; lia). cbn [length].
                replace (S (S (length r')) - 1 - (S (S (length r')) - 2)) with 1 by lia.
                cbn [nth_error obind snd].
                rewrite csub_spec by lia. cbn [obind]. rewrite csub_spec by lia. cbn [obind].
                rewrite vec_at_spec by lia.
                destruct n as [|n']; [lia|]. cbn [nth_error].
                rewrite nth_error_app1 by lia. f_equal. lia.
             ++ apply Nat.ltb_ge in Enc. cbn [length app] in Hn.
                assert (Hq : n / cap < S (length r')).
                { apply Nat.div_lt_upper_bound; lia. }
                assert (Hq1 : 1 <= n / cap).
                { apply Nat.div_le_lower_bound; lia. }
                rewrite csub_spec by lia. cbn [obind]. rewrite vec_at_spec by (cbn [length]; lia). cbn [length].
                replace (S (S (length r')) - 1 - (S (S (length r')) - (2 + n / cap))) with (S (S (n / cap - 1))) by lia.
                cbn [nth_error].
                destruct n as [|n']; [lia|]. cbn [nth_error].
                rewrite nth_error_app2 by lia. rewrite Hpl.
                assert (Hd : (n' - (cap - 1)) / cap = S n' / cap - 1).
                { replace (S n') with ((n' - (cap - 1)) + 1 * cap) by lia. rewrite Nat.div_add by lia. lia. }
                assert (Hm' : (n' - (cap - 1)) mod cap = S n' mod cap).
                { symmetry. replace (S n') with ((n' - (cap - 1)) + 1 * cap) by lia. apply Nat.mod_add. lia. }
                etransitivity; [apply full_index; [exact Hf|apply Nat.mod_upper_bound; lia]|].
                rewrite <- Hd, <- Hm'. symmetry. apply stack_full_nth. exact Hf.
      + (* the head holds more than one item: everything below is full *)
        apply Nat.eqb_neq in E1. cbn [snd].
        assert (Hpl : length pits = cap) by (destruct Hp as [Hp|[_ Hp]]; [exact Hp|contradiction]).
        assert (Hfall : Forall full (@cons portion (p, pits) r')) by (constructor; [exact Hpl|exact Hf]).
        cbn [length]. rewrite csub_spec by lia. cbn [obind].
        rewrite vec_at_spec by (cbn [length]; lia). cbn [length].
        replace (S (S (length r')) - 1 - (S (S (length r')) - 1)) with 0 by lia.
        cbn [nth_error obind snd].
        destruct (n <? length its) eqn:En.
        * apply Nat.ltb_lt in En.
          rewrite csub_spec by lia. cbn [obind]. rewrite csub_spec by lia. cbn [obind].
          rewrite vec_at_spec by lia. rewrite stack_cons, nth_error_app1 by lia. f_equal. lia.
        * apply Nat.ltb_ge in En.
          assert (Hq : (n - length its) / cap < S (length r')).
          { apply Nat.div_lt_upper_bound; lia. }
          rewrite csub_spec by lia. cbn [obind].
          rewrite vec_at_spec by (cbn [length]; lia). cbn [length].
          replace (S (S (length r')) - 1 - (S (S (length r')) - (2 + (n - length its) / cap)))
            with (S ((n - length its) / cap)) by lia.
          cbn [nth_error].
          rewrite (stack_cons h its), nth_error_app2 by lia.
          etransitivity; [apply full_index; [exact Hfall|apply Nat.mod_upper_bound; lia]|].
          symmetry. apply stack_full_nth. exact Hfall.
  Qed.

End Nth.

(* ---------------------------------------------------------------------------------------------- *)
(* D. one sync                                                                                     *)

Lemma discard_nobody : forall n ps rel d ps' rel' b,
    discard n ps rel = (d, ps', rel', b) -> b = false -> ps' = ps /\ rel' = rel /\ d = 0.
Proof.
  intros n ps rel d ps' rel' b H Hb.
  destruct ps as [|[hpn its] rest]; [destruct n; cbn [discard] in H; injection H as <- <- <- <-; auto|].
  destruct n as [|n']; [cbn [discard] in H; injection H as <- <- <- <-; auto|].
  cbn [discard] in H.
  destruct (skipn (Nat.min (length its) (S n')) its).
  - destruct (discard (S n' - Nat.min (length its) (S n')) rest (hpn :: rel)) as [[[d1 ps1] rel1] b1].
    injection H as <- <- <- <-. discriminate.
  - injection H as <- <- <- <-. discriminate.
Qed.

Definition ind (b z : N) : nat := if ((1 <=? z) && (z <? b))%N then 1 else 0.

Lemma cnt_seqN : forall k b z, cnt (seqN b k) z = if ((b <=? z) && (z <? b + N.of_nat k))%N then 1 else 0.
Proof.
  induction k as [|k IH]; intros b z.
  - cbn [seqN N.of_nat]. rewrite cnt_nil.
    destruct ((b <=? z) && (z <? b + 0))%N eqn:E; [|reflexivity].
    apply andb_true_iff in E. destruct E as [E1 E2]. apply N.leb_le in E1. apply N.ltb_lt in E2. lia.
  - cbn [seqN]. rewrite cnt_cons, IH. unfold one.
    destruct (N.eq_dec b z) as [->|Hne].
    + replace ((N.succ z <=? z) && (z <? N.succ z + N.of_nat k))%N with false.
      2:{ symmetry. apply andb_false_iff. left. apply N.leb_gt. lia. }
      replace ((z <=? z) && (z <? z + N.of_nat (S k)))%N with true; [reflexivity|].
      symmetry. apply andb_true_iff. split; [apply N.leb_le; lia|apply N.ltb_lt; lia].
    + destruct ((N.succ b <=? z) && (z <? N.succ b + N.of_nat k))%N eqn:E.
      * apply andb_true_iff in E. destruct E as [E1 E2]. apply N.leb_le in E1. apply N.ltb_lt in E2.
        replace ((b <=? z) && (z <? b + N.of_nat (S k)))%N with true; [reflexivity|].
        symmetry. apply andb_true_iff. split; [apply N.leb_le; lia|apply N.ltb_lt; lia].
      * replace ((b <=? z) && (z <? b + N.of_nat (S k)))%N with false; [reflexivity|].
        symmetry. apply andb_false_iff. apply andb_false_iff in E.
        destruct E as [E|E]; [left; apply N.leb_gt in E; apply N.leb_gt; lia|right; apply N.ltb_ge in E; apply N.ltb_ge; lia].
Qed.

Lemma ind_extend : forall b k z, (1 <= b)%N -> ind (b + N.of_nat k) z = ind b z + cnt (seqN b k) z.
Proof.
  intros b k z Hb. rewrite cnt_seqN. unfold ind.
  destruct (1 <=? z)%N eqn:E1, (z <? b)%N eqn:E2, (b <=? z)%N eqn:E3, (z <? b + N.of_nat k)%N eqn:E4; cbn [andb];
    try reflexivity;
    repeat match goal with
           | H : (_ <=? _)%N = true |- _ => apply N.leb_le in H
           | H : (_ <=? _)%N = false |- _ => apply N.leb_gt in H
           | H : (_ <? _)%N = true |- _ => apply N.ltb_lt in H
           | H : (_ <? _)%N = false |- _ => apply N.ltb_ge in H
           end; lia.
Qed.

Lemma covers_cnt : forall l b, covers l b <-> forall z, cnt l z = ind b z.
Proof.
  intros l b. unfold covers. split.
  - intros [Hnd Hin] z. apply nodup_cnt with (x := z) in Hnd. specialize (Hin z).
    rewrite cnt_in in Hin. unfold ind.
    destruct ((1 <=? z) && (z <? b))%N eqn:E.
    + apply andb_true_iff in E. destruct E as [E1 E2]. apply N.leb_le in E1. apply N.ltb_lt in E2.
      assert (cnt l z > 0) by (apply Hin; lia). lia.
    + destruct (cnt l z) as [|c] eqn:Ec; [reflexivity|].
      assert (Hr : (1 <= z /\ z < b)%N) by (apply Hin; lia).
      apply andb_false_iff in E. destruct E as [E|E]; [apply N.leb_gt in E|apply N.ltb_ge in E]; lia.
  - intros H. split.
    + apply nodup_cnt. intros z. rewrite H. unfold ind. destruct ((1 <=? z) && (z <? b))%N; lia.
    + intros z. rewrite cnt_in, H. unfold ind.
      destruct ((1 <=? z) && (z <? b))%N eqn:E.
      * apply andb_true_iff in E. destruct E as [E1 E2]. apply N.leb_le in E1. apply N.ltb_lt in E2.
        split; [lia|intros _; lia].
      * apply andb_false_iff in E. split; [lia|].
        destruct E as [E|E]; [apply N.leb_gt in E|apply N.ltb_ge in E]; lia.
Qed.

Lemma cnt_remove1 : forall x l z, In x l -> cnt (remove1 x l) z + one x z = cnt l z.
Proof.
  intros x l z. induction l as [|y r IH]; intros Hin; [destruct Hin|].
  cbn [remove1]. destruct (x =? y)%N eqn:E.
  - apply N.eqb_eq in E. subst y. rewrite cnt_cons. lia.
  - apply N.eqb_neq in E. destruct Hin as [->|Hin]; [congruence|].
    rewrite !cnt_cons. specialize (IH Hin). lia.
Qed.

(* live' = live - released + allocated, as multisets *)
Lemma live_after_cnt : forall ops live got,
    ops_ok live ops got -> length got = n_allocs ops ->
    forall z, cnt (live_after live ops got) z + cnt (released_of ops) z = cnt live z + cnt got z.
Proof.
  induction ops as [|o r IH]; intros live got Hok Hlen z.
  - destruct got; [|discriminate]. cbn [live_after released_of flat_map]. cnt_norm. lia.
  - destruct o as [|pn].
    + destruct got as [|g got']; [discriminate|].
      cbn [live_after ops_ok released_of flat_map app] in *.
      unfold n_allocs in Hlen. cbn [filter length] in Hlen. injection Hlen as Hlen.
      specialize (IH (g :: live) got' Hok Hlen z). unfold released_of in IH. cnt_norm. cnt_norm_in IH. lia.
    + cbn [live_after ops_ok released_of flat_map app] in *. destruct Hok as [Hin Hok].
      unfold n_allocs in Hlen. cbn [filter] in Hlen.
      specialize (IH (remove1 pn live) got Hok Hlen z). unfold released_of in IH.
      pose proof (cnt_remove1 pn live z Hin). cnt_norm. lia.
Qed.

Section Sync.
  Variable cap : nat.
  Hypothesis cap_pos : 1 <= cap.

  (* the page handed out for allocation index [idx] *)
  Definition alloc_nth (ps : list portion) (bump : N) (idx : nat) : N :=
    if idx <? length (stack ps) then nth idx (stack ps) 0%N
    else (bump + N.of_nat (idx - length (stack ps)))%N.

  Lemma allocate_spec : forall s bump idx,
      clean_b cap s = true -> allocate cap s bump idx = Some (alloc_nth (fl_portions s) bump idx).
  Proof.
    intros s bump idx Hc. unfold allocate, alloc_nth.
    pose proof (clean_len cap cap_pos s Hc) as Hlen.
    pose proof (clean_b_spec cap s Hc) as [Hp _]. rewrite Hp, Hlen.
    destruct (length (stack (fl_portions s)) <=? idx) eqn:E.
    - apply Nat.leb_le in E. assert (E' : idx <? length (stack (fl_portions s)) = false) by (apply Nat.ltb_ge; lia).
      rewrite E'. reflexivity.
    - apply Nat.leb_gt in E. assert (E' : idx <? length (stack (fl_portions s)) = true) by (apply Nat.ltb_lt; lia).
      rewrite E'. rewrite get_nth_pop_spec by (assumption || lia).
      apply nth_error_nth'. exact E.
  Qed.

  Lemma alloc_seq_spec : forall ps bump n,
      map (alloc_nth ps bump) (seq 0 n) = firstn n (stack ps) ++ seqN bump (n - length (stack ps)).
  Proof.
    intros ps bump n. induction n as [|n IH].
    - cbn [seq map firstn Nat.sub seqN app]. reflexivity.
    - rewrite seq_S, map_app, IH. cbn [plus map]. unfold alloc_nth.
      destruct (n <? length (stack ps)) eqn:E.
      + apply Nat.ltb_lt in E.
        replace (n - length (stack ps)) with 0 by lia. replace (S n - length (stack ps)) with 0 by lia.
        cbn [seqN]. rewrite !app_nil_r.
        rewrite <- (firstn_skipn n (stack ps)) at 3.
        rewrite firstn_app, firstn_length, firstn_firstn.
        replace (Nat.min (S n) n) with n by lia.
        replace (S n - Nat.min n (length (stack ps))) with 1 by lia.
        f_equal.
        assert (Hs : skipn n (stack ps) = nth n (stack ps) 0%N :: skipn (S n) (stack ps)).
        { clear - E. revert n E. induction (stack ps) as [|x l IHl]; intros n E; [cbn in E; lia|].
          destruct n as [|n]; [reflexivity|]. cbn [skipn nth]. apply IHl. cbn [length] in E. lia. }
        rewrite Hs. reflexivity.
      + apply Nat.ltb_ge in E.
        rewrite !firstn_all2 by lia. rewrite <- app_assoc. f_equal.
        replace (S n - length (stack ps)) with ((n - length (stack ps)) + 1) by lia.
        rewrite seqN_app. reflexivity.
  Qed.

  Lemma sync_run_spec : forall ops y y',
      clean_b cap (sy_fl y) = true ->
      sync_run cap y ops = Some y' ->
      sy_fl y' = sy_fl y /\ sy_bump y' = sy_bump y /\
      sy_allocs y' = sy_allocs y + n_allocs ops /\
      sy_freed y' = sy_freed y ++ released_of ops /\
      sy_got y' = sy_got y ++ map (alloc_nth (fl_portions (sy_fl y)) (sy_bump y)) (seq (sy_allocs y) (n_allocs ops)).
  Proof.
    induction ops as [|o r IH]; intros y y' Hc H.
    - cbn [sync_run] in H. injection H as <-. cbn [n_allocs released_of flat_map filter length seq map].
      rewrite !app_nil_r, Nat.add_0_r. repeat split; reflexivity.
    - cbn [sync_run] in H. destruct o as [|pn].
      + cbn [sync_step] in H. rewrite allocate_spec in H by exact Hc. cbn [obind] in H.
        apply IH in H; [|exact Hc]. cbn [sy_fl sy_bump sy_allocs sy_freed sy_got] in H.
        destruct H as [H1 [H2 [H3 [H4 H5]]]].
        unfold n_allocs in *. cbn [filter length released_of flat_map app seq map].
        split; [exact H1|]. split; [exact H2|]. split; [lia|]. split; [exact H4|].
        rewrite H5, <- app_assoc. reflexivity.
      + cbn [sync_step obind] in H. apply IH in H; [|exact Hc].
        cbn [sy_fl sy_bump sy_allocs sy_freed sy_got] in H.
        destruct H as [H1 [H2 [H3 [H4 H5]]]].
        unfold n_allocs in *. cbn [filter released_of flat_map app].
        split; [exact H1|]. split; [exact H2|]. split; [exact H3|].
        split; [rewrite H4, <- app_assoc; reflexivity|exact H5].
  Qed.

  (* everything one sync does to the page numbers *)
  Theorem sync_facts : forall s bump ops got s' bump' ws,
      clean_b cap s = true ->
      sync_all cap s bump ops = Some (got, s', bump', ws) ->
      let ps := fl_portions s in
      let ps' := fl_portions s' in
      let n := n_allocs ops in
      let freed := released_of ops in
      let bumps := n - length (stack ps) in
      exists k pushed popped rest extra,
        got = firstn n (stack ps) ++ seqN bump bumps /\
        bump' = (bump + N.of_nat bumps + N.of_nat k)%N /\
        fl_released s' = [] /\ fl_pop s' = false /\
        stack ps = firstn n (stack ps) ++ popped ++ rest /\
        stack ps' = rev pushed ++ rest /\
        pushed = freed ++ extra /\
        (forall z, cnt got z + cnt (tracked ps') z
                   = cnt (tracked ps) z + cnt freed z + cnt (seqN bump (bumps + k)) z) /\
        incl (seqN (bump + N.of_nat bumps)%N k) (heads ps') /\
        (0 < k -> rest = []) /\
        (forall w, In w ws -> In (fst (fst w)) (heads ps')).
  Proof.
    intros s bump ops got s' bump' ws Hc H ps ps' n freed bumps.
    unfold sync_all in H.
    destruct (sync_run cap (sync_start s bump) ops) as [y|] eqn:Erun; [|discriminate]. cbn [obind] in H.
    destruct (sync_finish cap y) as [[[s1 b1] w1]|] eqn:Efin; [|discriminate]. cbn [obind fst snd] in H.
    injection H as <- <- <- <-.
    apply sync_run_spec in Erun; [|exact Hc]. cbn [sync_start sy_fl sy_bump sy_allocs sy_freed sy_got app plus] in Erun.
    destruct Erun as [R1 [R2 [R3 [R4 R5]]]].
    rewrite alloc_seq_spec in R5.
    unfold sync_finish, finish in Efin. rewrite R1, R2, R3, R4 in Efin.
    pose proof (clean_b_spec cap s Hc) as [Hpop [Hrel _]].
    rewrite Hrel, Hpop in Efin. fold ps in Efin, R5. fold n in Efin, R5. fold freed in Efin.
    destruct (discard n ps []) as [[[d ps1] rel1] b] eqn:Ed.
    pose proof (discard_spec _ _ _ _ _ _ _ Ed) as [D1 [D2 D3]].
    assert (Hd : n - d = bumps).
    { unfold bumps. rewrite D2, firstn_length. lia. }
    rewrite Hd in Efin. cbn [orb] in Efin.
    pose proof (commit_conservation cap _ _ _ _ _ _ Efin) as [popped [k [pushed [rest [C1 [C2 [C3 [C4 [C5 [C6 C7]]]]]]]]]].
    cbn [fl_portions fl_released fl_pop] in *.
    (* the released list afterwards, and what was pushed *)
    assert (Hfin : fl_released s1 = [] /\ fl_pop s1 = false /\ exists extra, pushed = freed ++ extra).
    { split; [|split; [exact (commit_pop_false cap _ _ _ _ _ _ Efin)|]].
      - destruct b eqn:Eb.
        + destruct (C7 (or_introl eq_refl)) as [Hr _]. exact Hr.
        + pose proof (discard_nobody _ _ _ _ _ _ _ Ed eq_refl) as [N1 [N2 N3]]. subst rel1.
          destruct freed as [|f0 fr] eqn:Ef.
          * unfold commit in Efin. cbn [fl_pop fl_portions fl_released fl_len fl_frag negb andb orb is_nil] in Efin.
            injection Efin as <- _ _. reflexivity.
          * assert (Hne : f0 :: fr <> []) by discriminate.
            destruct (C7 (or_intror Hne)) as [Hr _]. exact Hr.
      - destruct b eqn:Eb.
        + destruct (C7 (or_introl eq_refl)) as [_ [e He]]. exists (rev rel1 ++ e). exact He.
        + pose proof (discard_nobody _ _ _ _ _ _ _ Ed eq_refl) as [N1 [N2 N3]]. subst rel1.
          destruct freed as [|f0 fr] eqn:Ef.
          * exists pushed. reflexivity.
          * assert (Hne : f0 :: fr <> []) by discriminate.
            destruct (C7 (or_intror Hne)) as [_ [e He]]. exists e. rewrite He. reflexivity. }
    destruct Hfin as [F1 [F2 [extra F3]]].
    exists k, pushed, popped, rest, extra.
    split; [exact R5|]. split; [exact C1|]. split; [exact F1|]. split; [exact F2|].
    split; [rewrite D1 at 1; rewrite C2; reflexivity|]. split; [exact C3|]. split; [exact F3|].
    split.
    { intros z. specialize (C4 z). specialize (D3 z). rewrite F1 in C4.
      rewrite R5. unfold tracked, ps'. rewrite C3, seqN_app.
      assert (Hst : cnt (stack ps) z = cnt (firstn n (stack ps)) z + cnt popped z + cnt rest z).
      { rewrite D1 at 1. rewrite C2. cnt_norm. lia. }
      cnt_norm. cnt_norm_in C4. cnt_norm_in D3. fold bumps. lia. }
    split; [exact C5|]. split; [exact C6|].
    (* the pages written are portion pages of the new list *)
    exact (commit_written cap _ _ _ _ _ _ Efin).
  Qed.

End Sync.

(* ---------------------------------------------------------------------------------------------- *)
(* E. the conservation theorems                                                                    *)

Lemma cnt_firstn_le : forall n l z, cnt (firstn n l) z <= cnt l z.
Proof.
  intros n l z. rewrite <- (firstn_skipn n l) at 2. rewrite cnt_app. lia.
Qed.

Lemma in_remove1 : forall x y l, In x (remove1 y l) -> In x l.
Proof.
  intros x y l. induction l as [|a r IH]; intros H; [destruct H|].
  cbn [remove1] in H. destruct (y =? a)%N; [right; exact H|].
  destruct H as [->|H]; [left; reflexivity|right; apply IH; exact H].
Qed.

Lemma live_after_incl : forall ops live got x,
    In x (live_after live ops got) -> In x live \/ In x (firstn (n_allocs ops) got).
Proof.
  induction ops as [|o r IH]; intros live got x H; [left; exact H|].
  destruct o as [|pn]; cbn [live_after] in H.
  - unfold n_allocs. cbn [filter length]. fold (n_allocs r).
    destruct got as [|g got'].
    + apply IH in H. destruct H as [H|H]; [left; exact H|]. rewrite firstn_nil in H. destruct H.
    + apply IH in H. cbn [firstn]. destruct H as [[<-|H]|H]; [right; left; reflexivity|left; exact H|right; right; exact H].
  - unfold n_allocs. cbn [filter]. fold (n_allocs r).
    apply IH in H. destruct H as [H|H]; [left; eapply in_remove1; exact H|right; exact H].
Qed.

Lemma n_allocs_app : forall a b, n_allocs (a ++ b) = n_allocs a + n_allocs b.
Proof. intros a b. unfold n_allocs. rewrite filter_app, app_length. reflexivity. Qed.

Lemma released_of_app : forall a b, released_of (a ++ b) = released_of a ++ released_of b.
Proof. intros a b. unfold released_of. apply flat_map_app. Qed.

(* the release in the middle of a sync is of a page that was live before the sync or was handed
   out earlier in this sync *)
Lemma ops_ok_release : forall ops1 pn ops2 live got,
    ops_ok live (ops1 ++ ORelease pn :: ops2) got -> n_allocs ops1 <= length got ->
    In pn live \/ In pn (firstn (n_allocs ops1) got).
Proof.
  induction ops1 as [|o r IH]; intros pn ops2 live got H Hlen.
  - cbn [app ops_ok] in H. left. exact (proj1 H).
  - destruct o as [|q]; cbn [app ops_ok] in H.
    + unfold n_allocs in *. cbn [filter length] in *. fold (n_allocs r) in *.
      destruct got as [|g got']; [cbn [length] in Hlen; lia|].
      apply IH in H; [|cbn [length] in Hlen; lia]. cbn [firstn].
      destruct H as [[<-|H]|H]; [right; left; reflexivity|left; exact H|right; right; exact H].
    + destruct H as [_ H]. unfold n_allocs in *. cbn [filter] in *. fold (n_allocs r) in *.
      apply IH in H; [|exact Hlen]. destruct H as [H|H]; [left; eapply in_remove1; exact H|right; exact H].
Qed.

Lemma filter_frontier_length : forall (l : list N) b k,
    NoDup l -> (forall x, In x l -> (x < b + N.of_nat k)%N) -> incl (seqN b k) l ->
    length (filter (fun h => (b <=? h)%N) l) = k.
Proof.
  intros l b k Hnd Hlt Hincl.
  rewrite <- (seqN_length k b). apply Permutation_length. apply NoDup_Permutation.
  - apply NoDup_filter. exact Hnd.
  - apply seqN_nodup.
  - intros x. rewrite filter_In, seqN_in, N.leb_le. split.
    + intros [Hin Hb]. split; [exact Hb|apply Hlt; exact Hin].
    + intros [H1 H2]. split; [|exact H1]. apply Hincl. apply seqN_in. lia.
Qed.

Section Theorems.
  Variable cap : nat.
  Hypothesis cap_pos : 1 <= cap.

  Lemma got_length : forall s bump ops got s' bump' ws,
      clean_b cap s = true -> sync_all cap s bump ops = Some (got, s', bump', ws) ->
      length got = n_allocs ops.
  Proof.
    intros s bump ops got s' bump' ws Hc H.
    destruct (sync_facts cap cap_pos _ _ _ _ _ _ _ Hc H) as [k [pushed [popped [rest [extra [G _]]]]]].
    rewrite G, app_length, firstn_length, seqN_length. lia.
  Qed.

  (* no page is lost, none is duplicated, none is both free and live: if live pages, free items
     and portion pages partition [1, bump) before a sync, then after ANY sequence of allocations
     and releases followed by finish they partition [1, bump'), with
     live' = live - released + allocated *)
  Theorem freelist_conservation : forall s bump ops live got s' bump' ws,
      clean_b cap s = true -> (1 <= bump)%N ->
      covers (live ++ tracked (fl_portions s)) bump ->
      sync_all cap s bump ops = Some (got, s', bump', ws) ->
      ops_ok live ops got ->
      covers (live_after live ops got ++ tracked (fl_portions s')) bump' /\
      Permutation (live_after live ops got ++ released_of ops) (live ++ got) /\
      fl_released s' = [] /\ fl_pop s' = false.
  Proof.
    intros s bump ops live got s' bump' ws Hc Hb Hcov H Hok.
    pose proof (got_length _ _ _ _ _ _ _ Hc H) as Hlen.
    destruct (sync_facts cap cap_pos _ _ _ _ _ _ _ Hc H)
      as [k [pushed [popped [rest [extra [G1 [G2 [G3 [G4 [G5 [G6 [G7 [G8 [G9 [G10 G11]]]]]]]]]]]]]]].
    pose proof (live_after_cnt ops live got Hok Hlen) as Hl.
    rewrite covers_cnt in Hcov.
    split; [|split; [|split; [exact G3|exact G4]]].
    - apply covers_cnt. intros z. specialize (Hl z). specialize (G8 z). specialize (Hcov z).
      rewrite G2, <- N.add_assoc, <- Nat2N.inj_add, ind_extend by exact Hb.
      cnt_norm. cnt_norm_in Hcov. lia.
    - apply meq_perm. intros z. specialize (Hl z). cnt_norm. lia.
  Qed.

  (* every allocated page was a free item of the start state or lies in [bump, bump') *)
  Theorem allocate_fresh_or_free : forall s bump ops got s' bump' ws,
      clean_b cap s = true ->
      sync_all cap s bump ops = Some (got, s', bump', ws) ->
      forall pn, In pn got -> In pn (stack (fl_portions s)) \/ (bump <= pn /\ pn < bump')%N.
  Proof.
    intros s bump ops got s' bump' ws Hc H pn Hin.
    destruct (sync_facts cap cap_pos _ _ _ _ _ _ _ Hc H)
      as [k [pushed [popped [rest [extra [G1 [G2 _]]]]]]].
    rewrite G1 in Hin. apply in_app_or in Hin. destruct Hin as [Hin|Hin].
    - left. rewrite <- (firstn_skipn (n_allocs ops)). apply in_or_app. left. exact Hin.
    - right. apply seqN_in in Hin. lia.
  Qed.

  (* the pages handed out in one sync are pairwise distinct and none of them was live *)
  Theorem allocate_distinct : forall s bump ops live got s' bump' ws,
      clean_b cap s = true ->
      covers (live ++ tracked (fl_portions s)) bump ->
      sync_all cap s bump ops = Some (got, s', bump', ws) ->
      NoDup got /\ forall pn, In pn got -> ~ In pn live.
  Proof.
    intros s bump ops live got s' bump' ws Hc Hcov H.
    destruct (sync_facts cap cap_pos _ _ _ _ _ _ _ Hc H)
      as [k [pushed [popped [rest [extra [G1 _]]]]]].
    rewrite covers_cnt in Hcov.
    assert (Hcnt : forall z, cnt got z + cnt live z <= 1).
    { intros z. specialize (Hcov z). rewrite G1. unfold tracked in Hcov. cnt_norm. cnt_norm_in Hcov.
      pose proof (cnt_firstn_le (n_allocs ops) (stack (fl_portions s)) z) as Hf.
      rewrite cnt_seqN. unfold ind in Hcov.
      destruct ((bump <=? z) && (z <? bump + N.of_nat (n_allocs ops - length (stack (fl_portions s)))))%N eqn:E.
      - apply andb_true_iff in E. destruct E as [E1 _]. apply N.leb_le in E1.
        replace ((1 <=? z) && (z <? bump))%N with false in Hcov; [lia|].
        symmetry. apply andb_false_iff. right. apply N.ltb_ge. exact E1.
      - destruct ((1 <=? z) && (z <? bump))%N; lia. }
    split.
    - apply nodup_cnt. intros z. specialize (Hcnt z). lia.
    - intros pn Hin Hl. apply cnt_in in Hin. apply cnt_in in Hl. specialize (Hcnt pn). lia.
  Qed.

  (* C17's clause "pages freed in this sync are not reused in it": a page released at some point of
     a sync is not handed out by any later allocation of that sync, is not among the pages the
     commit of the free list writes, and is a free item of the new list (reusable from the next
     sync on) *)
  Theorem no_reuse_within_sync : forall s bump ops1 pn ops2 live got s' bump' ws,
      clean_b cap s = true -> (1 <= bump)%N ->
      covers (live ++ tracked (fl_portions s)) bump ->
      sync_all cap s bump (ops1 ++ ORelease pn :: ops2) = Some (got, s', bump', ws) ->
      ops_ok live (ops1 ++ ORelease pn :: ops2) got ->
      ~ In pn (skipn (n_allocs ops1) got) /\
      (forall w, In w ws -> fst (fst w) <> pn) /\
      In pn (stack (fl_portions s')).
  Proof.
    intros s bump ops1 pn ops2 live got s' bump' ws Hc Hb Hcov H Hok.
    pose proof (got_length _ _ _ _ _ _ _ Hc H) as Hlen.
    pose proof (allocate_distinct _ _ _ _ _ _ _ _ Hc Hcov H) as [Hnd Hdis].
    pose proof (freelist_conservation _ _ _ _ _ _ _ _ Hc Hb Hcov H Hok) as [Hcov' _].
    destruct (sync_facts cap cap_pos _ _ _ _ _ _ _ Hc H)
      as [k [pushed [popped [rest [extra [G1 [G2 [G3 [G4 [G5 [G6 [G7 [G8 [G9 [G10 G11]]]]]]]]]]]]]]].
    assert (Hitem : In pn (stack (fl_portions s'))).
    { rewrite G6, G7. apply in_or_app. left. apply -> in_rev. apply in_or_app. left.
      rewrite released_of_app. apply in_or_app. right. left. reflexivity. }
    split; [|split; [|exact Hitem]].
    - intros Hin.
      assert (Hle : n_allocs ops1 <= length got).
      { rewrite Hlen, n_allocs_app. lia. }
      destruct (ops_ok_release _ _ _ _ _ Hok Hle) as [Hl|Hf].
      + apply (Hdis pn); [|exact Hl]. rewrite <- (firstn_skipn (n_allocs ops1)). apply in_or_app. right. exact Hin.
      + rewrite <- (firstn_skipn (n_allocs ops1) got) in Hnd. apply nodup_cnt with (x := pn) in Hnd.
        apply cnt_in in Hin. apply cnt_in in Hf. rewrite cnt_app in Hnd. lia.
    - intros w Hw Heq. apply G11 in Hw. rewrite Heq in Hw.
      rewrite covers_cnt in Hcov'. specialize (Hcov' pn). unfold tracked in Hcov'. cnt_norm_in Hcov'.
      apply cnt_in in Hw. apply cnt_in in Hitem. unfold ind in Hcov'.
      destruct ((1 <=? pn) && (pn <? bump'))%N; lia.
  Qed.

  (* the frontier moves by the number of allocations that found the list empty plus the number of
     portion pages of the new list that were taken from the frontier; the latter happens only when
     no item of the old list is left in place (the new list then consists of pushed pages only) *)
  Theorem frontier_accounting : forall s bump ops live got s' bump' ws,
      clean_b cap s = true -> (1 <= bump)%N ->
      covers (live ++ tracked (fl_portions s)) bump ->
      sync_all cap s bump ops = Some (got, s', bump', ws) ->
      ops_ok live ops got ->
      let bumps := n_allocs ops - length (stack (fl_portions s)) in
      let k := length (filter (fun h => (bump + N.of_nat bumps <=? h)%N) (heads (fl_portions s'))) in
      bump' = (bump + N.of_nat bumps + N.of_nat k)%N /\
      (0 < k -> exists extra, stack (fl_portions s') = rev (released_of ops ++ extra)).
  Proof.
    intros s bump ops live got s' bump' ws Hc Hb Hcov H Hok bumps k.
    pose proof (freelist_conservation _ _ _ _ _ _ _ _ Hc Hb Hcov H Hok) as [Hcov' _].
    destruct (sync_facts cap cap_pos _ _ _ _ _ _ _ Hc H)
      as [k0 [pushed [popped [rest [extra [G1 [G2 [G3 [G4 [G5 [G6 [G7 [G8 [G9 [G10 G11]]]]]]]]]]]]]]].
    fold bumps in G2, G9.
    assert (Hk : k = k0).
    { unfold k. apply filter_frontier_length.
      - apply nodup_cnt. intros z. pose proof (proj1 (covers_cnt _ _) Hcov' z) as Hz.
        unfold tracked in Hz. cnt_norm_in Hz. unfold ind in Hz.
        destruct ((1 <=? z) && (z <? bump'))%N; lia.
      - intros x Hx. destruct Hcov' as [_ Hin]. rewrite <- G2.
        apply Hin. apply in_or_app. right. unfold tracked. apply in_or_app. left. exact Hx.
      - exact G9. }
    split; [rewrite Hk; exact G2|].
    intros Hpos. rewrite Hk in Hpos. exists extra. rewrite G6, (G10 Hpos), app_nil_r, G7. reflexivity.
  Qed.

End Theorems.

(* ---------------------------------------------------------------------------------------------- *)
(* F. no panic, and the shape is kept: a sync started on a list as FreeList::read / commit leave
      it runs to completion (no unwrap / assert! / index failure in the mirrored code) and leaves
      such a list again.  [cap >= 2] (the code's constant is 1022). *)

Section Total.
  Variable cap : nat.
  Hypothesis cap2 : 2 <= cap.

  Let cap_pos : 1 <= cap.
  Proof. lia. Qed.

  Definition room (ps : list portion) : nat :=
    match ps with [] => 0 | (_, its) :: _ => cap - length its end.

  (* a head with 1..cap items on top of full portions *)
  Definition preshape (ps : list portion) : Prop :=
    match ps with
    | [] => True
    | (_, its) :: r => 1 <= length its <= cap /\ Forall (full cap) r
    end.

  Lemma preshape_shape : forall ps, preshape ps -> shape_b cap ps = true.
  Proof.
    intros [|[h its] r] H; [reflexivity|]. destruct H as [H1 H2].
    apply shape_b_cons. split; [exact H1|].
    destruct r as [|[p pits] r']; [exact I|].
    inversion H2 as [|p0 r0 Hp Hr]; subst. split; [left; exact Hp|exact Hr].
  Qed.

  Lemma preshape_tail : forall r, Forall (full cap) r -> preshape r.
  Proof.
    intros [|[q qits] r'] H; [exact I|].
    inversion H as [|p0 r0 Hp Hr]; subst. unfold full in Hp. cbn [snd] in Hp.
    cbn [preshape]. split; [lia|exact Hr].
  Qed.

  Lemma room_full_tail : forall r, Forall (full cap) r -> room r = 0.
  Proof.
    intros [|[q qits] r'] H; [reflexivity|].
    inversion H as [|p0 r0 Hp Hr]; subst. unfold full in Hp. cbn [snd] in Hp. cbn [room]. lia.
  Qed.

  (* discard keeps the shape *)
  Lemma discard_shape : forall ps n rel d ps' rel' b,
      shape_b cap ps = true -> discard n ps rel = (d, ps', rel', b) -> shape_b cap ps' = true.
  Proof.
    induction ps as [|[hpn its] rest IH]; intros n rel d ps' rel' b Hs H.
    - destruct n; cbn [discard] in H; injection H as _ <- _ _; reflexivity.
    - destruct n as [|n']; [cbn [discard] in H; injection H as _ <- _ _; exact Hs|].
      cbn [discard] in H.
      destruct (skipn (Nat.min (length its) (S n')) its) as [|y its'] eqn:Es.
      + destruct (discard (S n' - Nat.min (length its) (S n')) rest (hpn :: rel)) as [[[d1 ps1] rel1] b1] eqn:Ed.
        injection H as _ <- _ _. apply (IH _ _ _ _ _ _) in Ed; [exact Ed|].
        apply shape_b_cons in Hs. destruct Hs as [_ Hr].
        destruct rest as [|[p pits] r']; [reflexivity|]. destruct Hr as [Hp Hf].
        apply preshape_shape. cbn [preshape]. split; [lia|exact Hf].
      + injection H as _ <- _ _.
        assert (Hl : length (skipn (Nat.min (length its) (S n')) its) = S (length its')) by (rewrite Es; reflexivity).
        rewrite skipn_length in Hl.
        apply shape_b_cons in Hs. destruct Hs as [Hits Hr].
        apply shape_b_cons. split; [cbn [length]; lia|].
        destruct rest as [|[p pits] r']; [exact I|]. destruct Hr as [Hp Hf].
        split; [|exact Hf]. left. destruct Hp as [Hp|[_ Hp]]; [exact Hp|lia].
  Qed.

  (* the invariant of preallocate's loop: [i] is the room for pushed page numbers that the head
     portion and the pages drawn so far offer, no page was drawn needlessly *)
  Definition linv (st : pre) : Prop :=
    preshape (p_ps st) /\
    (p_nfp st = true <-> room (p_ps st) = 0) /\
    p_rel st = [] /\
    p_i st = room (p_ps st) + cap * length (p_new st) /\
    (length (p_new st) = 0 \/ cap * (length (p_new st) - 1) + room (p_ps st) <= length (p_push st)) /\
    (1 <= length (p_new st) -> 1 <= length (p_push st)).

  Lemma pre_loop_total : forall fuel st,
      linv st ->
      2 * (length (p_push st) - p_i st) + (if p_nfp st then 1 else 0) <= fuel ->
      exists st', pre_loop cap fuel st = Some st' /\ linv st' /\ length (p_push st') <= p_i st'.
  Proof.
    induction fuel as [|f IH]; intros st Hinv Hfuel.
    - cbn [pre_loop]. assert (E : p_i st <? length (p_push st) = false) by (apply Nat.ltb_ge; lia).
      rewrite E. exists st. split; [reflexivity|]. split; [exact Hinv|lia].
    - cbn [pre_loop]. destruct (p_i st <? length (p_push st)) eqn:Econd.
      2:{ apply Nat.ltb_ge in Econd. exists st. split; [reflexivity|]. split; [exact Hinv|exact Econd]. }
      apply Nat.ltb_lt in Econd.
      destruct st as [ps rel push new bump i nfp].
      destruct Hinv as [I1 [I2 [I3 [I4 [I5 I6]]]]].
      cbn [p_ps p_rel p_push p_new p_bump p_i p_nfp] in *. subst rel.
      destruct nfp.
      + (* the head is full or there is none *)
        assert (Hroom : room ps = 0) by (apply I2; reflexivity).
        destruct ps as [|[h its] r].
        * (* nothing left: a page from the frontier *)
          cbn [pop_ps].
          apply IH.
          -- unfold linv. cbn [p_ps p_rel p_push p_new p_bump p_i p_nfp room].
             rewrite app_length. cbn [length].
             split; [exact I|]. split; [split; reflexivity|]. split; [reflexivity|].
             cbn [room] in I4. split; [lia|]. split; [right; nia|lia].
          -- cbn [p_push p_i p_nfp]. lia.
        * (* open the full portion below *)
          cbn [room] in Hroom. destruct I1 as [Hl Hf].
          destruct its as [|y its']; [cbn [length] in Hl; lia|].
          apply IH.
          -- unfold linv. cbn [p_ps p_rel p_push p_new p_bump p_i p_nfp room preshape].
             rewrite app_length. cbn [length] in *.
             split; [split; [lia|exact Hf]|].
             split; [split; [discriminate|lia]|]. split; [reflexivity|].
             split; [lia|]. split; [destruct I5 as [I5|I5]; [left; exact I5|right; lia]|lia].
          -- cbn [p_push p_i p_nfp]. rewrite app_length. cbn [length]. lia.
      + (* the head has room: draw a page from it *)
        assert (Hroom : room ps <> 0) by (intros E; apply I2 in E; discriminate).
        destruct ps as [|[h its] r]; [cbn [room] in Hroom; lia|].
        cbn [room] in *. destruct I1 as [Hl Hf].
        destruct its as [|x its']; [cbn [length] in Hl; lia|].
        destruct its' as [|y its''].
        * (* the head is emptied: its page number (drawn from the list earlier) is reused *)
          cbn [pop_ps]. apply IH.
          -- unfold linv. cbn [p_ps p_rel p_push p_new p_bump p_i p_nfp].
             rewrite app_length. cbn [length] in *.
             split; [apply preshape_tail; exact Hf|].
             rewrite (room_full_tail r Hf).
             split; [split; reflexivity|]. split; [reflexivity|].
             split; [nia|]. split; [right; nia|lia].
          -- cbn [p_push p_i p_nfp]. cbn [length] in *. lia.
        * cbn [pop_ps]. apply IH.
          -- unfold linv. cbn [p_ps p_rel p_push p_new p_bump p_i p_nfp room preshape].
             rewrite app_length. cbn [length] in *.
             split; [split; [lia|exact Hf]|].
             split; [split; [discriminate|lia]|]. split; [reflexivity|].
             split; [nia|]. split; [right; nia|lia].
          -- cbn [p_push p_i p_nfp]. cbn [length] in *. lia.
  Qed.

  Lemma pre_first_total : forall ps push bump,
      shape_b cap ps = true ->
      exists st, pre_first cap ps [] push bump = Some st /\ linv st /\
                 2 * (length (p_push st) - p_i st) + (if p_nfp st then 1 else 0) <= pre_fuel (p_push st).
  Proof.
    intros ps push bump Hs.
    assert (Hfuel : forall st, 2 * (length (p_push st) - p_i st) + (if p_nfp st then 1 else 0) <= pre_fuel (p_push st)).
    { intros st. unfold pre_fuel. destruct (p_nfp st); lia. }
    unfold pre_first.
    destruct ps as [|[h its] r].
    - cbn [pop_ps]. eexists. split; [reflexivity|]. split; [|apply Hfuel].
      unfold linv. cbn [p_ps p_rel p_push p_new p_bump p_i p_nfp room preshape length].
      split; [exact I|]. split; [split; reflexivity|]. split; [reflexivity|].
      split; [lia|]. split; [left; reflexivity|lia].
    - apply shape_b_cons in Hs. destruct Hs as [Hits Hr].
      destruct its as [|x its']; [cbn [length] in Hits; lia|].
      destruct its' as [|y its''].
      + (* the head holds one item: it is released *)
        cbn [pop_ps].
        destruct r as [|[nh nits] r'].
        * eexists. split; [reflexivity|]. split; [|apply Hfuel].
          unfold linv. cbn [p_ps p_rel p_push p_new p_bump p_i p_nfp room preshape].
          rewrite app_length. cbn [length].
          split; [exact I|]. split; [split; reflexivity|]. split; [reflexivity|].
          split; [lia|]. split; [right; lia|lia].
        * destruct Hr as [Hp Hf].
          destruct (length nits =? cap - 1) eqn:En.
          -- apply Nat.eqb_eq in En. rewrite csub_spec by lia. cbn [obind].
             eexists. split; [reflexivity|]. split; [|apply Hfuel].
             unfold linv. cbn [p_ps p_rel p_push p_new p_bump p_i p_nfp room preshape length].
             split; [split; [lia|exact Hf]|].
             split; [split; [discriminate|lia]|]. split; [reflexivity|].
             split; [lia|]. split; [left; reflexivity|lia].
          -- apply Nat.eqb_neq in En.
             assert (Hfull : length nits = cap) by (destruct Hp as [Hp|[Hp _]]; [exact Hp|contradiction]).
             eexists. split; [reflexivity|]. split; [|apply Hfuel].
             unfold linv. cbn [p_ps p_rel p_push p_new p_bump p_i p_nfp room preshape].
             rewrite app_length. cbn [length].
             split; [split; [lia|exact Hf]|].
             split; [split; [intros _; lia|reflexivity]|]. split; [reflexivity|].
             split; [lia|]. split; [right; lia|lia].
      + (* the head keeps items *)
        cbn [pop_ps]. cbn [length] in Hits.
        rewrite csub_spec by (cbn [length]; lia). cbn [obind].
        eexists. split; [reflexivity|]. split; [|apply Hfuel].
        unfold linv. cbn [p_ps p_rel p_push p_new p_bump p_i p_nfp room preshape length].
        assert (Hf : Forall (full cap) r).
        { destruct r as [|[p pits] r']; [constructor|]. destruct Hr as [Hp Hf].
          constructor; [|exact Hf]. destruct Hp as [Hp|[_ Hp]]; [exact Hp|cbn [length] in Hp; lia]. }
        split; [split; [lia|exact Hf]|].
        split; [split; [discriminate|lia]|]. split; [reflexivity|].
        split; [lia|]. split; [left; reflexivity|lia].
  Qed.

  Lemma push_enc_total : forall push ps new clean enc,
      preshape ps ->
      length push <= room ps + cap * length new ->
      (length new = 0 \/ cap * (length new - 1) + room ps <= length push) ->
      (1 <= length new -> 1 <= length push) ->
      exists ps' enc', push_enc cap ps push new clean enc = Some (ps', enc') /\ shape_b cap ps' = true.
  Proof.
    induction push as [|pn rest IH]; intros ps new clean enc Hps Hroom Htight Hne.
    - cbn [push_enc]. destruct new as [|np new']; [|cbn [length] in Hne; lia].
      eexists. eexists. split; [reflexivity|]. apply preshape_shape. exact Hps.
    - cbn [push_enc]. cbn [length] in *.
      destruct ps as [|[h its] r].
      + (* no portion: a new one *)
        cbn [room] in *. cbn [orb].
        destruct new as [|np new']; [cbn [length] in Hroom; lia|]. cbn [length] in *.
        apply IH.
        * cbn [preshape length]. split; [lia|constructor].
        * cbn [room length]. nia.
        * cbn [room length]. destruct new' as [|np2 new'']; [left; reflexivity|right; cbn [length] in *; nia].
        * cbn [length]. intros Hq. destruct new' as [|np2 new'']; [cbn [length] in Hq; lia|cbn [length] in *; nia].
      + cbn [room preshape] in *. destruct Hps as [Hl Hf].
        destruct (length its =? cap) eqn:Efull.
        * (* the head is full: a new portion *)
          apply Nat.eqb_eq in Efull. cbn [orb].
          destruct new as [|np new']; [cbn [length] in Hroom; lia|]. cbn [length] in *.
          apply IH.
          -- cbn [preshape length]. split; [lia|]. constructor; [exact Efull|exact Hf].
          -- cbn [room length]. nia.
          -- cbn [room length]. destruct new' as [|np2 new'']; [left; reflexivity|right; cbn [length] in *; nia].
          -- cbn [length]. intros Hq. destruct new' as [|np2 new'']; [cbn [length] in Hq; lia|cbn [length] in *; nia].
        * apply Nat.eqb_neq in Efull. cbn [orb].
          destruct ((length its =? cap - 1) && negb (is_nil new) && is_nil rest) eqn:Efrag.
          -- (* forced fragmentation: the last page number goes to the last page drawn *)
             apply andb_true_iff in Efrag. destruct Efrag as [Efrag E3].
             apply andb_true_iff in Efrag. destruct Efrag as [E1 E2].
             apply Nat.eqb_eq in E1. destruct rest; [|discriminate].
             destruct new as [|np new']; [discriminate|]. cbn [length] in *.
             destruct new' as [|np2 new'']; [|cbn [length] in *; nia].
             cbn [push_enc]. eexists. eexists. split; [reflexivity|].
             apply shape_b_cons. cbn [length]. split; [lia|]. split; [right; split; [exact E1|reflexivity]|exact Hf].
          -- assert (Hlt : length its <? cap = true) by (apply Nat.ltb_lt; lia). rewrite Hlt.
             apply IH.
             ++ cbn [preshape length]. split; [lia|exact Hf].
             ++ cbn [room length]. lia.
             ++ cbn [room length]. destruct Htight as [Ht|Ht]; [left; exact Ht|right; lia].
             ++ intros Hq. specialize (Hne Hq).
                destruct rest as [|pn2 rest']; [|cbn [length]; lia].
                exfalso. cbn [length] in *.
                destruct new as [|np new']; [cbn [length] in Hq; lia|].
                cbn [is_nil negb andb] in Efrag. rewrite !andb_true_r in Efrag. apply Nat.eqb_neq in Efrag.
                cbn [length] in *. destruct Htight as [Ht|Ht]; [lia|nia].
  Qed.

  Lemma clean_b_intro : forall ps, shape_b cap ps = true ->
      clean_b cap (mkFl ps false (fst (len_frag cap ps)) (snd (len_frag cap ps)) []) = true.
  Proof.
    intros ps H. unfold clean_b. cbn [fl_pop fl_released fl_len fl_frag fl_portions negb is_nil andb].
    rewrite Nat.eqb_refl, eqb_reflx, H. reflexivity.
  Qed.

  (* FreeList::commit neither panics nor leaves the shape *)
  Theorem commit_total : forall s freed bump,
      shape_b cap (fl_portions s) = true ->
      (fl_pop s = false -> clean_b cap s = true) ->
      exists s' bump' ws,
        commit cap s freed bump = Some (s', bump', ws) /\ clean_b cap s' = true.
  Proof.
    intros s freed bump Hs Hclean. unfold commit.
    destruct (negb (fl_pop s) && is_nil freed) eqn:Enoop.
    - eexists. eexists. eexists. split; [reflexivity|].
      apply andb_true_iff in Enoop. destruct Enoop as [Ep _]. apply negb_true_iff in Ep.
      specialize (Hclean Ep). unfold clean_b in *.
      cbn [fl_pop fl_released fl_len fl_frag fl_portions]. rewrite Ep in Hclean. exact Hclean.
    - unfold preallocate.
      destruct (pre_first_total (fl_portions s) (freed ++ rev (fl_released s)) bump Hs) as [st [E1 [Hinv Hfuel]]].
      rewrite E1. cbn [obind].
      destruct (pre_loop_total _ _ Hinv Hfuel) as [st' [E2 [Hinv' Hexit]]].
      rewrite E2. cbn [obind].
      destruct Hinv' as [I1 [I2 [I3 [I4 [I5 I6]]]]].
      destruct (push_enc_total (p_push st') (p_ps st') (p_new st') (head_untouched st') [] I1) as [ps' [enc' [E3 Hshape]]];
        [lia|exact I5|exact I6|].
      rewrite E3. cbn [obind fst snd].
      eexists. eexists. eexists. split; [reflexivity|].
      rewrite I3. apply clean_b_intro. exact Hshape.
  Qed.

  (* a whole sync: allocations, releases, finish *)
  Theorem sync_total : forall s bump ops,
      clean_b cap s = true ->
      exists got s' bump' ws,
        sync_all cap s bump ops = Some (got, s', bump', ws) /\ clean_b cap s' = true.
  Proof.
    intros s bump ops Hc. unfold sync_all.
    assert (Hrun : forall ops y, clean_b cap (sy_fl y) = true -> exists y', sync_run cap y ops = Some y').
    { induction ops0 as [|o r IH]; intros y Hy; [eexists; reflexivity|].
      cbn [sync_run]. destruct o as [|pn].
      - cbn [sync_step]. rewrite (allocate_spec cap cap_pos) by exact Hy. cbn [obind]. apply IH. exact Hy.
      - cbn [sync_step obind]. apply IH. exact Hy. }
    destruct (Hrun ops (sync_start s bump) Hc) as [y Ey]. rewrite Ey. cbn [obind].
    pose proof (sync_run_spec cap cap_pos ops (sync_start s bump) y Hc Ey) as [R1 [R2 _]].
    cbn [sync_start sy_fl sy_bump] in R1, R2.
    unfold sync_finish, finish. rewrite R1, R2.
    destruct (discard (sy_allocs y) (fl_portions s) (fl_released s)) as [[[d ps1] rel1] b] eqn:Ed.
    pose proof (clean_b_spec cap s Hc) as [Hpop [Hrel [_ [_ Hshape]]]].
    pose proof (discard_shape _ _ _ _ _ _ _ Hshape Ed) as Hs1.
    destruct (commit_total (mkFl ps1 (fl_pop s || b) (fl_len s) (fl_frag s) rel1) (sy_freed y)
                           (bump + N.of_nat (sy_allocs y - d))%N) as [s' [bump' [ws [Ec Hc']]]].
    - exact Hs1.
    - cbn [fl_pop]. rewrite Hpop. cbn [orb]. intros Hb.
      pose proof (discard_nobody _ _ _ _ _ _ _ Ed Hb) as [N1 [N2 N3]]. subst.
      unfold clean_b in *. cbn [fl_pop fl_released fl_len fl_frag fl_portions].
      rewrite Hpop in Hc. exact Hc.
    - rewrite Ec. cbn [obind fst snd]. eexists. eexists. eexists. eexists. split; [reflexivity|exact Hc'].
  Qed.

End Total.

(* ---------------------------------------------------------------------------------------------- *)
(* non-vacuity: the hypotheses of the theorems hold on concrete syncs                              *)

Section NonVacuity.

  Lemma covers_of_check : forall tag l b, pages_exact tag l b = None -> covers l b.
  Proof. intros tag l b H. exact (pages_exact_sound tag l b H). Qed.

  (* page size 3; list [(9: 5 6)], frontier 10, live pages 1 2 3 4 7 8.  Three allocations (two
     from the list, one from the frontier), page 2 and page 3 released, and page 6 - handed out by
     the first allocation - released again in the same sync (NodesTracker::extra_freed) *)
  Definition nv_s : flist := fl_read 3 [(9, [5; 6])]%N.
  Definition nv_live : list N := [1; 2; 3; 4; 7; 8]%N.
  Definition nv_ops : list op := [OAlloc; ORelease 2%N; OAlloc; ORelease 6%N; OAlloc; ORelease 3%N].

  Definition nv_got : list N := [6; 5; 10]%N.
  Definition nv_s' : flist := mkFl [(12, [9]); (11, [3; 6; 2])]%N false 4 false [].
  Definition nv_ws : list wpage := [(11, 0, [2; 6; 3]); (12, 11, [9])]%N.

  Example nv_run : sync_all 3 nv_s 10%N nv_ops = Some (nv_got, nv_s', 13%N, nv_ws).
  Proof. vm_compute. reflexivity. Qed.

  Example nv_clean : clean_b 3 nv_s = true.
  Proof. vm_compute. reflexivity. Qed.

  Example nv_covers : covers (nv_live ++ tracked (fl_portions nv_s)) 10%N.
  Proof. apply (covers_of_check 0%N). vm_compute. reflexivity. Qed.

  Example nv_ops_ok : ops_ok nv_live nv_ops nv_got.
  Proof. cbn. repeat split; auto 10. Qed.

  (* the theorems applied to it *)
  Example nv_conservation :
    covers ([10; 5; 1; 4; 7; 8]%N ++ tracked (fl_portions nv_s')) 13%N.
  Proof.
    assert (H3 : 1 <= 3) by (repeat constructor).
    assert (Hb : (1 <= 10)%N) by (intros E; discriminate E).
    exact (proj1 (freelist_conservation 3 H3 nv_s 10%N nv_ops nv_live nv_got nv_s' 13%N nv_ws
                    nv_clean Hb nv_covers nv_run nv_ops_ok)).
  Qed.

  (* page 6, handed out by the first allocation and released again, is not handed out by the later
     ones, is not written by the commit and is a free item afterwards *)
  Example nv_no_reuse :
    ~ In 6%N (skipn 2 nv_got) /\ (forall w, In w nv_ws -> fst (fst w) <> 6%N)
    /\ In 6%N (stack (fl_portions nv_s')).
  Proof.
    assert (H3 : 1 <= 3) by (repeat constructor).
    assert (Hb : (1 <= 10)%N) by (intros E; discriminate E).
    exact (no_reuse_within_sync 3 H3 nv_s 10%N [OAlloc; ORelease 2%N; OAlloc] 6%N [OAlloc; ORelease 3%N]
             nv_live nv_got nv_s' 13%N nv_ws nv_clean Hb nv_covers nv_run nv_ops_ok).
  Qed.

  (* frontier: one allocation found the list empty, two portion pages were taken from the frontier
     (10 + 1 + 2 = 13) *)
  Example nv_frontier : 13%N = (10 + N.of_nat 1 + N.of_nat 2)%N.
  Proof. reflexivity. Qed.

  (* the instance of the code's constant: a list of 1022 + 1 items in the fragmentation shape, 1500
     allocations (477 of them from the frontier) and 40 releases run through and leave a clean
     list (sync_total), evaluated *)
  Example nv_big :
    let s := fl_read CAP [(3000%N, [2999%N]); (3001%N, seqN 1 (CAP - 1)); (3002%N, seqN 1500 CAP)] in
    clean_b CAP s = true /\
    match sync_all CAP s 4000%N (repeat OAlloc 2100 ++ map ORelease (seqN 5000 40)) with
    | Some (got, s', bump', ws) =>
        clean_b CAP s' = true /\ length got = 2100 /\ bump' = (4000 + 56 + 1)%N
        /\ length (stack (fl_portions s')) = 40 + 3
    | None => False
    end.
  Proof. vm_compute. repeat split; reflexivity. Qed.

End NonVacuity.

(* ---------------------------------------------------------------------------------------------- *)
(* G. copy on write: every page the commit writes is drawn from the free items of the list or    *)
(*    from the frontier; an untouched full portion that became the head is NOT re-encoded           *)
(*    (head_untouched / head_clean of the repaired code).                                           *)

Definition suffix {A} (a b : list A) : Prop := exists pre, b = pre ++ a.

Lemma suffix_refl : forall {A} (a : list A), suffix a a.
Proof. intros A a. exists []. reflexivity. Qed.

Lemma suffix_tail : forall {A} (x : A) a b, suffix (x :: a) b -> suffix a b.
Proof. intros A x a b [pre H]. exists (pre ++ [x]). rewrite <- app_assoc. exact H. Qed.

Lemma suffix_nil : forall {A} (b : list A), suffix [] b.
Proof. intros A b. exists b. rewrite app_nil_r. reflexivity. Qed.

Lemma layout_suffix : forall ps0 h its r,
    suffix ((h, its) :: r) ps0 ->
    In (h, match r with [] => 0%N | (q, _) :: _ => q end, rev its) (layout (to_disk ps0)).
Proof.
  intros ps0 h its r [pre H]. subst ps0. induction pre as [|[q qi] pre IH].
  - cbn [app to_disk map layout fst snd]. left.
    destruct r as [|[q qi] r']; reflexivity.
  - cbn [app to_disk map layout fst snd]. right. exact IH.
Qed.

Section Cow.
  Variable cap : nat.
  Hypothesis cap2 : 2 <= cap.
  Variable ps0 : list portion.            (* the portions FreeList::commit starts from *)
  Variable b0 : N.                        (* the frontier it starts from *)

  (* a page number the commit may write to: a free item of the list, or a frontier page *)
  Definition fresh (b x : N) : Prop := In x (stack ps0) \/ (b0 <= x /\ x < b)%N.

  Lemma fresh_mono : forall b b' x, (b <= b')%N -> fresh b x -> fresh b' x.
  Proof. intros b b' x Hb [H|H]; [left; exact H|right; lia]. Qed.

  Definition cinv (st : pre) : Prop :=
    p_rel st = [] /\
    incl (stack (p_ps st)) (stack ps0) /\
    (b0 <= p_bump st)%N /\
    (forall x, In x (p_new st) -> fresh (p_bump st) x) /\
    (if p_nfp st then suffix (p_ps st) (tl ps0)
     else exists h its r, p_ps st = (h, its) :: r /\ fresh (p_bump st) h /\ suffix r (tl ps0)).

  Lemma pre_loop_cinv : forall fuel st st',
      pre_loop cap fuel st = Some st' -> cinv st -> cinv st'.
  Proof.
    induction fuel as [|f IH]; intros st st' H Hc.
    - cbn [pre_loop] in H. destruct (p_i st <? length (p_push st)); [discriminate|].
      injection H as <-. exact Hc.
    - cbn [pre_loop] in H. destruct (p_i st <? length (p_push st)); [|injection H as <-; exact Hc].
      destruct st as [ps rel push new bump i nfp].
      destruct Hc as [C0 [C1 [C2 [C3 C4]]]]. cbn [p_ps p_rel p_push p_new p_bump p_i p_nfp] in *. subst rel.
      destruct nfp.
      + destruct ps as [|[h its] r].
        * (* frontier page *)
          cbn [pop_ps] in H. apply IH in H; [exact H|].
          unfold cinv. cbn [p_ps p_rel p_push p_new p_bump p_i p_nfp].
          split; [reflexivity|]. split; [exact C1|]. split; [lia|].
          split; [|exact C4].
          intros x Hx. apply in_app_or in Hx. destruct Hx as [Hx|[<-|[]]].
          -- eapply fresh_mono; [|apply C3; exact Hx]. lia.
          -- right. lia.
        * destruct its as [|y its']; [discriminate|].
          apply IH in H; [exact H|].
          unfold cinv. cbn [p_ps p_rel p_push p_new p_bump p_i p_nfp].
          split; [reflexivity|].
          split; [intros z Hz; apply C1; rewrite stack_cons in *; cbn [app]; right; exact Hz|].
          split; [exact C2|]. split; [exact C3|].
          exists y, its', r. split; [reflexivity|].
          split; [left; apply C1; rewrite stack_cons; left; reflexivity|].
          eapply suffix_tail. exact C4.
      + destruct C4 as [h [its [r [-> [Hh Hr]]]]].
        destruct its as [|x its']; [discriminate|].
        destruct its' as [|y its''].
        * cbn [pop_ps] in H. apply IH in H; [exact H|].
          unfold cinv. cbn [p_ps p_rel p_push p_new p_bump p_i p_nfp].
          split; [reflexivity|].
          split; [intros z Hz; apply C1; rewrite stack_cons; apply in_or_app; right; exact Hz|].
          split; [exact C2|]. split; [|exact Hr].
          intros z Hz. apply in_app_or in Hz. destruct Hz as [Hz|[<-|[<-|[]]]].
          -- apply C3. exact Hz.
          -- left. apply C1. rewrite stack_cons. left. reflexivity.
          -- exact Hh.
        * cbn [pop_ps] in H. apply IH in H; [exact H|].
          unfold cinv. cbn [p_ps p_rel p_push p_new p_bump p_i p_nfp].
          split; [reflexivity|].
          split; [intros z Hz; apply C1; rewrite stack_cons in *; cbn [app] in *; right; exact Hz|].
          split; [exact C2|]. split.
          -- intros z Hz. apply in_app_or in Hz. destruct Hz as [Hz|[<-|[]]]; [apply C3; exact Hz|].
             left. apply C1. rewrite stack_cons. left. reflexivity.
          -- exists h, (y :: its''), r. split; [reflexivity|]. split; [exact Hh|exact Hr].
  Qed.

  Lemma pre_first_cinv : forall push st,
      pre_first cap ps0 [] push b0 = Some st -> cinv st.
  Proof.
    intros push st H. unfold pre_first in H. unfold cinv, fresh.
    destruct ps0 as [|[h its] r] eqn:E0.
    - cbn [pop_ps] in H. injection H as <-. cbn [p_ps p_rel p_push p_new p_bump p_i p_nfp].
      split; [reflexivity|]. split; [intros z []|]. split; [lia|]. split; [intros z []|apply suffix_refl].
    - destruct its as [|x its']; [discriminate|].
      assert (Hx : In x (stack ((h, x :: its') :: r)) \/ (b0 <= x /\ x < b0)%N) by (left; rewrite stack_cons; left; reflexivity).
      assert (Hr : suffix r (tl ((h, x :: its') :: r))) by (apply suffix_refl).
      assert (Hincl : incl (stack r) (stack ((h, x :: its') :: r))).
      { intros z Hz. rewrite stack_cons. apply in_or_app. right. exact Hz. }
      destruct its' as [|y its''].
      + cbn [pop_ps] in H.
        destruct r as [|[nh nits] r'].
        * injection H as <-. cbn [p_ps p_rel p_push p_new p_bump p_i p_nfp].
          split; [reflexivity|]. split; [intros z []|]. split; [lia|].
          split; [intros z [<-|[]]; exact Hx|apply suffix_nil].
        * destruct (length nits =? cap - 1).
          -- destruct (csub cap (length nits)) as [i|]; [|discriminate]. cbn [obind] in H. injection H as <-.
             cbn [p_ps p_rel p_push p_new p_bump p_i p_nfp].
             split; [reflexivity|].
             split; [intros z Hz; rewrite stack_cons in Hz; apply Hincl; rewrite stack_cons; exact Hz|].
             split; [lia|]. split; [intros z []|].
             exists x, nits, r'. split; [reflexivity|]. split; [exact Hx|]. eapply suffix_tail. exact Hr.
          -- injection H as <-. cbn [p_ps p_rel p_push p_new p_bump p_i p_nfp].
             split; [reflexivity|]. split; [exact Hincl|]. split; [lia|].
             split; [intros z [<-|[]]; exact Hx|exact Hr].
      + cbn [pop_ps] in H.
        destruct (csub cap (length (y :: its''))) as [i|]; [|discriminate]. cbn [obind] in H. injection H as <-.
        cbn [p_ps p_rel p_push p_new p_bump p_i p_nfp].
        split; [reflexivity|].
        split; [intros z Hz; rewrite stack_cons in *; cbn [app] in *; right; exact Hz|].
        split; [lia|]. split; [intros z []|].
        exists x, (y :: its''), r. split; [reflexivity|]. split; [exact Hx|exact Hr].
  Qed.

  (* push_and_encode: the head is a page drawn in this commit, or it is clean (and full) *)
  Definition pcow (b : N) (clean : bool) (ps : list portion) : Prop :=
    match ps with
    | [] => True
    | (h, its) :: r => fresh b h \/ (clean = true /\ length its = cap)
    end.

  Lemma push_enc_cow : forall b push ps new clean enc ps' enc',
      push_enc cap ps push new clean enc = Some (ps', enc') ->
      pcow b clean ps -> (forall x, In x new -> fresh b x) ->
      forall w, In w enc' -> In w enc \/ fresh b (fst (fst w)).
  Proof.
    intros b. induction push as [|pn rest IH]; intros ps new clean enc ps' enc' H Hp Hn w Hw; cbn [push_enc] in H.
    - destruct new; [|discriminate]. injection H as <- <-.
      destruct clean; [left; exact Hw|].
      apply in_app_or in Hw. destruct Hw as [Hw|Hw]; [left; exact Hw|right].
      destruct ps as [|[h its] r]; [destruct Hw|]. cbn [encode_head In] in Hw.
      destruct Hw as [<-|[]]. cbn [fst]. cbn [pcow] in Hp.
      destruct Hp as [Hp|[Hp _]]; [exact Hp|discriminate].
    - assert (Hhead : clean = false -> forall w0, In w0 (encode_head ps) -> fresh b (fst (fst w0))).
      { intros Hcl w0 Hw0. destruct ps as [|[h its] r]; [destruct Hw0|]. cbn [encode_head In] in Hw0.
        destruct Hw0 as [<-|[]]. cbn [fst]. cbn [pcow] in Hp.
        destruct Hp as [Hp|[Hp _]]; [exact Hp|congruence]. }
      destruct ((match ps with [] => true | (_, its) :: _ => length its =? cap end)
                || (match ps with [] => false | (_, its) :: _ => length its =? cap - 1 end
                    && negb (is_nil new) && is_nil rest)) eqn:Eopen.
      + destruct new as [|np new']; [discriminate|].
        assert (Hp' : pcow b false ((np, [pn]) :: ps)) by (cbn [pcow]; left; apply Hn; left; reflexivity).
        assert (Hn' : forall x, In x new' -> fresh b x) by (intros x Hx; apply Hn; right; exact Hx).
        destruct (IH _ _ _ _ _ _ H Hp' Hn' w Hw) as [Hin|Hr]; [|right; exact Hr].
        destruct clean; [left; exact Hin|].
        apply in_app_or in Hin. destruct Hin as [Hin|Hin]; [left; exact Hin|right; apply Hhead; [reflexivity|exact Hin]].
      + destruct ps as [|[h its] r]; [discriminate|].
        destruct (length its <? cap) eqn:Elt; [|discriminate].
        apply orb_false_iff in Eopen. destruct Eopen as [Efull _]. apply Nat.eqb_neq in Efull.
        assert (Hp' : pcow b false ((h, pn :: its) :: r)).
        { cbn [pcow] in *. destruct Hp as [Hp|[_ Hp]]; [left; exact Hp|contradiction]. }
        exact (IH _ _ _ _ _ _ H Hp' Hn w Hw).
  Qed.

End Cow.

Section CowCommit.
  Variable cap : nat.
  Hypothesis cap2 : 2 <= cap.

  (* FreeList::commit: every page written hosts a portion of the new list and is a free item of
     the list the commit starts from or a frontier page [bump, bump') - nothing else *)
  Theorem commit_cow : forall s freed bump s' bump' ws,
      shape_b cap (fl_portions s) = true ->
      commit cap s freed bump = Some (s', bump', ws) ->
      forall w, In w ws ->
        In (fst (fst w)) (heads (fl_portions s')) /\
        (In (fst (fst w)) (stack (fl_portions s)) \/ (bump <= fst (fst w) /\ fst (fst w) < bump')%N).
  Proof.
    intros s freed bump s' bump' ws Hs H w Hw.
    split; [exact (commit_written cap _ _ _ _ _ _ H w Hw)|].
    unfold commit in H.
    destruct (negb (fl_pop s) && is_nil freed); [injection H as _ _ <-; destruct Hw|].
    unfold preallocate in H.
    destruct (pre_first cap (fl_portions s) [] (freed ++ rev (fl_released s)) bump) as [st|] eqn:E1; [|discriminate].
    cbn [obind] in H.
    destruct (pre_loop cap (pre_fuel (p_push st)) st) as [st'|] eqn:E2; [|discriminate].
    cbn [obind] in H.
    destruct (push_enc cap (p_ps st') (p_push st') (p_new st') (head_untouched st') []) as [[ps2 enc2]|] eqn:E3; [|discriminate].
    cbn [obind fst snd] in H. injection H as <- <- <-.
    (* the two invariants at the exit of the loop *)
    pose proof (pre_first_cinv cap cap2 (fl_portions s) bump _ _ E1) as Hc1.
    pose proof (pre_loop_cinv cap cap2 (fl_portions s) bump _ _ _ E2 Hc1) as [_ [_ [Hb [Hnew Hsh]]]].
    destruct (pre_first_total cap cap2 (fl_portions s) (freed ++ rev (fl_released s)) bump Hs) as [st0 [E1' [Hl1 Hf1]]].
    rewrite E1 in E1'. injection E1' as <-.
    destruct (pre_loop_total cap cap2 _ _ Hl1 Hf1) as [st1 [E2' [Hl2 _]]].
    rewrite E2 in E2'. injection E2' as <-.
    destruct Hl2 as [L1 [L2 _]].
    assert (Hp : pcow cap (fl_portions s) bump (p_bump st') (head_untouched st') (p_ps st')).
    { unfold head_untouched. destruct (p_ps st') as [|[h its] r] eqn:Eps; [exact I|]. cbn [pcow is_nil negb].
      destruct (p_nfp st') eqn:Enfp.
      - right. split; [reflexivity|].
        assert (Hr : room cap ((h, its) :: r) = 0) by (apply L2; reflexivity).
        cbn [room preshape] in *. lia.
      - left. destruct Hsh as [h1 [its1 [r1 [Heq [Hh _]]]]]. injection Heq as <- _ _. exact Hh. }
    destruct (push_enc_cow cap (fl_portions s) bump (p_bump st') _ _ _ _ _ _ _ E3 Hp Hnew w Hw) as [[]|Hf].
    destruct Hf as [Hf|Hf]; [left; exact Hf|right; exact Hf].
  Qed.

End CowCommit.

Lemma suffix_trans : forall {A} (a b c : list A), suffix a b -> suffix b c -> suffix a c.
Proof. intros A a b c [p1 H1] [p2 H2]. exists (p2 ++ p1). rewrite <- app_assoc, <- H1. exact H2. Qed.

Lemma suffix_tl : forall {A} (a : list A), suffix (tl a) a.
Proof. intros A [|x a]; [apply suffix_refl|exists [x]; reflexivity]. Qed.

Lemma layout_suffix_incl : forall a b w, suffix a b -> In w (layout (to_disk a)) -> In w (layout (to_disk b)).
Proof.
  intros a b w [pre H] Hw. subst b. induction pre as [|[q qi] pre IH]; [exact Hw|].
  cbn [app to_disk map layout fst snd]. right. exact IH.
Qed.

Lemma discard_suffix : forall ps n rel d ps' rel' b,
    discard n ps rel = (d, ps', rel', b) -> suffix (tl ps') (tl ps).
Proof.
  induction ps as [|[hpn its] rest IH]; intros n rel d ps' rel' b H.
  - destruct n; cbn [discard] in H; injection H as _ <- _ _; apply suffix_refl.
  - destruct n as [|n']; [cbn [discard] in H; injection H as _ <- _ _; apply suffix_refl|].
    cbn [discard] in H.
    destruct (skipn (Nat.min (length its) (S n')) its) as [|y its'].
    + destruct (discard (S n' - Nat.min (length its) (S n')) rest (hpn :: rel)) as [[[d1 ps1] rel1] b1] eqn:Ed.
      injection H as _ <- _ _. apply IH in Ed. cbn [tl].
      eapply suffix_trans; [exact Ed|apply suffix_tl].
    + injection H as _ <- _ _. apply suffix_refl.
Qed.

Section CowSync.
  Variable cap : nat.
  Hypothesis cap2 : 2 <= cap.

  Let cap_pos : 1 <= cap.
  Proof. lia. Qed.

  (* C17 for the free list itself: every page the commit of the free list writes is a portion page
     of the NEW list and was, in the old image, a free item or a page beyond the frontier - not a
     live page, not a page released or handed out in this sync, and never a portion page of the old
     list *)
  Theorem sync_cow : forall s bump ops live got s' bump' ws,
      clean_b cap s = true -> (1 <= bump)%N ->
      covers (live ++ tracked (fl_portions s)) bump ->
      sync_all cap s bump ops = Some (got, s', bump', ws) ->
      ops_ok live ops got ->
      forall w, In w ws ->
        let pn := fst (fst w) in
        In pn (heads (fl_portions s')) /\
        ~ In pn live /\ ~ In pn got /\ ~ In pn (released_of ops) /\
        ~ In pn (heads (fl_portions s)) /\
        (In pn (stack (fl_portions s)) \/ (bump <= pn /\ pn < bump')%N).
  Proof.
    intros s bump ops live got s' bump' ws Hc Hb Hcov H Hok w Hw pn.
    pose proof (got_length cap cap_pos _ _ _ _ _ _ _ Hc H) as Hlen.
    pose proof (freelist_conservation cap cap_pos _ _ _ _ _ _ _ _ Hc Hb Hcov H Hok) as [Hcov' _].
    pose proof (live_after_cnt ops live got Hok Hlen pn) as Hl.
    destruct (sync_facts cap cap_pos _ _ _ _ _ _ _ Hc H)
      as [k [pushed [popped [rest [extra [G1 [G2 [G3 [G4 [G5 [G6 [G7 [G8 [G9 [G10 G11]]]]]]]]]]]]]]].
    assert (Hhead : In pn (heads (fl_portions s'))) by (apply G11; exact Hw).
    (* counting: pn occurs once, as a portion page of the new list *)
    pose proof (proj1 (covers_cnt _ _) Hcov' pn) as Hz. unfold tracked in Hz. cnt_norm_in Hz.
    assert (Hone : ind bump' pn <= 1) by (unfold ind; destruct ((1 <=? pn) && (pn <? bump'))%N; lia).
    pose proof (proj1 (cnt_in _ _) Hhead) as Hh.
    assert (Hfreed : cnt (released_of ops) pn <= cnt (stack (fl_portions s')) pn).
    { rewrite G6, G7. cnt_norm. lia. }
    (* where it comes from *)
    assert (Hsrc : In pn (stack (fl_portions s)) \/ (bump <= pn /\ pn < bump')%N).
    { unfold sync_all in H.
      destruct (sync_run cap (sync_start s bump) ops) as [y|] eqn:Erun; [|discriminate]. cbn [obind] in H.
      destruct (sync_finish cap y) as [[[s1 b1] w1]|] eqn:Efin; [|discriminate]. cbn [obind fst snd] in H.
      injection H as <- <- <- <-.
      pose proof (sync_run_spec cap cap_pos ops (sync_start s bump) y Hc Erun) as [R1 [R2 [R3 _]]].
      cbn [sync_start sy_fl sy_bump sy_allocs plus] in R1, R2, R3.
      unfold sync_finish, finish in Efin. rewrite R1, R2 in Efin.
      destruct (discard (sy_allocs y) (fl_portions s) (fl_released s)) as [[[d ps1] rel1] b] eqn:Ed.
      pose proof (clean_b_spec cap s Hc) as [_ [_ [_ [_ Hshape]]]].
      pose proof (discard_shape cap cap2 _ _ _ _ _ _ _ Hshape Ed) as Hs1.
      pose proof (discard_spec _ _ _ _ _ _ _ Ed) as [D1 [D2 _]].
      destruct (commit_cow cap cap2 (mkFl ps1 (fl_pop s || b) (fl_len s) (fl_frag s) rel1) _ _ _ _ _ Hs1 Efin w Hw) as [_ Hsrc].
      cbn [fl_portions] in Hsrc. fold pn in Hsrc.
      destruct Hsrc as [Hs|Hs].
      - left. rewrite D1. apply in_or_app. right. exact Hs.
      - right. lia. }
    split; [exact Hhead|].
    split; [intros Hi; apply cnt_in in Hi; lia|].
    split; [intros Hi; apply cnt_in in Hi; lia|].
    split; [intros Hi; apply cnt_in in Hi; lia|].
    split; [|exact Hsrc].
    (* not a portion page of the old list: those are neither free items nor beyond the frontier *)
    intros Hi. apply cnt_in in Hi.
    pose proof (proj1 (covers_cnt _ _) Hcov pn) as Hz0. unfold tracked in Hz0. cnt_norm_in Hz0. unfold ind in Hz0.
    destruct Hsrc as [Hs|Hs].
    - apply cnt_in in Hs. destruct ((1 <=? pn) && (pn <? bump))%N; lia.
    - destruct ((1 <=? pn) && (pn <? bump))%N eqn:Er; [|lia].
      apply andb_true_iff in Er. destruct Er as [_ Er]. apply N.ltb_lt in Er. lia.
  Qed.

End CowSync.

(* ---------------------------------------------------------------------------------------------- *)
(* H. what is on disk after the commit is the list the code holds in memory                        *)

Lemma layout_cons : forall h its r,
    layout (to_disk ((h, its) :: r)) = encode_head ((h, its) :: r) ++ layout (to_disk r).
Proof.
  intros h its r. cbn [to_disk map layout fst snd encode_head app]. f_equal. f_equal.
  destruct r as [|[q qi] r']; reflexivity.
Qed.

Section Disk.
  Variable cap : nat.
  Hypothesis cap2 : 2 <= cap.

  Let cap_pos : 1 <= cap.
  Proof. lia. Qed.

  (* [clean]: the head is identical to its page on disk, which stays as it is; the layout of the
     rest (of everything, when clean) consists of pages written so far on top of old pages *)
  Lemma push_enc_layout : forall push ps new clean enc ps' enc' Wd S,
      push_enc cap ps push new clean enc = Some (ps', enc') ->
      (clean = true -> exists h its r, ps = (h, its) :: r /\ length its = cap) ->
      layout (to_disk (if clean then ps else tl ps)) = Wd ++ S -> (forall w, In w Wd -> In w enc) ->
      exists W', layout (to_disk ps') = W' ++ S /\ forall w, In w W' -> In w enc'.
  Proof.
    induction push as [|pn rest IH]; intros ps new clean enc ps' enc' Wd S H Hcl Hl Hw; cbn [push_enc] in H.
    - destruct new; [|discriminate]. injection H as <- <-.
      destruct clean.
      + exists Wd. split; [exact Hl|exact Hw].
      + destruct ps as [|[h its] r].
        * cbn [tl to_disk map layout] in *. exists Wd. split; [exact Hl|].
          intros w Hin. apply in_or_app. left. apply Hw. exact Hin.
        * cbn [tl] in Hl. rewrite layout_cons, Hl. exists (encode_head ((h, its) :: r) ++ Wd).
          split; [rewrite app_assoc; reflexivity|].
          intros w Hin. apply in_app_or in Hin. apply in_or_app.
          destruct Hin as [Hin|Hin]; [right; exact Hin|left; apply Hw; exact Hin].
    - destruct ((match ps with [] => true | (_, its) :: _ => length its =? cap end)
                || (match ps with [] => false | (_, its) :: _ => length its =? cap - 1 end
                    && negb (is_nil new) && is_nil rest)) eqn:Eopen.
      + destruct new as [|np new']; [discriminate|].
        destruct clean.
        * apply (IH _ _ _ _ _ _ Wd S) in H; [exact H|discriminate|exact Hl|exact Hw].
        * apply (IH _ _ _ _ _ _ (encode_head ps ++ Wd) S) in H; [exact H|discriminate| |].
          -- cbn [tl]. destruct ps as [|[h its] r]; [exact Hl|].
             cbn [tl] in Hl. rewrite layout_cons, Hl, app_assoc. reflexivity.
          -- intros w Hin. apply in_app_or in Hin. apply in_or_app.
             destruct Hin as [Hin|Hin]; [right; exact Hin|left; apply Hw; exact Hin].
      + destruct ps as [|[h its] r]; [discriminate|].
        destruct (length its <? cap); [|discriminate].
        apply orb_false_iff in Eopen. destruct Eopen as [Efull _]. apply Nat.eqb_neq in Efull.
        destruct clean.
        * exfalso. destruct (Hcl eq_refl) as [h1 [its1 [r1 [Heq Hlen]]]]. injection Heq as <- <- <-. contradiction.
        * apply (IH _ _ _ _ _ _ Wd S) in H; [exact H|discriminate|exact Hl|exact Hw].
  Qed.

  (* the layout of the new list: pages written by this commit on top of untouched pages of the
     old list *)
  Theorem commit_layout : forall s freed bump s' bump' ws,
      shape_b cap (fl_portions s) = true ->
      commit cap s freed bump = Some (s', bump', ws) ->
      exists W r,
        layout (to_disk (fl_portions s')) = W ++ layout (to_disk r) /\
        (forall w, In w W -> In w ws) /\
        suffix r (fl_portions s) /\
        ((r = fl_portions s /\ fl_pop s = false) \/ suffix r (tl (fl_portions s))).
  Proof.
    intros s freed bump s' bump' ws Hs H. unfold commit in H.
    destruct (negb (fl_pop s) && is_nil freed) eqn:Enoop.
    - injection H as <- _ <-. cbn [fl_portions]. exists [], (fl_portions s).
      split; [reflexivity|]. split; [intros w []|]. split; [apply suffix_refl|left].
      apply andb_true_iff in Enoop. destruct Enoop as [Ep _]. apply negb_true_iff in Ep.
      split; [reflexivity|exact Ep].
    - unfold preallocate in H.
      destruct (pre_first cap (fl_portions s) [] (freed ++ rev (fl_released s)) bump) as [st|] eqn:E1; [|discriminate].
      cbn [obind] in H.
      destruct (pre_loop cap (pre_fuel (p_push st)) st) as [st'|] eqn:E2; [|discriminate].
      cbn [obind] in H.
      destruct (push_enc cap (p_ps st') (p_push st') (p_new st') (head_untouched st') []) as [[ps2 enc2]|] eqn:E3; [|discriminate].
      cbn [obind fst snd] in H. injection H as <- _ <-. cbn [fl_portions].
      pose proof (pre_first_cinv cap cap2 (fl_portions s) bump _ _ E1) as Hc1.
      pose proof (pre_loop_cinv cap cap2 (fl_portions s) bump _ _ _ E2 Hc1) as [_ [_ [_ [_ Hsh]]]].
      destruct (pre_first_total cap cap2 (fl_portions s) (freed ++ rev (fl_released s)) bump Hs) as [st0 [E1' [Hl1 Hf1]]].
      rewrite E1 in E1'. injection E1' as <-.
      destruct (pre_loop_total cap cap2 _ _ Hl1 Hf1) as [st1 [E2' [Hl2 _]]].
      rewrite E2 in E2'. injection E2' as <-.
      destruct Hl2 as [L1 [L2 _]].
      set (r := if head_untouched st' then p_ps st' else tl (p_ps st')).
      assert (Hr : suffix r (tl (fl_portions s))).
      { unfold r, head_untouched. destruct (p_nfp st').
        - destruct (p_ps st') as [|x l]; cbn [is_nil negb andb tl]; [exact Hsh|exact Hsh].
        - cbn [andb]. destruct Hsh as [h [its [r0 [-> [_ Hr]]]]]. exact Hr. }
      assert (Hcl : head_untouched st' = true -> exists h its r0, p_ps st' = (h, its) :: r0 /\ length its = cap).
      { unfold head_untouched. intros Hu. apply andb_true_iff in Hu. destruct Hu as [Hn Hne].
        destruct (p_ps st') as [|[h its] r0] eqn:Eps; [discriminate|].
        exists h, its, r0. split; [reflexivity|].
        assert (Hroom : room cap ((h, its) :: r0) = 0) by (apply L2; exact Hn).
        cbn [room preshape] in *. lia. }
      destruct (push_enc_layout _ _ _ _ _ _ _ [] (layout (to_disk r)) E3 Hcl eq_refl) as [W' [HW1 HW2]];
        [intros w []|].
      exists W', r. split; [exact HW1|]. split; [exact HW2|].
      split; [eapply suffix_trans; [exact Hr|apply suffix_tl]|right; exact Hr].
  Qed.

End Disk.

Lemma layout_in_heads : forall d w, In w (layout d) -> In (fst (fst w)) (map fst d).
Proof.
  induction d as [|[pn its] r IH]; intros w H; [destruct H|].
  cbn [layout In] in H. destruct H as [<-|H]; [left; reflexivity|right; apply IH; exact H].
Qed.

Lemma layout_inj : forall d w1 w2,
    NoDup (map fst d) -> In w1 (layout d) -> In w2 (layout d) ->
    fst (fst w1) = fst (fst w2) -> w1 = w2.
Proof.
  induction d as [|[pn its] r IH]; intros w1 w2 Hnd H1 H2 He; [destruct H1|].
  cbn [map fst] in Hnd. inversion Hnd as [|x l Hni Hnd']; subst.
  cbn [layout In] in H1, H2.
  destruct H1 as [<-|H1], H2 as [<-|H2].
  - reflexivity.
  - exfalso. apply Hni. cbn [fst] in He. rewrite He. apply layout_in_heads. exact H2.
  - exfalso. apply Hni. cbn [fst] in He. rewrite <- He. apply layout_in_heads. exact H1.
  - apply IH; assumption.
Qed.

Lemma to_disk_heads : forall ps, map fst (to_disk ps) = heads ps.
Proof. intros ps. unfold to_disk, heads. rewrite map_map. reflexivity. Qed.

Lemma ws_dec : forall (ws : list wpage) pn,
    (exists w, In w ws /\ fst (fst w) = pn) \/ (forall w, In w ws -> fst (fst w) <> pn).
Proof.
  induction ws as [|w0 r IH]; intros pn; [right; intros w []|].
  destruct (N.eq_dec (fst (fst w0)) pn) as [E|E].
  - left. exists w0. split; [left; reflexivity|exact E].
  - destruct (IH pn) as [[w [Hin Hw]]|Hn].
    + left. exists w. split; [right; exact Hin|exact Hw].
    + right. intros w [<-|Hin]; [exact E|apply Hn; exact Hin].
Qed.

Section DiskSync.
  Variable cap : nat.
  Hypothesis cap2 : 2 <= cap.
  Hypothesis cap_max : cap <= 1022.

  Let cap_pos : 1 <= cap.
  Proof. lia. Qed.

  Lemma shape_lengths : forall ps, shape_b cap ps = true -> Forall (fun p : portion => length (snd p) <= cap) ps.
  Proof.
    intros [|[h its] r] H; [constructor|].
    apply shape_b_cons in H. destruct H as [Hits Hr].
    constructor; [cbn [snd]; lia|].
    destruct r as [|[p pits] r']; [constructor|]. destruct Hr as [Hp Hf].
    constructor; [cbn [snd]; lia|].
    rewrite Forall_forall in *. intros q Hq. apply Hf in Hq. unfold full in Hq. lia.
  Qed.

  (* a page as the reader returns it starts with the encoding of the written page *)
  Definition served (rd : N -> option (list N)) (w : wpage) : Prop :=
    exists tail,
      rd (fst (fst w)) = Some (encode_prefix (snd (fst w)) (snd w) ++ tail)
      /\ length (encode_prefix (snd (fst w)) (snd w) ++ tail) = 4096.

  (* After a sync, Image.free_walk (equally FreeList::read at the next open) from the new head
     over the new file content - the old content [rd0] with the pages written by the commit
     replaced - returns exactly the list the code holds in memory; in particular the page of an
     untouched portion that became the head, which the commit does not write, still decodes to
     that portion.  Page numbers fit the u32 fields ([bump' <= 2^32]). *)
  Theorem sync_disk : forall s bump ops live got s' bump' ws rd0 rd1 c fuel,
      clean_b cap s = true -> (1 <= bump)%N -> (bump' <= 2 ^ 32)%N ->
      covers (live ++ tracked (fl_portions s)) bump ->
      sync_all cap s bump ops = Some (got, s', bump', ws) ->
      ops_ok live ops got ->
      serves rd0 (to_disk (fl_portions s)) ->
      (forall w, In w ws -> served rd1 w) ->
      (forall pn, (forall w, In w ws -> fst (fst w) <> pn) -> rd1 pn = rd0 pn) ->
      length (fl_portions s') <= fuel ->
      free_walk fuel c rd1 (head_pn s') [] = Ok (to_disk (fl_portions s')).
  Proof.
    intros s bump ops live got s' bump' ws rd0 rd1 c fuel Hc Hb Hmax Hcov H Hok Hrd0 Hnew Hold Hfuel.
    pose proof (freelist_conservation cap cap_pos _ _ _ _ _ _ _ _ Hc Hb Hcov H Hok) as [Hcov' _].
    destruct (sync_total cap cap2 s bump ops Hc) as [got1 [s1 [b1 [ws1 [E1 Hc']]]]].
    rewrite H in E1. injection E1 as <- <- <- <-.
    pose proof (clean_b_spec cap s' Hc') as [_ [_ [_ [_ Hshape']]]].
    (* every tracked page number of the new list is in [1, bump') *)
    assert (Hrange : forall x, In x (tracked (fl_portions s')) -> (1 <= x /\ x < 2 ^ 32)%N).
    { intros x Hx. destruct Hcov' as [_ Hin].
      assert (Hr : (1 <= x /\ x < bump')%N) by (apply Hin; apply in_or_app; right; exact Hx). lia. }
    assert (Hok' : disk_ok (to_disk (fl_portions s'))).
    { unfold disk_ok, to_disk. rewrite Forall_map.
      pose proof (shape_lengths _ Hshape') as Hlen.
      rewrite Forall_forall in *. intros p Hp. cbn [fst snd].
      assert (Hh : In (fst p) (tracked (fl_portions s'))).
      { unfold tracked. apply in_or_app. left. unfold heads. apply in_map. exact Hp. }
      split; [apply Hrange in Hh; lia|].
      split; [rewrite rev_length; specialize (Hlen p Hp); lia|].
      rewrite Forall_forall. intros x Hx. apply in_rev in Hx.
      assert (Hi : In x (tracked (fl_portions s'))).
      { unfold tracked. apply in_or_app. right. unfold stack. apply in_flat_map. exists p. split; assumption. }
      apply Hrange in Hi. unfold item_ok. lia. }
    (* the layout of the new list *)
    unfold sync_all in H.
    destruct (sync_run cap (sync_start s bump) ops) as [y|] eqn:Erun; [|discriminate]. cbn [obind] in H.
    destruct (sync_finish cap y) as [[[s2 b2] w2]|] eqn:Efin; [|discriminate]. cbn [obind fst snd] in H.
    injection H as <- <- <- <-.
    pose proof (sync_run_spec cap cap_pos ops (sync_start s bump) y Hc Erun) as [R1 [R2 _]].
    cbn [sync_start sy_fl sy_bump] in R1, R2.
    assert (Hall : sync_all cap s bump ops = Some (sy_got y, s2, b2, w2)).
    { unfold sync_all. rewrite Erun. cbn [obind]. rewrite Efin. reflexivity. }
    unfold sync_finish, finish in Efin. rewrite R1, R2 in Efin.
    destruct (discard (sy_allocs y) (fl_portions s) (fl_released s)) as [[[d ps1] rel1] b] eqn:Ed.
    pose proof (clean_b_spec cap s Hc) as [Hpop [_ [_ [_ Hshape]]]].
    pose proof (discard_shape cap cap2 _ _ _ _ _ _ _ Hshape Ed) as Hs1.
    pose proof (discard_suffix _ _ _ _ _ _ _ Ed) as Dsuf.
    destruct (commit_layout cap cap2 (mkFl ps1 (fl_pop s || b) (fl_len s) (fl_frag s) rel1) _ _ _ _ _ Hs1 Efin)
      as [W [r [L1 [L2 [L3 L4]]]]].
    cbn [fl_portions fl_pop] in L1, L3, L4.
    assert (Hr : suffix r (fl_portions s)).
    { destruct L4 as [[-> Hp]|L4].
      - rewrite Hpop in Hp. cbn [orb] in Hp.
        pose proof (discard_nobody _ _ _ _ _ _ _ Ed Hp) as [-> _]. apply suffix_refl.
      - eapply suffix_trans; [exact L4|]. eapply suffix_trans; [exact Dsuf|apply suffix_tl]. }
    (* the new reader serves every page of the new layout *)
    assert (Hserves : serves rd1 (to_disk (fl_portions s2))).
    { unfold serves. rewrite L1. apply Forall_app. split.
      - rewrite Forall_forall. intros w Hw. apply Hnew. apply L2. exact Hw.
      - rewrite Forall_forall. intros e He.
        assert (He0 : In e (layout (to_disk (fl_portions s)))) by (eapply layout_suffix_incl; [exact Hr|exact He]).
        unfold serves in Hrd0. rewrite Forall_forall in Hrd0. specialize (Hrd0 e He0).
        destruct (ws_dec w2 (fst (fst e))) as [[w [Hin Hw]]|Hn].
        + (* no page of the old list is written *)
          exfalso.
          destruct (sync_cow cap cap2 _ _ _ _ _ _ _ _ Hc Hb Hcov Hall Hok w Hin) as [_ [_ [_ [_ [Hnh _]]]]].
          apply Hnh. rewrite Hw, <- to_disk_heads. apply layout_in_heads. exact He0.
        + destruct Hrd0 as [tail [Hrd Hlen]]. exists tail. rewrite (Hold _ Hn). split; assumption. }
    assert (Hhd : head_pn s2 = disk_head (to_disk (fl_portions s2))).
    { unfold head_pn. destruct (fl_portions s2) as [|[h its] r']; reflexivity. }
    rewrite Hhd. apply encode_decode_any_tail; [exact Hok'|exact Hserves|].
    unfold to_disk. rewrite map_length. exact Hfuel.
  Qed.

End DiskSync.

(* FreeList::read of a decoded list of the expected shape (checked on every image by the img
   engine: shape_v) is a clean list: the starting point of the induction over syncs *)
Lemma fl_read_clean : forall cap d,
    shape_b cap (of_disk d) = true -> clean_b cap (fl_read cap d) = true.
Proof.
  intros cap d H. unfold fl_read, clean_b.
  cbn [fl_pop fl_released fl_len fl_frag fl_portions negb is_nil andb].
  rewrite Nat.eqb_refl, eqb_reflx, H. reflexivity.
Qed.

Lemma of_to_disk : forall ps, of_disk (to_disk ps) = ps.
Proof.
  induction ps as [|[h its] r IH]; [reflexivity|].
  cbn [to_disk of_disk map fst snd] in *. rewrite rev_involutive. f_equal. exact IH.
Qed.

(* the pages the transition check takes as handed out are those of the mirrored allocate *)
Lemma alloc_all_spec : forall cap, 1 <= cap -> forall s bump n idx,
    clean_b cap s = true ->
    alloc_all cap s bump idx n = Some (map (alloc_nth (fl_portions s) bump) (seq idx n)).
Proof.
  intros cap Hcap s bump n. induction n as [|n IH]; intros idx Hc; [reflexivity|].
  cbn [alloc_all seq map]. rewrite (allocate_spec cap Hcap) by exact Hc.
  rewrite IH by exact Hc. reflexivity.
Qed.

Theorem alloc_pages_spec : forall cap, 1 <= cap -> forall s bump n,
    alloc_pages cap s bump n = alloc_all cap s bump 0 n.
Proof.
  intros cap Hcap s bump n. unfold alloc_pages. destruct (clean_b cap s) eqn:Hc; [|reflexivity].
  rewrite (alloc_all_spec cap Hcap) by exact Hc. rewrite (alloc_seq_spec cap Hcap). reflexivity.
Qed.

(* the linear-time variants used by the executable checks are the plain functions *)
Lemma frev_rev : forall {A} (l : list A), frev l = rev l.
Proof. intros A l. unfold frev. symmetry. apply rev_alt. Qed.

Lemma to_disk_f_eq : forall ps, to_disk_f ps = to_disk ps.
Proof. intros ps. unfold to_disk_f, to_disk. apply map_ext. intros p. rewrite frev_rev. reflexivity. Qed.

Lemma of_disk_f_eq : forall d, of_disk_f d = of_disk d.
Proof. intros d. unfold of_disk_f, of_disk. apply map_ext. intros p. rewrite frev_rev. reflexivity. Qed.

Lemma fl_read_f_eq : forall cap d, fl_read_f cap d = fl_read cap d.
Proof. intros cap d. unfold fl_read_f, fl_read. rewrite of_disk_f_eq. reflexivity. Qed.
