(* Glue for the E-core engine (harness/src/core.rs <-> ocaml/core_cmds.ml): resolution of the
   pipe's node references into FreeH terms, and the FreeH / KEYLEN = 256 instances of the
   mirrored nomt-core functions that the driver calls.  No proofs; nothing here is part of a
   property statement.  Decisions are taken here (in extracted code), the OCaml side only
   parses and prints. *)
From Nomt Require Import Base Hash Trie Result PathProof BuildTrie VerifyUpdate Witness
  MultiProof MultiUpdate Emit.

Definition KEYLEN : nat := 256.

(* the FreeH term of an annotated sub-trie *)
Fixpoint anode (t : atrie) : fnode :=
  match t with
  | AE => FT
  | AL _ k v => FL k v
  | AB _ l r => FI (anode l) (anode r)
  end.

(* node [i] of the table printed for [t] (post-order numbering: every id of the left sub-trie is
   <= aid l, the right sub-trie's ids lie between aid l and the node's own id); id 0 is the
   terminator *)
Fixpoint find_node_pos (t : atrie) (i : N) : option fnode :=
  match t with
  | AE => None
  | AL id k v => if N.eqb id i then Some (FL k v) else None
  | AB id l r =>
      if N.eqb id i then Some (anode t)
      else if N.leb i (aid l) then find_node_pos l i else find_node_pos r i
  end.

Definition find_node (t : atrie) (i : N) : option fnode :=
  if N.eqb i 0 then Some FT else find_node_pos t i.

(* node references of the pipe syntax:
     #id  $id   node of the table of view slot 0 / 1
     T          terminator
     ol<n> oi<n>  opaque node number n labelled leaf / internal
     N(a,b)     internal node over two references
     F(key,vid) leaf *)
Inductive nref :=
| RId (slot1 : bool) (id : N)
| RT
| RO (k : nkind) (n : N)
| RN (l r : nref)
| RF (k : key) (v : value).

Fixpoint resolve (a b : atrie) (r : nref) : option fnode :=
  match r with
  | RId s i => find_node (if s then b else a) i
  | RT => Some FT
  | RO k n => Some (FO k n)
  | RN l r =>
      match resolve a b l, resolve a b r with
      | Some x, Some y => Some (FI x y)
      | _, _ => None
      end
  | RF k v => Some (FL k v)
  end.

(* a view and its annotated trie, exactly as the driver's set_view builds them *)
Definition annotate_view (v : kv) : atrie := fst (annotate (mk KEYLEN 0 v) 1%N).

Definition apply_root (S : kv) (W : list change) : fnode := root_n FreeH KEYLEN (apply S W).

(* ---- path proofs ---- *)
Definition pp_verify (p : path_proof FreeH) (key_path : key) (root : fnode) :=
  PathProof.verify FreeH p key_path root.
Definition pp_confirm_value (vp : verified FreeH) (k : key) (v : value) :=
  PathProof.confirm_value FreeH vp k v.
Definition pp_confirm_nonexistence (vp : verified FreeH) (k : key) :=
  PathProof.confirm_nonexistence FreeH vp k.

(* per-path verify_update: every path proof is verified first (against its own stated root), the
   first failing verification is reported, otherwise the update is verified *)
Inductive vu_out :=
| VuPathFailed (i : nat) (r : res verify_err unit)
| VuDone (r : res vu_err fnode).

Fixpoint vu_verify_all (i : nat) (paths : list (path_proof FreeH * key * fnode * list (key * option value)))
  : (nat * res verify_err unit) + list (path_update FreeH) :=
  match paths with
  | [] => inr []
  | (p, k, root, ops) :: rest =>
      match PathProof.verify FreeH p k root with
      | Ok vp =>
          match vu_verify_all (S i) rest with
          | inr l => inr ({| pu_inner := vp; pu_ops := ops |} :: l)
          | inl e => inl e
          end
      | Err e => inl (i, Err e)
      | Panic => inl (i, Panic)
      end
  end.

Definition vu_run (prev_root : fnode) (paths : list (path_proof FreeH * key * fnode * list (key * option value)))
  : vu_out :=
  match vu_verify_all 0 paths with
  | inl (i, r) => VuPathFailed i r
  | inr l => VuDone (VerifyUpdate.verify_update FreeH KEYLEN prev_root l)
  end.

(* canonical grouping of a sorted write set (Witness.group) and the update verified over it *)
Definition group_run (S : kv) (W : list (key * option value)) : list (path_update FreeH) :=
  group FreeH KEYLEN S W.
Definition vu_group_run (S : kv) (W : list (key * option value)) : res vu_err fnode :=
  VerifyUpdate.verify_update FreeH KEYLEN (root_n FreeH KEYLEN S) (group FreeH KEYLEN S W).

(* ---- build_trie ---- *)
Definition bt_run (skip : nat) (ops : list (key * value)) : res bt_err fnode :=
  build_trie FreeH KEYLEN skip ops.

(* ---- multi-proofs ---- *)
(* from_path_proofs never hashes or inspects a sibling: run it over sibling INDICES (positions in
   the concatenated input sibling lists) so that the result can be printed as references *)
Definition IdxH : Hasher :=
  {| node := N; TERM := 0%N; hleaf := fun _ _ => 0%N; hint := fun _ _ => 0%N;
     kind := fun _ => KInt; node_eqb := N.eqb |}.
Definition fpp_run (proofs : list (path_proof IdxH)) : res no_err (multi_proof IdxH) :=
  from_path_proofs IdxH proofs.

(* the root a multi-proof hashes up to (what verify compares with the expected root); FT when
   the proof does not get that far *)
Definition multi_self_root (m : multi_proof FreeH) : fnode :=
  if paths_out_of_order None (mp_paths m) then FT
  else
    let fuel := length (mp_paths m)
                + max_path_len (fun p => term_path (mpp_terminal p)) (mp_paths m) + 2 in
    match verify_range FreeH fuel 0 (mp_paths m) (mp_siblings m) 0 [] [] with
    | Ok (n, _, _, _) => n
    | _ => FT
    end.

Definition multi_verify (m : multi_proof FreeH) (root : fnode) := MultiProof.verify FreeH m root.
Definition multi_find_index_for (v : verified_multi_proof FreeH) (k : key) := find_index_for FreeH v k.
Definition multi_confirm_value (v : verified_multi_proof FreeH) (k : key) (x : value) :=
  MultiProof.confirm_value FreeH v (k, x).
Definition multi_confirm_nonexistence (v : verified_multi_proof FreeH) (k : key) :=
  MultiProof.confirm_nonexistence FreeH v k.
Definition multi_confirm_value_with_index (v : verified_multi_proof FreeH) (k : key) (x : value) (i : nat) :=
  confirm_value_with_index FreeH v (k, x) i.
Definition multi_confirm_nonexistence_with_index (v : verified_multi_proof FreeH) (k : key) (i : nat) :=
  confirm_nonexistence_with_index FreeH v k i.
Definition multi_verify_update (v : verified_multi_proof FreeH) (ops : list (key * option value)) :=
  MultiUpdate.verify_update FreeH KEYLEN v ops.
