(* Mirror of core/src/proof/path_proof.rs::verify_update: the stateless update verifier that
   replaces each touched terminal by its new sub-trie and compacts upwards. *)
From Nomt Require Import Base Hash Trie Result PathProof BuildTrie.

Section WithHasher.
  Variable H : Hasher.
  Variable KEYLEN : nat.

  Record path_update := { pu_inner : verified H; pu_ops : list (key * option value) }.

  Inductive vu_err := PathsOutOfOrder | OpsOutOfOrder | OpOutOfScope | PathWithoutOps | VuRootMismatch.

  (* BitSlice ordering is lexicographic with a strict prefix smaller: key_ltb *)
  Definition path_ge (a b : key) : bool := negb (key_ltb a b).

  Fixpoint check_ops (path : key) (prev : option key) (ops : list (key * option value)) : option vu_err :=
    match ops with
    | [] => None
    | (k, _) :: ops' =>
        match prev with
        | Some p => if path_ge p k then Some OpsOutOfOrder else
                      if is_prefix path k then check_ops path (Some k) ops' else Some OpOutOfScope
        | None => if is_prefix path k then check_ops path (Some k) ops' else Some OpOutOfScope
        end
    end.

  Fixpoint check_paths (prev_root : node H) (prev : option key) (paths : list path_update) : option vu_err :=
    match paths with
    | [] => None
    | p :: ps =>
        if negb (node_eqb H (vp_root (pu_inner p)) prev_root) then Some VuRootMismatch
        else
          let order_bad := match prev with Some q => path_ge q (vp_path (pu_inner p)) | None => false end in
          if order_bad then Some PathsOutOfOrder
          else match pu_ops p with
               | [] => Some PathWithoutOps
               | _ => match check_ops (vp_path (pu_inner p)) None (pu_ops p) with
                      | Some e => Some e
                      | None => check_paths prev_root (Some (vp_path (pu_inner p))) ps
                      end
               end
    end.

  (* the compaction loop over (bit, sibling) pairs, deepest first *)
  Fixpoint compact_up (pairs : list (bool * node H)) (cur_node : node H) (cur_layer : nat)
           (pending : list (node H * nat)) : node H * list (node H * nat) :=
    match pairs with
    | [] => (cur_node, pending)
    | (b, sib0) :: rest =>
        let '(sibling, pending') :=
          match pending with
          | (s, l) :: ps => if Nat.eqb l cur_layer then (s, ps) else (sib0, pending)
          | [] => (sib0, pending)
          end in
        let next :=
          match kind H cur_node, kind H sibling with
          | KTerm, KTerm => cur_node
          | KLeaf, KTerm => cur_node
          | KTerm, KLeaf => sibling
          | _, _ => if b then hint H sibling cur_node else hint H cur_node sibling
          end in
        compact_up rest next (cur_layer - 1) pending'
    end.

  (* zip(path.rev().take(up), siblings.rev()) *)
  Definition up_pairs (path : key) (sibs : list (node H)) (up : nat) : list (bool * node H) :=
    combine (firstn up (rev path)) (rev sibs).

  Fixpoint vu_loop (paths : list path_update) (pending : list (node H * nat))
    : res vu_err (list (node H * nat)) :=
    match paths with
    | [] => Ok pending
    | p :: ps =>
        let inner := pu_inner p in
        let skip := length (vp_path inner) in
        let up_layers : res vu_err nat :=
          match ps with
          | [] => Ok skip
          | q :: _ =>
              let n := common (vp_path (pu_inner q)) (vp_path inner) in
              (* two terminals of one trie are never prefixes of each other *)
              if Nat.eqb n skip then Err PathsOutOfOrder
              (* skip - (n + 1): usize underflow panics (overflow checks are on); unreachable
                 now, since n <= skip (a common prefix) and n <> skip
                 (VerifyUpdate_proofs.vu_no_underflow) *)
              else if Nat.ltb skip (n + 1) then Panic else Ok (skip - (n + 1))
          end in
        match up_layers with
        | Panic => Panic
        | Err e => Err e
        | Ok up =>
            let ops := leaf_ops_spliced (vp_terminal inner) (pu_ops p) in
            match build_trie H KEYLEN skip ops with
            | Panic => Panic
            | Err e => match e with end
            | Ok sub_root =>
                let '(cur_node, pending') :=
                  compact_up (up_pairs (vp_path inner) (vp_siblings inner) up) sub_root skip pending in
                vu_loop ps ((cur_node, skip - up) :: pending')
            end
        end
    end.

  Definition verify_update (prev_root : node H) (paths : list path_update) : res vu_err (node H) :=
    match paths with
    | [] => Ok prev_root
    | _ =>
        match check_paths prev_root None paths with
        | Some e => Err e
        | None =>
            bind (vu_loop paths [])
                 (fun pending => match pending with (n, _) :: _ => Ok n | [] => Panic end)
        end
    end.
End WithHasher.

Arguments pu_inner {H}. Arguments pu_ops {H}.
