(* C09: the reverse-delta rollback log (Rollback.v) refines the snapshot semantics:
   applying the traceback of the n newest deltas to the current state yields exactly the
   state n commits ago. *)
From Nomt Require Import Base Rollback Base_proofs Store_proofs.

(* looking a key up in a delta map *)
Fixpoint dm_get (m : delta) (k : key) : option (option value) :=
  match m with [] => None | (k', v) :: m' => if key_eqb k' k then Some v else dm_get m' k end.

Lemma dm_get_insert : forall m k v k',
  dm_get (dm_insert m k v) k' = if key_eqb k k' then Some v else dm_get m k'.
Proof.
  induction m as [|[k0 v0] m IH]; intros k v k'; cbn [dm_insert dm_get].
  - reflexivity.
  - destruct (key_ltb k k0) eqn:Elt.
    + cbn [dm_get]. reflexivity.
    + destruct (key_eqb k k0) eqn:Eeq.
      * apply key_eqb_true_iff in Eeq. subst. cbn [dm_get].
        destruct (key_eqb k0 k'); reflexivity.
      * cbn [dm_get]. rewrite IH.
        destruct (key_eqb k0 k') eqn:E0; [|reflexivity].
        apply key_eqb_true_iff in E0. subst. rewrite Eeq. reflexivity.
Qed.

(* ---------- delta maps stay strictly sorted (BTreeMap) ---------- *)

Definition dm_lb (k : key) (m : delta) : Prop :=
  forall k' v', In (k', v') m -> key_ltb k k' = true.

Fixpoint dm_sorted (m : delta) : Prop :=
  match m with
  | [] => True
  | (k, _) :: m' => dm_lb k m' /\ dm_sorted m'
  end.

Lemma In_dm_insert : forall m k v p, In p (dm_insert m k v) -> p = (k, v) \/ In p m.
Proof.
  induction m as [|[k0 v0] m IH]; intros k v p; cbn [dm_insert].
  - intros [H|[]]. left. symmetry. exact H.
  - destruct (key_ltb k k0).
    + intros [H|H]; [left; symmetry; exact H|right; exact H].
    + destruct (key_eqb k k0).
      * intros [H|H]; [left; symmetry; exact H|right; right; exact H].
      * intros [H|H]; [right; left; exact H|].
        apply IH in H. destruct H as [H|H]; [left; exact H|right; right; exact H].
Qed.

Lemma dm_insert_sorted : forall m k v, dm_sorted m -> dm_sorted (dm_insert m k v).
Proof.
  induction m as [|[k0 v0] m IH]; intros k v Hs; cbn [dm_insert].
  - cbn. split; [|exact I]. intros k' v' [].
  - destruct Hs as [Hlb Hs].
    destruct (key_ltb k k0) eqn:Elt.
    + cbn [dm_sorted]. split; [|split; assumption].
      intros k' v' [Heq|Hin].
      * inversion Heq; subst. exact Elt.
      * eapply key_ltb_trans; [exact Elt|]. eapply Hlb. exact Hin.
    + destruct (key_eqb k k0) eqn:Eeq.
      * apply key_eqb_true_iff in Eeq. subst. cbn [dm_sorted]. split; assumption.
      * cbn [dm_sorted]. split; [|apply IH; exact Hs].
        intros k' v' Hin. apply In_dm_insert in Hin. destruct Hin as [Heq|Hin].
        -- inversion Heq; subst.
           destruct (key_trichotomy k k0) as [Hl|[He|Hg]].
           ++ rewrite Hl in Elt. discriminate.
           ++ subst. rewrite key_eqb_refl in Eeq. discriminate.
           ++ exact Hg.
        -- eapply Hlb. exact Hin.
Qed.

Lemma dm_extend_app1 : forall m d e,
  dm_extend m (d ++ [e]) = dm_insert (dm_extend m d) (fst e) (snd e).
Proof.
  intros m d e. unfold dm_extend. rewrite fold_left_app. reflexivity.
Qed.

Lemma dm_extend_sorted : forall d m, dm_sorted m -> dm_sorted (dm_extend m d).
Proof.
  induction d as [|e d IH] using rev_ind; intros m Hs.
  - exact Hs.
  - rewrite dm_extend_app1. apply dm_insert_sorted. apply IH. exact Hs.
Qed.

Lemma dm_lb_get_None : forall m k, dm_lb k m -> dm_get m k = None.
Proof.
  induction m as [|[k0 v0] m IH]; intros k Hlb; cbn [dm_get].
  - reflexivity.
  - destruct (key_eqb k0 k) eqn:E.
    + apply key_eqb_true_iff in E. subst.
      specialize (Hlb k v0 (or_introl eq_refl)). rewrite key_ltb_irrefl in Hlb. discriminate.
    + apply IH. intros k' v' Hin. eapply Hlb. right. exact Hin.
Qed.

(* ---------- last_write vs dm_get ---------- *)

Lemma last_write_cons : forall cs c k,
  last_write (c :: cs) k =
  match last_write cs k with
  | Some w => Some w
  | None => if key_eqb (fst c) k then Some (snd c) else None
  end.
Proof.
  induction cs as [|c' cs IH] using rev_ind; intros c k.
  - unfold last_write. cbn [rev app find]. destruct (key_eqb (fst c) k); reflexivity.
  - change (c :: cs ++ [c']) with ((c :: cs) ++ [c']).
    rewrite !last_write_app1. destruct (key_eqb (fst c') k); [reflexivity|]. apply IH.
Qed.

Lemma last_write_dm_get : forall m k, dm_sorted m -> last_write m k = dm_get m k.
Proof.
  induction m as [|[k0 v0] m IH]; intros k Hs.
  - reflexivity.
  - destruct Hs as [Hlb Hs]. rewrite last_write_cons, (IH k Hs). cbn [dm_get fst snd].
    destruct (key_eqb k0 k) eqn:E.
    + apply key_eqb_true_iff in E. subst. rewrite (dm_lb_get_None _ _ Hlb). reflexivity.
    + destruct (dm_get m k); reflexivity.
Qed.

(* writing a sorted delta map: its dm_get decides every key *)
Lemma get_apply_dm : forall m S k, dm_sorted m ->
  get (apply S m) k = match dm_get m k with Some w => w | None => get S k end.
Proof.
  intros m S k Hs. rewrite get_apply, last_write_dm_get by exact Hs. reflexivity.
Qed.

Lemma dm_get_extend : forall d m k,
  dm_get (dm_extend m d) k =
  match last_write d k with Some w => Some w | None => dm_get m k end.
Proof.
  induction d as [|e d IH] using rev_ind; intros m k.
  - reflexivity.
  - rewrite dm_extend_app1, dm_get_insert, last_write_app1, IH.
    destruct (key_eqb (fst e) k); reflexivity.
Qed.

Lemma delta_of_app1 : forall S W c,
  delta_of S (W ++ [c]) = delta_of S W ++ [(fst c, get S (fst c))].
Proof.
  intros S W c. unfold delta_of. rewrite map_app. reflexivity.
Qed.

Lemma last_write_delta_of : forall W S k,
  last_write (delta_of S W) k =
  match last_write W k with Some _ => Some (get S k) | None => None end.
Proof.
  induction W as [|c W IH] using rev_ind; intros S k.
  - reflexivity.
  - rewrite delta_of_app1, !last_write_app1, IH. cbn [fst snd].
    destruct (key_eqb (fst c) k) eqn:E; [|reflexivity].
    apply key_eqb_true_iff in E. subst. reflexivity.
Qed.

(* ---------- one commit then its own delta ---------- *)

(* one commit then its own delta restores the state (values of every key) *)
Theorem delta_restores_get : forall S W k,
  get (apply (apply S W) (delta_of S W)) k = get S k.
Proof.
  intros S W k. rewrite get_apply, last_write_delta_of.
  destruct (last_write W k) eqn:E; [reflexivity|].
  rewrite get_apply, E. reflexivity.
Qed.

(* ... and, for canonical (sorted) states, restores it exactly *)
Theorem delta_restores : forall S W, kv_sorted S = true ->
  apply (apply S W) (delta_of S W) = S.
Proof.
  intros S W Hs. apply sorted_ext.
  - apply apply_sorted. apply apply_sorted. exact Hs.
  - exact Hs.
  - intros k. apply delta_restores_get.
Qed.

(* ---------- the log, newest batch first ---------- *)

(* state and log after the commits [r], listed newest first *)
Fixpoint state_of (S0 : kv) (r : list (list change)) : kv :=
  match r with
  | [] => S0
  | W :: r' => apply (state_of S0 r') W
  end.

Fixpoint log_of (S0 : kv) (r : list (list change)) : list delta :=
  match r with
  | [] => []
  | W :: r' => delta_of (state_of S0 r') W :: log_of S0 r'
  end.

Lemma run_log_gen : forall bs S0 r,
  run_log (state_of S0 r) bs (log_of S0 r) =
  (state_of S0 (rev bs ++ r), log_of S0 (rev bs ++ r)).
Proof.
  induction bs as [|W bs IH]; intros S0 r.
  - reflexivity.
  - cbn [run_log rev]. rewrite <- app_assoc. cbn [app].
    change (run_log (state_of S0 (W :: r)) bs (log_of S0 (W :: r)) =
            (state_of S0 (rev bs ++ W :: r), log_of S0 (rev bs ++ W :: r))).
    apply IH.
Qed.

Lemma run_log_eq : forall bs S0,
  run_log S0 bs [] = (state_of S0 (rev bs), log_of S0 (rev bs)).
Proof.
  intros bs S0. pose proof (run_log_gen bs S0 []) as H.
  rewrite app_nil_r in H. exact H.
Qed.

(* the accumulator is only ever prepended to *)
Lemma run_log_acc : forall bs S ds,
  run_log S bs ds = (fst (run_log S bs []), snd (run_log S bs []) ++ ds).
Proof.
  induction bs as [|W bs IH]; intros S ds.
  - reflexivity.
  - cbn [run_log]. rewrite (IH (apply S W) (delta_of S W :: ds)).
    rewrite (IH (apply S W) [delta_of S W]). cbn [fst snd].
    rewrite <- app_assoc. reflexivity.
Qed.

Lemma state_of_sorted : forall S0 r, kv_sorted S0 = true -> kv_sorted (state_of S0 r) = true.
Proof.
  intros S0 r Hs. induction r as [|W r IH]; cbn [state_of].
  - exact Hs.
  - apply apply_sorted. exact IH.
Qed.

Lemma skipn_log_of : forall n S0 r, skipn n (log_of S0 r) = log_of S0 (skipn n r).
Proof.
  induction n as [|n IH]; intros S0 r.
  - reflexivity.
  - destruct r as [|W r]; [reflexivity|]. cbn [log_of skipn]. apply IH.
Qed.

Lemma fold_extend_sorted : forall l m, dm_sorted m -> dm_sorted (fold_left dm_extend l m).
Proof.
  induction l as [|d l IH]; intros m Hs; cbn [fold_left].
  - exact Hs.
  - apply IH. apply dm_extend_sorted. exact Hs.
Qed.

(* Characterisation of the traceback, in invariant form: if writing the partial traceback [m]
   onto the current state [Scur] gives (at every key) the state after the commits [r], then
   extending [m] with the n newest deltas of [r] gives the state n commits earlier.  For each
   key the OLDEST of the deltas mentioning it is inserted last and so wins. *)
Lemma traceback_gen : forall n S0 r m Scur k,
  (forall k, match dm_get m k with Some w => w | None => get Scur k end = get (state_of S0 r) k) ->
  match dm_get (fold_left dm_extend (firstn n (log_of S0 r)) m) k with
  | Some w => w
  | None => get Scur k
  end = get (state_of S0 (skipn n r)) k.
Proof.
  induction n as [|n IH]; intros S0 r m Scur k Hinv.
  - cbn [firstn fold_left skipn]. apply Hinv.
  - destruct r as [|W r].
    + cbn [log_of firstn fold_left skipn]. apply Hinv.
    + cbn [log_of firstn fold_left skipn]. apply IH.
      intros k0. rewrite dm_get_extend, last_write_delta_of.
      specialize (Hinv k0). cbn [state_of] in Hinv. rewrite get_apply in Hinv.
      destruct (last_write W k0); [reflexivity|exact Hinv].
Qed.

Lemma rollback_get_core : forall S0 r n k,
  get (rollback_apply (state_of S0 r) (log_of S0 r) n) k = get (state_of S0 (skipn n r)) k.
Proof.
  intros S0 r n k. unfold rollback_apply, traceback.
  rewrite get_apply_dm.
  - apply traceback_gen. intros k0. reflexivity.
  - apply fold_extend_sorted. exact I.
Qed.

Lemma rollback_core : forall S0 r n, kv_sorted S0 = true ->
  rollback_apply (state_of S0 r) (log_of S0 r) n = state_of S0 (skipn n r).
Proof.
  intros S0 r n Hs. apply sorted_ext.
  - unfold rollback_apply. apply apply_sorted. apply state_of_sorted. exact Hs.
  - apply state_of_sorted. exact Hs.
  - intros k. apply rollback_get_core.
Qed.

(* the get-level statement on run_log, no sortedness needed *)
Theorem rollback_refines_snapshots_get : forall (batches : list (list change)) S0 n k,
  n <= length batches ->
  let '(Sfinal, ds) := run_log S0 batches [] in
  get (rollback_apply Sfinal ds n) k =
  get (fst (run_log S0 (firstn (length batches - n) batches) [])) k.
Proof.
  intros batches S0 n k Hn. rewrite !run_log_eq. cbn [fst].
  rewrite rollback_get_core, skipn_rev. reflexivity.
Qed.

(* the traceback of the n newest deltas holds, for every key touched by one of the n newest
   commits, its value BEFORE the oldest of those commits that touched it (oldest prior wins) *)
Theorem rollback_refines_snapshots : forall (batches : list (list change)) S0 n,
  kv_sorted S0 = true -> n <= length batches ->
  let '(Sfinal, ds) := run_log S0 batches [] in
  rollback_apply Sfinal ds n = fst (run_log S0 (firstn (length batches - n) batches) []).
Proof.
  intros batches S0 n Hs Hn. rewrite !run_log_eq. cbn [fst].
  rewrite rollback_core by exact Hs. rewrite skipn_rev. reflexivity.
Qed.

Lemma skipn_skipn_add : forall A (l : list A) k m,
  skipn m (skipn k l) = skipn (k + m) l.
Proof.
  intros A l. induction l as [|x l IH]; intros k m.
  - rewrite !skipn_nil. reflexivity.
  - destruct k as [|k]; [reflexivity|]. cbn [skipn plus]. apply IH.
Qed.

(* rolling back k then m equals rolling back k + m, at the level of the log *)
Theorem rollback_log_additive : forall (batches : list (list change)) S0 k m,
  kv_sorted S0 = true -> k + m <= length batches ->
  let '(Sfinal, ds) := run_log S0 batches [] in
  rollback_apply (rollback_apply Sfinal ds k) (skipn k ds) m = rollback_apply Sfinal ds (k + m).
Proof.
  intros batches S0 k m Hs Hkm. rewrite run_log_eq.
  rewrite skipn_log_of. rewrite !rollback_core by exact Hs.
  rewrite skipn_skipn_add. reflexivity.
Qed.
