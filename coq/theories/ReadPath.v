(* ReadPath: a mirror of NOMT's beatree read path over a decoded image (property C16).

   Image.v decodes the files by the documented formats alone.  This file mirrors what NOMT ITSELF
   does to answer a read, over the structures Image.v decoded, function by function and loop by
   loop:

     index_lookup   beatree/index.rs  Index::lookup = OrdMap::get_prev on the map
                    (first separator -> branch) built by ops/reconstruction.rs::reconstruct
     find_key_pos   beatree/ops/mod.rs::find_key_pos (prefix shortcut, then the binary search
                    `while low < high { mid = low + (high - low) / 2; ... }`)
     search_branch  beatree/ops/mod.rs::search_branch (found / pos == 0 / pos - 1)
     binary_search  core::slice::binary_search_by as compiled into the harness (rustc 1.95: the
                    branch-free loop `while size > 1 { half = size / 2; mid = base + half; ... }`),
                    called by leaf/node.rs::search with `cell[0..32].cmp(key)`
     leaf_get       leaf/node.rs::LeafNode::get (search(..).ok() then value_range(index))
     lookup         ops/mod.rs::lookup_blocking = partial_lookup ; leaf_store.query(pn) ;
                    finish_lookup_blocking (overflow::read_blocking for an overflow cell)

   Indices are [N] (usize in the code); element access is [nthN]; an access beyond the end - a panic
   in the code - yields the "not found" answer here (it is unreachable, see ReadPath_proofs).

   ReadPath_proofs.v proves [readpath_refines]: on a decoded image whose well-formedness verdicts
   pass, [lookup img k = assoc k (abs img)]. *)
From Coq Require Import List Bool Arith NArith Lia.
From Nomt Require Import Base Image.
Import ListNotations.
Local Open Scope N_scope.

(* the first match of an association list (keys are unique in a well-formed image) *)
Fixpoint assoc {V : Type} (k : key) (l : list (key * V)) : option V :=
  match l with
  | [] => None
  | (k', v) :: r => if key_eqb k' k then Some v else assoc k r
  end.

(* Ord::cmp on keys ([u8; 32] compared bytewise = the 256 bits compared Msb0) and on equally long
   bit slices *)
Definition key_cmp (a b : key) : comparison :=
  if key_eqb a b then Eq else if key_ltb a b then Lt else Gt.

(* ------------------------------------------------------------------------------------------- *)
(* Index::lookup                                                                                 *)

(* The index maps the first separator of each bottom-level branch node (reconstruction.rs:54-61:
   prefix ++ separator(0), zero padded) to the node; [lookup] is [get_prev]: the entry with the
   greatest key <= the given one.  The B-tree walk inside imbl is not mirrored; this is that
   specification computed by a scan over ALL branches (no use is made of the order of the list). *)
Definition index_better (k : key) (best : option branch) (b : branch) : option branch :=
  if key_leb (first_sep b) k then
    match best with
    | None => Some b
    | Some c => if key_ltb (first_sep c) (first_sep b) then Some b else best
    end
  else best.

Definition index_lookup (bs : list branch) (k : key) : option branch :=
  fold_left (index_better k) bs None.

(* ------------------------------------------------------------------------------------------- *)
(* find_key_pos / search_branch                                                                  *)

Definition branch_n (b : branch) : N := lenN (b_seps b).

(* The shared prefix: [set_prefix] (branch/node.rs:117, called for the first pushed key by [push]
   and [push_chunk]) stores the first [prefix_len] bits of the FIRST separator's key.  The decoded
   branch does not keep the raw prefix bits; whenever at least one separator is prefix-compressed
   the decoder rebuilt the first separator as prefix ++ suffix, so these ARE the bits on the page
   (ReadPath_proofs.decode_branch_ok); BranchGauge never produces prefix_compressed = 0. *)
Definition branch_prefix (b : branch) : list bool :=
  firstn (N.to_nat (b_prefix_len b)) (first_sep b).

(* ops/mod.rs:131-146
     let mut low = 0; let mut high = n;
     while low < high {
         let mid = low + (high - low) / 2;
         match key.cmp(&get_key(branch, mid)) {
             Equal => return (true, mid), Less => high = mid, Greater => low = mid + 1 } }
     (false, high) *)
Fixpoint fkp_loop (fuel : nat) (seps : list key) (k : key) (low high : N) : bool * N :=
  match fuel with
  | O => (false, high)
  | S f =>
      if low <? high then
        let mid := low + (high - low) / 2 in
        match nthN mid seps with
        | None => (false, high)
        | Some s =>
            match key_cmp k s with
            | Eq => (true, mid)
            | Lt => fkp_loop f seps k low mid
            | Gt => fkp_loop f seps k (mid + 1) high
            end
        end
      else (false, high)
  end.

(* ops/mod.rs:125-129
     match key.view_bits::<Msb0>()[..prefix.len()].cmp(prefix) {
         Less => return (false, 0),
         Greater if n == prefix_compressed => return (false, n),
         Equal | Greater => {} } *)
Definition find_key_pos (b : branch) (k : key) : bool * N :=
  let prefix := branch_prefix b in
  let n := branch_n b in
  let search := fkp_loop (S (length (b_seps b))) (b_seps b) k 0 n in
  match key_cmp (firstn (length prefix) k) prefix with
  | Lt => (false, 0)
  | Gt => if n =? b_prefix_compressed b then (false, n) else search
  | Eq => search
  end.

(* ops/mod.rs:102-115 search_branch; the answer is (index, leaf page number) *)
Definition search_branch (b : branch) (k : key) : option (N * N) :=
  let '(found, pos) := find_key_pos b k in
  if found then option_map (fun pn => (pos, pn)) (nthN pos (b_lns b))
  else if pos =? 0 then None
  else option_map (fun pn => (pos - 1, pn)) (nthN (pos - 1) (b_lns b)).

(* ops/mod.rs:29-36 partial_lookup *)
Definition partial_lookup (bs : list branch) (k : key) : option N :=
  match index_lookup bs k with
  | None => None
  | Some b => option_map snd (search_branch b k)
  end.

(* ------------------------------------------------------------------------------------------- *)
(* the leaf                                                                                      *)

Inductive sres := Found (i : N) | NotFound (i : N).     (* Result<usize, usize> *)

(* core::slice::binary_search_by (library/core/src/slice/mod.rs, the implementation in use since
   Rust 1.82; the harness is compiled with 1.95), f = |cell| cell[0..32].cmp(key):
     let mut size = self.len();
     if size == 0 { return Err(0); }
     let mut base = 0usize;
     while size > 1 {
         let half = size / 2;
         let mid = base + half;
         let cmp = f(self.get_unchecked(mid));
         base = if cmp == Greater { base } else { mid };
         size -= half;
     }
     let cmp = f(self.get_unchecked(base));
     if cmp == Equal { Ok(base) } else { Err(base + (cmp == Less) as usize) } *)
Fixpoint bs_loop (fuel : nat) (ks : list key) (k : key) (base size : N) : N :=
  match fuel with
  | O => base
  | S f =>
      if 1 <? size then
        let half := size / 2 in
        let mid := base + half in
        let base' :=
          match nthN mid ks with
          | Some e => match key_cmp e k with Gt => base | _ => mid end
          | None => base
          end in
        bs_loop f ks k base' (size - half)
      else base
  end.

Definition binary_search (ks : list key) (k : key) : sres :=
  let size := lenN ks in
  if size =? 0 then NotFound 0
  else
    let base := bs_loop (length ks) ks k 0 size in
    match nthN base ks with
    | None => NotFound base
    | Some e =>
        match key_cmp e k with
        | Eq => Found base
        | Lt => NotFound (base + 1)
        | Gt => NotFound base
        end
    end.

(* leaf/node.rs:74-81 LeafNode::get (search: 246-248):
     search(cell_pointers, key).ok().map(|index| self.value_range(cell_pointers, index)) *)
Definition leaf_get (l : leaf) (k : key) : option entry :=
  match binary_search (map e_key (l_entries l)) k with
  | Found i => nthN i (l_entries l)
  | NotFound _ => None
  end.

(* ops/mod.rs:41-53 finish_lookup_blocking: the cell bytes, or overflow::read_blocking(cell) for an
   overflow cell.  The decoder performed that read when it decoded the cell ([decode_overflow]
   mirrors overflow.rs::read_blocking: total_needed_pages pages, each contributing page numbers and
   bytes); [e_val] is the value either way. *)
Definition entry_value (e : entry) : list N := e_val e.

(* leaf_store.query(leaf_pn): the page with that number among the decoded leaves *)
Definition find_leaf (ls : list leaf) (pn : N) : option leaf :=
  find (fun l => l_pn l =? pn) ls.

(* ops/mod.rs:75-98 lookup_blocking *)
Definition lookup (img : image) (k : key) : option (list N) :=
  match partial_lookup (i_branches img) k with
  | None => None
  | Some pn =>
      match find_leaf (i_leaves img) pn with
      | None => None
      | Some l => option_map entry_value (leaf_get l k)
      end
  end.

(* what the driver prints: where the lookup went *)
Inductive trace :=
| TNoBranch                               (* Index::lookup returned None *)
| TNoChild (bpn : N)                      (* search_branch returned None *)
| TNoLeaf (bpn i pn : N)                  (* no decoded leaf has that page number *)
| TLeafMiss (bpn i pn : N)                (* LeafNode::get returned None *)
| THit (bpn i pn : N) (e : entry).

Definition lookup_trace (img : image) (k : key) : trace :=
  match index_lookup (i_branches img) k with
  | None => TNoBranch
  | Some b =>
      match search_branch b k with
      | None => TNoChild (b_pn b)
      | Some (i, pn) =>
          match find_leaf (i_leaves img) pn with
          | None => TNoLeaf (b_pn b) i pn
          | Some l =>
              match leaf_get l k with
              | None => TLeafMiss (b_pn b) i pn
              | Some e => THit (b_pn b) i pn e
              end
          end
      end
  end.

Definition trace_value (t : trace) : option (list N) :=
  match t with THit _ _ _ e => Some (entry_value e) | _ => None end.

(* branches whose raw prefix bits cannot be recovered from the decoded separators (no separator is
   prefix-compressed although a prefix is recorded); the driver reports their number - the code
   never writes such a node *)
Definition prefix_unrecoverable (b : branch) : bool :=
  (b_prefix_compressed b =? 0) && negb (b_prefix_len b =? 0).
Definition unrecoverable_prefixes (img : image) : N :=
  lenN (filter prefix_unrecoverable (i_branches img)).

(* ------------------------------------------------------------------------------------------- *)
(* a hand-made store: two branch pages (four separators, prefix compression in both forms), four
   leaves (seven inline values, one two-page overflow value)                                     *)

Section Example.

  Definition kb (b : N) : list N := repeatN b 32.            (* the key whose 32 bytes are all b *)
  Definition kk (b : N) : key := bits_of_bytes (kb b).

  Fixpoint cps_of (cells : list (list N * list N)) (off : N) : list N :=
    match cells with
    | [] => []
    | (k, v) :: r => k ++ le_bytes 2 off ++ cps_of r (off + lenN v)
    end.

  (* a leaf page of inline cells, values packed against the end of the page *)
  Definition mk_leaf_page (cells : list (list N * list N)) : list N :=
    let body := concat (map snd cells) in
    let total := lenN body in
    let head := le_bytes 2 (lenN cells) ++ cps_of cells (4096 - total) in
    head ++ zeros (N.to_nat (4096 - total) - length head) ++ body.

  Definition ex_meta0 : list N :=
    pad_page ([78; 79; 77; 84] ++ le_bytes 4 1 ++ le_bytes 4 0 ++ le_bytes 4 7 ++ le_bytes 4 0
              ++ le_bytes 4 3 ++ le_bytes 4 5 ++ le_bytes 4 0 ++ zeros 16
              ++ le_bytes 8 0 ++ le_bytes 8 0).

  (* branch page 1: n = 2, prefix_compressed = 2, prefix "0" (1 bit);
       separator 0 = the zero key (shorter than the prefix: empty compressed form),
       separator 1 = "01" (compressed form "1");  bit vector 0 | | 1 = 0x40;  leaves 1, 2 *)
  Definition ex_branch1 : list N :=
    let head := le_bytes 4 1 ++ le_bytes 2 2 ++ le_bytes 2 2 ++ le_bytes 2 1
                ++ le_bytes 2 0 ++ le_bytes 2 1 ++ [64] in
    head ++ zeros (4096 - 8 - length head) ++ le_bytes 4 1 ++ le_bytes 4 2.

  (* branch page 2: n = 2, prefix_compressed = 1, prefix "1";
       separator 0 = "1" (empty compressed form), separator 1 = "11" stored whole;
       bit vector 1 | | 11 = 0xE0;  leaves 3, 4 *)
  Definition ex_branch2 : list N :=
    let head := le_bytes 4 2 ++ le_bytes 2 2 ++ le_bytes 2 1 ++ le_bytes 2 1
                ++ le_bytes 2 0 ++ le_bytes 2 2 ++ [224] in
    head ++ zeros (4096 - 8 - length head) ++ le_bytes 4 3 ++ le_bytes 4 4.

  Definition ex_leaf1 : list N := mk_leaf_page [(kb 17, [1; 2; 3]); (kb 34, [4; 5; 6; 7; 8])].
  Definition ex_leaf2 : list N := mk_leaf_page [(kb 85, [9])].
  (* one overflow cell: 5000 bytes in pages 5 and 6 *)
  Definition ex_leaf3 : list N :=
    let cell := le_bytes 8 5000 ++ repeatN 170 32 ++ le_bytes 4 5 ++ le_bytes 4 6 in
    let head := le_bytes 2 1 ++ kb 153 ++ le_bytes 2 (32768 + 4048) in
    head ++ zeros (4048 - length head) ++ cell.
  Definition ex_leaf4 : list N :=
    mk_leaf_page [(kb 193, [1]); (kb 208, [2; 2]); (kb 221, [3; 3; 3]); (kb 238, []); (kb 255, [5])].
  Definition ex_ovf1 : list N := le_bytes 2 0 ++ le_bytes 2 4092 ++ repeatN 1 4092.
  Definition ex_ovf2 : list N := pad_page (le_bytes 2 0 ++ le_bytes 2 908 ++ repeatN 2 908).

  Definition ex_files : files :=
    mkFiles
      (fun pn => if pn =? 0 then Some ex_meta0 else None)
      (fun pn => if pn =? 1 then Some ex_leaf1 else if pn =? 2 then Some ex_leaf2
                 else if pn =? 3 then Some ex_leaf3 else if pn =? 4 then Some ex_leaf4
                 else if pn =? 5 then Some ex_ovf1 else if pn =? 6 then Some ex_ovf2 else None)
      (fun pn => if pn =? 1 then Some ex_branch1 else if pn =? 2 then Some ex_branch2 else None)
      (fun _ => None)
      7 3 0.

  Definition with_ex_image {A} (dflt : A) (f : image -> A) : A :=
    match decode_image ex_files with Ok img => f img | Err _ _ _ => dflt end.

  (* it decodes, and every structural verdict passes (the merkle / probe clauses need the
     harness oracles and say nothing about the beatree) *)
  Example ex_image_wf :
    with_ex_image [] (fun img =>
      [wf_manifest img; wf_leaf_order img; wf_branches img; wf_overflow img;
       wf_pages_disjoint img; wf_ht_meta img]) = [true; true; true; true; true; true].
  Proof. vm_compute. reflexivity. Qed.

  Example ex_image_shape :
    with_ex_image (0, 0, 0) (fun img => (lenN (i_branches img), lenN (i_leaves img), lenN (abs img)))
    = (2, 4, 9).
  Proof. vm_compute. reflexivity. Qed.

  (* present keys: every leaf, first / middle / last cell, the overflow value *)
  Example ex_lookup_present :
    with_ex_image [] (fun img =>
      map (fun b => option_map (fun v => (lenN v, hd 0 v)) (lookup img (kk b)))
          [17; 34; 85; 153; 193; 208; 221; 238; 255])
    = [Some (3, 1); Some (5, 4); Some (1, 9); Some (5000, 1); Some (1, 1); Some (2, 2); Some (3, 3);
       Some (0, 0); Some (1, 5)].
  Proof. vm_compute. reflexivity. Qed.

  (* absent keys: the zero key, the separators themselves, neighbours of present keys, the top key *)
  Example ex_lookup_absent :
    with_ex_image [] (fun img =>
      map (fun b => lookup img (kk b)) [0; 16; 18; 64; 84; 86; 128; 154; 192; 194; 254])
    = [None; None; None; None; None; None; None; None; None; None; None].
  Proof. vm_compute. reflexivity. Qed.

  (* where the searches go: branch page, index within the branch, leaf page *)
  Example ex_lookup_routes :
    with_ex_image [] (fun img =>
      map (fun b => match lookup_trace img (kk b) with
                    | THit bp i pn _ => (1, bp, i, pn)
                    | TLeafMiss bp i pn => (0, bp, i, pn)
                    | _ => (9, 0, 0, 0)
                    end) [0; 17; 64; 85; 127; 128; 153; 192; 255])
    = [(0, 1, 0, 1); (1, 1, 0, 1); (0, 1, 1, 2); (1, 1, 1, 2); (0, 1, 1, 2);
       (0, 2, 0, 3); (1, 2, 0, 3); (0, 2, 1, 4); (1, 2, 1, 4)].
  Proof. vm_compute. reflexivity. Qed.

  (* the lookups agree with the abstraction on these keys (the theorem, tested) *)
  Example ex_lookup_agrees :
    with_ex_image false (fun img =>
      forallb (fun b => match lookup img (kk b), assoc (kk b) (abs img) with
                        | Some v, Some w => bytes_eqb v w
                        | None, None => true
                        | _, _ => false
                        end)
              [0; 1; 16; 17; 18; 33; 34; 35; 63; 64; 85; 127; 128; 153; 191; 192; 193; 207; 208; 221;
               238; 254; 255]) = true.
  Proof. vm_compute. reflexivity. Qed.

  (* the two searches on their own *)
  Example fkp_loop_ex :
    let seps := map kk [10; 20; 30; 40; 50] in
    map (fun b => fkp_loop 6 seps (kk b) 0 5) [5; 10; 15; 30; 45; 50; 60]
    = [(false, 0); (true, 0); (false, 1); (true, 2); (false, 4); (true, 4); (false, 5)].
  Proof. vm_compute. reflexivity. Qed.

  Example binary_search_ex :
    let ks := map kk [10; 20; 30; 40; 50] in
    (map (binary_search ks) (map kk [5; 10; 15; 30; 45; 50; 60]), binary_search [] (kk 1))
    = ([NotFound 0; Found 0; NotFound 1; Found 2; NotFound 4; Found 4; NotFound 5], NotFound 0).
  Proof. vm_compute. reflexivity. Qed.

End Example.
