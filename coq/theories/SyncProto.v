(* C03 / C04 / C17: the commit protocol of store/sync.rs over a model of the file system.

   Disk model: per file a durable page map and the list of operations issued since the last
   fsync that covered them.  A power loss keeps the durable content plus ANY subset of the
   pending operations (applied in issue order); a process crash keeps every completed operation
   and any subset of the asynchronous writes still in flight.  Page contents are opaque ids
   (the harness uses digests); 0 is "absent / zero page".

   An [inst] describes what one sync is supposed to do (taken from the recorded run: old and new
   manifest page, the pages the old image references, the pages written, the WAL blobs).
   [recover] is the specification of what Store::open reconstructs from an image: which of the
   two states, or garbage.  [discipline] is the executable monitor evaluated on real traces. *)
From Nomt Require Import Base.

Definition cid := N.                       (* content id of a 4 KiB page; 0 = absent *)
Definition FMeta : nat := 0.
Definition FWal : nat := 1.
Definition FHt : nat := 2.
Definition FLn : nat := 3.
Definition FBbn : nat := 4.

Inductive pop :=
| PWrite (pn : N) (c : cid) (complete : bool)   (* complete = false: async write still in flight *)
| PTrunc (len : N).                             (* resize to [len] pages *)

Record fstate := { fdur : list (N * cid); fpend : list pop }.
Definition disk := list (nat * fstate).          (* association list by file id *)

Definition fget (d : disk) (f : nat) : fstate :=
  match find (fun x => Nat.eqb (fst x) f) d with
  | Some (_, s) => s
  | None => {| fdur := []; fpend := [] |}
  end.

Fixpoint fset (d : disk) (f : nat) (s : fstate) : disk :=
  match d with
  | [] => [(f, s)]
  | (g, t) :: d' => if Nat.eqb g f then (f, s) :: d' else (g, t) :: fset d' f s
  end.

(* page maps as association lists, last binding wins when built by [pm_set] *)
Fixpoint pm_get (m : list (N * cid)) (pn : N) : cid :=
  match m with
  | [] => 0%N
  | (p, c) :: m' => if N.eqb p pn then c else pm_get m' pn
  end.
Definition pm_set (m : list (N * cid)) (pn : N) (c : cid) : list (N * cid) := (pn, c) :: m.
Definition pm_trunc (m : list (N * cid)) (len : N) : list (N * cid) :=
  filter (fun x => N.ltb (fst x) len) m.

Definition apply_pop (m : list (N * cid)) (o : pop) : list (N * cid) :=
  match o with
  | PWrite pn c _ => pm_set m pn c
  | PTrunc len => pm_trunc m len
  end.

(* events of a trace *)
Inductive ev :=
| EW (f : nat) (pn : N) (c : cid)     (* synchronous write (pwrite): in the page cache when it returns *)
| ES (f : nat) (pn : N) (c : cid)     (* asynchronous write submitted *)
| EC (f : nat) (pn : N)               (* asynchronous write to that page completed *)
| ET (f : nat) (len : N)              (* resize *)
| EF (f : nat).                       (* fsync / fdatasync returned *)

Fixpoint complete_first (l : list pop) (pn : N) : list pop :=
  match l with
  | [] => []
  | PWrite p c false :: l' => if N.eqb p pn then PWrite p c true :: l' else PWrite p c false :: complete_first l' pn
  | o :: l' => o :: complete_first l' pn
  end.

Definition is_complete (o : pop) : bool :=
  match o with PWrite _ _ b => b | PTrunc _ => true end.

Definition dstep (d : disk) (e : ev) : disk :=
  match e with
  | EW f pn c => let s := fget d f in fset d f {| fdur := fdur s; fpend := fpend s ++ [PWrite pn c true] |}
  | ES f pn c => let s := fget d f in fset d f {| fdur := fdur s; fpend := fpend s ++ [PWrite pn c false] |}
  | EC f pn => let s := fget d f in fset d f {| fdur := fdur s; fpend := complete_first (fpend s) pn |}
  | ET f len => let s := fget d f in fset d f {| fdur := fdur s; fpend := fpend s ++ [PTrunc len] |}
  | EF f =>
      (* everything completed so far becomes durable, in issue order; writes in flight stay pending *)
      let s := fget d f in
      fset d f {| fdur := fold_left apply_pop (filter is_complete (fpend s)) (fdur s);
                  fpend := filter (fun o => negb (is_complete o)) (fpend s) |}
  end.

Definition drun (d : disk) (tr : list ev) : disk := fold_left dstep tr d.

(* an image: what each page of each file holds after the failure *)
Definition image := nat -> N -> cid.

(* [keep] selects which pending operations survive; [sel keep ops] = the surviving ones *)
Fixpoint sel {A} (keep : list bool) (l : list A) : list A :=
  match keep, l with
  | true :: k, x :: l' => x :: sel k l'
  | false :: k, _ :: l' => sel k l'
  | _, _ => []
  end.

Definition file_image (s : fstate) (keep : list bool) : N -> cid :=
  pm_get (fold_left apply_pop (sel keep (fpend s)) (fdur s)).

(* power loss: for every file some subset of its pending operations survives *)
Definition pl_image (d : disk) (img : image) : Prop :=
  forall f, exists keep, length keep = length (fpend (fget d f)) /\
                         forall pn, img f pn = file_image (fget d f) keep pn.

(* process crash: completed operations are in the page cache; in-flight ones may or may not be *)
Definition crash_image (d : disk) (img : image) : Prop :=
  forall f, exists keep, length keep = length (fpend (fget d f)) /\
      (forall i o, nth_error (fpend (fget d f)) i = Some o -> is_complete o = true -> nth i keep false = true) /\
      forall pn, img f pn = file_image (fget d f) keep pn.

(* ---- what one sync is supposed to do --------------------------------------------------- *)
Record inst := {
  m_old : cid;  m_new : cid;                 (* manifest page before / after; distinct, non-zero *)
  live_old : list (nat * N * cid);           (* pages of ln/bbn the old image references, with content *)
  tree_new : list (nat * N * cid);           (* pages of ln/bbn written by this sync (new image needs them) *)
  wal_old : list cid;                        (* WAL blob of the previous sync (its effects are in the old HT) *)
  wal_new : list cid;                        (* WAL blob of this sync; non-empty; header page differs from wal_old's *)
  ht_old : list (N * cid);                   (* old contents of the hash-table pages this sync changes *)
  ht_new : list (N * cid)                    (* their new contents, same page numbers in the same order *)
}.

Inductive outcome := ROld | RNew | RBad.

Definition pages_ok (img : image) (l : list (nat * N * cid)) : bool :=
  forallb (fun x => let '(f, pn, c) := x in N.eqb (img f pn) c) l.

(* the WAL holds exactly the blob [w] from page [i] on: its pages, then a zero page.  NB the real
   reader (bitbox/wal/read.rs) stops at the END tag of the blob and never looks at the page behind
   it; [recover] is therefore stricter than the code.  SyncProto_proofs.v proves the atomicity
   theorems for this [recover] and, as [*_endtag], for the laxer reader ([recover_end]). *)
Fixpoint wal_is (img : image) (i : N) (w : list cid) : bool :=
  match w with
  | [] => N.eqb (img FWal i) 0
  | c :: w' => N.eqb (img FWal i) c && wal_is img (i + 1) w'
  end.

Definition ht_all (img : image) (l : list (N * cid)) : bool :=
  forallb (fun x => N.eqb (img FHt (fst x)) (snd x)) l.

Fixpoint ht_each_old_or_new (img : image) (o n : list (N * cid)) : bool :=
  match o, n with
  | (p, co) :: o', (_, cn) :: n' =>
      (N.eqb (img FHt p) co || N.eqb (img FHt p) cn) && ht_each_old_or_new img o' n'
  | _, _ => true
  end.

(* What Store::open makes of an image.  The manifest page decides which state is being
   reconstructed; that state's value pages must be intact; the merkle pages are the hash-table
   pages with the WAL re-applied when the WAL's header carries the manifest's sequence number
   (then the whole blob must be there), and must be up to date already when it does not. *)
Definition recover (I : inst) (img : image) : outcome :=
  let hdr := img FWal 0%N in
  if N.eqb (img FMeta 0%N) (m_old I) then
    if pages_ok img (live_old I) && ht_all img (ht_old I) &&
       (negb (N.eqb hdr (hd 0%N (wal_old I))) || N.eqb hdr 0 || wal_is img 0 (wal_old I))
    then ROld else RBad
  else if N.eqb (img FMeta 0%N) (m_new I) then
    if pages_ok img (tree_new I) &&
       (if N.eqb hdr (hd 0%N (wal_new I))
        then wal_is img 0 (wal_new I) && ht_each_old_or_new img (ht_old I) (ht_new I)
        else ht_all img (ht_new I))
    then RNew else RBad
  else RBad.

(* ---- the discipline: an executable predicate over the trace of one sync ------------------ *)
(* position of the first event satisfying p *)
Fixpoint index_of (p : ev -> bool) (tr : list ev) : option nat :=
  match tr with
  | [] => None
  | e :: tr' => if p e then Some 0 else option_map S (index_of p tr')
  end.

Definition is_meta_write (e : ev) : bool := match e with EW f _ _ => Nat.eqb f FMeta | _ => false end.
Definition is_meta_sync (e : ev) : bool := match e with EF f => Nat.eqb f FMeta | _ => false end.
Definition is_tree (f : nat) : bool := Nat.eqb f FLn || Nat.eqb f FBbn.

Definition in_live (I : inst) (f : nat) (pn : N) : bool :=
  existsb (fun x => let '(g, p, _) := x in Nat.eqb g f && N.eqb p pn) (live_old I).

(* page [pn] of a blob (0 beyond its end); recursion on the list so that it evaluates cheaply *)
Fixpoint nthN (l : list cid) (pn : N) : cid :=
  match l with
  | [] => 0%N
  | c :: l' => if N.eqb pn 0 then c else nthN l' (pn - 1)
  end.

(* before the manifest write: only fresh tree pages, the WAL, nothing else.
   A write to the WAL carries the page of THIS sync's blob that belongs at that position
   (write_wal: set_len(0); write_all(blob); sync_all).  Without this clause the monitor would accept a
   trace that first writes a foreign header page into the WAL and is cut before the final contents
   are in place; such a cut reopens as RBad (SyncProto_proofs.v, [pre_ok_wal_clause_needed]). *)
Definition pre_ok (I : inst) (e : ev) : bool :=
  match e with
  | EW f pn c => (Nat.eqb f FWal && N.eqb (nthN (wal_new I) pn) c) || (is_tree f && negb (in_live I f pn))
  | ES f pn c => is_tree f && negb (in_live I f pn)
  | EC f pn => is_tree f
  | ET f len => Nat.eqb f FWal && N.eqb len 0 ||
                (* growing a value file never cuts pages the old image references *)
                (is_tree f && forallb (fun x => let '(g, p, _) := x in negb (Nat.eqb g f) || N.ltb p len) (live_old I))
  | EF f => Nat.eqb f FWal || is_tree f
  end.

(* after the manifest is durable: hash-table write-out, then the WAL may go.
   [EF FWal] is accepted: since the F8 fix, bitbox::post_meta fsyncs the WAL after truncating it
   (truncate_wal(.., true)); in the post phase the WAL has at most [PTrunc 0] operations pending, so
   the fsync either does nothing (before the truncation) or makes the truncation durable (after it,
   when every hash-table page of this sync is durable already). *)
Definition post_ok (I : inst) (e : ev) : bool :=
  match e with
  | ES f pn c => Nat.eqb f FHt && N.eqb (pm_get (ht_new I) pn) c && negb (N.eqb c 0)
  | EW f pn c => Nat.eqb f FHt && N.eqb (pm_get (ht_new I) pn) c && negb (N.eqb c 0)
  | EC f pn => Nat.eqb f FHt
  | EF f => Nat.eqb f FHt || Nat.eqb f FWal
  | ET f len => Nat.eqb f FWal && N.eqb len 0
  end.

(* no async write of file f in flight, and all of f's pending operations complete *)
Definition quiescent (d : disk) (f : nat) : bool := forallb is_complete (fpend (fget d f)).
Definition clean (d : disk) (f : nat) : bool :=
  match fpend (fget d f) with [] => true | _ => false end.

Definition image_of_durable (d : disk) : image := fun f pn => pm_get (fdur (fget d f)) pn.

Definition discipline (I : inst) (d0 : disk) (tr : list ev) : bool :=
  match index_of is_meta_write tr, index_of is_meta_sync tr with
  | Some iw, Some is_ =>
      let pre := firstn iw tr in
      let mid := firstn (is_ - iw - 1) (skipn (S iw) tr) in
      let post := skipn (S is_) tr in
      let d_pre := drun d0 pre in
      Nat.ltb iw is_ &&
      (* the manifest write installs m_new, and nothing else happens until its fsync *)
      (match nth_error tr iw with Some (EW _ pn c) => N.eqb pn 0 && N.eqb c (m_new I) | _ => false end) &&
      (match mid with [] => true | _ => false end) &&
      forallb (pre_ok I) pre &&
      (* everything the new state depends on is durable before the switch-over *)
      clean d_pre FWal && clean d_pre FLn && clean d_pre FBbn &&
      wal_is (image_of_durable d_pre) 0 (wal_new I) &&
      pages_ok (image_of_durable d_pre) (tree_new I) &&
      forallb (post_ok I) post &&
      (* the WAL is only discarded once every hash-table page of this sync is durable *)
      (match index_of (fun e => match e with ET f _ => Nat.eqb f FWal | _ => false end) post with
       | None => true
       | Some it =>
           let d_t := drun d0 (firstn (S is_ + it) tr) in
           clean d_t FHt && ht_all (image_of_durable d_t) (ht_new I)
       end)
  | _, _ =>
      (* a trace cut before the manifest write: only the pre-phase rules apply *)
      match index_of is_meta_write tr with
      | None => forallb (pre_ok I) tr
      | Some _ => false
      end
  end.

(* the starting disk: everything of the old image is durable, nothing pending, except that the
   previous sync's truncation of the WAL may still be unsynced (before the F8 fix the source skipped
   that fsync; with the fix the first alternative of both WAL clauses holds after every complete
   sync: SyncProto_proofs.v, [next_start_wal_safe]) *)
Definition start_ok (I : inst) (d0 : disk) : Prop :=
  pm_get (fdur (fget d0 FMeta)) 0%N = m_old I /\ fpend (fget d0 FMeta) = [] /\
  fpend (fget d0 FLn) = [] /\ fpend (fget d0 FBbn) = [] /\ fpend (fget d0 FHt) = [] /\
  pages_ok (image_of_durable d0) (live_old I) = true /\
  ht_all (image_of_durable d0) (ht_old I) = true /\
  (fpend (fget d0 FWal) = [] \/ fpend (fget d0 FWal) = [PTrunc 0%N]) /\
  (wal_is (image_of_durable d0) 0 (wal_old I) = true \/ wal_is (image_of_durable d0) 0 [] = true).

Definition inst_ok (I : inst) : Prop :=
  m_old I <> m_new I /\ m_old I <> 0%N /\ m_new I <> 0%N /\
  wal_new I <> [] /\ hd 0%N (wal_new I) <> 0%N /\ hd 0%N (wal_new I) <> hd 0%N (wal_old I) /\
  ~ In 0%N (wal_new I) /\ ~ In 0%N (wal_old I) /\
  map fst (ht_old I) = map fst (ht_new I) /\ NoDup (map fst (ht_new I)) /\
  (forall f pn c, In (f, pn, c) (tree_new I) -> in_live I f pn = false) /\
  (forall f pn c, In (f, pn, c) (live_old I) -> f = FLn \/ f = FBbn) /\
  (forall f pn c, In (f, pn, c) (tree_new I) -> (f = FLn \/ f = FBbn) /\ c <> 0%N).
