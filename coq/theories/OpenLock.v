(* C20: the directory lock protocol.  Event language of one opener (as observed by the I/O
   observer: lock-file creation, flock attempts, mutating file operations, submissions and
   completions of asynchronous writes, unlock, process end), the per-process discipline that the
   real traces are checked against, and the global consistency condition that encodes the
   assumed semantics of flock(LOCK_EX|LOCK_NB): granted iff nobody holds it, released by
   unlock or by the death of the holder. *)
From Nomt Require Import Base.

Inductive oev :=
| OLockFile                 (* create / open the lock file: the only thing a refused opener may touch *)
| OLock (granted : bool)    (* flock attempt and its result *)
| OMut                      (* a mutating operation on any other file: create, write, resize, fsync, unlink *)
| OSubmit                   (* an asynchronous page write handed to the I/O pool *)
| OComplete                 (* its completion *)
| OUnlock                   (* flock(LOCK_UN) or closing the lock file *)
| ODie.                     (* process death: the kernel drops the lock with the descriptor *)

(* per-process monitor state *)
Record pst := { holding : bool; refused : bool; inflight : nat; dead : bool }.
Definition pst0 : pst := {| holding := false; refused := false; inflight := 0; dead := false |}.

(* one step of the discipline monitor: None = violation *)
Definition pstep (s : pst) (e : oev) : option pst :=
  if dead s then None else
  match e with
  | OLockFile => Some s
  | OLock true =>
      if holding s then None
      else Some {| holding := true; refused := false; inflight := inflight s; dead := false |}
  | OLock false =>
      if holding s then None
      else Some {| holding := false; refused := true; inflight := inflight s; dead := false |}
  | OMut => if holding s then Some s else None                  (* nothing is modified without the lock *)
  | OSubmit =>
      if holding s then Some {| holding := true; refused := refused s; inflight := S (inflight s); dead := false |}
      else None
  | OComplete =>
      match inflight s with
      | O => None
      | S n => Some {| holding := holding s; refused := refused s; inflight := n; dead := false |}
      end
  | OUnlock =>
      (* released only after every submitted write has completed *)
      if holding s then
        if Nat.eqb (inflight s) 0
        then Some {| holding := false; refused := refused s; inflight := 0; dead := false |}
        else None
      else Some s
  | ODie => Some {| holding := false; refused := refused s; inflight := inflight s; dead := true |}
  end.

Fixpoint prun (s : pst) (tr : list oev) : option pst :=
  match tr with
  | [] => Some s
  | e :: tr' => match pstep s e with Some s' => prun s' tr' | None => None end
  end.

(* the executable monitor evaluated on the real traces *)
Definition open_discipline (tr : list oev) : bool :=
  match prun pst0 tr with Some _ => true | None => false end.

(* ---- the global picture: an interleaving of several processes' events ---- *)
Definition gev := (nat * oev)%type.          (* (process id, event) *)

Definition proj (p : nat) (g : list gev) : list oev :=
  map snd (filter (fun x => Nat.eqb (fst x) p) g).

(* who holds the lock after a prefix, according to the kernel *)
Definition kstep (h : option nat) (x : gev) : option nat :=
  let '(p, e) := x in
  match e with
  | OLock true => Some p
  | OUnlock | ODie => match h with Some q => if Nat.eqb q p then None else h | None => None end
  | _ => h
  end.

Definition holder (g : list gev) : option nat := fold_left kstep g None.

(* flock semantics: an attempt is granted iff nobody holds the lock at that moment *)
Fixpoint flock_consistent (h : option nat) (g : list gev) : Prop :=
  match g with
  | [] => True
  | (p, e) :: g' =>
      match e with
      | OLock b => (b = true <-> h = None)
      | _ => True
      end /\ flock_consistent (kstep h (p, e)) g'
  end.
