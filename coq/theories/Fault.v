(* C14: the fault model of commit / rollback - the state machine of ONE NOMT handle under I/O
   failures, and its link to the disk model of SyncProto.v.

   What is modelled (file:function of /repo):
   * nomt/src/store/sync.rs  Sync::sync       -> [sync_run]   (the `?`-structured control flow)
   * nomt/src/store/mod.rs   Store::commit    -> [store_commit_run] (poison check, sync, poison on Err)
   * nomt/src/lib.rs FinishedSession::commit, Overlay::commit, try_commit_nonblocking
                                              -> [commit_run] (poison check BEFORE the rollback log is
                                                 touched, append of the delta - a failure there poisons -,
                                                 Store::commit)
   * nomt/src/lib.rs Nomt::rollback           -> [rollback_run] (poison check, in-memory truncation,
                                                 then a session commit without delta)

   A step "fails" = the call reports an error to Sync::sync (an I/O error of any write, resize or
   fsync performed by that step or by the background task whose result the step collects; for
   bitbox wait_pre_meta also BucketExhaustion of the merkle page table).  The oracle
   [fails : step -> bool] is arbitrary and every operation of a history has its own oracle, so a
   failure that happens once and a failure that persists are both covered.

   Steps modelled as INFALLIBLE (they cannot report anything to the caller: their Rust return type
   carries no error), and why:
   * [SBitboxBegin]   bitbox SyncController::begin_sync -> ()      only spawns the task that allocates
                      buckets and writes the WAL; its two results (Result<(), BucketExhaustion> and
                      io::Result of write_wal) are collected by wait_pre_meta = [SBitboxWaitPre];
   * [SBeatreeBegin]  beatree SyncController::begin_sync -> ()     only spawns the task that writes
                      the leaf / branch pages and starts the two fsyncs; its io::Result and the two
                      Fsyncer results are collected by wait_pre_meta = [SBeatreeWaitPre];
   * [SRollbackBegin] rollback SyncController::begin_sync -> (u64, u64)  in-memory only (computes
                      the live range to record in the manifest);
   * [SRollbackPost]  rollback SyncController::post_meta -> ()     only spawns the pruning of the
                      log; its io::Result is collected by wait_post_meta = [SRollbackWaitPost];
   * [SBeatreePost]   beatree SyncController::post_meta -> ()      joins a cache-eviction task of type
                      TaskResult<()> and swaps the in-memory index (Tree::finish_sync): no I/O.
   (A panic inside a spawned task is re-raised by join_task as a panic, not as an error: outside
   this model.)

   "Never a hang" is only reflected by the model being a total function. *)
From Coq Require Import String.
From Nomt Require Import Base SyncProto.

(* ------------------------------------------------------------------------------------------ *)
(* 1. steps, oracles, control flow                                                             *)

Inductive result := ROk | RErr.
Definition is_err (r : result) : bool := match r with RErr => true | ROk => false end.

(* [SDeltaAppend] = rollback.commit(delta) of lib.rs (seglog append: write header, write payload,
   resize, fsync); the other ten are the calls of Sync::sync in the order of the code *)
Inductive step :=
| SDeltaAppend
| SBitboxBegin | SBeatreeBegin | SRollbackBegin
| SBitboxWaitPre | SBeatreeWaitPre
| SMetaWrite
| SRollbackPost | SBitboxPost | SBeatreePost | SRollbackWaitPost.

Definition step_idx (s : step) : nat :=
  match s with
  | SDeltaAppend => 0
  | SBitboxBegin => 1 | SBeatreeBegin => 2 | SRollbackBegin => 3
  | SBitboxWaitPre => 4 | SBeatreeWaitPre => 5
  | SMetaWrite => 6
  | SRollbackPost => 7 | SBitboxPost => 8 | SBeatreePost => 9 | SRollbackWaitPost => 10
  end.
Definition step_eqb (a b : step) : bool := Nat.eqb (step_idx a) (step_idx b).

(* can the call report an error at all? *)
Definition fallible (s : step) : bool :=
  match s with
  | SDeltaAppend | SBitboxWaitPre | SBeatreeWaitPre | SMetaWrite | SBitboxPost | SRollbackWaitPost => true
  | SBitboxBegin | SBeatreeBegin | SRollbackBegin | SRollbackPost | SBeatreePost => false
  end.

Definition pre_steps : list step :=
  [SBitboxBegin; SBeatreeBegin; SRollbackBegin; SBitboxWaitPre; SBeatreeWaitPre].
Definition post_steps : list step :=
  [SRollbackPost; SBitboxPost; SBeatreePost; SRollbackWaitPost].
Definition sync_steps : list step := pre_steps ++ SMetaWrite :: post_steps.

(* the name under which tools/srcfacts.py reports the call (Gen/SrcFacts.v: sync_phases,
   sync_fallible_calls) *)
Definition step_name (s : step) : string :=
  match s with
  | SDeltaAppend => "rollback_append"
  | SBitboxBegin => "bitbox_begin" | SBeatreeBegin => "beatree_begin" | SRollbackBegin => "rollback_begin"
  | SBitboxWaitPre => "bitbox_wait_pre_meta" | SBeatreeWaitPre => "beatree_wait_pre_meta"
  | SMetaWrite => "meta_write"
  | SRollbackPost => "rollback_post_meta" | SBitboxPost => "bitbox_post_meta"
  | SBeatreePost => "beatree_post_meta" | SRollbackWaitPost => "rollback_wait_post_meta"
  end%string.

(* the fallible calls of Sync::sync that the model examines, as the translator reports them *)
Definition model_fallible_calls : list (string * bool) :=
  map (fun s => (step_name s, true)) (filter fallible sync_steps).

(* a run: the result and the calls that were executed (in order; a failing call is the last) *)
Definition srun := (result * list step)%type.

(*  s(..);  k      a call that cannot report anything *)
Definition call (s : step) (k : srun) : srun := (fst k, s :: snd k).
(*  s(..)?; k      the result is examined before anything else happens *)
Definition try_ (fails : step -> bool) (s : step) (k : srun) : srun :=
  if fails s then (RErr, [s]) else (fst k, s :: snd k).
(*  let _ = s(..); k     the result is dropped (only used by the refuted variants) *)
Definition ign (fails : step -> bool) (s : step) (k : srun) : srun := (fst k, s :: snd k).

(* Sync::sync, line by line *)
Definition sync_run (fails : step -> bool) : srun :=
  call SBitboxBegin (                       (* bitbox_sync.begin_sync(sync_seqn, page_cache, updated_pages); *)
  call SBeatreeBegin (                      (* beatree_sync.begin_sync(value_tx);                             *)
  call SRollbackBegin (                     (* rollback.begin_sync()                                          *)
  try_ fails SBitboxWaitPre (               (* bitbox_sync.wait_pre_meta()?;                                  *)
  try_ fails SBeatreeWaitPre (              (* let beatree_meta_wd = beatree_sync.wait_pre_meta()?;           *)
  try_ fails SMetaWrite (                   (* Meta::write(.., &new_meta)?;  self.sync_seqn += 1;             *)
  call SRollbackPost (                      (* rollback.post_meta();                                          *)
  try_ fails SBitboxPost (                  (* bitbox_sync.post_meta(..)?;                                    *)
  call SBeatreePost (                       (* beatree_sync.post_meta();                                      *)
  try_ fails SRollbackWaitPost (            (* rollback.wait_post_meta()?;                                    *)
  (ROk, []))))))))))).                       (* Ok(())                                                         *)

(* the same control flow over an arbitrary list of calls, with a switch per call saying whether
   its result is examined; used to tie [sync_run] to the generated facts and for the refutations *)
Fixpoint run_steps (checked : step -> bool) (fails : step -> bool) (l : list step) : srun :=
  match l with
  | [] => (ROk, [])
  | s :: l' =>
      if checked s && fallible s && fails s then (RErr, [s])
      else let k := run_steps checked fails l' in (fst k, s :: snd k)
  end.

(* the variant with ONE `?` dropped: the seeded change C14-s5 (result of wait_post_meta ignored) *)
Definition sync_run_s5 (fails : step -> bool) : srun :=
  call SBitboxBegin (call SBeatreeBegin (call SRollbackBegin (
  try_ fails SBitboxWaitPre (try_ fails SBeatreeWaitPre (try_ fails SMetaWrite (
  call SRollbackPost (try_ fails SBitboxPost (call SBeatreePost (
  ign fails SRollbackWaitPost (ROk, [])))))))))).

(* ------------------------------------------------------------------------------------------ *)
(* 2. the handle                                                                               *)

(* [poisoned]: Store::is_poisoned; [committed]: did the manifest step (Meta::write, followed by
   sync_seqn += 1) of the LAST operation complete *)
Record handle := { poisoned : bool; committed : bool }.
Definition fresh : handle := {| poisoned := false; committed := false |}.

Record run := { result_of : result; execd : list step; after : handle }.

(* "Store is poisoned due to prior error": nothing is executed *)
Definition refuse : run :=
  {| result_of := RErr; execd := []; after := {| poisoned := true; committed := false |} |}.

Definition manifest_done (fails : step -> bool) (ex : list step) : bool :=
  existsb (step_eqb SMetaWrite) ex && negb (fails SMetaWrite).

(* Store::commit *)
Definition store_commit_run (fails : step -> bool) (h : handle) : run :=
  if poisoned h then refuse                               (* if poisoned.load() { bail!(..) }          *)
  else
    let k := sync_run fails in                            (* if let Err(e) = sync.sync(..) {           *)
    {| result_of := fst k; execd := snd k;                      (*     poisoned.store(true); return Err(e) } *)
       after := {| poisoned := is_err (fst k); committed := manifest_done fails (snd k) |} |}.

(* FinishedSession::commit / Overlay::commit / the two try_commit_nonblocking once they hold the
   write lock and the previous-root check passed (those refusals involve no I/O and do not poison;
   [commit_nonblocking] returning the delta because a lock is busy likewise).  [delta]: the session
   records a rollback delta. *)
Definition commit_run (delta : bool) (fails : step -> bool) (h : handle) : run :=
  if poisoned h then refuse                               (* if nomt.store.is_poisoned() { bail!(..) } *)
  else if delta then
    if fails SDeltaAppend                                 (* if let Err(e) = rollback.commit(delta) {  *)
    then {| result_of := RErr; execd := [SDeltaAppend];          (*     nomt.store.poison(); return Err(e) }  *)
            after := {| poisoned := true; committed := false |} |}
    else let r := store_commit_run fails h in             (* nomt.store.commit(..)                     *)
         {| result_of := result_of r; execd := SDeltaAppend :: execd r; after := after r |}
  else store_commit_run fails h.

(* Nomt::rollback(n), n > 0, enough deltas logged ("not enabled" / "not enough logged" are refusals
   without I/O): poison check, rollback.truncate(n) - in memory only, it sets pending_truncate -,
   then a session WITHOUT delta is committed *)
Definition rollback_run (fails : step -> bool) (h : handle) : run :=
  if poisoned h then refuse else commit_run false fails h.

Inductive op := OCommit (delta : bool) | ORollback.

Definition op_run (o : op) (fails : step -> bool) (h : handle) : run :=
  match o with
  | OCommit delta => commit_run delta fails h
  | ORollback => rollback_run fails h
  end.

(* a history: every operation comes with its own oracle *)
Fixpoint run_ops (ops : list (op * (step -> bool))) (h : handle) : list (result * list step) * handle :=
  match ops with
  | [] => ([], h)
  | (o, fails) :: ops' =>
      let r := op_run o fails h in
      let k := run_ops ops' (after r) in
      ((result_of r, execd r) :: fst k, snd k)
  end.

(* ------------------------------------------------------------------------------------------ *)
(* 3. finer oracles: the individual I/O operations behind a step                               *)

(* what each fallible step performs / collects (writeout.rs write_wal, write_ht, truncate_wal;
   meta.rs Meta::write; beatree ops::update + Fsyncer; seglog append / prune_*; bitbox
   prepare_sync's bucket allocation).  A step reports an error iff one of them fails: this is the
   content of the generated facts [io_result_calls] (every result is propagated by `?`). *)
Inductive io :=
| IoRbWriteHeader | IoRbWritePayload | IoRbResize | IoRbFsync | IoRbDirFsync   (* seglog append *)
| IoBucketAlloc                                  (* bitbox prepare_sync: BucketExhaustion *)
| IoWalSetLen | IoWalWrite | IoWalFsync          (* write_wal *)
| IoTreeResize | IoTreeWrite | IoBbnFsync | IoLnFsync   (* beatree: grow, page writes, Fsyncer x2 *)
| IoMetaWrite | IoMetaFsync                      (* Meta::write *)
| IoHtWrite | IoHtFsync | IoWalTruncate | IoWalTruncateFsync   (* write_ht, truncate_wal(.., true) *)
| IoRbPrune.                                     (* seglog prune_oldest / prune_recent *)

Definition ios_of_step (s : step) : list io :=
  match s with
  | SDeltaAppend => [IoRbWriteHeader; IoRbWritePayload; IoRbResize; IoRbFsync; IoRbDirFsync]
  | SBitboxWaitPre => [IoBucketAlloc; IoWalSetLen; IoWalWrite; IoWalFsync]
  | SBeatreeWaitPre => [IoTreeResize; IoTreeWrite; IoBbnFsync; IoLnFsync]
  | SMetaWrite => [IoMetaWrite; IoMetaFsync]
  | SBitboxPost => [IoHtWrite; IoHtFsync; IoWalTruncate; IoWalTruncateFsync]
  | SRollbackWaitPost => [IoRbPrune]
  | SBitboxBegin | SBeatreeBegin | SRollbackBegin | SRollbackPost | SBeatreePost => []
  end.

Definition step_fails (iof : io -> bool) (s : step) : bool := existsb iof (ios_of_step s).

(* ------------------------------------------------------------------------------------------ *)
(* 4. the link to the disk model: the events each step contributes                             *)

(* The planned writes of an instance, step by step, in the shape of the traces of
   SyncProto_proofs.v (Tests.trA).  The work spawned by a begin_sync call is attributed to the
   wait call that collects its result.  The rollback log's segment files are not among the five
   files of the disk model (they have their own model, RbProto.v): [SDeltaAppend],
   [SRollbackPost], [SRollbackWaitPost] contribute no event here. *)
Fixpoint wal_writes (i : N) (w : list cid) : list ev :=
  match w with
  | [] => []
  | c :: w' => EW FWal i c :: wal_writes (i + 1) w'
  end.

(* the length a value file is grown to: one past the last page that is referenced or written *)
Definition tree_len (I : inst) (f : nat) : N :=
  fold_left (fun m x => let '(g, p, _) := x in if Nat.eqb g f then N.max m (p + 1) else m)
            (live_old I ++ tree_new I) 0%N.

Definition events_of_step (I : inst) (s : step) : list ev :=
  match s with
  | SBitboxWaitPre =>         (* write_wal: set_len(0); write_all(blob); sync_all() *)
      ET FWal 0 :: wal_writes 0 (wal_new I) ++ [EF FWal]
  | SBeatreeWaitPre =>        (* grow; submit the page writes; completions; Fsyncer bbn, ln *)
      [ET FLn (tree_len I FLn); ET FBbn (tree_len I FBbn)] ++
      map (fun x => let '(f, pn, c) := x in ES f pn c) (tree_new I) ++
      map (fun x => let '(f, pn, _) := x in EC f pn) (tree_new I) ++
      [EF FBbn; EF FLn]
  | SMetaWrite =>             (* write_all_at(page, 0); sync_all() *)
      [EW FMeta 0 (m_new I); EF FMeta]
  | SBitboxPost =>            (* write_ht: submit, completions, sync_all; truncate_wal(.., true) *)
      map (fun x => ES FHt (fst x) (snd x)) (ht_new I) ++
      map (fun x => EC FHt (fst x)) (ht_new I) ++
      [EF FHt; ET FWal 0; EF FWal]
  | _ => []
  end.

(* the events of a list of executed steps, for an arbitrary attribution [seg] of events to steps *)
Definition trace_of (seg : step -> list ev) (l : list step) : list ev := flat_map seg l.

Definition full_trace (I : inst) : list ev := trace_of (events_of_step I) sync_steps.

(* where the disk stands when a run stops with the executed steps [ex]: every event of the steps
   that returned has happened, and ANY part of the events of the last one (the call that failed) *)
Definition cut_ok (seg : step -> list ev) (ex : list step) (n : nat) : Prop :=
  length (trace_of seg (removelast ex)) <= n <= length (trace_of seg ex).

(* the call that failed *)
Definition failed_step (ex : list step) : step := last ex SDeltaAppend.

(* what the theorems need to know about an attribution of the events of a real trace to the steps
   during which they happened: the rollback-log append touches none of the five files, no manifest
   write happens before Meta::write is called, and Meta::write begins with the manifest write and
   contains its fsync *)
Definition seg_ok (seg : step -> list ev) : Prop :=
  seg SDeltaAppend = [] /\
  Forall (fun e => is_meta_write e = false) (trace_of seg pre_steps) /\
  exists w s rest, seg SMetaWrite = w :: s :: rest /\ is_meta_write w = true.
