(* Base definitions shared by every model: keys as bit lists, values as opaque ids,
   association-list key/value states.  Stdlib only, so that everything extracts with
   ExtrOcamlBasic. *)
From Coq Require Export List Bool Arith NArith Lia.
Export ListNotations.

Definition key := list bool.

Fixpoint key_eqb (a b : key) : bool :=
  match a, b with
  | [], [] => true
  | x :: a', y :: b' => Bool.eqb x y && key_eqb a' b'
  | _, _ => false
  end.

(* lexicographic order, false < true, a strict prefix is smaller *)
Fixpoint key_ltb (a b : key) : bool :=
  match a, b with
  | [], [] => false
  | [], _ :: _ => true
  | _ :: _, [] => false
  | x :: a', y :: b' =>
      if Bool.eqb x y then key_ltb a' b' else negb x
  end.

Definition bit (k : key) (d : nat) : bool := nth d k false.

(* length of the common prefix *)
Fixpoint common (a b : key) : nat :=
  match a, b with
  | x :: a', y :: b' => if Bool.eqb x y then S (common a' b') else 0
  | _, _ => 0
  end.

Fixpoint is_prefix (p k : key) : bool :=
  match p, k with
  | [], _ => true
  | x :: p', y :: k' => Bool.eqb x y && is_prefix p' k'
  | _ :: _, [] => false
  end.

(* values are opaque tokens: the harness interns byte strings, equal bytes <-> equal ids *)
Definition value := N.

Definition kv := list (key * value).
Definition change := (key * option value)%type.   (* None = delete *)

Fixpoint get (S : kv) (k : key) : option value :=
  match S with
  | [] => None
  | (k', v) :: S' => if key_eqb k' k then Some v else get S' k
  end.

Definition del (S : kv) (k : key) : kv :=
  filter (fun p => negb (key_eqb (fst p) k)) S.

(* insertion keeping the list sorted; replaces an equal key *)
Fixpoint ins (k : key) (v : value) (S : kv) : kv :=
  match S with
  | [] => [(k, v)]
  | (k', v') :: S' =>
      if key_ltb k k' then (k, v) :: S
      else if key_eqb k k' then (k, v) :: S'
      else (k', v') :: ins k v S'
  end.

Definition apply1 (S : kv) (c : change) : kv :=
  match snd c with
  | Some v => ins (fst c) v S
  | None => del S (fst c)
  end.

Definition apply (S : kv) (cs : list change) : kv := fold_left apply1 cs S.

Fixpoint sorted_keys (ks : list key) : bool :=
  match ks with
  | [] => true
  | k :: ks' =>
      match ks' with
      | [] => true
      | k' :: _ => key_ltb k k' && sorted_keys ks'
      end
  end.

Definition kv_sorted (S : kv) : bool := sorted_keys (map fst S).

Fixpoint kv_eqb (a b : kv) : bool :=
  match a, b with
  | [], [] => true
  | (k, v) :: a', (k', v') :: b' => key_eqb k k' && N.eqb v v' && kv_eqb a' b'
  | _, _ => false
  end.

Definition all_len (n : nat) (S : kv) : bool := forallb (fun p => Nat.eqb (length (fst p)) n) S.
