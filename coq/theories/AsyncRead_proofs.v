(* AsyncRead.v: for every schedule of submissions and completions (completions in any order) the
   repaired reader never indexes a page number it does not know, never gets stuck, and ends with the
   value; the original submit panics on a schedule the reverse-delta worker produces. *)
From Coq Require Import List Bool Arith NArith Lia.
From Nomt Require Import AsyncRead.
Import ListNotations.

(* ---- helpers ---- *)
Lemma firstn_add_skipn : forall {A} a b (l : list A), firstn (a + b) l = firstn a l ++ firstn b (skipn a l).
Proof.
  intros A a. induction a as [|a IH]; intros b l; [reflexivity|].
  destruct l as [|x l]; cbn [Nat.add firstn skipn app].
  - rewrite firstn_nil. reflexivity.
  - rewrite IH. reflexivity.
Qed.

Lemma firstn_S_nth : forall {A} n (l : list A) x, nth_error l n = Some x -> firstn (S n) l = firstn n l ++ [x].
Proof.
  intros A n. induction n as [|n IH]; intros [|y l] x H; cbn in H; try discriminate.
  - injection H as ->. reflexivity.
  - change (firstn (S (S n)) (y :: l)) with (y :: firstn (S n) l).
    change (firstn (S n) (y :: l)) with (y :: firstn n l).
    rewrite (IH l x H). reflexivity.
Qed.

Lemma known_prefix : forall L k k', k <= k' -> exists t, known L k' = known L k ++ t.
Proof.
  intros L k k' H. unfold known.
  replace k' with (k + (k' - k)) by lia. rewrite firstn_add_skipn, flat_map_app, app_assoc.
  eexists. reflexivity.
Qed.

Lemma known_nth_stable : forall L k k' i x, k <= k' -> nth_error (known L k) i = Some x ->
  nth_error (known L k') i = Some x.
Proof.
  intros L k k' i x Hk H. destruct (known_prefix L k k' Hk) as [t ->].
  rewrite nth_error_app1; [exact H|]. apply nth_error_Some. congruence.
Qed.

Lemma known_length_mono : forall L k k', k <= k' -> length (known L k) <= length (known L k').
Proof. intros L k k' H. destruct (known_prefix L k k' H) as [t ->]. rewrite app_length. lia. Qed.

Lemma firstn_known_stable : forall L k k' r, k <= k' -> r <= length (known L k) ->
  firstn r (known L k') = firstn r (known L k).
Proof.
  intros L k k' r Hk Hr. destruct (known_prefix L k k' Hk) as [t ->].
  rewrite firstn_app. replace (r - length (known L k)) with 0 by lia.
  cbn [firstn]. apply app_nil_r.
Qed.

(* ---- the parse loop ---- *)
Lemma parse_spec : forall rest p g v p' v',
  parse rest p g v = (p', v') ->
  p <= p' <= p + length rest /\
  v' = v ++ flat_map snd (firstn (p' - p) rest) /\
  (p' < p + length rest -> existsb (Nat.eqb p') g = false) /\
  (forall j, p <= j < p' -> existsb (Nat.eqb j) g = true).
Proof.
  induction rest as [|pg rest IH]; intros p g v p' v' H; cbn [parse] in H.
  - injection H as <- <-. cbn [length]. rewrite Nat.sub_diag. cbn [firstn flat_map].
    rewrite app_nil_r. repeat split; try lia; intros j Hj; lia.
  - destruct (existsb (Nat.eqb p) g) eqn:E.
    + apply IH in H. destruct H as [H1 [H2 [H3 H4]]]. cbn [length].
      split; [lia|]. split.
      * rewrite H2. replace (p' - p) with (S (p' - S p)) by lia.
        cbn [firstn flat_map]. rewrite app_assoc. reflexivity.
      * split; [intros Hlt; apply H3; lia|].
        intros j Hj. destruct (Nat.eq_dec j p) as [->|Hne]; [exact E|apply H4; lia].
    + injection H as <- <-. cbn [length]. rewrite Nat.sub_diag. cbn [firstn flat_map].
      rewrite app_nil_r. split; [lia|]. split; [reflexivity|]. split; [intros _; exact E|].
      intros j Hj. lia.
Qed.

(* ---- the invariant ---- *)
Definition Inv (L : layout) (s : rstate) : Prop :=
  proc s <= req s /\ req s <= total L /\
  req s <= length (known L (proc s)) /\
  val s = flat_map snd (firstn (proc s) (pgs L)) /\
  asked s = firstn (req s) (known L (proc s)) /\
  (forall j, existsb (Nat.eqb j) (got s) = true -> j < req s) /\
  (proc s < total L -> existsb (Nat.eqb (proc s)) (got s) = false).

Lemma inv_init : forall L, Inv L rinit.
Proof.
  intros L. unfold Inv, rinit; cbn. repeat split; try lia; try (intros; discriminate).
Qed.

Lemma inv_submit : forall g L s s', Inv L s -> submit g L s = SOk s' -> Inv L s'.
Proof.
  intros g L s s' [I1 [I2 [I3 [I4 [I5 [I6 I7]]]]]] H. unfold submit in H.
  destruct (Nat.eqb (req s) (total L)) eqn:Et; [discriminate|]. apply Nat.eqb_neq in Et.
  destruct (g && Nat.leb (length (known L (proc s))) (req s)); [discriminate|].
  destruct (nth_error (known L (proc s)) (req s)) as [pn|] eqn:En; [|discriminate].
  injection H as <-. unfold Inv; cbn [req proc got val asked].
  assert (Hlt : req s < length (known L (proc s))) by (apply nth_error_Some; congruence).
  repeat split; try lia; try assumption.
  - rewrite (firstn_S_nth _ _ _ En), I5. reflexivity.
  - intros j Hj. specialize (I6 j Hj). lia.
Qed.

Lemma existsb_eqb_cons : forall j i g, existsb (Nat.eqb j) (i :: g) = Nat.eqb j i || existsb (Nat.eqb j) g.
Proof. reflexivity. Qed.

Lemma inv_complete : forall L i s, Inv L s -> Inv L (complete L i s).
Proof.
  intros L i s HI. unfold complete.
  destruct (Nat.ltb i (req s) && Nat.leb (proc s) i && negb (existsb (Nat.eqb i) (got s))) eqn:Ec; [|exact HI].
  apply andb_true_iff in Ec. destruct Ec as [Ec Ec3]. apply andb_true_iff in Ec. destruct Ec as [Ec1 Ec2].
  apply Nat.ltb_lt in Ec1. apply Nat.leb_le in Ec2.
  destruct HI as [I1 [I2 [I3 [I4 [I5 [I6 I7]]]]]].
  destruct (parse (skipn (proc s) (pgs L)) (proc s) (i :: got s) (val s)) as [p v] eqn:Ep.
  apply parse_spec in Ep. destruct Ep as [P1 [P2 [P3 P4]]].
  assert (Hlen : length (skipn (proc s) (pgs L)) = total L - proc s) by (rewrite skipn_length; reflexivity).
  assert (Hgot : forall j, existsb (Nat.eqb j) (i :: got s) = true -> j < req s).
  { intros j Hj. rewrite existsb_eqb_cons in Hj. apply orb_true_iff in Hj. destruct Hj as [Hj|Hj].
    - apply Nat.eqb_eq in Hj. lia.
    - apply I6. exact Hj. }
  assert (Hp : p <= req s).
  { destruct (Nat.eq_dec p (proc s)) as [->|Hne]; [lia|].
    assert (Hq : existsb (Nat.eqb (p - 1)) (i :: got s) = true) by (apply P4; lia).
    apply Hgot in Hq. lia. }
  unfold Inv; cbn [req proc got val asked].
  split; [exact Hp|]. split; [exact I2|]. split.
  { pose proof (known_length_mono L (proc s) p ltac:(lia)). lia. }
  split.
  { rewrite P2, I4. replace p with (proc s + (p - proc s)) at 2 by lia.
    rewrite firstn_add_skipn, flat_map_app. reflexivity. }
  split.
  { rewrite I5. symmetry. apply firstn_known_stable; lia. }
  split; [exact Hgot|].
  intros Hlt. apply P3. lia.
Qed.

Lemma inv_step : forall g L s e s', Inv L s -> step g L (Some s) e = Some s' -> Inv L s'.
Proof.
  intros g L s e s' HI H. destruct e as [|i]; cbn [step] in H.
  - destruct (submit g L s) as [|s1|] eqn:Es; try discriminate.
    + injection H as <-. exact HI.
    + injection H as <-. apply (inv_submit g L s s1 HI Es).
  - injection H as <-. apply inv_complete. exact HI.
Qed.

Lemma fold_none : forall g L evs, fold_left (step g L) evs None = None.
Proof. intros g L evs. induction evs as [|e evs IH]; [reflexivity|exact IH]. Qed.

Lemma inv_fold : forall g L evs s0 s, Inv L s0 -> fold_left (step g L) evs (Some s0) = Some s -> Inv L s.
Proof.
  intros g L evs. induction evs as [|e evs IH]; intros s0 s HI H; cbn [fold_left] in H.
  - injection H as <-. exact HI.
  - destruct (step g L (Some s0) e) as [s1|] eqn:Es.
    + apply (IH s1 s); [apply (inv_step g L s0 e s1 HI Es)|exact H].
    + rewrite fold_none in H. discriminate.
Qed.

Theorem run_inv : forall g L evs s, run g L evs = Some s -> Inv L s.
Proof. intros g L evs s H. apply (inv_fold g L evs rinit s (inv_init L) H). Qed.

(* ---- the repaired submit never panics, on any layout and any schedule ---- *)
Lemma submit_guard_no_panic : forall L s, submit true L s <> SPanic.
Proof.
  intros L s. unfold submit. destruct (Nat.eqb (req s) (total L)); [discriminate|].
  cbn [andb]. destruct (Nat.leb (length (known L (proc s))) (req s)) eqn:El; [discriminate|].
  apply Nat.leb_gt in El. destruct (nth_error (known L (proc s)) (req s)) eqn:En; [discriminate|].
  apply nth_error_None in En. lia.
Qed.

Theorem guarded_never_panics : forall L evs, run true L evs <> None.
Proof.
  intros L evs. unfold run. generalize rinit as s0. induction evs as [|e evs IH]; intros s0; cbn [fold_left].
  - discriminate.
  - destruct e as [|i]; cbn [step].
    + destruct (submit true L s0) as [|s1|] eqn:Es; [apply IH|apply IH|].
      exfalso. apply (submit_guard_no_panic L s0 Es).
    + apply IH.
Qed.

(* ---- whatever the order of the completions: when the reader is done it holds the value, and it
        requested exactly the value's pages, in order ---- *)
Theorem done_value : forall g L evs s, run g L evs = Some s -> done L s = true ->
  val s = flat_map snd (pgs L) /\ asked s = firstn (total L) (known L (total L)).
Proof.
  intros g L evs s H Hd. apply run_inv in H. destruct H as [I1 [I2 [I3 [I4 [I5 _]]]]].
  unfold done in Hd. apply Nat.eqb_eq in Hd. split.
  - rewrite I4, Hd. unfold total. rewrite firstn_all. reflexivity.
  - rewrite I5, Hd. replace (req s) with (total L) by lia. reflexivity.
Qed.

(* ---- never stuck: while pages are missing, either a request is in flight (its completion will be
        accepted) or the repaired submit issues one ---- *)
Theorem progress : forall L evs s, wf_layout L -> run true L evs = Some s -> done L s = false ->
  (exists i, i < req s /\ proc s <= i /\ existsb (Nat.eqb i) (got s) = false) \/
  (exists s', submit true L s = SOk s').
Proof.
  intros L evs s [W1 _] H Hd. apply run_inv in H. destruct H as [I1 [I2 [I3 [I4 [I5 [I6 I7]]]]]].
  unfold done in Hd. apply Nat.eqb_neq in Hd.
  assert (Hpt : proc s < total L).
  { assert (proc s <= total L) by lia. lia. }
  destruct (Nat.eq_dec (proc s) (req s)) as [E|Ne].
  - right. unfold submit. rewrite <- E.
    destruct (Nat.eqb (proc s) (total L)) eqn:Et; [apply Nat.eqb_eq in Et; lia|].
    specialize (W1 (proc s) Hpt). cbn [andb].
    destruct (Nat.leb (length (known L (proc s))) (proc s)) eqn:El; [apply Nat.leb_le in El; lia|].
    destruct (nth_error (known L (proc s)) (proc s)) eqn:En; [eexists; reflexivity|].
    apply nth_error_None in En. lia.
  - left. exists (proc s). split; [lia|]. split; [lia|]. apply I7. exact Hpt.
Qed.

(* ---- chunk's layout is well formed ---- *)
Lemma spread_length : forall m o bs, length (spread m o bs) = length bs.
Proof. intros m o bs. revert o. induction bs as [|b bs IH]; intros o; cbn [spread length]; [reflexivity|]. rewrite IH. reflexivity. Qed.

Lemma spread_known : forall m bs o k, k <= length bs ->
  flat_map fst (firstn k (spread m o bs)) = firstn (k * m) o.
Proof.
  intros m bs. induction bs as [|b bs IH]; intros o k Hk.
  - cbn [length] in Hk. replace k with 0 by lia. reflexivity.
  - destruct k as [|k]; [reflexivity|]. cbn [spread firstn flat_map fst length] in *.
    rewrite IH by lia. replace (S k * m) with (m + k * m) by lia.
    rewrite firstn_add_skipn. reflexivity.
Qed.

Theorem chunk_layout_wf : forall m pns bytes, 0 < m -> length pns = length bytes ->
  wf_layout (chunk_layout m pns bytes).
Proof.
  intros m pns bytes Hm Hlen. unfold wf_layout, total, known, chunk_layout. cbn [cellp pgs].
  rewrite spread_length. split.
  - intros k Hk. rewrite app_length, spread_known by lia.
    rewrite !firstn_length, skipn_length. nia.
  - rewrite app_length, spread_known by lia.
    rewrite !firstn_length, skipn_length. nia.
Qed.

(* ---- the original submit: a value of 16 pages whose leaf is not cached.  The worker receives the
        leaf, then submits up to 128 requests at once: the 16th indexes page number 15 of 15 known. *)
Definition ex_pns : list N := map N.of_nat (seq 100 16).
Definition ex_bytes : list (list N) := map (fun i => [N.of_nat i]) (seq 0 16).
Definition ex_layout : layout := chunk_layout 1023 ex_pns ex_bytes.

Lemma unguarded_refuted :
  run false ex_layout (repeat ESubmit 16) = None /\
  (* the repaired reader on the same schedule, completions in REVERSE order, then the rest *)
  option_map (fun s => (done ex_layout s, val s, asked s))
    (run true ex_layout (repeat ESubmit 16 ++ map EComplete (rev (seq 0 15)) ++ [ESubmit; EComplete 15])) =
  Some (true, map N.of_nat (seq 0 16), ex_pns).
Proof. vm_compute. split; reflexivity. Qed.
