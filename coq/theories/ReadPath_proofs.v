(* ReadPath_proofs: NOMT's read path (ReadPath.v) returns the abstraction of a well-formed decoded
   image (property C16):

     readpath_refines :
       decode_image fs = Ok img -> wf_leaf_order img = true -> wf_branches img = true ->
       passes (wf_pages_ln_v img) = true -> forall k, lookup img k = assoc k (abs img)

   Structure:
     1. keys, strictly ascending lists, [pick] (the last element whose key is <= k)
     2. the two binary searches on strictly ascending lists
     3. the leaf level:   leaf_get = assoc on the leaf's entries
     4. the branch level: search_branch = the last separator <= k
     5. the index level and the global separator order: partial_lookup = the last reference <= k
     6. leaves_in_range: the abstraction restricted to that leaf
     7. what decode_image guarantees beyond the verdicts ([decoded_ok]: leaves are the pages the
        branches refer to, in order; branches are non-empty; compressed separators carry the prefix)
     8. the theorem *)
From Coq Require Import List Bool Arith NArith Lia.
From Nomt Require Import Base Base_proofs Image ReadPath.
Import ListNotations.
Local Open Scope N_scope.

(* ------------------------------------------------------------------------------------------- *)
(* 1. keys and ascending lists                                                                   *)

Lemma key_leb_iff : forall a b, key_leb a b = true <-> (a = b \/ key_ltb a b = true).
Proof.
  intros a b. unfold key_leb. split.
  - intros H. apply negb_true_iff in H.
    destruct (key_trichotomy a b) as [Hl|[He|Hg]]; auto. rewrite Hg in H. discriminate.
  - intros [->|H]; apply negb_true_iff; [apply key_ltb_irrefl|apply key_ltb_asym; exact H].
Qed.

Lemma key_leb_false : forall a b, key_leb a b = false -> key_ltb b a = true.
Proof. intros a b H. unfold key_leb in H. apply negb_false_iff in H. exact H. Qed.

Lemma key_ltb_leb_trans : forall a b c, key_ltb a b = true -> key_leb b c = true -> key_ltb a c = true.
Proof.
  intros a b c H1 H2. apply key_leb_iff in H2. destruct H2 as [->|H2]; [exact H1|].
  eapply key_ltb_trans; eassumption.
Qed.

Lemma key_leb_ltb_trans : forall a b c, key_leb a b = true -> key_ltb b c = true -> key_ltb a c = true.
Proof.
  intros a b c H1 H2. apply key_leb_iff in H1. destruct H1 as [->|H1]; [exact H2|].
  eapply key_ltb_trans; eassumption.
Qed.

Lemma key_ltb_not_leb : forall a b, key_ltb a b = true -> key_leb b a = false.
Proof. intros a b H. unfold key_leb. rewrite H. reflexivity. Qed.

Lemma key_ltb_neq : forall a b, key_ltb a b = true -> key_eqb a b = false.
Proof.
  intros a b H. apply key_eqb_false_iff. intros ->. rewrite key_ltb_irrefl in H. discriminate.
Qed.

Lemma key_ltb_neq' : forall a b, key_ltb a b = true -> key_eqb b a = false.
Proof. intros a b H. rewrite key_eqb_sym. apply key_ltb_neq. exact H. Qed.

Lemma key_cmp_Eq : forall a b, key_cmp a b = Eq -> a = b.
Proof.
  intros a b. unfold key_cmp. destruct (key_eqb a b) eqn:E.
  - intros _. apply key_eqb_true_iff. exact E.
  - destruct (key_ltb a b); discriminate.
Qed.

Lemma key_cmp_Lt : forall a b, key_cmp a b = Lt -> key_ltb a b = true.
Proof.
  intros a b. unfold key_cmp. destruct (key_eqb a b); [discriminate|].
  destruct (key_ltb a b); [reflexivity|discriminate].
Qed.

Lemma key_cmp_Gt : forall a b, key_cmp a b = Gt -> key_ltb b a = true.
Proof.
  intros a b. unfold key_cmp. destruct (key_eqb a b) eqn:E; [discriminate|].
  destruct (key_ltb a b) eqn:L; [discriminate|]. intros _.
  destruct (key_trichotomy a b) as [Hl|[He|Hg]]; [congruence| |exact Hg].
  subst. rewrite key_eqb_refl in E. discriminate.
Qed.

(* comparing prefixes of the same length decides the comparison of the whole keys *)
Lemma firstn_ltb : forall p (a b : key),
    key_ltb (firstn p a) (firstn p b) = true -> key_ltb a b = true.
Proof.
  induction p as [|p IH]; intros a b H.
  - cbn in H. discriminate.
  - destruct a as [|x a], b as [|y b]; cbn [firstn key_ltb] in *; try discriminate; try reflexivity.
    destruct (Bool.eqb x y); [apply IH; exact H|exact H].
Qed.

(* strictly ascending, in the form that survives dropping elements *)
Fixpoint ssorted (l : list key) : Prop :=
  match l with
  | [] => True
  | a :: r => (forall x, In x r -> key_ltb a x = true) /\ ssorted r
  end.

Lemma sorted_keys_ssorted : forall l, sorted_keys l = true -> ssorted l.
Proof.
  induction l as [|a r IH]; intros H; [exact I|].
  destruct r as [|b r'].
  - split; [intros x []|exact I].
  - cbn [sorted_keys] in H. apply andb_true_iff in H. destruct H as [Hab Hr].
    specialize (IH Hr). split; [|exact IH].
    intros x [<-|Hx]; [exact Hab|].
    destruct IH as [Hb _]. eapply key_ltb_trans; [exact Hab|]. apply Hb. exact Hx.
Qed.

Lemma ssorted_app : forall l1 l2, ssorted (l1 ++ l2) ->
    ssorted l1 /\ ssorted l2 /\ forall x y, In x l1 -> In y l2 -> key_ltb x y = true.
Proof.
  induction l1 as [|a r IH]; intros l2 H; cbn [app] in *.
  - split; [exact I|]. split; [exact H|]. intros x y [].
  - destruct H as [Ha Hr]. destruct (IH l2 Hr) as [H1 [H2 H3]].
    split; [split; [|exact H1]|split; [exact H2|]].
    + intros x Hx. apply Ha. apply in_or_app. left. exact Hx.
    + intros x y [<-|Hx] Hy; [apply Ha; apply in_or_app; right; exact Hy|apply H3; assumption].
Qed.

Lemma ssorted_nth : forall l i j a b, ssorted l -> (i < j)%nat ->
    nth_error l i = Some a -> nth_error l j = Some b -> key_ltb a b = true.
Proof.
  induction l as [|x r IH]; intros i j a b Hs Hij Ha Hb.
  - destruct i; discriminate.
  - destruct Hs as [Hx Hr]. destruct j as [|j]; [lia|]. cbn [nth_error] in Hb.
    destruct i as [|i]; cbn [nth_error] in Ha.
    + injection Ha as <-. apply Hx. eapply nth_error_In. exact Hb.
    + eapply IH; [exact Hr| |exact Ha|exact Hb]. lia.
Qed.

Lemma nthN_nth_error : forall {A} (l : list A) n, nthN n l = nth_error l (N.to_nat n).
Proof.
  intros A l. induction l as [|x r IH]; intros n; cbn [nthN].
  - destruct (N.to_nat n); reflexivity.
  - destruct (N.eqb_spec n 0) as [->|Hn]; [reflexivity|].
    rewrite IH. replace (N.to_nat n) with (S (N.to_nat (N.pred n))) by lia. reflexivity.
Qed.

Lemma nth_error_Some_lt' : forall {A} (l : list A) i a, nth_error l i = Some a -> (i < length l)%nat.
Proof. intros A l i a H. apply nth_error_Some. rewrite H. discriminate. Qed.

Lemma nth_error_split' : forall {A} (l : list A) i a, nth_error l i = Some a ->
    exists l1 l2, l = l1 ++ a :: l2 /\ length l1 = i.
Proof. intros A l i a H. apply nth_error_split. exact H. Qed.

Lemma nth_error_app_mid : forall {A} (l1 l2 : list A) a j,
    nth_error (l1 ++ a :: l2) (length l1 + S j) = nth_error l2 j.
Proof.
  intros A l1 l2 a j. rewrite nth_error_app2 by lia.
  replace (length l1 + S j - length l1)%nat with (S j) by lia. reflexivity.
Qed.

(* [pick kf l k]: the LAST element of l whose key is <= k *)
Section Pick.
  Context {A : Type} (kf : A -> key).

  Fixpoint pick (l : list A) (k : key) : option A :=
    match l with
    | [] => None
    | a :: r =>
        match pick r k with
        | Some b => Some b
        | None => if key_leb (kf a) k then Some a else None
        end
    end.

  Lemma pick_app : forall l1 l2 k,
      pick (l1 ++ l2) k = match pick l2 k with Some b => Some b | None => pick l1 k end.
  Proof.
    induction l1 as [|a r IH]; intros l2 k; cbn [app pick].
    - destruct (pick l2 k); reflexivity.
    - rewrite IH. destruct (pick l2 k); reflexivity.
  Qed.

  Lemma pick_none : forall l k, (forall a, In a l -> key_ltb k (kf a) = true) -> pick l k = None.
  Proof.
    induction l as [|a r IH]; intros k H; [reflexivity|]. cbn [pick].
    rewrite IH by (intros x Hx; apply H; right; exact Hx).
    rewrite key_ltb_not_leb; [reflexivity|]. apply H. left. reflexivity.
  Qed.

  Lemma pick_none_inv : forall l k, pick l k = None -> forall a, In a l -> key_ltb k (kf a) = true.
  Proof.
    induction l as [|a r IH]; intros k H x Hx; [destruct Hx|]. cbn [pick] in H.
    destruct (pick r k) eqn:E; [discriminate|].
    destruct (key_leb (kf a) k) eqn:L; [discriminate|].
    destruct Hx as [<-|Hx]; [apply key_leb_false; exact L|eapply IH; eassumption].
  Qed.

  Lemma pick_In : forall l k a, pick l k = Some a -> In a l /\ key_leb (kf a) k = true.
  Proof.
    induction l as [|x r IH]; intros k a H; [discriminate|]. cbn [pick] in H.
    destruct (pick r k) eqn:E.
    - injection H as <-. destruct (IH k a0 E) as [Hi Hl]. split; [right; exact Hi|exact Hl].
    - destruct (key_leb (kf x) k) eqn:L; [|discriminate]. injection H as <-.
      split; [left; reflexivity|exact L].
  Qed.

  (* the element at a position whose successors are all above k *)
  Lemma pick_mid : forall l1 a l2 k, key_leb (kf a) k = true ->
      (forall b, In b l2 -> key_ltb k (kf b) = true) -> pick (l1 ++ a :: l2) k = Some a.
  Proof.
    intros l1 a l2 k Ha Hl2. rewrite pick_app. cbn [pick].
    rewrite (pick_none l2 k Hl2). rewrite Ha. reflexivity.
  Qed.
End Pick.

Lemma pick_map : forall {A B} (f : A -> B) (kf : B -> key) (l : list A) k,
    pick kf (map f l) k = option_map f (pick (fun a => kf (f a)) l k).
Proof.
  intros A B f kf l k. induction l as [|a r IH]; [reflexivity|]. cbn [map pick].
  rewrite IH. destruct (pick (fun a0 => kf (f a0)) r k); cbn [option_map]; [reflexivity|].
  destruct (key_leb (kf (f a)) k); reflexivity.
Qed.

(* ------------------------------------------------------------------------------------------- *)
(* 2. the binary searches                                                                        *)

(* find_key_pos's loop: answers (true, i) only at a position holding k; answers (false, pos) with
   everything before pos below k and everything from pos on above k *)
Definition fkp_spec (seps : list key) (k : key) (r : bool * N) : Prop :=
  let '(found, pos) := r in
  (N.to_nat pos <= length seps)%nat /\
  if found then nth_error seps (N.to_nat pos) = Some k
  else forall i s, nth_error seps i = Some s ->
                   ((i < N.to_nat pos)%nat -> key_ltb s k = true) /\
                   ((N.to_nat pos <= i)%nat -> key_ltb k s = true).

Lemma fkp_loop_spec : forall fuel seps k low high,
    ssorted seps ->
    (N.to_nat high - N.to_nat low < fuel)%nat ->
    low <= high -> (N.to_nat high <= length seps)%nat ->
    (forall i s, nth_error seps i = Some s -> (i < N.to_nat low)%nat -> key_ltb s k = true) ->
    (forall i s, nth_error seps i = Some s -> (N.to_nat high <= i)%nat -> key_ltb k s = true) ->
    fkp_spec seps k (fkp_loop fuel seps k low high).
Proof.
  induction fuel as [|f IH]; intros seps k low high Hs Hfuel Hlh Hlen Hlow Hhigh; [lia|].
  cbn [fkp_loop]. destruct (N.ltb_spec low high) as [Hlt|Hge].
  - set (mid := low + (high - low) / 2).
    assert (Hmid : low <= mid /\ mid < high).
    { unfold mid. split; [apply N.le_add_r|].
      assert ((high - low) / 2 < high - low) by (apply N.div_lt; lia). lia. }
    rewrite nthN_nth_error.
    destruct (nth_error seps (N.to_nat mid)) as [s|] eqn:En.
    2:{ apply nth_error_None in En. lia. }
    destruct (key_cmp k s) eqn:Ec.
    + apply key_cmp_Eq in Ec. subst s. cbn. split; [|exact En].
      assert (N.to_nat mid < length seps)%nat by (apply nth_error_Some; rewrite En; discriminate).
      lia.
    + apply key_cmp_Lt in Ec.
      apply IH; try assumption; try lia.
      intros i s' Hi Hge. destruct (Nat.eq_dec i (N.to_nat mid)) as [->|Hne].
      * rewrite En in Hi. injection Hi as <-. exact Ec.
      * eapply key_ltb_trans; [exact Ec|].
        eapply (ssorted_nth seps (N.to_nat mid) i); try eassumption. lia.
    + apply key_cmp_Gt in Ec.
      apply IH; try assumption; try lia.
      intros i s' Hi Hlt'. destruct (Nat.eq_dec i (N.to_nat mid)) as [->|Hne].
      * rewrite En in Hi. injection Hi as <-. exact Ec.
      * eapply key_ltb_trans; [|exact Ec].
        eapply (ssorted_nth seps i (N.to_nat mid)); try eassumption. lia.
  - assert (low = high) by lia. subst low. cbn. split; [exact Hlen|].
    intros i s Hi. split; intros Hc; [eapply Hlow|eapply Hhigh]; eassumption.
Qed.

(* binary_search_by's loop: the final [base] is a valid position, everything before it is below k
   and everything after it is above k *)
Lemma bs_loop_spec : forall fuel ks k base size,
    ssorted ks ->
    (N.to_nat size <= fuel)%nat -> 1 <= size ->
    (N.to_nat (base + size) <= length ks)%nat ->
    (forall i s, nth_error ks i = Some s -> (i < N.to_nat base)%nat -> key_ltb s k = true) ->
    (forall i s, nth_error ks i = Some s -> (N.to_nat (base + size) <= i)%nat -> key_ltb k s = true) ->
    (N.to_nat (bs_loop fuel ks k base size) < length ks)%nat /\
    (forall i s, nth_error ks i = Some s -> (i < N.to_nat (bs_loop fuel ks k base size))%nat ->
                 key_ltb s k = true) /\
    (forall i s, nth_error ks i = Some s -> (N.to_nat (bs_loop fuel ks k base size) < i)%nat ->
                 key_ltb k s = true).
Proof.
  induction fuel as [|f IH]; intros ks k base size Hs Hfuel Hsize Hlen Hlow Hhigh; [lia|].
  cbn [bs_loop]. destruct (N.ltb_spec 1 size) as [Hgt|Hle].
  - set (half := size / 2).
    assert (Hdm : size = 2 * half + size mod 2) by (unfold half; apply N.div_mod'; lia).
    assert (Hm : size mod 2 < 2) by (apply N.mod_lt; lia).
    clearbody half. set (rm := size mod 2) in *. clearbody rm.
    assert (Hhalf : 1 <= half /\ half < size) by lia.
    rewrite nthN_nth_error.
    destruct (nth_error ks (N.to_nat (base + half))) as [e|] eqn:En.
    2:{ apply nth_error_None in En. lia. }
    assert (Hcase : (key_cmp e k = Gt /\ key_ltb k e = true) \/
                    (key_cmp e k <> Gt /\ key_leb e k = true)).
    { destruct (key_cmp e k) eqn:Ec.
      - right. split; [discriminate|]. apply key_cmp_Eq in Ec. apply key_leb_iff. left. exact Ec.
      - right. split; [discriminate|]. apply key_cmp_Lt in Ec. apply key_leb_iff. right. exact Ec.
      - left. split; [reflexivity|]. apply key_cmp_Gt in Ec. exact Ec. }
    destruct Hcase as [[Ec Hk]|[Ec Hk]].
    + rewrite Ec. apply IH; try assumption; try lia.
      intros i s Hi Hge. destruct (Nat.eq_dec i (N.to_nat (base + half))) as [->|Hne].
      * rewrite En in Hi. injection Hi as <-. exact Hk.
      * eapply key_ltb_trans; [exact Hk|].
        eapply (ssorted_nth ks (N.to_nat (base + half)) i); try eassumption. lia.
    + replace (match key_cmp e k with Gt => base | _ => base + half end) with (base + half)
        by (destruct (key_cmp e k); congruence).
      apply IH; try assumption; try lia.
      * intros i s Hi Hlt. eapply key_ltb_leb_trans; [|exact Hk].
        eapply (ssorted_nth ks i (N.to_nat (base + half))); try eassumption.
      * intros i s Hi Hge. eapply Hhigh; [exact Hi|]. lia.
  - assert (size = 1) by lia. subst size. split; [lia|]. split.
    + exact Hlow.
    + intros i s Hi Hlt. eapply Hhigh; [exact Hi|]. lia.
Qed.

Lemma binary_search_spec : forall ks k, ssorted ks ->
    match binary_search ks k with
    | Found i => nth_error ks (N.to_nat i) = Some k
    | NotFound _ => ~ In k ks
    end.
Proof.
  intros ks k Hs. unfold binary_search.
  destruct (N.eqb_spec (lenN ks) 0) as [Hz|Hnz].
  - rewrite lenN_length in Hz. destruct ks; [intros []|cbn [length] in Hz; lia].
  - pose proof (lenN_length ks) as Hl.
    assert (H1 : (N.to_nat (lenN ks) <= length ks)%nat) by lia.
    assert (H2 : 1 <= lenN ks) by lia.
    assert (H3 : (N.to_nat (0 + lenN ks) <= length ks)%nat) by lia.
    assert (H4 : forall i s, nth_error ks i = Some s -> (i < N.to_nat 0)%nat -> key_ltb s k = true).
    { intros i s _ Hi. change (N.to_nat 0) with O in Hi. lia. }
    assert (H5 : forall i s, nth_error ks i = Some s -> (N.to_nat (0 + lenN ks) <= i)%nat ->
                             key_ltb k s = true).
    { intros i s Hi Hge. apply nth_error_Some_lt' in Hi. lia. }
    destruct (bs_loop_spec (length ks) ks k 0 (lenN ks) Hs H1 H2 H3 H4 H5) as [Hb [Hlow Hhigh]].
    clear H1 H2 H3 H4 H5.
    set (b := bs_loop (length ks) ks k 0 (lenN ks)) in *.
    rewrite nthN_nth_error.
    destruct (nth_error ks (N.to_nat b)) as [e|] eqn:En.
    2:{ apply nth_error_None in En. lia. }
    assert (Hnot : e <> k -> ~ In k ks).
    { intros Hne Hin. apply In_nth_error in Hin. destruct Hin as [i Hi].
      destruct (lt_eq_lt_dec i (N.to_nat b)) as [[Hlt|Heq]|Hgt].
      - specialize (Hlow i k Hi Hlt). rewrite key_ltb_irrefl in Hlow. discriminate.
      - subst i. rewrite En in Hi. congruence.
      - specialize (Hhigh i k Hi Hgt). rewrite key_ltb_irrefl in Hhigh. discriminate. }
    destruct (key_cmp e k) eqn:Ec.
    + apply key_cmp_Eq in Ec. subst e. exact En.
    + apply key_cmp_Lt in Ec. apply Hnot. intros ->. rewrite key_ltb_irrefl in Ec. discriminate.
    + apply key_cmp_Gt in Ec. apply Hnot. intros ->. rewrite key_ltb_irrefl in Ec. discriminate.
Qed.

(* ------------------------------------------------------------------------------------------- *)
(* 3. the leaf level                                                                             *)

Definition entries_kv (es : list entry) : list (key * list N) :=
  map (fun e => (e_key e, e_val e)) es.

Lemma assoc_app : forall {V} k (l1 l2 : list (key * V)),
    assoc k (l1 ++ l2) = match assoc k l1 with Some v => Some v | None => assoc k l2 end.
Proof.
  intros V k l1 l2. induction l1 as [|[k' v] r IH]; [reflexivity|]. cbn [app assoc].
  destruct (key_eqb k' k); [reflexivity|exact IH].
Qed.

Lemma assoc_none : forall {V} k (l : list (key * V)),
    (forall p, In p l -> fst p <> k) -> assoc k l = None.
Proof.
  intros V k l. induction l as [|[k' v] r IH]; intros H; [reflexivity|]. cbn [assoc].
  destruct (key_eqb k' k) eqn:E.
  - apply key_eqb_true_iff in E. exfalso. apply (H (k', v)); [left; reflexivity|exact E].
  - apply IH. intros p Hp. apply H. right. exact Hp.
Qed.

Lemma assoc_entries_none : forall es k, ~ In k (map e_key es) -> assoc k (entries_kv es) = None.
Proof.
  intros es k H. apply assoc_none. intros p Hp Hk. apply H.
  unfold entries_kv in Hp. apply in_map_iff in Hp. destruct Hp as [e [<- He]]. cbn [fst] in Hk.
  subst k. apply in_map. exact He.
Qed.

Lemma assoc_entries_nth : forall es i e, ssorted (map e_key es) -> nth_error es i = Some e ->
    assoc (e_key e) (entries_kv es) = Some (e_val e).
Proof.
  induction es as [|a r IH]; intros i e Hs Hn; [destruct i; discriminate|].
  destruct i as [|i]; cbn [nth_error] in Hn.
  - injection Hn as ->. cbn [entries_kv map assoc]. rewrite key_eqb_refl. reflexivity.
  - cbn [map] in Hs. destruct Hs as [Ha Hr].
    cbn [entries_kv map assoc]. rewrite key_ltb_neq.
    + apply (IH i e Hr Hn).
    + apply Ha. apply in_map. eapply nth_error_In. exact Hn.
Qed.

(* LeafNode::get followed by finish_lookup = the first match among the leaf's entries *)
Theorem leaf_get_refines : forall l k, ssorted (map e_key (l_entries l)) ->
    option_map entry_value (leaf_get l k) = assoc k (entries_kv (l_entries l)).
Proof.
  intros l k Hs. unfold leaf_get.
  pose proof (binary_search_spec (map e_key (l_entries l)) k Hs) as Hb.
  destruct (binary_search (map e_key (l_entries l)) k) as [i|i].
  - rewrite nth_error_map in Hb. rewrite nthN_nth_error.
    destruct (nth_error (l_entries l) (N.to_nat i)) as [e|] eqn:En; [|discriminate].
    cbn [option_map] in *. injection Hb as <-. unfold entry_value.
    symmetry. eapply assoc_entries_nth; eassumption.
  - cbn [option_map]. symmetry. apply assoc_entries_none. exact Hb.
Qed.

(* ------------------------------------------------------------------------------------------- *)
(* 4. the branch level                                                                           *)

(* what the decoder guarantees about a branch beyond the verdicts: it is not empty, and the
   prefix-compressed separators start with the branch's prefix *)
Definition branch_ok (b : branch) : bool :=
  match b_seps b with [] => false | _ :: _ => true end
  && forallb (fun s => key_eqb (firstn (N.to_nat (b_prefix_len b)) s) (branch_prefix b))
             (firstn (N.to_nat (b_prefix_compressed b)) (b_seps b)).

Lemma branch_ok_seps : forall b, branch_ok b = true -> b_seps b = first_sep b :: tl (b_seps b).
Proof.
  intros b H. unfold branch_ok in H. apply andb_true_iff in H. destruct H as [H _].
  unfold first_sep. destruct (b_seps b); [discriminate|reflexivity].
Qed.

Lemma firstn_length_firstn : forall {A} p (l : list A), firstn (length (firstn p l)) l = firstn p l.
Proof.
  intros A p. induction p as [|p IH]; intros l; [reflexivity|].
  destruct l as [|x l]; [reflexivity|]. cbn [firstn length]. rewrite IH. reflexivity.
Qed.

Lemma nth_error_lt_Some : forall {A} (l : list A) i, (i < length l)%nat -> exists a, nth_error l i = Some a.
Proof.
  intros A l i H. destruct (nth_error l i) as [a|] eqn:E; [exists a; reflexivity|].
  apply nth_error_None in E. lia.
Qed.

Theorem find_key_pos_spec : forall b k, ssorted (b_seps b) -> branch_ok b = true ->
    fkp_spec (b_seps b) k (find_key_pos b k).
Proof.
  intros b k Hs Hok. pose proof (branch_ok_seps b Hok) as Hseps.
  unfold branch_ok in Hok. apply andb_true_iff in Hok. destruct Hok as [_ Hpre].
  rewrite forallb_forall in Hpre.
  assert (Hsearch : fkp_spec (b_seps b) k
                      (fkp_loop (S (length (b_seps b))) (b_seps b) k 0 (branch_n b))).
  { unfold branch_n. pose proof (lenN_length (b_seps b)) as Hl.
    apply fkp_loop_spec.
    - exact Hs.
    - lia.
    - lia.
    - lia.
    - intros i s _ Hi. change (N.to_nat 0) with O in Hi. lia.
    - intros i s Hi Hge. apply nth_error_Some_lt' in Hi. lia. }
  unfold find_key_pos.
  set (P := branch_prefix b) in *. set (q := length P).
  assert (HP : firstn q (first_sep b) = P).
  { unfold q, P, branch_prefix. apply firstn_length_firstn. }
  destruct (key_cmp (firstn q k) P) eqn:Ec; [exact Hsearch| |].
  - (* the key is below the prefix: below the first separator, hence below all *)
    apply key_cmp_Lt in Ec. rewrite <- HP in Ec. apply firstn_ltb in Ec.
    cbn. split; [lia|]. intros i s Hi. split; [lia|]. intros _.
    rewrite Hseps in Hi, Hs. destruct i as [|i]; cbn [nth_error] in Hi.
    + injection Hi as <-. exact Ec.
    + destruct Hs as [Hx _]. eapply key_ltb_trans; [exact Ec|]. apply Hx.
      eapply nth_error_In. exact Hi.
  - destruct (N.eqb_spec (branch_n b) (b_prefix_compressed b)) as [Hn|Hn]; [|exact Hsearch].
    (* the key is above the prefix and every separator carries the prefix: above all *)
    apply key_cmp_Gt in Ec. unfold branch_n in *. pose proof (lenN_length (b_seps b)) as Hl.
    cbn. split; [lia|]. intros i s Hi. split.
    + intros _.
      assert (Hin : In s (firstn (N.to_nat (b_prefix_compressed b)) (b_seps b))).
      { rewrite firstn_all2 by lia. eapply nth_error_In. exact Hi. }
      apply Hpre in Hin. apply key_eqb_true_iff in Hin.
      assert (Hq : firstn q s = P).
      { unfold q. rewrite <- Hin. apply firstn_length_firstn. }
      rewrite <- Hq in Ec. apply firstn_ltb in Ec. exact Ec.
    + intros Hge. apply nth_error_Some_lt' in Hi. lia.
Qed.

Lemma combine_nth_error : forall {A B} (l : list A) (l' : list B) i a b,
    nth_error l i = Some a -> nth_error l' i = Some b -> nth_error (combine l l') i = Some (a, b).
Proof.
  intros A B l. induction l as [|x r IH]; intros l' i a b Ha Hb; [destruct i; discriminate|].
  destruct l' as [|y r']; [destruct i; discriminate|].
  destruct i as [|i]; cbn [nth_error combine] in *.
  - injection Ha as <-. injection Hb as <-. reflexivity.
  - apply IH; assumption.
Qed.

Lemma combine_nth_error_inv : forall {A B} (l : list A) (l' : list B) i a b,
    nth_error (combine l l') i = Some (a, b) -> nth_error l i = Some a /\ nth_error l' i = Some b.
Proof.
  intros A B l. induction l as [|x r IH]; intros l' i a b H; [destruct i; discriminate|].
  destruct l' as [|y r']; [destruct i; discriminate|].
  destruct i as [|i]; cbn [nth_error combine] in *.
  - injection H as <- <-. split; reflexivity.
  - apply IH. exact H.
Qed.

Lemma pick_at : forall {A} (kf : A -> key) (l : list A) i a k,
    nth_error l i = Some a -> key_leb (kf a) k = true ->
    (forall j b, nth_error l j = Some b -> (i < j)%nat -> key_ltb k (kf b) = true) ->
    pick kf l k = Some a.
Proof.
  intros A kf l i a k Hn Hle Hafter.
  destruct (nth_error_split' l i a Hn) as [l1 [l2 [-> Hlen]]].
  apply pick_mid; [exact Hle|].
  intros b Hb. apply In_nth_error in Hb. destruct Hb as [j Hj].
  apply (Hafter (length l1 + S j)%nat b); [|lia].
  rewrite nth_error_app_mid. exact Hj.
Qed.

(* search_branch returns the page of the last separator <= k *)
Theorem search_branch_spec : forall b k, ssorted (b_seps b) -> branch_ok b = true ->
    length (b_seps b) = length (b_lns b) ->
    option_map snd (search_branch b k) = option_map snd (pick fst (branch_refs b) k).
Proof.
  intros b k Hs Hok Hlen. pose proof (find_key_pos_spec b k Hs Hok) as Hspec.
  unfold search_branch. destruct (find_key_pos b k) as [found pos].
  unfold fkp_spec in Hspec. destruct Hspec as [Hpos Hspec]. unfold branch_refs.
  destruct found.
  - (* found at pos *)
    assert (Hlt : (N.to_nat pos < length (b_lns b))%nat).
    { rewrite <- Hlen. eapply nth_error_Some_lt'. exact Hspec. }
    destruct (nth_error_lt_Some _ _ Hlt) as [pn Hpn].
    rewrite nthN_nth_error, Hpn. cbn [option_map snd].
    rewrite (pick_at fst (combine (b_seps b) (b_lns b)) (N.to_nat pos) (k, pn) k).
    + reflexivity.
    + apply combine_nth_error; assumption.
    + cbn [fst]. apply key_leb_iff. left. reflexivity.
    + intros j [s p] Hj Hij. apply combine_nth_error_inv in Hj. destruct Hj as [Hj _]. cbn [fst].
      eapply (ssorted_nth (b_seps b) (N.to_nat pos) j); eassumption.
  - destruct (N.eqb_spec pos 0) as [Hz|Hnz].
    + (* every separator is above k *)
      subst pos. cbn [option_map]. rewrite pick_none; [reflexivity|].
      intros [s p] Hin. cbn [fst]. apply in_combine_l in Hin. apply In_nth_error in Hin.
      destruct Hin as [i Hi]. apply (Hspec i s Hi). change (N.to_nat 0) with O. lia.
    + (* the separator before pos *)
      assert (Hpred : N.to_nat (pos - 1) = (N.to_nat pos - 1)%nat) by lia.
      assert (Hlt : (N.to_nat (pos - 1) < length (b_seps b))%nat) by lia.
      destruct (nth_error_lt_Some _ _ Hlt) as [s Hsn].
      rewrite Hlen in Hlt. destruct (nth_error_lt_Some _ _ Hlt) as [pn Hpn].
      rewrite nthN_nth_error, Hpn. cbn [option_map snd].
      rewrite (pick_at fst (combine (b_seps b) (b_lns b)) (N.to_nat (pos - 1)) (s, pn) k).
      * reflexivity.
      * apply combine_nth_error; assumption.
      * cbn [fst]. apply key_leb_iff. right. apply (Hspec _ _ Hsn). lia.
      * intros j [s' p'] Hj Hij. apply combine_nth_error_inv in Hj. destruct Hj as [Hj _].
        cbn [fst]. apply (Hspec _ _ Hj). lia.
Qed.

(* ------------------------------------------------------------------------------------------- *)
(* 5. the index level                                                                            *)

Lemma ssorted_app_intro : forall l1 l2, ssorted l1 -> ssorted l2 ->
    (forall x y, In x l1 -> In y l2 -> key_ltb x y = true) -> ssorted (l1 ++ l2).
Proof.
  induction l1 as [|a r IH]; intros l2 H1 H2 Hc; [exact H2|]. cbn [app].
  destruct H1 as [Ha Hr]. split.
  - intros x Hx. apply in_app_or in Hx. destruct Hx as [Hx|Hx]; [apply Ha; exact Hx|].
    apply Hc; [left; reflexivity|exact Hx].
  - apply IH; [exact Hr|exact H2|]. intros x y Hx Hy. apply Hc; [right; exact Hx|exact Hy].
Qed.

Definition olist {A} (o : option A) : list A := match o with Some a => [a] | None => [] end.

(* Index::lookup on first separators in ascending order = the last branch whose first separator
   is <= k *)
Lemma index_fold_spec : forall k bs best,
    ssorted (map first_sep (olist best ++ bs)) ->
    fold_left (index_better k) bs best =
    match pick first_sep bs k with Some b => Some b | None => best end.
Proof.
  intros k bs. induction bs as [|b r IH]; intros best Hs; [reflexivity|].
  cbn [fold_left pick].
  rewrite map_app in Hs. apply ssorted_app in Hs. destruct Hs as [Hbest [Hbr Hcross]].
  cbn [map] in Hbr. destruct Hbr as [Hb Hr].
  destruct (key_leb (first_sep b) k) eqn:Hle.
  - assert (Hbetter : index_better k best b = Some b).
    { unfold index_better. rewrite Hle. destruct best as [c|]; [|reflexivity].
      rewrite (Hcross (first_sep c) (first_sep b)); [reflexivity|left; reflexivity|left; reflexivity]. }
    rewrite Hbetter. rewrite IH.
    + destruct (pick first_sep r k); reflexivity.
    + cbn [olist app map]. split; assumption.
  - assert (Hbetter : index_better k best b = best).
    { unfold index_better. rewrite Hle. reflexivity. }
    rewrite Hbetter.
    assert (Hnone : pick first_sep r k = None).
    { apply pick_none. intros a Ha. eapply key_ltb_trans; [apply key_leb_false; exact Hle|].
      apply Hb. apply in_map. exact Ha. }
    rewrite IH.
    + rewrite Hnone. reflexivity.
    + rewrite map_app. apply ssorted_app_intro; [exact Hbest|exact Hr|].
      intros x y Hx Hy. apply Hcross; [exact Hx|right; exact Hy].
Qed.

Lemma index_lookup_spec : forall bs k, ssorted (map first_sep bs) ->
    index_lookup bs k = pick first_sep bs k.
Proof.
  intros bs k Hs. unfold index_lookup. rewrite index_fold_spec by exact Hs.
  destruct (pick first_sep bs k); reflexivity.
Qed.

(* the conditions on the branch list under which the search is correct *)
Record branches_ok (bs : list branch) : Prop := {
  bo_sorted : ssorted (flat_map b_seps bs);
  bo_branch : forall b, In b bs -> branch_ok b = true;
  bo_len : forall b, In b bs -> length (b_seps b) = length (b_lns b)
}.

Lemma branches_ok_cons : forall b r, branches_ok (b :: r) ->
    branch_ok b = true /\ length (b_seps b) = length (b_lns b) /\ ssorted (b_seps b) /\
    branches_ok r /\
    (forall x b', In x (b_seps b) -> In b' r -> key_ltb x (first_sep b') = true).
Proof.
  intros b r [Hs Hb Hl]. cbn [flat_map] in Hs. apply ssorted_app in Hs.
  destruct Hs as [Hsb [Hsr Hcross]].
  split; [apply Hb; left; reflexivity|]. split; [apply Hl; left; reflexivity|].
  split; [exact Hsb|]. split.
  - constructor; [exact Hsr| |]; intros b' Hb'; [apply Hb|apply Hl]; right; exact Hb'.
  - intros x b' Hx Hb'. apply Hcross; [exact Hx|]. apply in_flat_map. exists b'. split; [exact Hb'|].
    rewrite (branch_ok_seps b'); [left; reflexivity|]. apply Hb. right. exact Hb'.
Qed.

Lemma branches_ok_first_seps : forall bs, branches_ok bs -> ssorted (map first_sep bs).
Proof.
  induction bs as [|b r IH]; intros H; [exact I|].
  destruct (branches_ok_cons b r H) as [Hok [_ [_ [Hr Hcross]]]]. cbn [map]. split; [|apply IH; exact Hr].
  intros x Hx. apply in_map_iff in Hx. destruct Hx as [b' [<- Hb']].
  apply Hcross; [|exact Hb']. rewrite (branch_ok_seps b Hok). left. reflexivity.
Qed.

(* a branch whose first separator is <= k has a reference <= k *)
Lemma pick_refs_some : forall b k, branch_ok b = true -> length (b_seps b) = length (b_lns b) ->
    key_leb (first_sep b) k = true -> pick fst (branch_refs b) k <> None.
Proof.
  intros b k Hok Hlen Hle Hnone. unfold branch_refs in Hnone.
  rewrite (branch_ok_seps b Hok) in Hnone, Hlen.
  destruct (b_lns b) as [|pn lns]; [discriminate|]. cbn [combine] in Hnone.
  pose proof (pick_none_inv fst _ k Hnone (first_sep b, pn) (or_introl eq_refl)) as Hlt.
  cbn [fst] in Hlt. unfold key_leb in Hle. rewrite Hlt in Hle. discriminate.
Qed.

(* a branch whose first separator is above k has no reference <= k *)
Lemma pick_refs_none : forall b k, branch_ok b = true -> ssorted (b_seps b) ->
    key_leb (first_sep b) k = false -> pick fst (branch_refs b) k = None.
Proof.
  intros b k Hok Hs Hle. apply key_leb_false in Hle. apply pick_none.
  intros [s p] Hin. cbn [fst]. unfold branch_refs in Hin. apply in_combine_l in Hin.
  rewrite (branch_ok_seps b Hok) in Hin, Hs. destruct Hs as [Hx _].
  destruct Hin as [<-|Hin]; [exact Hle|]. eapply key_ltb_trans; [exact Hle|]. apply Hx. exact Hin.
Qed.

(* the last reference <= k of the whole tree lies in the last branch whose first separator is <= k *)
Lemma pick_refs_flat : forall bs k, branches_ok bs ->
    pick fst (flat_map branch_refs bs) k =
    match pick first_sep bs k with None => None | Some b => pick fst (branch_refs b) k end.
Proof.
  induction bs as [|b r IH]; intros k H; [reflexivity|].
  destruct (branches_ok_cons b r H) as [Hok [Hlen [Hsb [Hr _]]]].
  cbn [flat_map pick]. rewrite pick_app. rewrite (IH k Hr).
  destruct (pick first_sep r k) as [b'|] eqn:Ep.
  - apply pick_In in Ep. destruct Ep as [Hin Hle].
    destruct (pick fst (branch_refs b') k) eqn:Er; [reflexivity|].
    exfalso. revert Er. apply pick_refs_some; [apply (bo_branch r Hr); exact Hin| |exact Hle].
    apply (bo_len r Hr). exact Hin.
  - destruct (key_leb (first_sep b) k) eqn:Hle; [reflexivity|].
    apply pick_refs_none; assumption.
Qed.

(* partial_lookup returns the page of the last reference <= k *)
Theorem partial_lookup_spec : forall bs k, branches_ok bs ->
    partial_lookup bs k = option_map snd (pick fst (flat_map branch_refs bs) k).
Proof.
  intros bs k H. unfold partial_lookup.
  rewrite (index_lookup_spec bs k (branches_ok_first_seps bs H)).
  rewrite (pick_refs_flat bs k H).
  destruct (pick first_sep bs k) as [b|] eqn:Ep; [|reflexivity].
  apply pick_In in Ep. destruct Ep as [Hin _].
  apply search_branch_spec.
  - destruct H as [Hs _ _]. clear -Hs Hin. induction bs as [|c r IH]; [destruct Hin|].
    cbn [flat_map] in Hs. apply ssorted_app in Hs. destruct Hs as [Hc [Hr _]].
    destruct Hin as [<-|Hin]; [exact Hc|apply IH; assumption].
  - apply (bo_branch bs H). exact Hin.
  - apply (bo_len bs H). exact Hin.
Qed.

(* ------------------------------------------------------------------------------------------- *)
(* 6. leaves_in_range: the abstraction restricted to the chosen leaf                             *)

Lemma passes_None : forall v, passes v = true -> v = None.
Proof. intros [e|] H; [discriminate|reflexivity]. Qed.

Lemma first_fail_None : forall a b, first_fail a b = None -> a = None /\ b = None.
Proof. intros [e|] b H; [discriminate|]. split; [reflexivity|exact H]. Qed.

Lemma vall_None : forall {A} (f : A -> verdict) l, vall f l = None -> forall a, In a l -> f a = None.
Proof.
  intros A f l. induction l as [|x r IH]; intros H a Ha; [destruct Ha|]. cbn [vall] in H.
  destruct (f x) eqn:E; [discriminate|]. destruct Ha as [<-|Ha]; [exact E|apply IH; assumption].
Qed.

Lemma vguard_None : forall b c x y, vguard b c x y = None -> b = true.
Proof. intros [|] c x y H; [reflexivity|discriminate]. Qed.

Lemma leaf_in_range_inv : forall l next, leaf_in_range l next = None ->
    ssorted (map e_key (l_entries l)) /\
    (forall e, In e (l_entries l) -> key_leb (l_sep l) (e_key e) = true) /\
    (forall nx, next = Some nx -> forall e, In e (l_entries l) -> key_ltb (e_key e) nx = true).
Proof.
  intros l next H. unfold leaf_in_range in H.
  apply first_fail_None in H. destruct H as [Hasc H].
  apply first_fail_None in H. destruct H as [Hlow Hup].
  split; [apply sorted_keys_ssorted; eapply keys_ascending_sorted; exact Hasc|]. split.
  - intros e He. eapply vguard_None. apply (vall_None _ _ Hlow (e_key e)). apply in_map. exact He.
  - intros nx -> e He. eapply vguard_None. apply (vall_None _ _ Hup (e_key e)). apply in_map. exact He.
Qed.

Definition leaf_kv (l : leaf) : list (key * list N) := entries_kv (l_entries l).

Lemma abs_flat : forall img, abs img = flat_map leaf_kv (i_leaves img).
Proof.
  intros img. unfold abs, entries. induction (i_leaves img) as [|l r IH]; [reflexivity|].
  cbn [flat_map]. rewrite map_app, IH. reflexivity.
Qed.

Lemma assoc_leaf_none : forall l k, (forall e, In e (l_entries l) -> e_key e <> k) -> assoc k (leaf_kv l) = None.
Proof.
  intros l k H. apply assoc_entries_none. intros Hin. apply in_map_iff in Hin.
  destruct Hin as [e [He Hi]]. apply (H e Hi He).
Qed.

(* "the leaf chosen by the search is the unique leaf whose range contains k" *)
Theorem leaves_in_range_pick : forall ls k,
    leaves_in_range ls = None -> ssorted (map l_sep ls) ->
    assoc k (flat_map leaf_kv ls) =
    match pick l_sep ls k with None => None | Some l => assoc k (leaf_kv l) end.
Proof.
  induction ls as [|l r IH]; intros k Hr Hs; [reflexivity|].
  cbn [leaves_in_range] in Hr. apply first_fail_None in Hr. destruct Hr as [Hl Hrr].
  cbn [map] in Hs. destruct Hs as [Hsl Hsr].
  apply leaf_in_range_inv in Hl. destruct Hl as [_ [Hlow Hup]].
  cbn [flat_map pick]. rewrite assoc_app. rewrite (IH k Hrr Hsr).
  destruct (pick l_sep r k) as [l'|] eqn:Ep.
  - (* a later leaf starts at or below k: every key of this leaf is below k *)
    apply pick_In in Ep. destruct Ep as [Hin Hle].
    rewrite assoc_leaf_none; [reflexivity|].
    intros e He Heq. destruct r as [|l1 r']; [destruct Hin|].
    specialize (Hup (l_sep l1) eq_refl e He). rewrite Heq in Hup.
    assert (Hl1 : key_leb (l_sep l1) (l_sep l') = true).
    { apply key_leb_iff. destruct Hin as [->|Hin]; [left; reflexivity|right].
      cbn [map] in Hsr. destruct Hsr as [Hx _]. apply Hx. apply in_map. exact Hin. }
    assert (Hcontra : key_ltb k k = true).
    { eapply key_ltb_leb_trans; [exact Hup|]. apply key_leb_iff.
      apply key_leb_iff in Hl1. apply key_leb_iff in Hle.
      destruct Hl1 as [->|Hl1]; [exact Hle|]. destruct Hle as [<-|Hle]; [right; exact Hl1|].
      right. eapply key_ltb_trans; eassumption. }
    rewrite key_ltb_irrefl in Hcontra. discriminate.
  - destruct (key_leb (l_sep l) k) eqn:Hle.
    + destruct (assoc k (leaf_kv l)); reflexivity.
    + (* k is below this leaf's separator *)
      rewrite assoc_leaf_none; [reflexivity|].
      intros e He Heq. specialize (Hlow e He). rewrite Heq in Hlow. congruence.
Qed.

(* ------------------------------------------------------------------------------------------- *)
(* 7. what decode_image guarantees beyond the verdicts                                           *)

Definition leaf_ref (l : leaf) : key * N := (l_sep l, l_pn l).

Record decoded_ok (img : image) : Prop := {
  do_branches : forall b, In b (i_branches img) -> branch_ok b = true;
  do_leaves : map leaf_ref (i_leaves img) = flat_map branch_refs (i_branches img)
}.

Lemma bind_Ok : forall {A B} (r : res A) (f : A -> res B) b,
    bind r f = Ok b -> exists a, r = Ok a /\ f a = Ok b.
Proof. intros A B [a|c x y] f b H; [exists a; split; [reflexivity|exact H]|discriminate]. Qed.

Ltac bind_inv H :=
  let a := fresh "a" in
  let E := fresh "E" in
  apply bind_Ok in H; destruct H as [a [E H]]; cbv beta zeta in H.

Lemma guard_Ok : forall b c x y u, guard b c x y = Ok u -> b = true.
Proof. intros [|] c x y u H; [reflexivity|discriminate]. Qed.

Lemma need_Ok : forall {A} (o : option A) c x y a, need o c x y = Ok a -> o = Some a.
Proof. intros A [v|] c x y a H; [injection H as ->; reflexivity|discriminate]. Qed.

(* leaves *)
Lemma decode_leaf_ref : forall rd lpn sep pg l, decode_leaf rd lpn sep pg = Ok l -> leaf_ref l = (sep, lpn).
Proof.
  intros rd lpn sep pg l H. unfold decode_leaf in H.
  bind_inv H. bind_inv H. bind_inv H. bind_inv H. bind_inv H.
  injection H as <-. reflexivity.
Qed.

Lemma read_leaf_ref : forall rd ref l, read_leaf rd ref = Ok l -> leaf_ref l = ref.
Proof.
  intros rd [sep pn] l H. unfold read_leaf in H. bind_inv H. cbn [fst snd] in H.
  apply decode_leaf_ref in H. exact H.
Qed.

Lemma mapM_Ok_map : forall {A B} (f : A -> res B) (g : B -> A) l l',
    (forall a b, f a = Ok b -> g b = a) -> mapM f l = Ok l' -> map g l' = l.
Proof.
  intros A B f g l. induction l as [|a r IH]; intros l' Hfg H; cbn [mapM] in H.
  - injection H as <-. reflexivity.
  - bind_inv H. bind_inv H. injection H as <-. cbn [map].
    rewrite (Hfg _ _ E). rewrite (IH _ Hfg E0). reflexivity.
Qed.

(* branches *)
Lemma split_seps_prefix : forall pn cells i prev pc prefix bits seps,
    split_seps pn cells i prev pc prefix bits = Ok seps ->
    forall j s, nth_error seps j = Some s -> i + N.of_nat j < pc -> firstn (length prefix) s = prefix.
Proof.
  intros pn cells. induction cells as [|c cs IH]; intros i prev pc prefix bits seps H j s Hj Hlt;
    cbn [split_seps] in H.
  - injection H as <-. destruct j; discriminate.
  - bind_inv H. bind_inv H. bind_inv H. bind_inv H. injection H as <-.
    destruct j as [|j]; cbn [nth_error] in Hj.
    + injection Hj as <-.
      assert (Hi : (i <? pc) = true) by (apply N.ltb_lt; lia). rewrite Hi.
      unfold pad256. rewrite <- app_assoc. rewrite firstn_app, Nat.sub_diag, firstn_all, firstn_O.
      apply app_nil_r.
    + eapply IH; [eassumption|exact Hj|lia].
Qed.

Lemma split_seps_nonempty : forall pn c cs i prev pc prefix bits seps,
    split_seps pn (c :: cs) i prev pc prefix bits = Ok seps -> seps <> [].
Proof.
  intros pn c cs i prev pc prefix bits seps H. cbn [split_seps] in H.
  bind_inv H. bind_inv H. bind_inv H. bind_inv H. injection H as <-. discriminate.
Qed.

Lemma In_firstn_nth : forall {A} m (l : list A) a, In a (firstn m l) ->
    exists j, (j < m)%nat /\ nth_error l j = Some a.
Proof.
  intros A m. induction m as [|m IH]; intros l a H; [destruct H|].
  destruct l as [|x r]; [destruct H|]. cbn [firstn] in H. destruct H as [<-|H].
  - exists O. split; [lia|reflexivity].
  - destruct (IH r a H) as [j [Hj Hn]]. exists (S j). split; [lia|exact Hn].
Qed.

Lemma u16s_nonempty : forall l, 2 <= lenN l -> u16s l <> [].
Proof.
  intros l H. rewrite lenN_length in H.
  destruct l as [|a [|b r]]; cbn [length] in H; try lia. cbn [u16s]. discriminate.
Qed.

Theorem decode_branch_ok : forall pn pg b, decode_branch pn pg = Ok b -> branch_ok b = true.
Proof.
  intros pn pg b H. unfold decode_branch in H.
  bind_inv H. bind_inv H. bind_inv H. bind_inv H. bind_inv H. bind_inv H. bind_inv H. bind_inv H.
  bind_inv H. bind_inv H. bind_inv H. injection H as <-.
  rename a0 into n, a1 into pc, a2 into plen, a4 into rawcells, a7 into pf, a8 into seps.
  apply guard_Ok in E3. repeat (apply andb_true_iff in E3; destruct E3 as [E3 ?]).
  apply N.leb_le in E3.
  apply need_Ok in E4. apply sliceN_length in E4.
  apply need_Ok in E7. destruct pf as [prefix rest]. apply split_exact_length in E7. cbn [fst snd] in E8.
  unfold branch_ok, branch_prefix, first_sep. cbn [b_seps b_prefix_len b_prefix_compressed].
  assert (Hne : seps <> []).
  { destruct (u16s rawcells) as [|c cs] eqn:Ec.
    - exfalso. revert Ec. apply u16s_nonempty. lia.
    - eapply split_seps_nonempty. exact E8. }
  destruct seps as [|s0 seps']; [congruence|]. cbn [hd andb].
  apply forallb_forall. intros s Hs. apply In_firstn_nth in Hs. destruct Hs as [j [Hj Hn]].
  apply key_eqb_true_iff. rewrite <- E7.
  rewrite (split_seps_prefix _ _ _ _ _ _ _ _ E8 j s Hn) by lia.
  rewrite (split_seps_prefix _ _ _ _ _ _ _ _ E8 O s0 eq_refl) by lia.
  reflexivity.
Qed.

Lemma scan_branches_ok : forall fuel rd tracked pn bump bs,
    scan_branches fuel rd tracked pn bump = Ok bs -> forall b, In b bs -> branch_ok b = true.
Proof.
  induction fuel as [|f IH]; intros rd tracked pn bump bs H b Hb; cbn [scan_branches] in H.
  - injection H as <-. destruct Hb.
  - destruct (bump <=? pn); [injection H as <-; destruct Hb|].
    bind_inv H. destruct (nmem pn tracked || all_zero a).
    + eapply IH; eassumption.
    + bind_inv H. bind_inv H. injection H as <-. destruct Hb as [<-|Hb].
      * eapply decode_branch_ok. exact E0.
      * eapply IH; eassumption.
Qed.

Lemma insert_branch_In : forall x l b, In b (insert_branch x l) -> b = x \/ In b l.
Proof.
  intros x l. induction l as [|c r IH]; intros b H; cbn [insert_branch] in H.
  - destruct H as [<-|[]]. left. reflexivity.
  - destruct (key_ltb (first_sep x) (first_sep c)).
    + destruct H as [<-|H]; [left; reflexivity|right; exact H].
    + destruct H as [<-|H]; [right; left; reflexivity|].
      destruct (IH b H) as [->|Hr]; [left; reflexivity|right; right; exact Hr].
Qed.

Lemma sort_branches_In : forall l b, In b (sort_branches l) -> In b l.
Proof.
  induction l as [|x r IH]; intros b H; [destruct H|]. unfold sort_branches in H. cbn [fold_right] in H.
  apply insert_branch_In in H. destruct H as [->|H]; [left; reflexivity|right; apply IH; exact H].
Qed.

(* every successfully decoded image *)
Theorem decode_image_ok : forall fs img, decode_image fs = Ok img -> decoded_ok img.
Proof.
  intros fs img H. unfold decode_image in H.
  bind_inv H. bind_inv H. bind_inv H. bind_inv H. bind_inv H. bind_inv H. bind_inv H. bind_inv H.
  bind_inv H. injection H as <-. constructor; cbn [i_branches i_leaves].
  - intros b Hb. apply sort_branches_In in Hb. eapply scan_branches_ok; eassumption.
  - eapply mapM_Ok_map; [|eassumption]. intros rf lf. apply read_leaf_ref.
Qed.

(* ------------------------------------------------------------------------------------------- *)
(* 8. the theorem                                                                                *)

Lemma seps_ascending_sorted : forall ks i, seps_ascending ks i = None -> sorted_keys ks = true.
Proof.
  induction ks as [|k r IH]; intros i H; [reflexivity|].
  destruct r as [|k' r']; [reflexivity|].
  cbn [seps_ascending] in H. apply first_fail_None in H. destruct H as [H1 H2].
  apply vguard_None in H1. cbn [sorted_keys]. rewrite H1. cbn [andb]. eapply IH. exact H2.
Qed.

Lemma wf_branches_inv : forall img, wf_branches img = true ->
    ssorted (flat_map b_seps (i_branches img)) /\
    forall b, In b (i_branches img) -> length (b_seps b) = length (b_lns b).
Proof.
  intros img H. unfold wf_branches in H. apply passes_None in H. unfold wf_branches_v in H.
  apply first_fail_None in H. destruct H as [_ H].
  apply first_fail_None in H. destruct H as [Hlen H].
  apply first_fail_None in H. destruct H as [Hasc _].
  split.
  - apply sorted_keys_ssorted. eapply seps_ascending_sorted. exact Hasc.
  - intros b Hb. pose proof (vall_None _ _ Hlen b Hb) as Hv. apply vguard_None in Hv.
    apply N.eqb_eq in Hv. rewrite !lenN_length in Hv. lia.
Qed.

Lemma map_fst_combine : forall {A B} (l : list A) (l' : list B),
    length l = length l' -> map fst (combine l l') = l.
Proof.
  intros A B l. induction l as [|a r IH]; intros l' H; [reflexivity|].
  destruct l' as [|b r']; [discriminate|]. cbn [combine map fst]. rewrite IH; [reflexivity|].
  cbn [length] in H. lia.
Qed.

Lemma refs_seps : forall bs, (forall b, In b bs -> length (b_seps b) = length (b_lns b)) ->
    map fst (flat_map branch_refs bs) = flat_map b_seps bs.
Proof.
  induction bs as [|b r IH]; intros H; [reflexivity|]. cbn [flat_map]. rewrite map_app.
  unfold branch_refs at 1. rewrite map_fst_combine by (apply H; left; reflexivity).
  rewrite IH; [reflexivity|]. intros b' Hb'. apply H. right. exact Hb'.
Qed.

Lemma NoDup_app_l : forall {A} (l l' : list A), NoDup (l ++ l') -> NoDup l.
Proof.
  intros A l. induction l as [|a r IH]; intros l' H; [constructor|]. cbn [app] in H.
  inversion H as [|x xs Hnot Hnd]; subst. constructor.
  - intros Hin. apply Hnot. apply in_or_app. left. exact Hin.
  - eapply IH. exact Hnd.
Qed.

Lemma find_leaf_In : forall ls l, NoDup (map l_pn ls) -> In l ls -> find_leaf ls (l_pn l) = Some l.
Proof.
  unfold find_leaf. induction ls as [|x r IH]; intros l Hnd Hin; [destruct Hin|].
  cbn [map] in Hnd. inversion Hnd as [|y ys Hnot Hnd']; subst. cbn [find].
  destruct (N.eqb_spec (l_pn x) (l_pn l)) as [Heq|Hne].
  - destruct Hin as [->|Hin]; [reflexivity|]. exfalso. apply Hnot. rewrite Heq. apply in_map. exact Hin.
  - destruct Hin as [->|Hin]; [congruence|]. apply IH; assumption.
Qed.

Lemma leaves_in_range_In : forall ls l, leaves_in_range ls = None -> In l ls ->
    ssorted (map e_key (l_entries l)).
Proof.
  induction ls as [|x r IH]; intros l H Hin; [destruct Hin|].
  cbn [leaves_in_range] in H. apply first_fail_None in H. destruct H as [Hx Hr].
  destruct Hin as [<-|Hin]; [|apply IH; assumption].
  apply leaf_in_range_inv in Hx. exact (proj1 Hx).
Qed.

(* the general form: any image that has the two decoder-guaranteed properties *)
Theorem readpath_refines_gen : forall img,
    decoded_ok img ->
    wf_leaf_order img = true -> wf_branches img = true -> passes (wf_pages_ln_v img) = true ->
    forall k, lookup img k = assoc k (abs img).
Proof.
  intros img [Hbok Hrefs] Hlo Hbr Hpg k.
  destruct (wf_branches_inv img Hbr) as [Hsorted Hlens].
  assert (Hbs : branches_ok (i_branches img)) by (constructor; assumption).
  assert (Hrange : leaves_in_range (i_leaves img) = None).
  { unfold wf_leaf_order in Hlo. apply passes_None in Hlo. unfold wf_leaf_order_v in Hlo.
    apply first_fail_None in Hlo. exact (proj2 Hlo). }
  assert (Hlsep : ssorted (map l_sep (i_leaves img))).
  { replace (map l_sep (i_leaves img)) with (map fst (map leaf_ref (i_leaves img)))
      by (rewrite map_map; reflexivity).
    rewrite Hrefs, refs_seps by exact Hlens. exact Hsorted. }
  assert (Hnd : NoDup (map l_pn (i_leaves img))).
  { apply passes_None in Hpg. unfold wf_pages_ln_v in Hpg. apply pages_exact_sound in Hpg.
    destruct Hpg as [Hnd _]. unfold ln_pages in Hnd. eapply NoDup_app_l. exact Hnd. }
  rewrite abs_flat, (leaves_in_range_pick _ k Hrange Hlsep).
  unfold lookup. rewrite (partial_lookup_spec _ k Hbs), <- Hrefs, pick_map.
  change (fun a : leaf => fst (leaf_ref a)) with l_sep.
  destruct (pick l_sep (i_leaves img) k) as [l|] eqn:Ep; cbn [option_map]; [|reflexivity].
  apply pick_In in Ep. destruct Ep as [Hin _]. cbn [leaf_ref snd].
  rewrite (find_leaf_In _ l Hnd Hin).
  apply leaf_get_refines. eapply leaves_in_range_In; eassumption.
Qed.

(* C16, readpath_refines: on every image that decodes and passes the leaf-order, branch and
   leaf-page accounting verdicts, NOMT's read path returns exactly what the abstraction holds -
   for every key (in particular every 256-bit key) *)
Theorem readpath_refines : forall fs img,
    decode_image fs = Ok img ->
    wf_leaf_order img = true -> wf_branches img = true -> passes (wf_pages_ln_v img) = true ->
    forall k, lookup img k = assoc k (abs img).
Proof.
  intros fs img Hdec. apply readpath_refines_gen. eapply decode_image_ok. exact Hdec.
Qed.

(* the same under the conjunction of all clauses *)
Corollary readpath_refines_WF : forall fs hash_of xxh img,
    decode_image fs = Ok img -> WF hash_of xxh img = true ->
    forall k, lookup img k = assoc k (abs img).
Proof.
  intros fs hash_of xxh img Hdec Hwf. rewrite WF_clauses in Hwf.
  repeat (apply andb_true_iff in Hwf; let H := fresh "H" in destruct Hwf as [H Hwf]).
  eapply readpath_refines; eassumption.
Qed.

(* a key below the first separator of every branch: Index::lookup finds no branch and the read
   returns None without touching a leaf (ops/mod.rs:29-33); no verdict is needed for that.  Under
   the verdicts such a key is indeed absent (and, the first separator of a well-formed image being
   the zero key, no 256-bit key is in that position unless the store is empty) *)
Theorem lookup_absent_below_first : forall img k,
    (forall b, In b (i_branches img) -> key_ltb k (first_sep b) = true) ->
    lookup img k = None /\ lookup_trace img k = TNoBranch.
Proof.
  intros img k H.
  assert (Hidx : index_lookup (i_branches img) k = None).
  { unfold index_lookup. generalize (i_branches img) H. intros bs. induction bs as [|b r IH]; intros Hb.
    - reflexivity.
    - cbn [fold_left]. unfold index_better at 2.
      rewrite key_ltb_not_leb by (apply Hb; left; reflexivity).
      apply IH. intros b' Hb'. apply Hb. right. exact Hb'. }
  unfold lookup, partial_lookup, lookup_trace. rewrite Hidx. split; reflexivity.
Qed.

Corollary absent_below_first : forall fs img k,
    decode_image fs = Ok img ->
    wf_leaf_order img = true -> wf_branches img = true -> passes (wf_pages_ln_v img) = true ->
    (forall b, In b (i_branches img) -> key_ltb k (first_sep b) = true) ->
    assoc k (abs img) = None.
Proof.
  intros fs img k Hdec H1 H2 H3 Hb.
  rewrite <- (readpath_refines fs img Hdec H1 H2 H3 k).
  exact (proj1 (lookup_absent_below_first img k Hb)).
Qed.

(* the trace the driver prints carries the same answer *)
Lemma lookup_trace_value : forall img k, trace_value (lookup_trace img k) = lookup img k.
Proof.
  intros img k. unfold lookup, partial_lookup, lookup_trace.
  destruct (index_lookup (i_branches img) k) as [b|]; [|reflexivity].
  destruct (search_branch b k) as [[i pn]|]; [|reflexivity]. cbn [option_map snd].
  destruct (find_leaf (i_leaves img) pn) as [l|]; [|reflexivity].
  destruct (leaf_get l k); reflexivity.
Qed.

(* non-vacuity: the hand-made store of ReadPath.v decodes and satisfies every hypothesis *)
Example readpath_refines_applies :
  match decode_image ex_files with
  | Ok img => wf_leaf_order img && wf_branches img && passes (wf_pages_ln_v img)
              && negb (lenN (abs img) =? 0)
  | Err _ _ _ => false
  end = true.
Proof. vm_compute. reflexivity. Qed.
