(* C17 / C04 for the rollback log: the write discipline of nomt/src/seglog/mod.rs and
   nomt/src/rollback/mod.rs over a model of a DIRECTORY of append-only segment files under power loss.

   What the code does.  Every commit appends one record (the reverse delta) to the head segment
   `rollback.<10 digits>.log`:  SegmentedLog::append = [create_segment when the head is full]
   write_header, write_payload (+ set_len to the next 4 KiB boundary), fdatasync of the segment, and -
   when a segment was created - fsync of the directory (seglog/mod.rs:193-228).  All of this happens
   before the manifest (meta page) is written; the manifest stores the live range
   [rollback_start_live, rollback_end_live] of record ids.  Only after the manifest is durable
   (store/sync.rs:81 post_meta -> Rollback::writeout_end) are segments unlinked whose records are all
   older than the new start (prune_oldest, no directory fsync) and, after a rollback, are the newer
   segments unlinked, the directory fsynced and the new head cut behind the new end + fdatasync
   (prune_recent).  seglog::open must find every record of the manifest's range.

   Units.  Records are 4 KiB aligned and occupy whole 4 KiB blocks (RECORD_ALIGNMENT); offsets and
   lengths of this model are in blocks.  A block holds a tag (rid, k) = "block k of the record with
   id rid", (0,0) = nothing / zeros / foreign data.  Record ids start at 1 (0 = nil, as in the code).

   Fault model (power loss), at least as adversarial as "unsynced appended data may be partially there,
   unsynced creations may be lost, unsynced unlinks may be undone":
   * file DATA: per file (inode) a durable block map and the list of block operations issued since the
     last fsync/fdatasync of that file.  An append of a record of n blocks is n independent pending
     block writes.  A power loss keeps the durable blocks plus ANY SUBSET of the pending operations
     (applied in issue order): in particular any prefix of an append (the "durable length anywhere
     between synced and written length" model), but also holes in the middle of it, a lost shrinking
     truncation with a surviving later append, and so on.  fsync of the file makes all of them durable.
     I chose the subset model over the prefix model because it contains it, it is what SyncProto.v uses
     for the other files, and the theorem does not need more: nothing durable is ever overwritten.
   * DIRECTORY entries: per file name the durable entry (absent / generation g of that name) and the
     list of pending directory operations on that name (create generation g, unlink).  A power loss keeps
     ANY SUBSET of them, independently per name and independently of the file data (so a file's data may be
     durable while its directory entry is not: the file is then absent).  fsync of the DIRECTORY makes all
     pending directory operations of all names durable; fsync of a FILE does not make its entry durable.
     (Journalling file systems order directory operations; the model does not assume that.)
   * creating a name again after unlinking it gives a NEW file (generation): data written to the new
     generation never shows up under a surviving old one.  Operations through a name act on the
     generation the name currently denotes in the page-cache view.
   * the manifest: old until written, either between write and fsync, new afterwards ([d_meta]; the image
     carries which one it holds, [i_new]).

   [rb_recover recs (s,e) img]: every record s..e has a placement in [recs], the placements are in
   consecutive order (each record right behind its predecessor in the same segment, or at offset 0 of a
   later segment) and every block of every one of them is in the image under its segment's name.
   [rb_discipline I d0 tr]: the executable monitor evaluated on the real traces.
   Stdlib only; everything here is executable and extracted (coq/extract/Extract.v). *)
From Coq Require Import List Bool Arith NArith Lia.
Import ListNotations.

(* ---- blocks and files ------------------------------------------------------------------- *)
Definition blk := (N * N)%type.                    (* (record id, index of the block in the record) *)
Definition blk0 : blk := (0%N, 0%N).
Definition blk_eqb (a b : blk) : bool := N.eqb (fst a) (fst b) && N.eqb (snd a) (snd b).

Inductive cop :=
| CWrite (b : N) (t : blk)                         (* block b := t *)
| CTrunc (len : N).                                (* resize to len blocks (cuts the blocks >= len) *)

Record fstate := { fdur : list (N * blk); fpend : list cop }.
Definition fempty : fstate := {| fdur := []; fpend := [] |}.

Fixpoint pm_get (m : list (N * blk)) (b : N) : blk :=
  match m with
  | [] => blk0
  | (p, t) :: m' => if N.eqb p b then t else pm_get m' b
  end.

Definition apply_cop (m : list (N * blk)) (o : cop) : list (N * blk) :=
  match o with
  | CWrite b t => (b, t) :: m
  | CTrunc len => filter (fun x => N.ltb (fst x) len) m
  end.

(* [keep] selects which pending operations survive *)
Fixpoint sel {A} (keep : list bool) (l : list A) : list A :=
  match keep, l with
  | true :: k, x :: l' => x :: sel k l'
  | false :: k, _ :: l' => sel k l'
  | _, _ => []
  end.

Definition file_image (f : fstate) (keep : list bool) : N -> blk :=
  pm_get (fold_left apply_cop (sel keep (fpend f)) (fdur f)).

Fixpoint seqN (start : N) (n : nat) : list N :=
  match n with
  | O => []
  | S k => start :: seqN (N.succ start) k
  end.

(* ---- names (directory entries) ------------------------------------------------------------ *)
Inductive dop := DCreate (g : N) | DUnlink.

Definition apply_dop (e : option N) (o : dop) : option N :=
  match o with DCreate g => Some g | DUnlink => None end.

Record nstate := {
  n_dur : option N;                 (* durable directory entry: which generation, if any *)
  n_dpend : list dop;               (* directory operations on this name since the last directory fsync *)
  n_files : list (N * fstate);      (* the files this name has denoted, by generation *)
  n_next : N                        (* next generation *)
}.
Definition nempty : nstate := {| n_dur := None; n_dpend := []; n_files := []; n_next := 0%N |}.

Definition n_cur (st : nstate) : option N := fold_left apply_dop (n_dpend st) (n_dur st).

Definition gfile (st : nstate) (g : N) : fstate :=
  match find (fun x => N.eqb (fst x) g) (n_files st) with
  | Some (_, f) => f
  | None => fempty
  end.

Fixpoint gset (l : list (N * fstate)) (g : N) (f : fstate) : list (N * fstate) :=
  match l with
  | [] => [(g, f)]
  | (h, x) :: l' => if N.eqb h g then (g, f) :: l' else (h, x) :: gset l' g f
  end.

Definition on_cur (st : nstate) (F : fstate -> fstate) : nstate :=
  match n_cur st with
  | Some g => {| n_dur := n_dur st; n_dpend := n_dpend st;
                 n_files := gset (n_files st) g (F (gfile st g)); n_next := n_next st |}
  | None => st
  end.

(* ---- events --------------------------------------------------------------------------------- *)
Inductive ev :=
| ECreate (seg : N)                      (* open(O_CREAT|O_EXCL) of segment seg returned *)
| EAppend (seg off rid len : N)          (* record rid written to blocks [off, off+len) of seg *)
| ETrunc (seg len : N)                   (* ftruncate of seg to len blocks returned *)
| ESync (seg : N)                        (* fsync / fdatasync of seg returned *)
| EDirSync                               (* fsync / fdatasync of the directory returned *)
| EUnlink (seg : N)                      (* unlink of seg returned *)
| EMetaWrite (s e : N)                   (* manifest written with live range [s, e] *)
| EMetaSync.                             (* manifest fsync returned *)

Definition ev_seg (e : ev) : option N :=
  match e with
  | ECreate s | EAppend s _ _ _ | ETrunc s _ | ESync s | EUnlink s => Some s
  | _ => None
  end.

Definition nstep (st : nstate) (e : ev) : nstate :=
  match e with
  | ECreate _ =>
      {| n_dur := n_dur st; n_dpend := n_dpend st ++ [DCreate (n_next st)];
         n_files := gset (n_files st) (n_next st) fempty; n_next := N.succ (n_next st) |}
  | EAppend _ off rid len =>
      on_cur st (fun f => {| fdur := fdur f;
                             fpend := fpend f ++ map (fun k => CWrite (off + k) (rid, k)) (seqN 0 (N.to_nat len)) |})
  | ETrunc _ len => on_cur st (fun f => {| fdur := fdur f; fpend := fpend f ++ [CTrunc len] |})
  | ESync _ => on_cur st (fun f => {| fdur := fold_left apply_cop (fpend f) (fdur f); fpend := [] |})
  | EUnlink _ =>
      {| n_dur := n_dur st; n_dpend := n_dpend st ++ [DUnlink]; n_files := n_files st; n_next := n_next st |}
  | EDirSync =>
      {| n_dur := n_cur st; n_dpend := []; n_files := n_files st; n_next := n_next st |}
  | _ => st
  end.

Inductive mstate := MOld | MPend | MNew.

Record disk := { d_names : list (N * nstate); d_meta : mstate }.
Definition dempty : disk := {| d_names := []; d_meta := MOld |}.

Definition nget (d : disk) (s : N) : nstate :=
  match find (fun x => N.eqb (fst x) s) (d_names d) with
  | Some (_, st) => st
  | None => nempty
  end.

Fixpoint nset (l : list (N * nstate)) (s : N) (st : nstate) : list (N * nstate) :=
  match l with
  | [] => [(s, st)]
  | (t, x) :: l' => if N.eqb t s then (s, st) :: l' else (t, x) :: nset l' s st
  end.

Definition dstep (d : disk) (e : ev) : disk :=
  match e with
  | EDirSync => {| d_names := map (fun x => (fst x, nstep (snd x) EDirSync)) (d_names d); d_meta := d_meta d |}
  | EMetaWrite _ _ =>
      {| d_names := d_names d; d_meta := match d_meta d with MOld => MPend | m => m end |}
  | EMetaSync =>
      {| d_names := d_names d; d_meta := match d_meta d with MPend => MNew | m => m end |}
  | ECreate s | EAppend s _ _ _ | ETrunc s _ | ESync s | EUnlink s =>
      {| d_names := nset (d_names d) s (nstep (nget d s) e); d_meta := d_meta d |}
  end.

Definition rb_run (d : disk) (tr : list ev) : disk := fold_left dstep tr d.

(* ---- images ---------------------------------------------------------------------------------- *)
Record image := {
  i_new : bool;                              (* which manifest the image holds: false = old, true = new *)
  i_file : N -> option (N -> blk)            (* the file found under a segment name, if any *)
}.

Definition name_image (st : nstate) (o : option (N -> blk)) : Prop :=
  exists kd, length kd = length (n_dpend st) /\
    match fold_left apply_dop (sel kd (n_dpend st)) (n_dur st) with
    | None => o = None
    | Some g => exists kc f, length kc = length (fpend (gfile st g)) /\ o = Some f /\
                             forall b, f b = file_image (gfile st g) kc b
    end.

Definition rb_pl_image (d : disk) (img : image) : Prop :=
  match d_meta d with MOld => i_new img = false | MPend => True | MNew => i_new img = true end /\
  forall s, name_image (nget d s) (i_file img s).

(* ---- records, instances, recovery ------------------------------------------------------------ *)
Record rrec := { r_id : N; r_seg : N; r_off : N; r_len : N }.
Definition r_end (r : rrec) : N := (r_off r + r_len r)%N.

Record inst := {
  o_start : N; o_end : N;            (* live range of the old manifest, (0,0) = empty *)
  o_recs : list rrec;                (* where its records are (decoded from the pre-sync segment files) *)
  n_start : N; n_end : N             (* live range of the new manifest *)
}.

Definition range_ok (s e : N) : bool := if N.eqb s 0 then N.eqb e 0 else N.leb s e.
Definition ids_of (s e : N) : list N := if N.eqb s 0 then [] else seqN s (N.to_nat (e + 1 - s)).

Definition find_rec (recs : list rrec) (id : N) : option rrec := find (fun r => N.eqb (r_id r) id) recs.

Fixpoint lookup_all (recs : list rrec) (ids : list N) : option (list rrec) :=
  match ids with
  | [] => Some []
  | id :: ids' =>
      match find_rec recs id, lookup_all recs ids' with
      | Some r, Some l => Some (r :: l)
      | _, _ => None
      end
  end.

(* b follows a: right behind it in the same segment, or at the start of a later segment *)
Definition next_ok (a b : rrec) : bool :=
  (N.eqb (r_seg b) (r_seg a) && N.eqb (r_off b) (r_end a)) || (N.ltb (r_seg a) (r_seg b) && N.eqb (r_off b) 0).

Fixpoint ordered (l : list rrec) : bool :=
  match l with
  | a :: ((b :: _) as t) => next_ok a b && ordered t
  | _ => true
  end.

Definition rec_present (img : image) (r : rrec) : bool :=
  match i_file img (r_seg r) with
  | None => false
  | Some f => forallb (fun k => blk_eqb (f (r_off r + k)%N) (r_id r, k)) (seqN 0 (N.to_nat (r_len r)))
  end.

Definition rb_recover (recs : list rrec) (s e : N) (img : image) : bool :=
  range_ok s e &&
  match lookup_all recs (ids_of s e) with
  | None => false
  | Some l => ordered l && forallb (rec_present img) l
  end.

(* ---- the discipline ---------------------------------------------------------------------------- *)
Fixpoint index_of (p : ev -> bool) (tr : list ev) : option nat :=
  match tr with
  | [] => None
  | e :: tr' => if p e then Some 0 else option_map S (index_of p tr')
  end.

Definition is_meta_write (e : ev) : bool := match e with EMetaWrite _ _ => true | _ => false end.
Definition is_meta_sync (e : ev) : bool := match e with EMetaSync => true | _ => false end.
Definition is_meta (e : ev) : bool := is_meta_write e || is_meta_sync e.

Definition same_seg (r : rrec) (seg : N) : bool := N.eqb (r_seg r) seg.
Definition disjoint (off len : N) (r : rrec) : bool := N.leb (off + len) (r_off r) || N.leb (r_end r) off.

(* the event touches no block and no directory entry of a record of R *)
Definition safe_ev (R : list rrec) (e : ev) : bool :=
  match e with
  | ECreate seg | EUnlink seg => forallb (fun r => negb (same_seg r seg)) R
  | EAppend seg off _ len => forallb (fun r => negb (same_seg r seg) || disjoint off len r) R
  | ETrunc seg len => forallb (fun r => negb (same_seg r seg) || N.leb (r_end r) len) R
  | _ => true
  end.

(* before the manifest write: anything that leaves the old live records alone *)
Definition pre_ok (I : inst) (e : ev) : bool := negb (is_meta e) && safe_ev (o_recs I) e.

(* after the manifest fsync: unlinks and truncations that leave the NEW live records R alone, fsyncs *)
Definition post_ok (R : list rrec) (e : ev) : bool :=
  match e with
  | ESync _ | EDirSync => true
  | EUnlink _ | ETrunc _ _ => safe_ev R e
  | _ => false
  end.

Definition rec_of_ev (e : ev) : list rrec :=
  match e with
  | EAppend seg off rid len => [{| r_id := rid; r_seg := seg; r_off := off; r_len := len |}]
  | _ => []
  end.

(* placements the new manifest can refer to: the old live records, then what this sync appended
   (the last append of an id wins) *)
Definition new_recs (I : inst) (pre : list ev) : list rrec := o_recs I ++ rev (flat_map rec_of_ev pre).

Definition is_nil {A} (l : list A) : bool := match l with [] => true | _ => false end.

(* the three parts of "record r is durable on disk d" *)
Definition dir_durable (d : disk) (r : rrec) : bool :=
  let st := nget d (r_seg r) in
  match n_dur st with Some _ => is_nil (n_dpend st) | None => false end.
Definition file_clean (d : disk) (r : rrec) : bool :=
  let st := nget d (r_seg r) in
  match n_dur st with Some g => is_nil (fpend (gfile st g)) | None => false end.
Definition content_durable (d : disk) (r : rrec) : bool :=
  let st := nget d (r_seg r) in
  match n_dur st with
  | Some g => forallb (fun k => blk_eqb (pm_get (fdur (gfile st g)) (r_off r + k)%N) (r_id r, k))
                      (seqN 0 (N.to_nat (r_len r)))
  | None => false
  end.
Definition durable_rec (d : disk) (r : rrec) : bool := dir_durable d r && file_clean d r && content_durable d r.

Definition rb_discipline (I : inst) (d0 : disk) (tr : list ev) : bool :=
  match index_of is_meta_write tr, index_of is_meta_sync tr with
  | Some iw, Some is_ =>
      let pre := firstn iw tr in
      let mid := firstn (is_ - iw - 1) (skipn (S iw) tr) in
      let post := skipn (S is_) tr in
      let d_pre := rb_run d0 pre in
      Nat.ltb iw is_ &&
      (* the manifest write carries the new range, and nothing else happens until its fsync *)
      (match nth_error tr iw with Some (EMetaWrite s e) => N.eqb s (n_start I) && N.eqb e (n_end I) | _ => false end) &&
      is_nil mid &&
      forallb (pre_ok I) pre &&
      (* every record of the new range has a placement (an old live record or an append of this sync),
         in consecutive order, and is durable - data, file fsynced, directory entry - at the switch-over *)
      match lookup_all (new_recs I pre) (ids_of (n_start I) (n_end I)) with
      | None => false
      | Some R => ordered R && forallb (durable_rec d_pre) R && forallb (post_ok R) post
      end
  | _, _ =>
      (* a trace cut before the manifest write: only the pre-phase rules apply *)
      match index_of is_meta_write tr with
      | None => forallb (pre_ok I) tr
      | Some _ => false
      end
  end.

(* the placements the theorem uses for the new range *)
Definition rb_new_recs (I : inst) (tr : list ev) : list rrec :=
  match index_of is_meta_write tr with
  | Some iw => new_recs I (firstn iw tr)
  | None => new_recs I tr
  end.

(* ---- hypotheses on the instance and the starting disk, as named boolean checks ------------------ *)
Definition inst_checks (I : inst) : list (nat * bool) :=
  [ (0, range_ok (o_start I) (o_end I));
    (1, range_ok (n_start I) (n_end I));
    (* the old placement is complete and in consecutive order *)
    (2, match lookup_all (o_recs I) (ids_of (o_start I) (o_end I)) with Some l => ordered l | None => false end);
    (* sanity (not needed by the theorem): only live records are listed, each at least one block long,
       and the live range only moves forward at its start *)
    (3, forallb (fun r => N.leb (o_start I) (r_id r) && N.leb (r_id r) (o_end I) && N.ltb 0 (r_len r)) (o_recs I));
    (4, N.eqb (n_start I) 0 || N.leb (o_start I) (n_start I)) ]%nat.

Definition start_checks (I : inst) (d0 : disk) : list (nat * bool) :=
  [ (0, match d_meta d0 with MOld => true | _ => false end);
    (1, forallb (dir_durable d0) (o_recs I));
    (2, forallb (file_clean d0) (o_recs I));
    (3, forallb (content_durable d0) (o_recs I)) ]%nat.

Definition all_ok (l : list (nat * bool)) : bool := forallb snd l.
Definition rb_inst_okb (I : inst) : bool := all_ok (inst_checks I).
Definition rb_start_okb (I : inst) (d0 : disk) : bool := all_ok (start_checks I d0).

(* ---- the monitor with a verdict ------------------------------------------------------------------ *)
Inductive clause :=
| KNoSwitch        (* a manifest write never followed by a manifest fsync; pos = the write *)
| KOrder           (* a manifest fsync before the first manifest write; pos = the fsync *)
| KMetaWrite       (* the manifest write does not carry the new range; pos = the write *)
| KMid             (* something between the manifest write and its fsync; pos = that event *)
| KPreMeta         (* a second manifest event before the switch-over; pos = the event *)
| KPreCreate       (* creation of a segment that holds an old live record before the switch-over *)
| KPreUnlink       (* unlink of a segment that holds an old live record before the switch-over *)
| KPreTrunc        (* truncation that cuts an old live record before the switch-over *)
| KPreOverwrite    (* write onto blocks of an old live record before the switch-over *)
| KNewMissing      (* a record of the new range has no placement (never appended); pos = index in the range *)
| KNewOrder        (* the placements of the new range are not in consecutive order *)
| KNewDir          (* the directory entry of a new-range record's segment is not durable at the manifest write *)
| KNewUnsynced     (* its segment has unsynced operations at the manifest write *)
| KNewContent      (* its blocks are not in the durable file at the manifest write; pos = index in the range *)
| KPostUnlink      (* unlink of a segment that holds a record of the new range *)
| KPostTrunc       (* truncation that cuts a record of the new range *)
| KPostWrite       (* append / creation / manifest event after the switch-over *).

Definition verdict := option (clause * nat).

Fixpoint first_bad {A} (p : A -> bool) (l : list A) : option nat :=
  match l with
  | [] => None
  | x :: r => if p x then option_map S (first_bad p r) else Some 0
  end.

Definition chk (b : bool) (c : clause) (pos : nat) (k : verdict) : verdict := if b then k else Some (c, pos).

Definition pre_clause (e : ev) : clause :=
  match e with
  | ECreate _ => KPreCreate | EUnlink _ => KPreUnlink | ETrunc _ _ => KPreTrunc
  | EAppend _ _ _ _ => KPreOverwrite | _ => KPreMeta
  end.
Definition post_clause (e : ev) : clause :=
  match e with EUnlink _ => KPostUnlink | ETrunc _ _ => KPostTrunc | _ => KPostWrite end.

Definition chk_evs (p : ev -> bool) (cl : ev -> clause) (l : list ev) (off : nat) (k : verdict) : verdict :=
  match first_bad p l with
  | None => k
  | Some i => Some (cl (nth i l EDirSync), off + i)
  end.

Definition chk_recs (p : rrec -> bool) (l : list rrec) (c : clause) (k : verdict) : verdict :=
  match first_bad p l with
  | None => k
  | Some i => Some (c, i)
  end.

(* index of the first id without a placement *)
Fixpoint first_missing (recs : list rrec) (ids : list N) : nat :=
  match ids with
  | [] => 0
  | id :: ids' => match find_rec recs id with None => 0 | Some _ => S (first_missing recs ids') end
  end.

Definition rb_explain (I : inst) (d0 : disk) (tr : list ev) : verdict :=
  match index_of is_meta_write tr, index_of is_meta_sync tr with
  | Some iw, Some is_ =>
      let pre := firstn iw tr in
      let mid := firstn (is_ - iw - 1) (skipn (S iw) tr) in
      let post := skipn (S is_) tr in
      let d_pre := rb_run d0 pre in
      chk (Nat.ltb iw is_) KOrder is_ (
      chk (match nth_error tr iw with Some (EMetaWrite s e) => N.eqb s (n_start I) && N.eqb e (n_end I) | _ => false end)
          KMetaWrite iw (
      chk (is_nil mid) KMid (S iw) (
      chk_evs (pre_ok I) pre_clause pre 0 (
      match lookup_all (new_recs I pre) (ids_of (n_start I) (n_end I)) with
      | None => Some (KNewMissing, first_missing (new_recs I pre) (ids_of (n_start I) (n_end I)))
      | Some R =>
          chk (ordered R) KNewOrder iw (
          chk_recs (dir_durable d_pre) R KNewDir (
          chk_recs (file_clean d_pre) R KNewUnsynced (
          chk_recs (content_durable d_pre) R KNewContent (
          chk_evs (post_ok R) post_clause post (S is_) None))))
      end))))
  | _, _ =>
      match index_of is_meta_write tr with
      | None => chk_evs (pre_ok I) pre_clause tr 0 None
      | Some iw => Some (KNoSwitch, iw)
      end
  end.

(* ---- decoding a segment file: the walk over the record headers (seglog/mod.rs: 12-byte header =
   payload length u32 LE, record id u64 LE; a record occupies ceil((12 + payload) / 4096) blocks).
   [hdr b] = what the driver reads at block b: Some (payload length in bytes, record id), None when the
   header cannot be read (file too short).  [blocks] = file length in blocks (rounded up). ---------- *)
Definition rec_blocks (payload : N) : N := ((12 + payload + 4095) / 4096)%N.

Fixpoint rb_scan (fuel : nat) (seg : N) (hdr : N -> option (N * N)) (blocks : N) (b : N) : list rrec :=
  match fuel with
  | O => []
  | S fuel' =>
      if N.leb blocks b then []
      else match hdr b with
           | None => []
           | Some (payload, rid) =>
               let len := rec_blocks payload in
               {| r_id := rid; r_seg := seg; r_off := b; r_len := len |} :: rb_scan fuel' seg hdr blocks (b + len)
           end
  end.

(* the records of a decoded directory that lie in the live range [s, e] *)
Definition live_of (s e : N) (recs : list rrec) : list rrec :=
  filter (fun r => negb (N.eqb s 0) && N.leb s (r_id r) && N.leb (r_id r) e) recs.

(* ---- what range a manifest GUARANTEES ------------------------------------------------------------
   The live range written into the manifest is [SegmentedLog::live_range] read in writeout_start
   (rollback/mod.rs:314) BEFORE this sync's prune_oldest advances the start (post-meta, :338): the
   manifest of a commit that drops the oldest delta still names that delta, and the same sync unlinks
   its segment after the manifest fsync.  The reader copes: seglog::open starts the live region at
   the FIRST record with id >= start_live (Recovery::enter_live, seglog/mod.rs:550) and Rollback::read
   trims to max_rollback_log_len (rollback/mod.rs:149).  So a manifest (s, e) of a store opened with
   max_rollback_log_len = m promises the records max(s, e + 1 - m) .. e, not s .. e.  The driver
   (ocaml/rb_cmds.ml) maps every manifest range through [guaranteed] before it becomes the old / new range
   of an instance or the payload of an [EMetaWrite]. *)
Definition guaranteed (maxlen s e : N) : N * N :=
  if N.eqb s 0 then (0, 0)%N else (N.max s (e + 1 - maxlen), e)%N.

(* ---- the range the READER needs -------------------------------------------------------------------
   seglog::open walks every segment file from its first record (Recovery::scan_segment: headers must be
   readable and the ids consecutive, "IDs are not ordered" otherwise) until it has seen end_live.  So
   besides the promised records the reader needs the records that PRECEDE the first promised one in its
   segment file: the range handed to the monitor starts at the first record of the segment that holds
   the first promised record ([scan_start]); the segments before it may disappear.
   [mk_inst m prev all (os,oe) (ns,ne) pre]: the instance of one sync from max_rollback_log_len [m] (0 = take
   the ranges literally), the start the previous manifest promised, every record [all] decoded from the
   pre-sync segment files, the ranges stored in the old and in the new manifest and the events before the
   manifest write (the new range can start in the segment the new record was appended to). *)
Definition scan_start (recs : list rrec) (s : N) : N :=
  match find_rec recs s with
  | None => s
  | Some r => fold_left (fun m x => if same_seg x (r_seg r) && N.ltb (r_id x) m then r_id x else m) recs s
  end.

(* A reopened handle starts from the manifest's (lagging) start, so the start stored in later manifests can
   lag by more than one record and, after a rollback, [guaranteed] alone would name records that were
   pruned long ago.  What a manifest promises is therefore relative to what the previous one promised:
   the promised start never moves backwards while the log is non-empty ([prev] = the promised start of the
   previous manifest, 0 = none). *)
Definition eff_start (m prev s e : N) : N :=
  if N.eqb s 0 then 0%N else N.max (if N.eqb m 0 then s else fst (guaranteed m s e)) prev.

Definition mk_inst (m prev : N) (all : list rrec) (os oe ns ne : N) (pre : list ev) : inst :=
  let o_eff := eff_start m prev os oe in
  let n_eff := eff_start m o_eff ns ne in
  let o_s := scan_start all o_eff in
  {| o_start := o_s; o_end := oe; o_recs := live_of o_s oe all;
     n_start := scan_start (all ++ rev (flat_map rec_of_ev pre)) n_eff; n_end := ne |}.
