(* Small lemmas used by the property files. *)
From Nomt Require Import Base Hash Trie.

Lemma root_empty : forall (H : Hasher) n, root_n H n [] = TERM H.
Proof. intros H n. destruct n; reflexivity. Qed.

Lemma root_single : forall (H : Hasher) n k v, root_n H n [(k, v)] = hleaf H k v.
Proof. intros H n k v. destruct n; reflexivity. Qed.
