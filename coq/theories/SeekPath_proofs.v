(* SeekPath_proofs: the merkle seek path refines the decoded image (properties C05 / C16).

   [seek_refines]: for every image whose [wf_merkle] verdict passes (and whose root page is clean
   when there are fewer than two pairs, [wf_root]), every hash oracle that is consistent with the
   annotation of the reference trie, and every 256-bit key, [SeekPath.seek_img] - the mirror of
   what Session::prove does - returns the byte encodings of the siblings of
   [PathProof.canonical_proof] for that key in [mk 256 0 (abs_kv img)], in the same order, and the
   canonical terminal.  Both the part of the path that runs through stored pages and the part below
   an elided page are covered.

   Structure: (1) what a passing [visit] means, as a non-threaded predicate [good];
   (2) facts about [annotate], [asub], the oracle; (3) [mk] below a prefix; (4) the walk through
   rebuilt pages; (5) one step inside a page, the page loop; (6) the root and the theorem;
   (7) the keys the decoder produces are 256 bits long; (8) the theorem applied to the example. *)
From Coq Require Import List Bool Arith NArith Lia.
From Nomt Require Import Base Hash Trie Emit Result PathProof Image SeekPath.
From Nomt Require Import Base_proofs Trie_proofs PathProof_proofs ReadPath_proofs.
Import ListNotations.
Local Open Scope N_scope.

(* ------------------------------------------------------------------------------------------- *)
(* 0. small facts                                                                                *)

Lemma bytes_eqb_eq : forall a b, bytes_eqb a b = true -> a = b.
Proof.
  induction a as [|x a IH]; intros [|y b] H; cbn [bytes_eqb] in H; try discriminate.
  - reflexivity.
  - apply andb_true_iff in H. destruct H as [H1 H2].
    apply N.eqb_eq in H1. apply IH in H2. subst. reflexivity.
Qed.

Lemma node_kind_zero : node_kind ZERO_NODE = KTerm.
Proof. vm_compute. reflexivity. Qed.

(* ------------------------------------------------------------------------------------------- *)
(* 1. what a passing merkle walk means                                                           *)

Section Good.
  Variable hash_of : N -> option (list N).
  Variable pages : pmap mpage.

  Definition slot_ok (ctx : pctx) (j acc : N) (t : atrie) : Prop :=
    match ctx with
    | PAbsent => True
    | PStored pg =>
        exists nd ex, nthN (2 ^ j - 2 + acc) (p_nodes pg) = Some nd /\
                      expected_node hash_of (aid t) = Some ex /\ bytes_eqb nd ex = true
    end.

  Definition enter_ctx (ctx : pctx) (lab' : N) : pctx :=
    match ctx, nfind lab' pages with
    | PStored _, Some c => PStored c
    | _, _ => PAbsent
    end.

  Definition enter_ok (ctx : pctx) (lab' idx : N) : Prop :=
    match ctx, nfind lab' pages with
    | PStored pg, Some _ => N.testbit (p_elided pg) idx = false
    | PStored pg, None => N.testbit (p_elided pg) idx = true
    | PAbsent, Some _ => False
    | PAbsent, None => True
    end.

  Fixpoint good (t : atrie) (lab j acc : N) (ctx : pctx) : Prop :=
    slot_ok ctx j acc t /\
    match t with
    | AB _ l r =>
        if j <? 6
        then good l lab (j + 1) (2 * acc) ctx /\ good r lab (j + 1) (2 * acc + 1) ctx
        else enter_ok ctx (child_label lab acc) acc /\
             good l (child_label lab acc) 1 0 (enter_ctx ctx (child_label lab acc)) /\
             good r (child_label lab acc) 1 1 (enter_ctx ctx (child_label lab acc))
    | _ => True
    end.

  Lemma mw_err_fail : forall c x y s, mw_fail (mw_err c x y s) <> None.
  Proof. intros c x y s. unfold mw_err. cbn [mw_fail]. destruct (mw_fail s); discriminate. Qed.

  Definition slot_state (t : atrie) (j acc : N) (ctx : pctx) (s : mw) : mw :=
    match ctx with
    | PAbsent => s
    | PStored pg =>
        let ix := 2 ^ j - 2 + acc in
        match nthN ix (p_nodes pg), expected_node hash_of (aid t) with
        | Some nd, Some ex =>
            if bytes_eqb nd ex then mw_node s else mw_err WNodeMismatch (p_bucket pg) ix s
        | None, _ => mw_err WNodeIndex (p_bucket pg) ix s
        | _, None => mw_err WNoHash (aid t) 0 s
        end
    end.

  Lemma slot_state_ok : forall t j acc ctx s,
      mw_fail (slot_state t j acc ctx s) = None -> mw_fail s = None /\ slot_ok ctx j acc t.
  Proof.
    intros t j acc ctx s H. unfold slot_state in H. destruct ctx as [pg|]; [|split; [exact H|exact I]].
    cbv zeta in H.
    destruct (nthN (2 ^ j - 2 + acc) (p_nodes pg)) as [nd|] eqn:En;
      [|exfalso; exact (mw_err_fail _ _ _ _ H)].
    destruct (expected_node hash_of (aid t)) as [ex|] eqn:Ee;
      [|exfalso; exact (mw_err_fail _ _ _ _ H)].
    destruct (bytes_eqb nd ex) eqn:Eb; [|exfalso; exact (mw_err_fail _ _ _ _ H)].
    split; [exact H|]. cbn [slot_ok]. exists nd, ex. rewrite En. repeat split; assumption.
  Qed.

  Lemma visit_eq : forall t lab pd j acc ctx s,
      visit hash_of pages t lab pd j acc ctx s =
      let s1 := slot_state t j acc ctx s in
      match t with
      | AB _ l r =>
          if j <? 6 then
            visit hash_of pages r lab pd (j + 1) (2 * acc + 1) ctx
              (visit hash_of pages l lab pd (j + 1) (2 * acc) ctx s1)
          else
            let lab' := child_label lab acc in
            let '(ctx', s2) := enter pages ctx lab' acc (pd + 1) s1 in
            visit hash_of pages r lab' (pd + 1) 1 1 ctx' (visit hash_of pages l lab' (pd + 1) 1 0 ctx' s2)
      | _ => s1
      end.
  Proof. intros t lab pd j acc ctx s. destruct t; reflexivity. Qed.

  Lemma enter_spec : forall ctx lab' idx depth s ctx' s',
      enter pages ctx lab' idx depth s = (ctx', s') ->
      ctx' = enter_ctx ctx lab' /\
      (mw_fail s' = None -> mw_fail s = None /\ enter_ok ctx lab' idx).
  Proof.
    intros ctx lab' idx depth s ctx' s' H. unfold enter in H. unfold enter_ctx, enter_ok.
    destruct ctx as [pg|]; destruct (nfind lab' pages) as [c|].
    - destruct (N.testbit (p_elided pg) idx); injection H as <- <-; (split; [reflexivity|]); intros Hf.
      + exfalso. exact (mw_err_fail _ _ _ _ Hf).
      + split; [exact Hf|reflexivity].
    - destruct (N.testbit (p_elided pg) idx); injection H as <- <-; (split; [reflexivity|]); intros Hf.
      + split; [exact Hf|reflexivity].
      + exfalso. exact (mw_err_fail _ _ _ _ Hf).
    - injection H as <- <-. split; [reflexivity|]. intros Hf. exfalso. exact (mw_err_fail _ _ _ _ Hf).
    - injection H as <- <-. split; [reflexivity|]. intros Hf. split; [exact Hf|exact I].
  Qed.

  Theorem visit_good : forall t lab pd j acc ctx s,
      mw_fail (visit hash_of pages t lab pd j acc ctx s) = None ->
      mw_fail s = None /\ good t lab j acc ctx.
  Proof.
    induction t as [|i k v|i l IHl r IHr]; intros lab pd j acc ctx s H; rewrite visit_eq in H; cbv zeta in H.
    - apply slot_state_ok in H. destruct H as [H1 H2]. split; [exact H1|]. cbn [good]. split; [exact H2|exact I].
    - apply slot_state_ok in H. destruct H as [H1 H2]. split; [exact H1|]. cbn [good]. split; [exact H2|exact I].
    - cbn [good]. destruct (j <? 6) eqn:Ej.
      + apply IHr in H. destruct H as [H Gr]. apply IHl in H. destruct H as [H Gl].
        apply slot_state_ok in H. destruct H as [H1 H2].
        split; [exact H1|]. split; [exact H2|]. split; assumption.
      + destruct (enter pages ctx (child_label lab acc) acc (pd + 1) (slot_state (AB i l r) j acc ctx s))
          as [ctx' s2] eqn:Ee.
        apply enter_spec in Ee. destruct Ee as [-> Hs2].
        apply IHr in H. destruct H as [H Gr]. apply IHl in H. destruct H as [H Gl].
        apply Hs2 in H. destruct H as [H He].
        apply slot_state_ok in H. destruct H as [H1 H2].
        split; [exact H1|]. split; [exact H2|]. split; [exact He|]. split; assumption.
  Qed.

  (* the whole walk: the root page exists and both halves of the trie are good in it *)
  Theorem merkle_walk_good : forall i l r,
      mw_fail (merkle_walk hash_of pages (AB i l r)) = None ->
      exists pg, nfind 0 pages = Some pg /\
                 good l 0 1 0 (PStored pg) /\ good r 0 1 1 (PStored pg).
  Proof.
    intros i l r H. unfold merkle_walk in H. destruct (nfind 0 pages) as [pg|].
    - exists pg. split; [reflexivity|].
      apply visit_good in H. destruct H as [H Gr]. apply visit_good in H. destruct H as [_ Gl].
      split; assumption.
    - exfalso. exact (mw_err_fail _ _ _ _ H).
  Qed.
End Good.

(* ------------------------------------------------------------------------------------------- *)
(* 2. the annotation, sub-tries, the oracle                                                      *)

Fixpoint erase (a : atrie) : trie :=
  match a with
  | AE => E
  | AL _ k v => Lf k v
  | AB _ l r => Br (erase l) (erase r)
  end.

Fixpoint ids_pos (a : atrie) : Prop :=
  match a with
  | AE => True
  | AL i _ _ => i <> 0
  | AB i l r => i <> 0 /\ ids_pos l /\ ids_pos r
  end.

Lemma erase_Br_inv : forall a x y, erase a = Br x y -> exists i l r, a = AB i l r.
Proof. intros [|i k v|i l r] x y H; try discriminate. exists i, l, r. reflexivity. Qed.

Lemma annotate_next : forall t n, n <= snd (annotate t n).
Proof.
  induction t as [|k v|l IHl r IHr]; intros n; cbn [annotate].
  - cbn [snd]. lia.
  - cbn [snd]. lia.
  - destruct (annotate l n) as [al n1] eqn:El. destruct (annotate r n1) as [ar n2] eqn:Er.
    cbn [snd]. pose proof (IHl n) as H1. rewrite El in H1. cbn [snd] in H1.
    pose proof (IHr n1) as H2. rewrite Er in H2. cbn [snd] in H2. lia.
Qed.

Lemma annotate_erase : forall t n, erase (fst (annotate t n)) = t.
Proof.
  induction t as [|k v|l IHl r IHr]; intros n; cbn [annotate].
  - reflexivity.
  - reflexivity.
  - destruct (annotate l n) as [al n1] eqn:El. destruct (annotate r n1) as [ar n2] eqn:Er.
    cbn [fst erase]. pose proof (IHl n) as H1. rewrite El in H1. cbn [fst] in H1.
    pose proof (IHr n1) as H2. rewrite Er in H2. cbn [fst] in H2. rewrite H1, H2. reflexivity.
Qed.

Lemma annotate_ids_pos : forall t n, 1 <= n -> ids_pos (fst (annotate t n)).
Proof.
  induction t as [|k v|l IHl r IHr]; intros n Hn; cbn [annotate].
  - exact I.
  - cbn [fst ids_pos]. lia.
  - destruct (annotate l n) as [al n1] eqn:El. destruct (annotate r n1) as [ar n2] eqn:Er.
    cbn [fst ids_pos].
    pose proof (annotate_next l n) as L1. rewrite El in L1. cbn [snd] in L1.
    pose proof (annotate_next r n1) as L2. rewrite Er in L2. cbn [snd] in L2.
    pose proof (IHl n Hn) as H1. rewrite El in H1. cbn [fst] in H1.
    pose proof (IHr n1 ltac:(lia)) as H2. rewrite Er in H2. cbn [fst] in H2.
    split; [lia|]. split; assumption.
Qed.

Lemma asub_snoc : forall p t i l r (b : bool),
    asub t p = Some (AB i l r) -> asub t (p ++ [b]) = Some (if b then r else l).
Proof.
  induction p as [|x p IH]; intros t i l r b H; cbn [asub app] in *.
  - injection H as ->. reflexivity.
  - destruct t as [| |i0 l0 r0]; try discriminate. apply IH with (i := i). exact H.
Qed.

Lemma asub_ids_pos : forall p t a, asub t p = Some a -> ids_pos t -> ids_pos a.
Proof.
  induction p as [|x p IH]; intros t a H Hp; cbn [asub] in H.
  - injection H as <-. exact Hp.
  - destruct t as [| |i0 l0 r0]; try discriminate. cbn [ids_pos] in Hp. destruct Hp as [_ [Hl Hr]].
    apply IH in H; [exact H|]. destruct x; assumption.
Qed.

Section Oracle.
  Variable H : Hasher.
  Variable enc : node H -> list N.
  Variable hash_of : N -> option (list N).

  Fixpoint ahash (a : atrie) : node H :=
    match a with
    | AE => TERM H
    | AL _ k v => hleaf H k v
    | AB _ l r => hint H (ahash l) (ahash r)
    end.

  (* the oracle is consistent with the annotation: [hash_of (aid t)] is the (encoded) hash of the
     reference node, for every node of the trie *)
  Fixpoint oracle_ok (a : atrie) : Prop :=
    match a with
    | AE => True
    | AL i k v => hash_of i = Some (enc (hleaf H k v))
    | AB i l r => hash_of i = Some (enc (hint H (ahash l) (ahash r))) /\ oracle_ok l /\ oracle_ok r
    end.

  Lemma ahash_erase : forall a, ahash a = hash H (erase a).
  Proof.
    induction a as [|i k v|i l IHl r IHr]; cbn [ahash erase hash]; try reflexivity.
    rewrite IHl, IHr. reflexivity.
  Qed.

  Lemma asub_oracle_ok : forall p t a, asub t p = Some a -> oracle_ok t -> oracle_ok a.
  Proof.
    induction p as [|x p IH]; intros t a Ha Hp; cbn [asub] in Ha.
    - injection Ha as <-. exact Hp.
    - destruct t as [| |i0 l0 r0]; try discriminate. cbn [oracle_ok] in Hp. destruct Hp as [_ [Hl Hr]].
      apply IH in Ha; [exact Ha|]. destruct x; assumption.
  Qed.

  Hypothesis enc_term : enc (TERM H) = ZERO_NODE.

  Lemma expected_enc : forall a, ids_pos a -> oracle_ok a ->
      expected_node hash_of (aid a) = Some (enc (ahash a)).
  Proof.
    intros a Hp Ho. unfold expected_node. destruct a as [|i k v|i l r]; cbn [aid ahash].
    - cbn. rewrite enc_term. reflexivity.
    - cbn [ids_pos] in Hp. apply N.eqb_neq in Hp. rewrite Hp. exact Ho.
    - cbn [ids_pos] in Hp. destruct Hp as [Hp _]. apply N.eqb_neq in Hp. rewrite Hp.
      cbn [oracle_ok] in Ho. destruct Ho as [Ho _]. exact Ho.
  Qed.
End Oracle.

(* ------------------------------------------------------------------------------------------- *)
(* 3. [mk] below a prefix                                                                        *)

Lemma mk_Br_inv : forall f d (L : kv) l r, mk f d L = Br l r ->
    exists f', f = S f' /\ (2 <= length L)%nat /\
               l = mk f' (S d) (side false d L) /\ r = mk f' (S d) (side true d L).
Proof.
  intros f d L l r Hm. destruct (kv_cases L) as [HL|[[k [v HL]]|HL]].
  - subst. rewrite mk_nil in Hm. discriminate.
  - subst. rewrite mk_single in Hm. discriminate.
  - destruct f as [|f'].
    + rewrite (mk_ge2_0 d L HL) in Hm. discriminate.
    + rewrite (mk_ge2 f' d L HL) in Hm. injection Hm as <- <-.
      exists f'. repeat split; try reflexivity. exact HL.
Qed.

Lemma mk_Lf_inv : forall f d (L : kv) k v, mk f d L = Lf k v -> L = [(k, v)].
Proof.
  intros f d L k v Hm. destruct (kv_cases L) as [HL|[[k1 [v1 HL]]|HL]].
  - subst. rewrite mk_nil in Hm. discriminate.
  - subst. rewrite mk_single in Hm. injection Hm as <- <-. reflexivity.
  - destruct f as [|f'].
    + rewrite (mk_ge2_0 d L HL) in Hm. discriminate.
    + rewrite (mk_ge2 f' d L HL) in Hm. discriminate.
Qed.

Lemma mk_E_inv : forall f d (L : kv), mk (S f) d L = E -> L = [].
Proof.
  intros f d L Hm. destruct (kv_cases L) as [HL|[[k1 [v1 HL]]|HL]].
  - exact HL.
  - subst. rewrite mk_single in Hm. discriminate.
  - rewrite (mk_ge2 f d L HL) in Hm. discriminate.
Qed.

Lemma is_prefix_snoc : forall (p key : list bool) (b : bool), (length p < length key)%nat ->
    is_prefix (p ++ [b]) key = is_prefix p key && Bool.eqb (bit key (length p)) b.
Proof.
  induction p as [|x p IH]; intros key b Hl; destruct key as [|y key]; cbn [length] in Hl; try lia.
  - cbn. destruct b, y; reflexivity.
  - cbn [app is_prefix length]. rewrite IH by lia.
    unfold bit. cbn [nth]. rewrite andb_assoc. reflexivity.
Qed.

Lemma filter_filter : forall {A} (f g : A -> bool) (l : list A),
    filter f (filter g l) = filter (fun x => g x && f x) l.
Proof.
  intros A f g l. induction l as [|x l IH]; cbn [filter]; [reflexivity|].
  destruct (g x); cbn [andb filter]; [destruct (f x)|]; rewrite IH; reflexivity.
Qed.

Lemma under_nil : forall L : kv, under [] L = L.
Proof.
  intros L. unfold under. induction L as [|x L IH]; [reflexivity|].
  cbn [filter]. change (is_prefix [] (fst x)) with true. cbv iota. f_equal. exact IH.
Qed.

Lemma side_under : forall (L : kv) (k : key) (d : nat),
    (forall k' v, In (k', v) L -> (d < length k')%nat) -> (d < length k)%nat ->
    side (bit k d) d (under (firstn d k) L) = under (firstn (S d) k) L.
Proof.
  intros L k d HL Hk. unfold side, under. rewrite filter_filter.
  apply filter_ext_in. intros [k' v] Hin. cbn [fst].
  rewrite (firstn_S_bit d k Hk).
  assert (Hd : length (firstn d k) = d) by (apply firstn_length_le; lia).
  rewrite is_prefix_snoc by (rewrite Hd; exact (HL k' v Hin)).
  rewrite Hd. reflexivity.
Qed.

Lemma In_under : forall p (L : kv) e, In e (under p L) -> In e L.
Proof. intros p L e H. unfold under in H. apply filter_In in H. exact (proj1 H). Qed.

(* ------------------------------------------------------------------------------------------- *)
(* 4-6. the refinement                                                                           *)

Section Refine.
  Variable H : Hasher.
  Variable enc : node H -> list N.
  Variable hash_of : N -> option (list N).
  Variable pages : pmap mpage.
  Variable KV : kv.
  Variable rt : atrie.
  Variable k : key.

  Hypothesis H_ok : HasherOK H.
  Hypothesis enc_term : enc (TERM H) = ZERO_NODE.
  Hypothesis enc_kind : forall n, node_kind (enc n) = kind H n.

  (* 4. the walk through the rebuilt pages *)
  Lemma seek_trie_ok : forall a t d sibs,
      erase a = t -> ids_pos a -> oracle_ok H enc hash_of a ->
      seek_trie hash_of k t a d sibs =
      let '(ws, tm) := walk H t k d in Some (rev sibs ++ map enc ws, tm).
  Proof.
    induction a as [|i k' v|i l IHl r IHr]; intros t d sibs He Hp Ho; subst t; cbn [erase seek_trie walk].
    - cbn [map]. rewrite app_nil_r. reflexivity.
    - cbn [map]. rewrite app_nil_r. reflexivity.
    - cbn [ids_pos] in Hp. destruct Hp as [_ [Hpl Hpr]].
      cbn [oracle_ok] in Ho. destruct Ho as [_ [Hol Hor]].
      destruct (bit k d).
      + rewrite (expected_enc H enc hash_of enc_term l Hpl Hol).
        rewrite (IHr (erase r) (S d) (enc (ahash H l) :: sibs) eq_refl Hpr Hor).
        destruct (walk H (erase r) k (S d)) as [ws tm]. cbn [map rev].
        rewrite <- app_assoc. cbn [app]. rewrite ahash_erase. reflexivity.
      + rewrite (expected_enc H enc hash_of enc_term r Hpr Hor).
        rewrite (IHl (erase l) (S d) (enc (ahash H r) :: sibs) eq_refl Hpl Hol).
        destruct (walk H (erase l) k (S d)) as [ws tm]. cbn [map rev].
        rewrite <- app_assoc. cbn [app]. rewrite ahash_erase. reflexivity.
  Qed.

  (* 5. node indices *)
  Lemma pow2_succ : forall j, 2 ^ (j + 1) = 2 * 2 ^ j.
  Proof. intros j. rewrite N.pow_add_r, N.pow_1_r. lia. Qed.

  Lemma pow2_ge1 : forall j, 1 <= 2 ^ j.
  Proof.
    intros j. pose proof (N.pow_nonzero 2 j ltac:(lia)) as Hn. lia.
  Qed.

  Lemma pow2_ge2 : forall j, 1 <= j -> 2 <= 2 ^ j.
  Proof.
    intros j Hj. pose proof (N.pow_le_mono_r 2 1 j ltac:(lia) Hj) as Hp.
    rewrite N.pow_1_r in Hp. exact Hp.
  Qed.

  Lemma ni_step : forall j ni acc (b : bool),
      (j = 0 -> acc = 0) -> (1 <= j -> ni = 2 ^ j - 2 + acc) ->
      (if j =? 0 then bitN b else 2 * ni + 2 + bitN b) = 2 ^ (j + 1) - 2 + (2 * acc + bitN b).
  Proof.
    intros j ni acc b H0 H1. destruct (N.eqb_spec j 0) as [Ej|Ej].
    - subst j. rewrite (H0 eq_refl). change (2 ^ (0 + 1)) with 2. lia.
    - rewrite pow2_succ. pose proof (pow2_ge2 j ltac:(lia)) as Hp. rewrite (H1 ltac:(lia)). lia.
  Qed.

  Lemma sib_ix : forall j acc (b : bool),
      sibling_index (2 ^ (j + 1) - 2 + (2 * acc + bitN b)) = 2 ^ (j + 1) - 2 + (2 * acc + bitN (negb b)).
  Proof.
    intros j acc b. rewrite pow2_succ. pose proof (pow2_ge1 j) as Hp. unfold sibling_index.
    replace (2 * 2 ^ j - 2 + (2 * acc + bitN b)) with (bitN b + 2 * (2 ^ j - 1 + acc)) by lia.
    rewrite N.even_add_mul_2. destruct b; cbn [bitN negb N.even]; lia.
  Qed.

  Lemma good_slot : forall t lab j acc ctx,
      good hash_of pages t lab j acc ctx -> slot_ok hash_of ctx j acc t.
  Proof. intros t lab j acc ctx Hg. destruct t; cbn [good] in Hg; exact (proj1 Hg). Qed.

  (* what the slot of a good node holds *)
  Lemma good_node : forall t lab j acc pg,
      good hash_of pages t lab j acc (PStored pg) -> ids_pos t -> oracle_ok H enc hash_of t ->
      nthN (2 ^ j - 2 + acc) (p_nodes pg) = Some (enc (ahash H t)).
  Proof.
    intros t lab j acc pg Hg Hp Ho. apply good_slot in Hg. cbn [slot_ok] in Hg.
    destruct Hg as [nd [ex [Hn [He Hb]]]].
    rewrite (expected_enc H enc hash_of enc_term t Hp Ho) in He. injection He as <-.
    apply bytes_eqb_eq in Hb. subst nd. exact Hn.
  Qed.

  Hypothesis k_len : length k = 256%nat.
  Hypothesis kv_len : forall k' v, In (k', v) KV -> length k' = 256%nat.

  Definition result_from (sibs : list (list N)) (t : trie) (d : nat) : sres :=
    let '(ws, tm) := walk H t k d in Some (rev sibs ++ map enc ws, tm).

  (* one bit inside a stored page *)
  Lemma step_ok : forall rec d pg lab j ni acc sibs child sibl f',
      (d < 256)%nat ->
      (j = 0 -> acc = 0) -> (1 <= j -> ni = 2 ^ j - 2 + acc) ->
      good hash_of pages child lab (j + 1) (2 * acc + bitN (bit k d)) (PStored pg) ->
      good hash_of pages sibl lab (j + 1) (2 * acc + bitN (negb (bit k d))) (PStored pg) ->
      ids_pos child -> oracle_ok H enc hash_of child ->
      ids_pos sibl -> oracle_ok H enc hash_of sibl ->
      erase child = mk f' (S d) (under (firstn (S d) k) KV) ->
      (forall i l r sibs', child = AB i l r ->
         rec pg lab (j + 1) (2 ^ (j + 1) - 2 + (2 * acc + bitN (bit k d))) (S d) sibs' =
         result_from sibs' (erase child) (S d)) ->
      step KV k rec pg lab j ni d sibs =
      result_from (enc (ahash H sibl) :: sibs) (erase child) (S d).
  Proof.
    intros rec d pg lab j ni acc sibs child sibl f' Hd H0 H1 Gc Gs Pc Oc Ps Os Hm Hrec.
    unfold step. cbv zeta. rewrite (ni_step j ni acc (bit k d) H0 H1). rewrite sib_ix.
    rewrite (good_node child lab (j + 1) _ pg Gc Pc Oc).
    rewrite (good_node sibl lab (j + 1) _ pg Gs Ps Os).
    rewrite enc_kind. unfold result_from.
    destruct child as [|i k' v|i l r].
    - cbn [ahash erase walk]. rewrite (kind_term H H_ok). cbn [map rev]. rewrite app_nil_r. reflexivity.
    - cbn [ahash erase walk]. rewrite (kind_leaf H H_ok). cbn [erase] in Hm. symmetry in Hm.
      apply mk_Lf_inv in Hm. unfold leaf_fetch. rewrite Hm. cbn [map rev]. rewrite app_nil_r. reflexivity.
    - cbn [ahash]. rewrite (kind_int H H_ok). rewrite (Hrec i l r _ eq_refl). reflexivity.
  Qed.

  Hypothesis rt_pos : ids_pos rt.
  Hypothesis rt_or : oracle_ok H enc hash_of rt.

  Definition kids (l r : atrie) (lab j acc : N) (pg : mpage) : Prop :=
    if j <? 6
    then good hash_of pages l lab (j + 1) (2 * acc) (PStored pg) /\
         good hash_of pages r lab (j + 1) (2 * acc + 1) (PStored pg)
    else enter_ok pages (PStored pg) (child_label lab acc) acc /\
         good hash_of pages l (child_label lab acc) 1 0 (enter_ctx pages (PStored pg) (child_label lab acc)) /\
         good hash_of pages r (child_label lab acc) 1 1 (enter_ctx pages (PStored pg) (child_label lab acc)).

  Lemma good_kids : forall i l r lab j acc pg,
      good hash_of pages (AB i l r) lab j acc (PStored pg) -> kids l r lab j acc pg.
  Proof. intros i l r lab j acc pg Hg. cbn [good] in Hg. exact (proj2 Hg). Qed.

  (* the page loop *)
  Lemma seek_pages_ok : forall f d i l r pg lab j ni acc sibs,
      (d + f = 256)%nat ->
      asub rt (firstn d k) = Some (AB i l r) ->
      erase (AB i l r) = mk f d (under (firstn d k) KV) ->
      j <= 6 -> (j = 0 -> acc = 0) -> (1 <= j -> ni = 2 ^ j - 2 + acc) ->
      (1 <= j -> slot_ok hash_of (PStored pg) j acc (AB i l r)) ->
      kids l r lab j acc pg ->
      seek_pages hash_of pages KV rt k f pg lab j ni d sibs = result_from sibs (erase (AB i l r)) d.
  Proof.
    induction f as [|f IH]; intros d i l r pg lab j ni acc sibs Hdf Hsub Hm Hj H0 H1 Hslot Hk.
    { cbn [erase] in Hm. symmetry in Hm. apply mk_Br_inv in Hm. destruct Hm as [f' [Hf _]]. discriminate. }
    assert (Hd : (d < 256)%nat) by lia.
    pose proof Hm as Hm2. cbn [erase] in Hm2. symmetry in Hm2. apply mk_Br_inv in Hm2.
    destruct Hm2 as [f' [Hf [_ [Hl Hr]]]]. injection Hf as <-.
    assert (Hlen : forall k' v, In (k', v) (under (firstn d k) KV) -> (d < length k')%nat).
    { intros k' v Hin. apply In_under in Hin. rewrite (kv_len k' v Hin). exact Hd. }
    pose proof (side_under KV k d (fun k' v Hin => eq_ind_r (fun n => (d < n)%nat) Hd (kv_len k' v Hin))
                  ltac:(rewrite k_len; exact Hd)) as Hside.
    pose proof (asub_ids_pos _ _ _ Hsub rt_pos) as Hp. cbn [ids_pos] in Hp. destruct Hp as [_ [Ppl Ppr]].
    pose proof (asub_oracle_ok H enc hash_of _ _ _ Hsub rt_or) as Ho. cbn [oracle_ok] in Ho.
    destruct Ho as [_ [Ool Oor]].
    assert (Hsub' : asub rt (firstn (S d) k) = Some (if bit k d then r else l)).
    { rewrite (firstn_S_bit d k ltac:(rewrite k_len; exact Hd)). apply asub_snoc with (i := i). exact Hsub. }
    assert (Hstep : forall pg' lab' j' ni' acc',
               j' <= 5 -> (j' = 0 -> acc' = 0) -> (1 <= j' -> ni' = 2 ^ j' - 2 + acc') ->
               good hash_of pages l lab' (j' + 1) (2 * acc') (PStored pg') ->
               good hash_of pages r lab' (j' + 1) (2 * acc' + 1) (PStored pg') ->
               step KV k (seek_pages hash_of pages KV rt k f) pg' lab' j' ni' d sibs =
               result_from sibs (erase (AB i l r)) d).
    { intros pg' lab' j' ni' acc' Hj' H0' H1' Gl Gr.
      destruct (bit k d) eqn:Hb.
      - (* right *)
        rewrite Hside in Hr.
        rewrite (step_ok (seek_pages hash_of pages KV rt k f) d pg' lab' j' ni' acc' sibs r l f Hd H0' H1').
        + unfold result_from. cbn [erase walk]. rewrite Hb.
          destruct (walk H (erase r) k (S d)) as [ws tm]. cbn [map rev]. rewrite <- app_assoc. cbn [app].
          rewrite ahash_erase. reflexivity.
        + rewrite Hb. exact Gr.
        + rewrite Hb. cbn [negb bitN]. rewrite N.add_0_r. exact Gl.
        + exact Ppr.
        + exact Oor.
        + exact Ppl.
        + exact Ool.
        + exact Hr.
        + intros i0 l0 r0 sibs' Er. rewrite Hb. cbn [bitN]. subst r.
          apply IH with (acc := 2 * acc' + 1).
          * lia.
          * exact Hsub'.
          * exact Hr.
          * lia.
          * intros Hc. lia.
          * intros _. reflexivity.
          * intros _. exact (good_slot _ _ _ _ _ Gr).
          * exact (good_kids _ _ _ _ _ _ _ Gr).
      - (* left *)
        rewrite Hside in Hl.
        rewrite (step_ok (seek_pages hash_of pages KV rt k f) d pg' lab' j' ni' acc' sibs l r f Hd H0' H1').
        + unfold result_from. cbn [erase walk]. rewrite Hb.
          destruct (walk H (erase l) k (S d)) as [ws tm]. cbn [map rev]. rewrite <- app_assoc. cbn [app].
          rewrite ahash_erase. reflexivity.
        + rewrite Hb. cbn [bitN]. rewrite N.add_0_r. exact Gl.
        + rewrite Hb. exact Gr.
        + exact Ppl.
        + exact Ool.
        + exact Ppr.
        + exact Oor.
        + exact Hl.
        + intros i0 l0 r0 sibs' El. rewrite Hb. cbn [bitN]. rewrite N.add_0_r. subst l.
          apply IH with (acc := 2 * acc').
          * lia.
          * exact Hsub'.
          * exact Hl.
          * lia.
          * intros Hc. lia.
          * intros _. reflexivity.
          * intros _. exact (good_slot _ _ _ _ _ Gl).
          * exact (good_kids _ _ _ _ _ _ _ Gl). }
    cbn [seek_pages]. unfold kids in Hk. destruct (j <? 6) eqn:Ej.
    - apply N.ltb_lt in Ej. destruct Hk as [Gl Gr].
      apply (Hstep pg lab j ni acc); try assumption. lia.
    - apply N.ltb_ge in Ej. assert (Ej6 : j = 6) by lia. subst j.
      destruct Hk as [He [Gl Gr]].
      rewrite (H1 ltac:(lia)). change (2 ^ 6 - 2) with 62.
      replace (62 + acc - 62) with acc by lia.
      unfold enter_ok in He. unfold enter_ctx in Gl, Gr.
      destruct (nfind (child_label lab acc) pages) as [c|] eqn:Ec.
      + rewrite He. apply (Hstep c (child_label lab acc) 0 0 0).
        * lia.
        * intros _. reflexivity.
        * intros Hc. lia.
        * exact Gl.
        * exact Gr.
      + rewrite He. specialize (Hslot ltac:(lia)). cbn [slot_ok] in Hslot.
        destruct Hslot as [nd [ex [Hn [Hex Hb]]]]. change (2 ^ 6 - 2) with 62 in Hn.
        rewrite Hn, Hsub, Hex, Hb.
        replace (KEY_LEN - d)%nat with (S f) by (unfold KEY_LEN; lia).
        rewrite (seek_trie_ok (AB i l r) (mk (S f) d (under (firstn d k) KV)) d sibs Hm
                   (asub_ids_pos _ _ _ Hsub rt_pos) (asub_oracle_ok H enc hash_of _ _ _ Hsub rt_or)).
        rewrite <- Hm. reflexivity.
  Qed.

  (* 6. the root *)
  Lemma sides_nil : forall d (L : kv), side false d L = [] -> side true d L = [] -> L = [].
  Proof.
    intros d [|[k0 v0] L] Hf Ht; [reflexivity|]. unfold side in Hf, Ht. cbn [filter fst] in Hf, Ht.
    destruct (bit k0 d); cbn in Hf, Ht; discriminate.
  Qed.

  Lemma mk_Br_not_both_E : forall f d (L : kv) l r,
      (2 <= f)%nat -> mk f d L = Br l r -> l = E -> r = E -> False.
  Proof.
    intros f d L l r Hf Hm Hl Hr. apply mk_Br_inv in Hm. destruct Hm as [f' [Ef [HL [El Er]]]].
    destruct f' as [|f'']; [lia|]. rewrite Hl in El. rewrite Hr in Er. symmetry in El, Er.
    apply mk_E_inv in El. apply mk_E_inv in Er.
    pose proof (sides_nil d L El Er) as Hnil. rewrite Hnil in HL. cbn [length] in HL. lia.
  Qed.

  Lemma zero_is_term : forall a, ids_pos a -> oracle_ok H enc hash_of a ->
      bytes_eqb (enc (ahash H a)) ZERO_NODE = true -> a = AE.
  Proof.
    intros a Hp Ho Hb. apply bytes_eqb_eq in Hb.
    pose proof (enc_kind (ahash H a)) as Hk. rewrite Hb, node_kind_zero in Hk.
    destruct a as [|i k' v|i l r]; [reflexivity| |]; cbn [ahash] in Hk.
    - rewrite (kind_leaf H H_ok) in Hk. discriminate.
    - rewrite (kind_int H H_ok) in Hk. discriminate.
  Qed.

  Theorem seek_with_refines :
      erase rt = mk 256 0 KV ->
      mw_fail (merkle_walk hash_of pages rt) = None ->
      match KV with [] | [_] => root_page_clean pages | _ => true end = true ->
      seek_with hash_of pages KV rt k = result_from [] (mk 256 0 KV) 0.
  Proof.
    intros Hrt Hw Hroot. destruct (kv_cases KV) as [HL|[[k1 [v1 HL]]|HL]].
    - (* no pair *)
      rewrite HL in *. rewrite mk_nil. unfold result_from. cbn [walk map rev app firstn].
      unfold seek_with. unfold root_page_clean in Hroot.
      destruct (nfind 0 pages) as [pg|]; [|reflexivity].
      destruct (nthN 0 (p_nodes pg)) as [n0|]; [|discriminate].
      destruct (nthN 1 (p_nodes pg)) as [n1|]; [|discriminate].
      rewrite Hroot. reflexivity.
    - (* one pair *)
      rewrite HL in *. rewrite mk_single. unfold result_from. cbn [walk map rev app].
      assert (Hs : leaf_fetch [] [(k1, v1)] = Some (TLeaf k1 v1)).
      { unfold leaf_fetch. rewrite under_nil. reflexivity. }
      unfold seek_with. rewrite Hs. unfold root_page_clean in Hroot.
      destruct (nfind 0 pages) as [pg|]; [|reflexivity].
      destruct (nthN 0 (p_nodes pg)) as [n0|]; [|discriminate].
      destruct (nthN 1 (p_nodes pg)) as [n1|]; [|discriminate].
      rewrite Hroot. reflexivity.
    - (* an internal root *)
      pose proof (mk_ge2 255 0 KV HL) as Hbr. rewrite Hbr in Hrt.
      destruct (erase_Br_inv _ _ _ Hrt) as [i [l [r Ert]]].
      rewrite <- Hbr in Hrt. clear Hbr. rewrite Ert in Hrt, Hw.
      apply merkle_walk_good in Hw. destruct Hw as [pg [Hpg [Gl Gr]]].
      pose proof rt_pos as Hp. rewrite Ert in Hp. cbn [ids_pos] in Hp. destruct Hp as [_ [Ppl Ppr]].
      pose proof rt_or as Ho. rewrite Ert in Ho. cbn [oracle_ok] in Ho. destruct Ho as [Oi [Ool Oor]].
      pose proof (good_node l 0 1 0 pg Gl Ppl Ool) as Nl. change (2 ^ 1 - 2 + 0) with 0 in Nl.
      pose proof (good_node r 0 1 1 pg Gr Ppr Oor) as Nr. change (2 ^ 1 - 2 + 1) with 1 in Nr.
      unfold seek_with. rewrite Hpg, Nl, Nr.
      destruct (bytes_eqb (enc (ahash H l)) ZERO_NODE && bytes_eqb (enc (ahash H r)) ZERO_NODE) eqn:Ez.
      + exfalso. apply andb_true_iff in Ez. destruct Ez as [Zl Zr].
        apply (zero_is_term l Ppl Ool) in Zl. apply (zero_is_term r Ppr Oor) in Zr. subst l r.
        cbn [erase] in Hrt. symmetry in Hrt.
        exact (mk_Br_not_both_E 256 0 KV E E ltac:(lia) Hrt eq_refl eq_refl).
      + unfold KEY_LEN.
        assert (Hm : erase (AB i l r) = mk 256 0 (under (firstn 0 k) KV)).
        { rewrite Hrt. change (firstn 0 k) with (@nil bool). rewrite under_nil. reflexivity. }
        rewrite (seek_pages_ok 256 0 i l r pg 0 0 0 0 []).
        * rewrite Hrt. reflexivity.
        * reflexivity.
        * change (firstn 0 k) with (@nil bool). cbn [asub]. rewrite Ert. reflexivity.
        * exact Hm.
        * lia.
        * intros _. reflexivity.
        * intros Hc. lia.
        * intros Hc. lia.
        * unfold kids. change (0 <? 6) with true. cbv iota. split; [exact Gl|exact Gr].
  Qed.
End Refine.

(* ------------------------------------------------------------------------------------------- *)
(* the theorem                                                                                   *)

Lemma all_len_In : forall n (L : kv), all_len n L = true -> forall k v, In (k, v) L -> length k = n.
Proof.
  intros n L Ha k v Hin. unfold all_len in Ha. rewrite forallb_forall in Ha.
  specialize (Ha (k, v) Hin). cbn [fst] in Ha. apply Nat.eqb_eq in Ha. exact Ha.
Qed.

Lemma wf_merkle_walk : forall hash_of img, wf_merkle hash_of img = true ->
    mw_fail (merkle_walk hash_of (img_pages img) (ref_trie img)) = None.
Proof.
  intros hash_of img Hw. unfold wf_merkle, wf_merkle_v in Hw. apply passes_None in Hw.
  unfold merkle_result in Hw. destruct (kv_sorted (abs_kv img)).
  - exact Hw.
  - exfalso. exact (mw_err_fail _ _ _ _ Hw).
Qed.

(* [seek_refines].  The hash oracle is described through an abstract hasher [H] and a byte encoding
   [enc] of its nodes (for the real hashers: nodes ARE 32 bytes and [enc] is the identity):
     - [oracle_ok]: [hash_of (aid t)] is the encoded hash of the reference node, for every node;
     - [enc_kind]: the MSB labelling read by [node_kind] is the hasher's kind labelling; with
       [HasherOK] (kind_term / term_only / kind_leaf / kind_int) this says that the terminator is the
       32 zero bytes, that no leaf or internal node hashes to them, and that the MSB tells leaves
       from internal nodes;
   no collision freeness is needed.  Then, for every 256-bit key, the mirror of Session::prove
   returns the encoded siblings of the canonical proof, root first, and the canonical terminal. *)
Theorem seek_refines : forall (H : Hasher) (enc : node H -> list N) hash_of img,
    HasherOK H -> enc (TERM H) = ZERO_NODE -> (forall n, node_kind (enc n) = kind H n) ->
    oracle_ok H enc hash_of (ref_trie img) ->
    wf_merkle hash_of img = true -> wf_root img = true -> all_len 256 (abs_kv img) = true ->
    forall k, length k = 256%nat ->
    seek_img hash_of img k =
    Some (map enc (pp_siblings (canonical_proof H 256 (abs_kv img) k)),
          pp_terminal (canonical_proof H 256 (abs_kv img) k)).
Proof.
  intros H enc hash_of img Hok Hterm Hkind Hor Hwf Hroot Hlen k Hk.
  unfold seek_img.
  rewrite (seek_with_refines H enc hash_of (img_pages img) (abs_kv img) (ref_trie img) k
             Hok Hterm Hkind Hk (all_len_In 256 _ Hlen)).
  - unfold result_from, canonical_proof.
    destruct (walk H (mk 256 0 (abs_kv img)) k 0) as [ws tm]. reflexivity.
  - unfold ref_trie. apply annotate_ids_pos. lia.
  - exact Hor.
  - unfold ref_trie. apply annotate_erase.
  - apply wf_merkle_walk. exact Hwf.
  - exact Hroot.
Qed.

(* the same over key/value pairs and a page map alone *)
Theorem seek_refines_kv : forall (H : Hasher) (enc : node H -> list N) hash_of pages (KV : kv),
    HasherOK H -> enc (TERM H) = ZERO_NODE -> (forall n, node_kind (enc n) = kind H n) ->
    oracle_ok H enc hash_of (fst (annotate (mk 256 0 KV) 1)) ->
    mw_fail (merkle_walk hash_of pages (fst (annotate (mk 256 0 KV) 1))) = None ->
    match KV with [] | [_] => root_page_clean pages | _ => true end = true ->
    all_len 256 KV = true ->
    forall k, length k = 256%nat ->
    seek hash_of pages KV k =
    Some (map enc (pp_siblings (canonical_proof H 256 KV k)), pp_terminal (canonical_proof H 256 KV k)).
Proof.
  intros H enc hash_of pages KV Hok Hterm Hkind Hor Hw Hroot Hlen k Hk.
  unfold seek. change KEY_LEN with 256%nat.
  rewrite (seek_with_refines H enc hash_of pages KV _ k Hok Hterm Hkind Hk (all_len_In 256 _ Hlen)).
  - unfold result_from, canonical_proof.
    destruct (walk H (mk 256 0 KV) k 0) as [ws tm]. reflexivity.
  - apply annotate_ids_pos. lia.
  - exact Hor.
  - apply annotate_erase.
  - exact Hw.
  - exact Hroot.
Qed.

(* ------------------------------------------------------------------------------------------- *)
(* 7. the keys of a decoded image are 256 bits long                                              *)

Lemma bits_of_bytes_length : forall l, length (bits_of_bytes l) = (8 * length l)%nat.
Proof.
  induction l as [|b r IH]; cbn [bits_of_bytes length]; [reflexivity|].
  rewrite app_length, IH. cbn [bits_of_byte length]. lia.
Qed.

Lemma cell_pointers_keys : forall n l cps, cell_pointers n l = Some cps ->
    forall kb raw, In (kb, raw) cps -> length kb = 32%nat.
Proof.
  induction n as [|n IH]; intros l cps Hc kb raw Hin; cbn [cell_pointers] in Hc.
  - injection Hc as <-. destruct Hin.
  - destruct (sliceN 0 32 l) as [k0|] eqn:Es; [|discriminate].
    destruct (u16 l 32) as [off|]; [|discriminate].
    destruct (cell_pointers n (dropN 34 l)) as [r|] eqn:Er; [|discriminate].
    injection Hc as <-. destruct Hin as [Hin|Hin].
    + injection Hin as <- _. apply sliceN_length in Es. rewrite lenN_length in Es. lia.
    + exact (IH _ _ Er kb raw Hin).
Qed.

Lemma leaf_cells_keys : forall rd lpn cps cur es, leaf_cells rd lpn cur cps = Ok es ->
    (forall kb raw, In (kb, raw) cps -> length kb = 32%nat) ->
    forall e, In e es -> length (e_key e) = 256%nat.
Proof.
  intros rd lpn. induction cps as [|[kb raw] rest IH]; intros cur es Hc Hk e Hin; cbn [leaf_cells] in Hc.
  - injection Hc as <-. destruct Hin.
  - cbv zeta in Hc. bind_inv Hc. bind_inv Hc. bind_inv Hc. bind_inv Hc. injection Hc as <-.
    destruct Hin as [Hin|Hin].
    + subst e.
      assert (Hkb : length (bits_of_bytes kb) = 256%nat).
      { rewrite bits_of_bytes_length. rewrite (Hk kb raw (or_introl eq_refl)). reflexivity. }
      destruct (cp_ovf raw).
      * bind_inv E1. injection E1 as <-. exact Hkb.
      * injection E1 as <-. exact Hkb.
    + apply (IH _ _ E2); [|exact Hin]. intros kb' raw' Hin'. apply (Hk kb' raw'). right. exact Hin'.
Qed.

Lemma decode_leaf_keys : forall rd lpn sep pg l, decode_leaf rd lpn sep pg = Ok l ->
    forall e, In e (l_entries l) -> length (e_key e) = 256%nat.
Proof.
  intros rd lpn sep pg l Hd. unfold decode_leaf in Hd.
  bind_inv Hd. bind_inv Hd. bind_inv Hd. bind_inv Hd. bind_inv Hd. injection Hd as <-. cbn [l_entries].
  apply need_Ok in E1. apply (leaf_cells_keys _ _ _ _ _ E3). exact (cell_pointers_keys _ _ _ E1).
Qed.

Lemma mapM_In : forall {A B} (f : A -> res B) l l', mapM f l = Ok l' ->
    forall b, In b l' -> exists a, In a l /\ f a = Ok b.
Proof.
  intros A B f l. induction l as [|a r IH]; intros l' Hm b Hin; cbn [mapM] in Hm.
  - injection Hm as <-. destruct Hin.
  - bind_inv Hm. bind_inv Hm. injection Hm as <-. destruct Hin as [Hin|Hin].
    + subst. exists a. split; [left; reflexivity|exact E].
    + destruct (IH _ E0 b Hin) as [a' [Ha Hf]]. exists a'. split; [right; exact Ha|exact Hf].
Qed.

Lemma number_all_len : forall {A} n (l : list (key * A)) i,
    (forall p, In p l -> length (fst p) = n) -> all_len n (number l i) = true.
Proof.
  intros A n l. induction l as [|[k0 v0] r IH]; intros i Hl; cbn [number]; [reflexivity|].
  unfold all_len. cbn [forallb fst]. apply andb_true_iff. split.
  - apply Nat.eqb_eq. exact (Hl (k0, v0) (or_introl eq_refl)).
  - apply IH. intros p Hp. apply Hl. right. exact Hp.
Qed.

Theorem decode_keys_256 : forall fs img, decode_image fs = Ok img -> all_len 256 (abs_kv img) = true.
Proof.
  intros fs img Hd. unfold decode_image in Hd.
  bind_inv Hd. bind_inv Hd. bind_inv Hd. bind_inv Hd. bind_inv Hd. bind_inv Hd. bind_inv Hd. bind_inv Hd.
  bind_inv Hd. injection Hd as <-.
  unfold abs_kv. apply number_all_len. intros [k0 v0] Hin. cbn [fst].
  unfold abs in Hin. apply in_map_iff in Hin. destruct Hin as [e [He Hin]]. injection He as <- _.
  unfold entries in Hin. cbn [i_leaves] in Hin. apply in_flat_map in Hin. destruct Hin as [lf [Hlf Hin]].
  destruct (mapM_In _ _ _ E6 lf Hlf) as [rf [_ Hrf]]. unfold read_leaf in Hrf. bind_inv Hrf.
  exact (decode_leaf_keys _ _ _ _ _ Hrf e Hin).
Qed.

(* the theorem for the images the decoder produces *)
Corollary seek_refines_decoded : forall (H : Hasher) (enc : node H -> list N) hash_of fs img,
    decode_image fs = Ok img ->
    HasherOK H -> enc (TERM H) = ZERO_NODE -> (forall n, node_kind (enc n) = kind H n) ->
    oracle_ok H enc hash_of (ref_trie img) ->
    wf_merkle hash_of img = true -> wf_root img = true ->
    forall k, length k = 256%nat ->
    seek_img hash_of img k =
    Some (map enc (pp_siblings (canonical_proof H 256 (abs_kv img) k)),
          pp_terminal (canonical_proof H 256 (abs_kv img) k)).
Proof.
  intros H enc hash_of fs img Hd Hok Hterm Hkind Hor Hwf Hroot k Hk.
  apply seek_refines; try assumption. exact (decode_keys_256 fs img Hd).
Qed.

(* ------------------------------------------------------------------------------------------- *)
(* 8. non-vacuity: the hypotheses hold for the hand-made store of SeekPath.v (free-term hasher,
   toy 32-byte encoding), so the theorem speaks about its four stored / rebuilt paths and about
   every other key                                                                               *)

Lemma toy_enc_kind : forall n : fnode, node_kind (toy_enc n) = kind FreeH n.
Proof.
  intros n. unfold toy_enc. change (kind FreeH n) with (fkind n).
  pose proof (N.mod_lt (fsize n) 100 ltac:(lia)) as Hm.
  set (m := fsize n mod 100) in *. clearbody m.
  destruct (fkind n).
  - exact node_kind_zero.
  - cbn [node_kind]. destruct (128 <=? 128 + m) eqn:El; [reflexivity|].
    apply N.leb_gt in El. lia.
  - cbn [node_kind]. destruct (128 <=? 1 + m) eqn:El.
    + apply N.leb_le in El. lia.
    + change ZERO_NODE with (0 :: repeatN 0 31). cbn [bytes_eqb].
      destruct (1 + m =? 0) eqn:Ez; [apply N.eqb_eq in Ez; lia|]. reflexivity.
Qed.

Lemma ex_oracle_ok : oracle_ok FreeH toy_enc ex_ho (ref_trie ex_image).
Proof. vm_compute. repeat split; reflexivity. Qed.

Example seek_refines_applies : forall k, length k = 256%nat ->
    seek_img ex_ho ex_image k =
    Some (map toy_enc (pp_siblings (canonical_proof FreeH 256 (abs_kv ex_image) k)),
          pp_terminal (canonical_proof FreeH 256 (abs_kv ex_image) k)).
Proof.
  intros k Hk.
  assert (Hwf : wf_merkle ex_ho ex_image = true) by (vm_compute; reflexivity).
  assert (Hroot : wf_root ex_image = true) by (vm_compute; reflexivity).
  assert (Hlen : all_len 256 (abs_kv ex_image) = true) by (vm_compute; reflexivity).
  exact (seek_refines FreeH toy_enc ex_ho ex_image FreeH_OK eq_refl toy_enc_kind ex_oracle_ok
           Hwf Hroot Hlen k Hk).
Qed.

(* ... and on the example's keys the two sides are these concrete proofs *)
Example seek_refines_example_values :
    map (fun bs => match seek_img ex_ho ex_image (pad256 bs) with
                   | Some (sibs, tm) =>
                       (length sibs,
                        bytes_eqb (concat sibs)
                          (concat (map toy_enc (pp_siblings (canonical_proof FreeH 256 (abs_kv ex_image) (pad256 bs))))))
                   | None => (0%nat, false)
                   end)
        [[false; false; false; false; false; false; false; true]; [true; true; true; true; true; true; true];
         [true; true; true; false]]
    = [(8%nat, true); (7%nat, true); (4%nat, true)].
Proof. vm_compute. reflexivity. Qed.
