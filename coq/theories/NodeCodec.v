(* NodeCodec: ENCODERS of NOMT's beatree page formats and of the manifest, the counterpart of the
   decoders of Image.v (property C16).  Written from the builders that lay the pages out:

     leaf       beatree/leaf/node.rs    LeafBuilder::new / push_cell / finish, encode_cell_pointer
     branch     beatree/branch/node.rs  BranchNodeBuilder::new / push, set_prefix, set_separator,
                                        set_node_pointer, BranchNode::set_bbn_pn
     overflow   beatree/ops/overflow.rs chunk, encode_cell
     manifest   store/meta.rs           Meta::encode_to / Meta::write

   A page is a [list N] of 4096 bytes.  The page pool does not zero the pages it hands out
   (io/page_pool.rs: "The contents of the page are undefined"), so every format has regions the
   builders never write.  The encoders take the content of those regions as an argument
   ([*_gen]; the round trips of NodeCodec_proofs hold for ANY content of the right length) and the
   plain encoders put zeros there; [*_segs] describes a page as defined / partly defined /
   undefined segments ([seg_bytes] of it is the plain encoder's page, NodeCodec_proofs), and
   [compare_segs] compares it with a real page on the defined bytes (bits) only.

   Undefined regions:
     leaf      the padding between the cell pointer array and the first cell,
               bytes [2 + 34 n, 4096 - sum of the cell sizes)
     branch    the bits behind the last separator in the last byte of the prefix/separator bit
               vector, and all bytes from there to the first node pointer,
               bytes [10 + 2 n + ceil((prefix_len + sum of stored lengths) / 8), 4096 - 4 n)
     overflow  everything behind the value bytes, bytes [4 + 4 n_pointers + n_bytes, 4096)
     manifest  everything behind the 64 bytes of Meta::encode_to (Meta::write allocates a pool page,
               encodes into its first 64 bytes and writes all 4096) *)
From Coq Require Import List Bool Arith NArith Lia.
From Nomt Require Import Base Image.
From Nomt Require BitOps.
Import ListNotations.
Local Open Scope N_scope.

(* ------------------------------------------------------------------------------------------- *)
(* bits -> bytes, most significant bit first (bitvec's Msb0, the inverse of Image.bits_of_bytes) *)

Definition bitw (b : bool) (w : N) : N := if b then w else 0.

Fixpoint pack_bits (l : list bool) : list N :=
  match l with
  | b7 :: b6 :: b5 :: b4 :: b3 :: b2 :: b1 :: b0 :: r =>
      (bitw b7 128 + bitw b6 64 + bitw b5 32 + bitw b4 16 + bitw b3 8 + bitw b2 4 + bitw b1 2 + bitw b0 1)
        :: pack_bits r
  | _ => []
  end.

(* number of bits missing to the next byte boundary *)
Definition pad_len (n : nat) : nat := N.to_nat ((8 - N.of_nat n mod 8) mod 8).

Definition repeat_false (n : nat) : list bool := repeatN false n.

(* ------------------------------------------------------------------------------------------- *)
(* comparison on the defined bytes                                                               *)

Definition ones (n : nat) : list N := repeatN 255 n.

(* a page described by segments: bytes the builder defines, bytes of which it defines the bits of
   [m] only, and [n] bytes it does not touch.  [seg_bytes] is the page with zeros in the undefined
   places (what the plain encoders produce), [seg_mask] one mask byte per page byte (255 = defined,
   0 = undefined). *)
Inductive seg :=
| SDef (bytes : list N)
| SMask (bytes : list N) (m : N)
| SUndef (n : N).

Fixpoint seg_bytes (l : list seg) : list N :=
  match l with
  | [] => []
  | SDef b :: r => b ++ seg_bytes r
  | SMask b _ :: r => b ++ seg_bytes r
  | SUndef n :: r => zeros (N.to_nat n) ++ seg_bytes r
  end.

Fixpoint seg_mask (l : list seg) : list N :=
  match l with
  | [] => []
  | SDef b :: r => ones (length b) ++ seg_mask r
  | SMask b m :: r => repeatN m (length b) ++ seg_mask r
  | SUndef n :: r => zeros (N.to_nat n) ++ seg_mask r
  end.

Fixpoint seg_len (l : list seg) : N :=
  match l with
  | [] => 0
  | SDef b :: r => lenN b + seg_len r
  | SMask b _ :: r => lenN b + seg_len r
  | SUndef n :: r => n + seg_len r
  end.

(* compare [bytes] with the front of [real]: (rest of real, differing offsets, real ran out).  The
   offset of a difference is computed from what is left of the real page (a page of 4096 bytes). *)
Fixpoint cmp_eq (bytes real : list N) (bad : list N) : list N * list N * bool :=
  match bytes with
  | [] => (real, bad, false)
  | e :: bytes' =>
      match real with
      | [] => (real, bad, true)
      | r :: real' => cmp_eq bytes' real' (if e =? r then bad else (PAGE - lenN real) :: bad)
      end
  end.

(* the same on the bits of [m] only *)
Fixpoint cmp_mask (m : N) (bytes real : list N) (bad : list N) : list N * list N * bool :=
  match bytes with
  | [] => (real, bad, false)
  | e :: bytes' =>
      match real with
      | [] => (real, bad, true)
      | r :: real' =>
          cmp_mask m bytes' real' (if N.land e m =? N.land r m then bad else (PAGE - lenN real) :: bad)
      end
  end.

(* skip [n] undefined bytes of [real], counting the non-zero ones (stale content of the pool page):
   (rest of real, stale, real ran out) *)
Fixpoint cmp_undef (n : N) (real : list N) (stale : N) : list N * N * bool :=
  match real with
  | [] => (real, stale, negb (n =? 0))
  | r :: real' =>
      if n =? 0 then (real, stale, false)
      else cmp_undef (N.pred n) real' (if r =? 0 then stale else N.succ stale)
  end.

Fixpoint compare_segs_aux (l : list seg) (real : list N) (bad : list N) (cmp stale : N)
  : list N * list N * N * N * bool :=
  match l with
  | [] => (real, bad, cmp, stale, false)
  | SDef b :: r =>
      let '(real', bad', short) := cmp_eq b real bad in
      if short then (real', bad', cmp, stale, true)
      else compare_segs_aux r real' bad' (cmp + lenN b) stale
  | SMask b m :: r =>
      let '(real', bad', short) := cmp_mask m b real bad in
      if short then (real', bad', cmp, stale, true)
      else compare_segs_aux r real' bad' (cmp + lenN b) stale
  | SUndef n :: r =>
      let '(real', stale', short) := cmp_undef n real stale in
      if short then (real', bad, cmp, stale', true)
      else compare_segs_aux r real' bad cmp stale'
  end.

(* Result: offsets where the real page differs from the segments on defined bits (a real page or
   a segment list that is not exactly 4096 bytes long is reported as offset 4096), number of bytes
   compared, number of non-zero bytes of the real page in undefined places. *)
Definition compare_segs (l : list seg) (real : list N) : list N * N * N :=
  let '(rest, bad, cmp, stale, short) := compare_segs_aux l real [] 0 0 in
  let bad' := if short || negb (seg_len l =? PAGE) || match rest with [] => false | _ => true end
              then PAGE :: bad else bad in
  (rev_append bad' [], cmp, stale).

(* ------------------------------------------------------------------------------------------- *)
(* 1. leaves                                                                                     *)

(* overflow.rs::encode_cell *)
Definition ovf_cell (o : overflow) : list N :=
  le_bytes 8 (o_size o) ++ o_hash o ++ flat_map (le_bytes 4) (o_cell_pages o).

(* the arguments of LeafBuilder::push_cell(key, value, overflow) for a decoded entry *)
Definition cell_of (e : entry) : list N :=
  match e_ovf e with None => e_val e | Some o => ovf_cell o end.
Definition is_ovf (e : entry) : bool :=
  match e_ovf e with None => false | Some _ => true end.

(* encode_cell_pointer: key ++ u16 (offset | OVERFLOW_BIT); [off] is PAGE_SIZE - remaining_value_size *)
Definition cp_raw (e : entry) (off : N) : N := off + (if is_ovf e then OVERFLOW_BIT else 0).

Fixpoint cell_ptrs (es : list entry) (off : N) : list N :=
  match es with
  | [] => []
  | e :: r => pack_bits (e_key e) ++ le_bytes 2 (cp_raw e off) ++ cell_ptrs r (off + lenN (cell_of e))
  end.

Definition cells (es : list entry) : list N := flat_map cell_of es.
Definition leaf_first (es : list entry) : N := PAGE - lenN (cells es).
Definition leaf_gap (es : list entry) : N := leaf_first es - (2 + 34 * lenN es).

Definition encode_leaf_gen (gap : list N) (es : list entry) : list N :=
  le_bytes 2 (lenN es) ++ cell_ptrs es (leaf_first es) ++ gap ++ cells es.

Definition encode_leaf (es : list entry) : list N :=
  encode_leaf_gen (zeros (N.to_nat (leaf_gap es))) es.

(* what LeafNode::cell_pointers / LeafBuilder assert: n * 34 < LEAF_NODE_BODY_SIZE, the cells and
   the cell pointers fit (remaining_value_size reaches 0 without overlap) *)
Definition leaf_fits (es : list entry) : bool :=
  (34 * lenN es <? 4094) && (2 + 34 * lenN es + lenN (cells es) <=? PAGE).

(* an inline entry as the decoder returns it *)
Definition inline_ok (e : entry) : bool :=
  Nat.eqb (length (e_key e)) 256 && negb (is_ovf e) && (e_len e =? lenN (e_val e)).

Definition leaf_segs (es : list entry) : list seg :=
  let c := cells es in
  let n := lenN es in
  let first := PAGE - lenN c in
  [SDef (le_bytes 2 n ++ cell_ptrs es first); SUndef (first - (2 + 34 * n)); SDef c].

Definition leaf_mask (es : list entry) : list N := seg_mask (leaf_segs es).

(* ------------------------------------------------------------------------------------------- *)
(* 2. overflow pages                                                                             *)

Definition ovf_prefix (pns bytes : list N) : list N :=
  le_bytes 2 (lenN pns) ++ le_bytes 2 (lenN bytes) ++ flat_map (le_bytes 4) pns ++ bytes.

Definition ovf_used (pns bytes : list N) : N := 4 + 4 * lenN pns + lenN bytes.

Definition encode_overflow_page_gen (tail : list N) (pns bytes : list N) : list N :=
  ovf_prefix pns bytes ++ tail.

Definition encode_overflow_page (pns bytes : list N) : list N :=
  encode_overflow_page_gen (zeros (N.to_nat (PAGE - ovf_used pns bytes))) pns bytes.

Definition MAX_PNS : N := 1023.

(* chunk: pns_written <= MAX_PNS, bytes <= BODY_SIZE - 4 * pns_written; page numbers are u32 *)
Definition ovf_page_fits (pns bytes : list N) : bool :=
  (lenN pns <=? MAX_PNS) && (ovf_used pns bytes <=? PAGE) && forallb (fun p => p <? 2 ^ 32) pns.

Definition ovf_segs (pns bytes : list N) : list seg :=
  [SDef (le_bytes 2 (lenN pns) ++ le_bytes 2 (lenN bytes) ++ flat_map (le_bytes 4) pns); SDef bytes;
   SUndef (PAGE - ovf_used pns bytes)].

Definition ovf_page_mask (pns bytes : list N) : list N := seg_mask (ovf_segs pns bytes).

(* the pages of one value as overflow.rs::chunk fills them: [all] = cell pages ++ other pages in
   allocation order, [to_write] = the other pages not yet recorded, [value] = the bytes left *)
Record opage := mkOpage { op_pn : N; op_pns : list N; op_bytes : list N }.

Definition take_upto {A} (n : N) (l : list A) : list A * list A :=
  match split_exact n l with Some p => p | None => (l, []) end.

Fixpoint chunk_pages (all to_write value : list N) : list opage :=
  match all with
  | [] => []
  | pn :: r =>
      let '(pns, rest) := take_upto MAX_PNS to_write in
      let '(bytes, value') := take_upto (BODY_SIZE - 4 * lenN pns) value in
      mkOpage pn pns bytes :: chunk_pages r rest value'
  end.

Definition chunk (value pages : list N) : list opage :=
  chunk_pages pages (dropN MAX_CELL_PNS pages) value.

(* reading order: the queue starts with the cell's page numbers; each page read must be the next of
   the queue and appends its own page numbers.  Some rest = the chain reads in this order and
   [rest] is what remains queued. *)
Fixpoint chain_rest (queue : list N) (pages : list opage) : option (list N) :=
  match pages with
  | [] => Some queue
  | p :: ps =>
      match queue with
      | q :: qs => if q =? op_pn p then chain_rest (qs ++ op_pns p) ps else None
      | [] => None
      end
  end.

(* decode_cell's assertions and encode_cell's: at least one page number, 32-byte hash, size bound *)
Definition ovf_cell_fits (o : overflow) : bool :=
  (o_size o <=? MAX_OVERFLOW_VALUE_SIZE) && (lenN (o_hash o) =? 32) && (1 <=? lenN (o_cell_pages o))
  && forallb (fun p => p <? 2 ^ 32) (o_cell_pages o).

(* ------------------------------------------------------------------------------------------- *)
(* 3. branches                                                                                   *)

(* a separator as BranchNodeBuilder::push receives it: the 256-bit key and separator_len *)
Definition sepl := (key * N)%type.

(* the bits set_separator stores: key[prefix_len..][..separator_len.saturating_sub(prefix_len)] for
   the prefix-compressed ones, key[..separator_len] for the others *)
Definition stored_bits (plen : N) (compressed : bool) (s : sepl) : list bool :=
  if compressed then firstn (N.to_nat (snd s - plen)) (skipn (N.to_nat plen) (fst s))
  else firstn (N.to_nat (snd s)) (fst s).

Fixpoint stored_all (plen pc i : N) (seps : list sepl) : list (list bool) :=
  match seps with
  | [] => []
  | s :: r => stored_bits plen (i <? pc) s :: stored_all plen pc (i + 1) r
  end.

(* cells: END bit offsets (bit_offset_end as u16) *)
Fixpoint cell_ends (acc : N) (st : list (list bool)) : list N :=
  match st with
  | [] => []
  | b :: r => (acc + lenN b) :: cell_ends (acc + lenN b) r
  end.

(* set_prefix: the first prefix_len bits of the first pushed key *)
Definition branch_prefix (plen : N) (seps : list sepl) : list bool :=
  match seps with [] => [] | s :: _ => firstn (N.to_nat plen) (fst s) end.

Definition branch_bitvec (pc plen : N) (seps : list sepl) : list bool :=
  branch_prefix plen seps ++ concat (stored_all plen pc 0 seps).

Definition branch_head (padbits : list bool) (bbn pc plen : N) (seps : list sepl) : list N :=
  le_bytes 4 bbn ++ le_bytes 2 (lenN seps) ++ le_bytes 2 pc ++ le_bytes 2 plen
  ++ flat_map (le_bytes 2) (cell_ends 0 (stored_all plen pc 0 seps))
  ++ pack_bits (branch_bitvec pc plen seps ++ padbits).

Definition encode_branch_gen (padbits : list bool) (gap : list N) (bbn pc plen : N)
           (seps : list sepl) (pns : list N) : list N :=
  branch_head padbits bbn pc plen seps ++ gap ++ flat_map (le_bytes 4) pns.

Definition branch_bits (pc plen : N) (seps : list sepl) : N := lenN (branch_bitvec pc plen seps).
Definition branch_used (pc plen : N) (seps : list sepl) : N :=
  BRANCH_HEADER + 2 * lenN seps + (branch_bits pc plen seps + 7) / 8.
Definition branch_gap (pc plen : N) (seps : list sepl) : N :=
  PAGE - 4 * lenN seps - branch_used pc plen seps.

Definition encode_branch (bbn pc plen : N) (seps : list sepl) (pns : list N) : list N :=
  encode_branch_gen (repeat_false (pad_len (length (branch_bitvec pc plen seps))))
                    (zeros (N.to_nat (branch_gap pc plen seps))) bbn pc plen seps pns.

(* node::body_size(prefix_len, total_separator_lengths, n) <= BRANCH_NODE_BODY_SIZE, and what the
   u16 / u32 fields can hold *)
Definition branch_fits (bbn pc plen : N) (seps : list sepl) (pns : list N) : bool :=
  (1 <=? lenN seps) && (lenN pns =? lenN seps)
  && (branch_used pc plen seps + 4 * lenN seps <=? PAGE)
  && (pc <=? lenN seps) && (plen <=? 256) && (bbn <? 2 ^ 32)
  && forallb (fun p => p <? 2 ^ 32) pns.

Definition all_false (l : list bool) : bool := forallb negb l.

(* a separator the decoder can return: 256 bits, nothing but zeros behind its length; a
   prefix-compressed one starts with the node's prefix *)
Definition sep_ok (plen : N) (prefix : list bool) (compressed : bool) (s : sepl) : bool :=
  Nat.eqb (length (fst s)) 256 && (snd s <=? 256)
  && (if compressed
      then all_false (skipn (N.to_nat (N.max (snd s) plen)) (fst s)) && is_prefix prefix (fst s)
      else all_false (skipn (N.to_nat (snd s)) (fst s))).

Fixpoint seps_ok (plen pc i : N) (prefix : list bool) (seps : list sepl) : bool :=
  match seps with
  | [] => true
  | s :: r => sep_ok plen prefix (i <? pc) s && seps_ok plen pc (i + 1) prefix r
  end.

Definition branch_ok (bbn pc plen : N) (seps : list sepl) (pns : list N) : bool :=
  branch_fits bbn pc plen seps pns && seps_ok plen pc 0 (branch_prefix plen seps) seps.

(* the last byte of the bit vector when the vector does not end on a byte boundary: its first
   [bits mod 8] bits are defined *)
Definition partial_mask (r : N) : N := 255 - (2 ^ (8 - r) - 1).

Definition branch_segs (bbn pc plen : N) (seps : list sepl) (pns : list N) : list seg :=
  let bits := branch_bits pc plen seps in
  let st := stored_all plen pc 0 seps in
  let bv := branch_bitvec pc plen seps in
  let body := pack_bits (bv ++ repeat_false (pad_len (length bv))) in
  [SDef (le_bytes 4 bbn ++ le_bytes 2 (lenN seps) ++ le_bytes 2 pc ++ le_bytes 2 plen
         ++ flat_map (le_bytes 2) (cell_ends 0 st) ++ firstn (N.to_nat (bits / 8)) body);
   SMask (skipn (N.to_nat (bits / 8)) body) (partial_mask (bits mod 8));
   SUndef (branch_gap pc plen seps);
   SDef (flat_map (le_bytes 4) pns)].

Definition branch_mask (bbn pc plen : N) (seps : list sepl) (pns : list N) : list N :=
  seg_mask (branch_segs bbn pc plen seps pns).

(* --- re-encoding a decoded branch.  Image.branch keeps the reconstructed keys but not the
   separator lengths; they are read back from the cells of the page ([len = stored length +
   prefix_len] for a prefix-compressed separator: every length up to prefix_len stores nothing). *)
Definition raw_cells (pg : list N) : option (list N) :=
  match u16 pg 4 with
  | Some n => option_map u16s (sliceN BRANCH_HEADER (2 * n) pg)
  | None => None
  end.

Fixpoint sep_lens (plen pc i prev : N) (cells : list N) : list N :=
  match cells with
  | [] => []
  | c :: r => ((c - prev) + (if i <? pc then plen else 0)) :: sep_lens plen pc (i + 1) c r
  end.

Definition branch_seps (b : branch) (pg : list N) : option (list sepl) :=
  match raw_cells pg with
  | Some cells =>
      Some (combine (b_seps b) (sep_lens (b_prefix_len b) (b_prefix_compressed b) 0 0 cells))
  | None => None
  end.

(* separators whose stored length is not the one the update path computes for a pushed key,
   separator_len(key) (minus the prefix): push_chunk derives lengths from the base node's cells *)
Definition canonical_len (plen : N) (compressed : bool) (k : key) : N :=
  let sl := N.of_nat (BitOps.separator_len k) in
  if compressed then sl - plen else sl.

Fixpoint noncanonical (plen pc i : N) (seps : list sepl) : N :=
  match seps with
  | [] => 0
  | s :: r =>
      (if lenN (stored_bits plen (i <? pc) s) =? canonical_len plen (i <? pc) (fst s) then 0 else 1)
      + noncanonical plen pc (i + 1) r
  end.

(* ------------------------------------------------------------------------------------------- *)
(* 4. manifest                                                                                   *)

Definition manifest_prefix (m : manifest) : list N :=
  le_bytes 4 (mf_magic m) ++ le_bytes 4 (mf_version m) ++ le_bytes 4 (mf_ln_freelist_pn m)
  ++ le_bytes 4 (mf_ln_bump m) ++ le_bytes 4 (mf_bbn_freelist_pn m) ++ le_bytes 4 (mf_bbn_bump m)
  ++ le_bytes 4 (mf_sync_seqn m) ++ le_bytes 4 (mf_bitbox_num_pages m) ++ mf_bitbox_seed m
  ++ le_bytes 8 (mf_rollback_start_live m) ++ le_bytes 8 (mf_rollback_end_live m).

Definition META_SIZE : N := 64.

Definition encode_manifest_gen (tail : list N) (m : manifest) : list N := manifest_prefix m ++ tail.
Definition encode_manifest (m : manifest) : list N :=
  encode_manifest_gen (zeros (N.to_nat (PAGE - META_SIZE))) m.

Definition manifest_fits (m : manifest) : bool :=
  (mf_magic m <? 2 ^ 32) && (mf_version m <? 2 ^ 32) && (mf_ln_freelist_pn m <? 2 ^ 32)
  && (mf_ln_bump m <? 2 ^ 32) && (mf_bbn_freelist_pn m <? 2 ^ 32) && (mf_bbn_bump m <? 2 ^ 32)
  && (mf_sync_seqn m <? 2 ^ 32) && (mf_bitbox_num_pages m <? 2 ^ 32)
  && (lenN (mf_bitbox_seed m) =? 16)
  && (mf_rollback_start_live m <? 2 ^ 64) && (mf_rollback_end_live m <? 2 ^ 64).

Definition manifest_segs (m : manifest) : list seg := [SDef (manifest_prefix m); SUndef (PAGE - META_SIZE)].
Definition manifest_mask (m : manifest) : list N := seg_mask (manifest_segs m).

(* ------------------------------------------------------------------------------------------- *)
(* 5. re-encoding the pages of a decoded image (command imgreencode)                             *)

(* the segments of a decoded leaf: [seg_bytes] of them is [encode_leaf (l_entries l)] *)
Definition reencode_leaf (l : leaf) : list seg := leaf_segs (l_entries l).

(* the overflow pages of a decoded entry, laid out as chunk lays the decoded value out over the
   decoded page list *)
Definition reencode_overflow (e : entry) : list (N * list seg) :=
  match e_ovf e with
  | None => []
  | Some o => map (fun p => (op_pn p, ovf_segs (op_pns p) (op_bytes p))) (chunk (e_val e) (o_pages o))
  end.

(* the segments of a decoded branch and the number of its non-canonical separator lengths *)
Definition reencode_branch (b : branch) (pg : list N) : option (list seg * N) :=
  match branch_seps b pg with
  | Some seps =>
      let pc := b_prefix_compressed b in
      let plen := b_prefix_len b in
      Some (branch_segs (b_bbn_pn b) pc plen seps (b_lns b), noncanonical plen pc 0 seps)
  | None => None
  end.

Definition reencode_manifest (m : manifest) : list seg := manifest_segs m.

(* ------------------------------------------------------------------------------------------- *)
(* examples: the hand-made pages of Image.v are what the encoders produce                        *)

Section Examples.

  Definition ex_e1 : entry := mkEntry (bits_of_bytes ex_k1) [1; 2; 3] 3 None.
  Definition ex_e2 : entry := mkEntry (bits_of_bytes ex_k2) [4; 5; 6; 7; 8] 5 None.

  Example encode_leaf_ex : encode_leaf [ex_e1; ex_e2] = ex_leaf.
  Proof. vm_compute. reflexivity. Qed.
  Example leaf_fits_ex : leaf_fits [ex_e1; ex_e2] && forallb inline_ok [ex_e1; ex_e2] = true.
  Proof. vm_compute. reflexivity. Qed.

  (* the overflow leaf of Image.v: 5000 bytes in pages 7 and 8 *)
  Definition ex_ovf : overflow := mkOverflow 5000 (repeatN 170 32) [7; 8] [7; 8] true.
  Definition ex_value : list N := repeatN 1 4092 ++ repeatN 2 908.
  Definition ex_e3 : entry := mkEntry (bits_of_bytes ex_k1) ex_value 5000 (Some ex_ovf).

  Example encode_ovf_leaf_ex : encode_leaf [ex_e3] = ex_ovf_leaf.
  Proof. vm_compute. reflexivity. Qed.
  Example ovf_cell_fits_ex : ovf_cell_fits ex_ovf = true.
  Proof. vm_compute. reflexivity. Qed.
  Example chunk_ex :
    map (fun p => (op_pn p, op_pns p, lenN (op_bytes p))) (chunk ex_value [7; 8])
    = [(7, [], 4092); (8, [], 908)].
  Proof. vm_compute. reflexivity. Qed.
  Example chunk_pages_ex :
    forallb (fun p => match ex_ovf_rd (op_pn p) with
                      | Some pg => bytes_eqb pg (encode_overflow_page (op_pns p) (op_bytes p))
                                   && ovf_page_fits (op_pns p) (op_bytes p)
                      | None => false
                      end) (chunk ex_value [7; 8]) = true.
  Proof. vm_compute. reflexivity. Qed.
  Example chain_rest_ex : chain_rest [7; 8] (chunk ex_value [7; 8]) = Some [].
  Proof. vm_compute. reflexivity. Qed.

  (* a value of 16 * 4092 - 4 bytes: 15 pages in the cell, the 16th recorded in the first page *)
  Definition ex_pages16 : list N := [21; 22; 23; 24; 25; 26; 27; 28; 29; 30; 31; 32; 33; 34; 35; 36].
  Definition ex_value16 : list N := repeatN 7 (16 * 4092 - 4).
  Example chunk16_ex :
    (map (fun p => (op_pns p, lenN (op_bytes p))) (firstn 2 (chunk ex_value16 ex_pages16)),
     chain_rest (firstn 15 ex_pages16) (chunk ex_value16 ex_pages16),
     lenN (chunk ex_value16 ex_pages16) =? total_needed_pages (16 * 4092 - 4),
     forallb (fun p => ovf_page_fits (op_pns p) (op_bytes p)) (chunk ex_value16 ex_pages16),
     lenN (concat (map op_bytes (chunk ex_value16 ex_pages16))))
    = ([([36], 4088); ([], 4092)], Some [], true, true, 16 * 4092 - 4).
  Proof. vm_compute. reflexivity. Qed.

  (* the branch of Image.v: n = 3, prefix 1010 shared by the first two separators *)
  Definition ex_s0 : sepl := (pad256 [true; false; true; false], 3).
  Definition ex_s1 : sepl := (pad256 [true; false; true; false; true; true], 6).
  Definition ex_s2 : sepl := (pad256 [true; true], 2).

  Example encode_branch_ex : encode_branch 7 2 4 [ex_s0; ex_s1; ex_s2] [5; 6; 9] = ex_branch.
  Proof. vm_compute. reflexivity. Qed.
  Example branch_ok_ex : branch_ok 7 2 4 [ex_s0; ex_s1; ex_s2] [5; 6; 9] = true.
  Proof. vm_compute. reflexivity. Qed.
  Example branch_seps_ex :
    match decode_branch 7 ex_branch with
    | Ok b => match branch_seps b ex_branch with
              | Some seps => map snd seps
              | None => []
              end
    | Err _ _ _ => []
    end = [4; 6; 2].
  Proof. vm_compute. reflexivity. Qed.
  Example branch_mask_ex :
    let m := branch_mask 7 2 4 [ex_s0; ex_s1; ex_s2] [5; 6; 9] in
    (nthN 16 m, nthN 17 m, nthN 4083 m, nthN 4084 m, lenN m) = (Some 255, Some 0, Some 0, Some 255, 4096).
  Proof. vm_compute. reflexivity. Qed.
  (* a bit vector that ends inside a byte: 4 + 0 + 2 + 1 = 7 bits, the last bit is undefined *)
  Definition ex_s2' : sepl := (pad256 [true], 1).
  Example branch_mask_partial_ex :
    let m := branch_mask 7 2 4 [ex_s0; ex_s1; ex_s2'] [5; 6; 9] in
    (nthN 15 m, nthN 16 m, nthN 17 m, lenN m,
     bytes_eqb (seg_bytes (branch_segs 7 2 4 [ex_s0; ex_s1; ex_s2'] [5; 6; 9]))
               (encode_branch 7 2 4 [ex_s0; ex_s1; ex_s2'] [5; 6; 9]))
    = (Some 255, Some 254, Some 0, 4096, true).
  Proof. vm_compute. reflexivity. Qed.

  Definition ex_manifest : manifest :=
    mkManifest MAGIC 1 3 9 0 2 5 64000 (zeros 16) 1 4.
  Example encode_manifest_ex : encode_manifest ex_manifest = ex_meta.
  Proof. vm_compute. reflexivity. Qed.
  Example manifest_fits_ex : manifest_fits ex_manifest = true.
  Proof. vm_compute. reflexivity. Qed.

  Example compare_segs_ex :
    (compare_segs (leaf_segs [ex_e1; ex_e2]) ex_leaf,
     compare_segs (leaf_segs [ex_e1; ex_e2]) (le_bytes 2 2 ++ [18] ++ dropN 3 ex_leaf),
     compare_segs (leaf_segs [ex_e1; ex_e2]) (firstn 100 ex_leaf ++ [9; 9] ++ skipn 102 ex_leaf),
     compare_segs (leaf_segs [ex_e1; ex_e2]) (ex_leaf ++ [0]),
     compare_segs (leaf_segs [ex_e1; ex_e2]) (firstn 4095 ex_leaf),
     compare_segs (leaf_segs [ex_e1; ex_e2]) (firstn 4095 ex_leaf ++ [9]))
    = (([], 78, 0), ([2], 78, 0), ([], 78, 2), ([4096], 78, 0), ([4096], 70, 0), ([4095], 78, 0)).
  Proof. vm_compute. reflexivity. Qed.
  Example compare_segs_mask_ex :
    compare_segs [SDef [1]; SMask [3 * 16] 240; SUndef 4092; SDef [4; 5]]
                 ([1; 3 * 16 + 5] ++ zeros 4090 ++ [7; 9; 5; 5]) = ([4094], 4, 2).
  Proof. vm_compute. reflexivity. Qed.
  Example seg_bytes_ex :
    (bytes_eqb (seg_bytes (leaf_segs [ex_e1; ex_e2])) (encode_leaf [ex_e1; ex_e2]),
     bytes_eqb (seg_bytes (ovf_segs [36] [1; 2; 3])) (encode_overflow_page [36] [1; 2; 3]),
     bytes_eqb (seg_bytes (branch_segs 7 2 4 [ex_s0; ex_s1; ex_s2] [5; 6; 9])) ex_branch,
     bytes_eqb (seg_bytes (manifest_segs ex_manifest)) ex_meta)
    = (true, true, true, true).
  Proof. vm_compute. reflexivity. Qed.

End Examples.
