(* C03 / C04 / C17: crash and power-loss atomicity of the commit protocol model (SyncProto.v).

   Main results (Part 4): [powerloss_atomic], [crash_is_powerloss], [crash_atomic],
   [old_image_intact]; witnesses (Part 5): [wal_unsafe_refuted] (F8), [wal_fsync_necessary],
   [tree_fsync_necessary], [ht_fsync_necessary].

   After the F8 fix (the post-meta truncation of the WAL is fsynced; [post_ok] accepts [EF FWal]):
   [wal_safe_after_synced_truncation], [next_start_wal_safe] (a disciplined complete sync leaves
   the WAL durably empty with nothing pending), [powerloss_atomic_next_sync], [history_atomic]
   (along a history of complete syncs only the first one needs [wal_safe]).

   Deviations from the statements handed out (both machine-checked as necessary):
   * [wal_safe] is  wal_old = [] \/ (|wal_old| <= 1 /\ |wal_new| <= 1) \/ durable WAL empty
     instead of  |wal_old| <= 1 \/ durable WAL empty : [original_wal_safe_refuted].
     For a reader that stops at the blob's END tag ([recover_end], Part 6) the handed-out
     condition is sufficient: [powerloss_atomic_endtag], [crash_atomic_endtag].
   * [pre_ok] (SyncProto.v) now demands that a WAL write carries the page of the new blob that
     belongs at that position: [pre_ok_wal_clause_needed]. *)
From Nomt Require Import Base SyncProto.

(* ====================================================================================== *)
(* Part 0: executable enumeration of all power-loss images of a (five-file) disk; used to   *)
(* test the statements on concrete instances before/independently of the proofs.            *)
(* ====================================================================================== *)

Fixpoint all_keeps (n : nat) : list (list bool) :=
  match n with
  | O => [[]]
  | S k => flat_map (fun l => [true :: l; false :: l]) (all_keeps k)
  end.

Definition keeps_of (d : disk) (f : nat) : list (list bool) := all_keeps (length (fpend (fget d f))).

Definition img5 (d : disk) (k0 k1 k2 k3 k4 : list bool) : image :=
  fun f pn =>
    file_image (fget d f)
      (match f with 0 => k0 | 1 => k1 | 2 => k2 | 3 => k3 | 4 => k4 | _ => [] end) pn.

Definition images5 (d : disk) : list image :=
  flat_map (fun k0 => flat_map (fun k1 => flat_map (fun k2 => flat_map (fun k3 =>
    map (fun k4 => img5 d k0 k1 k2 k3 k4) (keeps_of d 4)) (keeps_of d 3)) (keeps_of d 2)) (keeps_of d 1))
    (keeps_of d 0).

Definition is_old (r : outcome) : bool := match r with ROld => true | _ => false end.
Definition is_new (r : outcome) : bool := match r with RNew => true | _ => false end.

Definition check_cut (I : inst) (d0 : disk) (tr : list ev) (n : nat) : bool :=
  forallb (fun img =>
    let r := recover I img in
    (is_old r || is_new r) &&
    (match index_of is_meta_write tr with
     | Some iw => if Nat.leb n iw then is_old r else true | None => true end) &&
    (match index_of is_meta_sync tr with
     | Some is_ => if Nat.ltb is_ n then is_new r else true | None => true end))
    (images5 (drun d0 (firstn n tr))).

Definition check_all (I : inst) (d0 : disk) (tr : list ev) : bool :=
  forallb (check_cut I d0 tr) (seq 0 (S (length tr))).

Definition mkf (dur : list (N * cid)) (pend : list pop) : fstate := {| fdur := dur; fpend := pend |}.

Module Tests.
  Local Open Scope N_scope.
  (* instance A: two-page blobs *)
  Definition IA : inst := {|
    m_old := 1; m_new := 2;
    live_old := [(FLn, 0, 10); (FBbn, 0, 20)]%N;
    tree_new := [(FLn, 1, 11); (FBbn, 1, 21)]%N;
    wal_old := [30; 31]%N; wal_new := [40; 41]%N;
    ht_old := [(0, 50); (1, 51)]%N; ht_new := [(0, 60); (1, 61)]%N |}.
  (* previous WAL truncation durable (file empty), a second truncation still pending *)
  Definition dA : disk :=
    [(FMeta, mkf [(0, 1)]%N []); (FWal, mkf [] [PTrunc 0]);
     (FHt, mkf [(0, 50); (1, 51)]%N []); (FLn, mkf [(0, 10)]%N []); (FBbn, mkf [(0, 20)]%N [])].
  Definition trA : list ev :=
    [ET FWal 0; EW FWal 0 40; EW FWal 1 41; EF FWal;
     ET FLn 2; ES FLn 1 11; ES FBbn 1 21; EC FLn 1; EC FBbn 1; EF FLn; EF FBbn;
     EW FMeta 0 2; EF FMeta;
     ES FHt 0 60; ES FHt 1 61; EC FHt 1; EC FHt 0; EF FHt; ET FWal 0]%N.
  Example trA_disciplined : discipline IA dA trA = true. Proof. vm_compute. reflexivity. Qed.
  Example trA_atomic : check_all IA dA trA = true. Proof. vm_compute. reflexivity. Qed.

  (* same, but the old two-page blob is still durable (its truncation never reached the disk):
     NOT safe - this is F8 *)
  Definition dA' : disk :=
    [(FMeta, mkf [(0, 1)]%N []); (FWal, mkf [(0, 30); (1, 31)]%N [PTrunc 0]);
     (FHt, mkf [(0, 50); (1, 51)]%N []); (FLn, mkf [(0, 10)]%N []); (FBbn, mkf [(0, 20)]%N [])].
  Example trA'_disciplined : discipline IA dA' trA = true. Proof. vm_compute. reflexivity. Qed.
  Example trA'_not_atomic : check_all IA dA' trA = false. Proof. vm_compute. reflexivity. Qed.

  (* instance B: one-page blobs, old blob still durable, truncation pending *)
  Definition IB : inst := {|
    m_old := 1; m_new := 2;
    live_old := [(FLn, 0, 10); (FBbn, 0, 20)]%N;
    tree_new := [(FLn, 1, 11)]%N;
    wal_old := [30]%N; wal_new := [40]%N;
    ht_old := [(3, 50)]%N; ht_new := [(3, 60)]%N |}.
  Definition dB : disk :=
    [(FMeta, mkf [(0, 1)]%N []); (FWal, mkf [(0, 30)]%N [PTrunc 0]);
     (FHt, mkf [(3, 50)]%N []); (FLn, mkf [(0, 10)]%N []); (FBbn, mkf [(0, 20)]%N [])].
  Definition trB : list ev :=
    [ES FLn 1 11; ET FWal 0; EW FWal 0 40; EC FLn 1; EF FLn; EF FWal;
     EW FMeta 0 2; EF FMeta;
     EW FHt 3 60; EF FHt; ET FWal 0; ET FWal 0]%N.
  Example trB_disciplined : discipline IB dB trB = true. Proof. vm_compute. reflexivity. Qed.
  Example trB_atomic : check_all IB dB trB = true. Proof. vm_compute. reflexivity. Qed.

  (* instance C: old blob one page and durable, new blob two pages: NOT safe with [recover] as
     modelled (it demands a zero page after the blob) *)
  Definition IC : inst := {|
    m_old := 1; m_new := 2;
    live_old := [(FLn, 0, 10)]%N; tree_new := [(FLn, 1, 11)]%N;
    wal_old := [30]%N; wal_new := [40; 41]%N;
    ht_old := [(3, 50)]%N; ht_new := [(3, 60)]%N |}.
  Definition trC : list ev :=
    [ES FLn 1 11; ET FWal 0; EW FWal 0 40; EW FWal 1 41; EC FLn 1; EF FLn; EF FWal;
     EW FMeta 0 2; EF FMeta;
     EW FHt 3 60; EF FHt; ET FWal 0]%N.
  Example trC_disciplined : discipline IC dB trC = true. Proof. vm_compute. reflexivity. Qed.
  Example trC_not_atomic : check_all IC dB trC = false. Proof. vm_compute. reflexivity. Qed.
End Tests.

(* ====================================================================================== *)
(* Part 1: the disk model, file by file                                                     *)
(* ====================================================================================== *)

Ltac btac :=
  repeat match goal with
  | H : _ && _ = true |- _ => apply andb_true_iff in H; destruct H
  | H : negb _ = true |- _ => apply negb_true_iff in H
  | H : Nat.eqb _ _ = true |- _ => apply Nat.eqb_eq in H
  | H : N.eqb _ _ = true |- _ => apply N.eqb_eq in H
  end.

Lemma fget_fset_same : forall d f s, fget (fset d f s) f = s.
Proof.
  intros d f s. induction d as [|[g t] d IH]; simpl.
  - unfold fget. simpl. rewrite Nat.eqb_refl. reflexivity.
  - destruct (Nat.eqb g f) eqn:E.
    + unfold fget. simpl. rewrite Nat.eqb_refl. reflexivity.
    + unfold fget in *. simpl. rewrite E. exact IH.
Qed.

Lemma fget_fset_other : forall d f g s, f <> g -> fget (fset d f s) g = fget d g.
Proof.
  intros d f g s Hne. induction d as [|[h t] d IH]; simpl.
  - unfold fget. simpl. destruct (Nat.eqb f g) eqn:E; [apply Nat.eqb_eq in E; contradiction|reflexivity].
  - destruct (Nat.eqb h f) eqn:E.
    + apply Nat.eqb_eq in E. subst h. unfold fget. simpl.
      destruct (Nat.eqb f g) eqn:E2; [apply Nat.eqb_eq in E2; contradiction|reflexivity].
    + unfold fget in *. simpl. destruct (Nat.eqb h g) eqn:E2; [reflexivity|exact IH].
Qed.

Definition ev_file (e : ev) : nat :=
  match e with EW f _ _ | ES f _ _ | EC f _ | ET f _ | EF f => f end.

Definition fstep (s : fstate) (e : ev) : fstate :=
  match e with
  | EW _ pn c => {| fdur := fdur s; fpend := fpend s ++ [PWrite pn c true] |}
  | ES _ pn c => {| fdur := fdur s; fpend := fpend s ++ [PWrite pn c false] |}
  | EC _ pn => {| fdur := fdur s; fpend := complete_first (fpend s) pn |}
  | ET _ len => {| fdur := fdur s; fpend := fpend s ++ [PTrunc len] |}
  | EF _ => {| fdur := fold_left apply_pop (filter is_complete (fpend s)) (fdur s);
               fpend := filter (fun o => negb (is_complete o)) (fpend s) |}
  end.

Lemma dstep_fstep : forall d e, dstep d e = fset d (ev_file e) (fstep (fget d (ev_file e)) e).
Proof. intros d e. destruct e; reflexivity. Qed.

Lemma fget_dstep_same : forall d e, fget (dstep d e) (ev_file e) = fstep (fget d (ev_file e)) e.
Proof. intros. rewrite dstep_fstep. apply fget_fset_same. Qed.

Lemma fget_dstep_other : forall d e f, ev_file e <> f -> fget (dstep d e) f = fget d f.
Proof. intros. rewrite dstep_fstep. apply fget_fset_other. assumption. Qed.

Lemma drun_app : forall d l1 l2, drun d (l1 ++ l2) = drun (drun d l1) l2.
Proof. intros. unfold drun. apply fold_left_app. Qed.

(* a property of one file's state is preserved by a run if every event on that file preserves it *)
Lemma drun_file_inv : forall (P : fstate -> Prop) f tr d,
  P (fget d f) ->
  (forall s e, P s -> In e tr -> ev_file e = f -> P (fstep s e)) ->
  P (fget (drun d tr) f).
Proof.
  intros P f tr. induction tr as [|e tr IH]; intros d HP Hstep; simpl.
  - exact HP.
  - apply IH.
    + destruct (Nat.eq_dec (ev_file e) f) as [E|E].
      * subst f. rewrite fget_dstep_same. apply Hstep; auto. left; reflexivity.
      * rewrite fget_dstep_other by exact E. exact HP.
    + intros s e' Hs Hin. apply Hstep; auto. right; exact Hin.
Qed.

Lemma drun_untouched : forall f tr d,
  Forall (fun e => ev_file e <> f) tr -> fget (drun d tr) f = fget d f.
Proof.
  intros f tr d H.
  apply (drun_file_inv (fun s => s = fget d f)); [reflexivity|].
  intros s e _ Hin Hf. rewrite Forall_forall in H. exfalso. exact (H e Hin Hf).
Qed.

(* ---- per-page value invariants ---- *)
Definition op_ok (ok : N -> cid -> Prop) (o : pop) : Prop :=
  match o with
  | PWrite pn c _ => ok pn c
  | PTrunc len => forall pn, (len <= pn)%N -> ok pn 0%N
  end.

Definition finv (ok : N -> cid -> Prop) (s : fstate) : Prop :=
  (forall pn, ok pn (pm_get (fdur s) pn)) /\ Forall (op_ok ok) (fpend s).

Definition ev_ok (ok : N -> cid -> Prop) (e : ev) : Prop :=
  match e with
  | EW _ pn c | ES _ pn c => ok pn c
  | ET _ len => forall pn, (len <= pn)%N -> ok pn 0%N
  | _ => True
  end.

Lemma pm_get_trunc : forall m len pn,
  pm_get (pm_trunc m len) pn = if N.ltb pn len then pm_get m pn else 0%N.
Proof.
  intros m len pn. induction m as [|[p c] m IH].
  - simpl. destruct (N.ltb pn len); reflexivity.
  - unfold pm_trunc in *. simpl. destruct (N.ltb p len) eqn:E; simpl.
    + destruct (N.eqb p pn) eqn:E2.
      * apply N.eqb_eq in E2. subst p. rewrite E. reflexivity.
      * exact IH.
    + destruct (N.eqb p pn) eqn:E2.
      * apply N.eqb_eq in E2. subst p. rewrite E in *. exact IH.
      * exact IH.
Qed.

Lemma apply_ok : forall (ok : N -> cid -> Prop) m o,
  (forall pn, ok pn (pm_get m pn)) -> op_ok ok o -> forall pn, ok pn (pm_get (apply_pop m o) pn).
Proof.
  intros ok m o Hm Ho pn. destruct o as [p c b|len]; simpl in *.
  - destruct (N.eqb p pn) eqn:E.
    + apply N.eqb_eq in E. subst. exact Ho.
    + apply Hm.
  - rewrite pm_get_trunc. destruct (N.ltb pn len) eqn:E.
    + apply Hm.
    + apply Ho. apply N.ltb_ge. exact E.
Qed.

Lemma fold_ok : forall (ok : N -> cid -> Prop) ops m,
  (forall pn, ok pn (pm_get m pn)) -> Forall (op_ok ok) ops ->
  forall pn, ok pn (pm_get (fold_left apply_pop ops m) pn).
Proof.
  intros ok ops. induction ops as [|o ops IH]; intros m Hm Hops pn; simpl.
  - apply Hm.
  - inversion Hops; subst. apply IH; auto. apply apply_ok; auto.
Qed.

Lemma Forall_sel : forall A (P : A -> Prop) k l, Forall P l -> Forall P (sel k l).
Proof.
  intros A P k. induction k as [|b k IH]; intros l Hl; simpl.
  - constructor.
  - destruct b; destruct l as [|x l]; try constructor; inversion Hl; subst; auto.
Qed.

Lemma Forall_filter' : forall A (P : A -> Prop) g l, Forall P l -> Forall P (filter g l).
Proof.
  intros A P g l H. induction H as [|x l Hx Hl IH]; simpl.
  - constructor.
  - destruct (g x); auto.
Qed.

Lemma sel_nil : forall A k, @sel A k [] = [].
Proof. intros A k. destruct k as [|[] k]; reflexivity. Qed.

Lemma finv_image : forall (ok : N -> cid -> Prop) s, finv ok s -> forall keep pn, ok pn (file_image s keep pn).
Proof.
  intros ok s [Hd Hp] keep pn. unfold file_image. apply fold_ok; auto. apply Forall_sel. exact Hp.
Qed.

Lemma complete_first_ok : forall (ok : N -> cid -> Prop) l pn, Forall (op_ok ok) l -> Forall (op_ok ok) (complete_first l pn).
Proof.
  intros ok l pn H. induction H as [|o l Ho Hl IH]; simpl.
  - constructor.
  - destruct o as [p c [|]|len]; try (constructor; assumption).
    destruct (N.eqb p pn); constructor; assumption.
Qed.

Lemma finv_step : forall (ok : N -> cid -> Prop) s e, finv ok s -> ev_ok ok e -> finv ok (fstep s e).
Proof.
  intros ok s e [Hd Hp] He. destruct e as [f pn c|f pn c|f pn|f len|f]; simpl in *; split; simpl; auto.
  - apply Forall_app. split; auto.
  - apply Forall_app. split; auto.
  - apply complete_first_ok. exact Hp.
  - apply Forall_app. split; auto.
  - apply fold_ok; auto. apply Forall_filter'. exact Hp.
  - apply Forall_filter'. exact Hp.
Qed.

Lemma drun_finv : forall (ok : N -> cid -> Prop) f tr d,
  finv ok (fget d f) ->
  (forall e, In e tr -> ev_file e = f -> ev_ok ok e) ->
  finv ok (fget (drun d tr) f).
Proof.
  intros ok f tr d H0 Hev. apply drun_file_inv; auto.
  intros s e Hs Hin Hf. apply finv_step; auto.
Qed.

Lemma clean_image : forall s keep pn, fpend s = [] -> file_image s keep pn = pm_get (fdur s) pn.
Proof. intros s keep pn H. unfold file_image. rewrite H, sel_nil. reflexivity. Qed.

(* a file whose pending operations are all [PTrunc 0]: an image is the durable content or empty *)
Lemma fold_trunc0_zero : forall ops m,
  (forall pn, pm_get m pn = 0%N) -> Forall (fun o => o = PTrunc 0) ops ->
  forall pn, pm_get (fold_left apply_pop ops m) pn = 0%N.
Proof.
  intros ops. induction ops as [|o ops IH]; intros m Hm Hops pn; simpl.
  - apply Hm.
  - inversion Hops; subst. apply IH; auto. intros q. simpl. rewrite pm_get_trunc.
    destruct (N.ltb q 0); auto.
Qed.

Lemma trunc0_image : forall s keep,
  Forall (fun o => o = PTrunc 0) (fpend s) ->
  (forall pn, file_image s keep pn = pm_get (fdur s) pn) \/
  (fpend s <> [] /\ forall pn, file_image s keep pn = 0%N).
Proof.
  intros s keep H. unfold file_image.
  pose proof (Forall_sel _ _ keep _ H) as Hs.
  destruct (sel keep (fpend s)) as [|o ops] eqn:E.
  - left. intros pn. reflexivity.
  - right. split.
    + intros Hn. rewrite Hn, sel_nil in E. discriminate.
    + intros pn. inversion Hs; subst. simpl.
      apply fold_trunc0_zero; auto. intros q. rewrite pm_get_trunc.
      destruct (N.ltb_spec q 0); [lia|reflexivity].
Qed.

Lemma filter_trunc0 : forall l, Forall (fun o => o = PTrunc 0) l ->
  filter is_complete l = l /\ filter (fun o => negb (is_complete o)) l = [].
Proof.
  intros l H. induction H as [|o l Ho Hl [IH1 IH2]]; simpl; [split; reflexivity|].
  subst o. simpl. rewrite IH1, IH2. split; reflexivity.
Qed.

(* fsync of a file whose pending operations are all [PTrunc 0] *)
Definition all_zero (m : list (N * cid)) : Prop := forall pn, pm_get m pn = 0%N.

Lemma fsync_trunc0 : forall s f, Forall (fun o => o = PTrunc 0) (fpend s) ->
  fpend (fstep s (EF f)) = [] /\
  ((fpend s = [] /\ fdur (fstep s (EF f)) = fdur s) \/
   (fpend s <> [] /\ all_zero (fdur (fstep s (EF f))))) /\
  (all_zero (fdur s) -> all_zero (fdur (fstep s (EF f)))).
Proof.
  intros s f H. destruct (filter_trunc0 _ H) as [F1 F2]. simpl. rewrite F1, F2.
  split; [reflexivity|]. split.
  - destruct (fpend s) as [|o ops] eqn:E.
    + left. split; reflexivity.
    + right. split; [discriminate|]. inversion H; subst. simpl.
      intros pn. apply fold_trunc0_zero; auto. intros q. rewrite pm_get_trunc.
      destruct (N.ltb_spec q 0); [lia|reflexivity].
  - intros Hz pn. apply fold_trunc0_zero; auto.
Qed.

Lemma fget_dstep : forall d e f,
  fget (dstep d e) f = if Nat.eqb (ev_file e) f then fstep (fget d f) e else fget d f.
Proof.
  intros d e f. destruct (Nat.eqb (ev_file e) f) eqn:E.
  - apply Nat.eqb_eq in E. subst f. apply fget_dstep_same.
  - apply Nat.eqb_neq in E. apply fget_dstep_other. exact E.
Qed.

Lemma clean_nil : forall d f, clean d f = true -> fpend (fget d f) = [].
Proof. intros d f H. unfold clean in H. destruct (fpend (fget d f)); [reflexivity|discriminate]. Qed.

(* ====================================================================================== *)
(* Part 2: the shape of a disciplined trace                                                 *)
(* ====================================================================================== *)

Lemma firstn_len_app : forall A (a b : list A), firstn (length a) (a ++ b) = a.
Proof. intros A a b. induction a as [|x a IH]; simpl; [destruct b; reflexivity|rewrite IH; reflexivity]. Qed.

Lemma skipn_len_app : forall A (a b : list A), skipn (length a) (a ++ b) = b.
Proof. intros A a b. induction a as [|x a IH]; simpl; auto. Qed.

Lemma firstn_len_plus_app : forall A (a b : list A) n, firstn (length a + n) (a ++ b) = a ++ firstn n b.
Proof. intros A a b n. induction a as [|x a IH]; simpl; [reflexivity|rewrite IH; reflexivity]. Qed.

Lemma firstn_le_app : forall A (a b : list A) n, n <= length a -> firstn n (a ++ b) = firstn n a.
Proof.
  intros A a b n. revert a. induction n as [|n IH]; intros a Hn; simpl; [reflexivity|].
  destruct a as [|x a]; simpl in *; [lia|]. rewrite IH by lia. reflexivity.
Qed.

Lemma nth_error_len_app : forall A (a b : list A) x, nth_error (a ++ x :: b) (length a) = Some x.
Proof. intros A a b x. induction a as [|y a IH]; simpl; auto. Qed.

Lemma Forall_firstn : forall A (P : A -> Prop) n l, Forall P l -> Forall P (firstn n l).
Proof.
  intros A P n. induction n as [|n IH]; intros l H; simpl; [constructor|].
  destruct l as [|x l]; [constructor|]. inversion H; subst. constructor; auto.
Qed.

Lemma index_of_some : forall p tr i, index_of p tr = Some i ->
  exists l1 e l2, tr = l1 ++ e :: l2 /\ length l1 = i /\ p e = true /\ Forall (fun x => p x = false) l1.
Proof.
  intros p tr. induction tr as [|x tr IH]; intros i H; simpl in H; [discriminate|].
  destruct (p x) eqn:E.
  - inversion H; subst. exists [], x, tr. repeat split; auto.
  - destruct (index_of p tr) as [j|] eqn:Ej; simpl in H; [|discriminate]. inversion H; subst.
    destruct (IH j eq_refl) as [l1 [e [l2 [H1 [H2 [H3 H4]]]]]].
    exists (x :: l1), e, l2. subst tr. repeat split; simpl; auto.
Qed.

Lemma index_of_none : forall p tr, index_of p tr = None -> Forall (fun x => p x = false) tr.
Proof.
  intros p tr. induction tr as [|x tr IH]; intros H; simpl in H; [constructor|].
  destruct (p x) eqn:E; [discriminate|].
  destruct (index_of p tr); simpl in H; [discriminate|]. constructor; auto.
Qed.

Lemma index_of_app_skip : forall p l1 l2, Forall (fun x => p x = false) l1 ->
  index_of p (l1 ++ l2) = option_map (Nat.add (length l1)) (index_of p l2).
Proof.
  intros p l1 l2 H. induction H as [|x l1 Hx Hl IH]; simpl.
  - destruct (index_of p l2); reflexivity.
  - rewrite Hx, IH. destruct (index_of p l2); reflexivity.
Qed.

Lemma index_of_all_false : forall p tr, Forall (fun x => p x = false) tr -> index_of p tr = None.
Proof.
  intros p tr H. induction H as [|x l Hx Hl IH]; simpl; [reflexivity|]. rewrite Hx, IH. reflexivity.
Qed.

Definition is_wal_trunc (e : ev) : bool := match e with ET f _ => Nat.eqb f FWal | _ => false end.

Lemma pre_ok_not_sync : forall I e, pre_ok I e = true -> is_meta_sync e = false.
Proof.
  intros I e H. destruct e as [f pn c|f pn c|f pn|f len|f]; simpl in *; try reflexivity.
  destruct (Nat.eqb f FMeta) eqn:E; [|reflexivity]. apply Nat.eqb_eq in E. subst f. simpl in H. discriminate.
Qed.

Lemma forallb_Forall : forall A (p : A -> bool) l, forallb p l = true -> Forall (fun x => p x = true) l.
Proof. intros A p l H. apply Forall_forall. apply forallb_forall. exact H. Qed.

Inductive shape (I : inst) (d0 : disk) (tr : list ev) : Prop :=
| shape_pre :
    index_of is_meta_write tr = None -> index_of is_meta_sync tr = None ->
    Forall (fun e => pre_ok I e = true) tr -> shape I d0 tr
| shape_full (pre post : list ev) :
    tr = pre ++ EW FMeta 0 (m_new I) :: EF FMeta :: post ->
    index_of is_meta_write tr = Some (length pre) ->
    index_of is_meta_sync tr = Some (S (length pre)) ->
    Forall (fun e => pre_ok I e = true) pre ->
    clean (drun d0 pre) FWal = true -> clean (drun d0 pre) FLn = true -> clean (drun d0 pre) FBbn = true ->
    wal_is (image_of_durable (drun d0 pre)) 0 (wal_new I) = true ->
    pages_ok (image_of_durable (drun d0 pre)) (tree_new I) = true ->
    Forall (fun e => post_ok I e = true) post ->
    (forall it, index_of is_wal_trunc post = Some it ->
       clean (drun d0 (pre ++ EW FMeta 0 (m_new I) :: EF FMeta :: firstn it post)) FHt = true /\
       ht_all (image_of_durable (drun d0 (pre ++ EW FMeta 0 (m_new I) :: EF FMeta :: firstn it post)))
              (ht_new I) = true) ->
    shape I d0 tr.

Lemma discipline_shape : forall I d0 tr, discipline I d0 tr = true -> shape I d0 tr.
Proof.
  intros I d0 tr Hd. unfold discipline in Hd.
  destruct (index_of is_meta_write tr) as [iw|] eqn:Ew.
  2:{ assert (Hp : forallb (pre_ok I) tr = true).
      { destruct (index_of is_meta_sync tr); exact Hd. }
      apply forallb_Forall in Hp.
      apply shape_pre; [exact Ew| |exact Hp].
      apply index_of_all_false. eapply Forall_impl; [|exact Hp]. intros e He. exact (pre_ok_not_sync I e He). }
  destruct (index_of is_meta_sync tr) as [is_|] eqn:Es; [|discriminate].
  cbv zeta in Hd.
  apply andb_true_iff in Hd; destruct Hd as [Hd Htr].
  apply andb_true_iff in Hd; destruct Hd as [Hd Hpost].
  apply andb_true_iff in Hd; destruct Hd as [Hd Hpages].
  apply andb_true_iff in Hd; destruct Hd as [Hd Hwal].
  apply andb_true_iff in Hd; destruct Hd as [Hd HcB].
  apply andb_true_iff in Hd; destruct Hd as [Hd HcL].
  apply andb_true_iff in Hd; destruct Hd as [Hd HcW].
  apply andb_true_iff in Hd; destruct Hd as [Hd Hpre].
  apply andb_true_iff in Hd; destruct Hd as [Hd Hmid].
  apply andb_true_iff in Hd; destruct Hd as [Hlt Hnth].
  destruct (index_of_some _ _ _ Ew) as [l1 [e [l2 [Htr_eq [Hlen [Hpe Hl1]]]]]].
  subst iw.
  assert (F1 : firstn (length l1) tr = l1) by (subst tr; apply firstn_len_app).
  assert (F2 : nth_error tr (length l1) = Some e) by (subst tr; apply nth_error_len_app).
  assert (F3 : skipn (S (length l1)) tr = l2).
  { subst tr. replace (l1 ++ e :: l2) with ((l1 ++ [e]) ++ l2) by (rewrite <- app_assoc; reflexivity).
    replace (S (length l1)) with (length (l1 ++ [e])) by (rewrite app_length; simpl; lia).
    apply skipn_len_app. }
  rewrite F1 in *. rewrite F2 in Hnth. rewrite F3 in Hmid. clear F1 F2 F3.
  apply forallb_Forall in Hpre.
  (* the manifest write *)
  destruct e as [f pn c|f pn c|f pn|f len|f]; try discriminate.
  simpl in Hpe. btac. subst f pn c.
  (* the manifest fsync follows immediately *)
  assert (Hns : Forall (fun x => is_meta_sync x = false) l1).
  { eapply Forall_impl; [|exact Hpre]. intros x Hx. exact (pre_ok_not_sync I x Hx). }
  rewrite Htr_eq in Es. rewrite index_of_app_skip in Es by exact Hns. simpl in Es.
  destruct (index_of is_meta_sync l2) as [j|] eqn:Ej; simpl in Es; [|discriminate].
  inversion Es as [His]. clear Es.
  destruct (index_of_some _ _ _ Ej) as [a [e' [post [Hl2 [Hla [Hpe' _]]]]]].
  replace (is_ - length l1 - 1) with (length a) in Hmid by lia.
  rewrite Hl2, firstn_len_app in Hmid.
  destruct a as [|? ?]; [|discriminate]. simpl in Hla, Hl2. subst j l2.
  destruct e' as [f pn c|f pn c|f pn|f len|f]; try discriminate.
  simpl in Hpe'. btac. subst f.
  assert (His' : is_ = S (length l1)) by lia. clear His. subst is_.
  assert (F4 : skipn (S (S (length l1))) tr = post).
  { subst tr.
    replace (l1 ++ EW FMeta 0 (m_new I) :: EF FMeta :: post)
      with ((l1 ++ [EW FMeta 0 (m_new I); EF FMeta]) ++ post) by (rewrite <- app_assoc; reflexivity).
    replace (S (S (length l1))) with (length (l1 ++ [EW FMeta 0 (m_new I); EF FMeta]))
      by (rewrite app_length; simpl; lia).
    apply skipn_len_app. }
  rewrite F4 in *.
  apply forallb_Forall in Hpost.
  refine (shape_full I d0 tr l1 post Htr_eq _ _ Hpre HcW HcL HcB Hwal Hpages Hpost _).
  - rewrite Htr_eq. rewrite index_of_app_skip by exact Hl1. simpl. f_equal. lia.
  - rewrite Htr_eq. rewrite index_of_app_skip by exact Hns. simpl.
    f_equal. lia.
  - intros it Hit. unfold is_wal_trunc in Hit. rewrite Hit in Htr.
    assert (F5 : firstn (S (S (length l1)) + it) tr
                 = l1 ++ EW FMeta 0 (m_new I) :: EF FMeta :: firstn it post).
    { subst tr.
      replace (l1 ++ EW FMeta 0 (m_new I) :: EF FMeta :: post)
        with ((l1 ++ [EW FMeta 0 (m_new I); EF FMeta]) ++ post) by (rewrite <- app_assoc; reflexivity).
      replace (S (S (length l1))) with (length (l1 ++ [EW FMeta 0 (m_new I); EF FMeta]))
        by (rewrite app_length; simpl; lia).
      rewrite firstn_len_plus_app. rewrite <- app_assoc. reflexivity. }
    rewrite F5 in Htr. apply andb_true_iff in Htr. exact Htr.
Qed.

(* ====================================================================================== *)
(* Part 3: the three phases                                                                 *)
(* ====================================================================================== *)

(* [wal_safe] - CHANGED with respect to the statement handed out
     (length (wal_old I) <= 1 \/ wal_is (image_of_durable d0) 0 [] = true):
   with [recover] as modelled ([wal_is] demands a zero page after the blob) a durable one-page
   old blob is NOT safe when the new blob has two or more pages: the image "old header page,
   second page of the new blob" has the old header but is not exactly the old blob
   (Tests.trC_not_atomic, [original_wal_safe_refuted] below).  The one-page case is safe when the
   new blob has one page too (nothing is ever written behind the header).  *)
Definition wal_safe (I : inst) (d0 : disk) : Prop :=
  wal_old I = [] \/
  (length (wal_old I) <= 1 /\ length (wal_new I) <= 1) \/
  wal_is (image_of_durable d0) 0 [] = true.

Lemma nthN_0 : forall l, nthN l 0 = hd 0%N l.
Proof. intros l. destruct l; reflexivity. Qed.

Lemma pm_get_nodup : forall (l : list (N * cid)) p c, NoDup (map fst l) -> In (p, c) l -> pm_get l p = c.
Proof.
  intros l p c. induction l as [|[q cq] l IH]; intros Hnd Hin; simpl in *; [contradiction|].
  inversion Hnd as [|? ? Hnot Hnd']; subst.
  destruct Hin as [Hin|Hin].
  - inversion Hin; subst. rewrite N.eqb_refl. reflexivity.
  - destruct (N.eqb q p) eqn:E.
    + apply N.eqb_eq in E. subst q. exfalso. apply Hnot. apply in_map_iff. exists (p, c). split; auto.
    + apply IH; auto.
Qed.

Lemma pages_ok_ext : forall img img' l,
  (forall f pn c, In (f, pn, c) l -> img f pn = img' f pn) -> pages_ok img l = pages_ok img' l.
Proof.
  intros img img' l. induction l as [|[[f pn] c] l IH]; intros H; simpl; [reflexivity|].
  rewrite (H f pn c) by (left; reflexivity). f_equal. apply IH. intros f' pn' c' Hin. apply (H f' pn' c'). right. exact Hin.
Qed.

Lemma wal_is_ext : forall img img' w i,
  (forall pn, img FWal pn = img' FWal pn) -> wal_is img i w = wal_is img' i w.
Proof.
  intros img img' w. induction w as [|c w IH]; intros i H; simpl.
  - rewrite H. reflexivity.
  - rewrite H. f_equal. apply IH. exact H.
Qed.

Lemma ht_all_ext : forall img img' l,
  (forall pn, img FHt pn = img' FHt pn) -> ht_all img l = ht_all img' l.
Proof.
  intros img img' l H. unfold ht_all. induction l as [|x l IH]; simpl; [reflexivity|]. rewrite H, IH. reflexivity.
Qed.

Lemma ht_all_each_old : forall img o n, ht_all img o = true -> ht_each_old_or_new img o n = true.
Proof.
  intros img o. induction o as [|[p co] o IH]; intros n H; simpl in *; [reflexivity|].
  destruct n as [|[q cn] n]; [reflexivity|].
  apply andb_true_iff in H. destruct H as [H1 H2]. rewrite H1. simpl. apply IH. exact H2.
Qed.

Lemma ht_all_each_new : forall img o n,
  map fst o = map fst n -> ht_all img n = true -> ht_each_old_or_new img o n = true.
Proof.
  intros img o. induction o as [|[p co] o IH]; intros n Hk H; simpl in *; [reflexivity|].
  destruct n as [|[q cn] n]; [reflexivity|]. simpl in *.
  inversion Hk; subst.
  apply andb_true_iff in H. destruct H as [Ha Hb]. rewrite Ha. rewrite orb_true_r. simpl. apply IH; auto.
Qed.

Lemma ht_each_cases : forall img o n,
  map fst o = map fst n -> NoDup (map fst n) ->
  (forall p, In p (map fst n) -> img FHt p = pm_get o p \/ img FHt p = pm_get n p) ->
  ht_each_old_or_new img o n = true.
Proof.
  intros img o. induction o as [|[p co] o IH]; intros n Hk Hnd H; simpl in *; [reflexivity|].
  destruct n as [|[q cn] n]; [reflexivity|]. simpl in *.
  inversion Hk; subst. inversion Hnd as [|? ? Hnot Hnd']; subst.
  apply andb_true_iff. split.
  - destruct (H q (or_introl eq_refl)) as [E|E]; rewrite E, N.eqb_refl; rewrite N.eqb_refl.
    + reflexivity.
    + apply orb_true_r.
  - apply IH; auto. intros p' Hp'.
    assert (Hne : N.eqb q p' = false).
    { apply N.eqb_neq. intros ->. contradiction. }
    specialize (H p' (or_intror Hp')). rewrite Hne in H. exact H.
Qed.

Lemma ht_all_of_pm : forall img l,
  NoDup (map fst l) -> (forall p, In p (map fst l) -> img FHt p = pm_get l p) -> ht_all img l = true.
Proof.
  intros img l Hnd H. unfold ht_all. apply forallb_forall. intros [p c] Hin. simpl.
  rewrite H by (apply in_map_iff; exists (p, c); auto).
  rewrite (pm_get_nodup l p c Hnd Hin). apply N.eqb_refl.
Qed.

Lemma ht_all_to_pm : forall img l,
  NoDup (map fst l) -> ht_all img l = true -> forall p, In p (map fst l) -> img FHt p = pm_get l p.
Proof.
  intros img l Hnd H p Hp. apply in_map_iff in Hp. destruct Hp as [[q c] [Hq Hin]]. simpl in Hq. subst q.
  unfold ht_all in H. rewrite forallb_forall in H. specialize (H _ Hin). simpl in H.
  apply N.eqb_eq in H. rewrite H. symmetry. apply pm_get_nodup; auto.
Qed.

Section Proto.
Variable I : inst.
Variable d0 : disk.
Hypothesis HI : inst_ok I.
Hypothesis H0 : start_ok I d0.

Lemma in_live_intro : forall f pn c, In (f, pn, c) (live_old I) -> in_live I f pn = true.
Proof.
  intros f pn c H. unfold in_live. apply existsb_exists. exists (f, pn, c). split; auto.
  simpl. rewrite Nat.eqb_refl, N.eqb_refl. reflexivity.
Qed.

Lemma in_live_elim : forall f pn, in_live I f pn = true -> exists c, In (f, pn, c) (live_old I).
Proof.
  intros f pn H. unfold in_live in H. apply existsb_exists in H.
  destruct H as [[[g p] c] [Hin Hb]]. simpl in Hb.
  apply andb_true_iff in Hb. destruct Hb as [Hg Hp].
  apply Nat.eqb_eq in Hg. apply N.eqb_eq in Hp. subst. exists c. exact Hin.
Qed.

Definition ok_tree (f : nat) (pn : N) (c : cid) : Prop :=
  in_live I f pn = true -> c = pm_get (fdur (fget d0 f)) pn.

Lemma pre_ok_tree : forall f e,
  f = FLn \/ f = FBbn -> pre_ok I e = true -> ev_file e = f -> ev_ok (ok_tree f) e.
Proof.
  intros f e Hf He Hfile.
  destruct e as [g pn c|g pn c|g pn|g len|g]; simpl in *; auto; subst g.
  - apply orb_true_iff in He. destruct He as [He|He].
    + apply andb_true_iff in He. destruct He as [Ha Hb]. apply Nat.eqb_eq in Ha.
      destruct Hf; subst; discriminate.
    + apply andb_true_iff in He. destruct He as [Ha Hb]. apply negb_true_iff in Hb.
      intros Hl. congruence.
  - apply andb_true_iff in He. destruct He as [Ha Hb]. apply negb_true_iff in Hb.
    intros Hl. congruence.
  - apply orb_true_iff in He. destruct He as [He|He].
    + apply andb_true_iff in He. destruct He as [Ha Hb]. apply Nat.eqb_eq in Ha.
      destruct Hf; subst; discriminate.
    + apply andb_true_iff in He. destruct He as [Ha Hb].
      intros pn Hle Hl. exfalso. apply in_live_elim in Hl. destruct Hl as [c Hin].
      rewrite forallb_forall in Hb. specialize (Hb _ Hin). simpl in Hb.
      rewrite Nat.eqb_refl in Hb. simpl in Hb. apply N.ltb_lt in Hb. lia.
Qed.

Lemma pre_ok_files : forall e, pre_ok I e = true ->
  ev_file e <> FMeta /\ ev_file e <> FHt.
Proof.
  intros e He.
  destruct e as [g pn c|g pn c|g pn|g len|g]; simpl in *;
  split; intros ->; simpl in He; discriminate.
Qed.

(* the parts of the disk the old image needs, in the pre-phase and through the switch *)
Definition old_kept (d : disk) : Prop :=
  fget d FHt = fget d0 FHt /\ finv (ok_tree FLn) (fget d FLn) /\ finv (ok_tree FBbn) (fget d FBbn).

Lemma ok_tree_start : forall f, f = FLn \/ f = FBbn -> finv (ok_tree f) (fget d0 f).
Proof.
  intros f Hf. destruct H0 as (_ & _ & S3 & S4 & _). split.
  - intros pn _. reflexivity.
  - destruct Hf; subst f; [rewrite S3|rewrite S4]; constructor.
Qed.

Lemma pre_run_kept : forall evs, Forall (fun e => pre_ok I e = true) evs ->
  fget (drun d0 evs) FMeta = fget d0 FMeta /\ old_kept (drun d0 evs).
Proof.
  intros evs H. rewrite Forall_forall in H. split; [|split; [|split]].
  - apply drun_untouched. apply Forall_forall. intros e He. apply pre_ok_files. auto.
  - apply drun_untouched. apply Forall_forall. intros e He. apply pre_ok_files. auto.
  - apply drun_finv; [apply ok_tree_start; auto|]. intros e He Hf. apply pre_ok_tree; auto.
  - apply drun_finv; [apply ok_tree_start; auto|]. intros e He Hf. apply pre_ok_tree; auto.
Qed.

Lemma old_kept_image : forall d img, old_kept d -> pl_image d img ->
  pages_ok img (live_old I) = true /\ ht_all img (ht_old I) = true.
Proof.
  intros d img (Kh & Kl & Kb) Himg.
  destruct HI as (_ & _ & _ & _ & _ & _ & _ & _ & _ & _ & _ & I12 & _).
  destruct H0 as (_ & _ & _ & _ & S5 & S6 & S7 & _).
  split.
  - unfold pages_ok. apply forallb_forall. intros [[f pn] c] Hin.
    unfold pages_ok in S6. rewrite forallb_forall in S6. specialize (S6 _ Hin). simpl in S6.
    apply N.eqb_eq in S6. unfold image_of_durable in S6.
    pose proof (in_live_intro _ _ _ Hin) as Hl.
    destruct (Himg f) as [keep [_ Hf]]. rewrite Hf. apply N.eqb_eq. rewrite <- S6.
    destruct (I12 _ _ _ Hin); subst f.
    + apply (finv_image _ _ Kl keep pn). exact Hl.
    + apply (finv_image _ _ Kb keep pn). exact Hl.
  - rewrite <- S7. apply ht_all_ext. intros pn.
    destruct (Himg FHt) as [keep [_ Hf]]. rewrite Hf, Kh.
    unfold image_of_durable. apply clean_image. exact S5.
Qed.

(* WAL writes of the pre-phase *)
Lemma pre_ok_wal : forall (ok : N -> cid -> Prop) e,
  (forall pn, ok pn (nthN (wal_new I) pn)) -> (forall pn, ok pn 0%N) ->
  pre_ok I e = true -> ev_file e = FWal -> ev_ok ok e.
Proof.
  intros ok e Hw Hz He Hf.
  destruct e as [g pn c|g pn c|g pn|g len|g]; simpl in *; auto; subst g.
  - apply orb_true_iff in He. destruct He as [He|He].
    + apply andb_true_iff in He. destruct He as [Ha Hb]. apply N.eqb_eq in Hb. subst c. apply Hw.
    + simpl in He. discriminate.
  - simpl in He. discriminate.
Qed.

Lemma wal_start_pend : Forall (fun o => o = PTrunc 0) (fpend (fget d0 FWal)).
Proof.
  destruct H0 as (_ & _ & _ & _ & _ & _ & _ & S8 & _).
  destruct S8 as [E|E]; rewrite E; repeat constructor.
Qed.

Lemma wal_pre_phase : forall evs img,
  wal_safe I d0 -> Forall (fun e => pre_ok I e = true) evs -> pl_image (drun d0 evs) img ->
  negb (N.eqb (img FWal 0%N) (hd 0%N (wal_old I))) || N.eqb (img FWal 0%N) 0 || wal_is img 0 (wal_old I) = true.
Proof.
  intros evs img Hs Hpre Himg. rewrite Forall_forall in Hpre.
  destruct HI as (_ & _ & _ & I4 & I5 & I6 & _).
  destruct H0 as (_ & _ & _ & _ & _ & _ & _ & S8 & S9).
  destruct (Himg FWal) as [keep [_ Hf]].
  assert (Hcase : wal_old I = [] \/
                  (exists o0 n0, wal_old I = [o0] /\ wal_new I = [n0] /\
                                 wal_is (image_of_durable d0) 0 [o0] = true) \/
                  wal_is (image_of_durable d0) 0 [] = true).
  { destruct Hs as [Hs|[[Hs1 Hs2]|Hs]]; auto.
    destruct (wal_old I) as [|o0 [|? ?]] eqn:Eo; auto; [|simpl in Hs1; lia].
    destruct (wal_new I) as [|n0 [|? ?]] eqn:En; [congruence| |simpl in Hs2; lia].
    destruct S9 as [S9|S9]; auto. right. left. exists o0, n0. auto. }
  destruct Hcase as [Hc|[Hc|Hc]].
  - rewrite Hc. simpl. destruct (N.eqb (img FWal 0%N) 0); reflexivity.
  - destruct Hc as (o0 & n0 & Eo & En & Hd).
    set (ok := fun (pn : N) (c : cid) => pn = 1%N -> c = 0%N).
    assert (Hinv : finv ok (fget (drun d0 evs) FWal)).
    { apply drun_finv.
      - split.
        + intros pn ->. simpl in Hd. apply andb_true_iff in Hd. destruct Hd as [_ Hd].
          apply N.eqb_eq in Hd. exact Hd.
        + eapply Forall_impl; [|exact wal_start_pend]. intros o ->. intros pn _ _. reflexivity.
      - intros e He Hfile. apply pre_ok_wal; auto.
        + intros pn ->. rewrite En. reflexivity.
        + intros pn _. reflexivity. }
    pose proof (finv_image _ _ Hinv keep 1%N eq_refl) as H1. rewrite <- Hf in H1.
    rewrite Eo. simpl. rewrite H1. simpl.
    destruct (N.eqb (img FWal 0%N) o0); simpl; [|reflexivity].
    rewrite orb_true_r. reflexivity.
  - set (ok := fun (pn : N) (c : cid) => pn = 0%N -> c = 0%N \/ c = hd 0%N (wal_new I)).
    assert (Hinv : finv ok (fget (drun d0 evs) FWal)).
    { apply drun_finv.
      - split.
        + intros pn ->. left. simpl in Hc. apply N.eqb_eq in Hc. exact Hc.
        + eapply Forall_impl; [|exact wal_start_pend]. intros o ->. intros pn _ _. left. reflexivity.
      - intros e He Hfile. apply pre_ok_wal; auto.
        + intros pn ->. right. apply nthN_0.
        + intros pn _. left. reflexivity. }
    pose proof (finv_image _ _ Hinv keep 0%N eq_refl) as H1. rewrite <- Hf in H1.
    destruct H1 as [H1|H1]; rewrite H1.
    + simpl. rewrite orb_true_r. reflexivity.
    + assert (E : N.eqb (hd 0%N (wal_new I)) (hd 0%N (wal_old I)) = false) by (apply N.eqb_neq; exact I6).
      rewrite E. reflexivity.
Qed.

(* phase 1: before the manifest write every image reopens as the old state *)
Lemma phase1_base : forall evs img,
  Forall (fun e => pre_ok I e = true) evs -> pl_image (drun d0 evs) img ->
  img FMeta 0%N = m_old I /\ pages_ok img (live_old I) = true /\ ht_all img (ht_old I) = true.
Proof.
  intros evs img Hpre Himg.
  destruct (pre_run_kept evs Hpre) as [Km Kk].
  destruct (old_kept_image _ _ Kk Himg) as [Hl Hh].
  destruct H0 as (S1 & S2 & _).
  split; [|split; assumption].
  destruct (Himg FMeta) as [keep [_ Hf]]. rewrite Hf, Km, clean_image by exact S2. exact S1.
Qed.

Lemma phase1 : forall evs img,
  wal_safe I d0 -> Forall (fun e => pre_ok I e = true) evs -> pl_image (drun d0 evs) img ->
  recover I img = ROld.
Proof.
  intros evs img Hs Hpre Himg.
  destruct (phase1_base evs img Hpre Himg) as (Hm & Hl & Hh).
  pose proof (wal_pre_phase evs img Hs Hpre Himg) as Hw.
  unfold recover. rewrite Hm, N.eqb_refl, Hl, Hh. simpl. rewrite Hw. reflexivity.
Qed.

(* ---- the switch-over and the post-phase ---- *)
Lemma post_ok_files : forall e, post_ok I e = true ->
  ev_file e = FHt \/ e = ET FWal 0 \/ e = EF FWal.
Proof.
  intros e He. destruct e as [g pn c|g pn c|g pn|g len|g]; simpl in *.
  - apply andb_true_iff in He. destruct He as [He _]. apply andb_true_iff in He. destruct He as [He _].
    apply Nat.eqb_eq in He. left. exact He.
  - apply andb_true_iff in He. destruct He as [He _]. apply andb_true_iff in He. destruct He as [He _].
    apply Nat.eqb_eq in He. left. exact He.
  - apply Nat.eqb_eq in He. left. exact He.
  - apply andb_true_iff in He. destruct He as [Ha Hb]. apply Nat.eqb_eq in Ha. apply N.eqb_eq in Hb.
    subst. right. left. reflexivity.
  - apply orb_true_iff in He. destruct He as [He|He]; apply Nat.eqb_eq in He; subst g.
    + left. reflexivity.
    + right. right. reflexivity.
Qed.

Lemma post_ok_ht : forall (ok : N -> cid -> Prop) e,
  (forall pn, ok pn (pm_get (ht_new I) pn)) -> post_ok I e = true -> ev_file e = FHt -> ev_ok ok e.
Proof.
  intros ok e Hw He Hf.
  destruct e as [g pn c|g pn c|g pn|g len|g]; simpl in *; auto; subst g.
  - apply andb_true_iff in He. destruct He as [He _]. apply andb_true_iff in He. destruct He as [_ He].
    apply N.eqb_eq in He. subst c. apply Hw.
  - apply andb_true_iff in He. destruct He as [He _]. apply andb_true_iff in He. destruct He as [_ He].
    apply N.eqb_eq in He. subst c. apply Hw.
  - simpl in He. discriminate.
Qed.

Section Switch.
Variable pre : list ev.
Hypothesis Hpre : Forall (fun e => pre_ok I e = true) pre.
Hypothesis HcW : clean (drun d0 pre) FWal = true.
Hypothesis HcL : clean (drun d0 pre) FLn = true.
Hypothesis HcB : clean (drun d0 pre) FBbn = true.
Hypothesis Hwal : wal_is (image_of_durable (drun d0 pre)) 0 (wal_new I) = true.
Hypothesis Hpages : pages_ok (image_of_durable (drun d0 pre)) (tree_new I) = true.

Let dp := drun d0 pre.
Let ew := EW FMeta 0 (m_new I).

(* an image of a disk whose value files are as at the end of the pre-phase has the new tree pages *)
Lemma tree_new_image : forall d img,
  fget d FLn = fget dp FLn -> fget d FBbn = fget dp FBbn -> pl_image d img ->
  pages_ok img (tree_new I) = true.
Proof.
  intros d img EL EB Himg. rewrite <- Hpages. apply pages_ok_ext. intros f pn c Hin.
  destruct HI as (_ & _ & _ & _ & _ & _ & _ & _ & _ & _ & _ & _ & I13).
  destruct (Himg f) as [keep [_ Hf]]. rewrite Hf. unfold image_of_durable. fold dp.
  destruct (I13 _ _ _ Hin) as [[Ef|Ef] _]; subst f.
  - rewrite EL. apply clean_image. apply clean_nil. exact HcL.
  - rewrite EB. apply clean_image. apply clean_nil. exact HcB.
Qed.

(* the WAL once the blob is durable: intact, or truncated by a pending PTrunc 0 *)
Lemma wal_new_image : forall d img,
  fdur (fget d FWal) = fdur (fget dp FWal) ->
  Forall (fun o => o = PTrunc 0) (fpend (fget d FWal)) ->
  pl_image d img ->
  (img FWal 0%N = hd 0%N (wal_new I) /\ wal_is img 0 (wal_new I) = true) \/
  (img FWal 0%N = 0%N /\ fpend (fget d FWal) <> []).
Proof.
  intros d img Ed Hp Himg.
  destruct (Himg FWal) as [keep [_ Hf]].
  destruct (trunc0_image (fget d FWal) keep Hp) as [Hi|[Hne Hz]].
  - left.
    assert (Hw : wal_is img 0 (wal_new I) = true).
    { rewrite <- Hwal. apply wal_is_ext. intros pn. rewrite Hf, Hi, Ed. reflexivity. }
    split; [|exact Hw].
    destruct HI as (_ & _ & _ & I4 & _).
    destruct (wal_new I) as [|n0 w]; [congruence|]. simpl in Hw. simpl.
    apply andb_true_iff in Hw. destruct Hw as [Hw _]. apply N.eqb_eq in Hw. exact Hw.
  - right. split; [|exact Hne]. rewrite Hf. apply Hz.
Qed.

Lemma pre_wal_clean : fpend (fget dp FWal) = [].
Proof. apply clean_nil. exact HcW. Qed.

(* phase 2: the manifest write is pending, everything else is durable *)
Lemma phase2 : forall img, pl_image (drun d0 (pre ++ [ew])) img ->
  (recover I img = ROld \/ recover I img = RNew) /\
  pages_ok img (live_old I) = true /\ ht_all img (ht_old I) = true.
Proof.
  intros img Himg. rewrite drun_app in Himg. fold dp in Himg.
  change (drun dp [ew]) with (dstep dp ew) in Himg.
  destruct (pre_run_kept pre Hpre) as [Km Kk]. fold dp in Km, Kk.
  assert (Hoth : forall f, f <> FMeta -> fget (dstep dp ew) f = fget dp f).
  { intros f Hf. apply fget_dstep_other. simpl. auto. }
  assert (Kk2 : old_kept (dstep dp ew)).
  { destruct Kk as (K1 & K2 & K3). unfold old_kept.
    rewrite !Hoth by discriminate. auto. }
  destruct (old_kept_image _ _ Kk2 Himg) as [Hl Hh].
  split; [|split; assumption].
  destruct HI as (I1 & I2 & I3 & I4 & I5 & I6 & _).
  destruct H0 as (S1 & S2 & _).
  (* the manifest page *)
  set (okm := fun (pn : N) (c : cid) => pn = 0%N -> c = m_old I \/ c = m_new I).
  assert (Hm : img FMeta 0%N = m_old I \/ img FMeta 0%N = m_new I).
  { destruct (Himg FMeta) as [keep [_ Hf]]. rewrite Hf.
    apply (finv_image okm); [|reflexivity].
    rewrite fget_dstep. simpl. rewrite Km. split; simpl.
    - intros pn ->. left. exact S1.
    - rewrite S2. simpl. constructor; [|constructor]. simpl. intros _. right. reflexivity. }
  (* the WAL holds the new blob *)
  assert (Hw : img FWal 0%N = hd 0%N (wal_new I) /\ wal_is img 0 (wal_new I) = true).
  { destruct (wal_new_image (dstep dp ew) img) as [Hw|[_ Hw]]; auto.
    - rewrite Hoth by discriminate. reflexivity.
    - rewrite Hoth by discriminate. rewrite pre_wal_clean. constructor.
    - exfalso. apply Hw. rewrite Hoth by discriminate. apply pre_wal_clean. }
  destruct Hw as [Hw0 Hw].
  unfold recover. destruct Hm as [Hm|Hm]; rewrite Hm.
  - left. rewrite N.eqb_refl, Hl, Hh, Hw0. simpl.
    assert (E : N.eqb (hd 0%N (wal_new I)) (hd 0%N (wal_old I)) = false) by (apply N.eqb_neq; exact I6).
    rewrite E. reflexivity.
  - right.
    assert (E : N.eqb (m_new I) (m_old I) = false) by (apply N.eqb_neq; congruence).
    rewrite E, N.eqb_refl.
    rewrite (tree_new_image (dstep dp ew) img) by (auto; apply Hoth; discriminate).
    rewrite Hw0, N.eqb_refl, Hw. simpl.
    rewrite ht_all_each_old by exact Hh. reflexivity.
Qed.

Let d3 := drun dp [ew; EF FMeta].

Lemma run_split : forall l, drun d0 (pre ++ ew :: EF FMeta :: l) = drun d3 l.
Proof.
  intros l. change (ew :: EF FMeta :: l) with ([ew; EF FMeta] ++ l).
  rewrite drun_app, drun_app. reflexivity.
Qed.

Lemma d3_meta :
  fdur (fget d3 FMeta) = pm_set (fdur (fget d0 FMeta)) 0 (m_new I) /\ fpend (fget d3 FMeta) = [].
Proof.
  destruct (pre_run_kept pre Hpre) as [Km _]. fold dp in Km.
  destruct H0 as (_ & S2 & _).
  unfold d3. change (drun dp [ew; EF FMeta]) with (dstep (dstep dp ew) (EF FMeta)).
  rewrite (fget_dstep (dstep dp ew) (EF FMeta) FMeta).
  rewrite (fget_dstep dp ew FMeta).
  simpl. rewrite Km, S2. simpl. split; reflexivity.
Qed.

Lemma d3_other : forall f, f <> FMeta -> fget d3 f = fget dp f.
Proof.
  intros f Hf. unfold d3. change (drun dp [ew; EF FMeta]) with (dstep (dstep dp ew) (EF FMeta)).
  rewrite !fget_dstep_other by (simpl; auto). reflexivity.
Qed.

(* the WAL in the post phase: only [PTrunc 0] pending; durably the new blob, or durably empty *)
Definition wal_post (s : fstate) : Prop :=
  Forall (fun o => o = PTrunc 0) (fpend s) /\
  (fdur s = fdur (fget dp FWal) \/ all_zero (fdur s)).

Lemma post_files_other : forall evs f,
  Forall (fun e => post_ok I e = true) evs -> f = FMeta \/ f = FLn \/ f = FBbn ->
  fget (drun d3 evs) f = fget d3 f.
Proof.
  intros evs f Hev Hf. rewrite Forall_forall in Hev.
  apply drun_untouched. apply Forall_forall. intros e He.
  destruct (post_ok_files e (Hev e He)) as [E|[E|E]]; [rewrite E|subst e; simpl|subst e; simpl];
  destruct Hf as [->|[->| ->]]; discriminate.
Qed.

Lemma wal_post_run : forall evs,
  Forall (fun e => post_ok I e = true) evs -> wal_post (fget (drun d3 evs) FWal).
Proof.
  intros evs Hev. rewrite Forall_forall in Hev.
  apply (drun_file_inv wal_post).
  - rewrite d3_other by discriminate. split; [rewrite pre_wal_clean; constructor|left; reflexivity].
  - intros s e [Hp Hd] He Hf. destruct (post_ok_files e (Hev e He)) as [E|[E|E]].
    + rewrite E in Hf. discriminate.
    + subst e. split; simpl; [|exact Hd].
      apply Forall_app. split; [exact Hp|]. constructor; [reflexivity|constructor].
    + subst e. destruct (fsync_trunc0 s FWal Hp) as (F1 & F2 & F3). split.
      * rewrite F1. constructor.
      * destruct F2 as [[_ F2]|[_ F2]]; [|right; exact F2].
        destruct Hd as [Hd|Hd]; [left; rewrite F2; exact Hd|right; apply F3; exact Hd].
Qed.

Lemma post_common : forall evs img,
  Forall (fun e => post_ok I e = true) evs -> pl_image (drun d3 evs) img ->
  img FMeta 0%N = m_new I /\ pages_ok img (tree_new I) = true /\
  ((img FWal 0%N = hd 0%N (wal_new I) /\ wal_is img 0 (wal_new I) = true) \/ img FWal 0%N = 0%N).
Proof.
  intros evs img Hev Himg.
  pose proof (post_files_other evs) as Hunt.
  split; [|split].
  - destruct (Himg FMeta) as [keep [_ Hf]]. destruct d3_meta as [Ed Ep].
    rewrite Hf, Hunt by auto. rewrite clean_image by exact Ep. rewrite Ed. reflexivity.
  - apply (tree_new_image (drun d3 evs)); auto.
    + rewrite Hunt by auto. apply d3_other. discriminate.
    + rewrite Hunt by auto. apply d3_other. discriminate.
  - destruct (wal_post_run evs Hev) as [Hp [Hd|Hd]].
    + destruct (wal_new_image (drun d3 evs) img Hd Hp Himg) as [Hw|[Hw _]]; [left; exact Hw|right; exact Hw].
    + right. destruct (Himg FWal) as [keep [_ Hf]]. rewrite Hf. unfold file_image.
      apply fold_trunc0_zero; [exact Hd|]. apply Forall_sel. exact Hp.
Qed.

(* phase 3a: manifest durable, WAL not yet truncated: hash-table pages individually old or new *)
Lemma phase3_A : forall evs img,
  Forall (fun e => post_ok I e = true) evs -> Forall (fun e => is_wal_trunc e = false) evs ->
  pl_image (drun d3 evs) img -> recover I img = RNew.
Proof.
  intros evs img Hev Hnt Himg.
  destruct (post_common evs img Hev Himg) as (Hm & Ht & _).
  rewrite Forall_forall in Hev, Hnt.
  destruct HI as (I1 & I2 & I3 & I4 & I5 & I6 & I7 & I8 & I9 & I10 & _).
  destruct (pre_run_kept pre Hpre) as [_ (Kh & _)]. fold dp in Kh.
  (* the WAL still holds the new blob and has nothing pending: an fsync of it is a no-op *)
  assert (Hws : fdur (fget (drun d3 evs) FWal) = fdur (fget dp FWal) /\
                fpend (fget (drun d3 evs) FWal) = []).
  { apply (drun_file_inv (fun s => fdur s = fdur (fget dp FWal) /\ fpend s = [])).
    - rewrite d3_other by discriminate. split; [reflexivity|apply pre_wal_clean].
    - intros s e [Hd Hp] He Hf. destruct (post_ok_files e (Hev e He)) as [E|[E|E]].
      + rewrite E in Hf. discriminate.
      + subst e. specialize (Hnt _ He). simpl in Hnt. discriminate.
      + subst e. simpl. rewrite Hp. simpl. split; [exact Hd|reflexivity]. }
  destruct Hws as [Hwd Hwp].
  assert (Hw : (img FWal 0%N = hd 0%N (wal_new I) /\ wal_is img 0 (wal_new I) = true) \/
               (img FWal 0%N = 0%N /\ fpend (fget (drun d3 evs) FWal) <> [])).
  { apply wal_new_image; auto. rewrite Hwp. constructor. }
  destruct Hw as [[Hw0 Hw]|[_ Hw]]; [|contradiction].
  (* hash table *)
  set (ok := fun (pn : N) (c : cid) => c = pm_get (fdur (fget d0 FHt)) pn \/ c = pm_get (ht_new I) pn).
  assert (Hinv : finv ok (fget (drun d3 evs) FHt)).
  { apply drun_finv.
    - rewrite d3_other by discriminate. rewrite Kh. destruct H0 as (_ & _ & _ & _ & S5 & _).
      split; [intros pn; left; reflexivity|rewrite S5; constructor].
    - intros e He Hf. apply post_ok_ht; auto. intros pn. right. reflexivity. }
  assert (Hht : ht_each_old_or_new img (ht_old I) (ht_new I) = true).
  { apply ht_each_cases; auto. intros p Hp.
    destruct (Himg FHt) as [keep [_ Hf]]. rewrite Hf.
    destruct (finv_image _ _ Hinv keep p) as [E|E]; [left|right; exact E].
    rewrite E. destruct H0 as (_ & _ & _ & _ & _ & _ & S7 & _).
    apply (ht_all_to_pm (image_of_durable d0) (ht_old I)); auto; rewrite I9; auto. }
  unfold recover. rewrite Hm.
  assert (E : N.eqb (m_new I) (m_old I) = false) by (apply N.eqb_neq; congruence).
  rewrite E, N.eqb_refl, Ht, Hw0, N.eqb_refl, Hw, Hht. reflexivity.
Qed.

(* phase 3b: after the (unsynced) WAL truncation: the hash table is entirely new *)
Lemma phase3_B : forall a rest img,
  Forall (fun e => post_ok I e = true) (a ++ rest) ->
  clean (drun d3 a) FHt = true -> ht_all (image_of_durable (drun d3 a)) (ht_new I) = true ->
  pl_image (drun d3 (a ++ rest)) img -> recover I img = RNew.
Proof.
  intros a rest img Hev Hc Hall Himg.
  destruct (post_common _ img Hev Himg) as (Hm & Ht & Hw).
  rewrite Forall_forall in Hev.
  destruct HI as (I1 & I2 & I3 & I4 & I5 & I6 & I7 & I8 & I9 & I10 & _).
  set (ok := fun (pn : N) (c : cid) => In pn (map fst (ht_new I)) -> c = pm_get (ht_new I) pn).
  assert (Hinv : finv ok (fget (drun d3 (a ++ rest)) FHt)).
  { rewrite drun_app. apply drun_finv.
    - split.
      + intros pn Hin. apply (ht_all_to_pm (image_of_durable (drun d3 a)) (ht_new I)); auto.
      + rewrite (clean_nil _ _ Hc). constructor.
    - intros e He Hf. apply post_ok_ht; auto.
      + intros pn _. reflexivity.
      + apply Hev. apply in_or_app. right. exact He. }
  assert (Hht : ht_all img (ht_new I) = true).
  { apply ht_all_of_pm; auto. intros p Hp.
    destruct (Himg FHt) as [keep [_ Hf]]. rewrite Hf. apply (finv_image _ _ Hinv keep p). exact Hp. }
  unfold recover. rewrite Hm.
  assert (E : N.eqb (m_new I) (m_old I) = false) by (apply N.eqb_neq; congruence).
  rewrite E, N.eqb_refl, Ht. simpl.
  destruct Hw as [[Hw0 Hw]|Hw0]; rewrite Hw0.
  - rewrite N.eqb_refl, Hw. rewrite ht_all_each_new; auto.
  - assert (E2 : N.eqb 0 (hd 0%N (wal_new I)) = false) by (apply N.eqb_neq; congruence).
    rewrite E2, Hht. reflexivity.
Qed.

Lemma phase3 : forall post k img,
  Forall (fun e => post_ok I e = true) post ->
  (forall it, index_of is_wal_trunc post = Some it ->
     clean (drun d0 (pre ++ ew :: EF FMeta :: firstn it post)) FHt = true /\
     ht_all (image_of_durable (drun d0 (pre ++ ew :: EF FMeta :: firstn it post))) (ht_new I) = true) ->
  pl_image (drun d0 (pre ++ ew :: EF FMeta :: firstn k post)) img ->
  recover I img = RNew.
Proof.
  intros post k img Hpost Htr Himg. rewrite run_split in Himg.
  destruct (index_of is_wal_trunc post) as [it|] eqn:Eit.
  - destruct (index_of_some _ _ _ Eit) as [a [et [b [Hp [Hla [Het Ha]]]]]].
    destruct (le_lt_dec k it) as [Hk|Hk].
    + apply (phase3_A (firstn k post)); auto.
      * apply Forall_firstn. exact Hpost.
      * rewrite Hp. rewrite firstn_le_app by lia. apply Forall_firstn. exact Ha.
    + destruct (Htr it eq_refl) as [Hc Hall]. rewrite run_split in Hc, Hall.
      assert (Ea : firstn it post = a) by (rewrite Hp, <- Hla; apply firstn_len_app).
      rewrite Ea in Hc, Hall.
      assert (Ek : firstn k post = a ++ firstn (k - it) (et :: b)).
      { rewrite Hp. replace k with (length a + (k - it)) at 1 by lia. apply firstn_len_plus_app. }
      rewrite Ek in Himg.
      apply (phase3_B a (firstn (k - it) (et :: b))); auto.
      rewrite <- Ek. apply Forall_firstn. exact Hpost.
  - apply (phase3_A (firstn k post)); auto.
    + apply Forall_firstn. exact Hpost.
    + apply Forall_firstn. apply index_of_none. exact Eit.
Qed.

(* the end of a complete sync (F8 fixed): truncation of the WAL followed by its fsync *)
Lemma wal_final : forall p, Forall (fun e => post_ok I e = true) p ->
  fpend (fget (drun d0 (pre ++ ew :: EF FMeta :: p ++ [ET FWal 0%N; EF FWal])) FWal) = [] /\
  all_zero (fdur (fget (drun d0 (pre ++ ew :: EF FMeta :: p ++ [ET FWal 0%N; EF FWal])) FWal)).
Proof.
  intros p Hp. rewrite run_split, drun_app.
  change (drun (drun d3 p) [ET FWal 0%N; EF FWal])
    with (dstep (dstep (drun d3 p) (ET FWal 0%N)) (EF FWal)).
  rewrite (fget_dstep _ (EF FWal) FWal). rewrite (fget_dstep _ (ET FWal 0%N) FWal).
  change (Nat.eqb (ev_file (EF FWal)) FWal) with true.
  change (Nat.eqb (ev_file (ET FWal 0%N)) FWal) with true. cbv iota.
  destruct (wal_post_run p Hp) as [Hpend _].
  set (s1 := fstep (fget (drun d3 p) FWal) (ET FWal 0%N)).
  assert (H1 : Forall (fun o => o = PTrunc 0) (fpend s1)).
  { unfold s1. simpl. apply Forall_app. split; [exact Hpend|]. constructor; [reflexivity|constructor]. }
  assert (H2 : fpend s1 <> []).
  { unfold s1. simpl. intros E. apply app_eq_nil in E. destruct E as [_ E]. discriminate. }
  destruct (fsync_trunc0 s1 FWal H1) as (F1 & F2 & _).
  split; [exact F1|]. destruct F2 as [[F2 _]|[_ F2]]; [contradiction|exact F2].
Qed.

End Switch.

Lemma cut_cases : forall tr pre post n,
  tr = pre ++ EW FMeta 0 (m_new I) :: EF FMeta :: post ->
  (n <= length pre /\ firstn n tr = firstn n pre) \/
  (n = S (length pre) /\ firstn n tr = pre ++ [EW FMeta 0 (m_new I)]) \/
  (S (length pre) < n /\
   firstn n tr = pre ++ EW FMeta 0 (m_new I) :: EF FMeta :: firstn (n - length pre - 2) post).
Proof.
  intros tr pre post n Htr.
  destruct (le_lt_dec n (length pre)) as [Hn|Hn].
  - left. split; [exact Hn|]. rewrite Htr. apply firstn_le_app. exact Hn.
  - right. destruct (Nat.eq_dec n (S (length pre))) as [Hn2|Hn2].
    + left. split; [exact Hn2|]. rewrite Htr, Hn2.
      replace (S (length pre)) with (length pre + 1) by lia. rewrite firstn_len_plus_app. reflexivity.
    + right. split; [lia|]. rewrite Htr.
      replace n with (length pre + S (S (n - length pre - 2))) at 1 by lia.
      rewrite firstn_len_plus_app. reflexivity.
Qed.

(* generic in the reopening function: anything that agrees with [recover] on ROld / RNew and for
   which the pre-phase yields ROld (the only place where the WAL of the previous sync matters) *)
Lemma atomic_core_gen : forall (rec : image -> outcome) tr,
  (forall img, recover I img = ROld -> rec img = ROld) ->
  (forall img, recover I img = RNew -> rec img = RNew) ->
  (forall evs img, Forall (fun e => pre_ok I e = true) evs -> pl_image (drun d0 evs) img ->
                   rec img = ROld) ->
  discipline I d0 tr = true ->
  forall n img, pl_image (drun d0 (firstn n tr)) img ->
    (rec img = ROld \/ rec img = RNew) /\
    (forall iw, index_of is_meta_write tr = Some iw -> n <= iw -> rec img = ROld) /\
    (forall is_, index_of is_meta_sync tr = Some is_ -> is_ < n -> rec img = RNew).
Proof.
  intros rec tr TO TN P1 Hd n img Himg.
  destruct (discipline_shape _ _ _ Hd)
    as [Hw Hsn Hall | pre post Htr Hiw His Hpre HcW HcL HcB Hwal Hpages Hpost Htrunc].
  - assert (R : rec img = ROld).
    { apply (P1 (firstn n tr)); auto. apply Forall_firstn. exact Hall. }
    split; [left; exact R|split].
    + intros iw _ _. exact R.
    + intros is_ E. rewrite Hsn in E. discriminate.
  - destruct (cut_cases tr pre post n Htr) as [[Hn E]|[[Hn E]|[Hn E]]]; rewrite E in Himg.
    + assert (R : rec img = ROld).
      { apply (P1 (firstn n pre)); auto. apply Forall_firstn. exact Hpre. }
      split; [left; exact R|split].
      * intros iw _ _. exact R.
      * intros is_ E2 Hlt. rewrite His in E2. inversion E2. lia.
    + destruct (phase2 pre Hpre HcW HcL HcB Hwal Hpages img Himg) as [R _].
      split; [destruct R as [R|R]; [left; apply TO|right; apply TN]; exact R|split].
      * intros iw E2 Hle. rewrite Hiw in E2. inversion E2. lia.
      * intros is_ E2 Hlt. rewrite His in E2. inversion E2. lia.
    + assert (R : rec img = RNew).
      { apply TN. exact (phase3 pre Hpre HcW HcL HcB Hwal Hpages post _ img Hpost Htrunc Himg). }
      split; [right; exact R|split].
      * intros iw E2 Hle. rewrite Hiw in E2. inversion E2. lia.
      * intros is_ _ _. exact R.
Qed.

Lemma atomic_core : forall tr, wal_safe I d0 -> discipline I d0 tr = true ->
  forall n img, pl_image (drun d0 (firstn n tr)) img ->
    (recover I img = ROld \/ recover I img = RNew) /\
    (forall iw, index_of is_meta_write tr = Some iw -> n <= iw -> recover I img = ROld) /\
    (forall is_, index_of is_meta_sync tr = Some is_ -> is_ < n -> recover I img = RNew).
Proof.
  intros tr Hs Hd. apply (atomic_core_gen (recover I) tr); auto.
  intros evs img Hpre Himg. apply (phase1 evs); auto.
Qed.

Lemma intact_core : forall tr, discipline I d0 tr = true ->
  forall n img, (forall is_, index_of is_meta_sync tr = Some is_ -> n <= is_) ->
  pl_image (drun d0 (firstn n tr)) img ->
  pages_ok img (live_old I) = true /\ ht_all img (ht_old I) = true.
Proof.
  intros tr Hd n img Hn Himg.
  destruct (discipline_shape _ _ _ Hd)
    as [Hw Hsn Hall | pre post Htr Hiw His Hpre HcW HcL HcB Hwal Hpages Hpost Htrunc].
  - apply (old_kept_image (drun d0 (firstn n tr))); auto.
    apply pre_run_kept. apply Forall_firstn. exact Hall.
  - destruct (cut_cases tr pre post n Htr) as [[Hn' E]|[[Hn' E]|[Hn' E]]]; rewrite E in Himg.
    + apply (old_kept_image (drun d0 (firstn n pre))); auto.
      apply pre_run_kept. apply Forall_firstn. exact Hpre.
    + destruct (phase2 pre Hpre HcW HcL HcB Hwal Hpages img Himg) as [_ R]. exact R.
    + specialize (Hn _ His). lia.
Qed.

End Proto.

(* ====================================================================================== *)
(* Part 4: the theorems                                                                     *)
(* ====================================================================================== *)

Theorem powerloss_atomic : forall I d0 tr,
  inst_ok I -> start_ok I d0 -> wal_safe I d0 -> discipline I d0 tr = true ->
  forall n img, pl_image (drun d0 (firstn n tr)) img ->
    (recover I img = ROld \/ recover I img = RNew) /\
    (forall iw, index_of is_meta_write tr = Some iw -> n <= iw -> recover I img = ROld) /\
    (forall is_, index_of is_meta_sync tr = Some is_ -> is_ < n -> recover I img = RNew).
Proof. intros I d0 tr HI H0 Hs Hd n img Himg. exact (atomic_core I d0 HI H0 tr Hs Hd n img Himg). Qed.

Lemma crash_is_powerloss : forall d img, crash_image d img -> pl_image d img.
Proof.
  intros d img H f. destruct (H f) as [keep [Hlen [_ Himg]]]. exists keep. split; assumption.
Qed.

Theorem crash_atomic : forall I d0 tr,
  inst_ok I -> start_ok I d0 -> wal_safe I d0 -> discipline I d0 tr = true ->
  forall n img, crash_image (drun d0 (firstn n tr)) img ->
    (recover I img = ROld \/ recover I img = RNew) /\
    (forall iw, index_of is_meta_write tr = Some iw -> n <= iw -> recover I img = ROld) /\
    (forall is_, index_of is_meta_sync tr = Some is_ -> is_ < n -> recover I img = RNew).
Proof.
  intros I d0 tr HI H0 Hs Hd n img Himg.
  apply (powerloss_atomic I d0 tr HI H0 Hs Hd n img). apply crash_is_powerloss. exact Himg.
Qed.

(* C17: until the switch-over is durable nothing the old image references is touched *)
Theorem old_image_intact : forall I d0 tr,
  inst_ok I -> start_ok I d0 -> discipline I d0 tr = true ->
  forall n img, (forall is_, index_of is_meta_sync tr = Some is_ -> n <= is_) ->
  pl_image (drun d0 (firstn n tr)) img ->
  pages_ok img (live_old I) = true /\ ht_all img (ht_old I) = true.
Proof. intros I d0 tr HI H0 Hd n img Hn Himg. exact (intact_core I d0 HI H0 tr Hd n img Hn Himg). Qed.

(* ---- what the F8 fix (fsync after the post-meta WAL truncation) buys ---- *)
Theorem wal_safe_after_synced_truncation : forall I d0,
  start_ok I d0 -> fpend (fget d0 FWal) = [] -> wal_is (image_of_durable d0) 0 [] = true ->
  wal_safe I d0.
Proof. intros I d0 _ _ H. right. right. exact H. Qed.

Lemma tail2_inj : forall A (l l' : list A) a b a' b',
  l ++ [a; b] = l' ++ [a'; b'] -> l = l' /\ a = a' /\ b = b'.
Proof.
  intros A l l' a b a' b' H.
  replace (l ++ [a; b]) with ((l ++ [a]) ++ [b]) in H by (rewrite <- app_assoc; reflexivity).
  replace (l' ++ [a'; b']) with ((l' ++ [a']) ++ [b']) in H by (rewrite <- app_assoc; reflexivity).
  apply app_inj_tail in H. destruct H as [H Hb]. apply app_inj_tail in H. destruct H as [H Ha]. auto.
Qed.

Lemma last2_cases : forall A (l : list A),
  l = [] \/ (exists z, l = [z]) \/ exists p x y, l = p ++ [x; y].
Proof.
  intros A l. rewrite <- (rev_involutive l). destruct (rev l) as [|y [|x r]]; simpl.
  - left. reflexivity.
  - right. left. exists y. reflexivity.
  - right. right. exists (rev r), x, y. rewrite <- app_assoc. reflexivity.
Qed.

(* a complete sync: it contains the manifest fsync and ends with the truncation of the WAL and
   the fsync of that truncation *)
Definition complete (tr : list ev) : Prop :=
  index_of is_meta_sync tr <> None /\ exists tr', tr = tr' ++ [ET FWal 0%N; EF FWal].

(* after a disciplined complete sync the WAL has nothing pending and is durably empty *)
Theorem next_start_wal_safe : forall I d0 tr,
  inst_ok I -> start_ok I d0 -> discipline I d0 tr = true -> complete tr ->
  fpend (fget (drun d0 tr) FWal) = [] /\ wal_is (image_of_durable (drun d0 tr)) 0 [] = true.
Proof.
  intros I d0 tr HI H0 Hd [Hsync [tr' Htail]].
  destruct (discipline_shape _ _ _ Hd)
    as [Hw Hsn Hall | pre post Htr Hiw His Hpre HcW HcL HcB Hwal Hpages Hpost Htrunc].
  - contradiction.
  - assert (Hp : exists p, post = p ++ [ET FWal 0%N; EF FWal]).
    { rewrite Htr in Htail. destruct (last2_cases _ post) as [E|[[z E]|[p [x [y E]]]]]; subst post.
      - apply tail2_inj in Htail. destruct Htail as (_ & _ & E). discriminate.
      - change (pre ++ EW FMeta 0 (m_new I) :: EF FMeta :: [z])
          with (pre ++ [EW FMeta 0 (m_new I)] ++ [EF FMeta; z]) in Htail.
        rewrite app_assoc in Htail. apply tail2_inj in Htail. destruct Htail as (_ & E & _). discriminate.
      - change (pre ++ EW FMeta 0 (m_new I) :: EF FMeta :: p ++ [x; y])
          with (pre ++ (EW FMeta 0 (m_new I) :: EF FMeta :: p) ++ [x; y]) in Htail.
        rewrite app_assoc in Htail. apply tail2_inj in Htail. destruct Htail as (_ & Ex & Ey).
        subst x y. exists p. reflexivity. }
    destruct Hp as [p Ep]. subst post.
    assert (Hpp : Forall (fun e => post_ok I e = true) p).
    { apply Forall_app in Hpost. destruct Hpost as [Hpp _]. exact Hpp. }
    destruct (wal_final I d0 pre HcW p Hpp) as [F1 F2].
    rewrite Htr. split; [exact F1|].
    simpl. unfold image_of_durable. rewrite F2. reflexivity.
Qed.

(* hence the next sync needs no assumption about the WAL: [powerloss_atomic] applies to it *)
Theorem powerloss_atomic_next_sync : forall I d0 tr I' tr2,
  inst_ok I -> start_ok I d0 -> discipline I d0 tr = true -> complete tr ->
  inst_ok I' -> start_ok I' (drun d0 tr) -> discipline I' (drun d0 tr) tr2 = true ->
  forall n img, pl_image (drun (drun d0 tr) (firstn n tr2)) img ->
    (recover I' img = ROld \/ recover I' img = RNew) /\
    (forall iw, index_of is_meta_write tr2 = Some iw -> n <= iw -> recover I' img = ROld) /\
    (forall is_, index_of is_meta_sync tr2 = Some is_ -> is_ < n -> recover I' img = RNew).
Proof.
  intros I d0 tr I' tr2 HI H0 Hd Hc HI' H0' Hd'.
  destruct (next_start_wal_safe I d0 tr HI H0 Hd Hc) as [Hp Hw].
  apply powerloss_atomic; auto. apply wal_safe_after_synced_truncation; auto.
Qed.

(* ... and so along a whole history of complete syncs: only the very first one needs [wal_safe] *)
Definition atomic_at (I : inst) (d : disk) (tr : list ev) : Prop :=
  forall n img, pl_image (drun d (firstn n tr)) img ->
    (recover I img = ROld \/ recover I img = RNew) /\
    (forall iw, index_of is_meta_write tr = Some iw -> n <= iw -> recover I img = ROld) /\
    (forall is_, index_of is_meta_sync tr = Some is_ -> is_ < n -> recover I img = RNew).

Fixpoint history (d0 : disk) (h : list (inst * list ev)) : Prop :=
  match h with
  | [] => True
  | (J, tr) :: h' =>
      inst_ok J /\ start_ok J d0 /\ discipline J d0 tr = true /\ complete tr /\ history (drun d0 tr) h'
  end.

Fixpoint all_atomic (d0 : disk) (h : list (inst * list ev)) : Prop :=
  match h with
  | [] => True
  | (J, tr) :: h' => atomic_at J d0 tr /\ all_atomic (drun d0 tr) h'
  end.

Theorem history_atomic : forall h d0,
  match h with [] => True | (J, _) :: _ => wal_safe J d0 end ->
  history d0 h -> all_atomic d0 h.
Proof.
  intros h. induction h as [|[J tr] h IH]; intros d0 Hs Hh; simpl; [exact I|].
  destruct Hh as (HI & H0 & Hd & Hc & Hh). split.
  - intros n img Himg. apply (powerloss_atomic J d0 tr); auto.
  - apply IH; [|exact Hh]. destruct h as [|[J' tr'] h']; [exact I|].
    destruct Hh as (_ & H0' & _).
    destruct (next_start_wal_safe J d0 tr HI H0 Hd Hc) as [Hp Hw].
    apply wal_safe_after_synced_truncation; auto.
Qed.

(* ====================================================================================== *)
(* Part 5: concrete witnesses (F8, necessity of each fsync)                                 *)
(* ====================================================================================== *)

(* explicit power-loss images: a keep vector per file, [] for the files not mentioned *)
Definition kget (ks : list (nat * list bool)) (f : nat) : list bool :=
  match find (fun x => Nat.eqb (fst x) f) ks with Some (_, k) => k | None => [] end.

Definition img_of (d : disk) (ks : list (nat * list bool)) : image :=
  fun f pn => file_image (fget d f) (kget ks f) pn.

Definition keeps_ok (d : disk) (ks : list (nat * list bool)) : bool :=
  forallb (fun f => Nat.eqb (length (kget ks f)) (length (fpend (fget d f)))) (map fst d ++ map fst ks).

Lemma find_fst_none : forall A (l : list (nat * A)) f,
  ~ In f (map fst l) -> find (fun x => Nat.eqb (fst x) f) l = None.
Proof.
  intros A l f. induction l as [|[g a] l IH]; intros H; simpl in *; [reflexivity|].
  destruct (Nat.eqb g f) eqn:E.
  - apply Nat.eqb_eq in E. exfalso. apply H. left. exact E.
  - apply IH. intros Hin. apply H. right. exact Hin.
Qed.

Lemma pl_image_of_keeps : forall d ks, keeps_ok d ks = true -> pl_image d (img_of d ks).
Proof.
  intros d ks H f. exists (kget ks f). split; [|intros pn; reflexivity].
  destruct (in_dec Nat.eq_dec f (map fst d ++ map fst ks)) as [Hin|Hnin].
  - unfold keeps_ok in H. rewrite forallb_forall in H. apply Nat.eqb_eq. apply H. exact Hin.
  - assert (H1 : ~ In f (map fst d)) by (intros Hx; apply Hnin; apply in_or_app; left; exact Hx).
    assert (H2 : ~ In f (map fst ks)) by (intros Hx; apply Hnin; apply in_or_app; right; exact Hx).
    unfold kget, fget. rewrite (find_fst_none _ d f H1), (find_fst_none _ ks f H2). reflexivity.
Qed.

Ltac inl H :=
  simpl in H; repeat (destruct H as [H|H]; [inversion H; subst; clear H|]); try contradiction.

Ltac solve_inst_ok :=
  unfold inst_ok; simpl;
  repeat match goal with |- _ /\ _ => split end;
  [ discriminate | discriminate | discriminate | discriminate | discriminate | discriminate
  | intros H; inl H; discriminate | intros H; inl H; discriminate
  | reflexivity
  | repeat constructor; simpl; intuition discriminate
  | intros f pn c H; inl H; reflexivity
  | intros f pn c H; inl H; auto
  | intros f pn c H; inl H; (split; [auto|discriminate]) ].

Ltac solve_start_ok := unfold start_ok; vm_compute; repeat split; auto.

Module Witness.
  Import Tests.
  Local Open Scope N_scope.

  Lemma IA_ok : inst_ok IA. Proof. solve_inst_ok. Qed.
  Lemma IB_ok : inst_ok IB. Proof. solve_inst_ok. Qed.
  Lemma IC_ok : inst_ok IC. Proof. solve_inst_ok. Qed.
  Lemma dA_ok : start_ok IA dA. Proof. solve_start_ok. Qed.
  Lemma dA'_ok : start_ok IA dA'. Proof. solve_start_ok. Qed.
  Lemma dB_ok : start_ok IB dB. Proof. solve_start_ok. Qed.
  Lemma dB_ok_C : start_ok IC dB. Proof. solve_start_ok. Qed.
  Lemma dA_safe : wal_safe IA dA. Proof. right. right. reflexivity. Qed.
  Lemma dB_safe : wal_safe IB dB. Proof. right. left. simpl. lia. Qed.

  (* instance D for the necessity witnesses: the full trace is disciplined *)
  Definition ID : inst := {|
    m_old := 1; m_new := 2;
    live_old := [(FLn, 0, 10)]; tree_new := [(FLn, 1, 11)];
    wal_old := [30]; wal_new := [40];
    ht_old := [(3, 50)]; ht_new := [(3, 60)] |}.
  Definition dD : disk :=
    [(FMeta, mkf [(0, 1)] []); (FWal, mkf [] [PTrunc 0]);
     (FHt, mkf [(3, 50)] []); (FLn, mkf [(0, 10)] []); (FBbn, mkf [] [])].
  Definition trD : list ev :=
    [ET FWal 0; EW FWal 0 40; EF FWal; ES FLn 1 11; EC FLn 1; EF FLn;
     EW FMeta 0 2; EF FMeta; ES FHt 3 60; EC FHt 3; EF FHt; ET FWal 0].
  Definition trD_no_wal_fsync : list ev :=
    [ET FWal 0; EW FWal 0 40; ES FLn 1 11; EC FLn 1; EF FLn;
     EW FMeta 0 2; EF FMeta; ES FHt 3 60; EC FHt 3; EF FHt; ET FWal 0].
  Definition trD_no_tree_fsync : list ev :=
    [ET FWal 0; EW FWal 0 40; EF FWal; ES FLn 1 11; EC FLn 1;
     EW FMeta 0 2; EF FMeta; ES FHt 3 60; EC FHt 3; EF FHt; ET FWal 0].
  Definition trD_early_trunc : list ev :=
    [ET FWal 0; EW FWal 0 40; EF FWal; ES FLn 1 11; EC FLn 1; EF FLn;
     EW FMeta 0 2; EF FMeta; ES FHt 3 60; EC FHt 3; ET FWal 0; EF FHt].
  Lemma ID_ok : inst_ok ID. Proof. solve_inst_ok. Qed.
  Lemma dD_ok : start_ok ID dD. Proof. solve_start_ok. Qed.
  Lemma dD_safe : wal_safe ID dD. Proof. right. right. reflexivity. Qed.
  Example trD_disciplined : discipline ID dD trD = true. Proof. vm_compute. reflexivity. Qed.
  Example trD_atomic : check_all ID dD trD = true. Proof. vm_compute. reflexivity. Qed.
  (* F8 fixed: the truncation of the WAL is fsynced; an fsync before the truncation is a no-op *)
  Definition trD_fixed : list ev := trD ++ [EF FWal].
  Definition trD_fixed' : list ev :=
    [ET FWal 0; EW FWal 0 40; EF FWal; ES FLn 1 11; EC FLn 1; EF FLn;
     EW FMeta 0 2; EF FMeta; EF FWal; ES FHt 3 60; EC FHt 3; EF FHt; ET FWal 0; EF FWal].
  Example trD_fixed_disciplined : discipline ID dD trD_fixed = true. Proof. vm_compute. reflexivity. Qed.
  Example trD_fixed_atomic : check_all ID dD trD_fixed = true. Proof. vm_compute. reflexivity. Qed.
  Example trD_fixed'_disciplined : discipline ID dD trD_fixed' = true. Proof. vm_compute. reflexivity. Qed.
  Example trD_fixed'_atomic : check_all ID dD trD_fixed' = true. Proof. vm_compute. reflexivity. Qed.
  Example trD_fixed_final :
    fpend (fget (drun dD trD_fixed) FWal) = [] /\ fdur (fget (drun dD trD_fixed) FWal) = [].
  Proof. vm_compute. split; reflexivity. Qed.
End Witness.

(* F8 recorded: without wal_safe the statement is FALSE *)
Theorem wal_unsafe_refuted : exists I d0 tr n img,
  inst_ok I /\ start_ok I d0 /\ discipline I d0 tr = true /\
  pl_image (drun d0 (firstn n tr)) img /\ recover I img = RBad.
Proof.
  exists Tests.IA, Tests.dA', Tests.trA, 3.
  exists (img_of (drun Tests.dA' (firstn 3 Tests.trA)) [(FWal, [false; false; false; true])]).
  split; [exact Witness.IA_ok|]. split; [exact Witness.dA'_ok|].
  split; [vm_compute; reflexivity|].
  split; [apply pl_image_of_keeps; vm_compute; reflexivity|vm_compute; reflexivity].
Qed.

(* The statement handed out used
     wal_safe I d0 := length (wal_old I) <= 1 \/ wal_is (image_of_durable d0) 0 [] = true.
   With that definition [powerloss_atomic] is false: old blob [30] durable, new blob [40;41],
   cut after both WAL writes, only the second write survives: WAL = [30;41], header = old header,
   but [wal_is img 0 [30]] demands page 1 = 0. *)
Theorem original_wal_safe_refuted : exists I d0 tr n img,
  inst_ok I /\ start_ok I d0 /\
  (length (wal_old I) <= 1 \/ wal_is (image_of_durable d0) 0 [] = true) /\
  discipline I d0 tr = true /\
  pl_image (drun d0 (firstn n tr)) img /\ recover I img = RBad.
Proof.
  exists Tests.IC, Tests.dB, Tests.trC, 4.
  exists (img_of (drun Tests.dB (firstn 4 Tests.trC))
                 [(FWal, [false; false; false; true]); (FLn, [false])]).
  split; [exact Witness.IC_ok|]. split; [exact Witness.dB_ok_C|].
  split; [left; simpl; lia|].
  split; [vm_compute; reflexivity|].
  split; [apply pl_image_of_keeps; vm_compute; reflexivity|vm_compute; reflexivity].
Qed.

(* necessity of the fsyncs *)
Theorem wal_fsync_necessary : exists I d0 tr n img,
  inst_ok I /\ start_ok I d0 /\ wal_safe I d0 /\ discipline I d0 tr = false /\
  pl_image (drun d0 (firstn n tr)) img /\ recover I img = RBad.
Proof.
  (* the trace omits only [EF FWal]; the blob is lost, the manifest is new, the hash table old *)
  exists Witness.ID, Witness.dD, Witness.trD_no_wal_fsync, 7.
  exists (img_of (drun Witness.dD (firstn 7 Witness.trD_no_wal_fsync)) [(FWal, [false; false; false])]).
  split; [exact Witness.ID_ok|]. split; [exact Witness.dD_ok|]. split; [exact Witness.dD_safe|].
  split; [vm_compute; reflexivity|].
  split; [apply pl_image_of_keeps; vm_compute; reflexivity|vm_compute; reflexivity].
Qed.

Theorem tree_fsync_necessary : exists I d0 tr n img,
  inst_ok I /\ start_ok I d0 /\ wal_safe I d0 /\ discipline I d0 tr = false /\
  pl_image (drun d0 (firstn n tr)) img /\ recover I img = RBad.
Proof.
  (* the trace omits only [EF FLn]; the new leaf page is lost, the manifest is new *)
  exists Witness.ID, Witness.dD, Witness.trD_no_tree_fsync, 7.
  exists (img_of (drun Witness.dD (firstn 7 Witness.trD_no_tree_fsync)) [(FLn, [false])]).
  split; [exact Witness.ID_ok|]. split; [exact Witness.dD_ok|]. split; [exact Witness.dD_safe|].
  split; [vm_compute; reflexivity|].
  split; [apply pl_image_of_keeps; vm_compute; reflexivity|vm_compute; reflexivity].
Qed.

Theorem ht_fsync_necessary : exists I d0 tr n img,
  inst_ok I /\ start_ok I d0 /\ wal_safe I d0 /\ discipline I d0 tr = false /\
  pl_image (drun d0 (firstn n tr)) img /\ recover I img = RBad.
Proof.
  (* the WAL is truncated before [EF FHt]; the truncation survives, the hash-table write does not *)
  exists Witness.ID, Witness.dD, Witness.trD_early_trunc, 11.
  exists (img_of (drun Witness.dD (firstn 11 Witness.trD_early_trunc)) [(FWal, [true]); (FHt, [false])]).
  split; [exact Witness.ID_ok|]. split; [exact Witness.dD_ok|]. split; [exact Witness.dD_safe|].
  split; [vm_compute; reflexivity|].
  split; [apply pl_image_of_keeps; vm_compute; reflexivity|vm_compute; reflexivity].
Qed.

(* ====================================================================================== *)
(* Part 6: the statement as handed out holds for a reader that stops at the end of the blob  *)
(* ====================================================================================== *)
(* bitbox/wal/read.rs parses entries up to the END tag of the blob and never looks at what
   follows; [recover] is stricter ([wal_is] wants a zero page behind the blob).  With the laxer
   reader below, the condition of the handed-out statement ("the old blob has at most one page,
   or its truncation is durable") IS sufficient.  [recover] = ROld/RNew implies
   [recover_end] = ROld/RNew, so this is the same proof except for the pre-phase WAL argument. *)
Fixpoint wal_pref (img : image) (i : N) (w : list cid) : bool :=
  match w with
  | [] => true
  | c :: w' => N.eqb (img FWal i) c && wal_pref img (i + 1) w'
  end.

Definition recover_end (I : inst) (img : image) : outcome :=
  let hdr := img FWal 0%N in
  if N.eqb (img FMeta 0%N) (m_old I) then
    if pages_ok img (live_old I) && ht_all img (ht_old I) &&
       (negb (N.eqb hdr (hd 0%N (wal_old I))) || N.eqb hdr 0 || wal_pref img 0 (wal_old I))
    then ROld else RBad
  else if N.eqb (img FMeta 0%N) (m_new I) then
    if pages_ok img (tree_new I) &&
       (if N.eqb hdr (hd 0%N (wal_new I))
        then wal_pref img 0 (wal_new I) && ht_each_old_or_new img (ht_old I) (ht_new I)
        else ht_all img (ht_new I))
    then RNew else RBad
  else RBad.

Definition wal_safe_orig (I : inst) (d0 : disk) : Prop :=
  length (wal_old I) <= 1 \/ wal_is (image_of_durable d0) 0 [] = true.

Lemma wal_is_pref : forall img w i, wal_is img i w = true -> wal_pref img i w = true.
Proof.
  intros img w. induction w as [|c w IH]; intros i H; simpl in *; [reflexivity|].
  apply andb_true_iff in H. destruct H as [Ha Hb]. rewrite Ha. simpl. apply IH. exact Hb.
Qed.

Lemma recover_end_old : forall I img, recover I img = ROld -> recover_end I img = ROld.
Proof.
  intros I img H. unfold recover in H. unfold recover_end.
  destruct (N.eqb (img FMeta 0%N) (m_old I)).
  - destruct (pages_ok img (live_old I)); simpl in *; [|discriminate].
    destruct (ht_all img (ht_old I)); simpl in *; [|discriminate].
    destruct (negb (N.eqb (img FWal 0%N) (hd 0%N (wal_old I)))); simpl in *; [reflexivity|].
    destruct (N.eqb (img FWal 0%N) 0); simpl in *; [reflexivity|].
    destruct (wal_is img 0 (wal_old I)) eqn:E; [|discriminate].
    rewrite (wal_is_pref _ _ _ E). reflexivity.
  - destruct (N.eqb (img FMeta 0%N) (m_new I)); [|discriminate].
    match type of H with (if ?b then _ else _) = _ => destruct b end; discriminate.
Qed.

Lemma recover_end_new : forall I img, recover I img = RNew -> recover_end I img = RNew.
Proof.
  intros I img H. unfold recover in H. unfold recover_end.
  destruct (N.eqb (img FMeta 0%N) (m_old I)).
  - match type of H with (if ?b then _ else _) = _ => destruct b end; discriminate.
  - destruct (N.eqb (img FMeta 0%N) (m_new I)); [|discriminate].
    destruct (pages_ok img (tree_new I)); simpl in *; [|discriminate].
    destruct (N.eqb (img FWal 0%N) (hd 0%N (wal_new I))); [|exact H].
    destruct (wal_is img 0 (wal_new I)) eqn:E; simpl in *; [|discriminate].
    rewrite (wal_is_pref _ _ _ E). simpl. exact H.
Qed.

Theorem powerloss_atomic_endtag : forall I d0 tr,
  inst_ok I -> start_ok I d0 -> wal_safe_orig I d0 -> discipline I d0 tr = true ->
  forall n img, pl_image (drun d0 (firstn n tr)) img ->
    (recover_end I img = ROld \/ recover_end I img = RNew) /\
    (forall iw, index_of is_meta_write tr = Some iw -> n <= iw -> recover_end I img = ROld) /\
    (forall is_, index_of is_meta_sync tr = Some is_ -> is_ < n -> recover_end I img = RNew).
Proof.
  intros I d0 tr HI H0 Hs Hd.
  apply (atomic_core_gen I d0 HI H0 (recover_end I) tr); auto.
  - apply recover_end_old.
  - apply recover_end_new.
  - intros evs img Hpre Himg.
    assert (Hcase : wal_safe I d0 \/ exists o0, wal_old I = [o0]).
    { destruct Hs as [Hs|Hs]; [|left; right; right; exact Hs].
      destruct (wal_old I) as [|o0 [|? ?]] eqn:Eo.
      - left. left. exact Eo.
      - right. exists o0. reflexivity.
      - simpl in Hs. lia. }
    destruct Hcase as [Hc|[o0 Eo]].
    + apply recover_end_old. apply (phase1 I d0 HI H0 evs); auto.
    + destruct (phase1_base I d0 HI H0 evs img Hpre Himg) as (Hm & Hl & Hh).
      unfold recover_end. rewrite Hm, N.eqb_refl, Hl, Hh, Eo. simpl.
      destruct (N.eqb (img FWal 0%N) o0); simpl; [rewrite orb_true_r|]; reflexivity.
Qed.

Theorem crash_atomic_endtag : forall I d0 tr,
  inst_ok I -> start_ok I d0 -> wal_safe_orig I d0 -> discipline I d0 tr = true ->
  forall n img, crash_image (drun d0 (firstn n tr)) img ->
    (recover_end I img = ROld \/ recover_end I img = RNew) /\
    (forall iw, index_of is_meta_write tr = Some iw -> n <= iw -> recover_end I img = ROld) /\
    (forall is_, index_of is_meta_sync tr = Some is_ -> is_ < n -> recover_end I img = RNew).
Proof.
  intros I d0 tr HI H0 Hs Hd n img Himg.
  apply (powerloss_atomic_endtag I d0 tr HI H0 Hs Hd n img). apply crash_is_powerloss. exact Himg.
Qed.

(* F8 is a defect for this reader too: the witness of [wal_unsafe_refuted] *)
Theorem wal_unsafe_refuted_endtag : exists I d0 tr n img,
  inst_ok I /\ start_ok I d0 /\ discipline I d0 tr = true /\
  pl_image (drun d0 (firstn n tr)) img /\ recover_end I img = RBad.
Proof.
  exists Tests.IA, Tests.dA', Tests.trA, 3.
  exists (img_of (drun Tests.dA' (firstn 3 Tests.trA)) [(FWal, [false; false; false; true])]).
  split; [exact Witness.IA_ok|]. split; [exact Witness.dA'_ok|].
  split; [vm_compute; reflexivity|].
  split; [apply pl_image_of_keeps; vm_compute; reflexivity|vm_compute; reflexivity].
Qed.

(* Why [pre_ok] was strengthened.  As handed out, a synchronous write to the WAL was accepted in
   the pre-phase whatever its content ([pre_ok_handed_out]); the monitor only checked that the
   durable WAL equals the new blob at the switch-over.  One foreign write (here: a page equal to
   the old header) followed by an impeccable sync, cut right after that write, reopens as RBad. *)
Definition pre_ok_handed_out (I : inst) (e : ev) : bool :=
  match e with
  | EW f pn c => Nat.eqb f FWal || (is_tree f && negb (in_live I f pn))
  | _ => pre_ok I e
  end.

Theorem pre_ok_wal_clause_needed : exists I d0 e tr img,
  inst_ok I /\ start_ok I d0 /\ wal_safe I d0 /\
  pre_ok_handed_out I e = true /\ pre_ok I e = false /\
  discipline I (dstep d0 e) tr = true /\
  pl_image (dstep d0 e) img /\ recover I img = RBad.
Proof.
  exists Tests.IA, Tests.dA, (EW FWal 0%N 30%N), Tests.trA.
  exists (img_of (dstep Tests.dA (EW FWal 0%N 30%N)) [(FWal, [false; true])]).
  split; [exact Witness.IA_ok|]. split; [exact Witness.dA_ok|]. split; [exact Witness.dA_safe|].
  split; [reflexivity|]. split; [reflexivity|].
  split; [vm_compute; reflexivity|].
  split; [apply pl_image_of_keeps; vm_compute; reflexivity|vm_compute; reflexivity].
Qed.

Print Assumptions next_start_wal_safe.
Print Assumptions history_atomic.
Print Assumptions powerloss_atomic.
Print Assumptions crash_atomic.
Print Assumptions old_image_intact.
Print Assumptions powerloss_atomic_endtag.
Print Assumptions wal_unsafe_refuted.
Print Assumptions ht_fsync_necessary.
