(* C15: proofs about the readers/writer protocol model of Locks.v *)
From Coq Require Import List Bool Arith NArith Lia.
Import ListNotations.
From Nomt Require Import Base Locks Base_proofs.

(* ------------------------------------------------------------------ *)
(* set_nth / nth / filter facts                                         *)

Lemma set_nth_length : forall l t x, length (set_nth l t x) = length l.
Proof.
  induction l as [|y l IH]; intros [|t] x; cbn [set_nth length]; try reflexivity.
  rewrite IH. reflexivity.
Qed.

Lemma nth_set_nth_eq : forall l t x, t < length l -> nth t (set_nth l t x) TIdle = x.
Proof.
  induction l as [|y l IH]; intros [|t] x Hlt; cbn [length] in Hlt; try lia;
    cbn [set_nth nth]; try reflexivity.
  apply IH. lia.
Qed.

Lemma nth_set_nth_neq : forall l t t' x, t' <> t -> nth t' (set_nth l t x) TIdle = nth t' l TIdle.
Proof.
  induction l as [|y l IH]; intros [|t] [|t'] x Hne; cbn [set_nth nth]; try reflexivity; try congruence.
  apply IH. congruence.
Qed.

Lemma nth_nonidle_lt : forall (l : list tst) t, nth t l TIdle <> TIdle -> t < length l.
Proof.
  intros l t Hne. destruct (lt_dec t (length l)) as [Hlt|Hge]; [exact Hlt|].
  exfalso. apply Hne. apply nth_overflow. lia.
Qed.

Definition b2n (b : bool) : nat := if b then 1 else 0.

Lemma filter_set_nth : forall (f : tst -> bool) l t x, t < length l ->
  length (filter f (set_nth l t x)) + b2n (f (nth t l TIdle)) = length (filter f l) + b2n (f x).
Proof.
  intros f. induction l as [|y l IH]; intros [|t] x Hlt; cbn [length] in Hlt; try lia.
  - cbn [set_nth nth filter]. destruct (f x); destruct (f y); cbn [length b2n]; lia.
  - cbn [set_nth nth filter]. assert (Hlt' : t < length l) by lia.
    specialize (IH t x Hlt'). destruct (f y); cbn [length]; lia.
Qed.

Lemma filter_nth_pos : forall (f : tst -> bool) l t, t < length l -> f (nth t l TIdle) = true ->
  1 <= length (filter f l).
Proof.
  intros f. induction l as [|y l IH]; intros [|t] Hlt Hf; cbn [length] in Hlt; try lia.
  - cbn [nth] in Hf. cbn [filter]. rewrite Hf. cbn [length]. lia.
  - cbn [nth] in Hf. cbn [filter]. assert (Hlt' : t < length l) by lia.
    specialize (IH t Hlt' Hf). destruct (f y); cbn [length]; lia.
Qed.

Definition is_session (x : tst) : bool := match x with TSession _ => true | _ => false end.
Definition is_writing (x : tst) : bool := match x with TWriting _ _ => true | _ => false end.

Lemma count_sessions_set : forall l t x, t < length l ->
  count_sessions (set_nth l t x) + b2n (is_session (nth t l TIdle)) = count_sessions l + b2n (is_session x).
Proof. intros l t x Hlt. unfold count_sessions. apply (filter_set_nth is_session l t x Hlt). Qed.

Lemma count_writing_set : forall l t x, t < length l ->
  count_writing (set_nth l t x) + b2n (is_writing (nth t l TIdle)) = count_writing l + b2n (is_writing x).
Proof. intros l t x Hlt. unfold count_writing. apply (filter_set_nth is_writing l t x Hlt). Qed.

Lemma session_count_pos : forall l t snap, nth t l TIdle = TSession snap -> 1 <= count_sessions l.
Proof.
  intros l t snap H. unfold count_sessions.
  apply (filter_nth_pos is_session l t).
  - apply nth_nonidle_lt. rewrite H. discriminate.
  - rewrite H. reflexivity.
Qed.

Lemma writing_count_pos : forall l t b r, nth t l TIdle = TWriting b r -> 1 <= count_writing l.
Proof.
  intros l t b r H. unfold count_writing.
  apply (filter_nth_pos is_writing l t).
  - apply nth_nonidle_lt. rewrite H. discriminate.
  - rewrite H. reflexivity.
Qed.

Lemma count_sessions_repeat : forall n, count_sessions (repeat TIdle n) = 0.
Proof. induction n as [|n IH]; [reflexivity|]. unfold count_sessions in *. cbn. exact IH. Qed.

Lemma count_writing_repeat : forall n, count_writing (repeat TIdle n) = 0.
Proof. induction n as [|n IH]; [reflexivity|]. unfold count_writing in *. cbn. exact IH. Qed.

Lemma nth_repeat_idle : forall n t, nth t (repeat TIdle n) TIdle = TIdle.
Proof. induction n as [|n IH]; intros [|t]; cbn; auto. Qed.

(* ------------------------------------------------------------------ *)
(* the invariant                                                        *)

Definition linv (s : lstate) : Prop :=
  readers s = count_sessions (threads s) /\
  (writer s = true -> readers s = 0 /\ count_writing (threads s) = 1) /\
  (writer s = false -> count_writing (threads s) = 0) /\
  (forall t snap, nth t (threads s) TIdle = TSession snap -> snap = lcur s).

Theorem linv_init : forall c n, linv (linit c n).
Proof.
  intros c n. unfold linv, linit. cbn [readers writer threads lcur].
  rewrite count_sessions_repeat, count_writing_repeat.
  split; [reflexivity|]. split; [discriminate|]. split; [reflexivity|].
  intros t snap H. rewrite nth_repeat_idle in H. discriminate.
Qed.

(* in a state satisfying the invariant, a thread in the writer section means the write guard is held *)
Lemma linv_writing : forall s t b r, linv s -> nth t (threads s) TIdle = TWriting b r ->
  writer s = true /\ readers s = 0 /\ count_writing (threads s) = 1 /\ count_sessions (threads s) = 0.
Proof.
  intros s t b r (Hr & Hwt & Hwf & Hs) Ht.
  pose proof (writing_count_pos _ _ _ _ Ht) as Hpos.
  destruct (writer s) eqn:Ew.
  - destruct (Hwt eq_refl) as [H0 H1]. repeat split; try assumption. lia.
  - specialize (Hwf eq_refl). lia.
Qed.

Theorem linv_step : forall s l s', linv s -> lstep s l s' -> linv s'.
Proof.
  intros s l s' Hinv Hstep.
  destruct Hstep as
    [ s t Hlt Ht Hw
    | s t snap k Ht
    | s t snap Ht
    | s t snap batch Ht
    | s t b r Ht Hrd Hw
    | s t b r Ht Hbusy
    | s t b r Ht Heq
    | s t b r Ht Heq ]; try exact Hinv.
  - (* begin *)
    destruct Hinv as (Hr & Hwt & Hwf & Hs).
    pose proof (count_sessions_set (threads s) t (TSession (lcur s)) Hlt) as Hcs.
    pose proof (count_writing_set (threads s) t (TSession (lcur s)) Hlt) as Hcw.
    rewrite Ht in Hcs, Hcw. cbn [is_session is_writing b2n] in Hcs, Hcw.
    unfold linv, with_thread. cbn [readers writer threads lcur].
    split; [lia|]. split; [discriminate|]. split; [intros _; specialize (Hwf Hw); lia|].
    intros t' snap' H'. destruct (Nat.eq_dec t' t) as [->|Hne].
    + rewrite nth_set_nth_eq in H' by exact Hlt. congruence.
    + rewrite nth_set_nth_neq in H' by exact Hne. eapply Hs; eassumption.
  - (* end *)
    assert (Hlt : t < length (threads s)) by (apply nth_nonidle_lt; rewrite Ht; discriminate).
    pose proof (session_count_pos _ _ _ Ht) as Hpos.
    destruct Hinv as (Hr & Hwt & Hwf & Hs).
    pose proof (count_sessions_set (threads s) t TIdle Hlt) as Hcs.
    pose proof (count_writing_set (threads s) t TIdle Hlt) as Hcw.
    rewrite Ht in Hcs, Hcw. cbn [is_session is_writing b2n] in Hcs, Hcw.
    unfold linv, with_thread. cbn [readers writer threads lcur].
    split; [lia|]. split; [intros Hw; destruct (Hwt Hw); lia|].
    split; [intros Hw; specialize (Hwf Hw); lia|].
    intros t' snap' H'. destruct (Nat.eq_dec t' t) as [->|Hne].
    + rewrite nth_set_nth_eq in H' by exact Hlt. discriminate.
    + rewrite nth_set_nth_neq in H' by exact Hne. eapply Hs; eassumption.
  - (* finish *)
    assert (Hlt : t < length (threads s)) by (apply nth_nonidle_lt; rewrite Ht; discriminate).
    pose proof (session_count_pos _ _ _ Ht) as Hpos.
    destruct Hinv as (Hr & Hwt & Hwf & Hs).
    pose proof (count_sessions_set (threads s) t (TFinished snap (apply snap batch)) Hlt) as Hcs.
    pose proof (count_writing_set (threads s) t (TFinished snap (apply snap batch)) Hlt) as Hcw.
    rewrite Ht in Hcs, Hcw. cbn [is_session is_writing b2n] in Hcs, Hcw.
    unfold linv, with_thread. cbn [readers writer threads lcur].
    split; [lia|]. split; [intros Hw; destruct (Hwt Hw); lia|].
    split; [intros Hw; specialize (Hwf Hw); lia|].
    intros t' snap' H'. destruct (Nat.eq_dec t' t) as [->|Hne].
    + rewrite nth_set_nth_eq in H' by exact Hlt. discriminate.
    + rewrite nth_set_nth_neq in H' by exact Hne. eapply Hs; eassumption.
  - (* acquire *)
    assert (Hlt : t < length (threads s)) by (apply nth_nonidle_lt; rewrite Ht; discriminate).
    destruct Hinv as (Hr & Hwt & Hwf & Hs).
    pose proof (count_sessions_set (threads s) t (TWriting b r) Hlt) as Hcs.
    pose proof (count_writing_set (threads s) t (TWriting b r) Hlt) as Hcw.
    rewrite Ht in Hcs, Hcw. cbn [is_session is_writing b2n] in Hcs, Hcw.
    specialize (Hwf Hw).
    unfold linv, with_thread. cbn [readers writer threads lcur].
    split; [lia|]. split; [intros _; split; lia|]. split; [discriminate|].
    intros t' snap' H'. destruct (Nat.eq_dec t' t) as [->|Hne].
    + rewrite nth_set_nth_eq in H' by exact Hlt. discriminate.
    + rewrite nth_set_nth_neq in H' by exact Hne. eapply Hs; eassumption.
  - (* commit ok *)
    assert (Hlt : t < length (threads s)) by (apply nth_nonidle_lt; rewrite Ht; discriminate).
    destruct (linv_writing _ _ _ _ Hinv Ht) as (Hw & Hr0 & Hw1 & Hs0).
    pose proof (count_sessions_set (threads s) t TIdle Hlt) as Hcs.
    pose proof (count_writing_set (threads s) t TIdle Hlt) as Hcw.
    rewrite Ht in Hcs, Hcw. cbn [is_session is_writing b2n] in Hcs, Hcw.
    unfold linv, with_thread. cbn [readers writer threads lcur].
    split; [lia|]. split; [discriminate|]. split; [intros _; lia|].
    intros t' snap' H'. exfalso. destruct (Nat.eq_dec t' t) as [->|Hne].
    + rewrite nth_set_nth_eq in H' by exact Hlt. discriminate.
    + rewrite nth_set_nth_neq in H' by exact Hne.
      pose proof (session_count_pos _ _ _ H'). lia.
  - (* commit stale *)
    assert (Hlt : t < length (threads s)) by (apply nth_nonidle_lt; rewrite Ht; discriminate).
    destruct (linv_writing _ _ _ _ Hinv Ht) as (Hw & Hr0 & Hw1 & Hs0).
    pose proof (count_sessions_set (threads s) t TIdle Hlt) as Hcs.
    pose proof (count_writing_set (threads s) t TIdle Hlt) as Hcw.
    rewrite Ht in Hcs, Hcw. cbn [is_session is_writing b2n] in Hcs, Hcw.
    unfold linv, with_thread. cbn [readers writer threads lcur].
    split; [lia|]. split; [discriminate|]. split; [intros _; lia|].
    intros t' snap' H'. exfalso. destruct (Nat.eq_dec t' t) as [->|Hne].
    + rewrite nth_set_nth_eq in H' by exact Hlt. discriminate.
    + rewrite nth_set_nth_neq in H' by exact Hne.
      pose proof (session_count_pos _ _ _ H'). lia.
Qed.

Lemma linv_lrun : forall s ls s', lrun s ls s' -> linv s -> linv s'.
Proof.
  intros s ls s' Hrun. induction Hrun as [s|s l s1 ls s2 Hstep Hrun IH]; intros Hinv.
  - exact Hinv.
  - apply IH. eapply linv_step; eassumption.
Qed.

Theorem linv_run : forall c n ls s, lrun (linit c n) ls s -> linv s.
Proof. intros c n ls s Hrun. eapply linv_lrun; [exact Hrun|apply linv_init]. Qed.

(* ------------------------------------------------------------------ *)
(* excl                                                                  *)

Theorem excl : forall c n ls s t b r,
  lrun (linit c n) ls s -> nth t (threads s) TIdle = TWriting b r ->
  forall t', (exists snap, nth t' (threads s) TIdle = TSession snap) -> False.
Proof.
  intros c n ls s t b r Hrun Ht t' [snap Ht'].
  pose proof (linv_run _ _ _ _ Hrun) as Hinv.
  destruct (linv_writing _ _ _ _ Hinv Ht) as (_ & _ & _ & Hs0).
  pose proof (session_count_pos _ _ _ Ht'). lia.
Qed.

(* ------------------------------------------------------------------ *)
(* snapshot                                                              *)

Lemma lrun_app : forall s ls s', lrun s ls s' -> forall ls' s'', lrun s' ls' s'' -> lrun s (ls ++ ls') s''.
Proof.
  intros s ls s' Hrun. induction Hrun as [s|s l s1 ls s2 Hstep Hrun IH]; intros ls' s'' Hrun'.
  - exact Hrun'.
  - cbn [app]. eapply run_cons; [exact Hstep|]. apply IH. exact Hrun'.
Qed.

(* while thread t stays inside one session the committed state cannot move: this is the fact behind
   [snapshot], stated on its own *)
Lemma session_pins_lcur : forall s ls s' t snap,
  linv s -> nth t (threads s) TIdle = TSession snap ->
  lrun s ls s' -> nth t (threads s') TIdle = TSession snap ->
  lcur s = snap /\ lcur s' = snap.
Proof.
  intros s ls s' t snap Hinv Ht Hrun Ht'.
  pose proof (linv_lrun _ _ _ Hrun Hinv) as Hinv'.
  destruct Hinv as (_ & _ & _ & Hs). destruct Hinv' as (_ & _ & _ & Hs').
  split; symmetry; [eapply Hs|eapply Hs']; eassumption.
Qed.

Theorem snapshot : forall c n ls s t snap k v ls' s',
  lrun (linit c n) ls s -> nth t (threads s) TIdle = TSession snap ->
  lrun s ls' s' -> nth t (threads s') TIdle = TSession snap ->
  (forall l, In l ls' -> l <> LEnd t /\ l <> LFinish t) ->
  forall s'', lstep s' (LRead t k v) s'' -> v = get snap k.
Proof.
  intros c n ls s t snap k v ls' s' Hrun Ht Hrun' Ht' _ s'' Hstep.
  pose proof (linv_run _ _ _ _ Hrun) as Hinv.
  destruct (session_pins_lcur _ _ _ _ _ Hinv Ht Hrun' Ht') as [_ Hcur].
  inversion Hstep; subst. reflexivity.
Qed.

(* ------------------------------------------------------------------ *)
(* serial                                                                *)

Theorem commit_ok_effect : forall s t s', lstep s (LCommitOk t) s' ->
  exists b r, nth t (threads s) TIdle = TWriting b r /\ lcur s = b /\ lcur s' = r.
Proof.
  intros s t s' Hstep. inversion Hstep as [| | | | | |s0 t0 b r Ht Heq|]; subst.
  exists b, r. split; [exact Ht|]. split; [apply kv_eqb_true_iff; exact Heq|reflexivity].
Qed.

Theorem commit_stale_effect : forall s t s', lstep s (LCommitStale t) s' ->
  lcur s' = lcur s /\ exists b r, nth t (threads s) TIdle = TWriting b r /\ lcur s <> b.
Proof.
  intros s t s' Hstep. inversion Hstep as [| | | | | | |s0 t0 b r Ht Heq]; subst.
  split; [reflexivity|]. exists b, r. split; [exact Ht|].
  intros Hb. apply kv_eqb_true_iff in Hb. congruence.
Qed.

Theorem only_commit_changes : forall s l s', lstep s l s' ->
  (forall t, l <> LCommitOk t) -> lcur s' = lcur s.
Proof.
  intros s l s' Hstep Hne. destruct Hstep; try reflexivity.
  exfalso. eapply Hne. reflexivity.
Qed.

(* ------------------------------------------------------------------ *)
(* nb_returns                                                            *)

Theorem nb_returns : forall s t s', lstep s (LDeferred t) s' -> s' = s.
Proof. intros s t s' Hstep. inversion Hstep; subst. reflexivity. Qed.

(* ------------------------------------------------------------------ *)
(* no deadlock                                                           *)

(* every non-idle thread can itself take a step (a thread holding a finished change set either acquires
   the lock or - non-blocking flavour - is handed the change set back) *)
Lemma thread_progress : forall s t, nth t (threads s) TIdle <> TIdle -> exists l s', lstep s l s'.
Proof.
  intros s t Hne. destruct (nth t (threads s) TIdle) as [|snap|b r|b r] eqn:Ht.
  - congruence.
  - exists (LEnd t). eexists. eapply st_end. exact Ht.
  - destruct (Nat.eq_dec (readers s) 0) as [Hr|Hr].
    + destruct (writer s) eqn:Hw.
      * exists (LDeferred t), s. eapply st_deferred; [exact Ht|right; exact Hw].
      * exists (LAcquire t). eexists. eapply st_acquire; eassumption.
    + exists (LDeferred t), s. eapply st_deferred; [exact Ht|left; exact Hr].
  - destruct (kv_eqb (lcur s) b) eqn:Heq.
    + exists (LCommitOk t). eexists. eapply st_commit_ok; eassumption.
    + exists (LCommitStale t). eexists. eapply st_commit_stale; eassumption.
Qed.

Theorem no_deadlock : forall c n ls s,
  lrun (linit c n) ls s ->
  (exists t, t < length (threads s) /\ nth t (threads s) TIdle <> TIdle) ->
  exists l s', lstep s l s'.
Proof.
  intros c n ls s _ [t [_ Hne]]. eapply thread_progress. exact Hne.
Qed.
