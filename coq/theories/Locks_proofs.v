(* C15: proofs about the readers/writer protocol model of Locks.v *)
From Coq Require Import List Bool Arith NArith Lia.
Import ListNotations.
From Nomt Require Import Base Locks Base_proofs.

(* ------------------------------------------------------------------ *)
(* set_nth / nth / filter facts                                         *)

Lemma set_nth_length : forall l t x, length (set_nth l t x) = length l.
Proof.
  induction l as [|y l IH]; intros [|t] x; cbn [set_nth length]; try reflexivity.
  rewrite IH. reflexivity.
Qed.

Lemma nth_set_nth_eq : forall l t x, t < length l -> nth t (set_nth l t x) TIdle = x.
Proof.
  induction l as [|y l IH]; intros [|t] x Hlt; cbn [length] in Hlt; try lia;
    cbn [set_nth nth]; try reflexivity.
  apply IH. lia.
Qed.

Lemma nth_set_nth_neq : forall l t t' x, t' <> t -> nth t' (set_nth l t x) TIdle = nth t' l TIdle.
Proof.
  induction l as [|y l IH]; intros [|t] [|t'] x Hne; cbn [set_nth nth]; try reflexivity; try congruence.
  apply IH. congruence.
Qed.

Lemma nth_nonidle_lt : forall (l : list tst) t, nth t l TIdle <> TIdle -> t < length l.
Proof.
  intros l t Hne. destruct (lt_dec t (length l)) as [Hlt|Hge]; [exact Hlt|].
  exfalso. apply Hne. apply nth_overflow. lia.
Qed.

Definition b2n (b : bool) : nat := if b then 1 else 0.

Lemma filter_set_nth : forall (f : tst -> bool) l t x, t < length l ->
  length (filter f (set_nth l t x)) + b2n (f (nth t l TIdle)) = length (filter f l) + b2n (f x).
Proof.
  intros f. induction l as [|y l IH]; intros [|t] x Hlt; cbn [length] in Hlt; try lia.
  - cbn [set_nth nth filter]. destruct (f x); destruct (f y); cbn [length b2n]; lia.
  - cbn [set_nth nth filter]. assert (Hlt' : t < length l) by lia.
    specialize (IH t x Hlt'). destruct (f y); cbn [length]; lia.
Qed.

Lemma filter_nth_pos : forall (f : tst -> bool) l t, t < length l -> f (nth t l TIdle) = true ->
  1 <= length (filter f l).
Proof.
  intros f. induction l as [|y l IH]; intros [|t] Hlt Hf; cbn [length] in Hlt; try lia.
  - cbn [nth] in Hf. cbn [filter]. rewrite Hf. cbn [length]. lia.
  - cbn [nth] in Hf. cbn [filter]. assert (Hlt' : t < length l) by lia.
    specialize (IH t Hlt' Hf). destruct (f y); cbn [length]; lia.
Qed.

Definition is_session (x : tst) : bool := match x with TSession _ _ => true | _ => false end.
Definition is_writing (x : tst) : bool := match x with TWriting _ _ _ => true | _ => false end.

Lemma count_sessions_set : forall l t x, t < length l ->
  count_sessions (set_nth l t x) + b2n (is_session (nth t l TIdle)) = count_sessions l + b2n (is_session x).
Proof. intros l t x Hlt. unfold count_sessions. apply (filter_set_nth is_session l t x Hlt). Qed.

Lemma count_writing_set : forall l t x, t < length l ->
  count_writing (set_nth l t x) + b2n (is_writing (nth t l TIdle)) = count_writing l + b2n (is_writing x).
Proof. intros l t x Hlt. unfold count_writing. apply (filter_set_nth is_writing l t x Hlt). Qed.

Lemma session_count_pos : forall l t snap v, nth t l TIdle = TSession snap v -> 1 <= count_sessions l.
Proof.
  intros l t snap v H. unfold count_sessions.
  apply (filter_nth_pos is_session l t).
  - apply nth_nonidle_lt. rewrite H. discriminate.
  - rewrite H. reflexivity.
Qed.

Lemma writing_count_pos : forall l t b r v, nth t l TIdle = TWriting b r v -> 1 <= count_writing l.
Proof.
  intros l t b r v H. unfold count_writing.
  apply (filter_nth_pos is_writing l t).
  - apply nth_nonidle_lt. rewrite H. discriminate.
  - rewrite H. reflexivity.
Qed.

Lemma count_sessions_repeat : forall n, count_sessions (repeat TIdle n) = 0.
Proof. induction n as [|n IH]; [reflexivity|]. unfold count_sessions in *. cbn. exact IH. Qed.

Lemma count_writing_repeat : forall n, count_writing (repeat TIdle n) = 0.
Proof. induction n as [|n IH]; [reflexivity|]. unfold count_writing in *. cbn. exact IH. Qed.

Lemma nth_repeat_idle : forall n t, nth t (repeat TIdle n) TIdle = TIdle.
Proof. induction n as [|n IH]; intros [|t]; cbn; auto. Qed.


(* ------------------------------------------------------------------ *)
(* the invariant                                                        *)

Definition linv (s : lstate) : Prop :=
  readers s = count_sessions (threads s) /\
  (writer s = true -> readers s = 0 /\ count_writing (threads s) = 1) /\
  (writer s = false -> count_writing (threads s) = 0) /\
  (* a live session sits on the committed state and on the current commit count *)
  (forall t snap v, nth t (threads s) TIdle = TSession snap v -> snap = lcur s /\ v = lver s) /\
  (* a change set was never taken on a count of the future *)
  (forall t b r v, nth t (threads s) TIdle = TFinished b r v \/ nth t (threads s) TIdle = TWriting b r v ->
     (v <= lver s)%N).

Theorem linv_init : forall c n, linv (linit c n).
Proof.
  intros c n. unfold linv, linit. cbn [readers writer threads lcur lver].
  rewrite count_sessions_repeat, count_writing_repeat.
  split; [reflexivity|]. split; [discriminate|]. split; [reflexivity|]. split.
  - intros t snap v H. rewrite nth_repeat_idle in H. discriminate.
  - intros t b r v H. rewrite nth_repeat_idle in H. destruct H; discriminate.
Qed.

(* in a state satisfying the invariant, a thread in the writer section means the write guard is held *)
Lemma linv_writing : forall s t b r v, linv s -> nth t (threads s) TIdle = TWriting b r v ->
  writer s = true /\ readers s = 0 /\ count_writing (threads s) = 1 /\ count_sessions (threads s) = 0.
Proof.
  intros s t b r v (Hr & Hwt & Hwf & Hs & Hv) Ht.
  pose proof (writing_count_pos _ _ _ _ _ Ht) as Hpos.
  destruct (writer s) eqn:Ew.
  - destruct (Hwt eq_refl) as [H0 H1]. repeat split; try assumption. lia.
  - specialize (Hwf eq_refl). lia.
Qed.

Theorem linv_step : forall s l s', linv s -> lstep s l s' -> linv s'.
Proof.
  intros s l s' Hinv Hstep.
  destruct Hstep as
    [ s t Hlt Ht Hw
    | s t snap v k Ht
    | s t snap v Ht
    | s t snap v batch Ht
    | s t b r v Ht Hrd Hw
    | s t b r v Ht Hbusy
    | s t b r v Ht Heq
    | s t b r v Ht Heq ]; try exact Hinv.
  - (* begin *)
    destruct Hinv as (Hr & Hwt & Hwf & Hs & Hv).
    pose proof (count_sessions_set (threads s) t (TSession (lcur s) (lver s)) Hlt) as Hcs.
    pose proof (count_writing_set (threads s) t (TSession (lcur s) (lver s)) Hlt) as Hcw.
    rewrite Ht in Hcs, Hcw. cbn [is_session is_writing b2n] in Hcs, Hcw.
    unfold linv, with_thread. cbn [readers writer threads lcur lver].
    split; [lia|]. split; [discriminate|]. split; [intros _; specialize (Hwf Hw); lia|]. split.
    + intros t' snap' v' H'. destruct (Nat.eq_dec t' t) as [->|Hne].
      * rewrite nth_set_nth_eq in H' by exact Hlt. injection H' as <- <-. split; reflexivity.
      * rewrite nth_set_nth_neq in H' by exact Hne. eapply Hs; eassumption.
    + intros t' b' r' v' H'. destruct (Nat.eq_dec t' t) as [->|Hne].
      * rewrite nth_set_nth_eq in H' by exact Hlt. destruct H' as [H'|H']; discriminate.
      * rewrite nth_set_nth_neq in H' by exact Hne. eapply Hv; eassumption.
  - (* end *)
    assert (Hlt : t < length (threads s)) by (apply nth_nonidle_lt; rewrite Ht; discriminate).
    pose proof (session_count_pos _ _ _ _ Ht) as Hpos.
    destruct Hinv as (Hr & Hwt & Hwf & Hs & Hv).
    pose proof (count_sessions_set (threads s) t TIdle Hlt) as Hcs.
    pose proof (count_writing_set (threads s) t TIdle Hlt) as Hcw.
    rewrite Ht in Hcs, Hcw. cbn [is_session is_writing b2n] in Hcs, Hcw.
    unfold linv, with_thread. cbn [readers writer threads lcur lver].
    split; [lia|]. split; [intros Hw; destruct (Hwt Hw); lia|].
    split; [intros Hw; specialize (Hwf Hw); lia|]. split.
    + intros t' snap' v' H'. destruct (Nat.eq_dec t' t) as [->|Hne].
      * rewrite nth_set_nth_eq in H' by exact Hlt. discriminate.
      * rewrite nth_set_nth_neq in H' by exact Hne. eapply Hs; eassumption.
    + intros t' b' r' v' H'. destruct (Nat.eq_dec t' t) as [->|Hne].
      * rewrite nth_set_nth_eq in H' by exact Hlt. destruct H' as [H'|H']; discriminate.
      * rewrite nth_set_nth_neq in H' by exact Hne. eapply Hv; eassumption.
  - (* finish *)
    assert (Hlt : t < length (threads s)) by (apply nth_nonidle_lt; rewrite Ht; discriminate).
    pose proof (session_count_pos _ _ _ _ Ht) as Hpos.
    destruct Hinv as (Hr & Hwt & Hwf & Hs & Hv).
    pose proof (count_sessions_set (threads s) t (TFinished snap (apply snap batch) v) Hlt) as Hcs.
    pose proof (count_writing_set (threads s) t (TFinished snap (apply snap batch) v) Hlt) as Hcw.
    rewrite Ht in Hcs, Hcw. cbn [is_session is_writing b2n] in Hcs, Hcw.
    unfold linv, with_thread. cbn [readers writer threads lcur lver].
    split; [lia|]. split; [intros Hw; destruct (Hwt Hw); lia|].
    split; [intros Hw; specialize (Hwf Hw); lia|]. split.
    + intros t' snap' v' H'. destruct (Nat.eq_dec t' t) as [->|Hne].
      * rewrite nth_set_nth_eq in H' by exact Hlt. discriminate.
      * rewrite nth_set_nth_neq in H' by exact Hne. eapply Hs; eassumption.
    + intros t' b' r' v' H'. destruct (Nat.eq_dec t' t) as [->|Hne].
      * rewrite nth_set_nth_eq in H' by exact Hlt. destruct H' as [H'|H']; [|discriminate].
        injection H' as _ _ <-. destruct (Hs _ _ _ Ht) as [_ ->]. lia.
      * rewrite nth_set_nth_neq in H' by exact Hne. eapply Hv; eassumption.
  - (* acquire *)
    assert (Hlt : t < length (threads s)) by (apply nth_nonidle_lt; rewrite Ht; discriminate).
    destruct Hinv as (Hr & Hwt & Hwf & Hs & Hv).
    pose proof (count_sessions_set (threads s) t (TWriting b r v) Hlt) as Hcs.
    pose proof (count_writing_set (threads s) t (TWriting b r v) Hlt) as Hcw.
    rewrite Ht in Hcs, Hcw. cbn [is_session is_writing b2n] in Hcs, Hcw.
    specialize (Hwf Hw).
    unfold linv, with_thread. cbn [readers writer threads lcur lver].
    split; [lia|]. split; [intros _; split; lia|]. split; [discriminate|]. split.
    + intros t' snap' v' H'. destruct (Nat.eq_dec t' t) as [->|Hne].
      * rewrite nth_set_nth_eq in H' by exact Hlt. discriminate.
      * rewrite nth_set_nth_neq in H' by exact Hne. eapply Hs; eassumption.
    + intros t' b' r' v' H'. destruct (Nat.eq_dec t' t) as [->|Hne].
      * rewrite nth_set_nth_eq in H' by exact Hlt. destruct H' as [H'|H']; [discriminate|].
        injection H' as _ _ <-. apply (Hv t b r v). left. exact Ht.
      * rewrite nth_set_nth_neq in H' by exact Hne. eapply Hv; eassumption.
  - (* commit ok *)
    assert (Hlt : t < length (threads s)) by (apply nth_nonidle_lt; rewrite Ht; discriminate).
    destruct (linv_writing _ _ _ _ _ Hinv Ht) as (Hw & Hr0 & Hw1 & Hs0).
    destruct Hinv as (_ & _ & _ & _ & Hv).
    pose proof (count_sessions_set (threads s) t TIdle Hlt) as Hcs.
    pose proof (count_writing_set (threads s) t TIdle Hlt) as Hcw.
    rewrite Ht in Hcs, Hcw. cbn [is_session is_writing b2n] in Hcs, Hcw.
    unfold linv, bump, with_thread. cbn [readers writer threads lcur lver].
    split; [lia|]. split; [discriminate|]. split; [intros _; lia|]. split.
    + intros t' snap' v' H'. exfalso. destruct (Nat.eq_dec t' t) as [->|Hne].
      * rewrite nth_set_nth_eq in H' by exact Hlt. discriminate.
      * rewrite nth_set_nth_neq in H' by exact Hne.
        pose proof (session_count_pos _ _ _ _ H'). lia.
    + intros t' b' r' v' H'. destruct (Nat.eq_dec t' t) as [->|Hne].
      * rewrite nth_set_nth_eq in H' by exact Hlt. destruct H' as [H'|H']; discriminate.
      * rewrite nth_set_nth_neq in H' by exact Hne.
        assert (v' <= lver s)%N by (eapply Hv; eassumption). lia.
  - (* commit stale *)
    assert (Hlt : t < length (threads s)) by (apply nth_nonidle_lt; rewrite Ht; discriminate).
    destruct (linv_writing _ _ _ _ _ Hinv Ht) as (Hw & Hr0 & Hw1 & Hs0).
    destruct Hinv as (_ & _ & _ & _ & Hv).
    pose proof (count_sessions_set (threads s) t TIdle Hlt) as Hcs.
    pose proof (count_writing_set (threads s) t TIdle Hlt) as Hcw.
    rewrite Ht in Hcs, Hcw. cbn [is_session is_writing b2n] in Hcs, Hcw.
    unfold linv, with_thread. cbn [readers writer threads lcur lver].
    split; [lia|]. split; [discriminate|]. split; [intros _; lia|]. split.
    + intros t' snap' v' H'. exfalso. destruct (Nat.eq_dec t' t) as [->|Hne].
      * rewrite nth_set_nth_eq in H' by exact Hlt. discriminate.
      * rewrite nth_set_nth_neq in H' by exact Hne.
        pose proof (session_count_pos _ _ _ _ H'). lia.
    + intros t' b' r' v' H'. destruct (Nat.eq_dec t' t) as [->|Hne].
      * rewrite nth_set_nth_eq in H' by exact Hlt. destruct H' as [H'|H']; discriminate.
      * rewrite nth_set_nth_neq in H' by exact Hne. eapply Hv; eassumption.
Qed.

Lemma linv_lrun : forall s ls s', lrun s ls s' -> linv s -> linv s'.
Proof.
  intros s ls s' Hrun. induction Hrun as [s|s l s1 ls s2 Hstep Hrun IH]; intros Hinv.
  - exact Hinv.
  - apply IH. eapply linv_step; eassumption.
Qed.

Theorem linv_run : forall c n ls s, lrun (linit c n) ls s -> linv s.
Proof. intros c n ls s Hrun. eapply linv_lrun; [exact Hrun|apply linv_init]. Qed.

(* ------------------------------------------------------------------ *)
(* excl                                                                  *)

Theorem excl : forall c n ls s t b r v,
  lrun (linit c n) ls s -> nth t (threads s) TIdle = TWriting b r v ->
  forall t', (exists snap v', nth t' (threads s) TIdle = TSession snap v') -> False.
Proof.
  intros c n ls s t b r v Hrun Ht t' [snap [v' Ht']].
  pose proof (linv_run _ _ _ _ Hrun) as Hinv.
  destruct (linv_writing _ _ _ _ _ Hinv Ht) as (_ & _ & _ & Hs0).
  pose proof (session_count_pos _ _ _ _ Ht'). lia.
Qed.

(* ------------------------------------------------------------------ *)
(* snapshot                                                              *)

Lemma lrun_app : forall s ls s', lrun s ls s' -> forall ls' s'', lrun s' ls' s'' -> lrun s (ls ++ ls') s''.
Proof.
  intros s ls s' Hrun. induction Hrun as [s|s l s1 ls s2 Hstep Hrun IH]; intros ls' s'' Hrun'.
  - exact Hrun'.
  - cbn [app]. eapply run_cons; [exact Hstep|]. apply IH. exact Hrun'.
Qed.

(* while thread t stays inside one session neither the committed state nor the commit count can
   move: this is the fact behind [snapshot], stated on its own *)
Lemma session_pins_lcur : forall s ls s' t snap v,
  linv s -> nth t (threads s) TIdle = TSession snap v ->
  lrun s ls s' -> nth t (threads s') TIdle = TSession snap v ->
  (lcur s = snap /\ lcur s' = snap) /\ (lver s = v /\ lver s' = v).
Proof.
  intros s ls s' t snap v Hinv Ht Hrun Ht'.
  pose proof (linv_lrun _ _ _ Hrun Hinv) as Hinv'.
  destruct Hinv as (_ & _ & _ & Hs & _). destruct Hinv' as (_ & _ & _ & Hs' & _).
  destruct (Hs _ _ _ Ht) as [H1 H2]. destruct (Hs' _ _ _ Ht') as [H3 H4].
  repeat split; symmetry; assumption.
Qed.

Theorem snapshot : forall c n ls s t snap ver k v ls' s',
  lrun (linit c n) ls s -> nth t (threads s) TIdle = TSession snap ver ->
  lrun s ls' s' -> nth t (threads s') TIdle = TSession snap ver ->
  (forall l, In l ls' -> l <> LEnd t /\ l <> LFinish t) ->
  forall s'', lstep s' (LRead t k v) s'' -> v = get snap k.
Proof.
  intros c n ls s t snap ver k v ls' s' Hrun Ht Hrun' Ht' _ s'' Hstep.
  pose proof (linv_run _ _ _ _ Hrun) as Hinv.
  destruct (session_pins_lcur _ _ _ _ _ _ Hinv Ht Hrun' Ht') as [[_ Hcur] _].
  inversion Hstep; subst. reflexivity.
Qed.

(* ------------------------------------------------------------------ *)
(* serial                                                                *)

Lemma fresh_true_iff : forall s b v, fresh s b v = true <-> lcur s = b /\ lver s = v.
Proof.
  intros s b v. unfold fresh. rewrite andb_true_iff, kv_eqb_true_iff, N.eqb_eq. reflexivity.
Qed.

Lemma fresh_false_iff : forall s b v, fresh s b v = false <-> ~ (lcur s = b /\ lver s = v).
Proof.
  intros s b v. rewrite <- fresh_true_iff. destruct (fresh s b v); split; intros H; congruence.
Qed.

Theorem commit_ok_effect : forall s t s', lstep s (LCommitOk t) s' ->
  exists b r v, nth t (threads s) TIdle = TWriting b r v /\ lcur s = b /\ lver s = v /\
                lcur s' = r /\ lver s' = (lver s + 1)%N.
Proof.
  intros s t s' Hstep. inversion Hstep as [| | | | | |s0 t0 b r v Ht Heq|]; subst.
  apply fresh_true_iff in Heq. destruct Heq as [Hb Hv].
  exists b, r, v. split; [exact Ht|]. repeat split; try assumption; reflexivity.
Qed.

(* a refused commit changes nothing; it is refused because the committed state is not the base OR
   because a commit succeeded since the session was taken (the state may well be the base again) *)
Theorem commit_stale_effect : forall s t s', lstep s (LCommitStale t) s' ->
  lcur s' = lcur s /\ lver s' = lver s /\
  exists b r v, nth t (threads s) TIdle = TWriting b r v /\ ~ (lcur s = b /\ lver s = v).
Proof.
  intros s t s' Hstep. inversion Hstep as [| | | | | | |s0 t0 b r v Ht Heq]; subst.
  split; [reflexivity|]. split; [reflexivity|]. exists b, r, v. split; [exact Ht|].
  apply fresh_false_iff. exact Heq.
Qed.

(* which of the two it is is decided by the state: a commit succeeds exactly when its base is the
   committed state and no commit has succeeded since its session began *)
Theorem commit_decided : forall s t b r v, nth t (threads s) TIdle = TWriting b r v ->
  ((exists s', lstep s (LCommitOk t) s') <-> (lcur s = b /\ lver s = v)) /\
  ((exists s', lstep s (LCommitStale t) s') <-> ~ (lcur s = b /\ lver s = v)).
Proof.
  intros s t b r v Ht. split; split.
  - intros [s' Hstep]. apply commit_ok_effect in Hstep.
    destruct Hstep as (b' & r' & v' & Ht' & Hb & Hv & _). rewrite Ht in Ht'. injection Ht' as <- _ <-.
    split; assumption.
  - intros H. apply fresh_true_iff in H. eexists. eapply st_commit_ok; eassumption.
  - intros [s' Hstep]. apply commit_stale_effect in Hstep.
    destruct Hstep as (_ & _ & b' & r' & v' & Ht' & Hn). rewrite Ht in Ht'. injection Ht' as <- _ <-.
    exact Hn.
  - intros H. apply fresh_false_iff in H. eexists. eapply st_commit_stale; eassumption.
Qed.

Theorem only_commit_changes : forall s l s', lstep s l s' ->
  (forall t, l <> LCommitOk t) -> lcur s' = lcur s /\ lver s' = lver s.
Proof.
  intros s l s' Hstep Hne. destruct Hstep; try (split; reflexivity).
  exfalso. eapply Hne. reflexivity.
Qed.

(* ------------------------------------------------------------------ *)
(* the commit count only grows, and every successful commit moves it    *)

Lemma lstep_lver_le : forall s l s', lstep s l s' -> (lver s <= lver s')%N.
Proof.
  intros s l s' Hstep. destruct Hstep; unfold bump, with_thread; cbn [lver]; lia.
Qed.

Lemma lrun_lver_le : forall s ls s', lrun s ls s' -> (lver s <= lver s')%N.
Proof.
  intros s ls s' Hrun. induction Hrun as [s|s l s1 ls s2 Hstep Hrun IH]; [lia|].
  apply lstep_lver_le in Hstep. lia.
Qed.

Lemma lrun_lver_lt : forall s ls s', lrun s ls s' -> (exists t, In (LCommitOk t) ls) ->
  (lver s < lver s')%N.
Proof.
  intros s ls s' Hrun. induction Hrun as [s|s l s1 ls s2 Hstep Hrun IH]; intros [t Hin].
  - destruct Hin.
  - destruct Hin as [->|Hin].
    + apply commit_ok_effect in Hstep. destruct Hstep as (_ & _ & _ & _ & _ & _ & _ & Hv).
      apply lrun_lver_le in Hrun. lia.
    + apply lstep_lver_le in Hstep. assert (lver s1 < lver s2)%N by (apply IH; exists t; exact Hin). lia.
Qed.

(* ABA: a finished change set, then any run in which some commit succeeds; when its owner gets
   the write guard the commit can only be refused - whatever the committed state is by then, in
   particular when it is the change set's base again (written then deleted). *)
Theorem aba_stale : forall c n ls0 s t b r v ls s',
  lrun (linit c n) ls0 s -> nth t (threads s) TIdle = TFinished b r v ->
  lrun s ls s' -> (exists t', In (LCommitOk t') ls) ->
  nth t (threads s') TIdle = TWriting b r v ->
  (forall s'', ~ lstep s' (LCommitOk t) s'') /\
  (exists s'', lstep s' (LCommitStale t) s'' /\ lcur s'' = lcur s' /\ lver s'' = lver s').
Proof.
  intros c n ls0 s t b r v ls s' Hrun0 Ht Hrun Hok Ht'.
  pose proof (linv_run _ _ _ _ Hrun0) as (_ & _ & _ & _ & Hv).
  assert (Hle : (v <= lver s)%N) by (apply (Hv t b r v); left; exact Ht).
  pose proof (lrun_lver_lt _ _ _ Hrun Hok) as Hlt.
  assert (Hn : ~ (lcur s' = b /\ lver s' = v)) by (intros [_ Hv']; lia).
  destruct (commit_decided _ _ _ _ _ Ht') as [Hok' Hst]. split.
  - intros s'' Hstep. apply Hn. apply Hok'. exists s''. exact Hstep.
  - apply Hst in Hn. destruct Hn as [s'' Hstep]. exists s''. split; [exact Hstep|].
    apply commit_stale_effect in Hstep. destruct Hstep as (H1 & H2 & _). split; assumption.
Qed.

(* such a run, with the state coming back: thread 0 prepares a change set on the empty store; thread 1
   commits a write, then its deletion; when thread 0 gets the write guard the committed state IS its
   base again, two commits later: it can only be refused *)
Example aba_run_example :
  let k := [true] in
  exists s', lrun (linit [] 2)
     [LBegin 0; LFinish 0;
      LBegin 1; LFinish 1; LAcquire 1; LCommitOk 1;
      LBegin 1; LFinish 1; LAcquire 1; LCommitOk 1;
      LAcquire 0] s' /\
    lcur s' = [] /\ nth 0 (threads s') TIdle = TWriting [] [(k, 7%N)] 0%N /\ lver s' = 2%N /\
    (forall s'', ~ lstep s' (LCommitOk 0) s'') /\
    (exists s'', lstep s' (LCommitStale 0) s'' /\ lcur s'' = [] /\ lver s'' = 2%N).
Proof.
  intros k. eexists. split.
  - eapply run_cons. { eapply st_begin; [cbn; lia|reflexivity|reflexivity]. } cbv.
    eapply run_cons. { eapply (st_finish _ _ _ _ [([true], Some 7%N)]). reflexivity. } cbv.
    eapply run_cons. { eapply st_begin; [cbn; lia|reflexivity|reflexivity]. } cbv.
    eapply run_cons. { eapply (st_finish _ _ _ _ [([true], Some 5%N)]). reflexivity. } cbv.
    eapply run_cons. { eapply st_acquire; reflexivity. } cbv.
    eapply run_cons. { eapply st_commit_ok; reflexivity. } cbv.
    eapply run_cons. { eapply st_begin; [cbn; lia|reflexivity|reflexivity]. } cbv.
    eapply run_cons. { eapply (st_finish _ _ _ _ [([true], None)]). reflexivity. } cbv.
    eapply run_cons. { eapply st_acquire; reflexivity. } cbv.
    eapply run_cons. { eapply st_commit_ok; reflexivity. } cbv.
    eapply run_cons. { eapply st_acquire; reflexivity. } cbv.
    apply run_nil.
  - split; [reflexivity|]. split; [reflexivity|]. split; [reflexivity|]. split.
    + intros s'' H. apply commit_ok_effect in H.
      destruct H as (b & r & v & Ht & _ & Hv & _). cbv in Ht, Hv.
      injection Ht as _ _ <-. discriminate.
    + eexists. split; [eapply st_commit_stale; reflexivity|]. split; reflexivity.
Qed.

(* ------------------------------------------------------------------ *)
(* nb_returns                                                            *)

Theorem nb_returns : forall s t s', lstep s (LDeferred t) s' -> s' = s.
Proof. intros s t s' Hstep. inversion Hstep; subst. reflexivity. Qed.

(* ------------------------------------------------------------------ *)
(* no deadlock                                                           *)

(* every non-idle thread can itself take a step (a thread holding a finished change set either acquires
   the lock or - non-blocking flavour - is handed the change set back) *)
Lemma thread_progress : forall s t, nth t (threads s) TIdle <> TIdle -> exists l s', lstep s l s'.
Proof.
  intros s t Hne. destruct (nth t (threads s) TIdle) as [|snap v|b r v|b r v] eqn:Ht.
  - congruence.
  - exists (LEnd t). eexists. eapply st_end. exact Ht.
  - destruct (Nat.eq_dec (readers s) 0) as [Hr|Hr].
    + destruct (writer s) eqn:Hw.
      * exists (LDeferred t), s. eapply st_deferred; [exact Ht|right; exact Hw].
      * exists (LAcquire t). eexists. eapply st_acquire; eassumption.
    + exists (LDeferred t), s. eapply st_deferred; [exact Ht|left; exact Hr].
  - destruct (fresh s b v) eqn:Heq.
    + exists (LCommitOk t). eexists. eapply st_commit_ok; eassumption.
    + exists (LCommitStale t). eexists. eapply st_commit_stale; eassumption.
Qed.

Theorem no_deadlock : forall c n ls s,
  lrun (linit c n) ls s ->
  (exists t, t < length (threads s) /\ nth t (threads s) TIdle <> TIdle) ->
  exists l s', lstep s l s'.
Proof.
  intros c n ls s _ [t [_ Hne]]. eapply thread_progress. exact Hne.
Qed.
