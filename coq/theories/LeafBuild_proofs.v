(* Theorems about the leaf updater mirror LeafBuild.v (property C01).

   For every well-formed sequence of stages (LeafBuild.stages_wf) the run of the mirror satisfies
     leaves_content        the cells of the emitted leaves followed by the cells carried over are the bases
                           with the operations applied, in strictly ascending order
     leaves_fit            every emitted leaf has a body of at most LEAF_NODE_BODY_SIZE, which is the size
                           its gauge computed and the size its builder was created for
     leaves_not_underfull  every emitted leaf except the last leaf of a digest without cutoff (the
                           rightmost leaf of the tree) has a body of at least LEAF_MERGE_THRESHOLD
     separators_ok         a leaf's separator is not above its first key and above every key to its left
   and run_total (the updater and the builder of the mirror do not panic and the loops end, so the run the
   four statements are about exists), digest_first_separator / first_leaf_zero_separator (the separator a
   digest starts with; the first leaf of the tree gets the all-zero separator), built_leaf_fits_page (a leaf
   within the body size is accepted by the page encoder NodeCodec), and leaves_fit_refuted: the seeded
   off-by-one of the split point overfills a leaf.

   Route: consume_and_update_until (cloop_spec: the operations consumed and left still stand for the same
   cells, the gauge is exact and within the body size, the leaf reaches the target or the next cell would
   overfill it), build_leaf (build_leaf_spec), try_build_leaves (tbl_loop_spec, with the separators between
   neighbouring leaves by BitOps_proofs.separate_spec), ingest (ingest_all_spec: the merge of the base with the
   operations, merge_ops_spec: what it holds), digest (digest_spec), stages (run_stages_spec,
   stages_merge_spec). *)
From Coq Require Import List Bool Arith NArith Lia Sorted.
From Nomt Require Import Base Base_proofs BitOps BitOps_proofs LeafBuild.
From Nomt Require Result.
Import ListNotations.
Local Open Scope N_scope.

(* ------------------------------------------------------------------------------------------- *)
(* 0. sizes, ranges                                                                              *)

Lemma sumN_app : forall a b, sumN (a ++ b) = sumN a + sumN b.
Proof. induction a as [|x a IH]; intros b; cbn [sumN app]; [lia|]. rewrite IH. lia. Qed.

Lemma sizes_app : forall a b, sizes (a ++ b) = sizes a + sizes b.
Proof. intros a b. unfold sizes. rewrite map_app. apply sumN_app. Qed.

Lemma sizes_cons : forall c l, sizes (c :: l) = c_size c + sizes l.
Proof. reflexivity. Qed.

Lemma sizes_nil : sizes [] = 0.
Proof. reflexivity. Qed.

Lemma body_of_app : forall a b, body_of (a ++ b) = body_of a + body_of b.
Proof.
  intros a b. unfold body_of, body_size. rewrite app_length, sizes_app, Nat2N.inj_add. lia.
Qed.

Lemma body_of_nil : body_of [] = 0.
Proof. reflexivity. Qed.

Lemma body_of_cons : forall c l, body_of (c :: l) = 34 + c_size c + body_of l.
Proof.
  intros c l. unfold body_of, body_size. cbn [length]. rewrite sizes_cons, Nat2N.inj_succ. lia.
Qed.

Lemma body_of_zero : forall l, body_of l = 0 -> l = [].
Proof. intros [|c l] H; [reflexivity|]. rewrite body_of_cons in H. lia. Qed.

Definition gauge_of (l : list cell) : gauge := mkG (N.of_nat (length l)) (sizes l).

Lemma g_body_gauge_of : forall l, g_body (gauge_of l) = body_of l.
Proof. reflexivity. Qed.

Lemma gauge_of_app : forall a b,
  gauge_of (a ++ b) = g_ingest (gauge_of a) (N.of_nat (length b)) (sizes b).
Proof.
  intros a b. unfold gauge_of, g_ingest. cbn [g_n g_sum].
  rewrite app_length, sizes_app, Nat2N.inj_add. reflexivity.
Qed.

Lemma gauge_of_snoc : forall a c, gauge_of (a ++ [c]) = g_ingest (gauge_of a) 1 (c_size c).
Proof.
  intros a c. rewrite gauge_of_app. cbn [length N.of_nat Pos.of_succ_nat]. rewrite sizes_cons, sizes_nil, N.add_0_r.
  reflexivity.
Qed.

Lemma g_after_gauge_of : forall a b,
  g_after (gauge_of a) (N.of_nat (length b)) (sizes b) = body_of (a ++ b).
Proof. intros a b. rewrite <- g_body_gauge_of, gauge_of_app. reflexivity. Qed.

Lemma range_length : forall cs f t, (t <= length cs)%nat -> length (range cs f t) = (t - f)%nat.
Proof.
  intros cs f t H. unfold range. rewrite firstn_length, skipn_length. lia.
Qed.

Lemma range_split : forall cs f m t, (f <= m)%nat -> (m <= t)%nat ->
  range cs f t = range cs f m ++ range cs m t.
Proof.
  intros cs f m t H1 H2. unfold range.
  replace (t - f)%nat with ((m - f) + (t - m))%nat by lia.
  rewrite firstn_add. f_equal. rewrite <- skipn_add.
  replace (f + (m - f))%nat with m by lia. reflexivity.
Qed.

Lemma range_nil : forall cs f, range cs f f = [].
Proof. intros cs f. unfold range. rewrite Nat.sub_diag. reflexivity. Qed.

Lemma range_one : forall cs f, (f < length cs)%nat -> range cs f (S f) = [nth f cs dcell].
Proof.
  intros cs f H. unfold range. replace (S f - f)%nat with 1%nat by lia.
  revert f H. induction cs as [|c cs IH]; intros f H; cbn [length] in H; [lia|].
  destruct f as [|f]; [reflexivity|]. cbn [skipn nth]. apply IH. lia.
Qed.

Lemma range_all : forall cs f, range cs f (length cs) = skipn f cs.
Proof.
  intros cs f. unfold range. apply firstn_all2. rewrite skipn_length. lia.
Qed.

Lemma vsize_split : forall cs f m t, (f <= m)%nat -> (m <= t)%nat ->
  vsize cs f t = vsize cs f m + vsize cs m t.
Proof. intros cs f m t H1 H2. unfold vsize. rewrite (range_split cs f m t H1 H2). apply sizes_app. Qed.

Lemma In_firstn : forall (A : Type) n (l : list A) x, In x (firstn n l) -> In x l.
Proof. intros A n l x H. rewrite <- (firstn_skipn n l). apply in_or_app. left. exact H. Qed.

Lemma In_skipn' : forall (A : Type) n (l : list A) x, In x (skipn n l) -> In x l.
Proof. intros A n l x H. rewrite <- (firstn_skipn n l). apply in_or_app. right. exact H. Qed.

Lemma In_range : forall cs f t c, In c (range cs f t) -> In c cs.
Proof.
  intros cs f t c H. unfold range in H. apply In_firstn in H.
  eapply In_skipn'. exact H.
Qed.

(* ------------------------------------------------------------------------------------------- *)
(* 1. operations, consume_and_update_until                                                       *)

Definition op_wf (cs : list cell) (o : lop) : Prop :=
  match o with
  | LIns _ => True
  | LKeep f t vs => (f < t)%nat /\ (t <= length cs)%nat /\ vs = vsize cs f t
  end.

Definition ops_wf (cs : list cell) (ops : list lop) : Prop := Forall (op_wf cs) ops.

Lemma flat_app : forall cs a b, flat cs (a ++ b) = flat cs a ++ flat cs b.
Proof. intros cs a b. unfold flat. apply flat_map_app. Qed.

Lemma flat_cons : forall cs o r, flat cs (o :: r) = op_cells cs o ++ flat cs r.
Proof. reflexivity. Qed.

Lemma flat_one : forall cs o, flat cs [o] = op_cells cs o.
Proof. intros cs o. cbn [flat flat_map]. apply app_nil_r. Qed.

Lemma ops_wf_app : forall cs a b, ops_wf cs (a ++ b) <-> ops_wf cs a /\ ops_wf cs b.
Proof. intros cs a b. unfold ops_wf. apply Forall_app. Qed.

Lemma keep_cells_length : forall cs f t vs, op_wf cs (LKeep f t vs) ->
  length (range cs f t) = (t - f)%nat /\ sizes (range cs f t) = vs.
Proof.
  intros cs f t vs (H1 & H2 & H3). split; [apply range_length; exact H2|].
  subst vs. reflexivity.
Qed.

Lemma split_scan_spec : forall cs g target limit f cnt ln lvs ln' lvs',
  (f + ln + cnt <= length cs)%nat ->
  lvs = vsize cs f (f + ln) ->
  split_scan false cs g target limit (f + ln) cnt ln lvs = (ln', lvs') ->
  (ln <= ln' <= ln + cnt)%nat /\ lvs' = vsize cs f (f + ln') /\
  (g_after g (N.of_nat ln) lvs <= limit -> target <= limit -> g_after g (N.of_nat ln') lvs' <= limit).
Proof.
  intros cs g target limit f cnt. induction cnt as [|c IH]; intros ln lvs ln' lvs' Hlen Hlvs Hs.
  - cbn [split_scan] in Hs. inversion Hs; subst ln' lvs'. split; [lia|]. split; [exact Hlvs|]. auto.
  - cbn [split_scan] in Hs.
    set (size := c_size (nth (f + ln) cs dcell)) in *.
    assert (Hnext : lvs + size = vsize cs f (f + S ln)).
    { rewrite (vsize_split cs f (f + ln) (f + S ln)) by lia. rewrite <- Hlvs. f_equal.
      unfold vsize. rewrite Nat.add_succ_r. rewrite range_one by lia. cbn [sizes map sumN]. unfold size. lia. }
    destruct (target <=? g_after g (N.of_nat (S ln)) (lvs + size)) eqn:Et.
    + destruct (limit <? g_after g (N.of_nat (S ln)) (lvs + size)) eqn:El.
      * inversion Hs; subst ln' lvs'. split; [lia|]. split; [exact Hlvs|]. auto.
      * inversion Hs; subst ln' lvs'. split; [lia|]. split; [exact Hnext|].
        intros _ _. apply N.ltb_ge in El. exact El.
    + apply N.leb_gt in Et.
      replace (S (f + ln)) with (f + S ln)%nat in Hs by lia.
      specialize (IH (S ln) (lvs + size) ln' lvs' ltac:(lia) Hnext Hs).
      destruct IH as (Ha & Hb & Hc). split; [lia|]. split; [exact Hb|].
      intros _ Htl. apply Hc; [lia|exact Htl].
Qed.

Lemma try_split_spec : forall cs g f t vs target limit ln lvs repl,
  op_wf cs (LKeep f t vs) ->
  try_split false cs g f t vs target limit = (ln, lvs, repl) ->
  (ln <= t - f)%nat /\ lvs = vsize cs f (f + ln) /\ ops_wf cs repl /\ flat cs repl = range cs f t
  /\ (exists op' more, repl = op' :: more /\ (ln <> 0%nat -> op_cells cs op' = range cs f (f + ln)))
  /\ (g_body g <= limit -> target <= limit -> g_after g (N.of_nat ln) lvs <= limit).
Proof.
  intros cs g f t vs target limit ln lvs repl (H1 & H2 & H3) Ht.
  unfold try_split in Ht.
  destruct (split_scan false cs g target limit f (t - f) 0 0) as [ln0 lvs0] eqn:Es.
  pose proof (split_scan_spec cs g target limit f (t - f) 0%nat 0 ln0 lvs0) as Hs.
  rewrite Nat.add_0_r in Hs.
  specialize (Hs ltac:(lia) ltac:(unfold vsize; rewrite range_nil; reflexivity) Es).
  destruct Hs as (Ha & Hb & Hc).
  assert (Hbound : g_body g <= limit -> target <= limit -> g_after g (N.of_nat ln0) lvs0 <= limit).
  { intros Hg Htl. apply Hc; [|exact Htl]. unfold g_after, g_body in *. cbn [N.of_nat].
    rewrite !N.add_0_r. exact Hg. }
  destruct (negb (ln0 =? 0)%nat && negb (t - f =? ln0)%nat) eqn:Ec; inversion Ht; subst ln lvs repl; clear Ht.
  - apply andb_true_iff in Ec. destruct Ec as [E1 E2].
    apply negb_true_iff in E1, E2. apply Nat.eqb_neq in E1, E2.
    split; [lia|]. split; [exact Hb|]. split.
    + constructor; [|constructor; [|constructor]]; cbn [op_wf].
      * split; [lia|]. split; [lia|]. exact Hb.
      * split; [lia|]. split; [lia|].
        rewrite H3, Hb. rewrite (vsize_split cs f (f + ln0) t) by lia. lia.
    + split.
      * cbn [flat flat_map op_cells]. rewrite app_nil_r. symmetry. apply range_split; lia.
      * split; [|exact Hbound]. eexists; eexists. split; [reflexivity|]. intros _. reflexivity.
  - split; [lia|]. split; [exact Hb|]. split.
    + constructor; [|constructor]. cbn [op_wf]. auto.
    + split; [cbn [flat flat_map op_cells]; apply app_nil_r|].
      split; [|exact Hbound]. eexists; eexists. split; [reflexivity|].
      intros Hne. cbn [op_cells].
      apply andb_false_iff in Ec. destruct Ec as [Ec|Ec]; apply negb_false_iff in Ec; apply Nat.eqb_eq in Ec.
      * contradiction.
      * f_equal. lia.
Qed.

Lemma extract_first_spec : forall cs f t vs, op_wf cs (LKeep f t vs) ->
  ops_wf cs (extract_first cs f t vs) /\ flat cs (extract_first cs f t vs) = range cs f t
  /\ exists rest, extract_first cs f t vs = LIns (nth f cs dcell) :: rest.
Proof.
  intros cs f t vs (H1 & H2 & H3). unfold extract_first.
  destruct (f =? t - 1)%nat eqn:E.
  - apply Nat.eqb_eq in E. split; [constructor; [exact I|constructor]|].
    split; [|eexists; reflexivity].
    cbn [flat flat_map op_cells app]. replace t with (S f) by lia. symmetry. apply range_one. lia.
  - apply Nat.eqb_neq in E. split.
    + constructor; [exact I|]. constructor; [|constructor]. cbn [op_wf].
      split; [lia|]. split; [lia|].
      rewrite H3. rewrite (vsize_split cs f (S f) t) by lia.
      unfold vsize at 1. rewrite range_one by lia. unfold sizes at 1. cbn [map sumN]. lia.
    + split; [|eexists; reflexivity].
      cbn [flat flat_map op_cells]. rewrite app_nil_r.
      rewrite (range_split cs f (S f) t) by lia. rewrite range_one by lia. reflexivity.
Qed.

Definition cres_spec (cs : list cell) (all : list cell) (target : N) (r : cres) : Prop :=
  match r with
  | CSome d g r' =>
      ops_wf cs d /\ ops_wf cs r' /\ flat cs d ++ flat cs r' = all /\ g = gauge_of (flat cs d)
      /\ g_body g <= BODY
      /\ (target <= g_body g \/ exists c rest, r' = LIns c :: rest /\ BODY < g_body g + 34 + c_size c)
  | CNone ops g => ops_wf cs ops /\ flat cs ops = all /\ g = gauge_of (flat cs ops) /\ g_body g < target
  | CPanic => True
  end.

Lemma cfinish_spec : forall cs done todo g target fb,
  ops_wf cs done -> ops_wf cs todo -> g = gauge_of (flat cs done) -> g_body g <= BODY ->
  (fb = true -> exists c rest, todo = LIns c :: rest /\ BODY < g_body g + 34 + c_size c) ->
  (fb = false -> g_body g < target -> todo = []) ->
  cres_spec cs (flat cs done ++ flat cs todo) target (cfinish done todo g target fb).
Proof.
  intros cs done todo g target fb Hd Ht Hg Hb Hfb Hnone. unfold cfinish.
  destruct ((target <=? g_body g) || fb) eqn:E.
  - cbn [cres_spec]. repeat split; try assumption.
    apply orb_true_iff in E. destruct E as [E|E].
    + left. apply N.leb_le. exact E.
    + right. apply Hfb. exact E.
  - apply orb_false_iff in E. destruct E as [E1 E2]. apply N.leb_gt in E1.
    specialize (Hnone E2 E1). subst todo.
    cbn [cres_spec]. rewrite !app_nil_r. repeat split; try assumption.
Qed.

Lemma cloop_spec : forall fuel cs done todo g target,
  ops_wf cs done -> ops_wf cs todo -> g = gauge_of (flat cs done) -> target <= BODY -> g_body g <= BODY ->
  cres_spec cs (flat cs done ++ flat cs todo) target (cloop fuel false cs done todo g target).
Proof.
  induction fuel as [|fuel IH]; intros cs done todo g target Hd Ht Hg Htb Hb; [exact I|].
  cbn [cloop].
  destruct todo as [|op rest].
  - apply cfinish_spec; auto; intros; discriminate.
  - destruct (target <=? g_body g) eqn:Etg.
    + apply cfinish_spec; auto; [intros; discriminate|].
      intros _ Hlt. apply N.leb_le in Etg. lia.
    + apply N.leb_gt in Etg.
      pose proof Ht as Ht'. apply Forall_cons_iff in Ht'. destruct Ht' as [Hop Hrest].
      destruct op as [c|s e vs].
      * cbn [chk_after].
        destruct (BODY <? g_after g 1 (c_size c)) eqn:Eo.
        -- apply cfinish_spec; auto; [|intros; discriminate].
           intros _. exists c, rest. split; [reflexivity|].
           apply N.ltb_lt in Eo. unfold g_after, g_body, body_size in *. lia.
        -- apply N.ltb_ge in Eo.
           replace (flat cs done ++ flat cs (LIns c :: rest))
             with (flat cs (done ++ [LIns c]) ++ flat cs rest)
             by (rewrite flat_app, flat_one, flat_cons, <- app_assoc; reflexivity).
           apply IH; auto.
           ++ apply ops_wf_app. split; [exact Hd|]. constructor; [exact I|constructor].
           ++ rewrite flat_app, flat_one. cbn [op_cells]. rewrite gauge_of_snoc. subst g. reflexivity.
      * destruct (target <? g_after g (N.of_nat (e - s)) vs) eqn:Ew.
        -- destruct (try_split false cs g s e vs target BODY) as [[ln lvs] repl] eqn:Ets.
           pose proof (try_split_spec cs g s e vs target BODY ln lvs repl Hop Ets)
             as (Hln & Hlvs & Hrw & Hrf & (op' & more & Hrepl & Hop') & Hbound).
           destruct (ln =? 0)%nat eqn:Eln.
           ++ destruct (extract_first_spec cs s e vs Hop) as (Hew & Hef & _).
              replace (flat cs done ++ flat cs (LKeep s e vs :: rest))
                with (flat cs done ++ flat cs (extract_first cs s e vs ++ rest))
                by (rewrite flat_app, Hef, flat_cons; reflexivity).
              apply IH; auto. apply ops_wf_app. split; assumption.
           ++ apply Nat.eqb_neq in Eln. subst repl.
              specialize (Hop' Eln).
              apply Forall_cons_iff in Hrw. destruct Hrw as [Hw1 Hw2].
              replace (flat cs done ++ flat cs (LKeep s e vs :: rest))
                with (flat cs (done ++ [op']) ++ flat cs (more ++ rest)).
              2:{ rewrite !flat_app, flat_one, flat_cons, <- app_assoc. f_equal.
                  rewrite app_assoc. f_equal. cbn [op_cells]. rewrite <- Hrf, flat_cons. reflexivity. }
              destruct Hop as (Ho1 & Ho2 & Ho3).
              assert (Hlen : length (range cs s (s + ln)) = ln) by (rewrite range_length by lia; lia).
              apply IH; auto.
              ** apply ops_wf_app. split; [exact Hd|]. constructor; [exact Hw1|constructor].
              ** apply ops_wf_app. split; assumption.
              ** rewrite flat_app, flat_one, Hop', gauge_of_app, Hlen. subst g.
                 unfold vsize in Hlvs. rewrite <- Hlvs. reflexivity.
        -- apply N.ltb_ge in Ew.
           destruct (keep_cells_length cs s e vs Hop) as [Hlen Hsz].
           replace (flat cs done ++ flat cs (LKeep s e vs :: rest))
             with (flat cs (done ++ [LKeep s e vs]) ++ flat cs rest)
             by (rewrite flat_app, flat_one, flat_cons, <- app_assoc; reflexivity).
           apply IH; auto.
           ++ apply ops_wf_app. split; [exact Hd|]. constructor; [exact Hop|constructor].
           ++ rewrite flat_app, flat_one. cbn [op_cells]. rewrite gauge_of_app, Hlen, Hsz. subst g. reflexivity.
           ++ unfold g_after, g_body, g_ingest in *. cbn [g_n g_sum]. lia.
Qed.

Lemma consume_spec : forall cs ops target,
  ops_wf cs ops -> target <= BODY ->
  cres_spec cs (flat cs ops) target (consume false cs ops target).
Proof.
  intros cs ops target Hw Ht. unfold consume.
  destruct (target <? MERGE); [exact I|].
  apply (cloop_spec (cfuel ops) cs [] ops g0 target); auto.
  - constructor.
  - vm_compute. discriminate.
Qed.

Lemma consume_some_target : forall cs ops target d g r,
  consume false cs ops target = CSome d g r -> MERGE <= target.
Proof.
  intros cs ops target d g r H. unfold consume in H.
  destruct (target <? MERGE) eqn:E; [discriminate|]. apply N.ltb_ge in E. exact E.
Qed.

(* ------------------------------------------------------------------------------------------- *)
(* 2. build_leaf                                                                                 *)

Lemma bpush_ops_cells : forall cs ops bd bd',
  bpush_ops bd cs ops = Some bd' -> bd_cells bd' = bd_cells bd ++ flat cs ops.
Proof.
  intros cs ops. induction ops as [|o r IH]; intros bd bd' H.
  - cbn in H. inversion H; subst. cbn [flat flat_map]. symmetry. apply app_nil_r.
  - cbn [bpush_ops] in H. destruct o as [c|f t vs].
    + destruct (bpush bd c) as [bd1|] eqn:E; [|discriminate].
      unfold bpush in E. destruct (_ && _) in E; [|discriminate]. inversion E; subst bd1; clear E.
      rewrite (IH _ _ H). cbn [bd_cells]. rewrite flat_cons, <- app_assoc. reflexivity.
    + destruct (bpush_chunk bd cs f t) as [bd1|] eqn:E; [|discriminate].
      unfold bpush_chunk in E. destruct (_ && _) in E; [|discriminate]. inversion E; subst bd1; clear E.
      rewrite (IH _ _ H). cbn [bd_cells]. rewrite flat_cons, <- app_assoc. reflexivity.
Qed.

Lemma fold_op_n : forall ops a, fold_left (fun a o => a + op_n o)%nat ops a = (a + ops_items ops)%nat.
Proof.
  induction ops as [|o r IH]; intros a; cbn [fold_left ops_items fold_right]; [lia|].
  rewrite IH. fold (ops_items r). lia.
Qed.

Lemma fold_op_vs : forall ops a, fold_left (fun a o => a + op_vs o) ops a = a + sumN (map op_vs ops).
Proof.
  induction ops as [|o r IH]; intros a; cbn [fold_left map sumN]; [lia|].
  rewrite IH. lia.
Qed.

Lemma op_cells_length : forall cs o, op_wf cs o -> length (op_cells cs o) = op_n o /\ sizes (op_cells cs o) = op_vs o.
Proof.
  intros cs [c|f t vs] H; cbn [op_cells op_n op_vs].
  - split; [reflexivity|]. rewrite sizes_cons, sizes_nil. lia.
  - apply keep_cells_length. exact H.
Qed.

Lemma ops_items_flat : forall cs ops, ops_wf cs ops ->
  ops_items ops = length (flat cs ops) /\ sumN (map op_vs ops) = sizes (flat cs ops).
Proof.
  intros cs ops H. induction H as [|o r Ho Hr IH].
  - split; reflexivity.
  - destruct IH as [IH1 IH2]. destruct (op_cells_length cs o Ho) as [H1 H2].
    rewrite flat_cons, app_length, sizes_app. cbn [ops_items fold_right map sumN].
    fold (ops_items r). split; lia.
Qed.

Lemma build_leaf_spec : forall cs ops n vs cells,
  ops_wf cs ops -> build_leaf cs ops = Some (n, vs, cells) ->
  cells = flat cs ops /\ n = length cells /\ vs = sizes cells.
Proof.
  intros cs ops n vs cells Hw H. unfold build_leaf in H.
  destruct (bpush_ops _ cs ops) as [bd|] eqn:E; [|discriminate].
  destruct (bd_rem bd =? 0); [|discriminate]. inversion H; subst n vs cells; clear H.
  apply bpush_ops_cells in E. cbn [bd_cells app] in E. rewrite E.
  destruct (ops_items_flat cs ops Hw) as [H1 H2].
  rewrite fold_op_n, fold_op_vs. split; [reflexivity|]. split; lia.
Qed.

Lemma ops_wf_flat_nonempty : forall cs ops, ops_wf cs ops -> ops <> [] -> flat cs ops <> [].
Proof.
  intros cs ops H Hne. destruct ops as [|o r]; [contradiction|].
  apply Forall_cons_iff in H. destruct H as [Ho _].
  destruct (op_cells_length cs o Ho) as [Hl _].
  rewrite flat_cons. intros Heq. apply app_eq_nil in Heq. destruct Heq as [Heq _].
  rewrite Heq in Hl. cbn [length] in Hl.
  destruct o as [c|f t vs]; cbn [op_n] in Hl; [lia|]. destruct Ho as (H1 & _). lia.
Qed.

(* ------------------------------------------------------------------------------------------- *)
(* 3. key order                                                                                  *)

Definition klt (a b : key) : Prop := key_ltb a b = true.
Definition kle (a b : key) : Prop := key_ltb b a = false.
Definition kasc (l : list key) : Prop := StronglySorted klt l.
Definition keys (l : list cell) : list key := map c_key l.
Definition asc (l : list cell) : Prop := kasc (keys l).

Lemma klt_trans : forall a b c, klt a b -> klt b c -> klt a c.
Proof. unfold klt. intros a b c. apply key_ltb_trans. Qed.

Lemma klt_kle : forall a b, klt a b -> kle a b.
Proof. unfold klt, kle. intros a b. apply key_ltb_asym. Qed.

Lemma kle_refl : forall a, kle a a.
Proof. unfold kle. apply key_ltb_irrefl. Qed.

Lemma klt_kle_trans : forall a b c, klt a b -> kle b c -> klt a c.
Proof.
  unfold klt, kle. intros a b c Hab Hbc.
  destruct (key_trichotomy b c) as [H|[H|H]].
  - eapply key_ltb_trans; eassumption.
  - subst. exact Hab.
  - rewrite H in Hbc. discriminate.
Qed.

Lemma kle_klt_trans : forall a b c, kle a b -> klt b c -> klt a c.
Proof.
  unfold klt, kle. intros a b c Hab Hbc.
  destruct (key_trichotomy a b) as [H|[H|H]].
  - eapply key_ltb_trans; eassumption.
  - subst. exact Hbc.
  - rewrite H in Hab. discriminate.
Qed.

Lemma kle_trans : forall a b c, kle a b -> kle b c -> kle a c.
Proof.
  intros a b c Hab Hbc. destruct (key_trichotomy a b) as [H|[H|H]].
  - apply klt_kle. eapply klt_kle_trans; eassumption.
  - subst. exact Hbc.
  - unfold kle in Hab. rewrite H in Hab. discriminate.
Qed.

Lemma klt_irrefl : forall a, ~ klt a a.
Proof. unfold klt. intros a H. rewrite key_ltb_irrefl in H. discriminate. Qed.

Lemma kasc_app : forall a b,
  kasc (a ++ b) <-> kasc a /\ kasc b /\ (forall x y, In x a -> In y b -> klt x y).
Proof.
  unfold kasc. induction a as [|x a IH]; intros b; cbn [app].
  - split.
    + intros H. split; [constructor|]. split; [exact H|]. intros x y [].
    + intros (_ & H & _). exact H.
  - split.
    + intros H. inversion H as [|? ? Hs Hf]; subst. apply IH in Hs. destruct Hs as (Ha & Hb & Hab).
      rewrite Forall_app in Hf. destruct Hf as [Hfa Hfb].
      split; [constructor; assumption|]. split; [exact Hb|].
      intros x' y [Hx|Hx] Hy.
      * subst x'. rewrite Forall_forall in Hfb. apply Hfb. exact Hy.
      * apply Hab; assumption.
    + intros (Ha & Hb & Hab). inversion Ha as [|? ? Hs Hf]; subst.
      constructor.
      * apply IH. split; [exact Hs|]. split; [exact Hb|]. intros x' y Hx Hy. apply Hab; [right; exact Hx|exact Hy].
      * apply Forall_app. split; [exact Hf|]. apply Forall_forall. intros y Hy. apply Hab; [left; reflexivity|exact Hy].
Qed.

Lemma kasc_sorted_keys : forall l, kasc l <-> sorted_keys l = true.
Proof.
  unfold kasc. induction l as [|x l IH].
  - split; [reflexivity|constructor].
  - destruct l as [|y l].
    + split; [reflexivity|]. intros _. constructor; constructor.
    + change (sorted_keys (x :: y :: l)) with (key_ltb x y && sorted_keys (y :: l)).
      rewrite andb_true_iff. split.
      * intros H. inversion H as [|? ? Hs Hf]; subst. split.
        -- inversion Hf; subst. assumption.
        -- apply IH. exact Hs.
      * intros [Hxy Hs]. apply IH in Hs. constructor; [exact Hs|].
        constructor; [exact Hxy|]. inversion Hs as [|? ? _ Hf]; subst.
        apply Forall_forall. intros z Hz. rewrite Forall_forall in Hf.
        eapply klt_trans; [exact Hxy|]. apply Hf. exact Hz.
Qed.

Lemma kasc_NoDup : forall l, kasc l -> NoDup l.
Proof.
  unfold kasc. induction l as [|x l IH]; intros H; [constructor|].
  inversion H as [|? ? Hs Hf]; subst. constructor; [|apply IH; exact Hs].
  intros Hin. rewrite Forall_forall in Hf. apply (klt_irrefl x). apply Hf. exact Hin.
Qed.

Lemma keys_app : forall a b, keys (a ++ b) = keys a ++ keys b.
Proof. intros a b. apply map_app. Qed.

Lemma In_keys : forall c l, In c l -> In (c_key c) (keys l).
Proof. intros c l H. unfold keys. apply in_map. exact H. Qed.

Lemma asc_app : forall a b,
  asc (a ++ b) <-> asc a /\ asc b /\ (forall x y, In x a -> In y b -> klt (c_key x) (c_key y)).
Proof.
  intros a b. unfold asc. rewrite keys_app, kasc_app. split.
  - intros (Ha & Hb & Hab). split; [exact Ha|]. split; [exact Hb|].
    intros x y Hx Hy. apply Hab; apply In_keys; assumption.
  - intros (Ha & Hb & Hab). split; [exact Ha|]. split; [exact Hb|].
    intros x y Hx Hy. unfold keys in Hx, Hy. apply in_map_iff in Hx, Hy.
    destruct Hx as (cx & <- & Hx). destruct Hy as (cy & <- & Hy). apply Hab; assumption.
Qed.

Lemma asc_cons : forall c l, asc (c :: l) <-> asc l /\ (forall y, In y l -> klt (c_key c) (c_key y)).
Proof.
  intros c l. change (c :: l) with ([c] ++ l). rewrite asc_app. split.
  - intros (_ & Hl & H). split; [exact Hl|]. intros y Hy. apply H; [left; reflexivity|exact Hy].
  - intros (Hl & H). split; [constructor; constructor|]. split; [exact Hl|].
    intros x y [Hx|[]] Hy. subst x. apply H. exact Hy.
Qed.

Lemma asc_nil : asc [].
Proof. constructor. Qed.

(* the last cell of an ascending list is not below any of its cells *)
Lemma asc_last : forall l c, asc l -> In c l -> kle (c_key c) (c_key (last l dcell)).
Proof.
  induction l as [|x l IH]; intros c Ha Hin; [destruct Hin|].
  apply asc_cons in Ha. destruct Ha as [Hl Hx].
  destruct l as [|y l].
  - destruct Hin as [<-|[]]. apply kle_refl.
  - change (last (x :: y :: l) dcell) with (last (y :: l) dcell).
    destruct Hin as [<-|Hin].
    + apply klt_kle. apply Hx. clear. generalize y. induction l as [|z l IH]; intros y0; [left; reflexivity|].
      change (last (y0 :: z :: l) dcell) with (last (z :: l) dcell). right. apply IH.
    + apply IH; assumption.
Qed.

Lemma last_In : forall (l : list cell), l <> [] -> In (last l dcell) l.
Proof.
  induction l as [|x l IH]; intros H; [contradiction|].
  destruct l as [|y l]; [left; reflexivity|]. right. apply IH. discriminate.
Qed.

(* ------------------------------------------------------------------------------------------- *)
(* 4. try_build_leaves                                                                           *)

Definition cell_okP (c : cell) : Prop := length (c_key c) = KEY_BITS /\ c_size c <= MAXV.

(* [s] is above every key of [left] and not above any key of [cells] *)
Definition sep_ok (left : list key) (s : key) (cells : list cell) : Prop :=
  (forall k, In k left -> klt k s) /\ (forall c, In c cells -> kle s (c_key c)).

Definition cells_of (ls : list built) : list cell := flat_map bl_cells ls.

Fixpoint seps_ok (left : list key) (ls : list built) : Prop :=
  match ls with
  | [] => True
  | m :: r => bl_cells m <> [] /\ sep_ok left (bl_sep m) (bl_cells m) /\ seps_ok (left ++ keys (bl_cells m)) r
  end.

Definition leaf_ok (m : built) : Prop :=
  bl_cells m <> [] /\ bl_gauge m = body_of (bl_cells m) /\ bl_n m = length (bl_cells m)
  /\ bl_vs m = sizes (bl_cells m) /\ body_of (bl_cells m) <= BODY.

Definition leaf_full (m : built) : Prop := MERGE <= body_of (bl_cells m).

Lemma cells_of_app : forall a b, cells_of (a ++ b) = cells_of a ++ cells_of b.
Proof. intros a b. unfold cells_of. apply flat_map_app. Qed.

Lemma seps_ok_app : forall (a b : list built) (lf : list key),
  seps_ok lf (a ++ b) <-> seps_ok lf a /\ seps_ok (lf ++ keys (cells_of a)) b.
Proof.
  induction a as [|m a IH]; intros b lf; cbn [app seps_ok cells_of flat_map].
  - cbn [keys map]. rewrite app_nil_r. tauto.
  - rewrite IH. fold (cells_of a). rewrite keys_app, app_assoc. tauto.
Qed.

Lemma sep_ok_sub : forall left s cells cells',
  sep_ok left s cells -> (forall c, In c cells' -> In c cells) -> sep_ok left s cells'.
Proof. intros left s cells cells' [H1 H2] Hsub. split; [exact H1|]. intros c Hc. apply H2, Hsub, Hc. Qed.

Lemma op_first_key_head : forall cs o r, op_wf cs o ->
  exists c tl, flat cs (o :: r) = c :: tl /\ op_first_key cs o = c_key c.
Proof.
  intros cs [c|f t vs] r H; rewrite flat_cons; cbn [op_cells op_first_key].
  - exists c, (flat cs r). split; reflexivity.
  - destruct H as (H1 & H2 & _).
    rewrite (range_split cs f (S f) t) by lia. rewrite range_one by lia.
    eexists; eexists. split; [reflexivity|reflexivity].
Qed.

(* the separator between two neighbouring leaves *)
Lemma separate_between : forall left sep cells rest_cells c tl s,
  cells <> [] -> asc (cells ++ rest_cells) -> Forall cell_okP (cells ++ rest_cells) ->
  rest_cells = c :: tl ->
  sep_ok left sep cells ->
  separate (c_key (last cells dcell)) (c_key c) = Result.Ok s ->
  sep_ok (left ++ keys cells) s rest_cells.
Proof.
  intros left sep cells rest_cells c tl s Hne Hasc Hok Hrest [Hl Hc] Hsep.
  pose proof (last_In cells Hne) as Hlast.
  apply asc_app in Hasc. destruct Hasc as (Ha & Hb & Hab).
  rewrite Forall_forall in Hok.
  assert (Hlt : klt (c_key (last cells dcell)) (c_key c)).
  { apply Hab; [exact Hlast|]. rewrite Hrest. left. reflexivity. }
  destruct (separate_spec (c_key (last cells dcell)) (c_key c)) as (s' & Hs' & _ & Hgt & Hle & _).
  - apply Hok. apply in_or_app. left. exact Hlast.
  - apply Hok. apply in_or_app. right. rewrite Hrest. left. reflexivity.
  - exact Hlt.
  - rewrite Hsep in Hs'. inversion Hs'; subst s'. clear Hs'.
    apply negb_true_iff in Hle.
    split.
    + intros k Hk. apply in_app_or in Hk. destruct Hk as [Hk|Hk].
      * eapply klt_trans; [|exact Hgt]. eapply klt_kle_trans; [apply Hl; exact Hk|].
        apply Hc. exact Hlast.
      * unfold keys in Hk. apply in_map_iff in Hk. destruct Hk as (x & <- & Hx).
        eapply kle_klt_trans; [|exact Hgt]. apply asc_last; assumption.
    + intros x Hx. rewrite Hrest in Hx. destruct Hx as [<-|Hx].
      * exact Hle.
      * eapply kle_trans; [exact Hle|]. apply klt_kle.
        rewrite Hrest in Hb. apply asc_cons in Hb. destruct Hb as [_ Hb]. apply Hb. exact Hx.
Qed.

Lemma tbl_loop_spec : forall fuel ob cutoff target sepov (first : bool) ops acc left acc' ops' g' sepov',
  ops_wf (bcells ob) ops -> target <= BODY ->
  asc (flat (bcells ob) ops) -> Forall cell_okP (flat (bcells ob) ops) ->
  (flat (bcells ob) ops <> [] -> forall s, (if first then Some (separator_of sepov ob) else sepov) = Some s ->
                                  sep_ok left s (flat (bcells ob) ops)) ->
  tbl_loop fuel false ob cutoff sepov first ops target acc = Some (acc', ops', g', sepov') ->
  exists new,
    acc' = acc ++ new /\ cells_of new ++ flat (bcells ob) ops' = flat (bcells ob) ops
    /\ ops_wf (bcells ob) ops' /\ g' = gauge_of (flat (bcells ob) ops') /\ g_body g' < target
    /\ Forall leaf_ok new /\ Forall leaf_full new /\ seps_ok left new
    /\ (new = [] -> sepov' = sepov)
    /\ (new <> [] -> flat (bcells ob) ops' <> [] ->
        exists s, sepov' = Some s /\ sep_ok (left ++ keys (cells_of new)) s (flat (bcells ob) ops')).
Proof.
  induction fuel as [|fuel IH];
    intros ob cutoff target sepov first ops acc left acc' ops' g' sepov' Hw Ht Hasc Hok Hsep H; [discriminate|].
  cbn [tbl_loop] in H. set (cs := bcells ob) in *.
  pose proof (consume_spec cs ops target Hw Ht) as Hc.
  destruct (consume false cs ops target) as [done g rest|opsn gn|] eqn:Ec; [| |discriminate].
  - (* a leaf is built *)
    pose proof (consume_some_target _ _ _ _ _ _ Ec) as Hmerge.
    cbn [cres_spec] in Hc. destruct Hc as (Hwd & Hwr & Hflat & Hg & Hbody & Hfull).
    destruct (if first then Some (separator_of sepov ob, sepov)
              else match sepov with Some s => Some (s, None) | None => None end) as [[sep sepov1]|] eqn:Esep;
      [|discriminate].
    destruct (build_leaf cs done) as [[[n vs] cells]|] eqn:Eb; [|discriminate].
    destruct (build_leaf_spec cs done n vs cells Hwd Eb) as (Hcells & Hn & Hvs).
    match type of H with match ?X with _ => _ end = _ => destruct X as [sepov2|] eqn:Es2; [|discriminate] end.
    destruct done as [|d0 dr] eqn:Edone; [discriminate|]. rewrite <- Edone in *.
    assert (Hdne : done <> []) by (rewrite Edone; discriminate).
    assert (Hcne : cells <> []) by (rewrite Hcells; apply ops_wf_flat_nonempty; assumption).
    assert (Hfne : flat cs ops <> []).
    { rewrite <- Hflat, <- Hcells. intros Hx. apply app_eq_nil in Hx. destruct Hx as [Hx _]. contradiction. }
    assert (Hcur : (if first then Some (separator_of sepov ob) else sepov) = Some sep).
    { destruct first; [inversion Esep; reflexivity|]. destruct sepov as [s0|]; [|discriminate]. inversion Esep; reflexivity. }
    pose proof (Hsep Hfne sep Hcur) as Hsok.
    assert (Hsokc : sep_ok left sep cells).
    { eapply sep_ok_sub; [exact Hsok|]. intros c Hin. rewrite <- Hflat, <- Hcells. apply in_or_app. left. exact Hin. }
    rewrite <- Hflat, <- Hcells in Hasc, Hok.
    set (m := mkBuilt sep (or_else sepov2 cutoff) (g_body g) n vs cells) in *.
    assert (Hlok : leaf_ok m).
    { unfold leaf_ok, m. cbn [bl_cells bl_gauge bl_n bl_vs].
      rewrite Hg, g_body_gauge_of, <- Hcells in *. repeat split; assumption. }
    assert (Hlfull : leaf_full m).
    { unfold leaf_full, m. cbn [bl_cells]. rewrite Hg, g_body_gauge_of, <- Hcells in Hfull.
      destruct Hfull as [Hf|(c & rest' & Hr & Hf)]; [lia|].
      assert (Hcin : In c (cells ++ flat cs rest)).
      { apply in_or_app. right. rewrite Hr, flat_cons. left. reflexivity. }
      rewrite Forall_forall in Hok. destruct (Hok c Hcin) as [_ Hsz].
      unfold MERGE, BODY, MAXV in *. lia. }
    (* the precondition of the next round *)
    assert (Hnext : flat cs rest <> [] -> forall s, sepov2 = Some s -> sep_ok (left ++ keys cells) s (flat cs rest)).
    { intros Hrne s Hs. destruct rest as [|op rest'].
      - exfalso. apply Hrne. reflexivity.
      - destruct cells as [|c0 ctl] eqn:Ecl; [contradiction|]. rewrite <- Ecl in *.
        destruct (separate (c_key (last cells dcell)) (op_first_key cs op)) as [s2| |] eqn:Esp; try discriminate.
        rewrite Hs in Es2. inversion Es2; subst s2. clear Es2.
        apply Forall_cons_iff in Hwr. destruct Hwr as [Hwop _].
        destruct (op_first_key_head cs op rest' Hwop) as (c & tl & Hhd & Hfk).
        rewrite Hfk in Esp.
        eapply separate_between; try eassumption. }
    specialize (IH ob cutoff target sepov2 false rest (acc ++ [m]) (left ++ keys cells) acc' ops' g' sepov'
                   Hwr Ht).
    apply asc_app in Hasc. destruct Hasc as (Hasc1 & Hasc2 & Hasc12).
    apply Forall_app in Hok. destruct Hok as [Hok1 Hok2].
    destruct (IH Hasc2 Hok2 Hnext H)
      as (new' & Hacc & Hcontent & Hwo & Hg' & Hgb & Hlo & Hlf & Hso & Hnil & Hcons).
    change (bcells ob) with cs in Hcontent, Hwo, Hg', Hcons |- *.
    exists (m :: new'). split; [rewrite Hacc, <- app_assoc; reflexivity|].
    split.
    { cbn [cells_of flat_map]. fold (cells_of new'). cbn [bl_cells]. rewrite <- app_assoc, Hcontent.
      rewrite <- Hflat, <- Hcells. reflexivity. }
    split; [exact Hwo|]. split; [exact Hg'|]. split; [exact Hgb|].
    split; [constructor; assumption|]. split; [constructor; assumption|].
    split; [cbn [seps_ok]; cbn [bl_cells bl_sep]; auto|].
    split; [discriminate|].
    intros _ Hone. destruct new' as [|m' new''] eqn:En.
    + cbn [cells_of flat_map app] in Hcontent. rewrite Hcontent in Hone.
      specialize (Hnil eq_refl). subst sepov'.
      destruct sepov2 as [s2|].
      * exists s2. split; [reflexivity|]. cbn [cells_of flat_map bl_cells]. rewrite app_nil_r.
        rewrite Hcontent. apply Hnext; [exact Hone|reflexivity].
      * exfalso. destruct rest as [|op rest']; [apply Hone; reflexivity|].
        destruct cells as [|c0 ctl]; [discriminate|].
        destruct (separate _ _); discriminate.
    + destruct (Hcons ltac:(discriminate) Hone) as (s & Hs & Hsk). exists s. split; [exact Hs|].
      cbn [cells_of flat_map] in *. fold (cells_of new'') in *. cbn [bl_cells]. rewrite keys_app, app_assoc. exact Hsk.
  - (* nothing more can be built *)
    cbn [cres_spec] in Hc. destruct Hc as (Hwn & Hflat & Hg & Hlt).
    inversion H; subst acc' ops' g' sepov'. exists [].
    split; [symmetry; apply app_nil_r|]. split; [exact Hflat|]. split; [exact Hwn|]. split; [exact Hg|].
    split; [exact Hlt|]. split; [constructor|]. split; [constructor|]. split; [exact I|].
    split; [reflexivity|]. intros Hx. contradiction.
Qed.

(* ------------------------------------------------------------------------------------------- *)
(* 5. ingest: the merge of the base with the operations                                          *)

Definition new_cell (k : key) (v : option (N * N)) : list cell :=
  match v with Some (size, id) => [mkCell k size id] | None => [] end.

(* what ingesting the operations makes of the cells [l] of the base not yet looked at *)
Fixpoint merge_ops (ops : list (key * option (N * N))) (l : list cell) : list cell :=
  match ops with
  | [] => l
  | (k, v) :: r =>
      let '(found, to) := find_from l k 0 in
      firstn to l ++ new_cell k v ++ merge_ops r (skipn (if found then S to else to) l)
  end.

Lemma find_from_shift : forall l k i,
  find_from l k i = (fst (find_from l k 0), (i + snd (find_from l k 0))%nat).
Proof.
  induction l as [|c r IH]; intros k i; cbn [find_from].
  - cbn. f_equal. lia.
  - destruct (key_eqb (c_key c) k); [cbn; f_equal; lia|].
    destruct (key_ltb k (c_key c)); [cbn; f_equal; lia|].
    rewrite (IH k (S i)), (IH k 1%nat). cbn [fst snd]. f_equal. lia.
Qed.

Lemma find_from_bound : forall l k found to, find_from l k 0 = (found, to) ->
  (to <= length l)%nat /\ (found = true -> (to < length l)%nat).
Proof.
  induction l as [|c r IH]; intros k found to H; cbn [find_from] in H.
  - inversion H; subst. split; [cbn; lia|discriminate].
  - cbn [length]. destruct (key_eqb (c_key c) k); [inversion H; subst; split; lia|].
    destruct (key_ltb k (c_key c)); [inversion H; subst; split; [lia|discriminate]|].
    rewrite find_from_shift in H. destruct (find_from r k 0) as [f0 t0] eqn:E. cbn [fst snd] in H.
    inversion H; subst found to. destruct (IH k f0 t0 E) as [H1 H2]. split; [lia|]. intros Hf. specialize (H2 Hf). lia.
Qed.

Definition uinv (u : updater) : Prop :=
  ops_wf (u_cells u) (u_ops u) /\ u_g u = gauge_of (pending u) /\ (u_low u <= length (u_cells u))%nat.

Definition same_frame (u u' : updater) : Prop :=
  u_base u' = u_base u /\ u_cutoff u' = u_cutoff u /\ u_sepov u' = u_sepov u.

Lemma same_frame_refl : forall u, same_frame u u.
Proof. intros u. repeat split. Qed.

Lemma same_frame_trans : forall a b c, same_frame a b -> same_frame b c -> same_frame a c.
Proof. intros a b c (H1 & H2 & H3) (H4 & H5 & H6). repeat split; congruence. Qed.

Lemma push_keep_spec : forall u low' from to,
  uinv u -> (from <= to)%nat -> (to <= low')%nat -> (low' <= length (u_cells u))%nat ->
  let u' := push_keep u low' from to in
  uinv u' /\ same_frame u u' /\ u_low u' = low' /\ pending u' = pending u ++ range (u_cells u) from to.
Proof.
  intros u low' from to (Hw & Hg & Hl) H1 H2 H3. unfold push_keep.
  destruct (from =? to)%nat eqn:E; cbn zeta.
  - apply Nat.eqb_eq in E. subst to. rewrite range_nil, app_nil_r.
    unfold uinv, same_frame, pending, u_cells in *. cbn [u_base u_ops u_g u_low u_cutoff u_sepov]. auto 10.
  - apply Nat.eqb_neq in E.
    unfold uinv, same_frame, pending, u_cells in *. cbn [u_base u_ops u_g u_low u_cutoff u_sepov].
    assert (Hop : op_wf (bcells (u_base u)) (LKeep from to (vsize (bcells (u_base u)) from to))).
    { cbn [op_wf]. split; [lia|]. split; [lia|reflexivity]. }
    destruct (keep_cells_length _ _ _ _ Hop) as [Hlen Hsz].
    rewrite flat_app, flat_one. cbn [op_cells].
    split; [|auto].
    split; [apply ops_wf_app; split; [exact Hw|constructor; [exact Hop|constructor]]|].
    split; [|exact H3].
    rewrite gauge_of_app, Hlen, Hsz, Hg. reflexivity.
Qed.

Lemma keep_up_to_key_spec : forall u k,
  uinv u ->
  let u' := keep_up_to_key u k in
  let rest := skipn (u_low u) (u_cells u) in
  let '(found, to) := find_from rest k 0 in
  uinv u' /\ same_frame u u' /\ pending u' = pending u ++ firstn to rest
  /\ skipn (u_low u') (u_cells u) = skipn (if found then S to else to) rest.
Proof.
  intros u k Hinv. pose proof Hinv as (Hw & Hg & Hl). unfold keep_up_to_key.
  cbn zeta. unfold u_cells in *.
  destruct (u_base u) as [b|] eqn:Eb; cbn [bcells] in *.
  - destruct (u_low u =? length (b_cells b))%nat eqn:En.
    + apply Nat.eqb_eq in En. rewrite En, skipn_all. cbn [find_from firstn].
      rewrite app_nil_r. cbn [skipn].
      split; [exact Hinv|]. split; [apply same_frame_refl|]. split; reflexivity.
    + apply Nat.eqb_neq in En.
      rewrite (find_from_shift _ k (u_low u)).
      destruct (find_from (skipn (u_low u) (b_cells b)) k 0) as [found t0] eqn:Ef. cbn [fst snd].
      destruct (find_from_bound _ _ _ _ Ef) as [Hb1 Hb2]. rewrite skipn_length in Hb1, Hb2.
      pose proof (push_keep_spec u (if found then S (u_low u + t0) else (u_low u + t0)%nat) (u_low u) (u_low u + t0)%nat
                                 Hinv ltac:(lia)) as Hp.
      unfold u_cells in Hp. rewrite Eb in Hp. cbn [bcells] in Hp.
      assert (H2 : (u_low u + t0 <= (if found then S (u_low u + t0) else (u_low u + t0)))%nat) by (destruct found; lia).
      assert (H3 : ((if found then S (u_low u + t0) else (u_low u + t0)) <= length (b_cells b))%nat).
      { destruct found; [specialize (Hb2 eq_refl)|]; lia. }
      destruct (Hp H2 H3) as (Hi & Hsf & Hlow & Hpend).
      split; [exact Hi|]. split; [exact Hsf|]. split.
      * rewrite Hpend. f_equal. unfold range. f_equal. lia.
      * rewrite Hlow. destruct found; rewrite <- skipn_add; f_equal; lia.
  - cbn [length] in Hl. assert (u_low u = 0%nat) by lia. rewrite H. cbn [skipn find_from firstn].
    rewrite app_nil_r. split; [exact Hinv|]. split; [apply same_frame_refl|]. split; reflexivity.
Qed.

Lemma u_ingest_spec : forall u k v,
  uinv u ->
  let u' := u_ingest u k v in
  let rest := skipn (u_low u) (u_cells u) in
  let '(found, to) := find_from rest k 0 in
  uinv u' /\ same_frame u u' /\ pending u' = pending u ++ firstn to rest ++ new_cell k v
  /\ skipn (u_low u') (u_cells u) = skipn (if found then S to else to) rest.
Proof.
  intros u k v Hinv. cbn zeta. pose proof (keep_up_to_key_spec u k Hinv) as Hk. cbn zeta in Hk.
  destruct (find_from (skipn (u_low u) (u_cells u)) k 0) as [found to] eqn:Ef.
  destruct Hk as ((Hw & Hg & Hl) & Hsf & Hp & Hs). unfold u_ingest.
  destruct v as [[size id]|]; cbn [new_cell].
  - pose proof Hsf as (Hb & Hc & Hso).
    unfold uinv, same_frame, pending, u_cells in *. cbn [u_base u_ops u_g u_low u_cutoff u_sepov].
    rewrite flat_app, flat_one. cbn [op_cells]. rewrite Hp, <- app_assoc.
    split; [|auto].
    split; [apply ops_wf_app; split; [exact Hw|constructor; [exact I|constructor]]|].
    split; [|exact Hl].
    rewrite app_assoc, <- Hp. rewrite gauge_of_snoc, Hg. reflexivity.
  - rewrite app_nil_r. split; [repeat split; assumption|]. auto.
Qed.

Lemma ingest_all_spec : forall ops u,
  uinv u ->
  let u' := ingest_all u ops in
  uinv u' /\ same_frame u u'
  /\ pending u' ++ skipn (u_low u') (u_cells u) = pending u ++ merge_ops ops (skipn (u_low u) (u_cells u)).
Proof.
  induction ops as [|[k v] r IH]; intros u Hinv; cbn zeta.
  - cbn [ingest_all fold_left merge_ops]. split; [exact Hinv|]. split; [apply same_frame_refl|reflexivity].
  - unfold ingest_all. cbn [fold_left fst snd]. fold (ingest_all (u_ingest u k v) r).
    pose proof (u_ingest_spec u k v Hinv) as H1. cbn zeta in H1. cbn [merge_ops].
    destruct (find_from (skipn (u_low u) (u_cells u)) k 0) as [found to] eqn:Ef.
    destruct H1 as (Hi1 & Hsf1 & Hp1 & Hs1).
    destruct (IH (u_ingest u k v) Hi1) as (Hi2 & Hsf2 & Hp2).
    assert (Hcs : u_cells (u_ingest u k v) = u_cells u) by (unfold u_cells; destruct Hsf1 as (-> & _); reflexivity).
    rewrite Hcs in Hp2.
    split; [exact Hi2|]. split; [eapply same_frame_trans; eassumption|].
    rewrite Hp2, Hp1, Hs1, <- !app_assoc. reflexivity.
Qed.

Lemma keep_up_to_end_spec : forall u,
  uinv u ->
  let u' := keep_up_to_end u in
  uinv u' /\ same_frame u u' /\ u_low u' = length (u_cells u)
  /\ pending u' = pending u ++ skipn (u_low u) (u_cells u).
Proof.
  intros u Hinv. pose proof Hinv as (Hw & Hg & Hl). cbn zeta. unfold keep_up_to_end, u_cells in *.
  destruct (u_base u) as [b|] eqn:Eb; cbn [bcells] in *.
  - destruct (u_low u =? length (b_cells b))%nat eqn:En.
    + apply Nat.eqb_eq in En. rewrite En, skipn_all, app_nil_r.
      split; [exact Hinv|]. split; [apply same_frame_refl|]. split; reflexivity.
    + apply Nat.eqb_neq in En.
      pose proof (push_keep_spec u (length (b_cells b)) (u_low u) (length (b_cells b)) Hinv) as Hp.
      unfold u_cells in Hp. rewrite Eb in Hp. cbn [bcells] in Hp.
      destruct (Hp ltac:(lia) ltac:(lia) ltac:(lia)) as (Hi & Hsf & Hlow & Hpend).
      split; [exact Hi|]. split; [exact Hsf|]. split; [exact Hlow|].
      rewrite Hpend, range_all. reflexivity.
  - cbn [length] in Hl. assert (H : u_low u = 0%nat) by lia. rewrite H. cbn [skipn]. rewrite app_nil_r.
    split; [exact Hinv|]. split; [apply same_frame_refl|]. split; reflexivity.
Qed.

(* ------------------------------------------------------------------------------------------- *)
(* 6. what the merge holds                                                                       *)

Lemma find_from_asc : forall l k found to,
  asc l -> find_from l k 0 = (found, to) ->
  (forall c, In c (firstn to l) -> klt (c_key c) k)
  /\ (forall c, In c (skipn (if found then S to else to) l) -> klt k (c_key c))
  /\ l = firstn to l ++ (if found then [nth to l dcell] else []) ++ skipn (if found then S to else to) l
  /\ (found = true -> c_key (nth to l dcell) = k).
Proof.
  induction l as [|c r IH]; intros k found to Ha H; cbn [find_from] in H.
  - inversion H; subst. cbn. repeat split; intros; try contradiction; discriminate.
  - apply asc_cons in Ha. destruct Ha as [Hr Hc].
    destruct (key_eqb (c_key c) k) eqn:Ee.
    + inversion H; subst. apply key_eqb_true_iff in Ee. cbn [firstn skipn nth app].
      split; [intros x []|]. split; [intros x Hx; rewrite <- Ee; apply Hc; exact Hx|].
      split; [reflexivity|]. intros _. exact Ee.
    + destruct (key_ltb k (c_key c)) eqn:El.
      * inversion H; subst. cbn [firstn skipn app].
        split; [intros x []|]. split.
        -- intros x [<-|Hx]; [exact El|]. eapply klt_trans; [exact El|]. apply Hc. exact Hx.
        -- split; [reflexivity|discriminate].
      * rewrite find_from_shift in H. destruct (find_from r k 0) as [f0 t0] eqn:E. cbn [fst snd] in H.
        inversion H; subst found to. clear H.
        destruct (IH k f0 t0 Hr E) as (H1 & H2 & H3 & H4).
        assert (Hck : klt (c_key c) k).
        { destruct (key_trichotomy (c_key c) k) as [Ht|[Ht|Ht]]; [exact Ht| |].
          - apply key_eqb_false_iff in Ee. contradiction.
          - rewrite Ht in El. discriminate. }
        cbn [Nat.add firstn nth].
        split; [intros x [<-|Hx]; [exact Hck|apply H1; exact Hx]|].
        split; [destruct f0; cbn [skipn]; exact H2|].
        split; [|exact H4].
        destruct f0; cbn [skipn app]; f_equal; exact H3.
Qed.

Definition ops_keys (ops : list (key * option (N * N))) : list key := map fst ops.

Lemma cell_eta : forall c, mkCell (c_key c) (c_size c) (c_id c) = c.
Proof. intros [k s i]. reflexivity. Qed.

Lemma asc_firstn : forall n l, asc l -> asc (firstn n l).
Proof. intros n l H. rewrite <- (firstn_skipn n l) in H. apply asc_app in H. tauto. Qed.

Lemma asc_skipn : forall n l, asc l -> asc (skipn n l).
Proof. intros n l H. rewrite <- (firstn_skipn n l) in H. apply asc_app in H. tauto. Qed.

Lemma merge_ops_spec : forall ops l,
  asc l -> kasc (ops_keys ops) ->
  asc (merge_ops ops l)
  /\ forall c, In c (merge_ops ops l) <->
               In (c_key c, Some (c_size c, c_id c)) ops \/ (In c l /\ ~ In (c_key c) (ops_keys ops)).
Proof.
  induction ops as [|[k v] r IH]; intros l Hl Hops.
  - cbn [merge_ops ops_keys map]. split; [exact Hl|]. intros c. split; [intros H; right; split; [exact H|intros []]|].
    intros [[]|[H _]]. exact H.
  - cbn [merge_ops]. destruct (find_from l k 0) as [found to] eqn:Ef.
    destruct (find_from_asc l k found to Hl Ef) as (HA & HB & Hsplit & Hfound).
    set (A := firstn to l) in *. set (B := skipn (if found then S to else to) l) in *.
    cbn [ops_keys map fst] in Hops. fold (ops_keys r) in Hops.
    change (k :: ops_keys r) with ([k] ++ ops_keys r) in Hops. apply kasc_app in Hops.
    destruct Hops as (_ & Hr & Hkr).
    assert (HaB : asc B) by (apply asc_skipn; exact Hl).
    destruct (IH B HaB Hr) as [HaM HinM].
    assert (HMk : forall y, In y (merge_ops r B) -> klt k (c_key y)).
    { intros y Hy. apply HinM in Hy. destruct Hy as [Hy|[Hy _]].
      - apply Hkr; [left; reflexivity|]. unfold ops_keys. apply in_map_iff. eexists. split; [|exact Hy]. reflexivity.
      - apply HB. exact Hy. }
    split.
    + apply asc_app. split; [apply asc_firstn; exact Hl|]. split.
      * destruct v as [[size id]|]; cbn [new_cell app]; [|exact HaM].
        apply asc_cons. split; [exact HaM|]. exact HMk.
      * intros x y Hx Hy. apply in_app_or in Hy. destruct Hy as [Hy|Hy].
        -- destruct v as [[size id]|]; cbn [new_cell] in Hy; [|destruct Hy].
           destruct Hy as [<-|[]]. cbn [c_key]. apply HA. exact Hx.
        -- eapply klt_trans; [apply HA; exact Hx|apply HMk; exact Hy].
    + intros c. rewrite !in_app_iff, HinM. cbn [ops_keys map fst In]. fold (ops_keys r). split.
      * intros [H|[H|[H|[H1 H2]]]].
        -- right. split; [eapply In_firstn; exact H|].
           intros [He|Hin].
           ++ apply (klt_irrefl k). rewrite He at 1. apply HA. exact H.
           ++ apply (klt_irrefl (c_key c)). eapply klt_trans; [apply HA; exact H|].
              apply Hkr; [left; reflexivity|exact Hin].
        -- left. left. destruct v as [[size id]|]; cbn [new_cell] in H; [|destruct H].
           destruct H as [<-|[]]. reflexivity.
        -- left. right. exact H.
        -- right. split; [eapply In_skipn'; exact H1|].
           intros [He|Hin]; [|contradiction].
           apply (klt_irrefl k). rewrite He at 2. apply HB. exact H1.
      * intros [[H|H]|[H1 H2]].
        -- inversion H; subst k v. right. left. cbn [new_cell]. left. apply cell_eta.
        -- right. right. left. exact H.
        -- rewrite Hsplit in H1. rewrite !in_app_iff in H1. destruct H1 as [H1|[H1|H1]].
           ++ left. exact H1.
           ++ exfalso. destruct found; [|destruct H1]. destruct H1 as [<-|[]].
              apply H2. left. symmetry. apply Hfound. reflexivity.
           ++ right. right. right. split; [exact H1|]. intros Hin. apply H2. right. exact Hin.
Qed.

(* ------------------------------------------------------------------------------------------- *)
(* 7. digest                                                                                     *)

Definition is_ins (o : lop) : Prop := match o with LIns _ => True | LKeep _ _ _ => False end.

Lemma all_ins_flat : forall cs cs' ops, Forall is_ins ops -> flat cs ops = flat cs' ops.
Proof.
  intros cs cs' ops H. induction H as [|o r Ho Hr IH]; [reflexivity|].
  rewrite !flat_cons, IH. destruct o; [reflexivity|destruct Ho].
Qed.

Lemma all_ins_wf : forall cs ops, Forall is_ins ops -> ops_wf cs ops.
Proof.
  intros cs ops H. induction H as [|o r Ho Hr IH]; constructor; [|exact IH].
  destruct o; [exact I|destruct Ho].
Qed.

Lemma wf_nil_all_ins : forall ops, ops_wf [] ops -> Forall is_ins ops.
Proof.
  intros ops H. induction H as [|o r Ho Hr IH]; constructor; [|exact IH].
  destruct o as [c|f t vs]; [exact I|]. destruct Ho as (H1 & H2 & _). cbn [length] in H2. lia.
Qed.

Lemma flat_map_LIns : forall cs l, flat cs (map LIns l) = l.
Proof. intros cs l. induction l as [|c l IH]; [reflexivity|]. cbn [map]. rewrite flat_cons, IH. reflexivity. Qed.

Lemma expand_spec : forall cs ops,
  Forall is_ins (flat_map (expand cs) ops) /\ flat cs (flat_map (expand cs) ops) = flat cs ops.
Proof.
  intros cs ops. induction ops as [|o r [IH1 IH2]]; [split; [constructor|reflexivity]|].
  cbn [flat_map]. rewrite flat_app, flat_cons, IH2. split.
  - apply Forall_app. split; [|exact IH1]. destruct o as [c|f t vs]; cbn [expand].
    + constructor; [exact I|constructor].
    + apply Forall_forall. intros x Hx. apply in_map_iff in Hx. destruct Hx as (c & <- & _). exact I.
  - f_equal. destruct o as [c|f t vs]; cbn [expand op_cells]; [reflexivity|]. apply flat_map_LIns.
Qed.

(* where a digest stands between two calls of try_build_leaves: the leaves [l] built so far, the
   operations left, their gauge and the separator override *)
Definition phase (ob : option base) (lf : list key) (C : list cell) (l : list built) (ops : list lop)
           (g : gauge) (so : option key) : Prop :=
  cells_of l ++ flat (bcells ob) ops = C /\ ops_wf (bcells ob) ops /\ g = gauge_of (flat (bcells ob) ops)
  /\ Forall leaf_ok l /\ Forall leaf_full l /\ seps_ok lf l
  /\ (flat (bcells ob) ops <> [] ->
      sep_ok (lf ++ keys (cells_of l)) (separator_of so ob) (flat (bcells ob) ops)).

Lemma Forall_app_r : forall (A : Type) (P : A -> Prop) a b, Forall P (a ++ b) -> Forall P b.
Proof. intros A P a b H. apply Forall_app in H. tauto. Qed.

Lemma phase_step : forall ob cutoff lf C l ops g so target l' ops' g' so',
  asc C -> Forall cell_okP C -> phase ob lf C l ops g so -> target <= BODY ->
  try_build_leaves false ob cutoff so ops target l = Some (l', ops', g', so') ->
  phase ob lf C l' ops' g' so' /\ g_body g' < target /\ exists new, l' = l ++ new.
Proof.
  intros ob cutoff lf C l ops g so target l' ops' g' so' Hasc Hok Hph Ht H.
  destruct Hph as (Hc & Hw & Hg & Hlo & Hlf & Hso & Hsep).
  unfold try_build_leaves in H.
  assert (Hasc' : asc (flat (bcells ob) ops)) by (rewrite <- Hc in Hasc; apply asc_app in Hasc; tauto).
  assert (Hok' : Forall cell_okP (flat (bcells ob) ops)) by (rewrite <- Hc in Hok; eapply Forall_app_r; exact Hok).
  destruct (tbl_loop_spec (S (ops_items ops)) ob cutoff target so true ops l (lf ++ keys (cells_of l)) l' ops' g' so' Hw Ht Hasc' Hok')
    as (new & Hacc & Hcontent & Hwo & Hg' & Hgb & Hlo' & Hlf' & Hso' & Hnil & Hcons); [|exact H|].
  { intros Hne s Hs. inversion Hs; subst s. apply Hsep. exact Hne. }
  split; [|split; [exact Hgb|exists new; exact Hacc]].
  subst l'. unfold phase.
  split; [rewrite cells_of_app, <- app_assoc, Hcontent; exact Hc|].
  split; [exact Hwo|]. split; [exact Hg'|].
  split; [apply Forall_app; split; assumption|]. split; [apply Forall_app; split; assumption|].
  split; [apply seps_ok_app; split; assumption|].
  intros Hne. destruct new as [|m new].
  - specialize (Hnil eq_refl). subst so'. cbn [cells_of flat_map app] in Hcontent.
    rewrite app_nil_r. rewrite Hcontent in *. apply Hsep. exact Hne.
  - destruct (Hcons ltac:(discriminate) Hne) as (s & -> & Hs). cbn [separator_of].
    rewrite cells_of_app, keys_app, app_assoc. exact Hs.
Qed.

Definition digest_post (lf : list key) (C : list cell) (u : updater) (leaves : list built) (u' : updater)
           (nm : option key) : Prop :=
  cells_of leaves ++ pending u' = C
  /\ Forall leaf_ok leaves
  /\ (forall pre m post, leaves = pre ++ m :: post -> leaf_full m \/ (post = [] /\ u_cutoff u = None /\ nm = None))
  /\ seps_ok lf leaves
  /\ u_base u' = u_base u /\ u_cutoff u' = u_cutoff u /\ u_low u' = length (u_cells u)
  /\ Forall is_ins (u_ops u') /\ u_g u' = gauge_of (pending u')
  /\ match nm with
     | None => u_ops u' = [] /\ u_sepov u' = None
     | Some k => u_cutoff u = Some k /\ pending u' <> []
                 /\ exists s, u_sepov u' = Some s /\ sep_ok (lf ++ keys (cells_of leaves)) s (pending u')
     end.

Lemma half_le_body : forall x, x <= BULK_THRESHOLD -> x / 2 <= BODY.
Proof.
  intros x H. apply N.div_le_upper_bound; [discriminate|]. unfold BULK_THRESHOLD, BODY in *. lia.
Qed.

Lemma digest_spec : forall u lf leaves u' nm,
  uinv u ->
  let C := pending u ++ skipn (u_low u) (u_cells u) in
  asc C -> Forall cell_okP C ->
  (C <> [] -> sep_ok lf (separator_of (u_sepov u) (u_base u)) C) ->
  digest false u = Some (leaves, u', nm) ->
  digest_post lf C u leaves u' nm.
Proof.
  intros u lf leaves u' nm Hinv C Hasc Hok Hsep H.
  destruct (keep_up_to_end_spec u Hinv) as (Hi1 & (Hb1 & Hc1 & Hs1) & Hlow1 & Hp1). cbn zeta in *.
  fold C in Hp1. unfold digest in H. set (u1 := keep_up_to_end u) in *.
  set (ob := u_base u1) in *. set (cutoff := u_cutoff u1) in *.
  destruct Hi1 as (Hw1 & Hg1 & _). unfold u_cells in Hw1. fold ob in Hw1.
  assert (Hpend1 : flat (bcells ob) (u_ops u1) = C) by exact Hp1.
  assert (Hph0 : phase ob lf C [] (u_ops u1) (u_g u1) (u_sepov u1)).
  { unfold phase. cbn [cells_of flat_map app]. split; [exact Hpend1|]. split; [exact Hw1|].
    split; [rewrite Hg1; reflexivity|]. split; [constructor|]. split; [constructor|]. split; [exact I|].
    intros Hne. cbn [keys map]. rewrite app_nil_r. rewrite Hpend1 in *. rewrite Hs1, Hb1. apply Hsep. exact Hne. }
  (* the bulk split *)
  match type of H with match ?X with _ => _ end = _ => destruct X as [[[[l1 ops1] g1] so1]|] eqn:E1; [|discriminate] end.
  assert (Hph1 : phase ob lf C l1 ops1 g1 so1 /\ g_body g1 <= BULK_THRESHOLD).
  { destruct (BULK_THRESHOLD <? g_body (u_g u1)) eqn:Eb.
    - destruct (phase_step ob cutoff lf C [] (u_ops u1) (u_g u1) (u_sepov u1) BULK_TARGET l1 ops1 g1 so1 Hasc Hok Hph0)
        as (Hp & Hlt & _); [vm_compute; discriminate|exact E1|].
      split; [exact Hp|]. unfold BULK_TARGET, BULK_THRESHOLD in *. lia.
    - inversion E1; subst l1 ops1 g1 so1. split; [exact Hph0|]. apply N.ltb_ge in Eb. exact Eb. }
  destruct Hph1 as [Hph1 Hg1b].
  (* the split in two *)
  match type of H with match ?X with _ => _ end = _ => destruct X as [[[[l2 ops2] g2] so2]|] eqn:E2; [|discriminate] end.
  assert (Hph2 : phase ob lf C l2 ops2 g2 so2 /\ g_body g2 <= BODY).
  { destruct (BODY <? g_body g1) eqn:Eb.
    - pose proof (half_le_body _ Hg1b) as Hhalf.
      destruct (phase_step ob cutoff lf C l1 ops1 g1 so1 (g_body g1 / 2) l2 ops2 g2 so2 Hasc Hok Hph1 Hhalf E2)
        as (Hp & Hlt & _).
      split; [exact Hp|]. lia.
    - inversion E2; subst l2 ops2 g2 so2. split; [exact Hph1|]. apply N.ltb_ge in Eb. exact Eb. }
  destruct Hph2 as [(Hc2 & Hw2 & Hg2 & Hlo2 & Hlf2 & Hso2 & Hsep2) Hg2b].
  assert (Hlen : length (u_cells u) = u_low u1) by (symmetry; exact Hlow1).
  assert (Hcells : u_cells u = bcells ob) by (unfold u_cells; rewrite Hb1; reflexivity).
  rewrite Hg2, g_body_gauge_of in Hg2b.
  destruct (g_body g2 =? 0) eqn:Ez.
  - (* nothing left *)
    apply N.eqb_eq in Ez. rewrite Hg2, g_body_gauge_of in Ez. apply body_of_zero in Ez.
    assert (Hops2 : ops2 = []).
    { destruct ops2 as [|o r]; [reflexivity|]. exfalso. eapply ops_wf_flat_nonempty; [exact Hw2|discriminate|exact Ez]. }
    inversion H; subst leaves u' nm. clear H. subst ops2.
    unfold digest_post, pending, u_cells. cbn [u_base u_ops u_g u_low u_cutoff u_sepov].
    split; [exact Hc2|]. split; [exact Hlo2|]. split.
    { intros pre m post Hsplit. left. rewrite Forall_forall in Hlf2. apply Hlf2. rewrite Hsplit. apply in_or_app. right. left. reflexivity. }
    split; [exact Hso2|]. split; [exact Hb1|]. split; [exact Hc1|]. split; [symmetry; exact Hlen|].
    split; [constructor|]. split; [exact Hg2|]. split; reflexivity.
  - apply N.eqb_neq in Ez. rewrite Hg2, g_body_gauge_of in Ez.
    assert (Hne2 : flat (bcells ob) ops2 <> []) by (intros Hx; rewrite Hx in Ez; apply Ez; reflexivity).
    specialize (Hsep2 Hne2).
    destruct ((MERGE <=? g_body g2) || match cutoff with None => true | Some _ => false end) eqn:Em.
    + (* the last leaf *)
      destruct (build_leaf (bcells ob) ops2) as [[[n vs] cells]|] eqn:Eb; [|discriminate].
      destruct (build_leaf_spec _ _ _ _ _ Hw2 Eb) as (Hcl & Hn & Hvs).
      inversion H; subst leaves u' nm. clear H.
      set (m := mkBuilt (separator_of so2 ob) cutoff (g_body g2) n vs cells) in *.
      unfold digest_post, pending, u_cells. cbn [u_base u_ops u_g u_low u_cutoff u_sepov flat flat_map].
      rewrite app_nil_r.
      split; [rewrite cells_of_app; unfold m; cbn [cells_of flat_map bl_cells]; rewrite app_nil_r, Hcl; exact Hc2|].
      split.
      { apply Forall_app. split; [exact Hlo2|]. constructor; [|constructor].
        unfold leaf_ok, m. cbn [bl_cells bl_gauge bl_n bl_vs]. rewrite Hcl in *.
        rewrite Hg2, g_body_gauge_of. repeat split; assumption. }
      split.
      { intros pre m' post Hsplit. destruct post as [|p post].
        - apply app_inj_tail in Hsplit. destruct Hsplit as [_ <-].
          apply orb_true_iff in Em. destruct Em as [Em|Em].
          + left. unfold leaf_full, m. cbn [bl_cells]. rewrite Hcl. apply N.leb_le in Em.
            rewrite Hg2, g_body_gauge_of in Em. exact Em.
          + right. split; [reflexivity|]. split; [|reflexivity].
            rewrite <- Hc1. fold cutoff. destruct cutoff; [discriminate|reflexivity].
        - left. rewrite Forall_forall in Hlf2. apply Hlf2.
          assert (Hx : l2 ++ [m] = (pre ++ m' :: removelast (p :: post)) ++ [last (p :: post) m]).
          { rewrite Hsplit, <- app_assoc. cbn [app]. f_equal. f_equal. apply app_removelast_last. discriminate. }
          apply app_inj_tail in Hx. destruct Hx as [-> _]. apply in_or_app. right. left. reflexivity. }
      split.
      { apply seps_ok_app. split; [exact Hso2|]. cbn [seps_ok]. unfold m. cbn [bl_cells bl_sep].
        rewrite Hcl. split; [exact Hne2|]. split; [exact Hsep2|exact I]. }
      split; [exact Hb1|]. split; [exact Hc1|]. split; [symmetry; exact Hlen|].
      split; [constructor|]. split; [reflexivity|]. split; reflexivity.
    + (* NeedsMerge *)
      apply orb_false_iff in Em. destruct Em as [Em1 Em2].
      match type of H with match ?X with _ => _ end = _ => destruct X as [s|] eqn:Es; [|discriminate] end.
      inversion H; subst leaves u' nm. clear H.
      assert (Hs : s = separator_of so2 ob).
      { destruct so2 as [s2|]; [inversion Es; reflexivity|]. destruct ob as [b|]; [|discriminate]. inversion Es; reflexivity. }
      destruct cutoff as [kc|] eqn:Ecut; [|discriminate].
      set (ops3 := match ob with Some _ => flat_map (expand (bcells ob)) ops2 | None => ops2 end).
      assert (H3 : Forall is_ins ops3 /\ flat (bcells ob) ops3 = flat (bcells ob) ops2).
      { unfold ops3. destruct ob as [b|] eqn:Eob.
        - apply expand_spec.
        - split; [|reflexivity]. apply wf_nil_all_ins. exact Hw2. }
      destruct H3 as [H3a H3b].
      unfold digest_post, pending, u_cells. cbn [u_base u_ops u_g u_low u_cutoff u_sepov].
      fold ops3. rewrite H3b.
      split; [exact Hc2|]. split; [exact Hlo2|]. split.
      { intros pre m post Hsplit. left. rewrite Forall_forall in Hlf2. apply Hlf2. rewrite Hsplit. apply in_or_app. right. left. reflexivity. }
      split; [exact Hso2|]. split; [exact Hb1|]. split; [exact Hc1|]. split; [symmetry; exact Hlen|].
      split; [exact H3a|]. split; [exact Hg2|].
      split; [symmetry; exact Hc1|]. split; [exact Hne2|].
      exists s. split; [reflexivity|]. rewrite Hs. exact Hsep2.
Qed.

(* ------------------------------------------------------------------------------------------- *)
(* 8. stages                                                                                     *)

(* the updater between two stages; [lf]: the keys of the cells handed over so far *)
Definition carry (lf : list key) (u : updater) : Prop :=
  Forall is_ins (u_ops u) /\ u_g u = gauge_of (pending u) /\ u_low u = length (u_cells u)
  /\ (u_ops u = [] -> u_sepov u = None)
  /\ (u_ops u <> [] -> exists s, u_sepov u = Some s /\ sep_ok lf s (pending u)).

Definition stageM (sg : stage) : list cell := merge_ops (sg_ops sg) (stage_cells sg).

Definition eff_cutoff (sg : stage) : option key := if sg_rc sg then None else sg_cutoff sg.

Definition stage_full (sg : stage) (leaves : list built) (nm : option key) : Prop :=
  forall pre m post, leaves = pre ++ m :: post ->
    leaf_full m \/ (post = [] /\ eff_cutoff sg = None /\ nm = None).

Lemma kle_zero : forall k, length k = KEY_BITS -> kle zero_key k.
Proof. intros k H. unfold kle, zero_key. apply key_ltb_zeros. exact H. Qed.

Lemma forallb_In : forall (A : Type) (f : A -> bool) l x, forallb f l = true -> In x l -> f x = true.
Proof. intros A f l x H Hin. rewrite forallb_forall in H. apply H. exact Hin. Qed.

(* what stage_wf says about a stage that is not a remove_cutoff *)
Lemma stage_wf_facts : forall seen sg,
  stage_wf seen sg = true -> sg_rc sg = false ->
  asc (stage_cells sg) /\ kasc (ops_keys (sg_ops sg))
  /\ Forall cell_okP (stage_cells sg)
  /\ (forall k v, In (k, v) (sg_ops sg) -> length k = KEY_BITS /\ forall size id, v = Some (size, id) -> size <= MAXV)
  /\ match sg_base sg with
     | Some b => length (b_sep b) = KEY_BITS
                 /\ (forall k, In k (stage_keys sg) -> kle (b_sep b) k)
                 /\ (forall k, In k seen -> klt k (b_sep b))
     | None => seen = [] /\ sg_cutoff sg = None
     end.
Proof.
  intros seen sg H Hrc. unfold stage_wf in H. rewrite Hrc in H.
  repeat (apply andb_true_iff in H; destruct H as [H ?]).
  rename H into Hc, H3 into Ho, H2 into Hsc, H1 into Hso, H0 into Hb.
  split; [unfold asc, keys; apply kasc_sorted_keys; exact Hsc|].
  split; [unfold ops_keys; apply kasc_sorted_keys; exact Hso|].
  split.
  { apply Forall_forall. intros c Hin. pose proof (forallb_In _ _ _ _ Hc Hin) as Hx. unfold cell_ok in Hx.
    apply andb_true_iff in Hx. destruct Hx as [H1 H2]. split; [apply Nat.eqb_eq; exact H1|apply N.leb_le; exact H2]. }
  split.
  { intros k v Hin. pose proof (forallb_In _ _ _ _ Ho Hin) as Hx. unfold op_ok in Hx. cbn [fst snd] in Hx.
    apply andb_true_iff in Hx. destruct Hx as [H1 H2]. split; [apply Nat.eqb_eq; exact H1|].
    intros size id ->. apply N.leb_le. exact H2. }
  destruct (sg_base sg) as [b|].
  - repeat (apply andb_true_iff in Hb; destruct Hb as [Hb ?]).
    split; [apply Nat.eqb_eq; exact Hb|]. split.
    + intros k Hin. pose proof (forallb_In _ _ _ _ H0 Hin) as Hx. unfold key_leb in Hx.
      apply negb_true_iff in Hx. exact Hx.
    + intros k Hin. exact (forallb_In _ _ _ _ H Hin).
  - apply andb_true_iff in Hb. destruct Hb as [Hb1 Hb2].
    split; [destruct seen; [reflexivity|discriminate]|]. destruct (sg_cutoff sg); [discriminate|reflexivity].
Qed.

Lemma stageM_spec : forall seen sg,
  stage_wf seen sg = true ->
  asc (stageM sg) /\ Forall cell_okP (stageM sg)
  /\ (forall c, In c (stageM sg) -> In (c_key c) (stage_keys sg))
  /\ (forall c, In c (stageM sg) <->
                In (c_key c, Some (c_size c, c_id c)) (sg_ops sg)
                \/ (In c (stage_cells sg) /\ ~ In (c_key c) (ops_keys (sg_ops sg))))
  /\ (forall k k', In k (stage_keys sg) -> In k' seen -> klt k' k).
Proof.
  intros seen sg H. destruct (sg_rc sg) eqn:Hrc.
  - unfold stage_wf in H. rewrite Hrc in H. destruct (sg_ops sg) as [|o r] eqn:Eo; [|discriminate].
    unfold stageM, stage_keys, stage_cells, stage_base. rewrite Hrc, Eo. cbn [merge_ops bcells map app].
    split; [apply asc_nil|]. split; [constructor|]. split; [intros c []|].
    split; [|intros k k' []].
    intros c. split; [intros []|]. intros [[]|[[] _]].
  - destruct (stage_wf_facts seen sg H Hrc) as (Ha & Hk & Hc & Ho & Hb).
    destruct (merge_ops_spec (sg_ops sg) (stage_cells sg) Ha Hk) as [HaM HinM]. fold (stageM sg) in HaM, HinM.
    split; [exact HaM|].
    split.
    { apply Forall_forall. intros c Hin. apply HinM in Hin. destruct Hin as [Hin|[Hin _]].
      - destruct (Ho _ _ Hin) as [H1 H2]. split; [exact H1|]. eapply H2. reflexivity.
      - rewrite Forall_forall in Hc. apply Hc. exact Hin. }
    split.
    { intros c Hin. apply HinM in Hin. unfold stage_keys. apply in_or_app. destruct Hin as [Hin|[Hin _]].
      - right. apply in_map_iff. eexists. split; [|exact Hin]. reflexivity.
      - left. apply in_map. exact Hin. }
    split; [exact HinM|].
    intros k k' Hk1 Hk2. destruct (sg_base sg) as [b|].
    + destruct Hb as (_ & H1 & H2). eapply klt_kle_trans; [apply H2; exact Hk2|apply H1; exact Hk1].
    + destruct Hb as [-> _]. destruct Hk2.
Qed.

Lemma incl_keys : forall (a b : list cell), (forall c, In c a -> In c b) -> incl (keys a) (keys b).
Proof.
  intros a b H k Hk. unfold keys in *. apply in_map_iff in Hk. destruct Hk as (c & <- & Hc).
  apply in_map. apply H. exact Hc.
Qed.

(* what a stage's digest starts from *)
Lemma stage_digest_pre : forall seen lf u sg,
  stage_wf seen sg = true -> carry lf u ->
  incl lf seen -> incl (keys (pending u)) seen -> asc (pending u) -> Forall cell_okP (pending u) ->
  let ui := ingest_all (stage_start u sg) (sg_ops sg) in
  let C := pending u ++ stageM sg in
  uinv ui /\ pending ui ++ skipn (u_low ui) (u_cells ui) = C
  /\ asc C /\ Forall cell_okP C
  /\ (C <> [] -> sep_ok lf (separator_of (u_sepov ui) (u_base ui)) C)
  /\ u_cutoff ui = eff_cutoff sg
  /\ (u_base ui = None -> u_cutoff ui = None).
Proof.
  intros seen lf u sg Hwf (Hins & Hg & Hlow & Hsn & Hss) Hlf Hpk Hpa Hpc. cbn zeta.
  destruct (stageM_spec seen sg Hwf) as (HaM & HcM & HkM & HinM & Hseen).
  set (us := stage_start u sg) in *.
  (* the updater the stage starts with *)
  assert (Hus : uinv us /\ pending us = pending u /\ u_sepov us = u_sepov u /\ u_cutoff us = eff_cutoff sg
                /\ merge_ops (sg_ops sg) (skipn (u_low us) (u_cells us)) = stageM sg
                /\ (sg_rc sg = false -> u_base us = sg_base sg)
                /\ (sg_rc sg = true -> stageM sg = [])).
  { unfold us, stage_start, eff_cutoff, stageM, stage_cells, stage_base. destruct (sg_rc sg) eqn:Hrc.
    - unfold stage_wf in Hwf. rewrite Hrc in Hwf. destruct (sg_ops sg) as [|o r] eqn:Eo; [|discriminate].
      unfold remove_cutoff, uinv, pending, u_cells. cbn [u_base u_ops u_g u_low u_cutoff u_sepov bcells merge_ops].
      split; [split; [apply all_ins_wf; exact Hins|split; [exact Hg|unfold u_cells in Hlow; lia]]|].
      split; [reflexivity|]. split; [reflexivity|]. split; [reflexivity|].
      split; [unfold u_cells in Hlow; rewrite Hlow; apply skipn_all|].
      split; [discriminate|reflexivity].
    - unfold reset_base, uinv, pending, u_cells. cbn [u_base u_ops u_g u_low u_cutoff u_sepov skipn].
      split; [split; [apply all_ins_wf; exact Hins|split; [|lia]]|].
      + rewrite Hg. unfold pending. f_equal. apply all_ins_flat. exact Hins.
      + split; [apply all_ins_flat; exact Hins|]. split; [reflexivity|]. split; [reflexivity|].
        split; [reflexivity|]. split; [reflexivity|discriminate]. }
  destruct Hus as (Hius & Hpus & Hsus & Hcus & HMus & Hbus & Hrcus).
  (* the operations are ingested *)
  destruct (ingest_all_spec (sg_ops sg) us Hius) as (Hiui & (Hbui & Hcui & Hsui) & Hpui).
  set (ui := ingest_all us (sg_ops sg)) in *. cbn zeta in Hpui.
  rewrite HMus, Hpus in Hpui.
  assert (Hcells : u_cells ui = u_cells us) by (unfold u_cells; rewrite Hbui; reflexivity).
  rewrite <- Hcells in Hpui.
  set (C := pending u ++ stageM sg) in *.
  assert (Hcross : forall x y, In x (pending u) -> In y (stageM sg) -> klt (c_key x) (c_key y)).
  { intros x y Hx Hy. apply Hseen; [apply HkM; exact Hy|]. apply Hpk. apply In_keys. exact Hx. }
  assert (HaC : asc C) by (apply asc_app; auto).
  assert (HcC : Forall cell_okP C) by (apply Forall_app; auto).
  split; [exact Hiui|]. split; [exact Hpui|]. split; [exact HaC|]. split; [exact HcC|].
  split.
  { intros HCne. rewrite Hsui, Hsus, Hbui.
    destruct (u_ops u) as [|o0 r0] eqn:Eops.
    - rewrite (Hsn eq_refl). assert (Hpn : pending u = []) by (unfold pending; rewrite Eops; reflexivity).
      unfold C in *. rewrite Hpn in *. cbn [app] in *.
      destruct (sg_rc sg) eqn:Hrc; [exfalso; apply HCne; apply Hrcus; reflexivity|].
      rewrite (Hbus eq_refl).
      destruct (stage_wf_facts seen sg Hwf Hrc) as (_ & _ & _ & _ & Hb).
      cbn [separator_of]. destruct (sg_base sg) as [b|].
      + destruct Hb as (_ & H1 & H2). split.
        * intros k Hk. apply H2. apply Hlf. exact Hk.
        * intros c Hc. apply H1. apply HkM. exact Hc.
      + destruct Hb as [-> _]. split.
        * intros k Hk. destruct (Hlf k Hk).
        * intros c Hc. apply kle_zero. rewrite Forall_forall in HcM. apply HcM. exact Hc.
    - destruct (Hss ltac:(discriminate)) as (s & Hs & [Hs1 Hs2]). rewrite Hs. cbn [separator_of].
      split; [exact Hs1|]. intros c Hc. unfold C in Hc. apply in_app_or in Hc. destruct Hc as [Hc|Hc].
      + apply Hs2. exact Hc.
      + assert (Hpne : pending u <> []).
        { apply ops_wf_flat_nonempty; [apply all_ins_wf; rewrite Eops; exact Hins|rewrite Eops; discriminate]. }
        destruct (pending u) as [|p0 pr] eqn:Ep; [contradiction|].
        eapply kle_trans; [apply Hs2; left; reflexivity|]. apply klt_kle. apply Hcross; [left; reflexivity|exact Hc]. }
  split; [rewrite Hcui; exact Hcus|].
  intros Hbn. rewrite Hcui, Hcus. rewrite Hbui in Hbn. unfold eff_cutoff.
  destruct (sg_rc sg) eqn:Hrc; [reflexivity|].
  rewrite (Hbus eq_refl) in Hbn.
  destruct (stage_wf_facts seen sg Hwf Hrc) as (_ & _ & _ & _ & Hb). rewrite Hbn in Hb. apply Hb.
Qed.

Lemma run_stage_spec : forall seen lf u sg leaves u' nm,
  stage_wf seen sg = true -> carry lf u ->
  incl lf seen -> incl (keys (pending u)) seen -> asc (pending u) -> Forall cell_okP (pending u) ->
  run_stage false u sg = Some (leaves, u', nm) ->
  cells_of leaves ++ pending u' = pending u ++ stageM sg
  /\ asc (pending u ++ stageM sg) /\ Forall cell_okP (pending u ++ stageM sg)
  /\ Forall leaf_ok leaves /\ stage_full sg leaves nm /\ seps_ok lf leaves
  /\ carry (lf ++ keys (cells_of leaves)) u'.
Proof.
  intros seen lf u sg leaves u' nm Hwf Hcarry Hlf Hpk Hpa Hpc H.
  destruct (stage_digest_pre seen lf u sg Hwf Hcarry Hlf Hpk Hpa Hpc) as (Hiui & Hpui & HaC & HcC & HsepC & Hcut & _).
  unfold run_stage in H.
  set (ui := ingest_all (stage_start u sg) (sg_ops sg)) in *.
  set (C := pending u ++ stageM sg) in *.
  pose proof (digest_spec ui lf leaves u' nm Hiui) as Hd. cbn zeta in Hd. rewrite Hpui in Hd.
  specialize (Hd HaC HcC HsepC H).
  destruct Hd as (Hcont & Hlo & Hfull & Hso & Hb' & Hc' & Hl' & Hi' & Hg' & Hnm).
  split; [exact Hcont|]. split; [exact HaC|]. split; [exact HcC|]. split; [exact Hlo|].
  split.
  { intros pre m post Hsplit. destruct (Hfull pre m post Hsplit) as [Hf|(Hf1 & Hf2 & Hf3)]; [left; exact Hf|].
    right. split; [exact Hf1|]. split; [|exact Hf3]. rewrite <- Hcut. exact Hf2. }
  split; [exact Hso|].
  assert (Hcells' : u_cells u' = u_cells ui) by (unfold u_cells; rewrite Hb'; reflexivity).
  unfold carry. split; [exact Hi'|]. split; [exact Hg'|]. split; [rewrite Hcells'; exact Hl'|].
  destruct nm as [k|].
  - destruct Hnm as (_ & Hpne & s & Hs & Hsok). split.
    + intros Hnil. exfalso. apply Hpne. unfold pending. rewrite Hnil. reflexivity.
    + intros _. exists s. split; assumption.
  - destruct Hnm as [Ho Hs]. split; [intros _; exact Hs|]. intros Hne. contradiction.
Qed.

Lemma all_built_cons : forall r rest, all_built (r :: rest) = sr_built r ++ all_built rest.
Proof. reflexivity. Qed.

Lemma run_stages_spec : forall sgs seen lf u res u',
  stages_wf_from seen sgs = true -> carry lf u ->
  incl lf seen -> incl (keys (pending u)) seen -> asc (pending u) -> Forall cell_okP (pending u) ->
  run_stages false u sgs = Some (res, u') ->
  cells_of (all_built res) ++ pending u' = pending u ++ flat_map stageM sgs
  /\ Forall leaf_ok (all_built res)
  /\ Forall2 (fun sg r => stage_full sg (sr_built r) (sr_merge r)) sgs res
  /\ seps_ok lf (all_built res)
  /\ carry (lf ++ keys (cells_of (all_built res))) u'.
Proof.
  induction sgs as [|sg r IH]; intros seen lf u res u' Hwf Hc Hlf Hpk Hpa Hpc H.
  - cbn [run_stages] in H. inversion H; subst res u'. cbn [all_built flat_map cells_of app keys map].
    rewrite !app_nil_r. split; [reflexivity|]. split; [constructor|]. split; [constructor|]. split; [exact I|exact Hc].
  - cbn [run_stages] in H. cbn [stages_wf_from] in Hwf. apply andb_true_iff in Hwf. destruct Hwf as [Hwf1 Hwf2].
    destruct (run_stage false u sg) as [[[leaves u1] nm]|] eqn:E1; [|discriminate].
    destruct (run_stages false u1 r) as [[rest u2]|] eqn:E2; [|discriminate].
    inversion H; subst res u'. clear H.
    destruct (run_stage_spec seen lf u sg leaves u1 nm Hwf1 Hc Hlf Hpk Hpa Hpc E1)
      as (Hcont & HaC & HcC & Hlo & Hfull & Hso & Hc1).
    destruct (stageM_spec seen sg Hwf1) as (_ & _ & HkM & _ & _).
    assert (Hsub : forall c, In c (cells_of leaves ++ pending u1) -> In (c_key c) (seen ++ stage_keys sg)).
    { intros c Hin. rewrite Hcont in Hin. apply in_or_app. apply in_app_or in Hin. destruct Hin as [Hin|Hin].
      - left. apply Hpk. apply In_keys. exact Hin.
      - right. apply HkM. exact Hin. }
    rewrite <- Hcont in HaC, HcC.
    apply asc_app in HaC. destruct HaC as (_ & HaP & _).
    apply Forall_app in HcC. destruct HcC as [_ HcP].
    destruct (IH (seen ++ stage_keys sg) (lf ++ keys (cells_of leaves)) u1 rest u2 Hwf2 Hc1) as (Hcont2 & Hlo2 & Hf2 & Hso2 & Hc2);
      try assumption.
    { intros k Hk. apply in_app_or in Hk. destruct Hk as [Hk|Hk].
      - apply in_or_app. left. apply Hlf. exact Hk.
      - unfold keys in Hk. apply in_map_iff in Hk. destruct Hk as (c & <- & Hc'). apply Hsub. apply in_or_app. left. exact Hc'. }
    { intros k Hk. unfold keys in Hk. apply in_map_iff in Hk. destruct Hk as (c & <- & Hc'). apply Hsub. apply in_or_app. right. exact Hc'. }
    rewrite all_built_cons. cbn [sr_built flat_map].
    split.
    { rewrite cells_of_app, <- app_assoc, Hcont2, app_assoc, Hcont, <- app_assoc. reflexivity. }
    split; [apply Forall_app; split; assumption|].
    split; [constructor; [cbn [sr_built sr_merge]; exact Hfull|exact Hf2]|].
    split; [apply seps_ok_app; split; assumption|].
    rewrite cells_of_app, keys_app, app_assoc. exact Hc2.
Qed.

Lemma stages_merge_spec : forall sgs seen,
  stages_wf_from seen sgs = true ->
  asc (flat_map stageM sgs)
  /\ (forall k k', In k (flat_map stage_keys sgs) -> In k' seen -> klt k' k)
  /\ (forall c, In c (flat_map stageM sgs) -> In (c_key c) (flat_map stage_keys sgs))
  /\ (forall c, In c (flat_map stageM sgs) <->
                In (c_key c, Some (c_size c, c_id c)) (all_ops sgs)
                \/ (In c (all_base sgs) /\ ~ In (c_key c) (ops_keys (all_ops sgs)))).
Proof.
  induction sgs as [|sg r IH]; intros seen Hwf.
  - cbn [flat_map all_ops all_base ops_keys map]. split; [apply asc_nil|]. split; [intros k k' []|].
    split; [intros c []|]. intros c. split; [intros []|]. intros [[]|[[] _]].
  - cbn [stages_wf_from] in Hwf. apply andb_true_iff in Hwf. destruct Hwf as [Hwf1 Hwf2].
    destruct (stageM_spec seen sg Hwf1) as (HaM & _ & HkM & HinM & Hseen).
    destruct (IH (seen ++ stage_keys sg) Hwf2) as (HaR & HseenR & HkR & HinR).
    assert (Hopk : forall k, In k (ops_keys (sg_ops sg)) -> In k (stage_keys sg)).
    { intros k Hk. unfold stage_keys. apply in_or_app. right. exact Hk. }
    assert (HopkR : forall k, In k (ops_keys (all_ops r)) -> In k (flat_map stage_keys r)).
    { clear. induction r as [|sg r IH]; intros k Hk; [destruct Hk|].
      cbn [all_ops flat_map ops_keys] in *. unfold ops_keys in Hk. rewrite map_app in Hk.
      apply in_or_app. apply in_app_or in Hk. destruct Hk as [Hk|Hk].
      - left. unfold stage_keys. apply in_or_app. right. exact Hk.
      - right. apply IH. exact Hk. }
    assert (HbaseR : forall c, In c (all_base r) -> In (c_key c) (flat_map stage_keys r)).
    { clear. induction r as [|sg r IH]; intros c Hc; [destruct Hc|].
      cbn [all_base flat_map] in *. apply in_or_app. apply in_app_or in Hc. destruct Hc as [Hc|Hc].
      - left. unfold stage_keys. apply in_or_app. left. apply in_map. exact Hc.
      - right. apply IH. exact Hc. }
    cbn [flat_map all_ops all_base]. unfold ops_keys. rewrite map_app. fold (ops_keys (sg_ops sg)) (ops_keys (all_ops r)).
    split.
    { apply asc_app. split; [exact HaM|]. split; [exact HaR|]. intros x y Hx Hy.
      apply HseenR; [apply HkR; exact Hy|]. apply in_or_app. right. apply HkM. exact Hx. }
    split.
    { intros k k' Hk Hk'. apply in_app_or in Hk. destruct Hk as [Hk|Hk].
      - apply Hseen; assumption.
      - apply HseenR; [exact Hk|]. apply in_or_app. left. exact Hk'. }
    split.
    { intros c Hc. apply in_or_app. apply in_app_or in Hc. destruct Hc as [Hc|Hc]; [left; apply HkM|right; apply HkR]; exact Hc. }
    intros c. rewrite !in_app_iff, HinM, HinR. split.
    + intros [[H|[H1 H2]]|[H|[H1 H2]]].
      * left. left. exact H.
      * right. split; [left; exact H1|]. intros [Hx|Hx]; [contradiction|].
        apply (klt_irrefl (c_key c)). apply HseenR; [apply HopkR; exact Hx|].
        apply in_or_app. right. unfold stage_keys. apply in_or_app. left. apply in_map. exact H1.
      * left. right. exact H.
      * right. split; [right; exact H1|]. intros [Hx|Hx]; [|contradiction].
        apply (klt_irrefl (c_key c)). apply HseenR; [apply HbaseR; exact H1|].
        apply in_or_app. right. apply Hopk. exact Hx.
    + intros [[H|H]|[[H1|H1] H2]].
      * left. left. exact H.
      * right. left. exact H.
      * left. right. split; [exact H1|]. intros Hx. apply H2. left. exact Hx.
      * right. right. split; [exact H1|]. intros Hx. apply H2. right. exact Hx.
Qed.

Lemma carry_u0 : carry [] u0.
Proof.
  unfold carry, u0, pending, u_cells. cbn. split; [constructor|]. split; [reflexivity|]. split; [reflexivity|].
  split; [reflexivity|]. intros H. contradiction.
Qed.

(* ------------------------------------------------------------------------------------------- *)
(* 9. the theorems                                                                               *)

(* the cells of the emitted leaves, in the order the leaves were emitted, then the cells carried over *)
Definition run_cells (res : list sres) (u : updater) : list cell := cells_of (all_built res) ++ pending u.

Lemma run_from_u0 : forall sgs res u',
  stages_wf sgs = true -> run_stages false u0 sgs = Some (res, u') ->
  run_cells res u' = flat_map stageM sgs
  /\ Forall leaf_ok (all_built res)
  /\ Forall2 (fun sg r => stage_full sg (sr_built r) (sr_merge r)) sgs res
  /\ seps_ok [] (all_built res)
  /\ carry (keys (cells_of (all_built res))) u'.
Proof.
  intros sgs res u' Hwf H.
  destruct (run_stages_spec sgs [] [] u0 res u' Hwf carry_u0) as (H1 & H2 & H3 & H4 & H5); auto.
  - intros k [].
  - intros k [].
  - apply asc_nil.
  - constructor.
Qed.

(* C01 (leaf updater), content: the emitted cells followed by the cells carried over are strictly
   ascending (every key once) and hold exactly: the cell an operation put under its key, and the cells
   of the bases whose key no operation touched *)
Theorem leaves_content : forall sgs res u',
  stages_wf sgs = true -> run_stages false u0 sgs = Some (res, u') ->
  sorted_keys (map c_key (run_cells res u')) = true
  /\ forall c, In c (run_cells res u') <->
       In (c_key c, Some (c_size c, c_id c)) (all_ops sgs)
       \/ (In c (all_base sgs) /\ forall v, ~ In (c_key c, v) (all_ops sgs)).
Proof.
  intros sgs res u' Hwf H.
  destruct (run_from_u0 sgs res u' Hwf H) as (Hrun & _).
  destruct (stages_merge_spec sgs [] Hwf) as (Ha & _ & _ & Hin).
  rewrite Hrun. split; [apply kasc_sorted_keys; exact Ha|].
  intros c. rewrite Hin. split.
  - intros [Hl|[H1 H2]]; [left; exact Hl|]. right. split; [exact H1|].
    intros v Hv. apply H2. unfold ops_keys. apply in_map_iff. eexists. split; [|exact Hv]. reflexivity.
  - intros [Hl|[H1 H2]]; [left; exact Hl|]. right. split; [exact H1|].
    intros Hk. unfold ops_keys in Hk. apply in_map_iff in Hk. destruct Hk as ([k v] & Hkv & Hv). cbn [fst] in Hkv. subst k.
    apply (H2 v). exact Hv.
Qed.

(* C01 (leaf updater), sizes: every emitted leaf holds at least one cell, its body (34 bytes per cell
   plus the value bytes) is at most LEAF_NODE_BODY_SIZE and is what the gauge that decided to build it
   said, and LeafBuilder was created for exactly its cell count and value bytes *)
Theorem leaves_fit : forall sgs res u',
  stages_wf sgs = true -> run_stages false u0 sgs = Some (res, u') ->
  forall m, In m (all_built res) ->
    bl_cells m <> []
    /\ body_of (bl_cells m) <= BODY
    /\ bl_gauge m = body_of (bl_cells m)
    /\ bl_n m = length (bl_cells m) /\ bl_vs m = sizes (bl_cells m).
Proof.
  intros sgs res u' Hwf H m Hm.
  destruct (run_from_u0 sgs res u' Hwf H) as (_ & Hlo & _).
  rewrite Forall_forall in Hlo. destruct (Hlo m Hm) as (H1 & H2 & H3 & H4 & H5). auto.
Qed.

(* C01 (leaf updater), half-full: the only leaf below LEAF_MERGE_THRESHOLD is the last leaf of a
   digest that runs without a cutoff (the rightmost leaf of the tree) and returns Finished *)
Theorem leaves_not_underfull : forall sgs res u',
  stages_wf sgs = true -> run_stages false u0 sgs = Some (res, u') ->
  Forall2 (fun sg r =>
             forall pre m post, sr_built r = pre ++ m :: post ->
               MERGE <= body_of (bl_cells m)
               \/ (post = [] /\ eff_cutoff sg = None /\ sr_merge r = None)) sgs res.
Proof.
  intros sgs res u' Hwf H.
  destruct (run_from_u0 sgs res u' Hwf H) as (_ & _ & Hf & _). exact Hf.
Qed.

(* C01 (leaf updater), separators: a leaf's separator is not above any of its keys (in particular its
   first key) and is above every key of the leaves emitted before it; the separator override left with
   the cells carried over separates them from everything emitted *)
Theorem separators_ok : forall sgs res u',
  stages_wf sgs = true -> run_stages false u0 sgs = Some (res, u') ->
  (forall pre m post, all_built res = pre ++ m :: post ->
     (forall c, In c (bl_cells m) -> key_leb (bl_sep m) (c_key c) = true)
     /\ (forall c, In c (cells_of pre) -> key_ltb (c_key c) (bl_sep m) = true))
  /\ (pending u' <> [] ->
      exists s, u_sepov u' = Some s
        /\ (forall c, In c (pending u') -> key_leb s (c_key c) = true)
        /\ (forall c, In c (cells_of (all_built res)) -> key_ltb (c_key c) s = true)).
Proof.
  intros sgs res u' Hwf H.
  destruct (run_from_u0 sgs res u' Hwf H) as (_ & _ & _ & Hso & Hc).
  split.
  - intros pre m post Hsplit. rewrite Hsplit in Hso. apply seps_ok_app in Hso. destruct Hso as [_ Hso].
    cbn [seps_ok app] in Hso. destruct Hso as (_ & [H1 H2] & _). split.
    + intros c Hin. unfold key_leb. apply negb_true_iff. apply H2. exact Hin.
    + intros c Hin. apply H1. apply In_keys. exact Hin.
  - intros Hne. destruct Hc as (_ & _ & _ & _ & Hs).
    assert (Hone : u_ops u' <> []) by (intros Hx; apply Hne; unfold pending; rewrite Hx; reflexivity).
    destruct (Hs Hone) as (s & Hs1 & [H1 H2]). exists s. split; [exact Hs1|]. split.
    + intros c Hin. unfold key_leb. apply negb_true_iff. apply H2. exact Hin.
    + intros c Hin. apply H1. apply In_keys. exact Hin.
Qed.

(* the theorem has teeth: with the seeded off-by-one of the split point (the overfull test looks at the
   gauge before the item is added, LeafBuild.chk_after) a well-formed stage - six insertions into the
   empty tree, the unit test split_left_node_below_target - yields a leaf of 4336 > 4094 bytes *)
Definition rf_stage : stage :=
  mkStage None false
    [(kx 1, Some (1100, 1)); (kx 2, Some (1100, 2)); (kx 3, Some (1000, 3)); (kx 4, Some (1000, 4));
     (kx 5, Some (1000, 5)); (kx 6, Some (1300, 6))] None.

Theorem leaves_fit_refuted :
  stages_wf [rf_stage] = true
  /\ exists res u' m,
       run_stages true u0 [rf_stage] = Some (res, u')
       /\ In m (all_built res)
       /\ map c_id (bl_cells m) = [1; 2; 3; 4] /\ bl_gauge m = 4336 /\ body_of (bl_cells m) = 4336
       /\ BODY < body_of (bl_cells m).
Proof.
  split; [vm_compute; reflexivity|].
  destruct (run_stages true u0 [rf_stage]) as [[res u']|] eqn:E; [|vm_compute in E; discriminate].
  vm_compute in E. inversion E; subst res u'. clear E.
  eexists; eexists; eexists. split; [reflexivity|]. split; [left; reflexivity|].
  vm_compute. repeat split; reflexivity.
Qed.

(* the real split point on the same stage: 3302 and 3402 bytes *)
Example rf_stage_real :
  match run_stages false u0 [rf_stage] with
  | Some ([r], _) => map (fun m => (map c_id (bl_cells m), body_of (bl_cells m))) (sr_built r)
  | _ => []
  end = [([1; 2; 3], 3302); ([4; 5; 6], 3402)].
Proof. vm_compute. reflexivity. Qed.

(* ------------------------------------------------------------------------------------------- *)
(* 10. the separator a digest starts with                                                        *)

Lemma tbl_loop_extends : forall fuel bug ob cutoff sepov first ops target acc acc' ops' g' so',
  tbl_loop fuel bug ob cutoff sepov first ops target acc = Some (acc', ops', g', so') ->
  exists new, acc' = acc ++ new.
Proof.
  induction fuel as [|fuel IH]; intros bug ob cutoff sepov first ops target acc acc' ops' g' so' H; [discriminate|].
  cbn [tbl_loop] in H.
  destruct (consume bug (bcells ob) ops target) as [done g rest|opsn gn|]; [| |discriminate].
  - destruct (if first then _ else _) as [[sep sepov1]|]; [|discriminate].
    destruct (build_leaf (bcells ob) done) as [[[n vs] cells]|]; [|discriminate].
    match type of H with match ?X with _ => _ end = _ => destruct X as [sepov2|]; [|discriminate] end.
    destruct done as [|d0 dr]; [discriminate|].
    apply IH in H. destruct H as (new & ->). eexists. rewrite <- app_assoc. reflexivity.
  - inversion H; subst. exists []. symmetry. apply app_nil_r.
Qed.

Lemma tbl_loop_first_sep : forall fuel bug ob cutoff sepov ops target acc acc' ops' g' so',
  tbl_loop fuel bug ob cutoff sepov true ops target acc = Some (acc', ops', g', so') ->
  exists new, acc' = acc ++ new
    /\ match new with m :: _ => bl_sep m = separator_of sepov ob | [] => so' = sepov end.
Proof.
  intros fuel bug ob cutoff sepov ops target acc acc' ops' g' so' H.
  destruct fuel as [|fuel]; [discriminate|]. cbn [tbl_loop] in H.
  destruct (consume bug (bcells ob) ops target) as [done g rest|opsn gn|]; [| |discriminate].
  - destruct (build_leaf (bcells ob) done) as [[[n vs] cells]|]; [|discriminate].
    match type of H with match ?X with _ => _ end = _ => destruct X as [sepov2|]; [|discriminate] end.
    destruct done as [|d0 dr]; [discriminate|].
    apply tbl_loop_extends in H. destruct H as (new & ->). eexists. rewrite <- app_assoc. split; reflexivity.
  - inversion H; subst. exists []. split; [symmetry; apply app_nil_r|reflexivity].
Qed.

Lemma keep_up_to_end_frame : forall u,
  u_base (keep_up_to_end u) = u_base u /\ u_sepov (keep_up_to_end u) = u_sepov u.
Proof.
  intros u. unfold keep_up_to_end. destruct (u_base u) as [b|] eqn:Eb; [|rewrite Eb; split; reflexivity].
  destruct (u_low u =? length (b_cells b))%nat; [rewrite Eb; split; reflexivity|].
  unfold push_keep. destruct (u_low u =? length (b_cells b))%nat; cbn [u_base u_sepov]; rewrite Eb; split; reflexivity.
Qed.

(* the first leaf a digest hands over carries the separator the updater held when the digest began:
   the override of an earlier merge or split, else the base's separator, else the all-zero key *)
Theorem digest_first_separator : forall bug u leaves u' nm,
  digest bug u = Some (leaves, u', nm) ->
  match leaves with
  | m :: _ => bl_sep m = separator_of (u_sepov u) (u_base u)
  | [] => True
  end.
Proof.
  intros bug u leaves u' nm H. unfold digest in H.
  destruct (keep_up_to_end_frame u) as [Hb Hs].
  set (u1 := keep_up_to_end u) in *. rewrite Hb, Hs in H.
  set (S0 := separator_of (u_sepov u) (u_base u)).
  set (P := fun (l : list built) (so : option key) =>
              match l with m :: _ => bl_sep m = S0 | [] => so = u_sepov u end).
  match type of H with match ?X with _ => _ end = _ => destruct X as [[[[l1 ops1] g1] so1]|] eqn:E1; [|discriminate] end.
  assert (H1 : P l1 so1).
  { destruct (BULK_THRESHOLD <? g_body (u_g u1)).
    - unfold try_build_leaves in E1. apply tbl_loop_first_sep in E1. destruct E1 as (new & -> & Hn).
      cbn [app]. unfold P. destruct new; exact Hn.
    - inversion E1; subst. reflexivity. }
  match type of H with match ?X with _ => _ end = _ => destruct X as [[[[l2 ops2] g2] so2]|] eqn:E2; [|discriminate] end.
  assert (H2 : P l2 so2).
  { destruct (BODY <? g_body g1).
    - unfold try_build_leaves in E2. apply tbl_loop_first_sep in E2. destruct E2 as (new & -> & Hn).
      unfold P in *. destruct l1 as [|m1 r1]; cbn [app]; [|exact H1]. subst so1. destruct new; exact Hn.
    - inversion E2; subst. exact H1. }
  unfold P in H2.
  destruct (g_body g2 =? 0); [inversion H; subst leaves u' nm; destruct l2; [exact I|exact H2]|].
  destruct (_ || _).
  - destruct (build_leaf _ ops2) as [[[n vs] cells]|]; [|discriminate]. inversion H; subst leaves u' nm.
    destruct l2 as [|m2 r2]; cbn [app]; [|exact H2]. cbn [bl_sep]. subst so2. reflexivity.
  - match type of H with match ?X with _ => _ end = _ => destruct X as [s|]; [|discriminate] end.
    inversion H; subst leaves u' nm. destruct l2; [exact I|exact H2].
Qed.

(* the first leaf of the tree gets the all-zero separator *)
Theorem first_leaf_zero_separator : forall ops cutoff m rest u' nm,
  run_stage false u0 (mkStage None false ops cutoff) = Some (m :: rest, u', nm) ->
  bl_sep m = zero_key.
Proof.
  intros ops cutoff m rest u' nm H. unfold run_stage in H. cbn [sg_ops] in H.
  apply digest_first_separator in H. rewrite H.
  assert (Hi : uinv (stage_start u0 (mkStage None false ops cutoff))).
  { unfold uinv, stage_start, reset_base, u0, pending, u_cells. cbn. split; [constructor|]. split; [reflexivity|lia]. }
  destruct (ingest_all_spec ops _ Hi) as (_ & (Hb & _ & Hs) & _).
  rewrite Hb, Hs. reflexivity.
Qed.

(* ------------------------------------------------------------------------------------------- *)
(* 11. the run does not panic                                                                    *)

(* the fuel a call of the consume loop needs at most *)
Definition mu (todo : list lop) : nat :=
  match todo with
  | [] => 0
  | LIns _ :: r => 1 + 2 * ops_items r
  | LKeep f t _ :: r => 2 * (t - f) + 2 * ops_items r
  end%nat.

Lemma mu_le : forall todo, (mu todo <= 2 * ops_items todo)%nat.
Proof.
  intros [|[c|f t vs] r]; cbn [mu ops_items fold_right op_n]; [lia| |]; fold (ops_items r); lia.
Qed.

Lemma ops_items_app : forall a b, ops_items (a ++ b) = (ops_items a + ops_items b)%nat.
Proof.
  induction a as [|o a IH]; intros b; [reflexivity|].
  cbn [app ops_items fold_right]. fold (ops_items (a ++ b)) (ops_items a). rewrite IH. lia.
Qed.

Lemma cfinish_no_panic : forall done todo g target fb, cfinish done todo g target fb <> CPanic.
Proof. intros. unfold cfinish. destruct (_ || _); discriminate. Qed.

Lemma cloop_total : forall fuel cs done todo g target,
  ops_wf cs todo -> (mu todo < fuel)%nat -> cloop fuel false cs done todo g target <> CPanic.
Proof.
  induction fuel as [|fuel IH]; intros cs done todo g target Hw Hf; [lia|].
  cbn [cloop]. destruct todo as [|op rest]; [apply cfinish_no_panic|].
  destruct (target <=? g_body g); [apply cfinish_no_panic|].
  apply Forall_cons_iff in Hw. destruct Hw as [Hop Hrest].
  pose proof (mu_le rest) as Hmr.
  destruct op as [c|s e vs].
  - destruct (BODY <? chk_after false g 1 (c_size c)); [apply cfinish_no_panic|].
    apply IH; [exact Hrest|]. cbn [mu] in Hf. lia.
  - pose proof Hop as (Ho1 & Ho2 & Ho3). cbn [mu] in Hf.
    destruct (target <? g_after g (N.of_nat (e - s)) vs).
    + destruct (try_split false cs g s e vs target BODY) as [[ln lvs] repl] eqn:Ets.
      pose proof (try_split_spec cs g s e vs target BODY ln lvs repl Hop Ets)
        as (Hln & Hlvs & Hrw & Hrf & (op' & more & Hrepl & Hop') & _).
      destruct (ln =? 0)%nat eqn:Eln.
      * destruct (extract_first_spec cs s e vs Hop) as (Hew & _ & _).
        apply IH; [apply ops_wf_app; split; assumption|].
        unfold extract_first. destruct (s =? e - 1)%nat eqn:Ee; cbn [app mu].
        -- lia.
        -- apply Nat.eqb_neq in Ee. cbn [ops_items fold_right op_n]. fold (ops_items rest). lia.
      * apply Nat.eqb_neq in Eln. subst repl.
        apply Forall_cons_iff in Hrw. destruct Hrw as [_ Hw2].
        apply IH; [apply ops_wf_app; split; assumption|].
        pose proof (mu_le (more ++ rest)) as Hm. rewrite ops_items_app in Hm.
        unfold try_split in Ets. destruct (split_scan _ _ _ _ _ _ _ _ _) as [ln0 lvs0].
        destruct (negb (ln0 =? 0)%nat && negb (e - s =? ln0)%nat); inversion Ets; subst.
        -- cbn [ops_items fold_right op_n] in Hm. lia.
        -- cbn [ops_items fold_right] in Hm. lia.
    + apply IH; [exact Hrest|]. lia.
Qed.

Lemma consume_total : forall cs ops target,
  ops_wf cs ops -> MERGE <= target -> consume false cs ops target <> CPanic.
Proof.
  intros cs ops target Hw Ht. unfold consume.
  destruct (target <? MERGE) eqn:E; [apply N.ltb_lt in E; lia|].
  apply cloop_total; [exact Hw|]. pose proof (mu_le ops). unfold cfuel. lia.
Qed.

Lemma bpush_ops_total : forall cs ops n rem cells,
  ops_wf cs ops -> (length cells + ops_items ops <= n)%nat -> sizes (flat cs ops) <= rem ->
  exists bd, bpush_ops (mkB n rem cells) cs ops = Some bd /\ bd_rem bd = rem - sizes (flat cs ops).
Proof.
  intros cs ops. induction ops as [|o r IH]; intros n rem cells Hw Hn Hs.
  - exists (mkB n rem cells). split; [reflexivity|]. cbn [bd_rem flat flat_map]. rewrite sizes_nil. lia.
  - apply Forall_cons_iff in Hw. destruct Hw as [Ho Hr].
    cbn [ops_items fold_right] in Hn. fold (ops_items r) in Hn.
    rewrite flat_cons, sizes_app in Hs.
    destruct (op_cells_length cs o Ho) as [Hl Hsz].
    cbn [bpush_ops]. destruct o as [c|f t vs]; cbn [op_n op_vs op_cells] in *.
    + unfold bpush. cbn [bd_cells bd_n bd_rem].
      replace (length cells <? n)%nat with true by (symmetry; apply Nat.ltb_lt; lia).
      replace (c_size c <=? rem) with true by (symmetry; apply N.leb_le; lia). cbn [andb].
      destruct (IH n (rem - c_size c) (cells ++ [c]) Hr) as (bd & Hb & Hrem).
      * rewrite app_length. cbn [length]. lia.
      * lia.
      * exists bd. split; [exact Hb|]. rewrite Hrem, flat_cons, sizes_app. cbn [op_cells]. lia.
    + destruct Ho as (Ho1 & Ho2 & Ho3). unfold bpush_chunk. cbn [bd_cells bd_n bd_rem].
      replace (length cells <? n)%nat with true by (symmetry; apply Nat.ltb_lt; lia).
      replace (length cells + (t - f) <=? n)%nat with true by (symmetry; apply Nat.leb_le; lia).
      replace (t <=? length cs)%nat with true by (symmetry; apply Nat.leb_le; lia).
      replace (f <? t)%nat with true by (symmetry; apply Nat.ltb_lt; lia).
      replace (sizes (range cs f t) <=? rem) with true by (symmetry; apply N.leb_le; lia). cbn [andb].
      destruct (IH n (rem - sizes (range cs f t)) (cells ++ range cs f t) Hr) as (bd & Hb & Hrem).
      * rewrite app_length. lia.
      * lia.
      * exists bd. split; [exact Hb|]. rewrite Hrem, flat_cons, sizes_app. cbn [op_cells]. lia.
Qed.

Lemma build_leaf_total : forall cs ops, ops_wf cs ops -> build_leaf cs ops <> None.
Proof.
  intros cs ops Hw. unfold build_leaf. rewrite fold_op_n, fold_op_vs.
  destruct (ops_items_flat cs ops Hw) as [H1 H2]. cbn [Nat.add N.add].
  destruct (bpush_ops_total cs ops (ops_items ops) (sumN (map op_vs ops)) [] Hw) as (bd & Hb & Hrem).
  - cbn [length]. lia.
  - lia.
  - rewrite Hb. rewrite Hrem, H2, N.sub_diag. cbn. discriminate.
Qed.

Lemma consume_nil : forall cs target, MERGE <= target -> consume false cs [] target = CNone [] g0.
Proof.
  intros cs target Ht. unfold consume. destruct (target <? MERGE) eqn:E; [apply N.ltb_lt in E; lia|].
  cbn [cfuel ops_items fold_right Nat.mul Nat.add cloop]. unfold cfinish.
  replace (target <=? g_body g0) with false; [reflexivity|].
  symmetry. apply N.leb_gt. unfold MERGE in Ht. cbn. lia.
Qed.

Lemma tbl_loop_total : forall fuel ob cutoff target sepov (first : bool) ops acc,
  ops_wf (bcells ob) ops -> MERGE <= target -> target <= BODY ->
  asc (flat (bcells ob) ops) -> Forall cell_okP (flat (bcells ob) ops) ->
  (first = false -> ops <> [] -> sepov <> None) ->
  (length (flat (bcells ob) ops) < fuel)%nat ->
  tbl_loop fuel false ob cutoff sepov first ops target acc <> None.
Proof.
  induction fuel as [|fuel IH]; intros ob cutoff target sepov first ops acc Hw Hm Ht Hasc Hok Hsv Hf; [lia|].
  cbn [tbl_loop]. set (cs := bcells ob) in *.
  pose proof (consume_spec cs ops target Hw Ht) as Hc.
  pose proof (consume_total cs ops target Hw Hm) as Hnp.
  destruct (consume false cs ops target) as [done g rest|opsn gn|] eqn:Ec; [|discriminate|contradiction].
  cbn [cres_spec] in Hc. destruct Hc as (Hwd & Hwr & Hflat & Hg & Hbody & Hfull).
  (* something was consumed *)
  assert (Hdne : done <> []).
  { intros Hd. subst done. cbn [flat flat_map] in Hg, Hflat. subst g.
    rewrite g_body_gauge_of, body_of_nil in Hfull.
    destruct Hfull as [Hx|(c & rest' & Hr & Hx)]; [unfold MERGE in Hm; lia|].
    assert (Hin : In c (flat cs ops)) by (rewrite <- Hflat, Hr, flat_cons; left; reflexivity).
    rewrite Forall_forall in Hok. destruct (Hok c Hin) as [_ Hsz]. unfold BODY, MAXV in *. lia. }
  assert (Hone : ops <> []) by (intros Hx; subst ops; rewrite consume_nil in Ec by exact Hm; discriminate).
  destruct (if first then Some (separator_of sepov ob, sepov)
            else match sepov with Some s => Some (s, None) | None => None end) as [[sep sepov1]|] eqn:Esep.
  2:{ destruct first; [discriminate|]. destruct sepov; [discriminate|]. exfalso. apply (Hsv eq_refl Hone). reflexivity. }
  pose proof (build_leaf_total cs done Hwd) as Hbt.
  destruct (build_leaf cs done) as [[[n vs] cells]|] eqn:Eb; [|contradiction].
  destruct (build_leaf_spec cs done n vs cells Hwd Eb) as (Hcells & _ & _).
  assert (Hcne : cells <> []) by (rewrite Hcells; apply ops_wf_flat_nonempty; assumption).
  rewrite <- Hflat, <- Hcells in Hasc, Hok, Hf.
  (* the separator of the rest *)
  assert (Hs2 : exists sepov2,
             (match rest with
              | [] => Some sepov1
              | op :: _ =>
                  match cells with
                  | [] => None
                  | _ => match separate (c_key (last cells dcell)) (op_first_key cs op) with
                         | Result.Ok s => Some (Some s)
                         | _ => None
                         end
                  end
              end) = Some sepov2 /\ (rest <> [] -> sepov2 <> None)).
  { destruct rest as [|op rest'].
    - exists sepov1. split; [reflexivity|]. intros Hx. contradiction.
    - destruct cells as [|c0 ctl] eqn:Ecl; [contradiction|]. rewrite <- Ecl in *.
      apply Forall_cons_iff in Hwr. destruct Hwr as [Hwop _].
      destruct (op_first_key_head cs op rest' Hwop) as (c & tl & Hhd & Hfk). rewrite Hfk.
      pose proof (last_In cells Hcne) as Hlast.
      pose proof Hasc as Hasc'. apply asc_app in Hasc'. destruct Hasc' as (_ & _ & Hab).
      rewrite Forall_forall in Hok.
      destruct (separate_spec (c_key (last cells dcell)) (c_key c)) as (s & Hs & _).
      + apply Hok. apply in_or_app. left. exact Hlast.
      + apply Hok. apply in_or_app. right. rewrite Hhd. left. reflexivity.
      + apply Hab; [exact Hlast|]. rewrite Hhd. left. reflexivity.
      + rewrite Hs. exists (Some s). split; [reflexivity|]. intros _. discriminate. }
  destruct Hs2 as (sepov2 & -> & Hs2).
  destruct done as [|d0 dr] eqn:Edone; [contradiction|]. rewrite <- Edone in *.
  apply asc_app in Hasc. destruct Hasc as (_ & Hasc2 & _).
  apply Forall_app in Hok. destruct Hok as [_ Hok2].
  apply IH; try assumption.
  - intros _ Hr. apply Hs2. exact Hr.
  - change (bcells ob) with cs. rewrite app_length in Hf. destruct cells; [contradiction|]. cbn [length] in Hf. lia.
Qed.

Lemma phase_step_total : forall ob cutoff lf C l ops g so target,
  asc C -> Forall cell_okP C -> phase ob lf C l ops g so -> MERGE <= target -> target <= BODY ->
  try_build_leaves false ob cutoff so ops target l <> None.
Proof.
  intros ob cutoff lf C l ops g so target Hasc Hok (Hc & Hw & _) Hm Ht.
  unfold try_build_leaves. apply tbl_loop_total; try assumption.
  - rewrite <- Hc in Hasc. apply asc_app in Hasc. tauto.
  - rewrite <- Hc in Hok. eapply Forall_app_r. exact Hok.
  - discriminate.
  - destruct (ops_items_flat _ _ Hw) as [-> _]. lia.
Qed.

Lemma half_ge_merge : forall x, BODY < x -> MERGE <= x / 2.
Proof.
  intros x H. apply N.div_le_lower_bound; [discriminate|]. unfold BODY, MERGE in *. lia.
Qed.

Lemma digest_total : forall u lf,
  uinv u ->
  let C := pending u ++ skipn (u_low u) (u_cells u) in
  asc C -> Forall cell_okP C ->
  (C <> [] -> sep_ok lf (separator_of (u_sepov u) (u_base u)) C) ->
  (u_base u = None -> u_cutoff u = None) ->
  digest false u <> None.
Proof.
  intros u lf Hinv C Hasc Hok Hsep Hbc.
  destruct (keep_up_to_end_spec u Hinv) as (Hi1 & (Hb1 & Hc1 & Hs1) & Hlow1 & Hp1). cbn zeta in *.
  fold C in Hp1. unfold digest. set (u1 := keep_up_to_end u) in *.
  set (ob := u_base u1) in *. set (cutoff := u_cutoff u1) in *.
  destruct Hi1 as (Hw1 & Hg1 & _). unfold u_cells in Hw1. fold ob in Hw1.
  assert (Hpend1 : flat (bcells ob) (u_ops u1) = C) by exact Hp1.
  assert (Hph0 : phase ob lf C [] (u_ops u1) (u_g u1) (u_sepov u1)).
  { unfold phase. cbn [cells_of flat_map app]. split; [exact Hpend1|]. split; [exact Hw1|].
    split; [rewrite Hg1; reflexivity|]. split; [constructor|]. split; [constructor|]. split; [exact I|].
    intros Hne. cbn [keys map]. rewrite app_nil_r. rewrite Hpend1 in *. rewrite Hs1, Hb1. apply Hsep. exact Hne. }
  assert (Hbt : MERGE <= BULK_TARGET /\ BULK_TARGET <= BODY) by (split; vm_compute; discriminate).
  destruct Hbt as [Hbt1 Hbt2].
  pose proof (phase_step_total ob cutoff lf C [] (u_ops u1) (u_g u1) (u_sepov u1) BULK_TARGET Hasc Hok Hph0 Hbt1 Hbt2) as Ht1.
  match goal with |- match ?X with _ => _ end <> None => destruct X as [[[[l1 ops1] g1] so1]|] eqn:E1 end.
  2:{ destruct (BULK_THRESHOLD <? g_body (u_g u1)); [contradiction|discriminate]. }
  assert (Hph1 : phase ob lf C l1 ops1 g1 so1 /\ g_body g1 <= BULK_THRESHOLD).
  { destruct (BULK_THRESHOLD <? g_body (u_g u1)) eqn:Eb.
    - destruct (phase_step ob cutoff lf C [] (u_ops u1) (u_g u1) (u_sepov u1) BULK_TARGET l1 ops1 g1 so1 Hasc Hok Hph0 Hbt2 E1)
        as (Hp & Hlt & _).
      split; [exact Hp|]. unfold BULK_TARGET, BULK_THRESHOLD in *. lia.
    - inversion E1; subst l1 ops1 g1 so1. split; [exact Hph0|]. apply N.ltb_ge in Eb. exact Eb. }
  destruct Hph1 as [Hph1 Hg1b].
  match goal with |- match ?X with _ => _ end <> None => destruct X as [[[[l2 ops2] g2] so2]|] eqn:E2 end.
  2:{ destruct (BODY <? g_body g1) eqn:Eb; [|discriminate]. apply N.ltb_lt in Eb.
      exfalso. eapply phase_step_total; [exact Hasc|exact Hok|exact Hph1|apply half_ge_merge; exact Eb|apply half_le_body; exact Hg1b|exact E2]. }
  assert (Hph2 : phase ob lf C l2 ops2 g2 so2).
  { destruct (BODY <? g_body g1) eqn:Eb.
    - pose proof (half_le_body _ Hg1b) as Hhalf.
      destruct (phase_step ob cutoff lf C l1 ops1 g1 so1 (g_body g1 / 2) l2 ops2 g2 so2 Hasc Hok Hph1 Hhalf E2) as (Hp & _).
      exact Hp.
    - inversion E2; subst l2 ops2 g2 so2. exact Hph1. }
  destruct Hph2 as (_ & Hw2 & _).
  destruct (g_body g2 =? 0); [discriminate|].
  destruct (_ || _) eqn:Em.
  - pose proof (build_leaf_total (bcells ob) ops2 Hw2) as Hbl.
    destruct (build_leaf (bcells ob) ops2) as [[[n vs] cells]|]; [discriminate|contradiction].
  - apply orb_false_iff in Em. destruct Em as [_ Em].
    destruct so2 as [s|]; [discriminate|].
    destruct ob as [b|] eqn:Eob; [discriminate|].
    exfalso. symmetry in Hb1. specialize (Hbc Hb1). rewrite Hc1, Hbc in Em. discriminate.
Qed.

Lemma run_stage_total : forall seen lf u sg,
  stage_wf seen sg = true -> carry lf u ->
  incl lf seen -> incl (keys (pending u)) seen -> asc (pending u) -> Forall cell_okP (pending u) ->
  run_stage false u sg <> None.
Proof.
  intros seen lf u sg Hwf Hcarry Hlf Hpk Hpa Hpc.
  destruct (stage_digest_pre seen lf u sg Hwf Hcarry Hlf Hpk Hpa Hpc) as (Hiui & Hpui & HaC & HcC & HsepC & _ & Hbc).
  unfold run_stage.
  pose proof (digest_total (ingest_all (stage_start u sg) (sg_ops sg)) lf Hiui) as Hd. cbn zeta in Hd.
  rewrite Hpui in Hd. apply Hd; assumption.
Qed.

Lemma run_stages_total : forall sgs seen lf u,
  stages_wf_from seen sgs = true -> carry lf u ->
  incl lf seen -> incl (keys (pending u)) seen -> asc (pending u) -> Forall cell_okP (pending u) ->
  run_stages false u sgs <> None.
Proof.
  induction sgs as [|sg r IH]; intros seen lf u Hwf Hc Hlf Hpk Hpa Hpc; [discriminate|].
  cbn [run_stages]. cbn [stages_wf_from] in Hwf. apply andb_true_iff in Hwf. destruct Hwf as [Hwf1 Hwf2].
  pose proof (run_stage_total seen lf u sg Hwf1 Hc Hlf Hpk Hpa Hpc) as Ht.
  destruct (run_stage false u sg) as [[[leaves u1] nm]|] eqn:E1; [|contradiction].
  destruct (run_stage_spec seen lf u sg leaves u1 nm Hwf1 Hc Hlf Hpk Hpa Hpc E1)
    as (Hcont & HaC & HcC & _ & _ & _ & Hc1).
  destruct (stageM_spec seen sg Hwf1) as (_ & _ & HkM & _ & _).
  assert (Hsub : forall c, In c (cells_of leaves ++ pending u1) -> In (c_key c) (seen ++ stage_keys sg)).
  { intros c Hin. rewrite Hcont in Hin. apply in_or_app. apply in_app_or in Hin. destruct Hin as [Hin|Hin].
    - left. apply Hpk. apply In_keys. exact Hin.
    - right. apply HkM. exact Hin. }
  rewrite <- Hcont in HaC, HcC.
  apply asc_app in HaC. destruct HaC as (_ & HaP & _).
  apply Forall_app in HcC. destruct HcC as [_ HcP].
  pose proof (IH (seen ++ stage_keys sg) (lf ++ keys (cells_of leaves)) u1 Hwf2 Hc1) as Hn.
  destruct (run_stages false u1 r) as [[rest u2]|]; [discriminate|].
  exfalso. apply Hn; try assumption; try reflexivity.
  - intros k Hk. apply in_app_or in Hk. destruct Hk as [Hk|Hk].
    + apply in_or_app. left. apply Hlf. exact Hk.
    + unfold keys in Hk. apply in_map_iff in Hk. destruct Hk as (c & <- & Hc'). apply Hsub. apply in_or_app. left. exact Hc'.
  - intros k Hk. unfold keys in Hk. apply in_map_iff in Hk. destruct Hk as (c & <- & Hc'). apply Hsub. apply in_or_app. right. exact Hc'.
Qed.

(* C01 (leaf updater): on a well-formed sequence of stages the updater and the builder do not panic (no
   failed assertion, no unwrap of None, no slice out of bounds, no arithmetic underflow, separate() is
   never called on equal keys) and the loops end *)
Theorem run_total : forall sgs,
  stages_wf sgs = true -> exists res u', run_stages false u0 sgs = Some (res, u').
Proof.
  intros sgs Hwf.
  pose proof (run_stages_total sgs [] [] u0 Hwf carry_u0) as H.
  destruct (run_stages false u0 sgs) as [[res u']|].
  - exists res, u'. reflexivity.
  - exfalso. apply H; try reflexivity.
    + intros k [].
    + intros k [].
    + apply asc_nil.
    + constructor.
Qed.

(* ------------------------------------------------------------------------------------------- *)
(* 12. the page                                                                                  *)

From Nomt Require Image NodeCodec NodeCodec_proofs.

(* a leaf of the mirror within LEAF_NODE_BODY_SIZE is a leaf the page encoder NodeCodec.encode_leaf
   accepts (the asserts of LeafNode::cell_pointers / LeafBuilder): whatever entries carry the cells *)
Theorem built_leaf_fits_page : forall (cells : list cell) (es : list Image.entry),
  map (fun e => Image.lenN (NodeCodec.cell_of e)) es = map c_size cells ->
  body_of cells <= BODY ->
  NodeCodec.leaf_fits es = true.
Proof.
  intros cells es Hmap Hbody.
  assert (Hlen : length es = length cells).
  { rewrite <- (map_length (fun e => Image.lenN (NodeCodec.cell_of e)) es), Hmap. apply map_length. }
  assert (Hsz : Image.lenN (NodeCodec.cells es) = sizes cells).
  { unfold sizes. rewrite <- Hmap. clear. induction es as [|e es IH]; [reflexivity|].
    unfold NodeCodec.cells in *. cbn [flat_map map sumN]. rewrite NodeCodec_proofs.lenN_app, IH. reflexivity. }
  unfold NodeCodec.leaf_fits. rewrite Hsz, Image.lenN_length, Hlen.
  unfold body_of, body_size, BODY in Hbody. unfold Image.PAGE.
  apply andb_true_iff. split; [apply N.ltb_lt|apply N.leb_le]; lia.
Qed.
