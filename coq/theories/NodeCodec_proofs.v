(* NodeCodec_proofs: round trips of the page encoders of NodeCodec.v through the decoders of
   Image.v (property C16): what the builders write, the independent decoder reads back, whatever
   the regions contain that the builders leave undefined. *)
From Coq Require Import List Bool Arith NArith ZArith Lia.
From Nomt Require Overflow Overflow_proofs.
From Nomt Require Import Base Image FreeList_proofs NodeCodec.
Import ListNotations.
Local Open Scope N_scope.

Ltac Zify.zify_post_hook ::= Z.to_euclidean_division_equations.

(* ------------------------------------------------------------------------------------------- *)
(* A. lists                                                                                      *)

Lemma repeatN_length : forall {A} (a : A) n, length (repeatN a n) = n.
Proof. intros A a n. induction n as [|n IH]; cbn [repeatN length]; [reflexivity|]. rewrite IH. reflexivity. Qed.

Lemma zeros_length : forall n, length (zeros n) = n.
Proof. intros n. apply repeatN_length. Qed.

Lemma ones_length : forall n, length (ones n) = n.
Proof. intros n. apply repeatN_length. Qed.

Lemma lenN_app : forall {A} (a b : list A), lenN (a ++ b) = lenN a + lenN b.
Proof. intros A a b. rewrite !lenN_length, app_length. lia. Qed.

Lemma to_nat_lenN : forall {A} (l : list A), N.to_nat (lenN l) = length l.
Proof. intros A l. rewrite lenN_length. apply Nat2N.id. Qed.

Lemma skipn_exact : forall {A} (a b : list A) n, n = length a -> skipn n (a ++ b) = b.
Proof.
  intros A a b n ->. induction a as [|x a IH]; [reflexivity|]. cbn [length app skipn]. exact IH.
Qed.

Lemma firstn_exact : forall {A} (a b : list A) n, n = length a -> firstn n (a ++ b) = a.
Proof.
  intros A a b n ->. induction a as [|x a IH]; [reflexivity|]. cbn [length app firstn]. rewrite IH. reflexivity.
Qed.

Lemma dropN_exact : forall {A} (a b : list A) n, N.to_nat n = length a -> dropN n (a ++ b) = b.
Proof. intros A a b n H. rewrite dropN_skipn. apply skipn_exact. exact H. Qed.

Lemma split_exact_exact : forall {A} (a b : list A) n, N.to_nat n = length a ->
    split_exact n (a ++ b) = Some (a, b).
Proof.
  intros A a b n H. rewrite split_exact_spec by (rewrite app_length; lia).
  rewrite firstn_exact, skipn_exact by exact H. reflexivity.
Qed.

(* the workhorse: the slice [b] of [a ++ b ++ c] *)
Lemma sliceN_mid : forall {A} (a b c : list A) off len,
    N.to_nat off = length a -> N.to_nat len = length b -> sliceN off len (a ++ b ++ c) = Some b.
Proof.
  intros A a b c off len Ha Hb. unfold sliceN. rewrite dropN_exact by exact Ha.
  rewrite split_exact_exact by exact Hb. reflexivity.
Qed.

Lemma u16_mid : forall a x c off, N.to_nat off = length a -> x < 65536 ->
    u16 (a ++ le_bytes 2 x ++ c) off = Some x.
Proof.
  intros a x c off Ha Hx. unfold u16. rewrite sliceN_mid by (try exact Ha; rewrite le_bytes_length; reflexivity).
  cbn [option_map]. rewrite le_num_le_bytes; [reflexivity|]. exact Hx.
Qed.

Lemma u32_mid : forall a x c off, N.to_nat off = length a -> x < 2 ^ 32 ->
    u32 (a ++ le_bytes 4 x ++ c) off = Some x.
Proof.
  intros a x c off Ha Hx. unfold u32. rewrite sliceN_mid by (try exact Ha; rewrite le_bytes_length; reflexivity).
  cbn [option_map]. rewrite le_num_le_bytes; [reflexivity|]. exact Hx.
Qed.

Lemma u64_mid : forall a x c off, N.to_nat off = length a -> x < 2 ^ 64 ->
    u64 (a ++ le_bytes 8 x ++ c) off = Some x.
Proof.
  intros a x c off Ha Hx. unfold u64. rewrite sliceN_mid by (try exact Ha; rewrite le_bytes_length; reflexivity).
  cbn [option_map]. rewrite le_num_le_bytes; [reflexivity|]. exact Hx.
Qed.

Lemma u16_head : forall x c, x < 65536 -> u16 (le_bytes 2 x ++ c) 0 = Some x.
Proof. intros x c H. exact (u16_mid [] x c 0 eq_refl H). Qed.
Lemma u32_head : forall x c, x < 2 ^ 32 -> u32 (le_bytes 4 x ++ c) 0 = Some x.
Proof. intros x c H. exact (u32_mid [] x c 0 eq_refl H). Qed.
Lemma u64_head : forall x c, x < 2 ^ 64 -> u64 (le_bytes 8 x ++ c) 0 = Some x.
Proof. intros x c H. exact (u64_mid [] x c 0 eq_refl H). Qed.

Lemma sliceN_head : forall {A} (b c : list A) len, N.to_nat len = length b -> sliceN 0 len (b ++ c) = Some b.
Proof. intros A b c len H. exact (sliceN_mid [] b c 0 len eq_refl H). Qed.

Lemma flat_map_le2_length : forall items, length (flat_map (le_bytes 2) items) = (2 * length items)%nat.
Proof.
  induction items as [|x r IH]; [reflexivity|].
  cbn [flat_map length]. rewrite app_length, le_bytes_length, IH. lia.
Qed.

Lemma u16s_le_bytes : forall items,
    Forall (fun x => x < 65536) items -> u16s (flat_map (le_bytes 2) items) = items.
Proof.
  intros items H. induction H as [|x r Hx Hr IH]; [reflexivity|].
  cbn [flat_map]. change (le_bytes 2 x) with [x mod 256; (x / 256) mod 256].
  cbn [app u16s]. rewrite IH. f_equal.
  assert (E : le_num (le_bytes 2 x) = x) by (apply le_num_le_bytes; exact Hx).
  change (le_bytes 2 x) with [x mod 256; (x / 256) mod 256] in E.
  cbn [le_num] in E. lia.
Qed.

Lemma forallb_lt_Forall : forall b l, forallb (fun p => p <? b) l = true -> Forall (fun x => x < b) l.
Proof.
  intros b l H. apply Forall_forall. intros x Hx. rewrite forallb_forall in H. apply H in Hx.
  apply N.ltb_lt. exact Hx.
Qed.

(* ------------------------------------------------------------------------------------------- *)
(* B. bits and bytes                                                                             *)

Lemma bits_of_byte_pack : forall b7 b6 b5 b4 b3 b2 b1 b0,
    bits_of_byte (bitw b7 128 + bitw b6 64 + bitw b5 32 + bitw b4 16 + bitw b3 8 + bitw b2 4
                  + bitw b1 2 + bitw b0 1) = [b7; b6; b5; b4; b3; b2; b1; b0].
Proof. intros [] [] [] [] [] [] [] []; vm_compute; reflexivity. Qed.

Lemma bits_pack_k : forall k l, length l = (8 * k)%nat ->
    bits_of_bytes (pack_bits l) = l /\ length (pack_bits l) = k.
Proof.
  induction k as [|k IH]; intros l Hl.
  - destruct l; [split; reflexivity|cbn [length] in Hl; lia].
  - destruct l as [|b7 [|b6 [|b5 [|b4 [|b3 [|b2 [|b1 [|b0 r]]]]]]]]; cbn [length] in Hl; try lia.
    destruct (IH r ltac:(lia)) as [E1 E2].
    cbn [pack_bits bits_of_bytes length]. rewrite bits_of_byte_pack, E1, E2. split; reflexivity.
Qed.

Lemma bits_pack : forall k l, length l = (8 * k)%nat -> bits_of_bytes (pack_bits l) = l.
Proof. intros k l H. exact (proj1 (bits_pack_k k l H)). Qed.

Lemma pack_bits_length : forall k l, length l = (8 * k)%nat -> length (pack_bits l) = k.
Proof. intros k l H. exact (proj2 (bits_pack_k k l H)). Qed.

Lemma pad_len_spec : forall n, exists k, (n + pad_len n = 8 * k)%nat /\ (pad_len n < 8)%nat.
Proof.
  intros n. unfold pad_len. exists (N.to_nat ((N.of_nat n + 7) / 8)). lia.
Qed.

Lemma all_false_repeat : forall l, all_false l = true -> l = repeatN false (length l).
Proof.
  induction l as [|b l IH]; intros H; [reflexivity|].
  cbn [all_false forallb] in H. apply andb_true_iff in H. destruct H as [Hb Hl].
  destruct b; [discriminate|]. cbn [length repeatN]. f_equal. apply IH. exact Hl.
Qed.

Lemma is_prefix_firstn : forall p k, is_prefix p k = true -> firstn (length p) k = p.
Proof.
  induction p as [|x p IH]; intros k H; [reflexivity|].
  destruct k as [|y k]; [discriminate|]. cbn [is_prefix] in H.
  apply andb_true_iff in H. destruct H as [Hxy Hp].
  apply Bool.eqb_prop in Hxy. subst y. cbn [length firstn]. rewrite IH by exact Hp. reflexivity.
Qed.

(* ------------------------------------------------------------------------------------------- *)
(* C. manifest                                                                                   *)

(* the decoder on 64 explicit bytes *)
Lemma decode_manifest_bytes : forall b0 b1 b2 b3 b4 b5 b6 b7 b8 b9 b10 b11 b12 b13 b14 b15 b16 b17 b18 b19 b20 b21 b22 b23 b24 b25 b26 b27 b28 b29 b30 b31 b32 b33 b34 b35 b36 b37 b38 b39 b40 b41 b42 b43 b44 b45 b46 b47 b48 b49 b50 b51 b52 b53 b54 b55 b56 b57 b58 b59 b60 b61 b62 b63 rest,
    decode_manifest (b0 :: b1 :: b2 :: b3 :: b4 :: b5 :: b6 :: b7 :: b8 :: b9 :: b10 :: b11 :: b12 :: b13 :: b14 :: b15 :: b16 :: b17 :: b18 :: b19 :: b20 :: b21 :: b22 :: b23 :: b24 :: b25 :: b26 :: b27 :: b28 :: b29 :: b30 :: b31 :: b32 :: b33 :: b34 :: b35 :: b36 :: b37 :: b38 :: b39 :: b40 :: b41 :: b42 :: b43 :: b44 :: b45 :: b46 :: b47 :: b48 :: b49 :: b50 :: b51 :: b52 :: b53 :: b54 :: b55 :: b56 :: b57 :: b58 :: b59 :: b60 :: b61 :: b62 :: b63 :: rest)
    = Ok (mkManifest (le_num [b0; b1; b2; b3]) (le_num [b4; b5; b6; b7]) (le_num [b8; b9; b10; b11])
            (le_num [b12; b13; b14; b15]) (le_num [b16; b17; b18; b19]) (le_num [b20; b21; b22; b23])
            (le_num [b24; b25; b26; b27]) (le_num [b28; b29; b30; b31])
            [b32; b33; b34; b35; b36; b37; b38; b39; b40; b41; b42; b43; b44; b45; b46; b47]
            (le_num [b48; b49; b50; b51; b52; b53; b54; b55]) (le_num [b56; b57; b58; b59; b60; b61; b62; b63])).
Proof. intros. reflexivity. Qed.

Lemma list16 : forall (l : list N), lenN l = 16 ->
    exists s0 s1 s2 s3 s4 s5 s6 s7 s8 s9 s10 s11 s12 s13 s14 s15,
      l = [s0; s1; s2; s3; s4; s5; s6; s7; s8; s9; s10; s11; s12; s13; s14; s15].
Proof.
  intros l H. rewrite lenN_length in H.
  do 16 (destruct l as [|? l]; [cbn [length] in H; lia|]).
  destruct l; [|cbn [length] in H; lia].
  repeat eexists.
Qed.

Theorem decode_encode_manifest_gen : forall tail m, manifest_fits m = true ->
    decode_manifest (encode_manifest_gen tail m) = Ok m.
Proof.
  intros tail [magic ver lnfl lnb bbnfl bbnb seqn np seed rs re] H.
  unfold manifest_fits in H. cbn [mf_magic mf_version mf_ln_freelist_pn mf_ln_bump mf_bbn_freelist_pn
    mf_bbn_bump mf_sync_seqn mf_bitbox_num_pages mf_bitbox_seed mf_rollback_start_live
    mf_rollback_end_live] in H.
  repeat (apply andb_true_iff in H; let H2 := fresh "H" in destruct H as [H H2]).
  repeat match goal with Hx : (_ <? _) = true |- _ => apply N.ltb_lt in Hx end.
  match goal with Hx : (lenN seed =? 16) = true |- _ => apply N.eqb_eq in Hx; apply list16 in Hx;
    destruct Hx as (s0 & s1 & s2 & s3 & s4 & s5 & s6 & s7 & s8 & s9 & s10 & s11 & s12 & s13 & s14 & s15 & ->) end.
  unfold encode_manifest_gen, manifest_prefix.
  cbn [mf_magic mf_version mf_ln_freelist_pn mf_ln_bump mf_bbn_freelist_pn
    mf_bbn_bump mf_sync_seqn mf_bitbox_num_pages mf_bitbox_seed mf_rollback_start_live
    mf_rollback_end_live le_bytes app].
  rewrite decode_manifest_bytes.
  f_equal. f_equal;
    match goal with
    | |- le_num _ = ?x =>
        first [ apply (le_num_le_bytes 4 x); assumption | apply (le_num_le_bytes 8 x); assumption ]
    end.
Qed.

Lemma manifest_prefix_length : forall m, manifest_fits m = true -> length (manifest_prefix m) = 64%nat.
Proof.
  intros m H. unfold manifest_fits in H.
  repeat (apply andb_true_iff in H; let H2 := fresh "H" in destruct H as [H H2]).
  match goal with Hx : (lenN _ =? 16) = true |- _ => apply N.eqb_eq in Hx; rewrite lenN_length in Hx end.
  unfold manifest_prefix. rewrite !app_length, !le_bytes_length. lia.
Qed.

Theorem decode_encode_manifest : forall m, manifest_fits m = true ->
    decode_manifest (encode_manifest m) = Ok m.
Proof. intros m H. apply decode_encode_manifest_gen. exact H. Qed.

Theorem encode_manifest_length : forall m, manifest_fits m = true ->
    length (encode_manifest m) = 4096%nat.
Proof.
  intros m H. unfold encode_manifest, encode_manifest_gen.
  rewrite app_length, manifest_prefix_length, zeros_length by exact H. reflexivity.
Qed.

(* ------------------------------------------------------------------------------------------- *)
(* D. overflow pages and chains                                                                  *)

Lemma ovf_prefix_length : forall pns bytes,
    length (ovf_prefix pns bytes) = N.to_nat (ovf_used pns bytes).
Proof.
  intros pns bytes. unfold ovf_prefix, ovf_used.
  rewrite !app_length, !le_bytes_length, flat_map_le4_length, !lenN_length. lia.
Qed.

Lemma ovf_page_fits_facts : forall pns bytes, ovf_page_fits pns bytes = true ->
    lenN pns <= 1023 /\ ovf_used pns bytes <= 4096 /\ Forall (fun x => x < 2 ^ 32) pns.
Proof.
  intros pns bytes H. unfold ovf_page_fits in H.
  apply andb_true_iff in H. destruct H as [H H3]. apply andb_true_iff in H. destruct H as [H1 H2].
  apply N.leb_le in H1. apply N.leb_le in H2. apply forallb_lt_Forall in H3.
  unfold MAX_PNS, PAGE in *. tauto.
Qed.

(* one page: the reader takes the page numbers and the bytes the encoder put there, whatever
   follows them *)
Lemma ovf_read_step : forall f rd pn q used val tot tail pns bytes,
    ovf_page_fits pns bytes = true ->
    length (encode_overflow_page_gen tail pns bytes) = 4096%nat ->
    rd pn = Some (encode_overflow_page_gen tail pns bytes) ->
    ovf_read (S f) rd (pn :: q) used val tot
    = ovf_read f rd (q ++ pns) (pn :: used) (bytes :: val) (tot + lenN bytes).
Proof.
  intros f rd pn q used val tot tail pns bytes Hfit Hlen Hrd.
  destruct (ovf_page_fits_facts _ _ Hfit) as [Hk [Hu Hp]].
  cbn [ovf_read]. rewrite Hrd, full_page_ok by exact Hlen. cbn [bind].
  unfold encode_overflow_page_gen, ovf_prefix in *. unfold ovf_used in Hu.
  set (k := lenN pns) in *. set (nb := lenN bytes) in *.
  set (fm := flat_map (le_bytes 4) pns).
  assert (Hfm : length fm = N.to_nat (4 * k)).
  { unfold fm, k. rewrite flat_map_le4_length, lenN_length. lia. }
  assert (Hnb : length bytes = N.to_nat nb) by (unfold nb; rewrite lenN_length; lia).
  rewrite <- !app_assoc.
  rewrite u16_head by lia. cbn [need bind].
  rewrite (u16_mid (le_bytes 2 k) nb) by (rewrite ?le_bytes_length; lia). cbn [need bind].
  unfold guard. replace (4 + 4 * k + nb <=? PAGE) with true by (symmetry; apply N.leb_le; unfold PAGE; lia).
  cbn [bind].
  replace (le_bytes 2 k ++ le_bytes 2 nb ++ fm ++ bytes ++ tail)
    with ((le_bytes 2 k ++ le_bytes 2 nb) ++ fm ++ bytes ++ tail) by (rewrite <- app_assoc; reflexivity).
  rewrite sliceN_mid by (rewrite ?app_length, ?le_bytes_length; lia). cbn [need bind].
  replace ((le_bytes 2 k ++ le_bytes 2 nb) ++ fm ++ bytes ++ tail)
    with ((le_bytes 2 k ++ le_bytes 2 nb ++ fm) ++ bytes ++ tail) by (rewrite <- !app_assoc; reflexivity).
  rewrite sliceN_mid by (rewrite ?app_length, ?le_bytes_length; lia). cbn [need bind].
  unfold fm. rewrite u32s_le_bytes by exact Hp. reflexivity.
Qed.

(* a page the reader [rd] serves: within the bounds chunk keeps, its defined prefix followed by
   anything up to 4096 bytes *)
Definition page_served (rd : N -> option (list N)) (p : opage) : Prop :=
  ovf_page_fits (op_pns p) (op_bytes p) = true /\
  exists tail, rd (op_pn p) = Some (encode_overflow_page_gen tail (op_pns p) (op_bytes p))
               /\ length (encode_overflow_page_gen tail (op_pns p) (op_bytes p)) = 4096%nat.

Lemma ovf_read_chain : forall rd pages queue used val tot rest,
    Forall (page_served rd) pages -> chain_rest queue pages = Some rest ->
    ovf_read (length pages) rd queue used val tot
    = Ok (rev used ++ map op_pn pages, rev val ++ map op_bytes pages, rest, true,
          tot + lenN (concat (map op_bytes pages))).
Proof.
  intros rd pages. induction pages as [|p ps IH]; intros queue used val tot rest Hs Hc.
  - cbn [chain_rest] in Hc. injection Hc as <-. cbn [length ovf_read map concat].
    rewrite !rev_append_rev, !app_nil_r. change (lenN (@nil N)) with 0. rewrite N.add_0_r. reflexivity.
  - inversion Hs as [|p0 ps0 Hp Hps]; subst. destruct Hp as [Hfit [tail [Hrd Hlen]]].
    cbn [chain_rest] in Hc. destruct queue as [|q qs]; [discriminate|].
    destruct (q =? op_pn p) eqn:Eq; [|discriminate]. apply N.eqb_eq in Eq. subst q.
    cbn [length]. rewrite (ovf_read_step _ _ _ _ _ _ _ tail (op_pns p) (op_bytes p)) by assumption.
    rewrite (IH _ _ _ _ rest Hps Hc). cbn [rev map concat].
    rewrite <- !app_assoc. cbn [app]. rewrite lenN_app, N.add_assoc. reflexivity.
Qed.

Lemma ovf_cell_fits_facts : forall o, ovf_cell_fits o = true ->
    o_size o <= MAX_OVERFLOW_VALUE_SIZE /\ length (o_hash o) = 32%nat /\ 1 <= lenN (o_cell_pages o)
    /\ Forall (fun x => x < 2 ^ 32) (o_cell_pages o).
Proof.
  intros o H. unfold ovf_cell_fits in H.
  apply andb_true_iff in H. destruct H as [H H4]. apply andb_true_iff in H. destruct H as [H H3].
  apply andb_true_iff in H. destruct H as [H1 H2].
  apply N.leb_le in H1. apply N.eqb_eq in H2. apply N.leb_le in H3. apply forallb_lt_Forall in H4.
  rewrite lenN_length in H2. repeat split; try assumption. lia.
Qed.

(* the overflow cell and its page chain: the value bytes in reading order, their number, and
   every page of the chain *)
Theorem decode_encode_overflow : forall rd lpn o pages rest,
    ovf_cell_fits o = true ->
    Forall (page_served rd) pages ->
    length pages = N.to_nat (total_needed_pages (o_size o)) ->
    chain_rest (o_cell_pages o) pages = Some rest ->
    decode_overflow rd lpn (ovf_cell o)
    = Ok (concat (map op_bytes pages), lenN (concat (map op_bytes pages)),
          mkOverflow (o_size o) (o_hash o) (o_cell_pages o) (map op_pn pages ++ rest) true).
Proof.
  intros rd lpn o pages rest Hfit Hs Hlen Hc.
  destruct (ovf_cell_fits_facts o Hfit) as [Hsz [Hh [Hc1 Hp]]].
  unfold decode_overflow, ovf_cell.
  set (fm := flat_map (le_bytes 4) (o_cell_pages o)).
  assert (Hfm : length fm = (4 * length (o_cell_pages o))%nat) by apply flat_map_le4_length.
  assert (Hl : lenN (le_bytes 8 (o_size o) ++ o_hash o ++ fm) = 40 + 4 * lenN (o_cell_pages o)).
  { rewrite !lenN_length, !app_length, le_bytes_length, Hh, Hfm. lia. }
  rewrite Hl. unfold guard.
  replace ((44 <=? 40 + 4 * lenN (o_cell_pages o)) && ((40 + 4 * lenN (o_cell_pages o)) mod 4 =? 0))
    with true.
  2:{ symmetry. apply andb_true_iff. split; [apply N.leb_le|apply N.eqb_eq]; lia. }
  cbn [bind].
  assert (Hsz64 : o_size o < 2 ^ 64).
  { unfold MAX_OVERFLOW_VALUE_SIZE in Hsz. assert (536870912 < 2 ^ 64) by (vm_compute; reflexivity). lia. }
  rewrite u64_head by exact Hsz64. cbn [need bind].
  replace (o_size o <=? MAX_OVERFLOW_VALUE_SIZE) with true by (symmetry; apply N.leb_le; exact Hsz).
  cbn [bind].
  rewrite sliceN_mid by (rewrite ?le_bytes_length, ?Hh; reflexivity). cbn [need bind].
  assert (Hcp : u32s (dropN 40 (le_bytes 8 (o_size o) ++ o_hash o ++ fm)) = o_cell_pages o).
  { replace (le_bytes 8 (o_size o) ++ o_hash o ++ fm) with ((le_bytes 8 (o_size o) ++ o_hash o) ++ fm)
      by (rewrite <- app_assoc; reflexivity).
    rewrite dropN_exact by (rewrite app_length, le_bytes_length, Hh; reflexivity).
    unfold fm. apply u32s_le_bytes. exact Hp. }
  rewrite !Hcp.
  rewrite <- Hlen. rewrite (ovf_read_chain rd pages _ [] [] 0 rest Hs Hc). cbn [bind rev app].
  rewrite N.add_0_l. reflexivity.
Qed.

Theorem encode_overflow_page_length : forall pns bytes, ovf_page_fits pns bytes = true ->
    length (encode_overflow_page pns bytes) = 4096%nat.
Proof.
  intros pns bytes H. destruct (ovf_page_fits_facts _ _ H) as [_ [Hu _]].
  unfold encode_overflow_page, encode_overflow_page_gen.
  rewrite app_length, ovf_prefix_length, zeros_length. unfold PAGE. lia.
Qed.

(* the plain encoder serves *)
Lemma page_served_encode : forall rd p,
    ovf_page_fits (op_pns p) (op_bytes p) = true ->
    rd (op_pn p) = Some (encode_overflow_page (op_pns p) (op_bytes p)) -> page_served rd p.
Proof.
  intros rd p Hfit Hrd. split; [exact Hfit|].
  exists (zeros (N.to_nat (PAGE - ovf_used (op_pns p) (op_bytes p)))). split; [exact Hrd|].
  apply (encode_overflow_page_length _ _ Hfit).
Qed.

(* ------------------------------------------------------------------------------------------- *)
(* E. leaves                                                                                     *)

(* what the decoder makes of the cell of [e]: an inline cell is the value; an overflow cell is
   decoded through its page chain (decode_encode_overflow discharges this for encoded chains) *)
Definition entry_decodes (rd : N -> option (list N)) (lpn : N) (e : entry) : Prop :=
  length (e_key e) = 256%nat /\
  match e_ovf e with
  | None => e_len e = lenN (e_val e)
  | Some o => decode_overflow rd lpn (ovf_cell o) = Ok (e_val e, e_len e, o)
  end.

Fixpoint ptrs_of (es : list entry) (off : N) : list (list N * N) :=
  match es with
  | [] => []
  | e :: r => (pack_bits (e_key e), cp_raw e off) :: ptrs_of r (off + lenN (cell_of e))
  end.

Lemma key_pack_length : forall k, length k = 256%nat -> length (pack_bits k) = 32%nat.
Proof. intros k H. apply pack_bits_length. rewrite H. reflexivity. Qed.

Lemma key_pack_bits : forall k, length k = 256%nat -> bits_of_bytes (pack_bits k) = k.
Proof. intros k H. apply (bits_pack 32). rewrite H. reflexivity. Qed.

Lemma entry_decodes_keys : forall rd lpn es, Forall (entry_decodes rd lpn) es ->
    Forall (fun e => length (e_key e) = 256%nat) es.
Proof. intros rd lpn es H. eapply Forall_impl; [|exact H]. intros e [Hk _]. exact Hk. Qed.

Lemma cell_ptrs_length : forall es off, Forall (fun e => length (e_key e) = 256%nat) es ->
    length (cell_ptrs es off) = (34 * length es)%nat.
Proof.
  intros es. induction es as [|e r IH]; intros off H; [reflexivity|].
  inversion H as [|e0 r0 He Hr]; subst. cbn [cell_ptrs length].
  rewrite !app_length, le_bytes_length, key_pack_length, IH by assumption. lia.
Qed.

Lemma cells_cons : forall e r, cells (e :: r) = cell_of e ++ cells r.
Proof. reflexivity. Qed.

Lemma cp_raw_bound : forall e off, off <= 4096 -> cp_raw e off < 65536.
Proof. intros e off H. unfold cp_raw, OVERFLOW_BIT. destruct (is_ovf e); lia. Qed.

Lemma cp_off_raw : forall e off, off <= 4096 -> cp_off (cp_raw e off) = off.
Proof. intros e off H. unfold cp_off, cp_raw, OVERFLOW_BIT. destruct (is_ovf e); lia. Qed.

Lemma cp_ovf_raw : forall e off, off <= 4096 -> cp_ovf (cp_raw e off) = is_ovf e.
Proof.
  intros e off H. unfold cp_ovf, cp_raw, OVERFLOW_BIT.
  destruct (is_ovf e); [apply N.leb_le|apply N.leb_gt]; lia.
Qed.

Lemma cell_pointers_enc : forall es off tail,
    Forall (fun e => length (e_key e) = 256%nat) es ->
    off + lenN (cells es) <= 4096 ->
    cell_pointers (length es) (cell_ptrs es off ++ tail) = Some (ptrs_of es off).
Proof.
  intros es. induction es as [|e r IH]; intros off tail Hk Hoff; [reflexivity|].
  inversion Hk as [|e0 r0 He Hr]; subst.
  rewrite cells_cons, lenN_app in Hoff.
  cbn [cell_ptrs ptrs_of length cell_pointers]. rewrite <- !app_assoc.
  pose proof (key_pack_length _ He) as Hpl.
  rewrite sliceN_head by (rewrite Hpl; reflexivity).
  rewrite u16_mid by (try (rewrite Hpl; reflexivity); apply cp_raw_bound; lia).
  assert (E : dropN 34 (pack_bits (e_key e) ++ le_bytes 2 (cp_raw e off)
                        ++ cell_ptrs r (off + lenN (cell_of e)) ++ tail)
              = cell_ptrs r (off + lenN (cell_of e)) ++ tail).
  { rewrite app_assoc. apply dropN_exact. rewrite app_length, le_bytes_length, Hpl. reflexivity. }
  rewrite E, IH by (try exact Hr; lia). reflexivity.
Qed.

Lemma ptrs_of_first : forall es off, off <= 4096 -> off + lenN (cells es) = PAGE ->
    match ptrs_of es off with [] => PAGE | (_, raw) :: _ => cp_off raw end = off.
Proof.
  intros [|e r] off Hle H.
  - cbn [ptrs_of]. change (lenN (cells [])) with 0 in H. lia.
  - cbn [ptrs_of]. apply cp_off_raw. exact Hle.
Qed.

Lemma leaf_cells_enc : forall rd lpn es off,
    Forall (entry_decodes rd lpn) es -> off + lenN (cells es) = PAGE ->
    leaf_cells rd lpn (cells es) (ptrs_of es off) = Ok es.
Proof.
  intros rd lpn es. induction es as [|e r IH]; intros off Hd Hoff; [reflexivity|].
  inversion Hd as [|e0 r0 He Hr]; subst. destruct He as [Hkey Hcell].
  rewrite cells_cons, lenN_app in Hoff. unfold PAGE in Hoff.
  cbn [ptrs_of leaf_cells].
  set (off' := off + lenN (cell_of e)).
  assert (Hfin : match ptrs_of r off' with [] => PAGE | (_, raw') :: _ => cp_off raw' end = off').
  { apply ptrs_of_first; unfold off', PAGE; lia. }
  rewrite Hfin, cp_off_raw by lia.
  unfold guard. replace (off <=? off') with true by (symmetry; apply N.leb_le; unfold off'; lia).
  cbn [bind]. rewrite cells_cons.
  rewrite split_exact_exact by (unfold off'; rewrite <- to_nat_lenN; f_equal; lia).
  cbn [need bind fst snd]. rewrite cp_ovf_raw by lia.
  rewrite (IH off' Hr) by (unfold off', PAGE; lia).
  destruct e as [k v len ovf]. unfold cell_of, is_ovf in *. cbn [e_key e_val e_len e_ovf] in *.
  rewrite key_pack_bits by exact Hkey.
  destruct ovf as [o|].
  - rewrite Hcell. cbn [bind fst snd]. reflexivity.
  - cbn [bind]. subst len. replace (off' - off) with (lenN v) by (unfold off'; lia). reflexivity.
Qed.

Lemma leaf_fits_facts : forall es, leaf_fits es = true ->
    34 * lenN es < 4094 /\ 2 + 34 * lenN es + lenN (cells es) <= 4096.
Proof.
  intros es H. unfold leaf_fits in H. apply andb_true_iff in H. destruct H as [H1 H2].
  apply N.ltb_lt in H1. apply N.leb_le in H2. unfold PAGE in H2. split; assumption.
Qed.

(* the leaf round trip: whatever fills the gap between the cell pointers and the cells *)
Theorem decode_encode_leaf_gen : forall rd lpn sep gap es,
    leaf_fits es = true -> Forall (entry_decodes rd lpn) es ->
    length gap = N.to_nat (leaf_gap es) ->
    decode_leaf rd lpn sep (encode_leaf_gen gap es) = Ok (mkLeaf lpn sep es).
Proof.
  intros rd lpn sep gap es Hfit Hd Hgap.
  destruct (leaf_fits_facts es Hfit) as [Hn Hsz].
  pose proof (entry_decodes_keys _ _ _ Hd) as Hk.
  unfold decode_leaf, encode_leaf_gen.
  unfold leaf_gap, leaf_first in *.
  set (n := lenN es) in *. set (tot := lenN (cells es)) in *.
  assert (HP : PAGE = 4096) by reflexivity.
  rewrite u16_head by lia. cbn [need bind].
  unfold guard. replace (2 + 34 * n <=? PAGE) with true by (symmetry; apply N.leb_le; lia).
  cbn [bind].
  rewrite (dropN_exact (le_bytes 2 n)) by (rewrite le_bytes_length; reflexivity).
  replace (N.to_nat n) with (length es) by (unfold n; rewrite to_nat_lenN; reflexivity).
  rewrite cell_pointers_enc by (try exact Hk; fold tot; lia).
  cbn [need bind].
  rewrite (ptrs_of_first es (PAGE - tot)) by (fold tot; lia).
  replace (2 + 34 * n <=? PAGE - tot) with true by (symmetry; apply N.leb_le; lia).
  cbn [bind].
  replace (le_bytes 2 n ++ cell_ptrs es (PAGE - tot) ++ gap ++ cells es)
    with ((le_bytes 2 n ++ cell_ptrs es (PAGE - tot) ++ gap) ++ cells es)
    by (rewrite <- !app_assoc; reflexivity).
  rewrite dropN_exact.
  2:{ rewrite !app_length, le_bytes_length, cell_ptrs_length, Hgap by exact Hk.
      assert (Hl : length es = N.to_nat n) by (unfold n; rewrite to_nat_lenN; reflexivity). lia. }
  rewrite leaf_cells_enc by (try exact Hd; fold tot; lia).
  reflexivity.
Qed.

Theorem decode_encode_leaf_ovf : forall rd lpn sep es,
    leaf_fits es = true -> Forall (entry_decodes rd lpn) es ->
    decode_leaf rd lpn sep (encode_leaf es) = Ok (mkLeaf lpn sep es).
Proof.
  intros rd lpn sep es Hfit Hd. apply decode_encode_leaf_gen; try assumption. apply zeros_length.
Qed.

Lemma inline_ok_decodes : forall rd lpn e, inline_ok e = true -> entry_decodes rd lpn e.
Proof.
  intros rd lpn e H. unfold inline_ok in H.
  apply andb_true_iff in H. destruct H as [H H3]. apply andb_true_iff in H. destruct H as [H1 H2].
  apply Nat.eqb_eq in H1. apply N.eqb_eq in H3. split; [exact H1|].
  unfold is_ovf in H2. destruct (e_ovf e); [discriminate|]. exact H3.
Qed.

(* all values in the leaf: no reader needed *)
Theorem decode_encode_leaf : forall rd lpn sep es,
    leaf_fits es = true -> forallb inline_ok es = true ->
    decode_leaf rd lpn sep (encode_leaf es) = Ok (mkLeaf lpn sep es).
Proof.
  intros rd lpn sep es Hfit Hin. apply decode_encode_leaf_ovf; [exact Hfit|].
  apply Forall_forall. intros e He. rewrite forallb_forall in Hin. apply inline_ok_decodes. apply Hin. exact He.
Qed.

Theorem encode_leaf_length : forall es,
    leaf_fits es = true -> Forall (fun e => length (e_key e) = 256%nat) es ->
    length (encode_leaf es) = 4096%nat.
Proof.
  intros es Hfit Hk. destruct (leaf_fits_facts es Hfit) as [Hn Hsz].
  unfold encode_leaf, encode_leaf_gen.
  rewrite !app_length, le_bytes_length, cell_ptrs_length, zeros_length by exact Hk.
  unfold leaf_gap, leaf_first, PAGE.
  assert (Hl : length es = N.to_nat (lenN es)) by (rewrite to_nat_lenN; reflexivity).
  assert (Hc : length (cells es) = N.to_nat (lenN (cells es))) by (rewrite to_nat_lenN; reflexivity).
  lia.
Qed.

(* ------------------------------------------------------------------------------------------- *)
(* F. branches                                                                                   *)

Lemma last_cons : forall (l : list N) a d, last (a :: l) d = last l a.
Proof.
  induction l as [|x l IH]; intros a d; [reflexivity|].
  change (last (a :: x :: l) d) with (last (x :: l) d). rewrite !IH. reflexivity.
Qed.

Lemma cell_ends_last : forall st acc, last (cell_ends acc st) acc = acc + lenN (concat st).
Proof.
  induction st as [|b r IH]; intros acc.
  - cbn [cell_ends concat last]. change (lenN (@nil bool)) with 0. lia.
  - cbn [cell_ends concat]. rewrite last_cons, IH, lenN_app. lia.
Qed.

Lemma cell_ends_length : forall st acc, length (cell_ends acc st) = length st.
Proof. induction st as [|b r IH]; intros acc; cbn [cell_ends length]; [reflexivity|]. rewrite IH. reflexivity. Qed.

Lemma cell_ends_bound : forall st acc bound, acc + lenN (concat st) < bound ->
    Forall (fun x => x < bound) (cell_ends acc st).
Proof.
  induction st as [|b r IH]; intros acc bound H; cbn [cell_ends]; [constructor|].
  cbn [concat] in H. rewrite lenN_app in H. constructor; [lia|]. apply IH. lia.
Qed.

Lemma stored_all_length : forall plen pc seps i, length (stored_all plen pc i seps) = length seps.
Proof.
  intros plen pc seps. induction seps as [|s r IH]; intros i; cbn [stored_all length]; [reflexivity|].
  rewrite IH. reflexivity.
Qed.

Lemma pad_firstn : forall (k : key) m, length k = 256%nat -> (m <= 256)%nat ->
    all_false (skipn m k) = true -> pad256 (firstn m k) = k.
Proof.
  intros k m Hk Hm Hz. unfold pad256. rewrite firstn_length_le by lia.
  apply all_false_repeat in Hz. rewrite skipn_length, Hk in Hz.
  rewrite <- Hz. apply firstn_skipn.
Qed.

(* the separator the decoder rebuilds from the stored bits (and the prefix) is the pushed key *)
Lemma whole_pad : forall plen prefix compressed s,
    sep_ok plen prefix compressed s = true -> length prefix = N.to_nat plen -> plen <= 256 ->
    let whole := if compressed then prefix ++ stored_bits plen true s else stored_bits plen false s in
    lenN whole <= 256 /\ pad256 whole = fst s.
Proof.
  intros plen prefix compressed [k len] Hok Hpl Hp256. unfold sep_ok in Hok. cbn [fst snd] in *.
  apply andb_true_iff in Hok. destruct Hok as [Hok H3]. apply andb_true_iff in Hok. destruct Hok as [H1 H2].
  apply Nat.eqb_eq in H1. apply N.leb_le in H2.
  destruct compressed; unfold stored_bits; cbn [fst snd].
  - apply andb_true_iff in H3. destruct H3 as [Hz Hpre].
    apply is_prefix_firstn in Hpre. rewrite Hpl in Hpre.
    rewrite <- Hpre, <- firstn_add.
    assert (Em : (N.to_nat plen + N.to_nat (len - plen) = N.to_nat (N.max len plen))%nat) by lia.
    rewrite Em. split.
    + rewrite lenN_length, firstn_length_le by lia. lia.
    + apply pad_firstn; [exact H1|lia|exact Hz].
  - split.
    + rewrite lenN_length, firstn_length_le by lia. lia.
    + apply pad_firstn; [exact H1|lia|exact H3].
Qed.

Lemma split_seps_enc : forall pn plen pc prefix seps i acc tail,
    length prefix = N.to_nat plen -> plen <= 256 ->
    seps_ok plen pc i prefix seps = true ->
    split_seps pn (cell_ends acc (stored_all plen pc i seps)) i acc pc prefix
               (concat (stored_all plen pc i seps) ++ tail) = Ok (map fst seps).
Proof.
  intros pn plen pc prefix seps. induction seps as [|s r IH]; intros i acc tail Hpl Hp Hok; [reflexivity|].
  cbn [seps_ok] in Hok. apply andb_true_iff in Hok. destruct Hok as [Hs Hr].
  cbn [stored_all cell_ends split_seps concat map].
  set (b := stored_bits plen (i <? pc) s).
  unfold guard. replace (acc <=? acc + lenN b) with true by (symmetry; apply N.leb_le; lia).
  cbn [bind]. replace (acc + lenN b - acc) with (lenN b) by lia.
  rewrite <- app_assoc. rewrite split_exact_exact by apply to_nat_lenN.
  cbn [need bind fst snd].
  pose proof (whole_pad plen prefix (i <? pc) s Hs Hpl Hp) as Hw. cbv zeta in Hw.
  assert (Hb : (if i <? pc then prefix ++ b else b)
               = (if i <? pc then prefix ++ stored_bits plen true s else stored_bits plen false s)).
  { unfold b. destruct (i <? pc); reflexivity. }
  rewrite Hb. destruct Hw as [Hw1 Hw2].
  replace (lenN (if i <? pc then prefix ++ stored_bits plen true s else stored_bits plen false s) <=? 256)
    with true by (symmetry; apply N.leb_le; exact Hw1).
  cbn [bind]. rewrite (IH (i + 1) (acc + lenN b) tail Hpl Hp Hr). cbn [bind]. rewrite Hw2. reflexivity.
Qed.

Lemma branch_fits_facts : forall bbn pc plen seps pns, branch_fits bbn pc plen seps pns = true ->
    1 <= lenN seps /\ lenN pns = lenN seps /\ branch_used pc plen seps + 4 * lenN seps <= 4096
    /\ pc <= lenN seps /\ plen <= 256 /\ bbn < 2 ^ 32 /\ Forall (fun x => x < 2 ^ 32) pns.
Proof.
  intros bbn pc plen seps pns H. unfold branch_fits in H.
  repeat (apply andb_true_iff in H; let H2 := fresh "H" in destruct H as [H H2]).
  apply N.leb_le in H. apply N.eqb_eq in H5. apply N.leb_le in H4. apply N.leb_le in H3.
  apply N.leb_le in H2. apply N.ltb_lt in H1. apply forallb_lt_Forall in H0.
  unfold PAGE in H4. tauto.
Qed.

Lemma branch_prefix_length : forall plen pc seps,
    1 <= lenN seps -> plen <= 256 -> seps_ok plen pc 0 (branch_prefix plen seps) seps = true ->
    length (branch_prefix plen seps) = N.to_nat plen.
Proof.
  intros plen pc [|s r] Hn Hp Hok; [cbn in Hn; lia|].
  cbn [seps_ok] in Hok. apply andb_true_iff in Hok. destruct Hok as [Hs _].
  unfold sep_ok in Hs. apply andb_true_iff in Hs. destruct Hs as [Hs _].
  apply andb_true_iff in Hs. destruct Hs as [Hk _]. apply Nat.eqb_eq in Hk.
  cbn [branch_prefix]. rewrite firstn_length_le; lia.
Qed.

(* the branch round trip, bit-packed separators included: whatever the padding bits of the last
   byte of the bit vector and the bytes between it and the node pointers are *)
Theorem decode_encode_branch_gen : forall pn padbits gap bbn pc plen seps pns,
    branch_ok bbn pc plen seps pns = true ->
    (exists k, length (branch_bitvec pc plen seps ++ padbits) = 8 * k /\ length padbits < 8)%nat ->
    length gap = N.to_nat (branch_gap pc plen seps) ->
    decode_branch pn (encode_branch_gen padbits gap bbn pc plen seps pns)
    = Ok (mkBranch pn bbn pc plen (map fst seps) pns).
Proof.
  intros pn padbits gap bbn pc plen seps pns Hok [k [Hk Hpad]] Hgap.
  unfold branch_ok in Hok. apply andb_true_iff in Hok. destruct Hok as [Hfit Hseps].
  destruct (branch_fits_facts _ _ _ _ _ Hfit) as [Hn1 [Hpn [Hsz [Hpc [Hp256 [Hbbn Hpns]]]]]].
  pose proof (branch_prefix_length plen pc seps Hn1 Hp256 Hseps) as Hpl.
  unfold branch_gap, branch_used, branch_bits, BRANCH_HEADER, PAGE in *.
  set (n := lenN seps) in *.
  set (st := stored_all plen pc 0 seps) in *.
  set (prefix := branch_prefix plen seps) in *.
  assert (Hbv : branch_bitvec pc plen seps = prefix ++ concat st) by reflexivity.
  set (total := lenN (concat st)).
  assert (Hbits : lenN (branch_bitvec pc plen seps) = plen + total).
  { rewrite Hbv, lenN_app. unfold total. rewrite (lenN_length prefix), Hpl. lia. }
  rewrite Hbits in *.
  set (body := pack_bits (branch_bitvec pc plen seps ++ padbits)).
  assert (Hbody : length body = k) by (apply pack_bits_length; exact Hk).
  assert (Hkb : k = N.to_nat ((plen + total + 7) / 8)).
  { rewrite app_length in Hk. assert (Hl : N.of_nat (length (branch_bitvec pc plen seps)) = plen + total).
    { rewrite <- lenN_length. exact Hbits. } lia. }
  set (cellsb := flat_map (le_bytes 2) (cell_ends 0 st)).
  assert (Hcb : length cellsb = N.to_nat (2 * n)).
  { unfold cellsb. rewrite flat_map_le2_length, cell_ends_length. unfold st.
    rewrite stored_all_length. unfold n. rewrite lenN_length. lia. }
  set (ptrs := flat_map (le_bytes 4) pns).
  assert (Hptrs : length ptrs = N.to_nat (4 * n)).
  { unfold ptrs. rewrite flat_map_le4_length. rewrite <- Hpn, lenN_length. lia. }
  set (pg := encode_branch_gen padbits gap bbn pc plen seps pns).
  assert (Epg : pg = le_bytes 4 bbn ++ le_bytes 2 n ++ le_bytes 2 pc ++ le_bytes 2 plen
                     ++ cellsb ++ body ++ gap ++ ptrs).
  { unfold pg, encode_branch_gen, branch_head. rewrite <- !app_assoc. reflexivity. }
  assert (F0 : u32 pg 0 = Some bbn) by (rewrite Epg; apply u32_head; exact Hbbn).
  assert (F1 : u16 pg 4 = Some n).
  { rewrite Epg. apply u16_mid; [rewrite le_bytes_length; reflexivity|lia]. }
  assert (F2 : u16 pg 6 = Some pc).
  { rewrite Epg. rewrite app_assoc. apply u16_mid; [rewrite app_length, !le_bytes_length; reflexivity|lia]. }
  assert (F3 : u16 pg 8 = Some plen).
  { rewrite Epg. rewrite app_assoc, app_assoc.
    apply u16_mid; [rewrite !app_length, !le_bytes_length; reflexivity|lia]. }
  assert (F4 : sliceN 10 (2 * n) pg = Some cellsb).
  { rewrite Epg. rewrite app_assoc, app_assoc, app_assoc.
    apply sliceN_mid; [rewrite !app_length, !le_bytes_length; reflexivity|lia]. }
  assert (F5 : sliceN (10 + 2 * n) ((plen + total + 7) / 8) pg = Some body).
  { rewrite Epg. rewrite app_assoc, app_assoc, app_assoc, app_assoc.
    apply sliceN_mid; [rewrite !app_length, !le_bytes_length; lia|lia]. }
  assert (F6 : sliceN (4096 - 4 * n) (4 * n) pg = Some ptrs).
  { rewrite Epg. rewrite <- (app_nil_r ptrs) at 1.
    rewrite app_assoc, app_assoc, app_assoc, app_assoc, app_assoc, app_assoc.
    apply sliceN_mid; [rewrite !app_length, !le_bytes_length; lia|lia]. }
  assert (Hcells : u16s cellsb = cell_ends 0 st).
  { unfold cellsb. apply u16s_le_bytes. apply cell_ends_bound. fold total. lia. }
  assert (Hlast : last (cell_ends 0 st) 0 = total).
  { rewrite cell_ends_last. unfold total. lia. }
  unfold decode_branch. fold pg. unfold BRANCH_HEADER, PAGE.
  rewrite F0, F1, F2, F3. cbn [need bind].
  unfold guard.
  replace ((1 <=? n) && (10 + 6 * n <=? 4096) && (pc <=? n) && (plen <=? 256)) with true.
  2:{ symmetry. repeat (apply andb_true_iff; split); apply N.leb_le; lia. }
  cbn [bind]. rewrite F4. cbn [need bind]. cbv zeta.
  rewrite Hcells, Hlast.
  replace (10 + 2 * n + (plen + total + 7) / 8 <=? 4096 - 4 * n) with true
    by (symmetry; apply N.leb_le; lia).
  cbn [bind]. rewrite F5. cbn [need bind].
  unfold body. rewrite (bits_pack k) by exact Hk.
  rewrite Hbv, <- app_assoc.
  rewrite split_exact_exact by (symmetry; exact Hpl). cbn [need bind fst snd].
  pose proof (split_seps_enc pn plen pc prefix seps 0 0 padbits Hpl Hp256 Hseps) as Hss.
  fold st in Hss. rewrite Hss. cbn [bind].
  rewrite F6. cbn [need bind]. unfold ptrs. rewrite u32s_le_bytes by exact Hpns. reflexivity.
Qed.

Lemma encode_branch_pad : forall pc plen seps,
    (exists k, length (branch_bitvec pc plen seps
                       ++ repeat_false (pad_len (length (branch_bitvec pc plen seps)))) = 8 * k
               /\ length (repeat_false (pad_len (length (branch_bitvec pc plen seps)))) < 8)%nat.
Proof.
  intros pc plen seps. destruct (pad_len_spec (length (branch_bitvec pc plen seps))) as [k [H1 H2]].
  exists k. unfold repeat_false. rewrite app_length, repeatN_length. split; assumption.
Qed.

Theorem decode_encode_branch : forall pn bbn pc plen seps pns,
    branch_ok bbn pc plen seps pns = true ->
    decode_branch pn (encode_branch bbn pc plen seps pns)
    = Ok (mkBranch pn bbn pc plen (map fst seps) pns).
Proof.
  intros pn bbn pc plen seps pns Hok. apply decode_encode_branch_gen;
    [exact Hok|apply encode_branch_pad|apply zeros_length].
Qed.

Theorem encode_branch_length : forall bbn pc plen seps pns,
    branch_ok bbn pc plen seps pns = true ->
    length (encode_branch bbn pc plen seps pns) = 4096%nat.
Proof.
  intros bbn pc plen seps pns Hok.
  unfold branch_ok in Hok. apply andb_true_iff in Hok. destruct Hok as [Hfit Hseps].
  destruct (branch_fits_facts _ _ _ _ _ Hfit) as [Hn1 [Hpn [Hsz [Hpc [Hp256 [Hbbn Hpns]]]]]].
  destruct (encode_branch_pad pc plen seps) as [k [Hk Hpad]].
  unfold encode_branch, encode_branch_gen, branch_head.
  rewrite !app_length, !le_bytes_length, flat_map_le2_length, flat_map_le4_length, cell_ends_length,
    stored_all_length, zeros_length.
  rewrite (pack_bits_length k) by exact Hk.
  unfold branch_gap, branch_used, branch_bits, BRANCH_HEADER, PAGE in *.
  rewrite app_length in Hk.
  assert (Hl : N.of_nat (length (branch_bitvec pc plen seps)) = lenN (branch_bitvec pc plen seps))
    by (rewrite lenN_length; reflexivity).
  assert (Hs : N.of_nat (length seps) = lenN seps) by (rewrite lenN_length; reflexivity).
  assert (Hp : N.of_nat (length pns) = lenN pns) by (rewrite lenN_length; reflexivity).
  lia.
Qed.

(* ------------------------------------------------------------------------------------------- *)
(* G. the segment descriptions used by the re-encoding check are the encoders' pages            *)

Theorem leaf_segs_bytes : forall es, seg_bytes (leaf_segs es) = encode_leaf es.
Proof.
  intros es. unfold leaf_segs, encode_leaf, encode_leaf_gen, leaf_gap, leaf_first. cbv zeta.
  cbn [seg_bytes]. rewrite app_nil_r, <- !app_assoc. reflexivity.
Qed.

Theorem ovf_segs_bytes : forall pns bytes,
    seg_bytes (ovf_segs pns bytes) = encode_overflow_page pns bytes.
Proof.
  intros pns bytes. unfold ovf_segs, encode_overflow_page, encode_overflow_page_gen, ovf_prefix.
  cbn [seg_bytes]. rewrite app_nil_r, <- !app_assoc. reflexivity.
Qed.

Theorem branch_segs_bytes : forall bbn pc plen seps pns,
    seg_bytes (branch_segs bbn pc plen seps pns) = encode_branch bbn pc plen seps pns.
Proof.
  intros bbn pc plen seps pns. unfold branch_segs, encode_branch, encode_branch_gen, branch_head.
  cbn [seg_bytes]. rewrite app_nil_r, <- !app_assoc.
  do 5 f_equal. rewrite app_assoc, firstn_skipn. reflexivity.
Qed.

Theorem manifest_segs_bytes : forall m, seg_bytes (manifest_segs m) = encode_manifest m.
Proof.
  intros m. unfold manifest_segs, encode_manifest, encode_manifest_gen. cbn [seg_bytes].
  rewrite app_nil_r. reflexivity.
Qed.

(* ------------------------------------------------------------------------------------------- *)
(* H. what a clean comparison means: the real page is 4096 bytes long and agrees with the         *)
(*    encoder's page on every bit of the mask                                                    *)

Fixpoint agree (mask exp real : list N) : Prop :=
  match mask, exp, real with
  | [], [], [] => True
  | m :: mask', e :: exp', r :: real' => N.land e m = N.land r m /\ agree mask' exp' real'
  | _, _, _ => False
  end.

Lemma agree_app : forall m1 e1 r1 m2 e2 r2,
    agree m1 e1 r1 -> agree m2 e2 r2 -> agree (m1 ++ m2) (e1 ++ e2) (r1 ++ r2).
Proof.
  induction m1 as [|m m1 IH]; intros [|e e1] [|r r1] m2 e2 r2 H1 H2; cbn [agree app] in *; try contradiction.
  - exact H2.
  - destruct H1 as [Ha Hb]. split; [exact Ha|]. apply IH; assumption.
Qed.

Lemma agree_length : forall m e r, agree m e r -> length m = length r /\ length e = length r.
Proof.
  induction m as [|m0 m IH]; intros [|e0 e] [|r0 r] H; cbn [agree] in H; try contradiction.
  - split; reflexivity.
  - destruct H as [_ H]. apply IH in H. cbn [length]. lia.
Qed.

Lemma app_eq_self : forall {A} (ext l : list A), ext ++ l = l -> ext = [].
Proof.
  intros A ext l H. assert (Hl : length (ext ++ l) = length l) by (rewrite H; reflexivity).
  rewrite app_length in Hl. destruct ext; [reflexivity|cbn [length] in Hl; lia].
Qed.

Lemma agree_refl : forall m b, agree (repeatN m (length b)) b b.
Proof. intros m b. induction b as [|e b IH]; [exact I|]. cbn [length repeatN agree]. split; [reflexivity|exact IH]. Qed.

Lemma cmp_eq_spec : forall bytes real bad real' bad' short,
    cmp_eq bytes real bad = (real', bad', short) ->
    (exists ext, bad' = ext ++ bad) /\
    (short = false -> bad' = bad -> real = bytes ++ real').
Proof.
  intros bytes. induction bytes as [|e bytes IH]; intros real bad real' bad' short H.
  - cbn [cmp_eq] in H. injection H as <- <- <-. split; [exists []; reflexivity|]. intros _ _. reflexivity.
  - cbn [cmp_eq] in H. destruct real as [|r real0].
    + injection H as <- <- <-. split; [exists []; reflexivity|]. intros Hs. discriminate.
    + apply IH in H. destruct H as [[ext Hext] Hfront]. destruct (e =? r) eqn:Ec.
      * split; [exists ext; exact Hext|]. intros Hs Hb. apply N.eqb_eq in Ec. subst r.
        cbn [app]. f_equal. apply Hfront; assumption.
      * split.
        -- exists (ext ++ [PAGE - lenN (r :: real0)]). rewrite <- app_assoc. exact Hext.
        -- intros Hs Hb. exfalso. subst bad'.
           change ((PAGE - lenN (r :: real0)) :: bad) with ([PAGE - lenN (r :: real0)] ++ bad) in Hb.
           rewrite app_assoc in Hb. apply app_eq_self in Hb. destruct ext; discriminate.
Qed.

Lemma cmp_mask_spec : forall m bytes real bad real' bad' short,
    cmp_mask m bytes real bad = (real', bad', short) ->
    (exists ext, bad' = ext ++ bad) /\
    (short = false -> bad' = bad ->
     exists front, real = front ++ real' /\ agree (repeatN m (length bytes)) bytes front).
Proof.
  intros m bytes. induction bytes as [|e bytes IH]; intros real bad real' bad' short H.
  - cbn [cmp_mask] in H. injection H as <- <- <-. split; [exists []; reflexivity|].
    intros _ _. exists []. split; [reflexivity|exact I].
  - cbn [cmp_mask] in H. destruct real as [|r real0].
    + injection H as <- <- <-. split; [exists []; reflexivity|]. intros Hs. discriminate.
    + apply IH in H. destruct H as [[ext Hext] Hfront]. destruct (N.land e m =? N.land r m) eqn:Ec.
      * split; [exists ext; exact Hext|]. intros Hs Hb. apply N.eqb_eq in Ec.
        destruct (Hfront Hs Hb) as [front [Hr Ha]].
        exists (r :: front). cbn [app length repeatN agree]. split; [rewrite Hr; reflexivity|].
        split; [exact Ec|exact Ha].
      * split.
        -- exists (ext ++ [PAGE - lenN (r :: real0)]). rewrite <- app_assoc. exact Hext.
        -- intros Hs Hb. exfalso. subst bad'.
           change ((PAGE - lenN (r :: real0)) :: bad) with ([PAGE - lenN (r :: real0)] ++ bad) in Hb.
           rewrite app_assoc in Hb. apply app_eq_self in Hb. destruct ext; discriminate.
Qed.

Lemma cmp_undef_spec : forall real n stale real' stale' short,
    cmp_undef n real stale = (real', stale', short) -> short = false ->
    exists front, real = front ++ real' /\ length front = N.to_nat n.
Proof.
  induction real as [|r real IH]; intros n stale real' stale' short H Hs.
  - cbn [cmp_undef] in H. injection H as <- <- <-.
    exists []. apply negb_false_iff in Hs. apply N.eqb_eq in Hs. subst n. split; reflexivity.
  - cbn [cmp_undef] in H. destruct (n =? 0) eqn:En.
    + injection H as <- <- <-. apply N.eqb_eq in En. subst n. exists []. split; reflexivity.
    + apply N.eqb_neq in En. apply IH in H; [|exact Hs]. destruct H as [front [Hr Hl]].
      exists (r :: front). cbn [app length]. split; [rewrite Hr; reflexivity|]. lia.
Qed.

Lemma agree_zeros : forall front, agree (zeros (length front)) (zeros (length front)) front.
Proof.
  induction front as [|r front IH]; [exact I|]. cbn [length zeros repeatN agree].
  split; [rewrite !N.land_0_r; reflexivity|exact IH].
Qed.

Lemma compare_segs_aux_spec : forall l real bad cmp stale rest bad' cmp' stale' short,
    compare_segs_aux l real bad cmp stale = (rest, bad', cmp', stale', short) ->
    (exists ext, bad' = ext ++ bad) /\
    (short = false -> bad' = bad ->
     exists front, real = front ++ rest /\ agree (seg_mask l) (seg_bytes l) front).
Proof.
  induction l as [|sg l IH]; intros real bad cmp stale rest bad' cmp' stale' short H.
  - cbn [compare_segs_aux] in H. injection H as <- <- <- <- <-. split; [exists []; reflexivity|].
    intros _ _. exists []. split; [reflexivity|exact I].
  - destruct sg as [b|b m|n]; cbn [compare_segs_aux] in H.
    + destruct (cmp_eq b real bad) as [[real1 bad1] short1] eqn:E.
      apply cmp_eq_spec in E. destruct E as [[ext1 Hext1] Hf1].
      destruct short1.
      * injection H as <- <- <- <- <-. split; [exists ext1; exact Hext1|]. intros Hs. discriminate.
      * apply IH in H. destruct H as [[ext2 Hext2] Hf2]. split.
        -- exists (ext2 ++ ext1). rewrite <- app_assoc, <- Hext1. exact Hext2.
        -- intros Hs Hb.
           assert (Hb1 : bad1 = bad).
           { subst bad'. rewrite Hext1, app_assoc in Hb. apply app_eq_self in Hb.
             apply app_eq_nil in Hb. destruct Hb as [_ ->]. exact Hext1. }
           pose proof (Hf1 eq_refl Hb1) as Hr1.
           destruct (Hf2 Hs ltac:(rewrite Hb, Hb1; reflexivity)) as [f2 [Hr2 Ha2]].
           exists (b ++ f2). cbn [seg_mask seg_bytes]. split; [rewrite Hr1, Hr2, app_assoc; reflexivity|].
           apply agree_app; [apply agree_refl|exact Ha2].
    + destruct (cmp_mask m b real bad) as [[real1 bad1] short1] eqn:E.
      apply cmp_mask_spec in E. destruct E as [[ext1 Hext1] Hf1].
      destruct short1.
      * injection H as <- <- <- <- <-. split; [exists ext1; exact Hext1|]. intros Hs. discriminate.
      * apply IH in H. destruct H as [[ext2 Hext2] Hf2]. split.
        -- exists (ext2 ++ ext1). rewrite <- app_assoc, <- Hext1. exact Hext2.
        -- intros Hs Hb.
           assert (Hb1 : bad1 = bad).
           { subst bad'. rewrite Hext1, app_assoc in Hb. apply app_eq_self in Hb.
             apply app_eq_nil in Hb. destruct Hb as [_ ->]. exact Hext1. }
           destruct (Hf1 eq_refl Hb1) as [f1 [Hr1 Ha1]].
           destruct (Hf2 Hs ltac:(rewrite Hb, Hb1; reflexivity)) as [f2 [Hr2 Ha2]].
           exists (f1 ++ f2). cbn [seg_mask seg_bytes]. split; [rewrite Hr1, Hr2, app_assoc; reflexivity|].
           apply agree_app; assumption.
    + destruct (cmp_undef n real stale) as [[real1 stale1] short1] eqn:E.
      destruct short1.
      * injection H as <- <- <- <- <-. split; [exists []; reflexivity|]. intros Hs. discriminate.
      * apply cmp_undef_spec in E; [|reflexivity]. destruct E as [f1 [Hr1 Hl1]].
        apply IH in H. destruct H as [[ext2 Hext2] Hf2]. split; [exists ext2; exact Hext2|].
        intros Hs Hb. destruct (Hf2 Hs Hb) as [f2 [Hr2 Ha2]].
        exists (f1 ++ f2). cbn [seg_mask seg_bytes]. split; [rewrite Hr1, Hr2, app_assoc; reflexivity|].
        apply agree_app; [|exact Ha2]. rewrite <- Hl1. apply agree_zeros.
Qed.

Lemma seg_len_bytes : forall l, seg_len l = lenN (seg_bytes l).
Proof.
  induction l as [|sg l IH]; [reflexivity|].
  destruct sg as [b|b m|n]; cbn [seg_len seg_bytes]; rewrite lenN_app, IH; try reflexivity.
  rewrite (lenN_length (zeros _)), zeros_length, N2Nat.id. reflexivity.
Qed.

(* no difference reported: the real page has 4096 bytes and equals the page of the segments on
   every defined bit *)
Theorem compare_segs_sound : forall l real,
    fst (fst (compare_segs l real)) = [] ->
    agree (seg_mask l) (seg_bytes l) real /\ length real = 4096%nat.
Proof.
  intros l real H. unfold compare_segs in H.
  destruct (compare_segs_aux l real [] 0 0) as [[[[rest bad] cmp] stale] short] eqn:E.
  cbn [fst] in H. rewrite rev_append_rev, app_nil_r in H.
  apply compare_segs_aux_spec in E. destruct E as [_ Hf].
  destruct (short || negb (seg_len l =? PAGE) || match rest with [] => false | _ :: _ => true end) eqn:Ec.
  - exfalso. cbn [rev] in H. destruct (rev bad); discriminate.
  - apply orb_false_iff in Ec. destruct Ec as [Ec Erest]. apply orb_false_iff in Ec. destruct Ec as [Es Eo].
    apply negb_false_iff in Eo. apply N.eqb_eq in Eo.
    assert (Hbad : bad = []).
    { destruct bad as [|x bad0]; [reflexivity|]. exfalso. cbn [rev] in H. destruct (rev bad0); discriminate. }
    destruct (Hf Es Hbad) as [front [Hr Ha]].
    destruct rest; [|discriminate]. rewrite app_nil_r in Hr. subst front.
    split; [exact Ha|]. apply agree_length in Ha. destruct Ha as [_ Hl].
    rewrite seg_len_bytes, lenN_length in Eo. unfold PAGE in Eo. lia.
Qed.

(* for the four formats: a clean comparison says the file's page is the encoder's page up to the
   undefined regions *)
Corollary compare_leaf_sound : forall es real,
    fst (fst (compare_segs (leaf_segs es) real)) = [] ->
    agree (leaf_mask es) (encode_leaf es) real /\ length real = 4096%nat.
Proof. intros es real H. rewrite <- leaf_segs_bytes. apply compare_segs_sound. exact H. Qed.

Corollary compare_branch_sound : forall bbn pc plen seps pns real,
    fst (fst (compare_segs (branch_segs bbn pc plen seps pns) real)) = [] ->
    agree (branch_mask bbn pc plen seps pns) (encode_branch bbn pc plen seps pns) real
    /\ length real = 4096%nat.
Proof. intros. rewrite <- branch_segs_bytes. apply compare_segs_sound. assumption. Qed.

Corollary compare_overflow_sound : forall pns bytes real,
    fst (fst (compare_segs (ovf_segs pns bytes) real)) = [] ->
    agree (ovf_page_mask pns bytes) (encode_overflow_page pns bytes) real /\ length real = 4096%nat.
Proof. intros. rewrite <- ovf_segs_bytes. apply compare_segs_sound. assumption. Qed.

Corollary compare_manifest_sound : forall m real,
    fst (fst (compare_segs (manifest_segs m) real)) = [] ->
    agree (manifest_mask m) (encode_manifest m) real /\ length real = 4096%nat.
Proof. intros. rewrite <- manifest_segs_bytes. apply compare_segs_sound. assumption. Qed.

(* ------------------------------------------------------------------------------------------- *)
(* I. the value round trip through the mirror of overflow.rs::chunk                              *)

Lemma take_rev_none : forall {A} (p : positive) (l acc : list A),
    (length l < Pos.to_nat p)%nat -> take_rev p l acc = None.
Proof.
  intros A p. induction p as [q IH|q IH|]; intros l acc H; cbn [take_rev].
  - destruct l as [|x l]; [reflexivity|]. cbn [length] in H.
    destruct (Nat.le_gt_cases (Pos.to_nat q) (length l)) as [Hle|Hgt].
    + rewrite take_rev_spec by exact Hle. apply IH. rewrite skipn_length. lia.
    + rewrite IH by exact Hgt. reflexivity.
  - destruct (Nat.le_gt_cases (Pos.to_nat q) (length l)) as [Hle|Hgt].
    + rewrite take_rev_spec by exact Hle. apply IH. rewrite skipn_length. lia.
    + rewrite IH by exact Hgt. reflexivity.
  - destruct l; [reflexivity|cbn [length] in H; lia].
Qed.

Lemma take_upto_spec : forall {A} n (l : list A),
    take_upto n l = (firstn (N.to_nat n) l, skipn (N.to_nat n) l).
Proof.
  intros A n l. unfold take_upto.
  destruct (Nat.le_gt_cases (N.to_nat n) (length l)) as [Hle|Hgt].
  - rewrite split_exact_spec by exact Hle. reflexivity.
  - destruct n as [|p]; [cbn in Hgt; lia|]. unfold split_exact. rewrite take_rev_none by exact Hgt.
    rewrite firstn_all2, skipn_all2 by lia. reflexivity.
Qed.

Lemma chunk_pages_cons : forall pn r tw v,
    chunk_pages (pn :: r) tw v =
    mkOpage pn (firstn 1023 tw)
            (firstn (4092 - 4 * Nat.min 1023 (length tw)) v)
    :: chunk_pages r (skipn 1023 tw) (skipn (4092 - 4 * Nat.min 1023 (length tw)) v).
Proof.
  intros pn r tw v. cbn [chunk_pages]. rewrite take_upto_spec.
  change (N.to_nat MAX_PNS) with 1023%nat. rewrite take_upto_spec.
  assert (E : N.to_nat (BODY_SIZE - 4 * lenN (firstn 1023 tw)) = (4092 - 4 * Nat.min 1023 (length tw))%nat).
  { rewrite lenN_length, firstn_length. unfold BODY_SIZE. lia. }
  rewrite E. reflexivity.
Qed.

Lemma chunk_pages_pns : forall all tw v, map op_pn (chunk_pages all tw v) = all.
Proof.
  induction all as [|pn r IH]; intros tw v; [reflexivity|].
  rewrite chunk_pages_cons. cbn [map op_pn]. rewrite IH. reflexivity.
Qed.

Lemma in_firstn' : forall {A} n (l : list A) x, In x (firstn n l) -> In x l.
Proof.
  intros A n. induction n as [|n IH]; intros l x H; [contradiction|].
  destruct l as [|y l]; [contradiction|]. cbn [firstn] in H. destruct H as [->|H]; [left; reflexivity|].
  right. apply IH. exact H.
Qed.

Lemma in_skipn' : forall {A} n (l : list A) x, In x (skipn n l) -> In x l.
Proof.
  intros A n. induction n as [|n IH]; intros l x H; [exact H|].
  destruct l as [|y l]; [contradiction|]. cbn [skipn] in H. right. apply IH. exact H.
Qed.

Lemma chunk_pages_fit : forall all tw v,
    Forall (fun x => x < 2 ^ 32) tw ->
    Forall (fun p => ovf_page_fits (op_pns p) (op_bytes p) = true) (chunk_pages all tw v).
Proof.
  induction all as [|pn r IH]; intros tw v Htw; [constructor|].
  rewrite chunk_pages_cons. constructor.
  - cbn [op_pns op_bytes]. unfold ovf_page_fits, ovf_used, MAX_PNS, PAGE.
    rewrite !lenN_length, !firstn_length.
    apply andb_true_iff. split; [apply andb_true_iff; split; apply N.leb_le; lia|].
    apply forallb_forall. intros x Hx. apply N.ltb_lt.
    rewrite Forall_forall in Htw. apply Htw. eapply in_firstn'; exact Hx.
  - apply IH. apply Forall_forall. intros x Hx. rewrite Forall_forall in Htw. apply Htw.
    eapply in_skipn'; exact Hx.
Qed.

(* the value bytes of the pages, in order, are a prefix of the value: as many bytes as the pages
   can hold behind the page numbers they record *)
Lemma chunk_pages_bytes : forall all tw v,
    concat (map op_bytes (chunk_pages all tw v))
    = firstn (4092 * length all - 4 * Nat.min (1023 * length all) (length tw)) v.
Proof.
  induction all as [|pn r IH]; intros tw v; [reflexivity|].
  rewrite chunk_pages_cons. cbn [map op_bytes concat length]. rewrite IH, skipn_length.
  set (a := (4092 - 4 * Nat.min 1023 (length tw))%nat).
  rewrite <- firstn_add. f_equal. unfold a. lia.
Qed.

(* the reading order of Image.ovf_read is the allocation order of chunk: no arithmetic involved *)
Lemma chain_rest_chunk : forall all tw v queue,
    queue ++ tw = all -> (queue = [] -> all = []) ->
    chain_rest queue (chunk_pages all tw v) = Some [].
Proof.
  induction all as [|pn r IH]; intros tw v queue Hq Hne.
  - apply app_eq_nil in Hq. destruct Hq as [-> _]. reflexivity.
  - rewrite chunk_pages_cons. cbn [chain_rest op_pn op_pns].
    destruct queue as [|q qs]; [specialize (Hne eq_refl); discriminate|].
    cbn [app] in Hq. injection Hq as -> Hq. rewrite N.eqb_refl.
    apply IH.
    + rewrite <- app_assoc, firstn_skipn. exact Hq.
    + intros He. apply app_eq_nil in He. destruct He as [-> He].
      destruct tw as [|x tw]; [cbn [app] in Hq; symmetry; exact Hq|discriminate].
Qed.

Lemma total_needed_pages_overflow : forall v, total_needed_pages v = Overflow.total_needed_pages v.
Proof. intros v. reflexivity. Qed.

(* what chunk writes for a value, read_blocking (Image.decode_overflow) reads back: the value, its
   length, every page in allocation order - given a reader that returns the pages chunk wrote
   (their defined prefix; anything behind it) *)
Theorem decode_encode_overflow_value : forall rd lpn value hash all,
    1 <= lenN value -> lenN value <= MAX_OVERFLOW_VALUE_SIZE ->
    length all = N.to_nat (total_needed_pages (lenN value)) ->
    Forall (fun x => x < 2 ^ 32) all -> length hash = 32%nat ->
    (forall p, In p (chunk value all) ->
               exists tail, rd (op_pn p) = Some (encode_overflow_page_gen tail (op_pns p) (op_bytes p))
                            /\ length (encode_overflow_page_gen tail (op_pns p) (op_bytes p)) = 4096%nat) ->
    decode_overflow rd lpn (ovf_cell (mkOverflow (lenN value) hash (firstn 15 all) all true))
    = Ok (value, lenN value, mkOverflow (lenN value) hash (firstn 15 all) all true).
Proof.
  intros rd lpn value hash all Hv1 Hv2 Hlen Hall Hh Hrd.
  set (T := total_needed_pages (lenN value)) in *.
  assert (HT : 1 <= T).
  { unfold T, total_needed_pages, needed_pages, BODY_SIZE, MAX_CELL_PNS.
    destruct ((lenN value + 4092 - 1) / 4092 <=? 15);
      [|destruct ((lenN value + 4092 - 1) / 4092 <=? 15 + ((lenN value + 4092 - 1) / 4092 * 4092 - lenN value) / 4)];
      lia. }
  assert (Hfits : lenN value + 4 * (T - 15) <= T * 4092).
  { unfold T. rewrite total_needed_pages_overflow. apply Overflow_proofs.total_needed_pages_fits. }
  set (o := mkOverflow (lenN value) hash (firstn 15 all) all true).
  unfold chunk in Hrd. rewrite dropN_skipn in Hrd. change (N.to_nat MAX_CELL_PNS) with 15%nat in Hrd.
  set (pages := chunk_pages all (skipn 15 all) value) in *.
  assert (Htw : Forall (fun x => x < 2 ^ 32) (skipn 15 all)).
  { apply Forall_forall. intros x Hx. rewrite Forall_forall in Hall. apply Hall. eapply in_skipn'; exact Hx. }
  assert (Hserved : Forall (page_served rd) pages).
  { pose proof (chunk_pages_fit all (skipn 15 all) value Htw) as Hf. fold pages in Hf.
    apply Forall_forall. intros p Hp. rewrite Forall_forall in Hf. split; [apply Hf; exact Hp|].
    apply Hrd. exact Hp. }
  assert (Hpn : map op_pn pages = all) by apply chunk_pages_pns.
  assert (Hpl : length pages = N.to_nat (total_needed_pages (o_size o))).
  { rewrite <- (map_length op_pn), Hpn. exact Hlen. }
  assert (Hchain : chain_rest (o_cell_pages o) pages = Some []).
  { apply chain_rest_chunk; [apply firstn_skipn|].
    cbn [o_cell_pages o]. intros He. destruct all as [|x all']; [reflexivity|discriminate]. }
  assert (Hfit : ovf_cell_fits o = true).
  { unfold ovf_cell_fits, o. cbn [o_size o_hash o_cell_pages].
    repeat (apply andb_true_iff; split).
    - apply N.leb_le. exact Hv2.
    - apply N.eqb_eq. rewrite lenN_length, Hh. reflexivity.
    - apply N.leb_le. rewrite lenN_length, firstn_length. lia.
    - apply forallb_forall. intros x Hx. apply N.ltb_lt. rewrite Forall_forall in Hall. apply Hall.
      eapply in_firstn'; exact Hx. }
  rewrite (decode_encode_overflow rd lpn o pages [] Hfit Hserved Hpl Hchain).
  assert (Hbytes : concat (map op_bytes pages) = value).
  { unfold pages. rewrite chunk_pages_bytes, skipn_length.
    apply firstn_all2. rewrite lenN_length in Hfits. lia. }
  rewrite Hbytes, Hpn, app_nil_r. reflexivity.
Qed.
