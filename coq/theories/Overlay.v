(* Mirror of the VALUE side of nomt/src/overlay.rs: the seqn index of an overlay (`Index`), the
   session-side `LiveOverlay` (new / value / finish) and the store of frozen overlays it works
   on.  Pages follow exactly the same pattern (pages / pages_by_seqn) and are not modelled.

   Rust objects are reference counted; here every overlay ever finished is a record in a store
   indexed by an id (`N`).  The shared `OverlayStatus` atomics are a status map, and "the
   `Arc<Data>` still has a strong owner" (what `Weak::upgrade` observes) is a liveness map.
   `unwrap()`s, out-of-range indexing and the unsigned subtractions are `Panic` outcomes
   (Result.v).  The specification of the same thing is Store.v (check_chain / view / finish). *)
From Nomt Require Import Base Result Store.
Local Open Scope N_scope.

(* ------------------------------------------------------------------------------------------ *)
(* Index                                                                                      *)
(* ------------------------------------------------------------------------------------------ *)

(* `values : OrdMap<KeyPath, u64>`: only get / remove / insert are used on the value side
   (value_iter, the range scan, is not modelled), so an association list read by first match *)
Definition vmap := list (key * N).

Fixpoint mget (m : vmap) (k : key) : option N :=
  match m with
  | [] => None
  | (k', s) :: m' => if key_eqb k' k then Some s else mget m' k
  end.

Definition mremove (m : vmap) (k : key) : vmap :=
  filter (fun p => negb (key_eqb (fst p) k)) m.

Definition minsert (m : vmap) (k : key) (s : N) : vmap := (k, s) :: mremove m k.

Record index := {
  ix_values : vmap;                  (* key -> seqn of the newest overlay that changed it *)
  ix_by_seqn : list (N * key)        (* values_by_seqn: sorted ascending by seqn *)
}.

Definition ix_empty : index := {| ix_values := []; ix_by_seqn := [] |}.

(* the second loop of Index::prune_below.
     match self.values_by_seqn.pop_front() {
       None => break,
       Some((seqn, key)) if seqn >= min => { push_front; break }
       Some((seqn, key)) => {
         if let Some(got) = self.values.remove(&key).filter(|&got| got != seqn && got >= min)
           { self.values.insert(key, got) } } }                                              *)
Fixpoint prune_loop (min : N) (m : vmap) (q : list (N * key)) : vmap * list (N * key) :=
  match q with
  | [] => (m, [])
  | (s, k) :: q' =>
      if N.leb min s then (m, q)
      else
        let removed := mget m k in
        let m1 := mremove m k in
        let m2 := match removed with
                  | Some got => if negb (N.eqb got s) && N.leb min got then minsert m1 k got else m1
                  | None => m1
                  end in
        prune_loop min m2 q'
  end.

Definition prune_below (min : N) (ix : index) : index :=
  let r := prune_loop min (ix_values ix) (ix_by_seqn ix) in
  {| ix_values := fst r; ix_by_seqn := snd r |}.

(* Index::insert_values: for key in keys { by_seqn.push_back((seqn, key)); values.insert(key, seqn) } *)
Fixpoint insert_values (s : N) (ks : list key) (ix : index) : index :=
  match ks with
  | [] => ix
  | k :: ks' =>
      insert_values s ks'
        {| ix_values := minsert (ix_values ix) k s; ix_by_seqn := ix_by_seqn ix ++ [(s, k)] |}
  end.

(* ------------------------------------------------------------------------------------------ *)
(* Overlays and the store                                                                     *)
(* ------------------------------------------------------------------------------------------ *)

(* `Data.values : HashMap<KeyPath, ValueChange>`; ValueChange = Insert v | Delete is
   `option value` (None = delete) as in Base.change.  Read by first match; the keys of a hash map
   are distinct (a precondition of finish in the reachable-store invariant). *)
Fixpoint chg_get (vs : list change) (k : key) : option (option value) :=
  match vs with
  | [] => None
  | (k', w) :: vs' => if key_eqb k' k then Some w else chg_get vs' k
  end.

(* OverlayInner + Data, value side *)
Record overlay := {
  o_seqn : N;                  (* OverlayInner.seqn *)
  o_index : index;             (* OverlayInner.index *)
  o_values : list change;      (* Data.values *)
  o_ancestors : list N;        (* OverlayInner.ancestor_data (weak), nearest first *)
  o_parent : option N          (* whose status Data.parent_status shares *)
}.

Fixpoint assoc {A} (l : list (N * A)) (id : N) : option A :=
  match l with
  | [] => None
  | (i, a) :: l' => if N.eqb i id then Some a else assoc l' id
  end.

Record ostore := {
  os_ovs : list (N * overlay);
  os_status : list (N * ostatus);     (* the shared OverlayStatus atomics *)
  os_held : list (N * bool)           (* does Arc<Data> still have a strong owner *)
}.

Definition os_empty : ostore := {| os_ovs := []; os_status := []; os_held := [] |}.

Definition ov_find (os : ostore) (id : N) : option overlay := assoc (os_ovs os) id.

Definition status_of (os : ostore) (id : N) : ostatus :=
  match assoc (os_status os) id with Some s => s | None => Dropped end.

Definition held (os : ostore) (id : N) : bool :=
  match assoc (os_held os) id with Some b => b | None => false end.

Definition is_committed (os : ostore) (id : N) : bool :=
  match status_of os id with Committed => true | _ => false end.

(* the last strong reference to Data goes away: Data::drop runs status.drop(), the
   compare_exchange LIVE -> DROPPED (a committed status stays committed) *)
Definition drop_data (os : ostore) (id : N) : ostore :=
  {| os_ovs := os_ovs os;
     os_status := (id, match status_of os id with Live => Dropped | s => s end) :: os_status os;
     os_held := (id, false) :: os_held os |}.

(* Overlay::mark_committed *)
Definition mark_committed (os : ostore) (id : N) : ostore :=
  {| os_ovs := os_ovs os; os_status := (id, Committed) :: os_status os; os_held := os_held os |}.

(* ------------------------------------------------------------------------------------------ *)
(* LiveOverlay                                                                                *)
(* ------------------------------------------------------------------------------------------ *)

Inductive invalid_ancestors := IANotAncestor | IAIncomplete.

Record live_overlay := {
  lo_parent : option N;        (* Option<Arc<OverlayInner>> *)
  lo_ancestors : list N;       (* ancestor_data : Vec<Arc<Data>> *)
  lo_min_seqn : N
}.

(* for (supposed, actual) in live_ancestors.zip(parent.ancestor_data.iter()) {
     let Some(actual) = actual.upgrade() else { return Err(Incomplete) };
     if !Arc::ptr_eq(&supposed.inner.data, &actual) { return Err(NotAncestor) }
     ancestor_data.push(actual) }
   zip stops at the shorter of the two: supplied overlays beyond the recorded ones are ignored *)
Fixpoint zip_anc (os : ostore) (supplied recorded : list N) : res invalid_ancestors (list N) :=
  match supplied, recorded with
  | s :: supplied', a :: recorded' =>
      if negb (held os a) then Err IAIncomplete
      else if negb (N.eqb s a) then Err IANotAncestor
      else bind (zip_anc os supplied' recorded') (fun m => Ok (a :: m))
  | _, _ => Ok []
  end.

(* LiveOverlay::new.  [chain]: the supplied overlays, nearest (the parent) first.
   Conventions of the model: an id that names no overlay cannot be written in Rust; for the head
   of the chain the answer is Incomplete as in Store.check_chain, and a recorded ancestor
   without a record is a Panic (shown unreachable). *)
Definition lo_new (os : ostore) (chain : list N) : res invalid_ancestors live_overlay :=
  match chain with
  | [] => Ok {| lo_parent := None; lo_ancestors := []; lo_min_seqn := 0 |}
  | p :: rest =>
      match ov_find os p with
      | None => Err IAIncomplete
      | Some po =>
          bind (zip_anc os rest (o_ancestors po)) (fun m =>
            (* ancestor_data.last().unwrap_or(&parent.data).parent_status
                 .map_or(false, |status| !status.is_committed()) *)
            match ov_find os (last m p) with
            | None => Panic
            | Some lst =>
                if match o_parent lst with
                   | Some pp => negb (is_committed os pp)
                   | None => false
                   end
                then Err IAIncomplete
                else
                  (* let min_seqn = parent.seqn - ancestor_data.len() as u64; *)
                  if N.ltb (o_seqn po) (N.of_nat (length m)) then Panic
                  else Ok {| lo_parent := Some p; lo_ancestors := m;
                             lo_min_seqn := o_seqn po - N.of_nat (length m) |}
            end)
      end
  end.

(* LiveOverlay::value + value_inner.  Ok None: not changed in the overlay chain. *)
Definition lo_value (os : ostore) (lo : live_overlay) (k : key)
  : res Empty_set (option (option value)) :=
  match lo_parent lo with
  | None => Ok None
  | Some p =>
      match ov_find os p with
      | None => Panic
      | Some po =>
          match mget (ix_values (o_index po)) k with
          | None => Ok None
          | Some s =>
              (* seqn.checked_sub(self.min_seqn) *)
              if N.ltb s (lo_min_seqn lo) then Ok None
              else
                let seqn_diff := N.to_nat (s - lo_min_seqn lo) in
                let len := length (lo_ancestors lo) in
                if Nat.eqb seqn_diff len then
                  match chg_get (o_values po) k with
                  | Some w => Ok (Some w)
                  | None => Panic             (* UNWRAP: index indicates that data exists *)
                  end
                else if Nat.ltb len (S seqn_diff) then Panic   (* len - seqn_diff - 1 underflows *)
                else
                  match nth_error (lo_ancestors lo) (len - seqn_diff - 1)%nat with
                  | None => Panic             (* index out of bounds *)
                  | Some a =>
                      match ov_find os a with
                      | None => Panic
                      | Some ao =>
                          match chg_get (o_values ao) k with
                          | Some w => Ok (Some w)
                          | None => Panic     (* UNWRAP: index indicates that data exists *)
                          end
                      end
                  end
          end
      end
  end.

(* what the session reads for k: the overlay chain first, the committed state otherwise *)
Definition apply_view (os : ostore) (committed : kv) (lo : live_overlay) (k : key)
  : res Empty_set (option value) :=
  match lo_value os lo k with
  | Ok (Some w) => Ok w
  | Ok None => Ok (get committed k)
  | Err e => Err e
  | Panic => Panic
  end.

(* the overlays a live overlay reads from, nearest first *)
Definition lo_chain (lo : live_overlay) : list N :=
  match lo_parent lo with Some p => p :: lo_ancestors lo | None => [] end.

(* LiveOverlay::finish: the record of the new overlay ... *)
Definition finish_overlay (os : ostore) (lo : live_overlay) (vals : list change) : overlay :=
  let par := match lo_parent lo with Some p => ov_find os p | None => None end in
  (* let new_seqn = self.parent.as_ref().map_or(0, |p| p.seqn + 1); *)
  let new_seqn := match par with Some po => o_seqn po + 1 | None => 0 end in
  (* parent's index (or Default), prune_below(min_seqn), insert_values(new_seqn, keys) *)
  let index0 := match par with Some po => o_index po | None => ix_empty end in
  let index1 := prune_below (lo_min_seqn lo) index0 in
  let index2 := insert_values new_seqn (map fst vals) index1 in
  {| o_seqn := new_seqn; o_index := index2; o_values := vals;
     (* once(parent.data).chain(self.ancestor_data) *)
     o_ancestors := lo_chain lo;
     o_parent := lo_parent lo |}.

(* ... entered in the store under a fresh id, status LIVE, data held by the new Overlay *)
Definition lo_finish (os : ostore) (id : N) (lo : live_overlay) (vals : list change) : ostore :=
  {| os_ovs := (id, finish_overlay os lo vals) :: os_ovs os;
     os_status := (id, Live) :: os_status os;
     os_held := (id, true) :: os_held os |}.
