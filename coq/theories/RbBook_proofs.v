(* Theorems about the bookkeeping model of the rollback log (RbBook.v).  See the end of the file for the
   statements that are pinned in Props/C09.v. *)
From Coq Require Import List Bool Arith NArith Lia.
Import ListNotations.
From Nomt Require Import RbBook.
Local Open Scope N_scope.

(* ---- generic list facts ------------------------------------------------------------------------- *)
Lemma filter_all_true : forall {A} (f : A -> bool) l, (forall x, In x l -> f x = true) -> filter f l = l.
Proof.
  intros A f l. induction l as [|x r IH]; intros H; cbn [filter].
  - reflexivity.
  - rewrite (H x (or_introl eq_refl)). f_equal. apply IH. intros y Hy. apply H. right. exact Hy.
Qed.

Lemma filter_all_false : forall {A} (f : A -> bool) l, (forall x, In x l -> f x = false) -> filter f l = [].
Proof.
  intros A f l. induction l as [|x r IH]; intros H; cbn [filter].
  - reflexivity.
  - rewrite (H x (or_introl eq_refl)). apply IH. intros y Hy. apply H. right. exact Hy.
Qed.

Lemma filter_filter : forall {A} (f g : A -> bool) l, filter f (filter g l) = filter (fun x => g x && f x) l.
Proof.
  intros A f g l. induction l as [|x r IH]; cbn [filter].
  - reflexivity.
  - destruct (g x); cbn [filter andb].
    + destruct (f x); [f_equal|]; exact IH.
    + exact IH.
Qed.

Lemma filter_cons1 : forall {A} (f : A -> bool) x l, filter f (x :: l) = if f x then x :: filter f l else filter f l.
Proof. reflexivity. Qed.

Lemma last_opt_snoc : forall {A} (l : list A) x, last_opt (l ++ [x]) = Some x.
Proof.
  intros A l x. induction l as [|y r IH].
  - reflexivity.
  - cbn [app]. destruct r as [|z r'].
    + reflexivity.
    + cbn [app] in *. cbn [last_opt]. exact IH.
Qed.

Lemma upd_last_snoc : forall {A} (f : A -> A) (l : list A) x, upd_last f (l ++ [x]) = l ++ [f x].
Proof.
  intros A f l x. induction l as [|y r IH].
  - reflexivity.
  - cbn [app]. destruct r as [|z r'].
    + reflexivity.
    + cbn [app] in *. cbn [upd_last]. f_equal. exact IH.
Qed.

(* ---- runs of consecutive ids ---------------------------------------------------------------------- *)
Definition idl (l : list brec) : list N := map br_id l.

(* l = [p; p+1; ...; q], not empty *)
Fixpoint run (p : N) (l : list N) (q : N) : Prop :=
  match l with
  | [] => False
  | x :: r => x = p /\ match r with [] => p = q | _ :: _ => run (p + 1) r q end
  end.

Lemma run_le : forall l p q, run p l q -> p <= q.
Proof.
  induction l as [|x r IH]; intros p q H; cbn [run] in H.
  - contradiction.
  - destruct H as [_ H]. destruct r as [|y r'].
    + lia.
    + apply IH in H. lia.
Qed.

Lemma run_bounds : forall l p q, run p l q -> forall x, In x l -> p <= x <= q.
Proof.
  induction l as [|x r IH]; intros p q H y Hy.
  - contradiction.
  - cbn [run] in H. destruct H as [Hx H]. destruct r as [|z r'].
    + destruct Hy as [Hy|[]]. lia.
    + destruct Hy as [Hy|Hy].
      * apply run_le in H. lia.
      * apply (IH _ _ H) in Hy. lia.
Qed.

Lemma run_app : forall l1 p q l2 e, run p l1 q -> run (q + 1) l2 e -> run p (l1 ++ l2) e.
Proof.
  induction l1 as [|x r IH]; intros p q l2 e H1 H2.
  - contradiction.
  - cbn [run] in H1. destruct H1 as [Hx H1]. destruct r as [|z r'].
    + subst. cbn [app]. cbn [run]. split; [reflexivity|]. destruct l2 as [|y l2']; [contradiction|]. exact H2.
    + cbn [app]. cbn [run]. split; [exact Hx|]. cbn [app] in IH. apply (IH _ _ _ _ H1 H2).
Qed.

Lemma run_single : forall p, run p [p] p.
Proof. intros p. cbn. split; reflexivity. Qed.

Lemma run_snoc : forall l p q, run p l q -> run p (l ++ [q + 1]) (q + 1).
Proof. intros l p q H. apply (run_app _ _ _ _ _ H). apply run_single. Qed.

Lemma run_in_last : forall l p q, run p l q -> In q l.
Proof.
  induction l as [|x r IH]; intros p q H.
  - contradiction.
  - cbn [run] in H. destruct H as [Hx H]. destruct r as [|z r'].
    + left. lia.
    + right. apply (IH _ _ H).
Qed.

Lemma run_head : forall x r p q, run p (x :: r) q -> x = p.
Proof. intros x r p q [H _]. exact H. Qed.

(* a run that continues as another run splits where the first one ends *)
Lemma run_app_inv : forall l1 p q l2 e, run p l1 q -> run p (l1 ++ l2) e -> l2 <> [] -> run (q + 1) l2 e.
Proof.
  induction l1 as [|x r IH]; intros p q l2 e H1 H2 Hne.
  - contradiction.
  - cbn [run] in H1. destruct H1 as [Hx H1]. cbn [app] in H2. cbn [run] in H2. destruct H2 as [_ H2].
    destruct r as [|z r'].
    + subst. cbn [app] in H2. destruct l2 as [|y l2']; [congruence|]. exact H2.
    + cbn [app] in H2. apply (IH _ _ _ _ H1 H2 Hne).
Qed.

(* filters by a threshold on lists of records whose ids form a run *)
Lemma filter_ge_all : forall l p q a, run p (idl l) q -> a <= p -> filter (fun r => a <=? br_id r) l = l.
Proof.
  intros l p q a H Ha. apply filter_all_true. intros x Hx.
  assert (In (br_id x) (idl l)) by (apply in_map; exact Hx).
  apply (run_bounds _ _ _ H) in H0. apply N.leb_le. lia.
Qed.

Lemma filter_ge_none : forall l p q a, run p (idl l) q -> q < a -> filter (fun r => a <=? br_id r) l = [].
Proof.
  intros l p q a H Ha. apply filter_all_false. intros x Hx.
  assert (In (br_id x) (idl l)) by (apply in_map; exact Hx).
  apply (run_bounds _ _ _ H) in H0. apply N.leb_gt. lia.
Qed.

Lemma filter_le_all : forall l p q a, run p (idl l) q -> q <= a -> filter (fun r => br_id r <=? a) l = l.
Proof.
  intros l p q a H Ha. apply filter_all_true. intros x Hx.
  assert (In (br_id x) (idl l)) by (apply in_map; exact Hx).
  apply (run_bounds _ _ _ H) in H0. apply N.leb_le. lia.
Qed.

Lemma filter_le_none : forall l p q a, run p (idl l) q -> a < p -> filter (fun r => br_id r <=? a) l = [].
Proof.
  intros l p q a H Ha. apply filter_all_false. intros x Hx.
  assert (In (br_id x) (idl l)) by (apply in_map; exact Hx).
  apply (run_bounds _ _ _ H) in H0. apply N.leb_gt. lia.
Qed.

(* ---- the segment files hold the records p .. e, in order, cut into non-empty segments with exact
   min / max and consecutive segment ids ----------------------------------------------------------- *)
Fixpoint chain (segs : list bseg) (p e : N) : Prop :=
  match segs with
  | [] => False
  | g :: rest =>
      sg_min g = p /\ run p (idl (sg_recs g)) (sg_max g) /\
      match rest with
      | [] => sg_max g = e
      | g' :: _ => sg_id g' = sg_id g + 1 /\ chain rest (sg_max g + 1) e
      end
  end.

Lemma chain_le : forall segs p e, chain segs p e -> p <= e.
Proof.
  induction segs as [|g rest IH]; intros p e H.
  - contradiction.
  - cbn [chain] in H. destruct H as [_ [Hr H]]. apply run_le in Hr. destruct rest as [|g' rest'].
    + lia.
    + destruct H as [_ H]. apply IH in H. lia.
Qed.

Lemma phys_cons : forall g rest, phys (g :: rest) = sg_recs g ++ phys rest.
Proof. reflexivity. Qed.

Lemma phys_app : forall a b, phys (a ++ b) = phys a ++ phys b.
Proof. intros a b. unfold phys. apply flat_map_app. Qed.

Lemma phys_single : forall g, phys [g] = sg_recs g.
Proof. intros g. unfold phys. cbn. apply app_nil_r. Qed.

Lemma idl_app : forall a b, idl (a ++ b) = idl a ++ idl b.
Proof. intros. apply map_app. Qed.

Lemma chain_phys_run : forall segs p e, chain segs p e -> run p (idl (phys segs)) e.
Proof.
  induction segs as [|g rest IH]; intros p e H.
  - contradiction.
  - cbn [chain] in H. destruct H as [_ [Hr H]]. rewrite phys_cons, idl_app. destruct rest as [|g' rest'].
    + subst e. unfold phys. cbn [flat_map]. unfold idl at 2. cbn [map]. rewrite app_nil_r. exact Hr.
    + destruct H as [_ H]. apply IH in H. apply (run_app _ _ _ _ _ Hr H).
Qed.

Lemma chain_last_inv : forall init g p e, chain (init ++ [g]) p e ->
  sg_max g = e /\ run (sg_min g) (idl (sg_recs g)) e /\
  ((init = [] /\ sg_min g = p) \/
   exists q gl, chain init p q /\ last_opt init = Some gl /\ sg_id g = sg_id gl + 1 /\ sg_min g = q + 1).
Proof.
  induction init as [|h r IH]; intros g p e H.
  - cbn [app chain] in H. destruct H as [Hm [Hr He]]. subst e. rewrite Hm. split; [reflexivity|]. split; [exact Hr|].
    left. split; reflexivity.
  - cbn [app] in H. cbn [chain] in H. destruct H as [Hm [Hr H]].
    destruct r as [|h' r'].
    + cbn [app] in H. destruct H as [Hid H]. cbn [chain] in H. destruct H as [Hm' [Hr' He]].
      split; [exact He|]. split; [rewrite Hm', <- He; exact Hr'|].
      right. exists (sg_max h), h. split; [|split; [reflexivity|split; [exact Hid|exact Hm']]].
      cbn [chain]. split; [exact Hm|]. split; [exact Hr|reflexivity].
    + cbn [app] in H. destruct H as [Hid H]. specialize (IH g (sg_max h + 1) e H).
      destruct IH as [He [Hrg [[Hnil _]|[q [gl [Hc [Hl [Hidg Hmg]]]]]]]]; [discriminate|].
      split; [exact He|]. split; [exact Hrg|]. right. exists q, gl.
      split; [|split; [exact Hl|split; [exact Hidg|exact Hmg]]].
      cbn [chain]. split; [exact Hm|]. split; [exact Hr|]. split; [exact Hid|exact Hc].
Qed.

Lemma chain_last_intro : forall init g p e,
  sg_max g = e -> run (sg_min g) (idl (sg_recs g)) e ->
  ((init = [] /\ sg_min g = p) \/
   exists q gl, chain init p q /\ last_opt init = Some gl /\ sg_id g = sg_id gl + 1 /\ sg_min g = q + 1) ->
  chain (init ++ [g]) p e.
Proof.
  induction init as [|h r IH]; intros g p e He Hr Hc.
  - destruct Hc as [[_ Hm]|[q [gl [Hc _]]]]; [|contradiction].
    cbn [app chain]. split; [exact Hm|]. split; [rewrite <- Hm, He; exact Hr|exact He].
  - destruct Hc as [[Hnil _]|[q [gl [Hc [Hl [Hid Hm]]]]]]; [discriminate|].
    cbn [chain] in Hc. destruct Hc as [Hmh [Hrh Hc]]. cbn [app]. cbn [chain].
    split; [exact Hmh|]. split; [exact Hrh|].
    destruct r as [|h' r'].
    + cbn [app]. cbn [last_opt] in Hl. injection Hl as Hl. subst gl. subst q. split; [exact Hid|].
      cbn [chain]. split; [exact Hm|]. split; [rewrite <- Hm, He; exact Hr|exact He].
    + cbn [app]. destruct Hc as [Hidh Hc]. split; [exact Hidh|].
      apply (IH g (sg_max h + 1) e He Hr). right. exists q, gl.
      split; [exact Hc|]. split; [exact Hl|]. split; [exact Hid|exact Hm].
Qed.

(* ---- SegmentedLog::append ---------------------------------------------------------------------------- *)
Definition mkrec (id tag len : N) : brec := {| br_id := id; br_tag := tag; br_len := len |}.

Lemma append_empty : forall segsz tag len,
  exists g, log_append segsz log_empty tag len = ({| l_start := 1; l_end := 1; l_segs := [g] |}, 1) /\
            chain [g] 1 1 /\ sg_recs g = [mkrec 1 tag len].
Proof.
  intros segsz tag len. eexists. split; [reflexivity|]. split; [|reflexivity].
  cbn. repeat split; reflexivity.
Qed.

Lemma append_chain : forall segsz st e segs tag len p,
  chain segs p e -> p <> 0 ->
  exists segs', log_append segsz {| l_start := st; l_end := e; l_segs := segs |} tag len =
                  ({| l_start := if N.eqb st 0 then e + 1 else st; l_end := e + 1; l_segs := segs' |}, e + 1) /\
                chain segs' p (e + 1) /\ phys segs' = phys segs ++ [mkrec (e + 1) tag len].
Proof.
  intros segsz st e segs tag len p Hc Hp.
  destruct segs as [|g0 r0]; [contradiction|].
  destruct (@exists_last _ (g0 :: r0)) as [init [g Heq]]; [discriminate|]. rewrite Heq in *. clear Heq g0 r0.
  unfold log_append. cbn [l_segs l_end l_start]. unfold head_full, next_seg_id. rewrite last_opt_snoc.
  pose proof (chain_last_inv _ _ _ _ Hc) as [Hmax [Hrun Halt]].
  assert (Hmin : sg_min g <> 0).
  { destruct Halt as [[_ Hm]|[q [gl [_ [_ [_ Hm]]]]]]; lia. }
  destruct (N.leb segsz (4096 * seg_blocks g)).
  - (* the head is full: a new segment *)
    rewrite upd_last_snoc. eexists. split; [reflexivity|]. cbn [sg_id sg_min sg_max sg_recs app].
    split.
    + apply chain_last_intro.
      * reflexivity.
      * cbn [sg_min sg_recs sg_max]. destruct (N.eqb (e + 1) 0); unfold idl; cbn [map br_id]; apply run_single.
      * right. exists e, g. split; [exact Hc|]. split; [apply last_opt_snoc|]. split; [reflexivity|].
        cbn [sg_min]. destruct (N.eqb (e + 1) 0); reflexivity.
    + rewrite phys_app, phys_single. reflexivity.
  - rewrite upd_last_snoc. eexists. split; [reflexivity|].
    apply N.eqb_neq in Hmin. rewrite Hmin. apply N.eqb_neq in Hmin.
    split.
    + apply chain_last_intro.
      * reflexivity.
      * cbn [sg_min sg_recs sg_max]. rewrite idl_app. unfold idl at 2. cbn [map br_id]. apply run_snoc. exact Hrun.
      * cbn [sg_min sg_id]. exact Halt.
    + rewrite !phys_app, !phys_single. cbn [sg_recs]. rewrite app_assoc. reflexivity.
Qed.

(* ---- prune_oldest ----------------------------------------------------------------------------------- *)
Lemma drop_old_cons2 : forall ns g g' r,
  drop_old ns (g :: g' :: r) = if N.ltb (sg_max g) ns then drop_old ns (g' :: r) else g :: g' :: r.
Proof. reflexivity. Qed.

Lemma drop_old_chain : forall ns segs p e, chain segs p e ->
  exists p', chain (drop_old ns segs) p' e /\ p <= p' /\
    forall a, ns <= a -> filter (fun r => a <=? br_id r) (phys (drop_old ns segs)) = filter (fun r => a <=? br_id r) (phys segs).
Proof.
  intros ns. induction segs as [|g rest IH]; intros p e H.
  - contradiction.
  - destruct rest as [|g' r'].
    + exists p. split; [exact H|]. split; [lia|]. intros; reflexivity.
    + rewrite drop_old_cons2. destruct (N.ltb (sg_max g) ns) eqn:E.
      * cbn [chain] in H. destruct H as [Hm [Hr [Hid Hc]]].
        destruct (IH _ _ Hc) as [p' [Hc' [Hp' Hf]]]. exists p'. split; [exact Hc'|].
        pose proof (run_le _ _ _ Hr) as Hle. split; [lia|]. intros a Ha. rewrite (Hf a Ha).
        rewrite (phys_cons g). rewrite filter_app.
        apply N.ltb_lt in E.
        rewrite (filter_ge_none _ _ _ a Hr); [reflexivity|lia].
      * exists p. split; [exact H|]. split; [lia|]. intros; reflexivity.
Qed.

(* ---- prune_recent ----------------------------------------------------------------------------------- *)
Lemma cut_at_run : forall recs p q ne, run p (idl recs) q -> p <= ne <= q ->
  exists pre, cut_at ne recs = Some pre /\ run p (idl pre) ne /\ pre = filter (fun r => br_id r <=? ne) recs.
Proof.
  induction recs as [|r rest IH]; intros p q ne H Hb.
  - contradiction.
  - unfold idl in H. cbn [map] in H. fold (idl rest) in H. cbn [run] in H. destruct H as [Hid H].
    cbn [cut_at filter]. destruct (N.eqb (br_id r) ne) eqn:E.
    + apply N.eqb_eq in E. exists [r]. split; [reflexivity|]. split.
      * unfold idl. cbn [map]. rewrite Hid. replace ne with p by lia. apply run_single.
      * replace (br_id r <=? ne) with true by (symmetry; apply N.leb_le; lia). f_equal.
        destruct rest as [|r2 rest2]; [reflexivity|].
        cbn [idl map] in H. symmetry. apply (filter_le_none _ (p + 1) q); [exact H|lia].
    + apply N.eqb_neq in E. destruct rest as [|r2 rest2].
      * cbn [idl map] in H. exfalso. lia.
      * cbn [idl map] in H. destruct (IH (p + 1) q ne H) as [pre [Hc [Hr Hf]]]; [lia|].
        rewrite Hc. exists (r :: pre). split; [reflexivity|]. split.
        -- unfold idl. cbn [map]. fold (idl pre). cbn [run]. split; [exact Hid|].
           destruct (idl pre) eqn:Ep; [contradiction|]. exact Hr.
        -- replace (br_id r <=? ne) with true by (symmetry; apply N.leb_le; lia). f_equal. exact Hf.
Qed.

Lemma cut_at_last : forall recs p q, run p (idl recs) q -> cut_at q recs = Some recs.
Proof.
  intros recs p q H. pose proof (run_le _ _ _ H) as Hle.
  destruct (cut_at_run recs p q q H) as [pre [Hc [_ Hf]]]; [lia|].
  rewrite Hc. f_equal. rewrite Hf. apply (filter_le_all _ p q); [exact H|lia].
Qed.

Lemma prune_recent_chain : forall ne segs p e, chain segs p e -> p <= ne <= e ->
  exists segs', cut_head ne (drop_new ne (rev segs)) = BOk (rev segs') /\ chain segs' p ne /\
                phys segs' = filter (fun r => br_id r <=? ne) (phys segs).
Proof.
  intros ne. induction segs as [|g init IH] using rev_ind; intros p e Hc Hb.
  - contradiction.
  - pose proof (chain_last_inv _ _ _ _ Hc) as [Hmax [Hrun Halt]].
    rewrite rev_unit. destruct Halt as [[Hnil Hm]|[q [gl [Hci [Hl [Hid Hm]]]]]].
    + subst init. cbn [rev drop_new cut_head]. rewrite Hm in Hrun.
      destruct (cut_at_run _ _ _ ne Hrun Hb) as [pre [Hcut [Hr Hf]]]. rewrite Hcut.
      eexists [_]. split; [reflexivity|]. split.
      * cbn [chain sg_min sg_recs sg_max]. split; [exact Hm|]. split; [exact Hr|reflexivity].
      * cbn [app]. rewrite !phys_single. cbn [sg_recs]. exact Hf.
    + destruct (rev init) as [|h t] eqn:Erev.
      { destruct init; [contradiction|]. apply (f_equal (@length _)) in Erev. rewrite rev_length in Erev. discriminate. }
      cbn [drop_new]. destruct (N.leb (sg_min g) ne) eqn:E.
      * apply N.leb_le in E. cbn [cut_head]. rewrite Hm in Hrun.
        destruct (cut_at_run _ _ _ ne Hrun) as [pre [Hcut [Hr Hf]]]; [lia|]. rewrite Hcut.
        exists (init ++ [{| sg_id := sg_id g; sg_min := sg_min g; sg_max := ne; sg_recs := pre |}]).
        split; [rewrite rev_unit, Erev; reflexivity|]. split.
        -- apply chain_last_intro.
           ++ reflexivity.
           ++ cbn [sg_min sg_recs]. rewrite Hm. exact Hr.
           ++ right. exists q, gl. cbn [sg_id sg_min]. repeat split; assumption.
        -- rewrite !phys_app, !phys_single. cbn [sg_recs]. rewrite filter_app. rewrite <- Hf. f_equal.
           symmetry. apply (filter_le_all _ p q); [apply chain_phys_run; exact Hci|lia].
      * apply N.leb_gt in E. pose proof (chain_le _ _ _ Hci) as Hle.
        destruct (IH p q Hci) as [segs' [Hcut [Hc' Hf]]]; [lia|].
        exists segs'. split; [exact Hcut|]. split; [exact Hc'|].
        rewrite phys_app, phys_single, filter_app, <- Hf.
        rewrite Hm in Hrun. rewrite (filter_le_none _ _ _ ne Hrun); [rewrite app_nil_r; reflexivity|lia].
Qed.

(* ---- seglog::open: the scan ------------------------------------------------------------------------- *)
Lemma rec_step_ok : forall ms me idx st r,
  sc_le st = None ->
  match sc_last st with None => True | Some l => l + 1 = br_id r end ->
  match sc_mx st with None => True | Some m => m < br_id r end ->
  ms <= me -> br_id r <= me ->
  rec_step ms me idx st r = BOk
    {| sc_ls := if is_some (sc_ls st) then sc_ls st else if ms <=? br_id r then Some idx else None;
       sc_le := if me =? br_id r then Some idx else None;
       sc_loaded := sc_loaded st ++ (if is_some (sc_ls st) || (ms <=? br_id r) then [proj r] else []);
       sc_last := Some (br_id r);
       sc_mn := match sc_mn st with None => Some (br_id r) | m => m end;
       sc_mx := Some (br_id r) |}.
Proof.
  intros ms me idx [ls le loaded last mn mx] r Hle Hlast Hmx Hmm Hr.
  cbn [sc_ls sc_le sc_loaded sc_last sc_mn sc_mx] in *. subst le.
  unfold rec_step. cbn [sc_ls sc_le sc_loaded sc_last sc_mn sc_mx].
  assert (Hl : match last with Some l => negb (br_id r =? l + 1) | None => false end = false).
  { destruct last as [l|]; [|reflexivity]. rewrite <- Hlast. rewrite N.eqb_refl. reflexivity. }
  rewrite Hl. clear Hl Hlast.
  assert (Hx : match mx with None => Some (br_id r) | Some m => Some (if m <? br_id r then br_id r else m) end = Some (br_id r)).
  { destruct mx as [m|]; [|reflexivity]. apply N.ltb_lt in Hmx. rewrite Hmx. reflexivity. }
  rewrite Hx. clear Hx Hmx.
  destruct ls as [a|]; cbn [is_some negb andb orb].
  - destruct (N.leb_spec me (br_id r)); destruct (N.eqb_spec me (br_id r));
      try (exfalso; lia); rewrite ?orb_true_r, ?app_nil_r; reflexivity.
  - destruct (N.leb_spec ms (br_id r)); cbn [is_some negb andb orb];
    destruct (N.leb_spec me (br_id r)); destruct (N.eqb_spec me (br_id r));
      try (exfalso; lia); rewrite ?app_nil_r; reflexivity.
Qed.

Lemma scan_recs_run : forall ms me idx recs q q' st,
  run q (idl recs) q' -> q' <= me -> ms <= me ->
  sc_le st = None ->
  match sc_last st with None => True | Some l => l + 1 = q end ->
  match sc_mx st with None => True | Some m => m < q end ->
  scan_recs ms me idx recs st = BOk
    {| sc_ls := if is_some (sc_ls st) then sc_ls st else if ms <=? q' then Some idx else None;
       sc_le := if me =? q' then Some idx else None;
       sc_loaded := sc_loaded st ++ map proj (filter (fun r => is_some (sc_ls st) || (ms <=? br_id r)) recs);
       sc_last := Some q';
       sc_mn := match sc_mn st with None => Some q | m => m end;
       sc_mx := Some q' |}.
Proof.
  intros ms me idx. induction recs as [|r rest IH]; intros q q' st Hrun Hq' Hmm Hle Hlast Hmx.
  - contradiction.
  - unfold idl in Hrun. cbn [map] in Hrun. fold (idl rest) in Hrun. cbn [run] in Hrun. destruct Hrun as [Hid Hrun].
    cbn [scan_recs]. rewrite Hle.
    destruct rest as [|r2 rest2].
    + cbn [idl map] in Hrun. subst q'. rewrite <- Hid in *.
      rewrite (rec_step_ok ms me idx st r Hle Hlast Hmx Hmm Hq'). cbn [scan_recs filter].
      destruct (is_some (sc_ls st) || (ms <=? br_id r)); cbn [map]; reflexivity.
    + pose proof (run_le _ _ _ Hrun) as Hlt. rewrite <- Hid in *.
      rewrite (rec_step_ok ms me idx st r Hle Hlast Hmx Hmm); [|lia].
      assert (Hne : (me =? br_id r) = false) by (apply N.eqb_neq; lia).
      rewrite Hne.
      rewrite (IH (br_id r + 1) q'); cbn [sc_ls sc_le sc_loaded sc_last sc_mn sc_mx]; try assumption; try reflexivity; try lia.
      f_equal. f_equal.
      * destruct (sc_ls st) as [a|]; cbn [is_some]; [reflexivity|].
        destruct (ms <=? br_id r) eqn:E0; cbn [is_some]; [|reflexivity].
        apply N.leb_le in E0. replace (ms <=? q') with true by (symmetry; apply N.leb_le; lia). reflexivity.
      * rewrite <- app_assoc. f_equal.
        assert (Hext : filter (fun r0 => is_some (if is_some (sc_ls st) then sc_ls st else if ms <=? br_id r then Some idx else None) || (ms <=? br_id r0)) (r2 :: rest2)
                     = filter (fun r0 => is_some (sc_ls st) || (ms <=? br_id r0)) (r2 :: rest2)).
        { apply filter_ext_in. intros x Hx.
          assert (Hb : In (br_id x) (idl (r2 :: rest2))) by (apply in_map; exact Hx).
          apply (run_bounds _ _ _ Hrun) in Hb.
          destruct (sc_ls st) as [a|]; cbn [is_some]; [reflexivity|].
          destruct (ms <=? br_id r) eqn:E0; cbn [is_some orb]; [|reflexivity].
          apply N.leb_le in E0. symmetry. apply N.leb_le. lia. }
        rewrite Hext. rewrite (filter_cons1 _ r).
        destruct (is_some (sc_ls st) || (ms <=? br_id r)); cbn [map app]; reflexivity.
      * destruct (sc_mn st); reflexivity.
Qed.

(* number of leading segments that prune_oldest / the open scan leave behind *)
Fixpoint nbelow (ms : N) (segs : list bseg) : nat :=
  match segs with
  | g :: ((_ :: _) as rest) => if N.ltb (sg_max g) ms then S (nbelow ms rest) else O
  | _ => O
  end.

Lemma skipn_nbelow : forall ms segs, skipn (nbelow ms segs) segs = drop_old ms segs.
Proof.
  intros ms. induction segs as [|g rest IH].
  - reflexivity.
  - destruct rest as [|g' r'].
    + reflexivity.
    + rewrite drop_old_cons2. change (nbelow ms (g :: g' :: r')) with (if N.ltb (sg_max g) ms then S (nbelow ms (g' :: r')) else O).
      destruct (N.ltb (sg_max g) ms).
      * cbn [skipn]. exact IH.
      * reflexivity.
Qed.

Lemma nbelow_lt : forall ms segs, segs <> [] -> (nbelow ms segs < length segs)%nat.
Proof.
  intros ms. induction segs as [|g rest IH]; intros Hne.
  - congruence.
  - destruct rest as [|g' r'].
    + cbn. lia.
    + change (nbelow ms (g :: g' :: r')) with (if N.ltb (sg_max g) ms then S (nbelow ms (g' :: r')) else O).
      destruct (N.ltb (sg_max g) ms).
      * assert (g' :: r' <> []) by discriminate. apply IH in H. cbn [length] in *. lia.
      * cbn [length]. lia.
Qed.

Lemma seg_eta : forall g p, sg_min g = p ->
  {| sg_id := sg_id g; sg_min := p; sg_max := sg_max g; sg_recs := sg_recs g |} = g.
Proof. intros [i mn mx recs] p H. cbn in *. subst. reflexivity. Qed.

Lemma scan_segs_chain : forall ms e segs p idx st,
  chain segs p e -> ms <= e -> sc_le st = None ->
  exists st', scan_segs ms e idx segs st = BOk (st', segs) /\
    sc_loaded st' = sc_loaded st ++ map proj (filter (fun r => is_some (sc_ls st) || (ms <=? br_id r)) (phys segs)) /\
    sc_ls st' = (if is_some (sc_ls st) then sc_ls st else Some (idx + nbelow ms segs)%nat) /\
    sc_le st' = Some (idx + length segs - 1)%nat.
Proof.
  intros ms e. induction segs as [|g rest IH]; intros p idx st Hc Hms Hle.
  - contradiction.
  - cbn [chain] in Hc. destruct Hc as [Hmin [Hrun Hc]].
    assert (Hmax : sg_max g <= e).
    { destruct rest as [|g2 r2]; [lia|]. destruct Hc as [_ Hc]. apply chain_le in Hc. lia. }
    cbn [scan_segs].
    rewrite (scan_recs_run ms e idx (sg_recs g) p (sg_max g)); cbn [sc_ls sc_le sc_loaded sc_last sc_mn sc_mx];
      try assumption; try exact I.
    cbn [opt_or0]. rewrite (seg_eta g p Hmin).
    destruct rest as [|g2 r2].
    + subst e. rewrite N.eqb_refl. cbn [scan_segs]. eexists. split; [reflexivity|].
      cbn [sc_ls sc_le sc_loaded]. rewrite phys_single. split; [reflexivity|]. split.
      * destruct (sc_ls st); cbn [is_some]; [reflexivity|].
        replace (ms <=? sg_max g) with true by (symmetry; apply N.leb_le; lia).
        cbn [nbelow]. rewrite Nat.add_0_r. reflexivity.
      * f_equal. cbn [length]. lia.
    + destruct Hc as [Hid Hc]. pose proof (chain_le _ _ _ Hc) as Hlt.
      replace (e =? sg_max g) with false by (symmetry; apply N.eqb_neq; lia).
      match goal with |- context [scan_segs ms e (S idx) (g2 :: r2) ?s] => destruct (IH (sg_max g + 1) (S idx) s Hc Hms eq_refl) as [st2 [Hs [Hl [Hls Hle2]]]] end.
      rewrite Hs. exists st2. split; [reflexivity|].
      cbn [sc_ls sc_le sc_loaded] in Hl, Hls, Hle2.
      split; [|split].
      * rewrite Hl. rewrite <- app_assoc. f_equal. rewrite (phys_cons g), filter_app, map_app. f_equal. f_equal.
        apply filter_ext_in. intros x Hx.
        assert (Hb : In (br_id x) (idl (phys (g2 :: r2)))) by (apply in_map; exact Hx).
        apply (run_bounds _ _ _ (chain_phys_run _ _ _ Hc)) in Hb.
        destruct (sc_ls st) as [a|]; cbn [is_some]; [reflexivity|].
        destruct (N.leb_spec ms (sg_max g)); cbn [is_some orb]; [|reflexivity].
        symmetry. apply N.leb_le. lia.
      * rewrite Hls. destruct (sc_ls st) as [a|]; cbn [is_some]; [reflexivity|].
        change (nbelow ms (g :: g2 :: r2)) with (if N.ltb (sg_max g) ms then S (nbelow ms (g2 :: r2)) else O).
        destruct (N.leb_spec ms (sg_max g)); destruct (N.ltb_spec (sg_max g) ms); try (exfalso; lia); cbn [is_some].
        -- rewrite Nat.add_0_r. reflexivity.
        -- f_equal. lia.
      * rewrite Hle2. f_equal. cbn [length]. lia.
Qed.

Lemma chain_gapless : forall segs p e, chain segs p e -> gapless segs = true.
Proof.
  induction segs as [|g rest IH]; intros p e H.
  - reflexivity.
  - destruct rest as [|g2 r2]; [reflexivity|].
    cbn [chain] in H. destruct H as [_ [_ [Hid Hc]]].
    change (gapless (g :: g2 :: r2)) with (N.eqb (sg_id g) (sg_id g2 - 1) && gapless (g2 :: r2)).
    rewrite (IH _ _ Hc). rewrite Hid. replace (sg_id g + 1 - 1) with (sg_id g) by lia. rewrite N.eqb_refl. reflexivity.
Qed.

Lemma cut_head_chain : forall segs p e, chain segs p e -> cut_head e (rev segs) = BOk (rev segs).
Proof.
  intros segs p e H. destruct segs as [|g0 r0]; [contradiction|].
  destruct (@exists_last _ (g0 :: r0)) as [init [g Heq]]; [discriminate|]. rewrite Heq in *. clear Heq g0 r0.
  pose proof (chain_last_inv _ _ _ _ H) as [Hmax [Hrun _]].
  rewrite rev_unit. cbn [cut_head]. rewrite (cut_at_last _ _ _ Hrun).
  destruct g as [i mn mx recs]. cbn in *. subst. reflexivity.
Qed.

Lemma log_open_chain : forall ms e segs p, chain segs p e -> ms <> 0 -> ms <= e ->
  log_open ms e segs =
    BOk ({| l_start := ms; l_end := e; l_segs := drop_old ms segs |}, map proj (filter (fun r => ms <=? br_id r) (phys segs))).
Proof.
  intros ms e segs p Hc Hms Hle. unfold log_open.
  replace (ms =? 0) with false by (symmetry; apply N.eqb_neq; lia).
  replace (e =? 0) with false by (symmetry; apply N.eqb_neq; lia).
  cbn [xorb].
  destruct (scan_segs_chain ms e segs p 0%nat scan_init Hc Hle eq_refl) as [st' [Hs [Hl [Hls Hle']]]].
  rewrite Hs. cbn [scan_init sc_ls sc_le sc_loaded is_some app orb] in Hl, Hls, Hle'.
  rewrite Hls, Hle'. cbn [Nat.add].
  assert (Hne : segs <> []) by (destruct segs; [contradiction|discriminate]).
  pose proof (nbelow_lt ms segs Hne) as Hlt.
  assert (Hlive : firstn (S (length segs - 1) - nbelow ms segs) (skipn (nbelow ms segs) segs) = drop_old ms segs).
  { rewrite firstn_all2; [apply skipn_nbelow|]. rewrite skipn_length. lia. }
  rewrite Hlive.
  destruct (drop_old_chain ms segs p e Hc) as [p' [Hc' _]].
  rewrite (chain_gapless _ _ _ Hc'). cbn [negb].
  rewrite (cut_head_chain _ _ _ Hc'). rewrite rev_involutive. rewrite Hl. reflexivity.
Qed.

(* ---- thresholds on increasing lists ----------------------------------------------------------------- *)
Definition ge_f (a : N) : brec -> bool := fun r => a <=? br_id r.

Lemma run_mid : forall l1 x l2 p q, run p (idl (l1 ++ x :: l2)) q ->
  (forall y, In y l1 -> br_id y < br_id x) /\ (forall y, In y l2 -> br_id x < br_id y) /\ p <= br_id x <= q.
Proof.
  induction l1 as [|y l1' IH]; intros x l2 p q H.
  - cbn [app] in H. unfold idl in H. cbn [map] in H. fold (idl l2) in H. cbn [run] in H. destruct H as [Hx H].
    split; [intros y []|]. destruct l2 as [|z l2'].
    + cbn [idl map] in H. split; [intros y []|lia].
    + cbn [idl map] in H. pose proof (run_le _ _ _ H) as Hle. split; [|lia]. intros w Hw.
      assert (Hb : In (br_id w) (idl (z :: l2'))) by (apply in_map; exact Hw).
      apply (run_bounds _ _ _ H) in Hb. lia.
  - cbn [app] in H. unfold idl in H. cbn [map] in H. fold (idl (l1' ++ x :: l2)) in H. cbn [run] in H. destruct H as [Hy H].
    destruct (idl (l1' ++ x :: l2)) eqn:E.
    { destruct l1'; discriminate. }
    rewrite <- E in H. destruct (IH x l2 (p + 1) q H) as [H1 [H2 H3]].
    split; [|split; [exact H2|lia]].
    intros w [Hw|Hw]; [subst w; lia|apply H1; exact Hw].
Qed.

Lemma filter_after : forall l1 x l2 p q, run p (idl (l1 ++ x :: l2)) q ->
  filter (ge_f (br_id x + 1)) (l1 ++ x :: l2) = l2.
Proof.
  intros l1 x l2 p q H. destruct (run_mid _ _ _ _ _ H) as [H1 [H2 _]].
  rewrite filter_app. rewrite filter_all_false.
  - cbn [app]. rewrite filter_cons1. unfold ge_f at 1. replace (br_id x + 1 <=? br_id x) with false by (symmetry; apply N.leb_gt; lia).
    apply filter_all_true. intros y Hy. apply H2 in Hy. apply N.leb_le. lia.
  - intros y Hy. apply H1 in Hy. apply N.leb_gt. lia.
Qed.

Lemma filter_before : forall l1 x l2 p q, run p (idl (l1 ++ x :: l2)) q -> br_id x <> 0 ->
  filter (fun r => br_id r <=? N.pred (br_id x)) (l1 ++ x :: l2) = l1.
Proof.
  intros l1 x l2 p q H Hx. destruct (run_mid _ _ _ _ _ H) as [H1 [H2 _]].
  rewrite filter_app. rewrite (filter_all_true _ l1).
  - rewrite filter_cons1. replace (br_id x <=? N.pred (br_id x)) with false by (symmetry; apply N.leb_gt; lia).
    rewrite filter_all_false; [apply app_nil_r|]. intros y Hy. apply H2 in Hy. apply N.leb_gt. lia.
  - intros y Hy. apply H1 in Hy. apply N.leb_le. lia.
Qed.

Lemma filter_ge_two : forall l p q a b, run p (idl l) q -> a <= b ->
  exists E, filter (ge_f a) l = E ++ filter (ge_f b) l /\ forall y, In y E -> a <= br_id y < b.
Proof.
  induction l as [|r rest IH]; intros p q a b H Hab.
  - contradiction.
  - destruct (N.leb_spec b p) as [Hb|Hb].
    + exists []. split; [|intros y []]. cbn [app]. unfold ge_f.
      rewrite (filter_ge_all _ p q a H); [|lia]. rewrite (filter_ge_all _ p q b H); [reflexivity|lia].
    + unfold idl in H. cbn [map] in H. fold (idl rest) in H. cbn [run] in H. destruct H as [Hid H].
      rewrite !filter_cons1.
      assert (Hgb : ge_f b r = false) by (unfold ge_f; apply N.leb_gt; lia). rewrite Hgb.
      destruct rest as [|r2 rest2].
      * cbn [filter]. destruct (ge_f a r) eqn:Ea; unfold ge_f in Ea.
        -- apply N.leb_le in Ea. exists [r]. split; [reflexivity|]. intros y [Hy|[]]. subst y. lia.
        -- exists []. split; [reflexivity|]. intros y [].
      * cbn [idl map] in H. destruct (IH (p + 1) q a b H Hab) as [E [HE Hin]].
        destruct (ge_f a r) eqn:Ea; unfold ge_f in Ea.
        -- apply N.leb_le in Ea. exists (r :: E). split; [cbn [app]; f_equal; exact HE|].
           intros y [Hy|Hy]; [subst y; lia|apply Hin; exact Hy].
        -- exists E. split; [exact HE|exact Hin].
Qed.

Lemma filter_ge_suffix : forall l p q b, run p (idl l) q ->
  exists E, l = E ++ filter (ge_f b) l /\ forall y, In y E -> br_id y < b.
Proof.
  intros l p q b H. destruct (filter_ge_two l p q 0 b H) as [E [HE Hin]]; [lia|].
  exists E. split; [|intros y Hy; apply Hin in Hy; lia].
  rewrite <- HE. symmetry. apply filter_all_true. intros x _. unfold ge_f. apply N.leb_le. lia.
Qed.

Lemma filter_comm : forall {A} (f g : A -> bool) l, filter f (filter g l) = filter g (filter f l).
Proof.
  intros A f g l. rewrite !filter_filter. apply filter_ext. intros x. apply andb_comm.
Qed.

(* ---- the trimming loop of Rollback::read -------------------------------------------------------------- *)
Lemma trim_mem_le : forall maxlen mem ns, (length mem <= maxlen)%nat -> trim_mem maxlen mem ns = (mem, ns).
Proof.
  intros maxlen mem ns H. destruct mem as [|x r]; [reflexivity|].
  cbn [trim_mem]. replace (Nat.ltb maxlen (length (x :: r))) with false; [reflexivity|].
  symmetry. apply Nat.ltb_ge. exact H.
Qed.

Lemma trim_mem_app : forall maxlen (E M : list brec) x ns, length M = maxlen ->
  trim_mem maxlen (map proj ((E ++ [x]) ++ M)) ns = (map proj M, Some (br_id x + 1)).
Proof.
  intros maxlen E M x. induction E as [|y E' IH]; intros ns HM.
  - cbn [app map trim_mem]. replace (Nat.ltb maxlen (length (proj x :: map proj M))) with true.
    + cbn [proj fst]. apply trim_mem_le. rewrite map_length. lia.
    + symmetry. apply Nat.ltb_lt. cbn [length]. rewrite map_length. lia.
  - cbn [app map trim_mem]. replace (Nat.ltb maxlen (length (proj y :: map proj ((E' ++ [x]) ++ M)))) with true.
    + apply IH. exact HM.
    + symmetry. apply Nat.ltb_lt. cbn [length]. rewrite map_length, !app_length. cbn [length]. lia.
Qed.

(* ---- the invariant -------------------------------------------------------------------------------------- *)
(* the deltas the in-memory log holds: the records physically present from the start of the live range on *)
Definition M_of (l : slog) : list brec := filter (ge_f (l_start l)) (phys (l_segs l)).

Inductive binv (s : bstate) : Prop :=
| binv_empty :
    b_mem s = [] -> b_pend s = None -> b_log s = log_empty -> b_man s = (0, 0) -> binv s
| binv_live : forall p ms,
    b_pend s = None ->
    chain (l_segs (b_log s)) p (l_end (b_log s)) -> p <> 0 ->
    b_mem s = map proj (M_of (b_log s)) -> b_mem s <> [] ->
    b_man s = (ms, l_end (b_log s)) -> ms <> 0 -> ms <= l_start (b_log s) ->
    (length (b_mem s) <= b_maxlen s)%nat ->
    (length (b_mem s) = b_maxlen s \/ ms = l_start (b_log s)) ->
    binv s.

Lemma in_phys_bounds : forall segs p e x, chain segs p e -> In x (phys segs) -> p <= br_id x <= e.
Proof.
  intros segs p e x Hc Hx. apply (run_bounds _ _ _ (chain_phys_run _ _ _ Hc)). apply in_map. exact Hx.
Qed.

Lemma in_M_bounds : forall st e segs p x, chain segs p e -> In x (filter (ge_f st) (phys segs)) ->
  st <= br_id x /\ p <= br_id x <= e.
Proof.
  intros st e segs p x Hc Hx. apply filter_In in Hx. destruct Hx as [Hx Hg]. unfold ge_f in Hg. apply N.leb_le in Hg.
  split; [exact Hg|]. apply (in_phys_bounds _ _ _ _ Hc Hx).
Qed.

Lemma chain_nonempty : forall segs p e, chain segs p e -> segs <> [].
Proof. intros [|g r] p e H; [contradiction|discriminate]. Qed.

(* ---- a commit and its sync ---------------------------------------------------------------------------------- *)
Lemma commit_ok : forall s len, binv s -> (1 <= b_maxlen s)%nat ->
  exists s' rid, b_sync VCur (b_commit s len) = BOk s' /\ binv s' /\
    b_mem s' = (let m1 := b_mem s ++ [(rid, b_tag s)] in if Nat.ltb (b_maxlen s) (length m1) then tl m1 else m1) /\
    b_tag s' = b_tag s + 1 /\ b_maxlen s' = b_maxlen s /\ b_segsz s' = b_segsz s.
Proof.
  intros [mem pend [st e segs] man maxlen segsz tag] len Hinv Hml. cbn [b_maxlen b_mem b_tag b_segsz] in *.
  inversion Hinv as [Hmem Hpend Hlog Hman|p ms Hpend Hc Hp Hmem Hne Hman Hms Hmsst Hlen Hfull];
    cbn [b_mem b_pend b_log b_man b_maxlen l_segs l_end l_start] in *.
  - (* the log is empty *)
    subst mem pend man. injection Hlog as -> -> ->.
    destruct (append_empty segsz tag len) as [g [Happ [Hc Hrecs]]].
    unfold b_commit. cbn [b_segsz b_log b_tag b_mem b_pend b_man b_maxlen]. fold log_empty. rewrite Happ.
    unfold b_sync. cbn [b_pend b_maxlen b_mem app length].
    replace (Nat.ltb maxlen 1) with false by (symmetry; apply Nat.ltb_ge; lia).
    eexists. exists 1. split; [reflexivity|]. split; [|cbn; repeat split; reflexivity].
    apply (binv_live _ 1 1); cbn [with_log b_mem b_pend b_log b_man b_maxlen l_segs l_end l_start length];
      [reflexivity|exact Hc|lia| |discriminate|reflexivity|lia|lia|lia|right; reflexivity].
    unfold M_of. cbn [l_start l_segs]. rewrite phys_single, Hrecs. reflexivity.
  - subst pend man.
    assert (Hst : st <> 0) by lia.
    destruct (append_chain segsz st e segs tag len p Hc Hp) as [segs' [Happ [Hc' Hphys]]].
    unfold b_commit. cbn [b_segsz b_log b_tag b_mem b_pend b_man b_maxlen]. rewrite Happ.
    replace (st =? 0) with false by (symmetry; apply N.eqb_neq; exact Hst).
    unfold M_of in Hmem. cbn [l_start l_segs] in Hmem.
    set (M := filter (ge_f st) (phys segs)) in *.
    assert (HM1 : filter (ge_f st) (phys segs') = M ++ [mkrec (e + 1) tag len]).
    { rewrite Hphys, filter_app. fold M. f_equal. cbn [filter]. unfold ge_f. cbn [mkrec br_id].
      destruct M as [|x M'] eqn:EM; [subst mem; cbn in Hne; congruence|].
      assert (Hx : In x (filter (ge_f st) (phys segs))) by (fold M; rewrite EM; left; reflexivity).
      destruct (in_M_bounds _ _ _ _ _ Hc Hx) as [H1 H2].
      replace (st <=? e + 1) with true by (symmetry; apply N.leb_le; lia). reflexivity. }
    unfold b_sync. cbn [b_pend b_maxlen b_mem].
    destruct (Nat.ltb maxlen (length (mem ++ [(e + 1, tag)]))) eqn:Elt.
    + (* the oldest delta is dropped *)
      apply Nat.ltb_lt in Elt. rewrite app_length in Elt. cbn [length] in Elt.
      destruct M as [|x M'] eqn:EM; [subst mem; cbn in Hne; congruence|].
      rewrite Hmem. cbn [map app proj]. cbn [b_log l_start l_end].
      assert (Hx : In x (filter (ge_f st) (phys segs))) by (fold M; rewrite EM; left; reflexivity).
      destruct (in_M_bounds _ _ _ _ _ Hc Hx) as [Hx1 Hx2].
      unfold log_prune_oldest. cbn [l_segs l_end l_start].
      replace (br_id x + 1 =? 0) with false by (symmetry; apply N.eqb_neq; lia).
      pose proof (chain_nonempty _ _ _ Hc') as Hne'. destruct segs' as [|g' r']; [congruence|].
      replace (e + 1 <? br_id x + 1) with false by (symmetry; apply N.ltb_ge; lia).
      replace (br_id x + 1 <? st) with false by (symmetry; apply N.ltb_ge; lia).
      eexists. exists (e + 1). split; [reflexivity|].
      destruct (drop_old_chain (br_id x + 1) _ _ _ Hc') as [p' [Hc'' [Hp' Hf]]].
      assert (HM' : filter (ge_f (br_id x + 1)) (phys (g' :: r')) = M' ++ [mkrec (e + 1) tag len]).
      { destruct (filter_ge_suffix _ _ _ st (chain_phys_run _ _ _ Hc')) as [E [HE _]].
        rewrite HM1 in HE. cbn [app] in HE. rewrite HE at 1.
        apply (filter_after E x _ p (e + 1)). rewrite <- HE. apply chain_phys_run. exact Hc'. }
      split; [|cbn [with_log b_mem b_tag b_maxlen b_segsz]; cbn [map app proj length tl];
               replace (Nat.ltb maxlen (S (length (map proj M' ++ [(e + 1, tag)])))) with true
                 by (symmetry; apply Nat.ltb_lt; rewrite Hmem in Elt; cbn [map length] in Elt; rewrite app_length; cbn [length]; lia);
               repeat split; reflexivity].
      apply (binv_live _ p' st); cbn [with_log b_mem b_pend b_log b_man b_maxlen l_segs l_end l_start];
        [reflexivity|exact Hc''|lia| | |reflexivity|lia|lia| | ].
      * unfold M_of. cbn [l_start l_segs]. unfold ge_f at 1. rewrite (Hf (br_id x + 1)); [|lia].
        fold (ge_f (br_id x + 1)). rewrite HM'. rewrite map_app. reflexivity.
      * destruct (map proj M'); discriminate.
      * rewrite Hmem in Hlen, Elt. cbn [map length] in Hlen, Elt. rewrite app_length. cbn [length]. lia.
      * left. rewrite Hmem in Hlen, Elt. cbn [map length] in Hlen, Elt. rewrite app_length. cbn [length]. lia.
    + eexists. exists (e + 1). split; [reflexivity|].
      split; [|cbn [with_log b_mem b_tag b_maxlen b_segsz]; rewrite Elt; repeat split; reflexivity].
      apply Nat.ltb_ge in Elt.
      apply (binv_live _ p st); cbn [with_log b_mem b_pend b_log b_man b_maxlen l_segs l_end l_start];
        [reflexivity|exact Hc'|exact Hp| | |reflexivity|lia|lia|exact Elt| ].
      * unfold M_of. cbn [l_start l_segs]. rewrite HM1, map_app, <- Hmem. reflexivity.
      * destruct mem; discriminate.
      * right. reflexivity.
Qed.

(* ---- a rollback and its sync -------------------------------------------------------------------------------- *)
Lemma skipn_cons_ex : forall {A} (l : list A) k, (k < length l)%nat -> exists x l2, skipn k l = x :: l2.
Proof.
  intros A l. induction l as [|y r IH]; intros k Hk.
  - cbn in Hk. lia.
  - destruct k as [|k'].
    + exists y, r. reflexivity.
    + cbn [skipn]. apply IH. cbn [length] in Hk. lia.
Qed.

Lemma log_prune_recent_live : forall st e segs p ne, chain segs p e -> ne <> 0 -> p <= ne <= e ->
  exists segs', log_prune_recent ne {| l_start := st; l_end := e; l_segs := segs |} =
                  BOk {| l_start := st; l_end := ne; l_segs := segs' |} /\
                chain segs' p ne /\ phys segs' = filter (fun r => br_id r <=? ne) (phys segs).
Proof.
  intros st e segs p ne Hc Hne Hb. unfold log_prune_recent. cbn [l_segs l_start l_end].
  replace (ne =? 0) with false by (symmetry; apply N.eqb_neq; exact Hne).
  destruct (prune_recent_chain ne segs p e Hc Hb) as [segs' [Hcut [Hc' Hphys]]].
  exists segs'. rewrite Hcut, rev_involutive. destruct segs as [|g0 r0]; [contradiction|].
  split; [reflexivity|]. split; assumption.
Qed.

Lemma log_prune_oldest_live : forall st e segs p ns, chain segs p e -> ns <> 0 -> st <= ns <= e ->
  log_prune_oldest ns {| l_start := st; l_end := e; l_segs := segs |} =
    BOk {| l_start := ns; l_end := e; l_segs := drop_old ns segs |}.
Proof.
  intros st e segs p ns Hc Hne Hb. unfold log_prune_oldest. cbn [l_segs l_start l_end].
  replace (ns =? 0) with false by (symmetry; apply N.eqb_neq; exact Hne).
  destruct segs as [|g0 r0]; [contradiction|].
  replace (e <? ns) with false by (symmetry; apply N.ltb_ge; lia).
  replace (ns <? st) with false by (symmetry; apply N.ltb_ge; lia). reflexivity.
Qed.

Lemma firstn_S_cons : forall {A} (l : list A) k, l <> [] -> exists a r, firstn (S k) l = a :: r.
Proof. intros A [|a l'] k H; [congruence|]. exists a, (firstn k l'). reflexivity. Qed.

Lemma rollback_ok : forall s n, binv s -> (1 <= n <= length (b_mem s))%nat ->
  exists s1 s', b_truncate s n = Some (BOk s1) /\ b_sync VCur s1 = BOk s' /\ binv s' /\
    b_mem s' = firstn (length (b_mem s) - n) (b_mem s) /\
    b_tag s' = b_tag s /\ b_maxlen s' = b_maxlen s /\ b_segsz s' = b_segsz s.
Proof.
  intros [mem pend [st e segs] man maxlen segsz tag] n Hinv Hn. cbn [b_maxlen b_mem b_tag b_segsz] in *.
  inversion Hinv as [Hmem Hpend Hlog Hman|p ms Hpend Hc Hp Hmem Hne Hman Hms Hmsst Hlen Hfull];
    cbn [b_mem b_pend b_log b_man b_maxlen l_segs l_end l_start] in *.
  - subst mem. cbn in Hn. lia.
  - subst pend man. unfold M_of in Hmem. cbn [l_start l_segs] in Hmem.
    set (M := filter (ge_f st) (phys segs)) in *.
    assert (HlenM : length mem = length M) by (rewrite Hmem; apply map_length).
    set (k := (length mem - n)%nat).
    assert (Hk : (k < length M)%nat) by (unfold k; lia).
    destruct (skipn_cons_ex M k Hk) as [x [M2 Hskip]].
    assert (HM : M = firstn k M ++ x :: M2) by (rewrite <- Hskip; symmetry; apply firstn_skipn).
    destruct (filter_ge_suffix _ _ _ st (chain_phys_run _ _ _ Hc)) as [E [HE HEin]]. fold M in HE.
    assert (Hrun : run p (idl ((E ++ firstn k M) ++ x :: M2)) e).
    { rewrite <- app_assoc, <- HM, <- HE. apply chain_phys_run. exact Hc. }
    destruct (run_mid _ _ _ _ _ Hrun) as [Hbefore [_ Hxb]].
    assert (HinM : forall z, In z (firstn k M) -> st <= br_id z /\ p <= br_id z).
    { intros z Hz. assert (Hz' : In z M) by (rewrite <- (firstn_skipn k M); apply in_or_app; left; exact Hz).
      destruct (in_M_bounds _ _ _ _ _ Hc Hz') as [H1 [H2 _]]. split; assumption. }
    unfold b_truncate. cbn [b_mem b_log b_man].
    replace (Nat.ltb (length mem) n) with false by (symmetry; apply Nat.ltb_ge; lia).
    fold k.
    assert (Hsk : skipn k mem = (br_id x, br_tag x) :: map proj M2) by (rewrite Hmem, skipn_map, Hskip; reflexivity).
    rewrite Hsk.
    replace (br_id x =? 0) with false by (symmetry; apply N.eqb_neq; lia).
    destruct k as [|k'] eqn:Ek.
    + (* every delta is rolled back: the log becomes empty *)
      eexists. eexists. split; [reflexivity|].
      unfold b_sync. cbn [with_log b_pend b_mem b_log b_man b_maxlen b_segsz b_tag l_start].
      cbn [firstn]. unfold log_prune_recent. cbn [N.eqb]. split; [reflexivity|].
      split; [apply binv_empty; reflexivity|]. cbn [with_log b_mem b_tag b_maxlen b_segsz]. repeat split; reflexivity.
    + destruct (firstn_S_cons mem k' Hne) as [a [r Hf]].
      assert (HfM : firstn (S k') M <> []).
      { intros Hnil. apply (f_equal (map proj)) in Hnil. rewrite <- firstn_map, <- Hmem, Hf in Hnil. discriminate. }
      destruct (firstn (S k') M) as [|y F'] eqn:EF; [congruence|].
      assert (Hy : br_id y < br_id x /\ st <= br_id y /\ p <= br_id y).
      { split; [apply Hbefore; apply in_or_app; right; left; reflexivity|]. apply HinM. left. reflexivity. }
      destruct (log_prune_recent_live st e segs p (N.pred (br_id x)) Hc) as [segs' [Hpr [Hc' Hphys]]]; [lia|lia|].
      eexists. eexists. split; [reflexivity|].
      unfold b_sync. cbn [with_log b_pend b_mem b_log b_man b_maxlen b_segsz b_tag l_start].
      rewrite Hf. cbv beta iota zeta. rewrite Hpr. split; [reflexivity|].
      split; [|cbn [with_log b_mem b_tag b_maxlen b_segsz]; repeat split; reflexivity].
      assert (Har : a :: r = map proj (y :: F')) by (rewrite <- EF, <- firstn_map, <- Hmem; symmetry; exact Hf).
      apply (binv_live _ p st); cbn [with_log b_mem b_pend b_log b_man b_maxlen l_segs l_end l_start];
        [reflexivity|exact Hc'|exact Hp| |discriminate|reflexivity|lia|lia| |right; reflexivity].
      * rewrite Har. f_equal. unfold M_of. cbn [l_start l_segs]. rewrite Hphys. rewrite HE at 1.
        rewrite HM at 1. rewrite app_assoc.
        rewrite (filter_before _ _ _ _ _ Hrun); [|lia].
        rewrite filter_app. rewrite (filter_all_false _ E).
        -- cbn [app]. rewrite filter_all_true; [reflexivity|].
           intros z Hz. apply HinM in Hz. unfold ge_f. apply N.leb_le. lia.
        -- intros z Hz. apply HEin in Hz. unfold ge_f. apply N.leb_gt. exact Hz.
      * rewrite <- Hf. pose proof (firstn_le_length (S k') mem). lia.
Qed.

(* ---- reopening: Rollback::read gives back exactly the in-memory log of the previous handle ------------------- *)
Lemma reopen_ok : forall s, binv s -> (1 <= b_maxlen s)%nat ->
  exists s', b_reopen VCur s = BOk s' /\ binv s' /\ b_mem s' = b_mem s /\
    b_tag s' = b_tag s /\ b_maxlen s' = b_maxlen s /\ b_segsz s' = b_segsz s.
Proof.
  intros [mem pend [st e segs] man maxlen segsz tag] Hinv Hml. cbn [b_maxlen b_mem b_tag b_segsz] in *.
  inversion Hinv as [Hmem Hpend Hlog Hman|p ms Hpend Hc Hp Hmem Hne Hman Hms Hmsst Hlen Hfull];
    cbn [b_mem b_pend b_log b_man b_maxlen l_segs l_end l_start] in *.
  - subst mem pend man. injection Hlog as -> -> ->.
    eexists. split; [reflexivity|]. split; [apply binv_empty; reflexivity|]. cbn. repeat split; reflexivity.
  - subst pend man. unfold M_of in Hmem. cbn [l_start l_segs] in Hmem.
    set (M := filter (ge_f st) (phys segs)) in *.
    assert (HlenM : length mem = length M) by (rewrite Hmem; apply map_length).
    assert (Hste : st <= e).
    { destruct M as [|y M'] eqn:EM; [subst mem; cbn in Hne; congruence|].
      assert (Hy : In y (filter (ge_f st) (phys segs))) by (fold M; rewrite EM; left; reflexivity).
      destruct (in_M_bounds _ _ _ _ _ Hc Hy) as [H1 [_ H2]]. lia. }
    pose proof (chain_phys_run _ _ _ Hc) as Hrun.
    destruct (filter_ge_two _ _ _ ms st Hrun Hmsst) as [E [HL HEin]]. fold M in HL.
    destruct (drop_old_chain ms segs p e Hc) as [p1 [Hc1 [Hp1 Hf1]]].
    unfold b_reopen. cbn [b_man fst snd b_log l_segs b_maxlen].
    rewrite (log_open_chain ms e segs p Hc Hms); [|lia].
    destruct (Nat.leb_spec (length (filter (fun r => ms <=? br_id r) (phys segs))) maxlen) as [Hle|Hgt].
    + (* nothing to trim *)
      rewrite trim_mem_le; [|rewrite map_length; exact Hle].
      assert (HE : E = []).
      { fold (ge_f ms) in Hle. rewrite HL, app_length in Hle.
        destruct E as [|z E']; [reflexivity|]. exfalso.
        destruct Hfull as [Hfull|Hfull].
        - cbn [length] in Hle. lia.
        - specialize (HEin z (or_introl eq_refl)). lia. }
      subst E. cbn [app] in HL. fold (ge_f ms). rewrite HL, <- Hmem.
      eexists. split; [reflexivity|].
      split; [|cbn [with_log b_mem b_tag b_maxlen b_segsz]; repeat split; reflexivity].
      apply (binv_live _ p1 ms); cbn [with_log b_mem b_pend b_log b_man b_maxlen l_segs l_end l_start];
        [reflexivity|exact Hc1|lia| |exact Hne|reflexivity|exact Hms|lia|exact Hlen|right; reflexivity].
      unfold M_of. cbn [l_start l_segs]. unfold ge_f at 1. rewrite (Hf1 ms); [|lia]. fold (ge_f ms). rewrite HL. exact Hmem.
    + (* the manifest's start lags: one delta too many is on disk and is dropped again *)
      fold (ge_f ms) in Hgt |- *. rewrite HL in Hgt |- *. rewrite app_length in Hgt.
      assert (HlM : length M = maxlen).
      { destruct Hfull as [Hfull|Hfull]; [lia|]. exfalso.
        destruct E as [|z E']; [cbn [length] in Hgt; lia|]. specialize (HEin z (or_introl eq_refl)). lia. }
      destruct E as [|z0 E0'] eqn:EE; [cbn [length] in Hgt; lia|].
      destruct (@exists_last _ (z0 :: E0')) as [E0 [xl HEq]]; [discriminate|]. rewrite HEq in *.
      assert (Hxl : ms <= br_id xl < st) by (apply HEin; apply in_or_app; right; left; reflexivity).
      rewrite (trim_mem_app maxlen E0 M xl None HlM). rewrite <- Hmem.
      destruct mem as [|m0 mem'] eqn:Emem; [congruence|]. rewrite <- Emem in *.
      rewrite (log_prune_oldest_live ms e (drop_old ms segs) p1 (br_id xl + 1) Hc1); [|lia|lia].
      destruct (drop_old_chain (br_id xl + 1) _ _ _ Hc1) as [p2 [Hc2 [Hp2 Hf2]]].
      eexists. split; [reflexivity|].
      split; [|cbn [with_log b_mem b_tag b_maxlen b_segsz]; repeat split; reflexivity].
      apply (binv_live _ p2 ms); cbn [with_log b_mem b_pend b_log b_man b_maxlen l_segs l_end l_start];
        [reflexivity|exact Hc2|lia| |exact Hne|reflexivity|exact Hms|lia|exact Hlen|left; lia].
      unfold M_of. cbn [l_start l_segs]. unfold ge_f at 1. rewrite (Hf2 (br_id xl + 1)); [|lia].
      rewrite (Hf1 (br_id xl + 1)); [|lia]. fold (ge_f (br_id xl + 1)).
      destruct (filter_ge_suffix _ _ _ ms Hrun) as [E' [HE' _]].
      rewrite HL in HE'. rewrite <- (app_assoc E0) in HE'. cbn [app] in HE'. rewrite app_assoc in HE'.
      rewrite HE' at 1. rewrite (filter_after (E' ++ E0) xl M p e); [exact Hmem|].
      rewrite <- HE'. exact Hrun.
Qed.

(* ---- one operation refines one step of the specification ----------------------------------------------------- *)
Lemma removelast_rev : forall {A} (l : list A), removelast (rev l) = rev (tl l).
Proof.
  intros A [|x r]; [reflexivity|]. cbn [rev tl]. apply removelast_last.
Qed.

Lemma map_tl : forall {A B} (f : A -> B) l, map f (tl l) = tl (map f l).
Proof. intros A B f [|x r]; reflexivity. Qed.

Lemma sp_step_nofail : forall ml sp op sp' o e, sp_step ml sp op = (sp', o) -> o <> OFail e.
Proof.
  intros ml [h c] op sp' o e H. destruct op as [len|[|n]|]; cbn [sp_step] in H.
  - injection H as _ <-. discriminate.
  - injection H as _ <-. discriminate.
  - destruct (Nat.ltb (length h) (S n)); injection H as _ <-; discriminate.
  - injection H as _ <-. discriminate.
Qed.

Lemma step_refines : forall s op, binv s -> (1 <= b_maxlen s)%nat ->
  forall s' o sp' so, b_step VCur s op = (s', o) -> sp_step (b_maxlen s) (b_abs s, b_tag s) op = (sp', so) ->
  o = so /\ binv s' /\ b_abs s' = fst sp' /\ b_tag s' = snd sp' /\ b_maxlen s' = b_maxlen s /\ b_segsz s' = b_segsz s.
Proof.
  intros s op Hinv Hml s' o sp' so Hb Hs. destruct op as [len|[|n]|].
  - (* commit *)
    destruct (commit_ok s len Hinv Hml) as [s2 [rid [Hsync [Hinv2 [Hmem2 [Htag [Hmax Hsz]]]]]]].
    cbn [b_step] in Hb. rewrite Hsync in Hb. cbn [lift] in Hb. injection Hb as <- <-.
    cbn [sp_step] in Hs. injection Hs as <- <-. cbn [fst snd].
    split; [reflexivity|]. split; [exact Hinv2|]. split; [|repeat split; assumption].
    unfold b_abs. rewrite Hmem2. cbv zeta. unfold sp_push.
    assert (Hrev : rev (map snd (b_mem s ++ [(rid, b_tag s)])) = b_tag s :: rev (map snd (b_mem s))).
    { rewrite map_app. cbn [map snd]. rewrite rev_unit. reflexivity. }
    assert (Hlen : length (b_tag s :: rev (map snd (b_mem s))) = length (b_mem s ++ [(rid, b_tag s)])).
    { cbn [length]. rewrite rev_length, map_length, app_length. cbn [length]. lia. }
    rewrite Hlen. destruct (Nat.ltb (b_maxlen s) (length (b_mem s ++ [(rid, b_tag s)]))).
    + rewrite map_tl, <- removelast_rev, Hrev. reflexivity.
    + exact Hrev.
  - (* rollback 0 *)
    cbn [b_step] in Hb. injection Hb as <- <-. cbn [sp_step] in Hs. injection Hs as <- <-. cbn [fst snd].
    repeat split; try reflexivity. exact Hinv.
  - (* rollback (S n) *)
    cbn [sp_step] in Hs. unfold b_abs in Hs at 1. rewrite rev_length, map_length in Hs.
    cbn [b_step] in Hb.
    destruct (Nat.ltb (length (b_mem s)) (S n)) eqn:E.
    + injection Hs as <- <-. unfold b_truncate in Hb. rewrite E in Hb. injection Hb as <- <-. cbn [fst snd].
      repeat split; try reflexivity. exact Hinv.
    + apply Nat.ltb_ge in E. injection Hs as <- <-.
      destruct (rollback_ok s (S n) Hinv) as [s1 [s2 [Htr [Hsync [Hinv2 [Hmem2 [Htag [Hmax Hsz]]]]]]]]; [lia|].
      rewrite Htr, Hsync in Hb. cbn [lift] in Hb. injection Hb as <- <-. cbn [fst snd].
      split; [reflexivity|]. split; [exact Hinv2|]. split; [|repeat split; assumption].
      unfold b_abs. rewrite Hmem2.
      change (rev (map snd (firstn (length (b_mem s) - S n) (b_mem s))) = skipn (S n) (rev (map snd (b_mem s)))).
      rewrite skipn_rev, map_length, firstn_map. reflexivity.
  - (* reopen *)
    destruct (reopen_ok s Hinv Hml) as [s2 [Hre [Hinv2 [Hmem2 [Htag [Hmax Hsz]]]]]].
    cbn [b_step] in Hb. rewrite Hre in Hb. cbn [lift] in Hb. injection Hb as <- <-.
    cbn [sp_step] in Hs. injection Hs as <- <-. cbn [fst snd].
    split; [reflexivity|]. split; [exact Hinv2|]. unfold b_abs. rewrite Hmem2. repeat split; assumption.
Qed.

Lemma run_refines : forall ops s, binv s -> (1 <= b_maxlen s)%nat ->
  forall s' outs sp' souts, b_run VCur s ops = (s', outs) -> sp_run (b_maxlen s) (b_abs s, b_tag s) ops = (sp', souts) ->
  outs = souts /\ binv s' /\ b_abs s' = fst sp' /\ b_tag s' = snd sp' /\ b_maxlen s' = b_maxlen s /\ b_segsz s' = b_segsz s.
Proof.
  induction ops as [|op rest IH]; intros s Hinv Hml s' outs sp' souts Hb Hs.
  - cbn in Hb, Hs. injection Hb as <- <-. injection Hs as <- <-. cbn [fst snd]. repeat split; try reflexivity. exact Hinv.
  - cbn [b_run sp_run] in Hb, Hs.
    destruct (b_step VCur s op) as [s1 o] eqn:Eb. destruct (sp_step (b_maxlen s) (b_abs s, b_tag s) op) as [sp1 so] eqn:Es.
    destruct (step_refines s op Hinv Hml _ _ _ _ Eb Es) as [Ho [Hinv1 [Habs1 [Htag1 [Hmax1 Hsz1]]]]].
    destruct sp1 as [h1 c1]. cbn [fst snd] in Habs1, Htag1.
    destruct (sp_run (b_maxlen s) (h1, c1) rest) as [sp2 os2] eqn:Es2. injection Hs as <- <-.
    assert (Hnf : forall e, o <> OFail e) by (intros e; rewrite Ho; apply (sp_step_nofail _ _ _ _ _ e Es)).
    destruct (b_run VCur s1 rest) as [s2 os1] eqn:Eb2.
    assert (Hb' : (s', outs) = (s2, o :: os1)).
    { destruct o as [| |e]; [rewrite <- Hb; reflexivity|rewrite <- Hb; reflexivity|exfalso; apply (Hnf e); reflexivity]. }
    injection Hb' as -> ->.
    rewrite <- Hmax1, <- Habs1, <- Htag1 in Es2. rewrite <- Hmax1 in Hml.
    destruct (IH s1 Hinv1 Hml _ _ _ _ Eb2 Es2) as [Hos [Hinv2 [Habs2 [Htag2 [Hmax2 Hsz2]]]]].
    split; [rewrite Ho, Hos; reflexivity|]. split; [exact Hinv2|]. split; [exact Habs2|]. split; [exact Htag2|].
    split; [rewrite Hmax2; exact Hmax1|rewrite Hsz2; exact Hsz1].
Qed.

Lemma binv_init : forall maxlen segsz, binv (b_init maxlen segsz).
Proof. intros. apply binv_empty; reflexivity. Qed.

(* ---- THE THEOREM ------------------------------------------------------------------------------------------------
   For every max_rollback_log_len >= 1, every segment size and every sequence of commits (of records of any
   length), rollbacks (of any n) and reopenings, each followed by its sync as the code does:
   * every operation has exactly the outcome of the specification - a rollback is refused iff the specification
     refuses it, and nothing ever FAILS (no panic in prune_oldest, no "Failed to find the last live record",
     no failure of seglog::open);
   * the in-memory log is, commit for commit, the specification's stack of snapshots; in particular the number of
     rollbacks that can be served is the length of that stack;
   * the invariant [binv] holds at the end (see binv_* below for what it gives). *)
Theorem rbbook_refines : forall maxlen segsz ops, (1 <= maxlen)%nat ->
  forall s outs h c souts,
  b_run VCur (b_init maxlen segsz) ops = (s, outs) -> sp_run maxlen ([], 0) ops = ((h, c), souts) ->
  outs = souts /\ b_abs s = h /\ length (b_mem s) = length h /\ b_tag s = c /\ binv s.
Proof.
  intros maxlen segsz ops Hml s outs h c souts Hb Hs.
  destruct (run_refines ops (b_init maxlen segsz) (binv_init _ _) Hml _ _ _ _ Hb Hs) as [Ho [Hinv [Habs [Htag _]]]].
  cbn [fst snd] in Habs, Htag. split; [exact Ho|]. split; [exact Habs|]. split; [|split; assumption].
  rewrite <- Habs. unfold b_abs. rewrite rev_length, map_length. reflexivity.
Qed.

Lemma sp_run_nofail : forall ml ops sp sp' souts e, sp_run ml sp ops = (sp', souts) -> ~ In (OFail e) souts.
Proof.
  intros ml. induction ops as [|op rest IH]; intros sp sp' souts e H.
  - cbn in H. injection H as _ <-. intros [].
  - cbn [sp_run] in H. destruct (sp_step ml sp op) as [sp1 o] eqn:E1. destruct (sp_run ml sp1 rest) as [sp2 os] eqn:E2.
    injection H as _ <-. intros [Hin|Hin].
    + apply (sp_step_nofail _ _ _ _ _ e E1). exact Hin.
    + apply (IH _ _ _ e E2). exact Hin.
Qed.

(* no operation of any history fails *)
Theorem rbbook_never_fails : forall maxlen segsz ops e, (1 <= maxlen)%nat ->
  ~ In (OFail e) (snd (b_run VCur (b_init maxlen segsz) ops)).
Proof.
  intros maxlen segsz ops e Hml.
  destruct (b_run VCur (b_init maxlen segsz) ops) as [s outs] eqn:Eb.
  destruct (sp_run maxlen ([], 0) ops) as [[h c] souts] eqn:Es.
  destruct (rbbook_refines maxlen segsz ops Hml _ _ _ _ _ Eb Es) as [Ho _]. cbn [snd]. rewrite Ho.
  apply (sp_run_nofail _ _ _ _ _ e Es).
Qed.

(* what the invariant says about a reachable state *)
Theorem binv_quiescent : forall s, binv s -> b_pend s = None.
Proof. intros s [? H ? ?|? ? H]; exact H. Qed.

Theorem binv_bounded : forall s, binv s -> (length (b_mem s) <= b_maxlen s)%nat.
Proof. intros s [H ? ? ?|? ? ? ? ? ? ? ? ? ? H ?]; [rewrite H; cbn; lia|exact H]. Qed.

(* every delta of the in-memory log is physically present in a segment file (same record id, same commit):
   a rollback the specification allows finds every record it needs *)
Theorem binv_mem_present : forall s x, binv s -> In x (b_mem s) ->
  exists r, In r (phys (l_segs (b_log s))) /\ proj r = x.
Proof.
  intros s x [Hm _ _ _|p ms _ Hc _ Hm _ _ _ _ _ _] Hx.
  - rewrite Hm in Hx. contradiction.
  - rewrite Hm in Hx. apply in_map_iff in Hx. destruct Hx as [r [Hr Hin]]. exists r. split; [|exact Hr].
    unfold M_of in Hin. apply filter_In in Hin. exact (proj1 Hin).
Qed.

(* the manifest's range contains the in-memory log; an empty log has the empty range *)
Theorem binv_mem_in_manifest : forall s, binv s ->
  (b_mem s = [] /\ b_man s = (0, 0)) \/
  (fst (b_man s) <> 0 /\ forall x, In x (b_mem s) -> fst (b_man s) <= fst x <= snd (b_man s)).
Proof.
  intros s [Hm _ _ Hman|p ms _ Hc _ Hm _ Hman Hms Hle _ _].
  - left. split; assumption.
  - right. rewrite Hman. cbn [fst snd]. split; [exact Hms|]. intros x Hx. rewrite Hm in Hx.
    apply in_map_iff in Hx. destruct Hx as [r [Hr Hin]]. subst x. cbn [proj fst].
    unfold M_of in Hin. destruct (in_M_bounds _ _ _ _ _ Hc Hin) as [H1 [_ H2]]. lia.
Qed.

(* and the in-memory log is exactly what a reopening would load again *)
Theorem binv_reopen_same : forall s, binv s -> (1 <= b_maxlen s)%nat ->
  exists s', b_reopen VCur s = BOk s' /\ b_mem s' = b_mem s /\ binv s'.
Proof.
  intros s Hinv Hml. destruct (reopen_ok s Hinv Hml) as [s' [H1 [H2 [H3 _]]]]. exists s'. repeat split; assumption.
Qed.

(* the lock-step checker used for the refutations below accepts every history of the current code *)
Lemma bout_eqb_refl : forall o, bout_eqb o o = true.
Proof. intros [| |e]; try reflexivity. destruct e; reflexivity. Qed.

Lemma listN_eqb_refl : forall l, listN_eqb l l = true.
Proof. induction l as [|x r IH]; [reflexivity|]. cbn [listN_eqb]. rewrite N.eqb_refl. exact IH. Qed.

Lemma conforms_cur : forall ops s, binv s -> (1 <= b_maxlen s)%nat ->
  conforms VCur (b_maxlen s) s (b_abs s, b_tag s) ops = true.
Proof.
  induction ops as [|op rest IH]; intros s Hinv Hml.
  - reflexivity.
  - cbn [conforms]. destruct (b_step VCur s op) as [s1 o] eqn:Eb.
    destruct (sp_step (b_maxlen s) (b_abs s, b_tag s) op) as [[h1 c1] so] eqn:Es.
    destruct (step_refines s op Hinv Hml _ _ _ _ Eb Es) as [Ho [Hinv1 [Habs1 [Htag1 [Hmax1 _]]]]].
    cbn [fst snd] in *. subst so h1 c1. rewrite bout_eqb_refl, listN_eqb_refl. cbn [andb].
    rewrite <- Hmax1. apply IH; [exact Hinv1|lia].
Qed.

Theorem rbbook_conforms : forall maxlen segsz ops, (1 <= maxlen)%nat -> conforms0 VCur maxlen segsz ops = true.
Proof.
  intros maxlen segsz ops Hml. unfold conforms0.
  exact (conforms_cur ops (b_init maxlen segsz) (binv_init _ _) Hml).
Qed.

(* ---- nothing that has left the log ever comes back -----------------------------------------------------------
   Record ids are reused (after a rollback that empties the log the next record is number 1 again), so "a record
   outside the live range never becomes live again" is stated on the commits the records belong to: a commit
   that is no longer in the in-memory log after a history is in it after no continuation of that history -
   whatever the manifest and the segment files still hold of it, no reopening loads it again. *)
Lemma in_removelast : forall {A} (l : list A) x, In x (removelast l) -> In x l.
Proof.
  intros A l. induction l as [|y r IH]; intros x H.
  - contradiction.
  - destruct r as [|z r'].
    + contradiction.
    + change (removelast (y :: z :: r')) with (y :: removelast (z :: r')) in H.
      destruct H as [H|H]; [left; exact H|right; apply IH; exact H].
Qed.

Lemma in_skipn : forall {A} n (l : list A) x, In x (skipn n l) -> In x l.
Proof.
  intros A n. induction n as [|n IH]; intros l x H.
  - exact H.
  - destruct l as [|y r]; [contradiction|]. right. apply IH. exact H.
Qed.

Lemma sp_step_tags : forall ml h c op h' c' o, sp_step ml (h, c) op = ((h', c'), o) ->
  c <= c' /\ forall t, In t h' -> In t h \/ c <= t.
Proof.
  intros ml h c op h' c' o H. destruct op as [len|[|n]|]; cbn [sp_step] in H.
  - injection H as <- <- _. split; [lia|]. intros t Ht. unfold sp_push in Ht. cbv zeta in Ht.
    destruct (Nat.ltb ml (length (c :: h))); [apply in_removelast in Ht|];
      (destruct Ht as [Ht|Ht]; [right; lia|left; exact Ht]).
  - injection H as <- <- _. split; [lia|]. intros t Ht. left. exact Ht.
  - destruct (Nat.ltb (length h) (S n)); injection H as <- <- _; (split; [lia|]); intros t Ht; left.
    + exact Ht.
    + apply (in_skipn (S n)). exact Ht.
  - injection H as <- <- _. split; [lia|]. intros t Ht. left. exact Ht.
Qed.

Lemma sp_run_tags : forall ml ops h c h' c' os, sp_run ml (h, c) ops = ((h', c'), os) ->
  c <= c' /\ forall t, In t h' -> In t h \/ c <= t.
Proof.
  intros ml. induction ops as [|op rest IH]; intros h c h' c' os H.
  - cbn in H. injection H as <- <- _. split; [lia|]. intros t Ht. left. exact Ht.
  - cbn [sp_run] in H. destruct (sp_step ml (h, c) op) as [[h1 c1] o] eqn:E1.
    destruct (sp_run ml (h1, c1) rest) as [[h2 c2] os2] eqn:E2. injection H as <- <- _.
    destruct (sp_step_tags _ _ _ _ _ _ _ E1) as [Hc1 Ht1]. destruct (IH _ _ _ _ _ E2) as [Hc2 Ht2].
    split; [lia|]. intros t Ht. apply Ht2 in Ht. destruct Ht as [Ht|Ht]; [|right; lia].
    apply Ht1 in Ht. exact Ht.
Qed.

Lemma sp_run_app : forall ml ops1 ops2 sp,
  sp_run ml sp (ops1 ++ ops2) =
    (let '(sp1, o1) := sp_run ml sp ops1 in let '(sp2, o2) := sp_run ml sp1 ops2 in (sp2, o1 ++ o2)).
Proof.
  intros ml. induction ops1 as [|op rest IH]; intros ops2 sp.
  - cbn [app sp_run]. destruct (sp_run ml sp ops2) as [sp2 o2]. reflexivity.
  - cbn [app sp_run]. destruct (sp_step ml sp op) as [sp1 o]. rewrite IH.
    destruct (sp_run ml sp1 rest) as [sp2 o1]. destruct (sp_run ml sp2 ops2) as [sp3 o2]. reflexivity.
Qed.

Theorem rbbook_no_revival : forall maxlen segsz ops1 ops2, (1 <= maxlen)%nat ->
  forall s1 o1 s2 o2,
  b_run VCur (b_init maxlen segsz) ops1 = (s1, o1) ->
  b_run VCur (b_init maxlen segsz) (ops1 ++ ops2) = (s2, o2) ->
  forall t, t < b_tag s1 -> ~ In t (map snd (b_mem s1)) -> ~ In t (map snd (b_mem s2)).
Proof.
  intros maxlen segsz ops1 ops2 Hml s1 o1 s2 o2 H1 H2 t Ht Hnot Hin.
  destruct (sp_run maxlen ([], 0) ops1) as [[h1 c1] so1] eqn:E1.
  destruct (sp_run maxlen (h1, c1) ops2) as [[h2 c2] so2] eqn:E2.
  assert (E12 : sp_run maxlen ([], 0) (ops1 ++ ops2) = ((h2, c2), so1 ++ so2)).
  { rewrite sp_run_app, E1, E2. reflexivity. }
  destruct (rbbook_refines _ _ _ Hml _ _ _ _ _ H1 E1) as [_ [Ha1 [_ [Hc1 _]]]].
  destruct (rbbook_refines _ _ _ Hml _ _ _ _ _ H2 E12) as [_ [Ha2 _]].
  destruct (sp_run_tags _ _ _ _ _ _ _ E2) as [_ Htags].
  assert (Hin2 : In t h2) by (rewrite <- Ha2; unfold b_abs; apply in_rev in Hin; exact Hin).
  apply Htags in Hin2. destruct Hin2 as [Hin1|Hge]; [|lia].
  apply Hnot. rewrite <- Ha1 in Hin1. unfold b_abs in Hin1. apply in_rev in Hin1. exact Hin1.
Qed.

(* ---- the same against Store.v itself ---------------------------------------------------------------------------
   Store.v's machine run on the same history (commits of arbitrary batches, Store.rollback, Store.reopen): every
   rollback has the outcome Store.rollback has, and the number of deltas in memory is length (hist). *)
From Nomt Require Base Store Store_proofs.

Inductive sop :=
| SCommit (len : N) (id : N) (batch : list (Base.key * option (option Base.value)))
| SRollback (n : nat)
| SReopen.

Definition bop_of (o : sop) : bop :=
  match o with SCommit len _ _ => BCommit len | SRollback n => BRollback n | SReopen => BReopen end.

Definition store_step (st : Store.state) (o : sop) : Store.state * bout :=
  match o with
  | SCommit _ id b => (Store.commit_batch st id b, OOk)
  | SRollback n =>
      match Store.rollback st n with
      | (st', Store.ROk) => (st', OOk)
      | (st', Store.RErr) => (st', ORefused)
      end
  | SReopen => (Store.reopen st, OOk)
  end.

Fixpoint store_run (st : Store.state) (ops : list sop) : Store.state * list bout :=
  match ops with
  | [] => (st, [])
  | o :: rest =>
      let '(st', out) := store_step st o in
      let '(st'', outs) := store_run st' rest in (st'', out :: outs)
  end.

Lemma length_removelast : forall {A} (l : list A), length (removelast l) = pred (length l).
Proof.
  intros A l. rewrite removelast_firstn_len, firstn_length. lia.
Qed.

Lemma store_step_sp : forall ml st o h c st' out sp' sout,
  Store.max_len st = Some ml -> length (Store.hist st) = length h ->
  store_step st o = (st', out) -> sp_step ml (h, c) (bop_of o) = (sp', sout) ->
  out = sout /\ length (Store.hist st') = length (fst sp') /\ Store.max_len st' = Some ml.
Proof.
  intros ml st o h c st' out sp' sout Hml Hlen Hst Hsp. destruct o as [len id b|[|n]|]; cbn [bop_of store_step sp_step] in *.
  - injection Hst as <- <-. injection Hsp as <- <-. cbn [fst]. split; [reflexivity|].
    rewrite Store_proofs.commit_batch_hist, Store_proofs.commit_batch_max_len, Hml. split; [|reflexivity].
    unfold Store.push_hist, sp_push. cbv zeta. cbn [length]. rewrite Hlen.
    destruct (Nat.ltb ml (S (length h))).
    + rewrite !length_removelast. cbn [length]. lia.
    + cbn [length]. lia.
  - cbn [Store.rollback] in Hst. injection Hst as <- <-. injection Hsp as <- <-. cbn [fst]. repeat split; assumption.
  - unfold Store.rollback in Hst. rewrite Hml in Hst.
    destruct (nth_error (Store.hist st) n) as [snap|] eqn:En.
    + injection Hst as <- <-.
      assert (Hn : (n < length (Store.hist st))%nat) by (apply nth_error_Some; rewrite En; discriminate).
      replace (Nat.ltb (length h) (S n)) with false in Hsp by (symmetry; apply Nat.ltb_ge; lia).
      injection Hsp as <- <-. cbn [fst Store.hist Store.max_len]. split; [reflexivity|]. split; [|first [exact Hml|reflexivity]].
      change (length (skipn (S n) (Store.hist st)) = length (skipn (S n) h)).
      rewrite !skipn_length. lia.
    + injection Hst as <- <-.
      assert (Hn : (length (Store.hist st) <= n)%nat) by (apply nth_error_None; exact En).
      replace (Nat.ltb (length h) (S n)) with true in Hsp by (symmetry; apply Nat.ltb_lt; lia).
      injection Hsp as <- <-. cbn [fst]. repeat split; assumption.
  - injection Hst as <- <-. injection Hsp as <- <-. cbn [fst Store.reopen Store.hist Store.max_len]. repeat split; assumption.
Qed.

Lemma store_run_sp : forall ml ops st h c st' outs sp' souts,
  Store.max_len st = Some ml -> length (Store.hist st) = length h ->
  store_run st ops = (st', outs) -> sp_run ml (h, c) (map bop_of ops) = (sp', souts) ->
  outs = souts /\ length (Store.hist st') = length (fst sp').
Proof.
  intros ml. induction ops as [|o rest IH]; intros st h c st' outs sp' souts Hml Hlen Hst Hsp.
  - cbn in Hst, Hsp. injection Hst as <- <-. injection Hsp as <- <-. split; [reflexivity|exact Hlen].
  - cbn [store_run map sp_run] in Hst, Hsp.
    destruct (store_step st o) as [st1 out] eqn:E1. destruct (sp_step ml (h, c) (bop_of o)) as [[h1 c1] sout] eqn:E2.
    destruct (store_step_sp _ _ _ _ _ _ _ _ _ Hml Hlen E1 E2) as [Ho [Hl1 Hml1]]. cbn [fst] in Hl1.
    destruct (store_run st1 rest) as [st2 outs2] eqn:E3. destruct (sp_run ml (h1, c1) (map bop_of rest)) as [sp2 souts2] eqn:E4.
    injection Hst as <- <-. injection Hsp as <- <-.
    destruct (IH _ _ _ _ _ _ _ Hml1 Hl1 E3 E4) as [Hos Hl2]. split; [rewrite Ho, Hos; reflexivity|exact Hl2].
Qed.

Theorem rbbook_refines_store : forall maxlen segsz sops, (1 <= maxlen)%nat ->
  forall s outs st souts,
  b_run VCur (b_init maxlen segsz) (map bop_of sops) = (s, outs) ->
  store_run (Store.init (Some maxlen)) sops = (st, souts) ->
  outs = souts /\ length (b_mem s) = length (Store.hist st) /\ binv s.
Proof.
  intros maxlen segsz sops Hml s outs st souts Hb Hst.
  destruct (sp_run maxlen ([], 0) (map bop_of sops)) as [[h c] so] eqn:Es.
  destruct (rbbook_refines _ _ _ Hml _ _ _ _ _ Hb Es) as [Ho [_ [Hlen [_ Hinv]]]].
  destruct (store_run_sp maxlen sops (Store.init (Some maxlen)) [] 0 st souts (h, c) so eq_refl eq_refl Hst Es) as [Ho2 Hl2].
  cbn [fst] in Hl2. split; [rewrite Ho, Ho2; reflexivity|]. split; [lia|exact Hinv].
Qed.

(* ---- the three repaired defects: each pre-fix variant is refuted by a shortest history ---------------------------
   [conforms0 v maxlen segsz ops] = every operation has the specification's outcome and leaves the specification's
   stack; it is true for every history of the current code (rbbook_conforms).  For each variant: the witness, and
   that no shorter history over the alphabet {commit of 1 or 3 blocks, rollback 1 / 2 / 3, reopen} is refused for
   max_rollback_log_len in {1,2,3} and segments of one block, two blocks or "never full". *)
Definition alpha : list bop := [BCommit 1; BCommit 3; BRollback 1; BRollback 2; BRollback 3; BReopen].
Definition params : list (nat * N) :=
  [(1%nat, 4096); (1%nat, 8192); (1%nat, 1000000); (2%nat, 4096); (2%nat, 8192); (2%nat, 1000000);
   (3%nat, 4096); (3%nat, 8192); (3%nat, 1000000)].
Definition all_conform (v : variant) (n : nat) : bool :=
  forallb (fun p => forallb (fun w => conforms0 v (fst p) (snd p) w) (all_seqs alpha n)) params.

(* F7a (c43d073): max_rollback_log_len = 1, one record per segment.  The second commit prunes record 1 together
   with its segment file; rolling it back publishes the range [min(2,1), 1] = [1, 1] and asks the log to cut
   itself behind record 1, which is gone: "Failed to find the last live record in the head segment". *)
Definition w_f7a : list bop := [BCommit 1; BCommit 1; BRollback 1].
Lemma preF7a_refuted :
  conforms0 VPreF7a 1 4096 w_f7a = false /\
  snd (b_run VPreF7a (b_init 1 4096) w_f7a) = [OOk; OOk; OFail ETruncNotFound] /\
  conforms0 VCur 1 4096 w_f7a = true /\
  all_conform VPreF7a 0 = true /\ all_conform VPreF7a 1 = true /\ all_conform VPreF7a 2 = true.
Proof. vm_compute. repeat split; reflexivity. Qed.

(* the same defect with large segments, as it was first observed: the record before the live range is still in
   the file, the manifest names it again, and after a reopening a rollback that must be refused is served *)
Definition w_f7a_revive : list bop := [BCommit 1; BCommit 1; BRollback 1; BReopen; BRollback 1].
Lemma preF7a_revives_pruned_record :
  snd (b_run VPreF7a (b_init 1 1000000) w_f7a_revive) = [OOk; OOk; OOk; OOk; OOk] /\
  snd (sp_run 1 ([], 0) w_f7a_revive) = [OOk; OOk; OOk; OOk; ORefused] /\
  snd (b_run VCur (b_init 1 1000000) w_f7a_revive) = [OOk; OOk; OOk; OOk; ORefused].
Proof. vm_compute. repeat split; reflexivity. Qed.

(* F7b (49bf966): max_rollback_log_len = 1, both records in one segment.  The manifest written by the second commit
   is [1, 2] (the start is read before the prune); the reopened handle holds two deltas *)
Definition w_f7b : list bop := [BCommit 1; BCommit 1; BReopen].
Lemma preF7b_refuted :
  conforms0 VPreF7b 1 1000000 w_f7b = false /\
  length (b_mem (fst (b_run VPreF7b (b_init 1 1000000) w_f7b))) = 2%nat /\
  snd (b_run VPreF7b (b_init 1 1000000) (w_f7b ++ [BRollback 2])) = [OOk; OOk; OOk; OOk] /\
  snd (sp_run 1 ([], 0) (w_f7b ++ [BRollback 2])) = [OOk; OOk; OOk; ORefused] /\
  conforms0 VCur 1 1000000 (w_f7b ++ [BRollback 2]) = true /\
  all_conform VPreF7b 0 = true /\ all_conform VPreF7b 1 = true /\ all_conform VPreF7b 2 = true.
Proof. vm_compute. repeat split; reflexivity. Qed.

(* N8 (fddc5b8): max_rollback_log_len = 1, one record per segment.  After the second commit the manifest is [1, 2]
   and segment 1 is gone; the reopened handle keeps start_live = 1; rolling back the one logged commit has
   pending = 1, not < start_live = 1, so the range [1, 1] is published and the log is asked to keep record 1 *)
Definition w_n8 : list bop := [BCommit 1; BCommit 1; BReopen; BRollback 1].
Lemma preN8_refuted :
  conforms0 VPreN8 1 4096 w_n8 = false /\
  snd (b_run VPreN8 (b_init 1 4096) w_n8) = [OOk; OOk; OOk; OFail ETruncNotFound] /\
  conforms0 VCur 1 4096 w_n8 = true /\
  all_conform VPreN8 0 = true /\ all_conform VPreN8 1 = true /\ all_conform VPreN8 2 = true /\ all_conform VPreN8 3 = true.
Proof. vm_compute. repeat split; reflexivity. Qed.

(* sanity: the current code on all histories of length <= 5 over the alphabet (an instance of rbbook_conforms) *)
Lemma cur_small_histories : all_conform VCur 5 = true.
Proof. vm_compute. reflexivity. Qed.

(* ---- the facts of the invariant, for the state after ANY history ------------------------------------------------ *)
Theorem rbbook_reachable : forall maxlen segsz ops, (1 <= maxlen)%nat ->
  let s := fst (b_run VCur (b_init maxlen segsz) ops) in
  (* no truncation is pending, the log is bounded *)
  b_pend s = None /\ (length (b_mem s) <= maxlen)%nat /\
  (* every delta in memory is physically present in a segment file, under its record id *)
  (forall x, In x (b_mem s) -> exists r, In r (phys (l_segs (b_log s))) /\ proj r = x) /\
  (* the manifest's range contains the in-memory log; the empty log has the empty range *)
  ((b_mem s = [] /\ b_man s = (0, 0)) \/
   (fst (b_man s) <> 0 /\ forall x, In x (b_mem s) -> fst (b_man s) <= fst x <= snd (b_man s))) /\
  (* a reopening succeeds and loads exactly the in-memory log again *)
  (exists s', b_reopen VCur s = BOk s' /\ b_mem s' = b_mem s).
Proof.
  intros maxlen segsz ops Hml.
  destruct (b_run VCur (b_init maxlen segsz) ops) as [s outs] eqn:Eb.
  destruct (sp_run maxlen ([], 0) ops) as [sp souts] eqn:Es.
  destruct (run_refines ops (b_init maxlen segsz) (binv_init _ _) Hml _ _ _ _ Eb Es) as [_ [Hinv [_ [_ [Hmax _]]]]].
  cbn [fst b_init b_maxlen] in *. 
  split; [apply binv_quiescent; exact Hinv|].
  split; [rewrite <- Hmax; apply binv_bounded; exact Hinv|].
  split; [intros x Hx; apply binv_mem_present; assumption|].
  split; [apply binv_mem_in_manifest; exact Hinv|].
  destruct (binv_reopen_same s Hinv) as [s' [H1 [H2 _]]]; [rewrite Hmax; exact Hml|].
  exists s'. split; assumption.
Qed.

(* the hypothesis 1 <= max_rollback_log_len of the theorems is necessary: with rollback enabled and
   max_rollback_log_len = 0 (Options::max_rollback_log_len accepts it) the sync of the FIRST commit drops the delta it
   just logged and asks prune_oldest for a start behind the end of the log - the panic "New live start is greater
   than the live end", after the manifest was written (confirmed on the real code: the commit panics) *)
Lemma maxlen_zero_commit_fails :
  snd (b_run VCur (b_init 0 4096) [BCommit 1]) = [OFail EPruneOldestAboveEnd].
Proof. vm_compute. reflexivity. Qed.
