(* Proofs about the base definitions: key order, association-list states, sortedness. *)
From Coq Require Import List Bool Arith NArith Lia Permutation.
From Nomt Require Import Base.
Import ListNotations.

(* ---------- key equality ---------- *)

Lemma key_eqb_refl : forall k, key_eqb k k = true.
Proof.
  induction k as [|x k IH]; cbn; [reflexivity|].
  rewrite Bool.eqb_reflx, IH. reflexivity.
Qed.

Lemma key_eqb_true_iff : forall a b, key_eqb a b = true <-> a = b.
Proof.
  induction a as [|x a IH]; intros [|y b]; cbn; split; intros Hab;
    try reflexivity; try discriminate.
  - apply andb_true_iff in Hab. destruct Hab as [H1 H2].
    apply Bool.eqb_prop in H1. apply IH in H2. subst. reflexivity.
  - inversion Hab; subst. rewrite Bool.eqb_reflx. cbn. apply key_eqb_refl.
Qed.

Lemma key_eqb_false_iff : forall a b, key_eqb a b = false <-> a <> b.
Proof.
  intros a b. split.
  - intros Hf Heq. apply key_eqb_true_iff in Heq. rewrite Heq in Hf. discriminate.
  - intros Hne. destruct (key_eqb a b) eqn:E; [|reflexivity].
    apply key_eqb_true_iff in E. contradiction.
Qed.

Lemma key_eqb_sym : forall a b, key_eqb a b = key_eqb b a.
Proof.
  intros a b. destruct (key_eqb a b) eqn:E1; destruct (key_eqb b a) eqn:E2; try reflexivity.
  - apply key_eqb_true_iff in E1. subst. rewrite key_eqb_refl in E2. discriminate.
  - apply key_eqb_true_iff in E2. subst. rewrite key_eqb_refl in E1. discriminate.
Qed.

(* ---------- key order ---------- *)

Lemma key_ltb_irrefl : forall a, key_ltb a a = false.
Proof.
  induction a as [|x a IH]; cbn; [reflexivity|].
  rewrite Bool.eqb_reflx. exact IH.
Qed.

Lemma key_ltb_trans : forall a b c,
  key_ltb a b = true -> key_ltb b c = true -> key_ltb a c = true.
Proof.
  induction a as [|x a IH]; intros [|y b] [|z c]; cbn; intros H1 H2;
    try discriminate; try reflexivity.
  destruct x, y, z; cbn in *; try discriminate; try reflexivity; eapply IH; eassumption.
Qed.

Lemma key_ltb_asym : forall a b, key_ltb a b = true -> key_ltb b a = false.
Proof.
  intros a b Hab. destruct (key_ltb b a) eqn:E; [|reflexivity].
  pose proof (key_ltb_trans a b a Hab E) as Haa.
  rewrite key_ltb_irrefl in Haa. discriminate.
Qed.

Lemma key_trichotomy : forall a b, key_ltb a b = true \/ a = b \/ key_ltb b a = true.
Proof.
  induction a as [|x a IH]; intros [|y b]; cbn.
  - right. left. reflexivity.
  - left. reflexivity.
  - right. right. reflexivity.
  - destruct x, y; cbn; auto.
    + destruct (IH b) as [Hl|[He|Hg]]; subst; auto.
    + destruct (IH b) as [Hl|[He|Hg]]; subst; auto.
Qed.

(* ---------- get / ins / del ---------- *)

Lemma get_ins : forall S k v k',
  get (ins k v S) k' = if key_eqb k k' then Some v else get S k'.
Proof.
  induction S as [|[k0 v0] S IH]; intros k v k'; cbn [ins get].
  - reflexivity.
  - destruct (key_ltb k k0) eqn:Elt.
    + cbn [get]. reflexivity.
    + destruct (key_eqb k k0) eqn:Eeq.
      * apply key_eqb_true_iff in Eeq. subst. cbn [get].
        destruct (key_eqb k0 k'); reflexivity.
      * cbn [get]. rewrite IH.
        destruct (key_eqb k0 k') eqn:E0; [|reflexivity].
        apply key_eqb_true_iff in E0. subst. rewrite Eeq. reflexivity.
Qed.

Lemma get_del : forall S k k',
  get (del S k) k' = if key_eqb k k' then None else get S k'.
Proof.
  unfold del.
  induction S as [|[k0 v0] S IH]; intros k k'; cbn [filter get fst].
  - destruct (key_eqb k k'); reflexivity.
  - destruct (key_eqb k0 k) eqn:E0; cbn [negb].
    + apply key_eqb_true_iff in E0. subst. rewrite IH.
      destruct (key_eqb k k'); reflexivity.
    + cbn [get]. rewrite IH.
      destruct (key_eqb k k') eqn:E1; [|reflexivity].
      apply key_eqb_true_iff in E1. subst. rewrite E0. reflexivity.
Qed.

(* the last write to k in a list of changes: Some w = last write (w = None is a delete);
   None = never written *)
Definition last_write (cs : list change) (k : key) : option (option value) :=
  match find (fun c => key_eqb (fst c) k) (rev cs) with
  | Some c => Some (snd c)
  | None => None
  end.

Lemma last_write_app1 : forall cs c k,
  last_write (cs ++ [c]) k = if key_eqb (fst c) k then Some (snd c) else last_write cs k.
Proof.
  intros cs c k. unfold last_write. rewrite rev_app_distr. cbn [rev app find].
  destruct (key_eqb (fst c) k); reflexivity.
Qed.

Lemma apply_app1 : forall S cs c, apply S (cs ++ [c]) = apply1 (apply S cs) c.
Proof.
  intros S cs c. unfold apply. rewrite fold_left_app. reflexivity.
Qed.

Lemma get_apply : forall cs S k,
  get (apply S cs) k = match last_write cs k with Some w => w | None => get S k end.
Proof.
  induction cs as [|c cs IH] using rev_ind; intros S k.
  - reflexivity.
  - rewrite apply_app1, last_write_app1.
    destruct c as [kc [vc|]]; unfold apply1; cbn [fst snd].
    + rewrite get_ins, IH. destruct (key_eqb kc k); reflexivity.
    + rewrite get_del, IH. destruct (key_eqb kc k); reflexivity.
Qed.

(* ---------- sortedness ---------- *)

(* k is a strict lower bound of all keys of S *)
Definition key_lb (k : key) (S : kv) : Prop :=
  forall k' v', In (k', v') S -> key_ltb k k' = true.

Lemma sorted_cons_iff : forall k v S,
  kv_sorted ((k, v) :: S) = true <-> key_lb k S /\ kv_sorted S = true.
Proof.
  intros k v S. revert k v.
  induction S as [|[k1 v1] S IH]; intros k v.
  - cbn. split; [intros _|reflexivity]. split; [|reflexivity].
    intros k' v' [].
  - change (kv_sorted ((k, v) :: (k1, v1) :: S))
      with (key_ltb k k1 && kv_sorted ((k1, v1) :: S)).
    rewrite andb_true_iff. split.
    + intros [Hlt Hs]. split; [|exact Hs].
      intros k' v' [Heq|Hin].
      * inversion Heq; subst. exact Hlt.
      * apply IH in Hs. destruct Hs as [Hlb _].
        eapply key_ltb_trans; [exact Hlt|]. eapply Hlb. exact Hin.
    + intros [Hlb Hs]. split; [|exact Hs].
      apply (Hlb k1 v1). left. reflexivity.
Qed.

Lemma In_ins : forall S k v p, In p (ins k v S) -> p = (k, v) \/ In p S.
Proof.
  induction S as [|[k0 v0] S IH]; intros k v p; cbn [ins].
  - intros [H|[]]. left. symmetry. exact H.
  - destruct (key_ltb k k0).
    + intros [H|H]; [left; symmetry; exact H|right; exact H].
    + destruct (key_eqb k k0).
      * intros [H|H]; [left; symmetry; exact H|right; right; exact H].
      * intros [H|H]; [right; left; exact H|].
        apply IH in H. destruct H as [H|H]; [left; exact H|right; right; exact H].
Qed.

Lemma ins_sorted : forall S k v, kv_sorted S = true -> kv_sorted (ins k v S) = true.
Proof.
  induction S as [|[k0 v0] S IH]; intros k v Hs; cbn [ins].
  - reflexivity.
  - destruct (key_ltb k k0) eqn:Elt.
    + change (key_ltb k k0 && kv_sorted ((k0, v0) :: S) = true).
      rewrite Elt, Hs. reflexivity.
    + destruct (key_eqb k k0) eqn:Eeq.
      * apply key_eqb_true_iff in Eeq. subst.
        apply sorted_cons_iff in Hs. apply sorted_cons_iff. exact Hs.
      * apply sorted_cons_iff in Hs. destruct Hs as [Hlb Hs].
        apply sorted_cons_iff. split; [|apply IH; exact Hs].
        intros k' v' Hin. apply In_ins in Hin. destruct Hin as [Heq|Hin].
        -- inversion Heq; subst.
           destruct (key_trichotomy k k0) as [Hl|[He|Hg]].
           ++ rewrite Hl in Elt. discriminate.
           ++ subst. rewrite key_eqb_refl in Eeq. discriminate.
           ++ exact Hg.
        -- eapply Hlb. exact Hin.
Qed.

Lemma filter_sorted : forall (f : key * value -> bool) S,
  kv_sorted S = true -> kv_sorted (filter f S) = true.
Proof.
  intros f. induction S as [|[k v] S IH]; intros Hs; cbn [filter].
  - reflexivity.
  - apply sorted_cons_iff in Hs. destruct Hs as [Hlb Hs].
    destruct (f (k, v)).
    + apply sorted_cons_iff. split; [|apply IH; exact Hs].
      intros k' v' Hin. apply filter_In in Hin. destruct Hin as [Hin _].
      eapply Hlb. exact Hin.
    + apply IH. exact Hs.
Qed.

Lemma del_sorted : forall S k, kv_sorted S = true -> kv_sorted (del S k) = true.
Proof.
  intros S k Hs. unfold del. apply filter_sorted. exact Hs.
Qed.

Lemma apply_sorted : forall cs S, kv_sorted S = true -> kv_sorted (apply S cs) = true.
Proof.
  induction cs as [|c cs IH]; intros S Hs.
  - exact Hs.
  - change (apply S (c :: cs)) with (apply (apply1 S c) cs).
    apply IH. unfold apply1. destruct (snd c).
    + apply ins_sorted. exact Hs.
    + apply del_sorted. exact Hs.
Qed.

Lemma sorted_NoDup : forall S, kv_sorted S = true -> NoDup (map fst S).
Proof.
  induction S as [|[k v] S IH]; intros Hs; cbn [map fst].
  - constructor.
  - apply sorted_cons_iff in Hs. destruct Hs as [Hlb Hs].
    constructor; [|apply IH; exact Hs].
    intros Hin. apply in_map_iff in Hin. destruct Hin as [[k' v'] [Heq Hin]].
    cbn in Heq. subst k'. apply Hlb in Hin. rewrite key_ltb_irrefl in Hin. discriminate.
Qed.

Lemma get_Some_In : forall S k v, get S k = Some v -> In (k, v) S.
Proof.
  induction S as [|[k0 v0] S IH]; intros k v; cbn [get].
  - discriminate.
  - destruct (key_eqb k0 k) eqn:E.
    + intros Hv. apply key_eqb_true_iff in E. inversion Hv; subst. left. reflexivity.
    + intros Hv. right. apply IH. exact Hv.
Qed.

Lemma get_In : forall S k v, NoDup (map fst S) -> (In (k, v) S <-> get S k = Some v).
Proof.
  induction S as [|[k0 v0] S IH]; intros k v Hnd.
  - cbn. split; [intros []|discriminate].
  - cbn [map fst] in Hnd. inversion Hnd as [|x l Hnin Hnd']; subst.
    split.
    + intros [Heq|Hin].
      * inversion Heq; subst. cbn [get]. rewrite key_eqb_refl. reflexivity.
      * cbn [get]. destruct (key_eqb k0 k) eqn:E.
        -- apply key_eqb_true_iff in E. subst. exfalso. apply Hnin.
           apply in_map_iff. exists (k, v). split; [reflexivity|exact Hin].
        -- apply IH; assumption.
    + apply get_Some_In.
Qed.

Lemma get_None_not_In : forall S k, get S k = None <-> (forall v, ~ In (k, v) S).
Proof.
  induction S as [|[k0 v0] S IH]; intros k.
  - cbn. split; [intros _ v []|reflexivity].
  - cbn [get]. destruct (key_eqb k0 k) eqn:E.
    + split; [discriminate|].
      intros Hn. apply key_eqb_true_iff in E. subst. exfalso. apply (Hn v0). left. reflexivity.
    + rewrite IH. split.
      * intros Hn v [Heq|Hin].
        -- inversion Heq; subst. rewrite key_eqb_refl in E. discriminate.
        -- eapply Hn. exact Hin.
      * intros Hn v Hin. apply (Hn v). right. exact Hin.
Qed.

Lemma key_lb_get_None : forall S k, key_lb k S -> get S k = None.
Proof.
  intros S k Hlb. apply get_None_not_In. intros v Hin.
  apply Hlb in Hin. rewrite key_ltb_irrefl in Hin. discriminate.
Qed.

Lemma sorted_ext : forall S S', kv_sorted S = true -> kv_sorted S' = true ->
  (forall k, get S k = get S' k) -> S = S'.
Proof.
  induction S as [|[k v] S IH]; intros [|[k' v'] S'] Hs Hs' Hg.
  - reflexivity.
  - specialize (Hg k'). cbn [get] in Hg. rewrite key_eqb_refl in Hg. discriminate.
  - specialize (Hg k). cbn [get] in Hg. rewrite key_eqb_refl in Hg. discriminate.
  - apply sorted_cons_iff in Hs. destruct Hs as [Hlb Hs].
    apply sorted_cons_iff in Hs'. destruct Hs' as [Hlb' Hs'].
    assert (Hk : k = k').
    { destruct (key_trichotomy k k') as [Hlt|[Heq|Hlt]]; [|exact Heq|]; exfalso.
      - pose proof (Hg k) as Hk. cbn [get] in Hk. rewrite key_eqb_refl in Hk.
        destruct (key_eqb k' k) eqn:E.
        + apply key_eqb_true_iff in E. subst. rewrite key_ltb_irrefl in Hlt. discriminate.
        + symmetry in Hk. apply get_Some_In in Hk. apply Hlb' in Hk.
          rewrite (key_ltb_asym _ _ Hlt) in Hk. discriminate.
      - pose proof (Hg k') as Hk. cbn [get] in Hk. rewrite key_eqb_refl in Hk.
        destruct (key_eqb k k') eqn:E.
        + apply key_eqb_true_iff in E. subst. rewrite key_ltb_irrefl in Hlt. discriminate.
        + apply get_Some_In in Hk. apply Hlb in Hk.
          rewrite (key_ltb_asym _ _ Hlt) in Hk. discriminate. }
    subst k'.
    assert (Hv : v = v').
    { pose proof (Hg k) as Hk. cbn [get] in Hk. rewrite key_eqb_refl in Hk.
      inversion Hk. reflexivity. }
    subst v'. f_equal. apply IH; [exact Hs|exact Hs'|].
    intros x. destruct (key_eqb k x) eqn:E.
    + apply key_eqb_true_iff in E. subst x.
      rewrite (key_lb_get_None _ _ Hlb), (key_lb_get_None _ _ Hlb'). reflexivity.
    + specialize (Hg x). cbn [get] in Hg. rewrite E in Hg. exact Hg.
Qed.

Lemma kv_eqb_true_iff : forall a b, kv_eqb a b = true <-> a = b.
Proof.
  induction a as [|[k v] a IH]; intros [|[k' v'] b]; cbn [kv_eqb]; split; intros Hab;
    try reflexivity; try discriminate.
  - apply andb_true_iff in Hab. destruct Hab as [Hab H3].
    apply andb_true_iff in Hab. destruct Hab as [H1 H2].
    apply key_eqb_true_iff in H1. apply N.eqb_eq in H2. apply IH in H3. subst. reflexivity.
  - inversion Hab; subst. rewrite key_eqb_refl, N.eqb_refl. cbn.
    apply IH. reflexivity.
Qed.

Lemma del_absent : forall S k, get S k = None -> del S k = S.
Proof.
  unfold del. induction S as [|[k0 v0] S IH]; intros k Hg.
  - reflexivity.
  - cbn [get] in Hg. cbn [filter fst].
    destruct (key_eqb k0 k) eqn:E; [discriminate|].
    cbn [negb]. f_equal. apply IH. exact Hg.
Qed.

Lemma del_ins_absent : forall S k v, get S k = None -> del (ins k v S) k = S.
Proof.
  induction S as [|[k0 v0] S IH]; intros k v Hg.
  - unfold del. cbn [ins filter fst]. rewrite key_eqb_refl. reflexivity.
  - pose proof Hg as Hg0. cbn [get] in Hg.
    destruct (key_eqb k0 k) eqn:E0; [discriminate|].
    cbn [ins]. destruct (key_ltb k k0) eqn:Elt.
    + unfold del. cbn [filter fst]. rewrite key_eqb_refl. cbn [negb].
      apply (del_absent ((k0, v0) :: S) k). exact Hg0.
    + destruct (key_eqb k k0) eqn:E1.
      * apply key_eqb_true_iff in E1. subst. rewrite key_eqb_refl in E0. discriminate.
      * unfold del. cbn [filter fst]. rewrite E0. cbn [negb]. f_equal.
        apply (IH k v). exact Hg.
Qed.

Lemma NoDup_get_perm : forall S S', NoDup (map fst S) -> NoDup (map fst S') ->
  (forall k, get S k = get S' k) -> Permutation S S'.
Proof.
  intros S S' Hnd Hnd' Hg.
  apply NoDup_Permutation.
  - eapply NoDup_map_inv. exact Hnd.
  - eapply NoDup_map_inv. exact Hnd'.
  - intros [k v]. rewrite (get_In S k v Hnd), (get_In S' k v Hnd'), Hg. tauto.
Qed.
