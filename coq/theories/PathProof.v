(* Mirror of core/src/proof/path_proof.rs: PathProof::verify, hash_path, VerifiedPathProof
   confirm_value / confirm_nonexistence / in_scope.  Generic in the hasher. *)
From Nomt Require Import Base Hash Trie Result.

Section WithHasher.
  Variable H : Hasher.

  (* PathProofTerminal: a leaf's data, or the position of a terminator.  A TriePosition can
     only be built with depth 0..256 and [path()] is its first [depth] bits. *)
  Record path_proof := { pp_terminal : terminal; pp_siblings : list (node H) }.

  Definition terminal_node (t : terminal) : node H :=
    match t with TLeaf k v => hleaf H k v | TTerm _ => TERM H end.

  (* hash_path: zip the path bits, last first, with the siblings, last first *)
  Fixpoint hash_up (n : node H) (bits_rev : list bool) (sibs_rev : list (node H)) : node H :=
    match bits_rev, sibs_rev with
    | b :: bs, s :: ss => hash_up (if b then hint H s n else hint H n s) bs ss
    | _, _ => n
    end.

  Definition hash_path (n : node H) (path : key) (sibs_rev : list (node H)) : node H :=
    hash_up n (rev path) sibs_rev.

  Inductive verify_err := TooManySiblings | RootMismatch | TerminalOutOfPath.

  Record verified := {
    vp_path : key;                       (* the proven path: first |siblings| bits of the key *)
    vp_terminal : option (key * value);  (* None: the path ends in a terminator *)
    vp_siblings : list (node H);
    vp_root : node H
  }.

  Definition verify (p : path_proof) (key_path : key) (root : node H) : res verify_err verified :=
    if Nat.ltb (Nat.min (length key_path) 256) (length (pp_siblings p)) then Err TooManySiblings
    else
      let relevant := firstn (length (pp_siblings p)) key_path in
      (* a leaf can only be the terminal of a path its own key follows (starts_with) *)
      if match pp_terminal p with
         | TLeaf k _ => negb (is_prefix relevant k)
         | TTerm _ => false
         end
      then Err TerminalOutOfPath
      else
        let new_root := hash_path (terminal_node (pp_terminal p)) relevant (rev (pp_siblings p)) in
        if node_eqb H new_root root then
          Ok {| vp_path := relevant;
                vp_terminal := match pp_terminal p with TLeaf k v => Some (k, v) | TTerm _ => None end;
                vp_siblings := pp_siblings p;
                vp_root := root |}
        else Err RootMismatch.

  Inductive out_of_scope := KeyOutOfScope.

  (* in_scope slices the 256-bit key by the path length: a longer path would panic, but a
     verified path never exceeds 256 bits (verify_path_len) *)
  Definition in_scope (vp : verified) (k : key) : res out_of_scope unit :=
    if Nat.ltb (length k) (length (vp_path vp)) then Panic
    else if key_eqb (vp_path vp) (firstn (length (vp_path vp)) k) then Ok tt else Err KeyOutOfScope.

  Definition confirm_value (vp : verified) (k : key) (v : value) : res out_of_scope bool :=
    bind (in_scope vp k) (fun _ =>
      Ok (match vp_terminal vp with
          | Some (k', v') => key_eqb k' k && N.eqb v' v
          | None => false
          end)).

  Definition confirm_nonexistence (vp : verified) (k : key) : res out_of_scope bool :=
    bind (in_scope vp k) (fun _ =>
      Ok (match vp_terminal vp with
          | Some (k', _) => negb (key_eqb k' k)
          | None => true
          end)).

  (* the canonical proof of a key in a key/value set *)
  Definition canonical_proof (n : nat) (S : kv) (k : key) : path_proof :=
    let '(s, tm) := walk H (mk n 0 S) k 0 in {| pp_terminal := tm; pp_siblings := s |}.
End WithHasher.

Arguments pp_terminal {H}. Arguments pp_siblings {H}.
Arguments vp_path {H}. Arguments vp_terminal {H}. Arguments vp_siblings {H}. Arguments vp_root {H}.
