(* Completeness, soundness, uniqueness and totality of path proofs (PathProof.v). *)
From Coq Require Import List Bool Arith NArith Lia.
From Nomt Require Import Base Hash Trie Result PathProof Base_proofs Trie_proofs.
Import ListNotations.

(* ------------------------------------------------------------------------------------ *)
(* small local facts about keys and lists                                                *)
(* ------------------------------------------------------------------------------------ *)

Lemma pp_key_eqb_eq : forall a b, key_eqb a b = true <-> a = b.
Proof.
  induction a as [|x a IH]; intros [|y b]; simpl; split; intros Hh;
    try discriminate; try reflexivity.
  - apply andb_true_iff in Hh. destruct Hh as [H1 H2].
    apply Bool.eqb_prop in H1. apply IH in H2. subst. reflexivity.
  - inversion Hh; subst. apply andb_true_iff. split.
    + apply Bool.eqb_reflx.
    + apply IH. reflexivity.
Qed.

Lemma pp_key_eqb_refl : forall k, key_eqb k k = true.
Proof. intros k. apply pp_key_eqb_eq. reflexivity. Qed.

Lemma pp_key_eqb_neq : forall a b, key_eqb a b = false <-> a <> b.
Proof.
  intros a b. split.
  - intros Hf He. apply pp_key_eqb_eq in He. congruence.
  - intros Hn. destruct (key_eqb a b) eqn:E; [|reflexivity].
    apply pp_key_eqb_eq in E. contradiction.
Qed.

Lemma skipn_cons_inv : forall d (k : key) b rest,
  skipn d k = b :: rest -> bit k d = b /\ skipn (S d) k = rest.
Proof.
  induction d as [|d IH]; intros k b rest Hs.
  - destruct k as [|x k]; simpl in Hs; [discriminate|].
    inversion Hs; subst. split; reflexivity.
  - destruct k as [|x k]; [simpl in Hs; discriminate|].
    change (skipn (S d) (x :: k)) with (skipn d k) in Hs.
    apply IH in Hs. destruct Hs as [H1 H2]. split.
    + unfold bit in *. simpl. exact H1.
    + exact H2.
Qed.

Lemma skipn_bit : forall d (k : key), d < length k ->
  skipn d k = bit k d :: skipn (S d) k.
Proof.
  intros d k Hd. destruct (skipn d k) as [|b rest] eqn:Es.
  - assert (Hl : length (skipn d k) = length k - d) by apply skipn_length.
    rewrite Es in Hl. simpl in Hl. lia.
  - apply skipn_cons_inv in Es. destruct Es as [H1 H2]. subst. reflexivity.
Qed.

Lemma pp_is_prefix_firstn : forall d (k : key), is_prefix (firstn d k) k = true.
Proof.
  induction d as [|d IH]; intros [|x k]; cbn [firstn is_prefix]; try reflexivity.
  rewrite Bool.eqb_reflx. cbn [andb]. apply IH.
Qed.

Lemma is_prefix_firstn_eq : forall (p k : key),
  is_prefix p k = true <-> firstn (length p) k = p.
Proof.
  induction p as [|x p IH]; intros [|y k]; cbn [is_prefix firstn length]; split; intros Hh;
    try reflexivity; try discriminate.
  - apply andb_true_iff in Hh. destruct Hh as [H1 H2].
    apply Bool.eqb_prop in H1. apply IH in H2. subst. rewrite H2. reflexivity.
  - inversion Hh as [[Hx Hp]]. rewrite Hp. rewrite Bool.eqb_reflx. cbn [andb].
    apply IH. exact Hp.
Qed.

(* ------------------------------------------------------------------------------------ *)
(* hash_up                                                                               *)
(* ------------------------------------------------------------------------------------ *)

Lemma hash_up_snoc : forall (H : Hasher) bs ss n b s, length bs = length ss ->
  hash_up H n (bs ++ [b]) (ss ++ [s]) =
  (if b then hint H s (hash_up H n bs ss) else hint H (hash_up H n bs ss) s).
Proof.
  intros H bs. induction bs as [|b0 bs IH]; intros ss n b s Hl;
    destruct ss as [|s0 ss]; simpl in Hl; try discriminate.
  - reflexivity.
  - simpl. apply IH. lia.
Qed.

Lemma hash_up_cons_rev : forall (H : Hasher) n b path s sibs, length path = length sibs ->
  hash_up H n (rev (b :: path)) (rev (s :: sibs)) =
  (if b then hint H s (hash_up H n (rev path) (rev sibs))
   else hint H (hash_up H n (rev path) (rev sibs)) s).
Proof.
  intros H n b path s sibs Hl. simpl rev. apply hash_up_snoc.
  rewrite !rev_length. exact Hl.
Qed.

(* ---- trie level: rebuilding the root from a walk ---- *)
Lemma walk_hash_up : forall (H : Hasher) t k d sibs tm,
  walk H t k d = (sibs, tm) -> d + length sibs <= length k ->
  hash_up H (terminal_node H tm) (rev (firstn (length sibs) (skipn d k))) (rev sibs) = hash H t.
Proof.
  intros H t. induction t as [|k' v'|l IHl r IHr]; intros k d sibs tm Hw Hlen.
  - simpl in Hw. inversion Hw; subst. reflexivity.
  - simpl in Hw. inversion Hw; subst. reflexivity.
  - simpl in Hw. destruct (bit k d) eqn:Eb.
    + destruct (walk H r k (S d)) as [s tm'] eqn:Ew. inversion Hw; subst. clear Hw.
      simpl length in *.
      rewrite (skipn_bit d k) by lia. rewrite Eb.
      change (firstn (S (length s)) (true :: skipn (S d) k))
        with (true :: firstn (length s) (skipn (S d) k)).
      rewrite hash_up_cons_rev.
      * rewrite (IHr k (S d) s tm Ew) by lia. reflexivity.
      * rewrite firstn_length, skipn_length. lia.
    + destruct (walk H l k (S d)) as [s tm'] eqn:Ew. inversion Hw; subst. clear Hw.
      simpl length in *.
      rewrite (skipn_bit d k) by lia. rewrite Eb.
      change (firstn (S (length s)) (false :: skipn (S d) k))
        with (false :: firstn (length s) (skipn (S d) k)).
      rewrite hash_up_cons_rev.
      * rewrite (IHl k (S d) s tm Ew) by lia. reflexivity.
      * rewrite firstn_length, skipn_length. lia.
Qed.

(* ------------------------------------------------------------------------------------ *)
(* descending a trie along a path                                                        *)
(* ------------------------------------------------------------------------------------ *)

Fixpoint descend (t : trie) (path : key) {struct path} : option trie :=
  match path with
  | [] => Some t
  | b :: p =>
      match t with
      | Br l r => descend (if b then r else l) p
      | _ => None
      end
  end.

(* hashes of the sibling sub-tries along a path, root first *)
Fixpoint sib_hashes (H : Hasher) (t : trie) (path : key) {struct path} : list (node H) :=
  match path, t with
  | b :: p, Br l r => hash H (if b then l else r) :: sib_hashes H (if b then r else l) p
  | _, _ => []
  end.

Lemma hint_ne_term : forall (H : Hasher), HasherOK H -> forall a b, hint H a b <> TERM H.
Proof.
  intros H OK a b He. apply (f_equal (kind H)) in He.
  rewrite (kind_int H OK), (kind_term H OK) in He. discriminate.
Qed.

Lemma hint_ne_leaf : forall (H : Hasher), HasherOK H -> forall a b k v, hint H a b <> hleaf H k v.
Proof.
  intros H OK a b k v He. apply (f_equal (kind H)) in He.
  rewrite (kind_int H OK), (kind_leaf H OK) in He. discriminate.
Qed.

Lemma hleaf_ne_term : forall (H : Hasher), HasherOK H -> forall k v, hleaf H k v <> TERM H.
Proof.
  intros H OK k v He. apply (f_equal (kind H)) in He.
  rewrite (kind_leaf H OK), (kind_term H OK) in He. discriminate.
Qed.

Lemma hash_term_inv : forall (H : Hasher), HasherOK H -> forall t, hash H t = TERM H -> t = E.
Proof.
  intros H OK t Ht. destruct t as [|k v|l r]; simpl in Ht.
  - reflexivity.
  - exfalso. exact (hleaf_ne_term H OK _ _ Ht).
  - exfalso. exact (hint_ne_term H OK _ _ Ht).
Qed.

Lemma hash_leaf_inv : forall (H : Hasher), HasherOK H -> HasherCF H ->
  forall t k v, hash H t = hleaf H k v -> t = Lf k v.
Proof.
  intros H OK CF t k v Ht. destruct t as [|k' v'|l r]; simpl in Ht.
  - exfalso. symmetry in Ht. exact (hleaf_ne_term H OK _ _ Ht).
  - apply (hleaf_inj H CF) in Ht. destruct Ht; subst. reflexivity.
  - exfalso. exact (hint_ne_leaf H OK _ _ _ _ Ht).
Qed.

Lemma hash_up_descend : forall (H : Hasher), HasherOK H -> HasherCF H ->
  forall path sibs t n, length path = length sibs ->
  hash_up H n (rev path) (rev sibs) = hash H t ->
  exists t', descend t path = Some t' /\ hash H t' = n /\ sibs = sib_hashes H t path.
Proof.
  intros H OK CF path. induction path as [|b path IH]; intros sibs t n Hl Hh;
    destruct sibs as [|s sibs]; simpl in Hl; try discriminate.
  - simpl in Hh. exists t. simpl. split; [reflexivity|]. split; [symmetry; exact Hh|reflexivity].
  - rewrite hash_up_cons_rev in Hh by lia.
    destruct t as [|k v|l r].
    + exfalso. simpl in Hh. destruct b; exact (hint_ne_term H OK _ _ Hh).
    + exfalso. simpl in Hh. destruct b; exact (hint_ne_leaf H OK _ _ _ _ Hh).
    + simpl in Hh. destruct b.
      * apply (hint_inj H CF) in Hh. destruct Hh as [Hs Hx].
        destruct (IH sibs r n ltac:(lia) Hx) as [t' [Hd [Hn Hsb]]].
        exists t'. simpl. split; [exact Hd|]. split; [exact Hn|]. congruence.
      * apply (hint_inj H CF) in Hh. destruct Hh as [Hx Hs].
        destruct (IH sibs l n ltac:(lia) Hx) as [t' [Hd [Hn Hsb]]].
        exists t'. simpl. split; [exact Hd|]. split; [exact Hn|]. congruence.
Qed.

Lemma descend_walk : forall (H : Hasher) path t t' k d,
  descend t path = Some t' ->
  firstn (length path) (skipn d k) = path ->
  walk H t k d =
  (let '(s, tm) := walk H t' k (d + length path) in (sib_hashes H t path ++ s, tm)).
Proof.
  intros H path. induction path as [|b path IH]; intros t t' k d Hd Hp.
  - simpl in Hd. inversion Hd; subst. simpl. rewrite Nat.add_0_r.
    destruct (walk H t' k d) as [s tm]. reflexivity.
  - simpl in Hd. destruct t as [|k0 v0|l r]; try discriminate.
    simpl length in Hp.
    destruct (skipn d k) as [|b0 rest] eqn:Es; [simpl in Hp; discriminate|].
    simpl in Hp. injection Hp as Hb Hrest. subst b0.
    apply skipn_cons_inv in Es. destruct Es as [Hbit Hsk].
    rewrite <- Hsk in Hrest.
    simpl walk. rewrite Hbit. simpl length.
    replace (d + S (length path)) with (S d + length path) by lia.
    destruct b.
    + rewrite (IH r t' k (S d) Hd Hrest).
      destruct (walk H t' k (S d + length path)) as [s tm]. reflexivity.
    + rewrite (IH l t' k (S d) Hd Hrest).
      destruct (walk H t' k (S d + length path)) as [s tm]. reflexivity.
Qed.

Lemma sib_hashes_length : forall (H : Hasher) path t t',
  descend t path = Some t' -> length (sib_hashes H t path) = length path.
Proof.
  intros H path. induction path as [|b path IH]; intros t t' Hd.
  - reflexivity.
  - simpl in Hd. destruct t as [|k v|l r]; try discriminate.
    simpl. f_equal. exact (IH _ _ Hd).
Qed.

(* ------------------------------------------------------------------------------------ *)
(* inversion of verify / in_scope                                                        *)
(* ------------------------------------------------------------------------------------ *)

Lemma verify_ok_inv : forall (H : Hasher) (p : path_proof H) kp root vp,
  verify H p kp root = Ok vp ->
  length (pp_siblings p) <= length kp /\ length (pp_siblings p) <= 256 /\
  node_eqb H (hash_up H (terminal_node H (pp_terminal p))
                (rev (firstn (length (pp_siblings p)) kp)) (rev (pp_siblings p))) root = true /\
  vp_path vp = firstn (length (pp_siblings p)) kp /\
  vp_terminal vp = (match pp_terminal p with TLeaf k v => Some (k, v) | TTerm _ => None end) /\
  vp_siblings vp = pp_siblings p /\ vp_root vp = root.
Proof.
  intros H p kp root vp Hv. unfold verify, hash_path in Hv.
  destruct (Nat.ltb (Nat.min (length kp) 256) (length (pp_siblings p))) eqn:E1; [discriminate|].
  destruct (match pp_terminal p with TLeaf k _ => _ | TTerm _ => false end) eqn:E0; [discriminate|].
  destruct (node_eqb H _ root) eqn:E2; [|discriminate].
  inversion Hv; subst; clear Hv. simpl.
  apply Nat.ltb_ge in E1.
  assert (Hm1 : Nat.min (length kp) 256 <= length kp) by apply Nat.le_min_l.
  assert (Hm2 : Nat.min (length kp) 256 <= 256) by apply Nat.le_min_r.
  repeat split; try reflexivity; try lia.
Qed.

Lemma vp_path_length : forall (H : Hasher) (p : path_proof H) kp root vp,
  verify H p kp root = Ok vp -> length (vp_path vp) = length (pp_siblings p).
Proof.
  intros H p kp root vp Hv. apply verify_ok_inv in Hv.
  destruct Hv as [H1 [H2 [H3 [H4 _]]]]. rewrite H4, firstn_length. lia.
Qed.

(* the new check of PathProof::verify: a verified leaf terminal lies under the proven path *)
Lemma verify_ok_terminal : forall (H : Hasher) (p : path_proof H) kp root vp,
  verify H p kp root = Ok vp ->
  forall k v, vp_terminal vp = Some (k, v) -> is_prefix (vp_path vp) k = true.
Proof.
  intros H p kp root vp Hv k v Ht. unfold verify, hash_path in Hv.
  destruct (Nat.ltb (Nat.min (length kp) 256) (length (pp_siblings p))) eqn:E1; [discriminate|].
  destruct (pp_terminal p) as [k' v'|pth] eqn:Et.
  - destruct (negb (is_prefix (firstn (length (pp_siblings p)) kp) k')) eqn:E0; [discriminate|].
    destruct (node_eqb H _ root) eqn:E2; [|discriminate].
    inversion Hv; subst; clear Hv. cbn [vp_terminal vp_path] in *.
    inversion Ht; subst. apply negb_false_iff in E0. exact E0.
  - destruct (node_eqb H _ root) eqn:E2; [|discriminate].
    inversion Hv; subst; clear Hv. cbn [vp_terminal] in Ht. discriminate.
Qed.

Lemma in_scope_ok_inv : forall (H : Hasher) (vp : verified H) k u,
  in_scope H vp k = Ok u ->
  length (vp_path vp) <= length k /\ firstn (length (vp_path vp)) k = vp_path vp.
Proof.
  intros H vp k u Hi. unfold in_scope in Hi.
  destruct (Nat.ltb (length k) (length (vp_path vp))) eqn:E1; [discriminate|].
  destruct (key_eqb (vp_path vp) (firstn (length (vp_path vp)) k)) eqn:E2; [|discriminate].
  apply Nat.ltb_ge in E1. apply pp_key_eqb_eq in E2. split; [exact E1|]. symmetry. exact E2.
Qed.

(* The central soundness fact, for an arbitrary trie: a proof verified against the hash of
   [t] pins down the walk of every key in its scope. *)
Lemma verified_walk : forall (H : Hasher), HasherOK H -> HasherCF H ->
  forall t (p : path_proof H) kp vp k u,
  verify H p kp (hash H t) = Ok vp ->
  in_scope H vp k = Ok u ->
  walk H t k 0 =
  (pp_siblings p,
   match pp_terminal p with
   | TLeaf a b => TLeaf a b
   | TTerm _ => TTerm (firstn (length (pp_siblings p)) k)
   end).
Proof.
  intros H OK CF t p kp vp k u Hv Hi.
  pose proof (vp_path_length H p kp _ vp Hv) as Hlen.
  pose proof (verify_ok_inv H p kp _ vp Hv) as [H1 [H2 [H3 [H4 _]]]].
  apply (eqb_ok H OK) in H3.
  destruct (in_scope_ok_inv H vp k u Hi) as [Hi1 Hi2].
  rewrite <- H4 in H3.
  destruct (hash_up_descend H OK CF (vp_path vp) (pp_siblings p) t _ Hlen H3)
    as [t' [Hd [Hn Hs]]].
  assert (Hp : firstn (length (vp_path vp)) (skipn 0 k) = vp_path vp) by exact Hi2.
  rewrite (descend_walk H (vp_path vp) t t' k 0 Hd Hp).
  simpl Nat.add. rewrite <- Hs. rewrite Hlen.
  destruct (pp_terminal p) as [a b|pth]; simpl in Hn.
  - apply (hash_leaf_inv H OK CF) in Hn. subst t'. simpl. rewrite app_nil_r. reflexivity.
  - apply (hash_term_inv H OK) in Hn. subst t'. simpl. rewrite app_nil_r. reflexivity.
Qed.

(* ------------------------------------------------------------------------------------ *)
(* C18 (path proofs): the verifier is total                                              *)
(* ------------------------------------------------------------------------------------ *)

Theorem verify_total : forall (H : Hasher) (p : path_proof H) kp root, verify H p kp root <> Panic.
Proof.
  intros H p kp root. unfold verify.
  destruct (Nat.ltb _ _); [discriminate|].
  destruct (match pp_terminal p with TLeaf k _ => _ | TTerm _ => false end); [discriminate|].
  destruct (node_eqb H _ root); discriminate.
Qed.

Theorem verify_path_len : forall (H : Hasher) (p : path_proof H) kp root vp,
  verify H p kp root = Ok vp -> length (vp_path vp) <= 256 /\ length (vp_path vp) <= length kp.
Proof.
  intros H p kp root vp Hv.
  pose proof (vp_path_length H p kp root vp Hv) as Hlen.
  apply verify_ok_inv in Hv. destruct Hv as [H1 [H2 _]]. lia.
Qed.

Theorem confirm_total : forall (H : Hasher) (p : path_proof H) kp root vp k v,
  verify H p kp root = Ok vp -> length k = 256 ->
  confirm_value H vp k v <> Panic /\ confirm_nonexistence H vp k <> Panic.
Proof.
  intros H p kp root vp k v Hv Hk.
  apply verify_path_len in Hv. destruct Hv as [Hl _].
  unfold confirm_value, confirm_nonexistence, in_scope.
  assert (E : Nat.ltb (length k) (length (vp_path vp)) = false) by (apply Nat.ltb_ge; lia).
  rewrite E.
  destruct (key_eqb (vp_path vp) (firstn (length (vp_path vp)) k)); simpl; split; discriminate.
Qed.

(* ------------------------------------------------------------------------------------ *)
(* non-vacuity: the free-term hasher                                                     *)
(* ------------------------------------------------------------------------------------ *)

Lemma nkind_eqb_eq : forall a b, nkind_eqb a b = true <-> a = b.
Proof. intros [] []; simpl; split; intros; try discriminate; reflexivity. Qed.

Lemma fnode_eqb_eq : forall a b, fnode_eqb a b = true <-> a = b.
Proof.
  induction a as [|k v|l IHl r IHr|t i]; intros b; destruct b as [|k' v'|l' r'|t' i'];
    simpl; split; intros Hh; try discriminate; try reflexivity.
  - apply andb_true_iff in Hh. destruct Hh as [H1 H2].
    apply pp_key_eqb_eq in H1. apply N.eqb_eq in H2. subst. reflexivity.
  - inversion Hh; subst. apply andb_true_iff. split.
    + apply pp_key_eqb_refl.
    + apply N.eqb_refl.
  - apply andb_true_iff in Hh. destruct Hh as [H1 H2].
    apply IHl in H1. apply IHr in H2. subst. reflexivity.
  - inversion Hh; subst. apply andb_true_iff. split.
    + apply IHl. reflexivity.
    + apply IHr. reflexivity.
  - apply andb_true_iff in Hh. destruct Hh as [H1 H2].
    apply nkind_eqb_eq in H1. apply N.eqb_eq in H2. subst. reflexivity.
  - inversion Hh; subst. apply andb_true_iff. split.
    + apply nkind_eqb_eq. reflexivity.
    + apply N.eqb_refl.
Qed.

Lemma FreeH_OK : HasherOK FreeH.
Proof.
  constructor; simpl.
  - exact fnode_eqb_eq.
  - reflexivity.
  - reflexivity.
  - reflexivity.
  - intros n Hn. destruct n as [|k v|l r|t i]; simpl in Hn; try discriminate.
    + reflexivity.
    + destruct t; discriminate.
Qed.

Lemma FreeH_CF : HasherCF FreeH.
Proof.
  constructor; simpl.
  - intros a b c d Hh. inversion Hh. split; reflexivity.
  - intros k v k' v' Hh. inversion Hh. split; reflexivity.
Qed.

(* ------------------------------------------------------------------------------------ *)
(* C05: every key has a verifying, truthful path proof                                   *)
(* ------------------------------------------------------------------------------------ *)

Theorem C05_complete : forall (H : Hasher), HasherOK H ->
  forall n S k, n <= 256 -> wf n S -> length k = n ->
  let p := canonical_proof H n S k in
  exists vp, verify H p k (root_n H n S) = Ok vp /\
    (forall v, get S k = Some v ->
       confirm_value H vp k v = Ok true /\ confirm_nonexistence H vp k = Ok false) /\
    (get S k = None -> confirm_nonexistence H vp k = Ok true) /\
    length (pp_siblings p) <= n.
Proof.
  intros H OK n S k Hn Hwf Hk p. subst p. unfold canonical_proof.
  destruct (walk H (mk n 0 S) k 0) as [sibs tm] eqn:Ew.
  destruct (mk_walk H n S k sibs tm Hwf Hk Ew) as [Hls Htm].
  assert (Hle : 0 + length sibs <= length k) by lia.
  pose proof (walk_hash_up H _ k 0 sibs tm Ew Hle) as Hup.
  change (skipn 0 k) with k in Hup.
  unfold verify, hash_path. cbn [pp_siblings pp_terminal].
  assert (E1 : Nat.ltb (Nat.min (length k) 256) (length sibs) = false).
  { apply Nat.ltb_ge. rewrite Hk. rewrite Nat.min_l by lia. lia. }
  rewrite E1.
  (* the honest leaf lies under the path (mk_walk) *)
  assert (E0 : match tm with
               | TLeaf k' _ => negb (is_prefix (firstn (length sibs) k) k')
               | TTerm _ => false
               end = false).
  { destruct tm as [k' v'|pth]; [|reflexivity].
    destruct Htm as [_ [Hpre _]]. rewrite <- Hpre. rewrite pp_is_prefix_firstn. reflexivity. }
  rewrite E0. rewrite Hup.
  assert (E2 : node_eqb H (hash H (mk n 0 S)) (root_n H n S) = true).
  { apply (eqb_ok H OK). reflexivity. }
  rewrite E2.
  eexists. split; [reflexivity|].
  unfold confirm_value, confirm_nonexistence, in_scope. cbn [vp_path vp_terminal].
  rewrite firstn_length. rewrite Nat.min_l by lia.
  assert (E3 : Nat.ltb (length k) (length sibs) = false) by (apply Nat.ltb_ge; lia).
  rewrite E3. rewrite pp_key_eqb_refl. cbn [bind].
  split; [|split].
  - intros v Hg. destruct tm as [k' v'|pth].
    + destruct Htm as [_ [_ Hget]]. rewrite Hg in Hget.
      destruct (key_eqb k' k); [|discriminate].
      inversion Hget; subst. rewrite N.eqb_refl. split; reflexivity.
    + destruct Htm as [_ Hget]. congruence.
  - intros Hg. destruct tm as [k' v'|pth].
    + destruct Htm as [_ [_ Hget]]. rewrite Hg in Hget.
      destruct (key_eqb k' k); [discriminate|]. reflexivity.
    + reflexivity.
  - exact Hls.
Qed.

(* ------------------------------------------------------------------------------------ *)
(* C08: a verified path proof only confirms true statements                              *)
(* ------------------------------------------------------------------------------------ *)

Theorem path_sound : forall (H : Hasher), HasherOK H -> HasherCF H ->
  forall n S (p : path_proof H) kp vp, wf n S ->
  verify H p kp (root_n H n S) = Ok vp ->
  forall k, length k = n ->
    (forall v, confirm_value H vp k v = Ok true -> get S k = Some v) /\
    (forall v, confirm_value H vp k v = Ok false -> get S k <> Some v) /\
    (confirm_nonexistence H vp k = Ok true -> get S k = None) /\
    (confirm_nonexistence H vp k = Ok false -> get S k <> None).
Proof.
  intros H OK CF n S p kp vp Hwf Hv k Hk.
  unfold root_n in Hv.
  pose proof (verify_ok_inv H p kp _ vp Hv) as [_ [_ [_ [_ [Hterm _]]]]].
  assert (Hcore : forall u, in_scope H vp k = Ok u ->
     get S k = match pp_terminal p with
               | TLeaf a b => if key_eqb a k then Some b else None
               | TTerm _ => None
               end).
  { intros u Hi. pose proof (verified_walk H OK CF _ p kp vp k u Hv Hi) as Hw.
    destruct (mk_walk H n S k _ _ Hwf Hk Hw) as [_ Htm].
    destruct (pp_terminal p) as [a b|pth].
    - destruct Htm as [_ [_ Hg]]. exact Hg.
    - destruct Htm as [_ Hg]. exact Hg. }
  unfold confirm_value, confirm_nonexistence.
  destruct (in_scope H vp k) as [u|e|] eqn:Ei; cbn [bind].
  - specialize (Hcore u eq_refl). rewrite Hterm, Hcore.
    destruct (pp_terminal p) as [a b|pth].
    + destruct (key_eqb a k) eqn:Ek; cbn [andb negb].
      * split; [|split; [|split]].
        -- intros v Hc. inversion Hc as [Hc']. apply N.eqb_eq in Hc'. subst. reflexivity.
        -- intros v Hc. inversion Hc as [Hc']. apply N.eqb_neq in Hc'. congruence.
        -- intros Hc. discriminate.
        -- intros _. discriminate.
      * split; [|split; [|split]].
        -- intros v Hc. discriminate.
        -- intros v _. discriminate.
        -- intros _. reflexivity.
        -- intros Hc. discriminate.
    + split; [|split; [|split]].
      * intros v Hc. discriminate.
      * intros v _. discriminate.
      * intros _. reflexivity.
      * intros Hc. discriminate.
  - repeat split; intros; discriminate.
  - repeat split; intros; discriminate.
Qed.

(* uniqueness: a verified proof for a key carries the canonical siblings and terminal *)
Theorem path_proof_unique : forall (H : Hasher), HasherOK H -> HasherCF H ->
  forall n S (p : path_proof H) k vp, wf n S -> length k = n ->
  verify H p k (root_n H n S) = Ok vp ->
  pp_siblings p = pp_siblings (canonical_proof H n S k) /\
  match pp_terminal p, pp_terminal (canonical_proof H n S k) with
  | TLeaf a b, TLeaf a' b' => a = a' /\ b = b'
  | TTerm _, TTerm _ => True
  | _, _ => False
  end.
Proof.
  intros H OK CF n S p k vp Hwf Hk Hv.
  unfold root_n in Hv.
  assert (Hi : in_scope H vp k = Ok tt).
  { pose proof (verify_ok_inv H p k _ vp Hv) as [H1 [_ [_ [H4 _]]]].
    unfold in_scope. rewrite H4. rewrite firstn_length, Nat.min_l by lia.
    assert (E : Nat.ltb (length k) (length (pp_siblings p)) = false)
      by (apply Nat.ltb_ge; lia).
    rewrite E. rewrite pp_key_eqb_refl. reflexivity. }
  pose proof (verified_walk H OK CF _ p k vp k tt Hv Hi) as Hw.
  unfold canonical_proof. rewrite Hw. cbn [pp_siblings pp_terminal].
  split; [reflexivity|].
  destruct (pp_terminal p) as [a b|pth]; auto.
Qed.
