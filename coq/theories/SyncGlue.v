(* SyncGlue: what the trace engine (harness/src/trace.rs, ocaml/sync_cmds.ml) needs around the
   sync-protocol monitor of SyncProto.v so that the hypotheses of the atomicity theorems are
   CHECKED on every recorded sync of the real implementation:

   * [explain]      the monitor [discipline] with a verdict: which clause fails, and where
                    ([discipline_explain_ok]: explain = None <-> discipline = true);
   * [start_okb], [inst_okb], [wal_safeb], [wal_safe_origb]
                    boolean versions of the other hypotheses, as lists of named checks so that the
                    driver can say which one fails ([*_iff]: exactly the Prop, [*_sound] corollaries);
   * [live_of]      the pages of a value file the old image references: [1, bump) minus the ITEMS
                    of the free list (computed by Image.v's decoders on the pre-sync files);
   * [checked_*]    the theorems of SyncProto_proofs.v restated over the executable checks: this is
                    what one "ok" line of the driver means. *)
From Nomt Require Import Base SyncProto SyncProto_proofs.
From Nomt Require Image.

(* ------------------------------------------------------------------------------------------ *)
(* 1. the monitor with a verdict                                                               *)

Inductive clause :=
| KNoSwitch      (* a manifest write that is never followed by a manifest fsync; pos = the write *)
| KOrder         (* a manifest fsync before the first manifest write; pos = the fsync *)
| KMetaWrite     (* the manifest write is not "page 0 := m_new"; pos = the write *)
| KMid           (* something happens between the manifest write and its fsync; pos = that event *)
| KPre           (* an event before the manifest write violates [pre_ok]; pos = the event *)
| KCleanWal      (* unsynced WAL operations at the manifest write; pos = the write *)
| KCleanLn       (* unsynced / in-flight ln operations at the manifest write *)
| KCleanBbn      (* unsynced / in-flight bbn operations at the manifest write *)
| KWalDurable    (* the durable WAL is not exactly the new blob at the manifest write *)
| KTreeDurable   (* a page of [tree_new] is not durable at the manifest write; pos = index in tree_new *)
| KPost          (* an event after the manifest fsync violates [post_ok]; pos = the event *)
| KHtClean       (* hash-table operations unsynced when the WAL is truncated; pos = the truncation *)
| KHtDurable.    (* a page of [ht_new] not durable when the WAL is truncated; pos = index in ht_new *)

Definition verdict := option (clause * nat).

(* index of the first element that fails p *)
Fixpoint first_bad {A} (p : A -> bool) (l : list A) : option nat :=
  match l with
  | [] => None
  | x :: r => if p x then option_map S (first_bad p r) else Some 0
  end.

Definition chk (b : bool) (c : clause) (pos : nat) (k : verdict) : verdict :=
  if b then k else Some (c, pos).

Definition chk_all {A} (p : A -> bool) (l : list A) (c : clause) (off : nat) (k : verdict) : verdict :=
  match first_bad p l with
  | None => k
  | Some i => Some (c, off + i)
  end.

Definition is_wal_resize (e : ev) : bool := match e with ET f _ => Nat.eqb f FWal | _ => false end.

Definition explain (I : inst) (d0 : disk) (tr : list ev) : verdict :=
  match index_of is_meta_write tr, index_of is_meta_sync tr with
  | Some iw, Some is_ =>
      let pre := firstn iw tr in
      let mid := firstn (is_ - iw - 1) (skipn (S iw) tr) in
      let post := skipn (S is_) tr in
      let d_pre := drun d0 pre in
      chk (Nat.ltb iw is_) KOrder is_ (
      chk (match nth_error tr iw with Some (EW _ pn c) => N.eqb pn 0 && N.eqb c (m_new I) | _ => false end)
          KMetaWrite iw (
      chk (match mid with [] => true | _ => false end) KMid (S iw) (
      chk_all (pre_ok I) pre KPre 0 (
      chk (clean d_pre FWal) KCleanWal iw (
      chk (clean d_pre FLn) KCleanLn iw (
      chk (clean d_pre FBbn) KCleanBbn iw (
      chk (wal_is (image_of_durable d_pre) 0 (wal_new I)) KWalDurable iw (
      chk_all (fun x => let '(f, pn, c) := x in N.eqb (image_of_durable d_pre f pn) c) (tree_new I)
              KTreeDurable 0 (
      chk_all (post_ok I) post KPost (S is_) (
      match index_of (fun e => match e with ET f _ => Nat.eqb f FWal | _ => false end) post with
      | None => None
      | Some it =>
          let d_t := drun d0 (firstn (S is_ + it) tr) in
          chk (clean d_t FHt) KHtClean (S is_ + it) (
          chk_all (fun x => N.eqb (image_of_durable d_t FHt (fst x)) (snd x)) (ht_new I) KHtDurable 0 None)
      end))))))))))
  | _, _ =>
      match index_of is_meta_write tr with
      | None => chk_all (pre_ok I) tr KPre 0 None
      | Some iw => Some (KNoSwitch, iw)
      end
  end.

Lemma first_bad_none : forall A (p : A -> bool) l, first_bad p l = None <-> forallb p l = true.
Proof.
  intros A p l. induction l as [|x r IH]; simpl.
  - split; reflexivity.
  - destruct (p x); simpl.
    + destruct (first_bad p r); simpl.
      * split; [discriminate|]. intros H. apply IH in H. discriminate.
      * split; [|reflexivity]. intros _. apply IH. reflexivity.
    + split; discriminate.
Qed.

(* the reported position is the first element that fails, and it does fail *)
Lemma first_bad_some : forall A (p : A -> bool) l i, first_bad p l = Some i ->
  (exists x, nth_error l i = Some x /\ p x = false) /\ forallb p (firstn i l) = true.
Proof.
  intros A p l. induction l as [|x r IH]; simpl; intros i H.
  - discriminate.
  - destruct (p x) eqn:E.
    + destruct (first_bad p r) as [j|] eqn:F; simpl in H; [|discriminate].
      injection H as <-. destruct (IH j eq_refl) as [[y [Hy Hp]] Hf].
      split; [exists y; split; assumption|]. simpl. rewrite E. exact Hf.
    + injection H as <-. split; [exists x; split; [reflexivity|exact E]|reflexivity].
Qed.

Lemma chk_none : forall b c pos k, chk b c pos k = None <-> b = true /\ k = None.
Proof.
  intros b c pos k. unfold chk. destruct b.
  - split; [intros H; split; [reflexivity|exact H]|intros [_ H]; exact H].
  - split; [discriminate|intros [H _]; discriminate].
Qed.

Lemma chk_all_none : forall A (p : A -> bool) l c off k,
  chk_all p l c off k = None <-> forallb p l = true /\ k = None.
Proof.
  intros A p l c off k. unfold chk_all. destruct (first_bad p l) as [i|] eqn:E.
  - split; [discriminate|]. intros [H _]. apply first_bad_none in H. rewrite H in E. discriminate.
  - apply first_bad_none in E. split; [intros H; split; assumption|intros [_ H]; exact H].
Qed.

Theorem discipline_explain_ok : forall I d0 tr, explain I d0 tr = None <-> discipline I d0 tr = true.
Proof.
  intros I d0 tr. unfold explain, discipline.
  destruct (index_of is_meta_write tr) as [iw|] eqn:Ew.
  - destruct (index_of is_meta_sync tr) as [is_|] eqn:Es.
    + cbv zeta.
      destruct (index_of (fun e => match e with ET f _ => Nat.eqb f FWal | _ => false end)
                         (skipn (S is_) tr)) as [it|] eqn:Et;
        repeat (rewrite chk_none || rewrite chk_all_none);
        rewrite !andb_true_iff; unfold pages_ok, ht_all; tauto.
    + split; discriminate.
  - destruct (index_of is_meta_sync tr) as [is_|] eqn:Es; rewrite chk_all_none; tauto.
Qed.

(* ------------------------------------------------------------------------------------------ *)
(* 2. the other hypotheses as named boolean checks                                             *)

Definition all_ok (l : list (nat * bool)) : bool := forallb snd l.

Definition wal_pend_okb (d0 : disk) : bool :=
  match fpend (fget d0 FWal) with
  | [] => true
  | [PTrunc len] => N.eqb len 0
  | _ => false
  end.

(* numbering = position of the conjunct in [start_ok] *)
Definition start_checks (I : inst) (d0 : disk) : list (nat * bool) :=
  [ (0, N.eqb (pm_get (fdur (fget d0 FMeta)) 0%N) (m_old I));
    (1, clean d0 FMeta);
    (2, clean d0 FLn);
    (3, clean d0 FBbn);
    (4, clean d0 FHt);
    (5, pages_ok (image_of_durable d0) (live_old I));
    (6, ht_all (image_of_durable d0) (ht_old I));
    (7, wal_pend_okb d0);
    (8, wal_is (image_of_durable d0) 0 (wal_old I) || wal_is (image_of_durable d0) 0 []) ]%nat.

Definition start_okb (I : inst) (d0 : disk) : bool := all_ok (start_checks I d0).

Lemma clean_iff : forall d f, clean d f = true <-> fpend (fget d f) = [].
Proof.
  intros d f. unfold clean. destruct (fpend (fget d f)); split; try reflexivity; discriminate.
Qed.

Lemma wal_pend_okb_iff : forall d0,
  wal_pend_okb d0 = true <-> (fpend (fget d0 FWal) = [] \/ fpend (fget d0 FWal) = [PTrunc 0%N]).
Proof.
  intros d0. unfold wal_pend_okb. destruct (fpend (fget d0 FWal)) as [|o l].
  - split; [intros _; left; reflexivity|reflexivity].
  - destruct o as [pn c b|len].
    + split; [discriminate|]. intros [H|H]; discriminate.
    + destruct l as [|o' l'].
      * rewrite N.eqb_eq. split.
        -- intros ->. right. reflexivity.
        -- intros [H|H]; [discriminate|]. injection H as ->. reflexivity.
      * split; [discriminate|]. intros [H|H]; discriminate.
Qed.

Theorem start_okb_iff : forall I d0, start_okb I d0 = true <-> start_ok I d0.
Proof.
  intros I d0. unfold start_okb, all_ok, start_checks, start_ok. simpl forallb. simpl snd.
  rewrite !andb_true_iff, orb_true_iff, N.eqb_eq, !clean_iff, wal_pend_okb_iff. tauto.
Qed.

Corollary start_okb_sound : forall I d0, start_okb I d0 = true -> start_ok I d0.
Proof. intros I d0. apply start_okb_iff. Qed.

(* --- inst_ok --- *)
Fixpoint listN_eqb (a b : list N) : bool :=
  match a, b with
  | [], [] => true
  | x :: a', y :: b' => N.eqb x y && listN_eqb a' b'
  | _, _ => false
  end.

Lemma listN_eqb_iff : forall a b, listN_eqb a b = true <-> a = b.
Proof.
  induction a as [|x a IH]; destruct b as [|y b]; simpl; try (split; [discriminate|discriminate]).
  - split; reflexivity.
  - rewrite andb_true_iff, N.eqb_eq, IH. split.
    + intros [-> ->]. reflexivity.
    + intros H. injection H as -> ->. split; reflexivity.
Qed.

Definition memN (x : N) (l : list N) : bool := existsb (N.eqb x) l.

Lemma memN_iff : forall x l, memN x l = true <-> In x l.
Proof.
  intros x l. unfold memN. rewrite existsb_exists. split.
  - intros [y [Hy He]]. apply N.eqb_eq in He. subst y. exact Hy.
  - intros H. exists x. split; [exact H|apply N.eqb_refl].
Qed.

Lemma memN_false_iff : forall x l, negb (memN x l) = true <-> ~ In x l.
Proof.
  intros x l. rewrite negb_true_iff, <- memN_iff. destruct (memN x l); split; congruence.
Qed.

Fixpoint nodupN (l : list N) : bool :=
  match l with
  | [] => true
  | x :: r => negb (memN x r) && nodupN r
  end.

Lemma nodupN_iff : forall l, nodupN l = true <-> NoDup l.
Proof.
  induction l as [|x r IH]; simpl.
  - split; [intros _; constructor|reflexivity].
  - rewrite andb_true_iff, memN_false_iff, IH. split.
    + intros [H1 H2]. constructor; assumption.
    + intros H. inversion H; subst. split; assumption.
Qed.

Definition nonempty {A} (l : list A) : bool := match l with [] => false | _ => true end.

Lemma nonempty_iff : forall A (l : list A), nonempty l = true <-> l <> [].
Proof. intros A l. destruct l; simpl; split; congruence. Qed.

Lemma neqN_iff : forall a b : N, negb (N.eqb a b) = true <-> a <> b.
Proof. intros a b. rewrite negb_true_iff, N.eqb_neq. tauto. Qed.

Lemma is_tree_iff : forall f, is_tree f = true <-> (f = FLn \/ f = FBbn).
Proof. intros f. unfold is_tree. rewrite orb_true_iff, !Nat.eqb_eq. tauto. Qed.

Lemma forallb_triples : forall (P : nat -> N -> cid -> Prop) (p : nat * N * cid -> bool) l,
  (forall f pn c, p (f, pn, c) = true <-> P f pn c) ->
  (forallb p l = true <-> forall f pn c, In (f, pn, c) l -> P f pn c).
Proof.
  intros P p l Hp. rewrite forallb_forall. split.
  - intros H f pn c Hin. apply Hp. apply H. exact Hin.
  - intros H [[f pn] c] Hin. apply Hp. apply H. exact Hin.
Qed.

(* numbering = position of the conjunct in [inst_ok] *)
Definition inst_checks (I : inst) : list (nat * bool) :=
  [ (0, negb (N.eqb (m_old I) (m_new I)));
    (1, negb (N.eqb (m_old I) 0));
    (2, negb (N.eqb (m_new I) 0));
    (3, nonempty (wal_new I));
    (4, negb (N.eqb (hd 0%N (wal_new I)) 0));
    (5, negb (N.eqb (hd 0%N (wal_new I)) (hd 0%N (wal_old I))));
    (6, negb (memN 0 (wal_new I)));
    (7, negb (memN 0 (wal_old I)));
    (8, listN_eqb (map fst (ht_old I)) (map fst (ht_new I)));
    (9, nodupN (map fst (ht_new I)));
    (10, forallb (fun x : nat * N * cid => let '(f, pn, _) := x in negb (in_live I f pn)) (tree_new I));
    (11, forallb (fun x : nat * N * cid => let '(f, _, _) := x in is_tree f) (live_old I));
    (12, forallb (fun x : nat * N * cid => let '(f, _, c) := x in is_tree f && negb (N.eqb c 0)) (tree_new I)) ]%nat.

Definition inst_okb (I : inst) : bool := all_ok (inst_checks I).

Theorem inst_okb_iff : forall I, inst_okb I = true <-> inst_ok I.
Proof.
  intros I. unfold inst_okb, all_ok, inst_checks, inst_ok. simpl forallb at 1. simpl snd.
  rewrite !andb_true_iff, !neqN_iff, nonempty_iff, !memN_false_iff, listN_eqb_iff, nodupN_iff.
  rewrite (forallb_triples (fun f pn _ => in_live I f pn = false)
             (fun x : nat * N * cid => let '(f, pn, _) := x in negb (in_live I f pn)) (tree_new I))
    by (intros f pn c; apply negb_true_iff).
  rewrite (forallb_triples (fun f _ _ => f = FLn \/ f = FBbn)
             (fun x : nat * N * cid => let '(f, _, _) := x in is_tree f) (live_old I))
    by (intros f pn c; apply is_tree_iff).
  rewrite (forallb_triples (fun f _ c => (f = FLn \/ f = FBbn) /\ c <> 0%N)
             (fun x : nat * N * cid => let '(f, _, c) := x in is_tree f && negb (N.eqb c 0)) (tree_new I))
    by (intros f pn c; rewrite andb_true_iff, is_tree_iff, neqN_iff; tauto).
  tauto.
Qed.

Corollary inst_okb_sound : forall I, inst_okb I = true -> inst_ok I.
Proof. intros I. apply inst_okb_iff. Qed.

(* --- wal_safe (the F8 precondition of the C03/C04 theorems) --- *)
Definition wal_safeb (I : inst) (d0 : disk) : bool :=
  negb (nonempty (wal_old I)) ||
  (Nat.leb (length (wal_old I)) 1 && Nat.leb (length (wal_new I)) 1) ||
  wal_is (image_of_durable d0) 0 [].

Theorem wal_safeb_iff : forall I d0, wal_safeb I d0 = true <-> wal_safe I d0.
Proof.
  intros I d0. unfold wal_safeb, wal_safe.
  rewrite !orb_true_iff, andb_true_iff, !Nat.leb_le, negb_true_iff.
  assert (H : nonempty (wal_old I) = false <-> wal_old I = []).
  { destruct (wal_old I); simpl; split; congruence. }
  rewrite H. tauto.
Qed.

(* the weaker condition that suffices for a reader that stops at the END tag of the blob *)
Definition wal_safe_origb (I : inst) (d0 : disk) : bool :=
  Nat.leb (length (wal_old I)) 1 || wal_is (image_of_durable d0) 0 [].

Theorem wal_safe_origb_iff : forall I d0, wal_safe_origb I d0 = true <-> wal_safe_orig I d0.
Proof.
  intros I d0. unfold wal_safe_origb, wal_safe_orig. rewrite orb_true_iff, Nat.leb_le. tauto.
Qed.

(* ------------------------------------------------------------------------------------------ *)
(* 3. the live pages of a value file                                                           *)

Fixpoint range_from (start : N) (n : nat) : list N :=
  match n with
  | O => []
  | S k => start :: range_from (N.succ start) k
  end.

Definition set_of (l : list N) : Image.pmap unit := fold_left (fun m x => Image.nadd x tt m) l Image.PL.
Definition map_of (l : list (N * cid)) : Image.pmap cid :=
  fold_left (fun m x => Image.nadd (fst x) (snd x) m) l Image.PL.

(* [pages]: the content ids of the file's pages (later bindings win; absent = zero page),
   [items]: the page numbers the free list hands out (NOT the pages the list itself lives on) *)
Definition live_of (f : nat) (bump : N) (items : list N) (pages : list (N * cid)) : list (nat * N * cid) :=
  let fm := set_of items in
  let cm := map_of pages in
  flat_map (fun pn => if Image.nmem pn fm then []
                      else [(f, pn, match Image.nfind pn cm with Some c => c | None => 0%N end)])
           (range_from 1 (N.to_nat (bump - 1))).

Lemma range_from_in : forall n start x,
  In x (range_from start n) <-> (start <= x /\ x < start + N.of_nat n)%N.
Proof.
  induction n as [|n IH]; intros start x.
  - simpl. split; [intros []|]. lia.
  - cbn [range_from In]. rewrite IH. lia.
Qed.

Lemma set_of_mem_gen : forall l m x,
  Image.nmem x (fold_left (fun m x => Image.nadd x tt m) l m) = true <-> (In x l \/ Image.nmem x m = true).
Proof.
  induction l as [|y l IH]; intros m x; simpl.
  - tauto.
  - rewrite IH.
    assert (H : Image.nmem x (Image.nadd y tt m) = true <-> (y = x \/ Image.nmem x m = true)).
    { unfold Image.nmem. destruct (N.eq_dec y x) as [->|Hne].
      - rewrite Image.nfind_nadd_same. tauto.
      - rewrite (Image.nfind_nadd_other x y tt m (fun E => Hne (eq_sym E))). intuition congruence. }
    rewrite H. tauto.
Qed.

Lemma set_of_mem : forall l x, Image.nmem x (set_of l) = true <-> In x l.
Proof.
  intros l x. unfold set_of. rewrite set_of_mem_gen.
  assert (H : Image.nmem x (@Image.PL unit) = false).
  { unfold Image.nmem, Image.nfind. destruct (N.succ_pos x); reflexivity. }
  rewrite H. intuition discriminate.
Qed.

(* exactly the pages of [1, bump) that are not free-list items, once each, with one content *)
Theorem live_of_spec : forall f bump items pages g pn c,
  In (g, pn, c) (live_of f bump items pages) ->
  g = f /\ (1 <= pn < bump)%N /\ ~ In pn items.
Proof.
  intros f bump items pages g pn c H. unfold live_of in H. apply in_flat_map in H.
  destruct H as [q [Hq Hin]]. apply range_from_in in Hq.
  destruct (Image.nmem q (set_of items)) eqn:E; [destruct Hin|].
  destruct Hin as [Heq|[]]. injection Heq as <- <- _.
  split; [reflexivity|]. split; [lia|].
  intros Hi. apply set_of_mem in Hi. congruence.
Qed.

Theorem live_of_complete : forall f bump items pages pn,
  (1 <= pn < bump)%N -> ~ In pn items -> exists c, In (f, pn, c) (live_of f bump items pages).
Proof.
  intros f bump items pages pn Hr Hn. unfold live_of.
  exists (match Image.nfind pn (map_of pages) with Some c => c | None => 0%N end).
  apply in_flat_map. exists pn. split.
  - apply range_from_in. lia.
  - destruct (Image.nmem pn (set_of items)) eqn:E.
    + apply set_of_mem in E. contradiction.
    + left. reflexivity.
Qed.

(* ------------------------------------------------------------------------------------------ *)
(* 4. what an all-ok verdict of the driver means                                               *)

Theorem checked_powerloss_atomic : forall I d0 tr,
  inst_okb I = true -> start_okb I d0 = true -> wal_safeb I d0 = true -> explain I d0 tr = None ->
  forall n img, pl_image (drun d0 (firstn n tr)) img ->
    (recover I img = ROld \/ recover I img = RNew) /\
    (forall iw, index_of is_meta_write tr = Some iw -> n <= iw -> recover I img = ROld) /\
    (forall is_, index_of is_meta_sync tr = Some is_ -> is_ < n -> recover I img = RNew).
Proof.
  intros I d0 tr HI H0 Hs Hd. apply powerloss_atomic.
  - apply inst_okb_iff, HI.
  - apply start_okb_iff, H0.
  - apply wal_safeb_iff, Hs.
  - apply discipline_explain_ok, Hd.
Qed.

Theorem checked_crash_atomic : forall I d0 tr,
  inst_okb I = true -> start_okb I d0 = true -> wal_safeb I d0 = true -> explain I d0 tr = None ->
  forall n img, crash_image (drun d0 (firstn n tr)) img ->
    (recover I img = ROld \/ recover I img = RNew) /\
    (forall iw, index_of is_meta_write tr = Some iw -> n <= iw -> recover I img = ROld) /\
    (forall is_, index_of is_meta_sync tr = Some is_ -> is_ < n -> recover I img = RNew).
Proof.
  intros I d0 tr HI H0 Hs Hd. apply crash_atomic.
  - apply inst_okb_iff, HI.
  - apply start_okb_iff, H0.
  - apply wal_safeb_iff, Hs.
  - apply discipline_explain_ok, Hd.
Qed.

(* the same for the reader that stops at the END tag, under the weaker WAL condition *)
Theorem checked_powerloss_atomic_endtag : forall I d0 tr,
  inst_okb I = true -> start_okb I d0 = true -> wal_safe_origb I d0 = true -> explain I d0 tr = None ->
  forall n img, pl_image (drun d0 (firstn n tr)) img ->
    (recover_end I img = ROld \/ recover_end I img = RNew) /\
    (forall iw, index_of is_meta_write tr = Some iw -> n <= iw -> recover_end I img = ROld) /\
    (forall is_, index_of is_meta_sync tr = Some is_ -> is_ < n -> recover_end I img = RNew).
Proof.
  intros I d0 tr HI H0 Hs Hd. apply powerloss_atomic_endtag.
  - apply inst_okb_iff, HI.
  - apply start_okb_iff, H0.
  - apply wal_safe_origb_iff, Hs.
  - apply discipline_explain_ok, Hd.
Qed.

(* C17 needs no WAL condition *)
Theorem checked_old_image_intact : forall I d0 tr,
  inst_okb I = true -> start_okb I d0 = true -> explain I d0 tr = None ->
  forall n img, (forall is_, index_of is_meta_sync tr = Some is_ -> n <= is_) ->
  pl_image (drun d0 (firstn n tr)) img ->
  pages_ok img (live_old I) = true /\ ht_all img (ht_old I) = true.
Proof.
  intros I d0 tr HI H0 Hd. apply old_image_intact.
  - apply inst_okb_iff, HI.
  - apply start_okb_iff, H0.
  - apply discipline_explain_ok, Hd.
Qed.
