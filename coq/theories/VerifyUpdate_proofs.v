(* The stateless update verifier (core/src/proof/path_proof.rs::verify_update, mirrored in
   VerifyUpdate.v), run on the canonical witness of a sorted write set (Witness.group), returns
   the root of the updated key/value set.

   Proof architecture (in the spirit of the [segment] lemma of BuildTrie_proofs): a compositional
   statement about the main loop.  Let the old sub-trie at a position [p] of depth [d] be
   [mk f d Sp] and let [Wp] be the (non-empty, sorted) writes below [p].  Processing all the
   groups of [Wp] has the same effect on the pending stack as processing ONE group whose
   terminal sits at [p] and whose new sub-trie root is [hash (mk f d Sp')], [Sp'] being the
   updated pairs below [p]: it is compacted up from layer [d] to the layer dictated by the next
   group and pushed.  The statement is proved by induction on the fuel of [mk]; at an internal
   node the writes split into the two sides, the groups of the whole are the groups of the
   sides, and one compaction step joins the two updated children ([cnode_mk]).

   NOTE on the statement: [Base.ins] keeps a sorted list sorted but is meaningless on unsorted
   lists, so [Base.apply S W] can contain duplicate keys when [S] is not key-sorted.  The
   theorem as first stated (with [wf n S] only) is therefore false; see
   [verify_update_unsorted_counterexample] at the end.  [verify_update_correct_gen] is stated
   for any duplicate-free [S'] with the right lookups, [verify_update_correct] adds the
   hypothesis [kv_sorted S = true] (which the store guarantees: Store_proofs.cur_sorted). *)
From Coq Require Import List Bool Arith NArith Lia Permutation.
From Nomt Require Import Base Hash Trie Result PathProof BuildTrie VerifyUpdate Witness
     Base_proofs Trie_proofs BuildTrie_proofs PathProof_proofs.
Import ListNotations.

Definition wlist := list (key * option value).

(* ---------- sorted key lists ---------- *)

Lemma sk_cons_iff : forall k ks,
  sorted_keys (k :: ks) = true <->
  (forall k', In k' ks -> key_ltb k k' = true) /\ sorted_keys ks = true.
Proof.
  intros k ks. revert k. induction ks as [|k1 ks IH]; intros k.
  - cbn. split; [intros _; split; [intros k' []|reflexivity]|reflexivity].
  - change (sorted_keys (k :: k1 :: ks)) with (key_ltb k k1 && sorted_keys (k1 :: ks)).
    rewrite andb_true_iff. split.
    + intros [Hlt Hs]. split; [|exact Hs]. intros k' [Heq|Hin]; [subst; exact Hlt|].
      apply IH in Hs. destruct Hs as [Hlb _].
      eapply key_ltb_trans; [exact Hlt|]. apply Hlb. exact Hin.
    + intros [Hlb Hs]. split; [apply Hlb; left; reflexivity|exact Hs].
Qed.

Lemma sk_NoDup : forall ks, sorted_keys ks = true -> NoDup ks.
Proof.
  induction ks as [|k ks IH]; intros Hs.
  - constructor.
  - apply sk_cons_iff in Hs. destruct Hs as [Hlb Hs].
    constructor; [|apply IH; exact Hs].
    intros Hin. apply Hlb in Hin. rewrite key_ltb_irrefl in Hin. discriminate.
Qed.

Lemma in_map_fst_filter : forall (A : Type) (f : key * A -> bool) (W : list (key * A)) k,
  In k (map fst (filter f W)) -> In k (map fst W).
Proof.
  intros A f W k Hin. apply in_map_iff in Hin. destruct Hin as [c [Hc Hin]].
  apply filter_In in Hin. destruct Hin as [Hin _].
  apply in_map_iff. exists c. split; assumption.
Qed.

Lemma sk_filter : forall (A : Type) (f : key * A -> bool) (W : list (key * A)),
  sorted_keys (map fst W) = true -> sorted_keys (map fst (filter f W)) = true.
Proof.
  intros A f. induction W as [|c W IH]; intros Hs; cbn [filter map].
  - reflexivity.
  - cbn [map] in Hs. apply sk_cons_iff in Hs. destruct Hs as [Hlb Hs].
    destruct (f c).
    + cbn [map]. apply sk_cons_iff. split; [|apply IH; exact Hs].
      intros k' Hin. apply Hlb. eapply in_map_fst_filter. exact Hin.
    + apply IH. exact Hs.
Qed.

(* ---------- the two sides of a write list ---------- *)

Definition gside (b : bool) (d : nat) (W : wlist) : wlist :=
  filter (fun c => Bool.eqb (bit (fst c) d) b) W.

Lemma In_gside : forall b d (W : wlist) c,
  In c (gside b d W) <-> In c W /\ bit (fst c) d = b.
Proof.
  intros b d W c. unfold gside. rewrite filter_In. rewrite Bool.eqb_true_iff. tauto.
Qed.

(* writes below a position: sorted, n-bit keys, all with prefix p *)
Definition goodW (n d : nat) (p : key) (W : wlist) : Prop :=
  sorted_keys (map fst W) = true /\
  forall c, In c W -> length (fst c) = n /\ firstn d (fst c) = p.

Lemma goodW_tail : forall n d p c W, goodW n d p (c :: W) -> goodW n d p W.
Proof.
  intros n d p c W [Hs Hall]. split.
  - cbn [map] in Hs. apply sk_cons_iff in Hs. apply Hs.
  - intros c' Hin. apply Hall. right. exact Hin.
Qed.

Lemma gside_split : forall n d p (W : wlist), d < n -> goodW n d p W ->
  W = gside false d W ++ gside true d W.
Proof.
  intros n d p. induction W as [|[k o] W IH]; intros Hd Hg.
  - reflexivity.
  - pose proof (goodW_tail _ _ _ _ _ Hg) as HgW.
    destruct Hg as [Hs Hall]. cbn [map fst] in Hs.
    apply sk_cons_iff in Hs. destruct Hs as [Hlb Hs].
    unfold gside. cbn [filter fst].
    destruct (bit k d) eqn:Eb; cbn [Bool.eqb].
    + assert (Hallb : forall c, In c W -> bit (fst c) d = true).
      { intros [k' o'] Hin. cbn [fst].
        destruct (bit k' d) eqn:Eb'; [reflexivity|exfalso].
        assert (Hlt : key_ltb k k' = true).
        { apply Hlb. apply in_map_iff. exists (k', o'). split; [reflexivity|exact Hin]. }
        destruct (Hall (k, o)) as [L1 P1]; [left; reflexivity|].
        destruct (Hall (k', o')) as [L2 P2]; [right; exact Hin|].
        cbn [fst] in *.
        assert (Hf : key_ltb k k' = false).
        { apply (ltb_diverge d); try assumption; try lia. congruence. }
        rewrite Hf in Hlt. discriminate. }
      rewrite (filter_none _ _ W).
      * rewrite (filter_all _ _ W); [reflexivity|].
        intros c Hin. rewrite (Hallb c Hin). reflexivity.
      * intros c Hin. rewrite (Hallb c Hin). reflexivity.
    + cbn [app]. f_equal. apply IH; assumption.
Qed.

Lemma goodW_gside : forall n d p b (W : wlist), d < n -> goodW n d p W ->
  goodW n (S d) (p ++ [b]) (gside b d W).
Proof.
  intros n d p b W Hd [Hs Hall]. split.
  - unfold gside. apply sk_filter. exact Hs.
  - intros c Hin. apply In_gside in Hin. destruct Hin as [Hin Hb].
    destruct (Hall c Hin) as [Hl Hp]. split; [exact Hl|].
    rewrite firstn_S_bit by lia. rewrite Hp, Hb. reflexivity.
Qed.

(* ---------- lookup in a write list ---------- *)

Fixpoint wget (W : wlist) (k : key) : option (option value) :=
  match W with
  | [] => None
  | (k', o) :: W' => if key_eqb k' k then Some o else wget W' k
  end.

Lemma wget_None : forall W k, ~ In k (map fst W) -> wget W k = None.
Proof.
  induction W as [|[k1 o1] W IH]; intros k Hn; cbn [wget].
  - reflexivity.
  - cbn [map fst] in Hn. destruct (key_eqb k1 k) eqn:E.
    + apply key_eqb_true_iff in E. subst. exfalso. apply Hn. left. reflexivity.
    + apply IH. intros Hin. apply Hn. right. exact Hin.
Qed.

Lemma wget_app : forall A B k,
  wget (A ++ B) k = match wget A k with Some o => Some o | None => wget B k end.
Proof.
  induction A as [|[k1 o1] A IH]; intros B k; cbn [app wget].
  - reflexivity.
  - destruct (key_eqb k1 k); [reflexivity|apply IH].
Qed.

Lemma last_write_wget : forall (W : wlist) k, NoDup (map fst W) -> last_write W k = wget W k.
Proof.
  induction W as [|c W IH] using rev_ind; intros k Hnd.
  - reflexivity.
  - rewrite last_write_app1, wget_app.
    rewrite map_app in Hnd. cbn [map] in Hnd.
    apply NoDup_remove in Hnd. rewrite app_nil_r in Hnd. destruct Hnd as [Hnd Hnin].
    destruct c as [kc oc]. cbn [fst snd wget].
    destruct (key_eqb kc k) eqn:E.
    + apply key_eqb_true_iff in E. subst kc.
      rewrite (wget_None W k Hnin). reflexivity.
    + rewrite IH by exact Hnd. destruct (wget W k); reflexivity.
Qed.

Lemma wget_gside : forall b d W k,
  wget (gside b d W) k = if Bool.eqb (bit k d) b then wget W k else None.
Proof.
  intros b d. unfold gside. induction W as [|[k1 o1] W IH]; intros k; cbn [filter fst].
  - cbn [wget]. destruct (Bool.eqb (bit k d) b); reflexivity.
  - destruct (Bool.eqb (bit k1 d) b) eqn:E1; cbn [wget].
    + destruct (key_eqb k1 k) eqn:E.
      * apply key_eqb_true_iff in E. subst k1. rewrite E1. reflexivity.
      * apply IH.
    + destruct (key_eqb k1 k) eqn:E.
      * apply key_eqb_true_iff in E. subst k1. rewrite E1. rewrite IH, E1. reflexivity.
      * apply IH.
Qed.

Lemma get_side_other : forall L k d b, bit k d <> b -> get (side b d L) k = None.
Proof.
  intros L k d b Hb. apply get_None_not_In. intros v Hin.
  apply In_side in Hin. destruct Hin as [_ Hin]. contradiction.
Qed.

(* the updated set below a position: lookups go through the writes first *)
Definition upd_rel (Sp : kv) (Wp : wlist) (Sp' : kv) : Prop :=
  forall k, get Sp' k = match wget Wp k with Some w => w | None => get Sp k end.

Lemma upd_rel_side : forall b d Sp Wp Sp',
  upd_rel Sp Wp Sp' -> upd_rel (side b d Sp) (gside b d Wp) (side b d Sp').
Proof.
  intros b d Sp Wp Sp' HR k. rewrite wget_gside.
  destruct (Bool.eqb (bit k d) b) eqn:E.
  - apply Bool.eqb_prop in E. subst b. rewrite !get_side. apply HR.
  - assert (Hb : bit k d <> b).
    { intros Heq. subst b. rewrite Bool.eqb_reflx in E. discriminate. }
    rewrite !get_side_other by exact Hb. reflexivity.
Qed.

(* ---------- pairs below a position ---------- *)

Definition goodkv (n d : nat) (p : key) (L : kv) : Prop :=
  NoDup (map fst L) /\ forall k v, In (k, v) L -> length k = n /\ firstn d k = p.

Lemma goodkv_side : forall n d p b L, d < n -> goodkv n d p L ->
  goodkv n (S d) (p ++ [b]) (side b d L).
Proof.
  intros n d p b L Hd [Hnd Hall]. split.
  - apply NoDup_side. exact Hnd.
  - intros k v Hin. apply In_side in Hin. destruct Hin as [Hin Hb].
    destruct (Hall k v Hin) as [Hl Hp]. split; [exact Hl|].
    rewrite firstn_S_bit by lia. rewrite Hp, Hb. reflexivity.
Qed.

Lemma goodkv_agree : forall n d p L, goodkv n d p L -> agree d L.
Proof.
  intros n d p L [_ Hall] k v k' v' H1 H2.
  destruct (Hall k v H1) as [_ P1]. destruct (Hall k' v' H2) as [_ P2]. congruence.
Qed.

Lemma mk_untouched : forall n d p f b Sp Wp Sp',
  goodkv n d p Sp -> goodkv n d p Sp' -> upd_rel Sp Wp Sp' -> gside b d Wp = [] ->
  mk f (S d) (side b d Sp') = mk f (S d) (side b d Sp).
Proof.
  intros n d p f b Sp Wp Sp' [Hnd _] [Hnd' _] HR HW.
  apply mk_perm. apply NoDup_get_perm.
  - apply NoDup_side. exact Hnd'.
  - apply NoDup_side. exact Hnd.
  - intros k. pose proof (upd_rel_side b d _ _ _ HR k) as Hk.
    rewrite HW in Hk. exact Hk.
Qed.

(* ---------- shape of the canonical trie, compaction ---------- *)

Definition kindL (L : kv) : nkind :=
  match L with [] => KTerm | [_] => KLeaf | _ => KInt end.

Section Compact.
  Variable H : Hasher.
  Hypothesis HOK : HasherOK H.

  Lemma kind_hash_mk : forall f d L,
    NoDup (map fst L) -> (forall k v, In (k, v) L -> length k = d + f) -> agree d L ->
    kind H (hash H (mk f d L)) = kindL L.
  Proof.
    intros f d L Hnd Hlen Hag.
    destruct (kv_cases L) as [HL|[[k [v HL]]|HL]].
    - subst. rewrite mk_nil. apply (kind_term H HOK).
    - subst. rewrite mk_single. apply (kind_leaf H HOK).
    - destruct f as [|f].
      + exfalso. apply (no_fuel0 d L); try assumption.
        intros k v Hin. rewrite (Hlen k v Hin). lia.
      + rewrite (mk_ge2 f d L HL). cbn [hash]. rewrite (kind_int H HOK).
        destruct L as [|a [|b L]]; cbn [length] in HL; try lia. reflexivity.
  Qed.

  (* one step of the compaction loop: the node above [cur] (bit b) and its sibling *)
  Definition cnode (cur sib : node H) (b : bool) : node H :=
    match kind H cur, kind H sib with
    | KTerm, KTerm => cur
    | KLeaf, KTerm => cur
    | KTerm, KLeaf => sib
    | _, _ => if b then hint H sib cur else hint H cur sib
    end.

  Lemma cnode_big : forall cur sib b (A B : kv),
    kind H cur = kindL A -> kind H sib = kindL B -> 2 <= length A + length B ->
    cnode cur sib b = if b then hint H sib cur else hint H cur sib.
  Proof.
    intros cur sib b A B HA HB Hl. unfold cnode. rewrite HA, HB.
    destruct A as [|a [|a' A]]; destruct B as [|b0 [|b' B]]; cbn [kindL];
      cbn [length] in Hl; try lia; reflexivity.
  Qed.

  Lemma side_length : forall b d (L : kv),
    length (side b d L) + length (side (negb b) d L) = length L.
  Proof.
    intros b d. unfold side. induction L as [|[k v] L IH]; cbn [filter fst length].
    - reflexivity.
    - destruct (bit k d); destruct b; simpl in *; lia.
  Qed.

  Lemma cnode_mk : forall f d L b,
    NoDup (map fst L) -> (forall k v, In (k, v) L -> length k = d + S f) -> agree d L ->
    cnode (hash H (mk f (S d) (side b d L))) (hash H (mk f (S d) (side (negb b) d L))) b
    = hash H (mk (S f) d L).
  Proof.
    intros f d L b Hnd Hlen Hag.
    destruct (kv_cases L) as [HL|[[k [v HL]]|HL]].
    - subst. unfold side. cbn [filter]. rewrite !mk_nil. cbn [hash].
      unfold cnode. rewrite (kind_term H HOK). reflexivity.
    - subst. unfold side. cbn [filter fst]. rewrite mk_single.
      destruct (bit k d), b; cbn [Bool.eqb negb]; rewrite ?mk_nil, ?mk_single; cbn [hash];
        unfold cnode; rewrite (kind_term H HOK), (kind_leaf H HOK); reflexivity.
    - assert (Hlt : forall k v, In (k, v) L -> d < length k).
      { intros k v Hin. rewrite (Hlen k v Hin). lia. }
      assert (Hk : forall c, kind H (hash H (mk f (S d) (side c d L))) = kindL (side c d L)).
      { intros c. apply kind_hash_mk.
        - apply NoDup_side. exact Hnd.
        - intros k v Hin. apply In_side in Hin. destruct Hin as [Hin _].
          rewrite (Hlen k v Hin). lia.
        - apply agree_side; assumption. }
      rewrite (cnode_big _ _ b (side b d L) (side (negb b) d L)).
      + rewrite (mk_ge2 f d L HL). cbn [hash]. destruct b; reflexivity.
      + apply Hk.
      + apply Hk.
      + rewrite side_length. exact HL.
  Qed.
End Compact.

(* ---------- leaf_ops_spliced ---------- *)

Lemma live_cons_some : forall k v X, live_ops ((k, Some v) :: X) = (k, v) :: live_ops X.
Proof. reflexivity. Qed.
Lemma live_cons_none : forall k X, live_ops ((k, None) :: X) = live_ops X.
Proof. reflexivity. Qed.

Lemma In_live : forall X k v, In (k, v) (live_ops X) -> In (k, Some v) X.
Proof.
  induction X as [|[k1 [v1|]] X IH]; intros k v Hin.
  - destruct Hin.
  - rewrite live_cons_some in Hin. destruct Hin as [Heq|Hin].
    + inversion Heq; subst. left. reflexivity.
    + right. apply IH. exact Hin.
  - rewrite live_cons_none in Hin. right. apply IH. exact Hin.
Qed.

Lemma In_fst_live : forall X k, In k (map fst (live_ops X)) -> In k (map fst X).
Proof.
  intros X k Hin. apply in_map_iff in Hin. destruct Hin as [[k' v] [Hk Hin]].
  cbn [fst] in Hk. subst k'. apply In_live in Hin.
  apply in_map_iff. exists (k, Some v). split; [reflexivity|exact Hin].
Qed.

Lemma sorted_live : forall X,
  sorted_keys (map fst X) = true -> sorted_keys (map fst (live_ops X)) = true.
Proof.
  induction X as [|[k1 [v1|]] X IH]; intros Hs.
  - reflexivity.
  - cbn [map fst] in Hs. apply sk_cons_iff in Hs. destruct Hs as [Hlb Hs].
    rewrite live_cons_some. cbn [map fst]. apply sk_cons_iff. split; [|apply IH; exact Hs].
    intros k' Hin. apply Hlb. apply In_fst_live. exact Hin.
  - cbn [map fst] in Hs. apply sk_cons_iff in Hs. destruct Hs as [_ Hs].
    rewrite live_cons_none. apply IH. exact Hs.
Qed.

Lemma get_live : forall X k, NoDup (map fst X) ->
  get (live_ops X) k = match wget X k with Some (Some v) => Some v | _ => None end.
Proof.
  induction X as [|[k1 o1] X IH]; intros k Hnd.
  - reflexivity.
  - cbn [map fst] in Hnd. inversion Hnd as [|x l Hnin Hnd']; subst.
    cbn [wget]. destruct o1 as [v1|].
    + rewrite live_cons_some. cbn [get].
      destruct (key_eqb k1 k); [reflexivity|]. apply IH. exact Hnd'.
    + rewrite live_cons_none. rewrite IH by exact Hnd'.
      destruct (key_eqb k1 k) eqn:E; [|reflexivity].
      apply key_eqb_true_iff in E. subst k1.
      rewrite (wget_None X k Hnin). reflexivity.
Qed.

Lemma In_splice : forall lk lv X c, In c (splice lk lv X) -> c = (lk, Some lv) \/ In c X.
Proof.
  intros lk lv. induction X as [|[k1 o1] X IH]; intros c Hin; cbn [splice] in Hin.
  - destruct Hin as [Heq|[]]. left. symmetry. exact Heq.
  - destruct (key_eqb k1 lk).
    + right. exact Hin.
    + destruct (key_ltb lk k1).
      * destruct Hin as [Heq|Hin]; [left; symmetry; exact Heq|right; exact Hin].
      * destruct Hin as [Heq|Hin]; [right; left; exact Heq|].
        apply IH in Hin. destruct Hin as [Heq|Hin]; [left; exact Heq|right; right; exact Hin].
Qed.

Lemma sorted_splice : forall lk lv X,
  sorted_keys (map fst X) = true -> sorted_keys (map fst (splice lk lv X)) = true.
Proof.
  intros lk lv. induction X as [|[k1 o1] X IH]; intros Hs; cbn [splice].
  - reflexivity.
  - destruct (key_eqb k1 lk) eqn:Eeq; [exact Hs|].
    destruct (key_ltb lk k1) eqn:Elt.
    + cbn [map fst]. cbn [map fst] in Hs. apply sk_cons_iff. split; [|exact Hs].
      apply sk_cons_iff in Hs. destruct Hs as [Hlb _].
      intros k' [Heq|Hin]; [subst; exact Elt|].
      eapply key_ltb_trans; [exact Elt|]. apply Hlb. exact Hin.
    + cbn [map fst] in Hs. apply sk_cons_iff in Hs. destruct Hs as [Hlb Hs].
      cbn [map fst]. apply sk_cons_iff. split; [|apply IH; exact Hs].
      intros k' Hin. apply in_map_iff in Hin. destruct Hin as [c [Hc Hin]].
      apply In_splice in Hin. destruct Hin as [Heq|Hin].
      * subst c. cbn [fst] in Hc. subst k'.
        destruct (key_trichotomy k1 lk) as [Hl|[He|Hg]].
        -- exact Hl.
        -- subst. rewrite key_eqb_refl in Eeq. discriminate.
        -- rewrite Hg in Elt. discriminate.
      * apply Hlb. apply in_map_iff. exists c. split; assumption.
Qed.

Lemma wget_splice : forall lk lv X k, sorted_keys (map fst X) = true ->
  wget (splice lk lv X) k =
  if key_eqb lk k
  then match wget X k with Some w => Some w | None => Some (Some lv) end
  else wget X k.
Proof.
  intros lk lv. induction X as [|[k1 o1] X IH]; intros k Hs; cbn [splice].
  - cbn [wget]. destruct (key_eqb lk k); reflexivity.
  - destruct (key_eqb k1 lk) eqn:Eeq.
    + apply key_eqb_true_iff in Eeq. subst k1. cbn [wget].
      destruct (key_eqb lk k); reflexivity.
    + destruct (key_ltb lk k1) eqn:Elt.
      * change (wget ((lk, Some lv) :: (k1, o1) :: X) k)
          with (if key_eqb lk k then Some (Some lv) else wget ((k1, o1) :: X) k).
        destruct (key_eqb lk k) eqn:E; [|reflexivity].
        apply key_eqb_true_iff in E. subst k.
        rewrite wget_None; [reflexivity|].
        intros Hin. cbn [map fst] in Hs, Hin. apply sk_cons_iff in Hs. destruct Hs as [Hlb _].
        destruct Hin as [Heq|Hin].
        -- subst k1. rewrite key_ltb_irrefl in Elt. discriminate.
        -- apply Hlb in Hin.
           pose proof (key_ltb_trans _ _ _ Elt Hin) as Hc.
           rewrite key_ltb_irrefl in Hc. discriminate.
      * cbn [map fst] in Hs. apply sk_cons_iff in Hs. destruct Hs as [_ Hs].
        cbn [wget]. rewrite IH by exact Hs.
        destruct (key_eqb k1 k) eqn:E1; [|reflexivity].
        destruct (key_eqb lk k); reflexivity.
Qed.

(* ---------- bit-level facts about paths ---------- *)

Lemma common_app_lt : forall (a p x : key), common a p < length p -> common a (p ++ x) = common a p.
Proof.
  induction a as [|y a IH]; intros [|z p] x Hlt; cbn [length] in Hlt; try lia.
  - reflexivity.
  - cbn [app common]. cbn [common] in Hlt.
    destruct (Bool.eqb y z); [|reflexivity].
    f_equal. apply IH. lia.
Qed.

Lemma common_app_diff : forall (p z w : key) b,
  common (p ++ b :: z) (p ++ negb b :: w) = length p.
Proof.
  induction p as [|y p IH]; intros z w b; cbn [app common length].
  - destruct b; reflexivity.
  - rewrite Bool.eqb_reflx. f_equal. apply IH.
Qed.

Lemma is_prefix_app_diff : forall (p z w : key) b,
  is_prefix (p ++ b :: z) (p ++ negb b :: w) = false.
Proof.
  induction p as [|y p IH]; intros z w b; cbn [app is_prefix].
  - destruct b; reflexivity.
  - rewrite Bool.eqb_reflx. cbn [andb]. apply IH.
Qed.

Lemma key_ltb_app_ft : forall (p z w : key),
  key_ltb (p ++ false :: z) (p ++ true :: w) = true.
Proof.
  induction p as [|y p IH]; intros z w; cbn [app key_ltb].
  - reflexivity.
  - rewrite Bool.eqb_reflx. apply IH.
Qed.

Lemma is_prefix_firstn : forall d (k : key), is_prefix (firstn d k) k = true.
Proof.
  induction d as [|d IH]; intros [|x k]; cbn [firstn is_prefix]; try reflexivity.
  rewrite Bool.eqb_reflx. cbn [andb]. apply IH.
Qed.

(* a longer prefix of the key extends a shorter one *)
Lemma firstn_add_ext : forall d j (k : key), exists z, firstn (d + j) k = firstn d k ++ z.
Proof.
  intros d j k. exists (skipn d (firstn (d + j) k)).
  rewrite <- (firstn_skipn d (firstn (d + j) k)) at 1.
  rewrite firstn_firstn. replace (Nat.min d (d + j)) with d by lia. reflexivity.
Qed.

(* ---------- the witness, relative to a sub-trie ---------- *)

Section Groups.
  Variable H : Hasher.

  (* the verified path of k, the walk starting from sub-trie t at depth d whose siblings so
     far (root first) are [sibs] *)
  Definition vp_at (R0 : node H) (t : trie) (d : nat) (sibs : list (node H)) (k : key)
    : verified H :=
    let '(s, tm) := walk H t k d in
    {| vp_path := firstn (d + length s) k;
       vp_terminal := match tm with TLeaf k' v' => Some (k', v') | TTerm _ => None end;
       vp_siblings := sibs ++ s;
       vp_root := R0 |}.

  Lemma vp_of_at : forall n S k, vp_of H n S k = vp_at (root_n H n S) (mk n 0 S) 0 [] k.
  Proof.
    intros n S k. unfold vp_of, vp_at.
    destruct (walk H (mk n 0 S) k 0) as [s tm]. reflexivity.
  Qed.

  Lemma vp_at_E : forall R0 d sibs k,
    vp_at R0 E d sibs k =
    {| vp_path := firstn d k; vp_terminal := None; vp_siblings := sibs; vp_root := R0 |}.
  Proof.
    intros R0 d sibs k. unfold vp_at. cbn [walk length].
    rewrite Nat.add_0_r, app_nil_r. reflexivity.
  Qed.

  Lemma vp_at_Lf : forall R0 k' v' d sibs k,
    vp_at R0 (Lf k' v') d sibs k =
    {| vp_path := firstn d k; vp_terminal := Some (k', v'); vp_siblings := sibs; vp_root := R0 |}.
  Proof.
    intros R0 k' v' d sibs k. unfold vp_at. cbn [walk length].
    rewrite Nat.add_0_r, app_nil_r. reflexivity.
  Qed.

  Lemma vp_at_Br : forall R0 l r d sibs k,
    vp_at R0 (Br l r) d sibs k =
    vp_at R0 (if bit k d then r else l) (S d)
          (sibs ++ [hash H (if bit k d then l else r)]) k.
  Proof.
    intros R0 l r d sibs k. unfold vp_at. cbn [walk].
    destruct (bit k d).
    - destruct (walk H r k (S d)) as [s tm]. cbn [length].
      rewrite <- app_assoc. cbn [app].
      replace (d + S (length s)) with (S d + length s) by lia. reflexivity.
    - destruct (walk H l k (S d)) as [s tm]. cbn [length].
      rewrite <- app_assoc. cbn [app].
      replace (d + S (length s)) with (S d + length s) by lia. reflexivity.
  Qed.

  Lemma vp_at_path_ext : forall R0 t d sibs k,
    exists z, vp_path (vp_at R0 t d sibs k) = firstn d k ++ z.
  Proof.
    intros R0 t d sibs k. unfold vp_at.
    destruct (walk H t k d) as [s tm]. cbn [vp_path]. apply firstn_add_ext.
  Qed.

  Lemma vp_at_root : forall R0 t d sibs k, vp_root (vp_at R0 t d sibs k) = R0.
  Proof.
    intros R0 t d sibs k. unfold vp_at. destruct (walk H t k d) as [s tm]. reflexivity.
  Qed.

  (* group_fuel, parameterised by the path function *)
  Fixpoint ggroup (vp : key -> verified H) (fuel : nat) (W : wlist) : list (path_update H) :=
    match fuel, W with
    | Datatypes.S f, (k, o) :: W' =>
        let '(mine, rest) := span_under (vp_path (vp k)) W' in
        {| pu_inner := vp k; pu_ops := (k, o) :: mine |} :: ggroup vp f rest
    | _, _ => []
    end.

  Definition ggroupL (vp : key -> verified H) (W : wlist) := ggroup vp (length W) W.

  Lemma group_fuel_ggroup : forall f n S W, group_fuel H f n S W = ggroup (vp_of H n S) f W.
  Proof.
    induction f as [|f IH]; intros n S W.
    - reflexivity.
    - destruct W as [|[k o] W']; [reflexivity|].
      cbn [group_fuel ggroup].
      destruct (span_under (vp_path (vp_of H n S k)) W') as [mine rest].
      rewrite IH. reflexivity.
  Qed.

  Lemma ggroup_nil : forall vp f, ggroup vp f [] = [].
  Proof. intros vp [|f]; reflexivity. Qed.

  Lemma span_under_length : forall path W a b,
    span_under path W = (a, b) -> length b <= length W.
  Proof.
    intros path. induction W as [|[k o] W IH]; intros a b Hs; cbn [span_under] in Hs.
    - inversion Hs; subst. cbn. lia.
    - destruct (is_prefix path k).
      + destruct (span_under path W) as [a' b'] eqn:E. inversion Hs; subst.
        specialize (IH a' b eq_refl). cbn [length]. lia.
      + inversion Hs; subst. lia.
  Qed.

  Lemma span_under_sub : forall path W a b,
    span_under path W = (a, b) -> forall c, In c b -> In c W.
  Proof.
    intros path. induction W as [|[k o] W IH]; intros a b Hs c Hin; cbn [span_under] in Hs.
    - inversion Hs; subst. exact Hin.
    - destruct (is_prefix path k).
      + destruct (span_under path W) as [a' b'] eqn:E. inversion Hs; subst.
        right. eapply IH; [reflexivity|exact Hin].
      + inversion Hs; subst. exact Hin.
  Qed.

  Lemma span_under_all : forall path W,
    (forall c, In c W -> is_prefix path (fst c) = true) -> span_under path W = (W, []).
  Proof.
    intros path. induction W as [|[k o] W IH]; intros Hall; cbn [span_under].
    - reflexivity.
    - pose proof (Hall (k, o) (or_introl eq_refl)) as E. cbn [fst] in E. rewrite E.
      rewrite IH; [reflexivity|]. intros c Hin. apply Hall. right. exact Hin.
  Qed.

  Lemma span_under_app : forall path A B,
    (forall c, In c B -> is_prefix path (fst c) = false) ->
    span_under path (A ++ B) = (fst (span_under path A), snd (span_under path A) ++ B).
  Proof.
    intros path. induction A as [|[k o] A IH]; intros B HB; cbn [app span_under].
    - destruct B as [|[k o] B]; [reflexivity|].
      cbn [span_under]. pose proof (HB (k, o) (or_introl eq_refl)) as E. cbn [fst] in E.
      rewrite E. reflexivity.
    - destruct (is_prefix path k).
      + rewrite IH by exact HB. destruct (span_under path A) as [a b]. reflexivity.
      + reflexivity.
  Qed.

  Lemma ggroup_fuel_irrel : forall vp f1 f2 W, length W <= f1 -> length W <= f2 ->
    ggroup vp f1 W = ggroup vp f2 W.
  Proof.
    intros vp. induction f1 as [|f1 IH]; intros f2 W H1 H2.
    - destruct W; cbn [length] in H1; [|lia]. rewrite !ggroup_nil. reflexivity.
    - destruct W as [|[k o] W]; [rewrite !ggroup_nil; reflexivity|].
      destruct f2 as [|f2]; cbn [length] in H1, H2; [lia|].
      cbn [ggroup]. destruct (span_under (vp_path (vp k)) W) as [a b] eqn:E.
      pose proof (span_under_length _ _ _ _ E) as Hl.
      f_equal. apply IH; lia.
  Qed.

  Lemma ggroup_ext : forall vp1 vp2 f W,
    (forall c, In c W -> vp1 (fst c) = vp2 (fst c)) -> ggroup vp1 f W = ggroup vp2 f W.
  Proof.
    intros vp1 vp2. induction f as [|f IH]; intros W Hall.
    - reflexivity.
    - destruct W as [|[k o] W]; [reflexivity|].
      cbn [ggroup]. pose proof (Hall (k, o) (or_introl eq_refl)) as E0. cbn [fst] in E0.
      rewrite <- E0.
      destruct (span_under (vp_path (vp1 k)) W) as [a b] eqn:E.
      f_equal. apply IH. intros c Hin. apply Hall. right.
      eapply span_under_sub; [exact E|exact Hin].
  Qed.

  Lemma ggroup_app : forall vp f A B fa fb,
    length (A ++ B) <= f -> length A <= fa -> length B <= fb ->
    (forall c c', In c A -> In c' B -> is_prefix (vp_path (vp (fst c))) (fst c') = false) ->
    ggroup vp f (A ++ B) = ggroup vp fa A ++ ggroup vp fb B.
  Proof.
    intros vp. induction f as [|f IH]; intros A B fa fb Hf Hfa Hfb Hsep.
    - destruct A as [|a A]; cbn [app length] in Hf; [|lia].
      rewrite ggroup_nil. cbn [app]. apply ggroup_fuel_irrel; [exact Hf|exact Hfb].
    - destruct A as [|[k o] A].
      + rewrite ggroup_nil. cbn [app]. apply ggroup_fuel_irrel; [exact Hf|exact Hfb].
      + destruct fa as [|fa]; cbn [length] in Hfa; [lia|].
        cbn [app length] in Hf. cbn [app ggroup].
        rewrite span_under_app.
        * destruct (span_under (vp_path (vp k)) A) as [a b] eqn:E. cbn [fst snd].
          pose proof (span_under_length _ _ _ _ E) as Hl.
          cbn [app]. f_equal. apply IH.
          -- rewrite app_length in *. lia.
          -- lia.
          -- exact Hfb.
          -- intros c c' Hc Hc'. apply Hsep; [|exact Hc']. right.
             eapply span_under_sub; [exact E|exact Hc].
        * intros c' Hc'. apply (Hsep (k, o) c'); [left; reflexivity|exact Hc'].
  Qed.

  Lemma ggroupL_cons : forall vp k o W, exists ops G,
    ggroupL vp ((k, o) :: W) = {| pu_inner := vp k; pu_ops := ops |} :: G.
  Proof.
    intros vp k o W. unfold ggroupL. cbn [length ggroup].
    destruct (span_under (vp_path (vp k)) W) as [a b]. eexists. eexists. reflexivity.
  Qed.

  (* at an internal node the groups are those of the left side followed by those of the right *)
  Lemma ggroup_Br : forall n R0 l r d p sibs Wp, d < n -> goodW n d p Wp ->
    ggroupL (vp_at R0 (Br l r) d sibs) Wp =
    ggroupL (vp_at R0 l (S d) (sibs ++ [hash H r])) (gside false d Wp) ++
    ggroupL (vp_at R0 r (S d) (sibs ++ [hash H l])) (gside true d Wp).
  Proof.
    intros n R0 l r d p sibs Wp Hd Hg.
    pose proof (gside_split n d p Wp Hd Hg) as Hsplit.
    destruct Hg as [Hs Hall].
    assert (Hside : forall b c, In c (gside b d Wp) ->
              exists z, fst c = p ++ b :: z).
    { intros b c Hin. apply In_gside in Hin. destruct Hin as [Hin Hb].
      destruct (Hall c Hin) as [Hl Hp].
      exists (skipn (S d) (fst c)).
      rewrite <- (firstn_skipn (S d) (fst c)) at 1.
      rewrite firstn_S_bit by lia. rewrite Hp, Hb, <- app_assoc. reflexivity. }
    unfold ggroupL.
    transitivity (ggroup (vp_at R0 (Br l r) d sibs) (length Wp)
                         (gside false d Wp ++ gside true d Wp)).
    { f_equal. exact Hsplit. }
    rewrite (ggroup_app _ _ _ _ (length (gside false d Wp)) (length (gside true d Wp))).
    - f_equal; apply ggroup_ext; intros c Hin; rewrite vp_at_Br;
        apply In_gside in Hin; destruct Hin as [_ Hb]; rewrite Hb; reflexivity.
    - rewrite <- Hsplit. lia.
    - lia.
    - lia.
    - intros c c' Hc Hc'.
      destruct (Hside _ _ Hc') as [w Hw].
      pose proof Hc as Hc0. apply In_gside in Hc0. destruct Hc0 as [Hin Hb].
      destruct (Hall c Hin) as [Hl Hp].
      rewrite vp_at_Br. rewrite Hb.
      destruct (vp_at_path_ext R0 l (S d) (sibs ++ [hash H r]) (fst c)) as [z Hz].
      rewrite Hz, Hw. rewrite firstn_S_bit by lia. rewrite Hp, Hb, <- app_assoc.
      cbn [app]. apply (is_prefix_app_diff p z w false).
  Qed.
End Groups.

(* ---------- the main loop ---------- *)

Section Loop.
  Variable H : Hasher.
  Hypothesis HOK : HasherOK H.
  Variable n : nat.          (* key length *)
  Variable R0 : node H.      (* the prior root recorded in every verified path *)

  (* layer at which the current group stops climbing: one below the divergence point with the
     next group's path (0 = the root when there is no next group) *)
  Definition tlayer (rest : list (path_update H)) (p : key) : nat :=
    match rest with
    | [] => 0
    | q :: _ => common (vp_path (pu_inner q)) p + 1
    end.

  Definition top_le (l : nat) (pend : list (node H * nat)) : Prop :=
    match pend with [] => True | (_, l') :: _ => l' <= l end.

  Lemma tlayer_app : forall rest p x, tlayer rest p <= length p ->
    tlayer rest (p ++ x) = tlayer rest p.
  Proof.
    intros [|q rest] p x Hle; cbn [tlayer] in *; [reflexivity|].
    rewrite common_app_lt by lia. reflexivity.
  Qed.

  Lemma up_pairs_snoc : forall (p : key) b (sibs : list (node H)) s u,
    up_pairs H (p ++ [b]) (sibs ++ [s]) (S u) = (b, s) :: up_pairs H p sibs u.
  Proof.
    intros p b sibs s u. unfold up_pairs. rewrite !rev_app_distr. reflexivity.
  Qed.

  Lemma cu_step_pop : forall b s0 pairs cur l s pend,
    compact_up H ((b, s0) :: pairs) cur (S l) ((s, S l) :: pend) =
    compact_up H pairs (cnode H cur s b) l pend.
  Proof.
    intros b s0 pairs cur l s pend. cbn [compact_up].
    rewrite Nat.eqb_refl. replace (S l - 1) with l by lia. reflexivity.
  Qed.

  Lemma cu_step_keep : forall b s0 pairs cur l pend, top_le l pend ->
    compact_up H ((b, s0) :: pairs) cur (S l) pend =
    compact_up H pairs (cnode H cur s0 b) l pend.
  Proof.
    intros b s0 pairs cur l pend Htop. cbn [compact_up].
    replace (S l - 1) with l by lia.
    destruct pend as [|[s l'] pend]; [reflexivity|].
    cbn [top_le] in Htop.
    destruct (Nat.eqb l' (S l)) eqn:E; [|reflexivity].
    apply Nat.eqb_eq in E. lia.
  Qed.

  (* one iteration of the loop, for a group whose sub-trie root is known *)
  Lemma vu_loop_one : forall g rest pend sub d,
    length (vp_path (pu_inner g)) = d ->
    tlayer rest (vp_path (pu_inner g)) <= d ->
    build_trie H n d (leaf_ops_spliced (vp_terminal (pu_inner g)) (pu_ops g)) = Ok sub ->
    vu_loop H n (g :: rest) pend =
    (let '(cur, pend') :=
       compact_up H (up_pairs H (vp_path (pu_inner g)) (vp_siblings (pu_inner g))
                              (d - tlayer rest (vp_path (pu_inner g)))) sub d pend in
     vu_loop H n rest ((cur, tlayer rest (vp_path (pu_inner g))) :: pend')).
  Proof.
    intros g rest pend sub d Hlen Htl Hbt.
    destruct rest as [|q rest].
    - cbn [tlayer] in *. cbn [vu_loop]. rewrite Hlen, Hbt.
      replace (d - 0) with d by lia.
      destruct (compact_up H (up_pairs H (vp_path (pu_inner g)) (vp_siblings (pu_inner g)) d)
                           sub d pend) as [cur pend'].
      replace (d - d) with 0 by lia. reflexivity.
    - cbn [tlayer] in *.
      set (c := common (vp_path (pu_inner q)) (vp_path (pu_inner g))) in *.
      change (vu_loop H n (g :: q :: rest) pend) with
        (match (if Nat.eqb c (length (vp_path (pu_inner g))) then Err PathsOutOfOrder
                else if Nat.ltb (length (vp_path (pu_inner g))) (c + 1) then Panic
                else Ok (length (vp_path (pu_inner g)) - (c + 1))) with
         | Panic => Panic
         | Err e => Err e
         | Ok up =>
             match build_trie H n (length (vp_path (pu_inner g)))
                     (leaf_ops_spliced (vp_terminal (pu_inner g)) (pu_ops g)) with
             | Panic => Panic
             | Err e => match e with end
             | Ok sub_root =>
                 let '(cur_node, pending') :=
                   compact_up H (up_pairs H (vp_path (pu_inner g)) (vp_siblings (pu_inner g)) up)
                              sub_root (length (vp_path (pu_inner g))) pend in
                 vu_loop H n (q :: rest)
                   ((cur_node, length (vp_path (pu_inner g)) - up) :: pending')
             end
         end).
      rewrite Hlen.
      assert (E : Nat.ltb d (c + 1) = false) by (apply Nat.ltb_ge; lia).
      (* canonical groups are never prefixes of each other: the next path diverges above d *)
      assert (E' : Nat.eqb c d = false) by (apply Nat.eqb_neq; lia).
      rewrite E', E, Hbt.
      destruct (compact_up H (up_pairs H (vp_path (pu_inner g)) (vp_siblings (pu_inner g))
                                       (d - (c + 1))) sub d pend) as [cur pend'].
      replace (d - (d - (c + 1))) with (c + 1) by lia. reflexivity.
  Qed.

  (* the new pairs below a terminal are what leaf_ops_spliced produces *)
  Lemma terminal_ops : forall f d p (Sp Sp' : kv) (Wp : wlist) tm,
    d + f = n ->
    (Sp = [] /\ tm = None \/ exists lk lv, Sp = [(lk, lv)] /\ tm = Some (lk, lv)) ->
    goodkv n d p Sp -> goodkv n d p Sp' -> goodW n d p Wp -> upd_rel Sp Wp Sp' ->
    build_trie H n d (leaf_ops_spliced tm Wp) = Ok (hash H (mk f d Sp')).
  Proof.
    intros f d p Sp Sp' Wp tm Hn Htm HgS HgS' [HsW HallW] HR.
    set (X := match tm with Some (lk, lv) => splice lk lv Wp | None => Wp end).
    assert (HsX : sorted_keys (map fst X) = true).
    { unfold X. destruct tm as [[lk lv]|]; [apply sorted_splice|]; exact HsW. }
    assert (HallX : forall c, In c X -> length (fst c) = n /\ firstn d (fst c) = p).
    { unfold X. intros c Hin. destruct Htm as [[_ ->]|[lk [lv [HSp ->]]]].
      - apply HallW. exact Hin.
      - apply In_splice in Hin. destruct Hin as [Heq|Hin]; [|apply HallW; exact Hin].
        subst c. cbn [fst]. destruct HgS as [_ HallS]. apply (HallS lk lv).
        rewrite HSp. left. reflexivity. }
    assert (HgetX : forall k, get (live_ops X) k = get Sp' k).
    { intros k. rewrite get_live by (apply sk_NoDup; exact HsX).
      rewrite (HR k). unfold X. destruct Htm as [[-> ->]|[lk [lv [-> ->]]]].
      - cbn [get]. destruct (wget Wp k) as [[v|]|]; reflexivity.
      - rewrite wget_splice by exact HsW. cbn [get].
        destruct (key_eqb lk k); destruct (wget Wp k) as [[v|]|]; reflexivity. }
    assert (Hops : leaf_ops_spliced tm Wp = live_ops X).
    { unfold leaf_ops_spliced, X. destruct tm as [[lk lv]|]; reflexivity. }
    rewrite Hops.
    rewrite build_trie_spec.
    - replace (n - d) with f by lia. f_equal. f_equal. apply mk_perm.
      apply NoDup_get_perm.
      + apply sk_NoDup. apply sorted_live. exact HsX.
      + apply HgS'.
      + exact HgetX.
    - lia.
    - apply sorted_live. exact HsX.
    - intros k v Hin. apply In_live in Hin. apply (HallX _ Hin).
    - intros k v k' v' Hin Hin'. apply In_live in Hin. apply In_live in Hin'.
      destruct (HallX _ Hin) as [_ P1]. destruct (HallX _ Hin') as [_ P2].
      cbn [fst] in P1, P2. congruence.
  Qed.

  Definition segment_goal (f d : nat) (p : key) (sibs : list (node H)) (Sp Sp' : kv)
             (Wp : wlist) (rest : list (path_update H)) (pend : list (node H * nat)) : Prop :=
    vu_loop H n (ggroupL H (vp_at H R0 (mk f d Sp) d sibs) Wp ++ rest) pend =
    (let '(cur, pend') :=
       compact_up H (up_pairs H p sibs (d - tlayer rest p)) (hash H (mk f d Sp')) d pend in
     vu_loop H n rest ((cur, tlayer rest p) :: pend')).

  Lemma segment_terminal : forall f d p sibs Sp Sp' Wp rest pend,
    d + f = n -> length p = d ->
    (Sp = [] \/ exists lk lv, Sp = [(lk, lv)]) ->
    goodkv n d p Sp -> goodkv n d p Sp' -> Wp <> [] -> goodW n d p Wp ->
    upd_rel Sp Wp Sp' -> tlayer rest p <= d ->
    segment_goal f d p sibs Sp Sp' Wp rest pend.
  Proof.
    intros f d p sibs Sp Sp' Wp rest pend Hn Hp HSp HgS HgS' Hne HgW HR Htl.
    unfold segment_goal.
    destruct Wp as [|[k0 o0] W']; [congruence|].
    assert (Hk0 : length k0 = n /\ firstn d k0 = p).
    { destruct HgW as [_ Hall]. apply (Hall (k0, o0)). left. reflexivity. }
    destruct Hk0 as [Hl0 Hp0].
    set (tm := match Sp with [(lk, lv)] => Some (lk, lv) | _ => None end).
    assert (Hvp : forall k, vp_at H R0 (mk f d Sp) d sibs k =
              {| vp_path := firstn d k; vp_terminal := tm; vp_siblings := sibs; vp_root := R0 |}).
    { intros k. unfold tm. destruct HSp as [->|[lk [lv ->]]].
      - rewrite mk_nil. apply vp_at_E.
      - rewrite mk_single. apply vp_at_Lf. }
    assert (Hg : ggroupL H (vp_at H R0 (mk f d Sp) d sibs) ((k0, o0) :: W') =
                 [{| pu_inner := {| vp_path := p; vp_terminal := tm; vp_siblings := sibs;
                                    vp_root := R0 |};
                     pu_ops := (k0, o0) :: W' |}]).
    { unfold ggroupL. cbn [length ggroup]. rewrite Hvp. cbn [vp_path]. rewrite Hp0.
      rewrite span_under_all.
      - rewrite ggroup_nil. reflexivity.
      - intros c Hin. destruct HgW as [_ Hall].
        destruct (Hall c (or_intror Hin)) as [_ Hpc]. rewrite <- Hpc.
        apply is_prefix_firstn. }
    rewrite Hg. cbn [app].
    rewrite (vu_loop_one _ rest pend (hash H (mk f d Sp')) d).
    - reflexivity.
    - exact Hp.
    - exact Htl.
    - cbn [pu_inner vp_terminal pu_ops].
      apply (terminal_ops f d p Sp Sp' ((k0, o0) :: W') tm); try assumption.
      unfold tm. destruct HSp as [->|[lk [lv ->]]].
      + left. split; reflexivity.
      + right. exists lk, lv. split; reflexivity.
  Qed.

  Lemma up_pairs_0 : forall (p : key) (sibs : list (node H)), up_pairs H p sibs 0 = [].
  Proof. reflexivity. Qed.

  Lemma ggroupL_nil : forall vp, ggroupL H vp [] = [].
  Proof. reflexivity. Qed.

  (* the path of the first group of a non-empty right side diverges from the left position
     exactly at depth d *)
  Lemma tlayer_right : forall t d p sibs (W1 : wlist) rest,
    length p = d -> d < n -> W1 <> [] -> goodW n (S d) (p ++ [true]) W1 ->
    tlayer (ggroupL H (vp_at H R0 t (S d) sibs) W1 ++ rest) (p ++ [false]) = S d.
  Proof.
    intros t d p sibs W1 rest Hp Hd Hne [_ Hall].
    destruct W1 as [|[k1 o1] W1]; [congruence|].
    destruct (ggroupL_cons H (vp_at H R0 t (S d) sibs) k1 o1 W1) as [ops [G HG]].
    rewrite HG. cbn [app tlayer pu_inner].
    destruct (vp_at_path_ext H R0 t (S d) sibs k1) as [z Hz]. rewrite Hz.
    destruct (Hall (k1, o1) (or_introl eq_refl)) as [_ Hp1]. cbn [fst] in Hp1.
    rewrite Hp1, <- app_assoc. cbn [app].
    pose proof (common_app_diff p z [] true) as Hc. cbn [negb] in Hc. rewrite Hc. lia.
  Qed.

  Lemma segment : forall f d p sibs Sp Sp' Wp rest pend,
    d + f = n -> length p = d ->
    goodkv n d p Sp -> goodkv n d p Sp' -> Wp <> [] -> goodW n d p Wp ->
    upd_rel Sp Wp Sp' -> tlayer rest p <= d -> top_le d pend ->
    segment_goal f d p sibs Sp Sp' Wp rest pend.
  Proof.
    induction f as [|f IH];
      intros d p sibs Sp Sp' Wp rest pend Hn Hp HgS HgS' Hne HgW HR Htl Htop;
      destruct (kv_cases Sp) as [HL|[[lk [lv HL]]|Hge]].
    - apply segment_terminal; try assumption. left. exact HL.
    - apply segment_terminal; try assumption. right. exists lk, lv. exact HL.
    - exfalso. apply (no_fuel0 d Sp); try assumption.
      + apply HgS.
      + intros k v Hin. destruct HgS as [_ Hall]. destruct (Hall k v Hin) as [Hl _]. lia.
      + eapply goodkv_agree. exact HgS.
    - apply segment_terminal; try assumption. left. exact HL.
    - apply segment_terminal; try assumption. right. exists lk, lv. exact HL.
    - (* an internal node of the old trie *)
      assert (Hd : d < n) by lia.
      unfold segment_goal. rewrite (mk_ge2 f d Sp Hge).
      rewrite (ggroup_Br H n R0 _ _ d p sibs Wp Hd HgW).
      pose proof (gside_split n d p Wp Hd HgW) as Hsplit.
      pose proof (goodW_gside n d p false Wp Hd HgW) as HgW0.
      pose proof (goodW_gside n d p true Wp Hd HgW) as HgW1.
      pose proof (goodkv_side n d p false Sp Hd HgS) as HgS0.
      pose proof (goodkv_side n d p true Sp Hd HgS) as HgS1.
      pose proof (goodkv_side n d p false Sp' Hd HgS') as HgS0'.
      pose proof (goodkv_side n d p true Sp' Hd HgS') as HgS1'.
      pose proof (upd_rel_side false d _ _ _ HR) as HR0.
      pose proof (upd_rel_side true d _ _ _ HR) as HR1.
      assert (Hlen' : forall k v, In (k, v) Sp' -> length k = d + S f).
      { intros k v Hin. destruct HgS' as [_ Hall]. destruct (Hall k v Hin) as [Hl _]. lia. }
      pose proof (cnode_mk H HOK f d Sp' true (proj1 HgS') Hlen' (goodkv_agree _ _ _ _ HgS')) as Hc1.
      pose proof (cnode_mk H HOK f d Sp' false (proj1 HgS') Hlen' (goodkv_agree _ _ _ _ HgS')) as Hc0.
      cbn [negb] in Hc1, Hc0.
      assert (Hpl : forall b, length (p ++ [b]) = S d).
      { intros b. rewrite app_length. cbn [length]. lia. }
      assert (Htlb : forall b, tlayer rest (p ++ [b]) = tlayer rest p).
      { intros b. apply tlayer_app. lia. }
      assert (Hsub : S d - tlayer rest p = S (d - tlayer rest p)) by lia.
      assert (Htop' : top_le (S d) pend).
      { destruct pend as [|[s l'] pend]; cbn [top_le] in *; lia. }
      set (W0 := gside false d Wp) in *.
      set (W1 := gside true d Wp) in *.
      assert (HW0 : W0 = [] \/ W0 <> []) by (destruct W0; [left; reflexivity|right; discriminate]).
      assert (HW1 : W1 = [] \/ W1 <> []) by (destruct W1; [left; reflexivity|right; discriminate]).
      destruct HW0 as [E0|N0].
      + (* no write on the left *)
        assert (N1 : W1 <> []).
        { intros E1. rewrite E0, E1 in Hsplit. cbn [app] in Hsplit. congruence. }
        rewrite E0, ggroupL_nil. cbn [app].
        pose proof (IH (S d) (p ++ [true])
                       (sibs ++ [hash H (mk f (S d) (side false d Sp))])
                       (side true d Sp) (side true d Sp') W1 rest pend) as IH1.
        unfold segment_goal in IH1. rewrite IH1; try assumption; try lia.
        * rewrite Htlb, Hsub, up_pairs_snoc.
          rewrite cu_step_keep by exact Htop.
          rewrite <- (mk_untouched n d p f false Sp Wp Sp' HgS HgS' HR E0).
          rewrite Hc1. reflexivity.
        * apply Hpl.
        * rewrite Htlb. lia.
      + destruct HW1 as [E1|N1].
        * (* no write on the right *)
          rewrite E1, ggroupL_nil, app_nil_r.
          pose proof (IH (S d) (p ++ [false])
                         (sibs ++ [hash H (mk f (S d) (side true d Sp))])
                         (side false d Sp) (side false d Sp') W0 rest pend) as IH0.
          unfold segment_goal in IH0. rewrite IH0; try assumption; try lia.
          -- rewrite Htlb, Hsub, up_pairs_snoc.
             rewrite cu_step_keep by exact Htop.
             rewrite <- (mk_untouched n d p f true Sp Wp Sp' HgS HgS' HR E1).
             rewrite Hc0. reflexivity.
          -- apply Hpl.
          -- rewrite Htlb. lia.
        * (* writes on both sides *)
          rewrite <- app_assoc.
          pose proof (tlayer_right (mk f (S d) (side true d Sp)) d p
                        (sibs ++ [hash H (mk f (S d) (side false d Sp))]) W1 rest
                        Hp Hd N1 HgW1) as Htl0.
          pose proof (IH (S d) (p ++ [false])
                         (sibs ++ [hash H (mk f (S d) (side true d Sp))])
                         (side false d Sp) (side false d Sp') W0
                         (ggroupL H (vp_at H R0 (mk f (S d) (side true d Sp)) (S d)
                                           (sibs ++ [hash H (mk f (S d) (side false d Sp))])) W1
                          ++ rest) pend) as IH0.
          unfold segment_goal in IH0. rewrite IH0; try assumption; try lia.
          -- rewrite Htl0, Nat.sub_diag, up_pairs_0. cbn [compact_up].
             pose proof (IH (S d) (p ++ [true])
                            (sibs ++ [hash H (mk f (S d) (side false d Sp))])
                            (side true d Sp) (side true d Sp') W1 rest
                            ((hash H (mk f (S d) (side false d Sp')), S d) :: pend)) as IH1.
             unfold segment_goal in IH1. rewrite IH1; try assumption; try lia.
             ++ rewrite Htlb, Hsub, up_pairs_snoc.
                rewrite cu_step_pop. rewrite Hc1. reflexivity.
             ++ apply Hpl.
             ++ rewrite Htlb. lia.
             ++ cbn [top_le]. lia.
          -- apply Hpl.
  Qed.
End Loop.

(* ---------- the preliminary checks of verify_update pass on the canonical witness ---------- *)

Section Check.
  Variable H : Hasher.
  Hypothesis HOK : HasherOK H.
  Variable n : nat.
  Variable R0 : node H.

  Lemma check_ops_ok : forall path ops prev,
    (forall c, In c ops -> is_prefix path (fst c) = true) ->
    sorted_keys (match prev with Some q => q :: map fst ops | None => map fst ops end) = true ->
    check_ops path prev ops = None.
  Proof.
    intros path. induction ops as [|[k o] ops IH]; intros prev Hpre Hs.
    - reflexivity.
    - pose proof (Hpre (k, o) (or_introl eq_refl)) as Hk. cbn [fst] in Hk.
      assert (Hpre' : forall c, In c ops -> is_prefix path (fst c) = true).
      { intros c Hin. apply Hpre. right. exact Hin. }
      cbn [check_ops]. destruct prev as [q|].
      + cbn [map fst] in Hs.
        change (key_ltb q k && sorted_keys (k :: map fst ops) = true) in Hs.
        apply andb_true_iff in Hs. destruct Hs as [Hlt Hs].
        unfold path_ge. rewrite Hlt. cbn [negb]. rewrite Hk.
        apply IH; [exact Hpre'|exact Hs].
      + rewrite Hk. apply IH; [exact Hpre'|exact Hs].
  Qed.

  (* the previous path is smaller than everything below position p *)
  Definition prev_ok (prev : option key) (p : key) : Prop :=
    match prev with None => True | Some q => forall x, key_ltb q (p ++ x) = true end.

  Lemma ggroup_terminal : forall f d p sibs (Sp : kv) (Wp : wlist),
    (Sp = [] \/ exists lk lv, Sp = [(lk, lv)]) -> Wp <> [] -> goodW n d p Wp ->
    exists tm,
      ggroupL H (vp_at H R0 (mk f d Sp) d sibs) Wp =
      [{| pu_inner := {| vp_path := p; vp_terminal := tm; vp_siblings := sibs; vp_root := R0 |};
          pu_ops := Wp |}].
  Proof.
    intros f d p sibs Sp Wp HSp Hne HgW.
    destruct Wp as [|[k0 o0] W']; [congruence|].
    destruct HgW as [_ Hall].
    destruct (Hall (k0, o0) (or_introl eq_refl)) as [_ Hp0]. cbn [fst] in Hp0.
    exists (match Sp with [(lk, lv)] => Some (lk, lv) | _ => None end).
    assert (Hvp : forall k, vp_at H R0 (mk f d Sp) d sibs k =
              {| vp_path := firstn d k;
                 vp_terminal := match Sp with [(lk, lv)] => Some (lk, lv) | _ => None end;
                 vp_siblings := sibs; vp_root := R0 |}).
    { intros k. destruct HSp as [->|[lk [lv ->]]].
      - rewrite mk_nil. apply vp_at_E.
      - rewrite mk_single. apply vp_at_Lf. }
    unfold ggroupL. cbn [length ggroup]. rewrite Hvp. cbn [vp_path]. rewrite Hp0.
    rewrite span_under_all.
    - rewrite ggroup_nil. reflexivity.
    - intros c Hin. destruct (Hall c (or_intror Hin)) as [_ Hpc]. rewrite <- Hpc.
      apply is_prefix_firstn.
  Qed.

  Lemma chk_terminal : forall f d p sibs Sp Wp rest prev,
    (Sp = [] \/ exists lk lv, Sp = [(lk, lv)]) -> Wp <> [] -> goodW n d p Wp ->
    prev_ok prev p ->
    check_paths H R0 prev (ggroupL H (vp_at H R0 (mk f d Sp) d sibs) Wp ++ rest) =
    check_paths H R0 (Some (p ++ [])) rest.
  Proof.
    intros f d p sibs Sp Wp rest prev HSp Hne HgW Hprev.
    destruct (ggroup_terminal f d p sibs Sp Wp HSp Hne HgW) as [tm Hg].
    rewrite Hg. cbn [app check_paths pu_inner vp_root vp_path pu_ops].
    assert (Heq : node_eqb H R0 R0 = true) by (apply (eqb_ok H HOK); reflexivity).
    rewrite Heq. cbn [negb].
    assert (Hord : match prev with Some q => path_ge q p | None => false end = false).
    { destruct prev as [q|]; [|reflexivity]. cbn [prev_ok] in Hprev.
      specialize (Hprev []). rewrite app_nil_r in Hprev.
      unfold path_ge. rewrite Hprev. reflexivity. }
    rewrite Hord.
    destruct HgW as [Hs Hall].
    assert (Hco : check_ops p None Wp = None).
    { apply check_ops_ok; [|exact Hs].
      intros c Hin. destruct (Hall c Hin) as [_ Hpc]. rewrite <- Hpc. apply is_prefix_firstn. }
    rewrite Hco. rewrite app_nil_r.
    destruct Wp as [|c W']; [congruence|]. reflexivity.
  Qed.

  Lemma chk_segment : forall f d p sibs Sp Wp rest prev,
    d + f = n -> length p = d -> goodkv n d p Sp -> Wp <> [] -> goodW n d p Wp ->
    prev_ok prev p ->
    exists y,
      check_paths H R0 prev (ggroupL H (vp_at H R0 (mk f d Sp) d sibs) Wp ++ rest) =
      check_paths H R0 (Some (p ++ y)) rest.
  Proof.
    induction f as [|f IH]; intros d p sibs Sp Wp rest prev Hn Hp HgS Hne HgW Hprev;
      destruct (kv_cases Sp) as [HL|[[lk [lv HL]]|Hge]].
    - exists []. apply chk_terminal; try assumption. left. exact HL.
    - exists []. apply chk_terminal; try assumption. right. exists lk, lv. exact HL.
    - exfalso. apply (no_fuel0 d Sp); try assumption.
      + apply HgS.
      + intros k v Hin. destruct HgS as [_ Hall]. destruct (Hall k v Hin) as [Hl _]. lia.
      + eapply goodkv_agree. exact HgS.
    - exists []. apply chk_terminal; try assumption. left. exact HL.
    - exists []. apply chk_terminal; try assumption. right. exists lk, lv. exact HL.
    - assert (Hd : d < n) by lia.
      rewrite (mk_ge2 f d Sp Hge).
      rewrite (ggroup_Br H n R0 _ _ d p sibs Wp Hd HgW).
      pose proof (gside_split n d p Wp Hd HgW) as Hsplit.
      pose proof (goodW_gside n d p false Wp Hd HgW) as HgW0.
      pose proof (goodW_gside n d p true Wp Hd HgW) as HgW1.
      pose proof (goodkv_side n d p false Sp Hd HgS) as HgS0.
      pose proof (goodkv_side n d p true Sp Hd HgS) as HgS1.
      assert (Hpl : forall b, length (p ++ [b]) = S d).
      { intros b. rewrite app_length. cbn [length]. lia. }
      assert (Hprevb : forall b, prev_ok prev (p ++ [b])).
      { intros b. destruct prev as [q|]; [|exact I]. cbn [prev_ok] in *.
        intros x. rewrite <- app_assoc. apply Hprev. }
      set (W0 := gside false d Wp) in *.
      set (W1 := gside true d Wp) in *.
      assert (HW0 : W0 = [] \/ W0 <> []) by (destruct W0; [left; reflexivity|right; discriminate]).
      assert (HW1 : W1 = [] \/ W1 <> []) by (destruct W1; [left; reflexivity|right; discriminate]).
      destruct HW0 as [E0|N0].
      + assert (N1 : W1 <> []).
        { intros E1. rewrite E0, E1 in Hsplit. cbn [app] in Hsplit. congruence. }
        rewrite E0, ggroupL_nil. cbn [app].
        destruct (IH (S d) (p ++ [true]) (sibs ++ [hash H (mk f (S d) (side false d Sp))])
                     (side true d Sp) W1 rest prev) as [y Hy]; try assumption; try lia.
        * apply Hpl.
        * apply Hprevb.
        * exists (true :: y). rewrite Hy. rewrite <- app_assoc. reflexivity.
      + destruct HW1 as [E1|N1].
        * rewrite E1, ggroupL_nil, app_nil_r.
          destruct (IH (S d) (p ++ [false]) (sibs ++ [hash H (mk f (S d) (side true d Sp))])
                       (side false d Sp) W0 rest prev) as [y Hy]; try assumption; try lia.
          -- apply Hpl.
          -- apply Hprevb.
          -- exists (false :: y). rewrite Hy. rewrite <- app_assoc. reflexivity.
        * rewrite <- app_assoc.
          destruct (IH (S d) (p ++ [false]) (sibs ++ [hash H (mk f (S d) (side true d Sp))])
                       (side false d Sp) W0
                       (ggroupL H (vp_at H R0 (mk f (S d) (side true d Sp)) (S d)
                                         (sibs ++ [hash H (mk f (S d) (side false d Sp))])) W1
                        ++ rest) prev) as [y0 Hy0]; try assumption; try lia.
          -- apply Hpl.
          -- apply Hprevb.
          -- rewrite Hy0.
             destruct (IH (S d) (p ++ [true]) (sibs ++ [hash H (mk f (S d) (side false d Sp))])
                          (side true d Sp) W1 rest (Some ((p ++ [false]) ++ y0)))
               as [y Hy]; try assumption; try lia.
             ++ apply Hpl.
             ++ cbn [prev_ok]. intros x. rewrite <- !app_assoc. cbn [app].
                apply key_ltb_app_ft.
             ++ exists (true :: y). rewrite Hy. rewrite <- app_assoc. reflexivity.
  Qed.
End Check.

(* ---------- the theorems ---------- *)

Lemma wget_In : forall W k o, wget W k = Some o -> In (k, o) W.
Proof.
  induction W as [|[k1 o1] W IH]; intros k o Hw; cbn [wget] in Hw.
  - discriminate.
  - destruct (key_eqb k1 k) eqn:E.
    + apply key_eqb_true_iff in E. inversion Hw; subst. left. reflexivity.
    + right. apply IH. exact Hw.
Qed.

(* For ANY duplicate-free n-bit set S' whose lookups are those of S overridden by the writes,
   the verifier returns the root of S'. *)
Theorem verify_update_correct_gen : forall (H : Hasher), HasherOK H ->
  forall n S (W : list (key * option value)) S',
  wf n S ->
  sorted_keys (map fst W) = true ->
  (forall k o, In (k, o) W -> length k = n) ->
  wf n S' ->
  (forall k, get S' k = match last_write W k with Some w => w | None => get S k end) ->
  verify_update H n (root_n H n S) (group H n S W) = Ok (root_n H n S').
Proof.
  intros H HOK n S W S' [HndS HlenS] HsW HlenW [HndS' HlenS'] Hget.
  destruct W as [|[k0 o0] W0] eqn:EW.
  - cbn. f_equal. apply root_history_independent; try assumption.
    intros k. rewrite Hget. reflexivity.
  - rewrite <- EW in *.
    assert (Hne : W <> []) by (rewrite EW; discriminate).
    set (R0 := root_n H n S).
    assert (Hgrp : group H n S W = ggroupL H (vp_at H R0 (mk n 0 S) 0 []) W).
    { unfold group, ggroupL. rewrite group_fuel_ggroup. apply ggroup_ext.
      intros c _. apply vp_of_at. }
    rewrite Hgrp.
    assert (HgS : goodkv n 0 [] S).
    { split; [exact HndS|]. intros k v Hin. split; [eapply HlenS; exact Hin|reflexivity]. }
    assert (HgS' : goodkv n 0 [] S').
    { split; [exact HndS'|]. intros k v Hin. split; [eapply HlenS'; exact Hin|reflexivity]. }
    assert (HgW : goodW n 0 [] W).
    { split; [exact HsW|]. intros [k o] Hin. split; [eapply HlenW; exact Hin|reflexivity]. }
    assert (HR : upd_rel S W S').
    { intros k. rewrite Hget. rewrite last_write_wget by (apply sk_NoDup; exact HsW).
      reflexivity. }
    destruct (chk_segment H HOK n R0 n 0 [] [] S W [] None) as [y Hchk];
      try assumption; try reflexivity; try exact I.
    pose proof (segment H HOK n R0 n 0 [] [] S S' W [] []) as Hseg.
    unfold segment_goal in Hseg. rewrite app_nil_r in Hchk, Hseg.
    cbn [tlayer] in Hseg.
    assert (Hvu : forall G, G <> [] ->
              verify_update H n R0 G =
              match check_paths H R0 None G with
              | Some e => Err e
              | None => bind (vu_loop H n G [])
                          (fun pending => match pending with (nd, _) :: _ => Ok nd | [] => Panic end)
              end).
    { intros [|g G] HG; [congruence|reflexivity]. }
    rewrite Hvu.
    + rewrite Hchk. cbn [check_paths].
      rewrite Hseg; try assumption; try reflexivity; try exact I; try (cbn; lia).
    + rewrite EW. destruct (ggroupL_cons H (vp_at H R0 (mk n 0 S) 0 []) k0 o0 W0) as [ops [G HG]].
      rewrite HG. discriminate.
Qed.

(* the applied change set is duplicate-free with n-bit keys when S is sorted *)
Lemma apply_wf : forall n S (W : list (key * option value)),
  wf n S -> kv_sorted S = true -> sorted_keys (map fst W) = true ->
  (forall k o, In (k, o) W -> length k = n) -> wf n (apply S W).
Proof.
  intros n S W [HndS HlenS] HsS HsW HlenW.
  assert (Hnd : NoDup (map fst (apply S W))).
  { apply sorted_NoDup. apply apply_sorted. exact HsS. }
  split; [exact Hnd|].
  intros k v Hin. apply (get_In _ k v Hnd) in Hin.
  rewrite get_apply in Hin. rewrite last_write_wget in Hin by (apply sk_NoDup; exact HsW).
  destruct (wget W k) as [w|] eqn:Ew.
  - apply wget_In in Ew. eapply HlenW. exact Ew.
  - apply get_Some_In in Hin. eapply HlenS. exact Hin.
Qed.

(* The statement of the task, with the hypothesis [kv_sorted S = true] under which
   [Base.apply] is meaningful (the store state always satisfies it). *)
Theorem verify_update_correct : forall (H : Hasher), HasherOK H ->
  forall n S (W : list (key * option value)),
  wf n S ->
  kv_sorted S = true ->
  sorted_keys (map fst W) = true ->                   (* strictly ascending write keys *)
  (forall k o, In (k, o) W -> length k = n) ->
  verify_update H n (root_n H n S) (group H n S W) = Ok (root_n H n (apply S W)).
Proof.
  intros H HOK n S W Hwf HsS HsW HlenW.
  apply verify_update_correct_gen; try assumption.
  - apply apply_wf; assumption.
  - intros k. apply get_apply.
Qed.

Corollary verify_update_total : forall (H : Hasher), HasherOK H -> forall n S W,
  wf n S -> kv_sorted S = true ->
  sorted_keys (map fst W) = true -> (forall k o, In (k, o) W -> length k = n) ->
  verify_update H n (root_n H n S) (group H n S W) <> Panic.
Proof.
  intros H HOK n S W Hwf HsS HsW HlenW.
  rewrite (verify_update_correct H HOK n S W Hwf HsS HsW HlenW). discriminate.
Qed.

(* ---------- C18: the per-path update verifier never panics ---------- *)

(* what PathProof::verify guarantees about its result, for n-bit leaf keys *)
Definition vp_wf (H : Hasher) (n : nat) (vp : verified H) : Prop :=
  length (vp_path vp) = length (vp_siblings vp) /\ length (vp_path vp) <= n /\
  (forall k v, vp_terminal vp = Some (k, v) -> is_prefix (vp_path vp) k = true).

(* [verify] itself bounds the number of siblings by min(len kp, 256): no hypothesis on kp *)
Lemma verify_vp_wf_any_kp : forall (H : Hasher) (p : path_proof H) kp root vp,
  verify H p kp root = Ok vp -> vp_wf H 256 vp.
Proof.
  intros H p kp root vp Hv. unfold vp_wf.
  pose proof (vp_path_length H p kp root vp Hv) as Hlen.
  pose proof (verify_ok_terminal H p kp root vp Hv) as Hterm.
  pose proof (verify_ok_inv H p kp root vp Hv) as [H1 [H2 [_ [_ [_ [H6 _]]]]]].
  split; [rewrite Hlen, H6; reflexivity|].
  split; [lia|exact Hterm].
Qed.

Lemma verify_vp_wf : forall (H : Hasher) (p : path_proof H) kp root vp,
  verify H p kp root = Ok vp -> length kp <= 256 -> vp_wf H 256 vp.
Proof. intros H p kp root vp Hv _. exact (verify_vp_wf_any_kp H p kp root vp Hv). Qed.

Lemma common_le_r : forall a b : key, common a b <= length b.
Proof.
  induction a as [|x a IH]; intros [|y b]; cbn [common length]; try lia.
  destruct (Bool.eqb x y); [|lia]. specialize (IH b). lia.
Qed.

Lemma check_ops_none_inv : forall (path : key) ops prev,
  check_ops path prev ops = None ->
  sorted_keys (match prev with Some q => q :: map fst ops | None => map fst ops end) = true /\
  (forall c, In c ops -> is_prefix path (fst c) = true).
Proof.
  intros path. induction ops as [|[k o] ops IH]; intros prev Hc.
  - split; [destruct prev; reflexivity|intros c []].
  - cbn [check_ops] in Hc.
    assert (Hk : is_prefix path k = true /\ check_ops path (Some k) ops = None /\
                 match prev with Some q => key_ltb q k = true | None => True end).
    { destruct prev as [q|].
      - unfold path_ge in Hc. destruct (key_ltb q k); cbn [negb] in Hc; [|discriminate].
        destruct (is_prefix path k); [|discriminate]. repeat split. exact Hc.
      - destruct (is_prefix path k); [|discriminate]. repeat split. exact Hc. }
    destruct Hk as [Hpk [Hrest Hlt]].
    destruct (IH _ Hrest) as [Hs Hall]. split.
    + destruct prev as [q|]; [|exact Hs].
      cbn [map fst].
      change (key_ltb q k && sorted_keys (k :: map fst ops) = true).
      rewrite Hlt. exact Hs.
    + intros c [Heq|Hin]; [subst c; exact Hpk|apply Hall; exact Hin].
Qed.

Lemma check_paths_none_inv : forall (H : Hasher) R (paths : list (path_update H)) prev,
  check_paths H R prev paths = None ->
  forall p, In p paths -> check_ops (vp_path (pu_inner p)) None (pu_ops p) = None.
Proof.
  intros H R. induction paths as [|p ps IH]; intros prev Hc q Hin.
  - destruct Hin.
  - cbn [check_paths] in Hc.
    destruct (negb (node_eqb H (vp_root (pu_inner p)) R)); [discriminate|].
    destruct (match prev with Some q0 => path_ge q0 (vp_path (pu_inner p)) | None => false end);
      [discriminate|].
    destruct (pu_ops p) as [|c0 ops0] eqn:Eops; [discriminate|].
    destruct (check_ops (vp_path (pu_inner p)) None (c0 :: ops0)) as [e|] eqn:Eco; [discriminate|].
    destruct Hin as [Heq|Hin].
    + subst q. rewrite Eops. exact Eco.
    + eapply IH; [exact Hc|exact Hin].
Qed.

Section NeverPanics.
  Variable H : Hasher.
  Variable n : nat.

  (* per-path facts under which one iteration of the main loop cannot panic *)
  Definition pu_good (p : path_update H) : Prop :=
    length (vp_path (pu_inner p)) <= n /\
    sorted_keys (map fst (pu_ops p)) = true /\
    (forall c, In c (pu_ops p) ->
       is_prefix (vp_path (pu_inner p)) (fst c) = true /\ length (fst c) = n) /\
    (forall k v, vp_terminal (pu_inner p) = Some (k, v) ->
       is_prefix (vp_path (pu_inner p)) k = true /\ length k = n).

  (* build_trie is called on strictly sorted n-bit keys that share the [skip]-bit path *)
  Lemma build_trie_good : forall p, pu_good p ->
    exists sub, build_trie H n (length (vp_path (pu_inner p)))
                  (leaf_ops_spliced (vp_terminal (pu_inner p)) (pu_ops p)) = Ok sub.
  Proof.
    intros p [Hlen [Hs [Hops Hterm]]].
    set (path := vp_path (pu_inner p)) in *.
    set (X := match vp_terminal (pu_inner p) with
              | Some (lk, lv) => splice lk lv (pu_ops p)
              | None => pu_ops p
              end).
    assert (Hl : leaf_ops_spliced (vp_terminal (pu_inner p)) (pu_ops p) = live_ops X).
    { unfold leaf_ops_spliced, X. destruct (vp_terminal (pu_inner p)) as [[lk lv]|]; reflexivity. }
    assert (HsX : sorted_keys (map fst X) = true).
    { unfold X. destruct (vp_terminal (pu_inner p)) as [[lk lv]|]; [apply sorted_splice|]; exact Hs. }
    assert (HallX : forall c, In c X -> is_prefix path (fst c) = true /\ length (fst c) = n).
    { unfold X. intros c Hin. destruct (vp_terminal (pu_inner p)) as [[lk lv]|] eqn:Et.
      - apply In_splice in Hin. destruct Hin as [Heq|Hin]; [|apply Hops; exact Hin].
        subst c. cbn [fst]. apply (Hterm lk lv). reflexivity.
      - apply Hops. exact Hin. }
    rewrite Hl. eexists. apply build_trie_spec.
    - exact Hlen.
    - apply sorted_live. exact HsX.
    - intros k v Hin. apply In_live in Hin. apply (HallX _ Hin).
    - intros k v k' v' Hin Hin'. apply In_live in Hin. apply In_live in Hin'.
      destruct (HallX _ Hin) as [P1 _]. destruct (HallX _ Hin') as [P2 _]. cbn [fst] in P1, P2.
      apply is_prefix_firstn_eq in P1. apply is_prefix_firstn_eq in P2.
      fold path. congruence.
  Qed.

  (* the [up_layers] computation of one iteration *)
  Definition up_of (p : path_update H) (ps : list (path_update H)) : res vu_err nat :=
    let skip := length (vp_path (pu_inner p)) in
    match ps with
    | [] => Ok skip
    | q :: _ =>
        let c := common (vp_path (pu_inner q)) (vp_path (pu_inner p)) in
        if Nat.eqb c skip then Err PathsOutOfOrder
        else if Nat.ltb skip (c + 1) then Panic else Ok (skip - (c + 1))
    end.

  Lemma vu_loop_cons : forall p ps pend,
    vu_loop H n (p :: ps) pend =
    match up_of p ps with
    | Panic => Panic
    | Err e => Err e
    | Ok up =>
        match build_trie H n (length (vp_path (pu_inner p)))
                (leaf_ops_spliced (vp_terminal (pu_inner p)) (pu_ops p)) with
        | Panic => Panic
        | Err e => match e with end
        | Ok sub_root =>
            let '(cur_node, pending') :=
              compact_up H (up_pairs H (vp_path (pu_inner p)) (vp_siblings (pu_inner p)) up)
                         sub_root (length (vp_path (pu_inner p))) pend in
            vu_loop H n ps ((cur_node, length (vp_path (pu_inner p)) - up) :: pending')
        end
    end.
  Proof. intros p [|q ps] pend; reflexivity. Qed.

  (* the usize subtraction [skip - (n + 1)] cannot underflow any more: the shared prefix is at
     most [skip] bits long, and equality is now rejected with PathsOutOfOrder *)
  Lemma vu_no_underflow : forall p ps, up_of p ps <> Panic.
  Proof.
    intros p [|q ps]; unfold up_of; [discriminate|].
    pose proof (common_le_r (vp_path (pu_inner q)) (vp_path (pu_inner p))) as Hle.
    destruct (Nat.eqb _ _) eqn:E1; [discriminate|].
    destruct (Nat.ltb _ _) eqn:E2; [|discriminate].
    apply Nat.eqb_neq in E1. apply Nat.ltb_lt in E2. lia.
  Qed.

  Lemma vu_loop_total : forall paths pend, (forall p, In p paths -> pu_good p) ->
    vu_loop H n paths pend <> Panic /\
    (forall r, vu_loop H n paths pend = Ok r -> paths <> [] \/ pend <> [] -> r <> []).
  Proof.
    induction paths as [|p ps IH]; intros pend Hg.
    - cbn [vu_loop]. split; [discriminate|].
      intros r Hr [Hn|Hn]; [congruence|]. inversion Hr; subst. exact Hn.
    - rewrite vu_loop_cons.
      pose proof (vu_no_underflow p ps) as Hup.
      destruct (up_of p ps) as [up|e|]; [|split; [discriminate|intros r Hr; discriminate]|congruence].
      destruct (build_trie_good p (Hg p (or_introl eq_refl))) as [sub Hsub]. rewrite Hsub.
      destruct (compact_up H _ sub _ pend) as [cur pend'].
      destruct (IH ((cur, length (vp_path (pu_inner p)) - up) :: pend')
                   (fun q Hq => Hg q (or_intror Hq))) as [IH1 IH2].
      split; [exact IH1|].
      intros r Hr _. apply (IH2 r Hr). right. discriminate.
  Qed.
End NeverPanics.

(* C18: the per-path update verifier is total on ANY verified paths, ANY operation lists, ANY
   root - no collision-freeness needed *)
Theorem verify_update_never_panics : forall (H : Hasher) root (paths : list (path_update H)),
  (forall p, In p paths -> vp_wf H 256 (pu_inner p) /\
     (forall k v, vp_terminal (pu_inner p) = Some (k, v) -> length k = 256) /\
     (forall k o, In (k, o) (pu_ops p) -> length k = 256)) ->
  verify_update H 256 root paths <> Panic.
Proof.
  intros H root paths Hall.
  destruct paths as [|p0 ps0] eqn:Ep; [cbn; discriminate|]. rewrite <- Ep in *.
  assert (Hne : paths <> []) by (rewrite Ep; discriminate).
  assert (Hvu : verify_update H 256 root paths =
                match check_paths H root None paths with
                | Some e => Err e
                | None => bind (vu_loop H 256 paths [])
                            (fun pending => match pending with (nd, _) :: _ => Ok nd | [] => Panic end)
                end).
  { rewrite Ep. reflexivity. }
  rewrite Hvu. clear Hvu Ep p0 ps0.
  destruct (check_paths H root None paths) as [e|] eqn:Ec; [discriminate|].
  assert (Hg : forall p, In p paths -> pu_good H 256 p).
  { intros p Hin. destruct (Hall p Hin) as [[_ [Hlen Hpre]] [Htl Hol]].
    pose proof (check_paths_none_inv H root paths None Ec p Hin) as Hco.
    apply check_ops_none_inv in Hco. destruct Hco as [Hs Hunder].
    split; [exact Hlen|]. split; [exact Hs|]. split.
    - intros [k o] Hc. split; [apply Hunder; exact Hc|]. cbn [fst]. eapply Hol. exact Hc.
    - intros k v Ht. split; [eapply Hpre; exact Ht|eapply Htl; exact Ht]. }
  destruct (vu_loop_total H 256 paths [] Hg) as [Hnp Hnon].
  destruct (vu_loop H 256 paths []) as [r|e|] eqn:El; cbn [bind].
  - specialize (Hnon r eq_refl (or_introl Hne)).
    destruct r as [|[nd l] r]; [congruence|discriminate].
  - discriminate.
  - congruence.
Qed.

(* both new error branches are reachable in the model (they were the two panics of the pinned
   tree): a leaf terminal outside the proven path, and a verified path that is a prefix of the
   next one *)
Example verify_terminal_out_of_path :
  verify FreeH (Build_path_proof FreeH (TLeaf [true; false] 1%N) [FT])
         [false; false] (FI FT (FL [true; false] 1%N)) = Err TerminalOutOfPath.
Proof. reflexivity. Qed.

Example verify_update_prefix_paths :
  let R := FO KInt 7%N in
  verify_update FreeH 2 R
    [ Build_path_update FreeH (Build_verified FreeH [false] None [FO KInt 1%N] R)
                        [([false; false], Some 1%N)];
      Build_path_update FreeH (Build_verified FreeH [false; true] None [FO KInt 1%N; FO KInt 2%N] R)
                        [([false; true], Some 2%N)] ] = Err PathsOutOfOrder.
Proof. vm_compute. reflexivity. Qed.

(* ---------- why [kv_sorted S] is needed ---------- *)

(* The statement with [wf n S] only is false: [Base.ins] assumes a sorted list.  For
   S = [([true],1); ([false],2)] and W = [([false], Some 5)],
   [apply S W = [([false],5); ([true],1); ([false],2)]] has a duplicate key, so its [root_n] is
   [FI FT (FL [true] 1)] (mk runs out of fuel on the duplicate), whereas the verifier correctly
   returns [FI (FL [false] 5) (FL [true] 1)].  The defect is in the spec-side [apply] on
   unsorted input, not in [group] / [verify_update]. *)
Lemma verify_update_unsorted_counterexample :
  ~ (forall (H : Hasher), HasherOK H ->
     forall n S (W : list (key * option value)),
     wf n S ->
     sorted_keys (map fst W) = true ->
     (forall k o, In (k, o) W -> length k = n) ->
     verify_update H n (root_n H n S) (group H n S W) = Ok (root_n H n (apply S W))).
Proof.
  intros Hall.
  specialize (Hall FreeH FreeH_OK 1 [([true], 1%N); ([false], 2%N)] [([false], Some 5%N)]).
  assert (Hwf : wf 1 [([true], 1%N); ([false], 2%N)]).
  { split.
    - cbn [map fst]. constructor.
      + intros [Heq|[]]. discriminate.
      + constructor; [intros []|constructor].
    - intros k v [Heq|[Heq|[]]]; inversion Heq; reflexivity. }
  specialize (Hall Hwf eq_refl).
  assert (Hlen : forall k (o : option value), In (k, o) [([false], Some 5%N)] -> length k = 1).
  { intros k o [Heq|[]]. inversion Heq. reflexivity. }
  specialize (Hall Hlen). vm_compute in Hall. discriminate.
Qed.
