(* The stateless update verifier (core/src/proof/path_proof.rs::verify_update, mirrored in
   VerifyUpdate.v), run on the canonical witness of a sorted write set (Witness.group), returns
   the root of the updated key/value set.

   Proof architecture (in the spirit of the [segment] lemma of BuildTrie_proofs): a compositional
   statement about the main loop.  Let the old sub-trie at a position [p] of depth [d] be
   [mk f d Sp] and let [Wp] be the (non-empty, sorted) writes below [p].  Processing all the
   groups of [Wp] has the same effect on the pending stack as processing ONE group whose
   terminal sits at [p] and whose new sub-trie root is [hash (mk f d Sp')], [Sp'] being the
   updated pairs below [p]: it is compacted up from layer [d] to the layer dictated by the next
   group and pushed.  The statement is proved by induction on the fuel of [mk]; at an internal
   node the writes split into the two sides, the groups of the whole are the groups of the
   sides, and one compaction step joins the two updated children ([cnode_mk]).

   NOTE on the statement: [Base.ins] keeps a sorted list sorted but is meaningless on unsorted
   lists, so [Base.apply S W] can contain duplicate keys when [S] is not key-sorted.  The
   theorem as first stated (with [wf n S] only) is therefore false; see
   [verify_update_unsorted_counterexample] at the end.  [verify_update_correct_gen] is stated
   for any duplicate-free [S'] with the right lookups, [verify_update_correct] adds the
   hypothesis [kv_sorted S = true] (which the store guarantees: Store_proofs.cur_sorted). *)
From Coq Require Import List Bool Arith NArith Lia Permutation.
From Nomt Require Import Base Hash Trie Result PathProof BuildTrie VerifyUpdate Witness
     Base_proofs Trie_proofs BuildTrie_proofs.
Import ListNotations.

Definition wlist := list (key * option value).

(* ---------- sorted key lists ---------- *)

Lemma sk_cons_iff : forall k ks,
  sorted_keys (k :: ks) = true <->
  (forall k', In k' ks -> key_ltb k k' = true) /\ sorted_keys ks = true.
Proof.
  intros k ks. revert k. induction ks as [|k1 ks IH]; intros k.
  - cbn. split; [intros _; split; [intros k' []|reflexivity]|reflexivity].
  - change (sorted_keys (k :: k1 :: ks)) with (key_ltb k k1 && sorted_keys (k1 :: ks)).
    rewrite andb_true_iff. split.
    + intros [Hlt Hs]. split; [|exact Hs]. intros k' [Heq|Hin]; [subst; exact Hlt|].
      apply IH in Hs. destruct Hs as [Hlb _].
      eapply key_ltb_trans; [exact Hlt|]. apply Hlb. exact Hin.
    + intros [Hlb Hs]. split; [apply Hlb; left; reflexivity|exact Hs].
Qed.

Lemma sk_NoDup : forall ks, sorted_keys ks = true -> NoDup ks.
Proof.
  induction ks as [|k ks IH]; intros Hs.
  - constructor.
  - apply sk_cons_iff in Hs. destruct Hs as [Hlb Hs].
    constructor; [|apply IH; exact Hs].
    intros Hin. apply Hlb in Hin. rewrite key_ltb_irrefl in Hin. discriminate.
Qed.

Lemma in_map_fst_filter : forall (A : Type) (f : key * A -> bool) (W : list (key * A)) k,
  In k (map fst (filter f W)) -> In k (map fst W).
Proof.
  intros A f W k Hin. apply in_map_iff in Hin. destruct Hin as [c [Hc Hin]].
  apply filter_In in Hin. destruct Hin as [Hin _].
  apply in_map_iff. exists c. split; assumption.
Qed.

Lemma sk_filter : forall (A : Type) (f : key * A -> bool) (W : list (key * A)),
  sorted_keys (map fst W) = true -> sorted_keys (map fst (filter f W)) = true.
Proof.
  intros A f. induction W as [|c W IH]; intros Hs; cbn [filter map].
  - reflexivity.
  - cbn [map] in Hs. apply sk_cons_iff in Hs. destruct Hs as [Hlb Hs].
    destruct (f c).
    + cbn [map]. apply sk_cons_iff. split; [|apply IH; exact Hs].
      intros k' Hin. apply Hlb. eapply in_map_fst_filter. exact Hin.
    + apply IH. exact Hs.
Qed.

(* ---------- the two sides of a write list ---------- *)

Definition gside (b : bool) (d : nat) (W : wlist) : wlist :=
  filter (fun c => Bool.eqb (bit (fst c) d) b) W.

Lemma In_gside : forall b d (W : wlist) c,
  In c (gside b d W) <-> In c W /\ bit (fst c) d = b.
Proof.
  intros b d W c. unfold gside. rewrite filter_In. rewrite Bool.eqb_true_iff. tauto.
Qed.

(* writes below a position: sorted, n-bit keys, all with prefix p *)
Definition goodW (n d : nat) (p : key) (W : wlist) : Prop :=
  sorted_keys (map fst W) = true /\
  forall c, In c W -> length (fst c) = n /\ firstn d (fst c) = p.

Lemma goodW_tail : forall n d p c W, goodW n d p (c :: W) -> goodW n d p W.
Proof.
  intros n d p c W [Hs Hall]. split.
  - cbn [map] in Hs. apply sk_cons_iff in Hs. apply Hs.
  - intros c' Hin. apply Hall. right. exact Hin.
Qed.

Lemma gside_split : forall n d p (W : wlist), d < n -> goodW n d p W ->
  W = gside false d W ++ gside true d W.
Proof.
  intros n d p. induction W as [|[k o] W IH]; intros Hd Hg.
  - reflexivity.
  - pose proof (goodW_tail _ _ _ _ _ Hg) as HgW.
    destruct Hg as [Hs Hall]. cbn [map fst] in Hs.
    apply sk_cons_iff in Hs. destruct Hs as [Hlb Hs].
    unfold gside. cbn [filter fst].
    destruct (bit k d) eqn:Eb; cbn [Bool.eqb].
    + assert (Hallb : forall c, In c W -> bit (fst c) d = true).
      { intros [k' o'] Hin. cbn [fst].
        destruct (bit k' d) eqn:Eb'; [reflexivity|exfalso].
        assert (Hlt : key_ltb k k' = true).
        { apply Hlb. apply in_map_iff. exists (k', o'). split; [reflexivity|exact Hin]. }
        destruct (Hall (k, o)) as [L1 P1]; [left; reflexivity|].
        destruct (Hall (k', o')) as [L2 P2]; [right; exact Hin|].
        cbn [fst] in *.
        assert (Hf : key_ltb k k' = false).
        { apply (ltb_diverge d); try assumption; try lia. congruence. }
        rewrite Hf in Hlt. discriminate. }
      rewrite (filter_none _ _ W).
      * rewrite (filter_all _ _ W); [reflexivity|].
        intros c Hin. rewrite (Hallb c Hin). reflexivity.
      * intros c Hin. rewrite (Hallb c Hin). reflexivity.
    + cbn [app]. f_equal. apply IH; assumption.
Qed.

Lemma goodW_gside : forall n d p b (W : wlist), d < n -> goodW n d p W ->
  goodW n (S d) (p ++ [b]) (gside b d W).
Proof.
  intros n d p b W Hd [Hs Hall]. split.
  - unfold gside. apply sk_filter. exact Hs.
  - intros c Hin. apply In_gside in Hin. destruct Hin as [Hin Hb].
    destruct (Hall c Hin) as [Hl Hp]. split; [exact Hl|].
    rewrite firstn_S_bit by lia. rewrite Hp, Hb. reflexivity.
Qed.

(* ---------- lookup in a write list ---------- *)

Fixpoint wget (W : wlist) (k : key) : option (option value) :=
  match W with
  | [] => None
  | (k', o) :: W' => if key_eqb k' k then Some o else wget W' k
  end.

Lemma wget_None : forall W k, ~ In k (map fst W) -> wget W k = None.
Proof.
  induction W as [|[k1 o1] W IH]; intros k Hn; cbn [wget].
  - reflexivity.
  - cbn [map fst] in Hn. destruct (key_eqb k1 k) eqn:E.
    + apply key_eqb_true_iff in E. subst. exfalso. apply Hn. left. reflexivity.
    + apply IH. intros Hin. apply Hn. right. exact Hin.
Qed.

Lemma wget_app : forall A B k,
  wget (A ++ B) k = match wget A k with Some o => Some o | None => wget B k end.
Proof.
  induction A as [|[k1 o1] A IH]; intros B k; cbn [app wget].
  - reflexivity.
  - destruct (key_eqb k1 k); [reflexivity|apply IH].
Qed.

Lemma last_write_wget : forall (W : wlist) k, NoDup (map fst W) -> last_write W k = wget W k.
Proof.
  induction W as [|c W IH] using rev_ind; intros k Hnd.
  - reflexivity.
  - rewrite last_write_app1, wget_app.
    rewrite map_app in Hnd. cbn [map] in Hnd.
    apply NoDup_remove in Hnd. rewrite app_nil_r in Hnd. destruct Hnd as [Hnd Hnin].
    destruct c as [kc oc]. cbn [fst snd wget].
    destruct (key_eqb kc k) eqn:E.
    + apply key_eqb_true_iff in E. subst kc.
      rewrite (wget_None W k Hnin). reflexivity.
    + rewrite IH by exact Hnd. destruct (wget W k); reflexivity.
Qed.

Lemma wget_gside : forall b d W k,
  wget (gside b d W) k = if Bool.eqb (bit k d) b then wget W k else None.
Proof.
  intros b d. unfold gside. induction W as [|[k1 o1] W IH]; intros k; cbn [filter fst].
  - cbn [wget]. destruct (Bool.eqb (bit k d) b); reflexivity.
  - destruct (Bool.eqb (bit k1 d) b) eqn:E1; cbn [wget].
    + destruct (key_eqb k1 k) eqn:E.
      * apply key_eqb_true_iff in E. subst k1. rewrite E1. reflexivity.
      * apply IH.
    + destruct (key_eqb k1 k) eqn:E.
      * apply key_eqb_true_iff in E. subst k1. rewrite E1. rewrite IH, E1. reflexivity.
      * apply IH.
Qed.

Lemma get_side_other : forall L k d b, bit k d <> b -> get (side b d L) k = None.
Proof.
  intros L k d b Hb. apply get_None_not_In. intros v Hin.
  apply In_side in Hin. destruct Hin as [_ Hin]. contradiction.
Qed.

(* the updated set below a position: lookups go through the writes first *)
Definition upd_rel (Sp : kv) (Wp : wlist) (Sp' : kv) : Prop :=
  forall k, get Sp' k = match wget Wp k with Some w => w | None => get Sp k end.

Lemma upd_rel_side : forall b d Sp Wp Sp',
  upd_rel Sp Wp Sp' -> upd_rel (side b d Sp) (gside b d Wp) (side b d Sp').
Proof.
  intros b d Sp Wp Sp' HR k. rewrite wget_gside.
  destruct (Bool.eqb (bit k d) b) eqn:E.
  - apply Bool.eqb_prop in E. subst b. rewrite !get_side. apply HR.
  - assert (Hb : bit k d <> b).
    { intros Heq. subst b. rewrite Bool.eqb_reflx in E. discriminate. }
    rewrite !get_side_other by exact Hb. reflexivity.
Qed.

(* ---------- pairs below a position ---------- *)

Definition goodkv (n d : nat) (p : key) (L : kv) : Prop :=
  NoDup (map fst L) /\ forall k v, In (k, v) L -> length k = n /\ firstn d k = p.

Lemma goodkv_side : forall n d p b L, d < n -> goodkv n d p L ->
  goodkv n (S d) (p ++ [b]) (side b d L).
Proof.
  intros n d p b L Hd [Hnd Hall]. split.
  - apply NoDup_side. exact Hnd.
  - intros k v Hin. apply In_side in Hin. destruct Hin as [Hin Hb].
    destruct (Hall k v Hin) as [Hl Hp]. split; [exact Hl|].
    rewrite firstn_S_bit by lia. rewrite Hp, Hb. reflexivity.
Qed.

Lemma goodkv_agree : forall n d p L, goodkv n d p L -> agree d L.
Proof.
  intros n d p L [_ Hall] k v k' v' H1 H2.
  destruct (Hall k v H1) as [_ P1]. destruct (Hall k' v' H2) as [_ P2]. congruence.
Qed.

Lemma mk_untouched : forall n d p f b Sp Wp Sp',
  goodkv n d p Sp -> goodkv n d p Sp' -> upd_rel Sp Wp Sp' -> gside b d Wp = [] ->
  mk f (S d) (side b d Sp') = mk f (S d) (side b d Sp).
Proof.
  intros n d p f b Sp Wp Sp' [Hnd _] [Hnd' _] HR HW.
  apply mk_perm. apply NoDup_get_perm.
  - apply NoDup_side. exact Hnd'.
  - apply NoDup_side. exact Hnd.
  - intros k. pose proof (upd_rel_side b d _ _ _ HR k) as Hk.
    rewrite HW in Hk. exact Hk.
Qed.

(* ---------- shape of the canonical trie, compaction ---------- *)

Definition kindL (L : kv) : nkind :=
  match L with [] => KTerm | [_] => KLeaf | _ => KInt end.

Section Compact.
  Variable H : Hasher.
  Hypothesis HOK : HasherOK H.

  Lemma kind_hash_mk : forall f d L,
    NoDup (map fst L) -> (forall k v, In (k, v) L -> length k = d + f) -> agree d L ->
    kind H (hash H (mk f d L)) = kindL L.
  Proof.
    intros f d L Hnd Hlen Hag.
    destruct (kv_cases L) as [HL|[[k [v HL]]|HL]].
    - subst. rewrite mk_nil. apply (kind_term H HOK).
    - subst. rewrite mk_single. apply (kind_leaf H HOK).
    - destruct f as [|f].
      + exfalso. apply (no_fuel0 d L); try assumption.
        intros k v Hin. rewrite (Hlen k v Hin). lia.
      + rewrite (mk_ge2 f d L HL). cbn [hash]. rewrite (kind_int H HOK).
        destruct L as [|a [|b L]]; cbn [length] in HL; try lia. reflexivity.
  Qed.

  (* one step of the compaction loop: the node above [cur] (bit b) and its sibling *)
  Definition cnode (cur sib : node H) (b : bool) : node H :=
    match kind H cur, kind H sib with
    | KTerm, KTerm => cur
    | KLeaf, KTerm => cur
    | KTerm, KLeaf => sib
    | _, _ => if b then hint H sib cur else hint H cur sib
    end.

  Lemma cnode_big : forall cur sib b (A B : kv),
    kind H cur = kindL A -> kind H sib = kindL B -> 2 <= length A + length B ->
    cnode cur sib b = if b then hint H sib cur else hint H cur sib.
  Proof.
    intros cur sib b A B HA HB Hl. unfold cnode. rewrite HA, HB.
    destruct A as [|a [|a' A]]; destruct B as [|b0 [|b' B]]; cbn [kindL];
      cbn [length] in Hl; try lia; reflexivity.
  Qed.

  Lemma side_length : forall b d (L : kv),
    length (side b d L) + length (side (negb b) d L) = length L.
  Proof.
    intros b d. unfold side. induction L as [|[k v] L IH]; cbn [filter fst length].
    - reflexivity.
    - destruct (bit k d); destruct b; simpl in *; lia.
  Qed.

  Lemma cnode_mk : forall f d L b,
    NoDup (map fst L) -> (forall k v, In (k, v) L -> length k = d + S f) -> agree d L ->
    cnode (hash H (mk f (S d) (side b d L))) (hash H (mk f (S d) (side (negb b) d L))) b
    = hash H (mk (S f) d L).
  Proof.
    intros f d L b Hnd Hlen Hag.
    destruct (kv_cases L) as [HL|[[k [v HL]]|HL]].
    - subst. unfold side. cbn [filter]. rewrite !mk_nil. cbn [hash].
      unfold cnode. rewrite (kind_term H HOK). reflexivity.
    - subst. unfold side. cbn [filter fst]. rewrite mk_single.
      destruct (bit k d), b; cbn [Bool.eqb negb]; rewrite ?mk_nil, ?mk_single; cbn [hash];
        unfold cnode; rewrite (kind_term H HOK), (kind_leaf H HOK); reflexivity.
    - assert (Hlt : forall k v, In (k, v) L -> d < length k).
      { intros k v Hin. rewrite (Hlen k v Hin). lia. }
      assert (Hk : forall c, kind H (hash H (mk f (S d) (side c d L))) = kindL (side c d L)).
      { intros c. apply kind_hash_mk.
        - apply NoDup_side. exact Hnd.
        - intros k v Hin. apply In_side in Hin. destruct Hin as [Hin _].
          rewrite (Hlen k v Hin). lia.
        - apply agree_side; assumption. }
      rewrite (cnode_big _ _ b (side b d L) (side (negb b) d L)).
      + rewrite (mk_ge2 f d L HL). cbn [hash]. destruct b; reflexivity.
      + apply Hk.
      + apply Hk.
      + rewrite side_length. exact HL.
  Qed.
End Compact.

(* ---------- leaf_ops_spliced ---------- *)

Lemma live_cons_some : forall k v X, live_ops ((k, Some v) :: X) = (k, v) :: live_ops X.
Proof. reflexivity. Qed.
Lemma live_cons_none : forall k X, live_ops ((k, None) :: X) = live_ops X.
Proof. reflexivity. Qed.

Lemma In_live : forall X k v, In (k, v) (live_ops X) -> In (k, Some v) X.
Proof.
  induction X as [|[k1 [v1|]] X IH]; intros k v Hin.
  - destruct Hin.
  - rewrite live_cons_some in Hin. destruct Hin as [Heq|Hin].
    + inversion Heq; subst. left. reflexivity.
    + right. apply IH. exact Hin.
  - rewrite live_cons_none in Hin. right. apply IH. exact Hin.
Qed.

Lemma In_fst_live : forall X k, In k (map fst (live_ops X)) -> In k (map fst X).
Proof.
  intros X k Hin. apply in_map_iff in Hin. destruct Hin as [[k' v] [Hk Hin]].
  cbn [fst] in Hk. subst k'. apply In_live in Hin.
  apply in_map_iff. exists (k, Some v). split; [reflexivity|exact Hin].
Qed.

Lemma sorted_live : forall X,
  sorted_keys (map fst X) = true -> sorted_keys (map fst (live_ops X)) = true.
Proof.
  induction X as [|[k1 [v1|]] X IH]; intros Hs.
  - reflexivity.
  - cbn [map fst] in Hs. apply sk_cons_iff in Hs. destruct Hs as [Hlb Hs].
    rewrite live_cons_some. cbn [map fst]. apply sk_cons_iff. split; [|apply IH; exact Hs].
    intros k' Hin. apply Hlb. apply In_fst_live. exact Hin.
  - cbn [map fst] in Hs. apply sk_cons_iff in Hs. destruct Hs as [_ Hs].
    rewrite live_cons_none. apply IH. exact Hs.
Qed.

Lemma get_live : forall X k, NoDup (map fst X) ->
  get (live_ops X) k = match wget X k with Some (Some v) => Some v | _ => None end.
Proof.
  induction X as [|[k1 o1] X IH]; intros k Hnd.
  - reflexivity.
  - cbn [map fst] in Hnd. inversion Hnd as [|x l Hnin Hnd']; subst.
    cbn [wget]. destruct o1 as [v1|].
    + rewrite live_cons_some. cbn [get].
      destruct (key_eqb k1 k); [reflexivity|]. apply IH. exact Hnd'.
    + rewrite live_cons_none. rewrite IH by exact Hnd'.
      destruct (key_eqb k1 k) eqn:E; [|reflexivity].
      apply key_eqb_true_iff in E. subst k1.
      rewrite (wget_None X k Hnin). reflexivity.
Qed.

Lemma In_splice : forall lk lv X c, In c (splice lk lv X) -> c = (lk, Some lv) \/ In c X.
Proof.
  intros lk lv. induction X as [|[k1 o1] X IH]; intros c Hin; cbn [splice] in Hin.
  - destruct Hin as [Heq|[]]. left. symmetry. exact Heq.
  - destruct (key_eqb k1 lk).
    + right. exact Hin.
    + destruct (key_ltb lk k1).
      * destruct Hin as [Heq|Hin]; [left; symmetry; exact Heq|right; exact Hin].
      * destruct Hin as [Heq|Hin]; [right; left; exact Heq|].
        apply IH in Hin. destruct Hin as [Heq|Hin]; [left; exact Heq|right; right; exact Hin].
Qed.

Lemma sorted_splice : forall lk lv X,
  sorted_keys (map fst X) = true -> sorted_keys (map fst (splice lk lv X)) = true.
Proof.
  intros lk lv. induction X as [|[k1 o1] X IH]; intros Hs; cbn [splice].
  - reflexivity.
  - destruct (key_eqb k1 lk) eqn:Eeq; [exact Hs|].
    destruct (key_ltb lk k1) eqn:Elt.
    + cbn [map fst]. cbn [map fst] in Hs. apply sk_cons_iff. split; [|exact Hs].
      apply sk_cons_iff in Hs. destruct Hs as [Hlb _].
      intros k' [Heq|Hin]; [subst; exact Elt|].
      eapply key_ltb_trans; [exact Elt|]. apply Hlb. exact Hin.
    + cbn [map fst] in Hs. apply sk_cons_iff in Hs. destruct Hs as [Hlb Hs].
      cbn [map fst]. apply sk_cons_iff. split; [|apply IH; exact Hs].
      intros k' Hin. apply in_map_iff in Hin. destruct Hin as [c [Hc Hin]].
      apply In_splice in Hin. destruct Hin as [Heq|Hin].
      * subst c. cbn [fst] in Hc. subst k'.
        destruct (key_trichotomy k1 lk) as [Hl|[He|Hg]].
        -- exact Hl.
        -- subst. rewrite key_eqb_refl in Eeq. discriminate.
        -- rewrite Hg in Elt. discriminate.
      * apply Hlb. apply in_map_iff. exists c. split; assumption.
Qed.

Lemma wget_splice : forall lk lv X k, sorted_keys (map fst X) = true ->
  wget (splice lk lv X) k =
  if key_eqb lk k
  then match wget X k with Some w => Some w | None => Some (Some lv) end
  else wget X k.
Proof.
  intros lk lv. induction X as [|[k1 o1] X IH]; intros k Hs; cbn [splice].
  - cbn [wget]. destruct (key_eqb lk k); reflexivity.
  - destruct (key_eqb k1 lk) eqn:Eeq.
    + apply key_eqb_true_iff in Eeq. subst k1. cbn [wget].
      destruct (key_eqb lk k); reflexivity.
    + destruct (key_ltb lk k1) eqn:Elt.
      * change (wget ((lk, Some lv) :: (k1, o1) :: X) k)
          with (if key_eqb lk k then Some (Some lv) else wget ((k1, o1) :: X) k).
        destruct (key_eqb lk k) eqn:E; [|reflexivity].
        apply key_eqb_true_iff in E. subst k.
        rewrite wget_None; [reflexivity|].
        intros Hin. cbn [map fst] in Hs, Hin. apply sk_cons_iff in Hs. destruct Hs as [Hlb _].
        destruct Hin as [Heq|Hin].
        -- subst k1. rewrite key_ltb_irrefl in Elt. discriminate.
        -- apply Hlb in Hin.
           pose proof (key_ltb_trans _ _ _ Elt Hin) as Hc.
           rewrite key_ltb_irrefl in Hc. discriminate.
      * cbn [map fst] in Hs. apply sk_cons_iff in Hs. destruct Hs as [_ Hs].
        cbn [wget]. rewrite IH by exact Hs.
        destruct (key_eqb k1 k) eqn:E1; [|reflexivity].
        destruct (key_eqb lk k); reflexivity.
Qed.
