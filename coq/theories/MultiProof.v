(* Mirror of core/src/proof/multi_proof.rs, first half: MultiPathProof, MultiProof,
   MultiProof::from_path_proofs (with PathProofRange::{prove_unique_path_remainder, step}),
   verify / verify_range and the VerifiedMultiProof queries.  Models only, no proofs.

   Every Rust panic site is an explicit [Panic] outcome (the Rust line is quoted next to it).
   Line numbers refer to /repo/core/src/proof/multi_proof.rs at commit d984855 (the fix that
   makes verify_range return Malformed instead of panicking).

   Modelling choices (see also the comments in place):
   * [Vec]s that are only pushed to ([paths], [siblings], [verified_paths],
     [verified_bisections], [common_siblings] of from_path_proofs) are lists in Rust order
     (push = [++ [x]]), so that Rust indices are [nth_error] indices.  Stacks that are only
     pushed/popped at the end ([stack] of from_path_proofs) have their top at the head.
   * A [KeyPath] argument is a [key]; slicing it is checked against its actual length (which is
     KEYLEN = 256 bits for every key the harness can build), so KEYLEN itself does not occur in
     this file: the definitions below do not take it as an argument after the section is closed.
   * [binary_search_by] mirrors the branch-free loop of the installed toolchain
     (library/core/src/slice/mod.rs, Rust >= 1.82; checked against the installed rust-src), because
     all three predicates of this file index [path()[i]] / slice [..depth] and can therefore panic
     depending on which elements are probed, and [find_index_for]'s predicate can be non-monotone
     on hand-made inputs. *)
From Nomt Require Import Base Hash Trie Result PathProof.

(* ------------------------------------------------------------------------------------------ *)
(* Panicking primitives of Rust                                                                *)

(* x[i] : panics when i >= len *)
Definition nth_res {E A : Type} (l : list A) (i : nat) : res E A :=
  match nth_error l i with Some x => Ok x | None => Panic end.

(* x[a..b] : panics when a > b or b > len *)
Definition slice_res {E A : Type} (l : list A) (a b : nat) : res E (list A) :=
  if Nat.ltb b a then Panic
  else if Nat.ltb (length l) b then Panic
  else Ok (firstn (b - a) (skipn a l)).

(* x[a..] : panics when a > len *)
Definition slice_from_res {E A : Type} (l : list A) (a : nat) : res E (list A) :=
  if Nat.ltb (length l) a then Panic else Ok (skipn a l).

(* x[..b] : panics when b > len *)
Definition slice_to_res {E A : Type} (l : list A) (b : nat) : res E (list A) :=
  if Nat.ltb (length l) b then Panic else Ok (firstn b l).

(* a - b on usize with overflow checks: panics when b > a.  Additions are plain [+] on nat:
   overflow of usize additions near 2^64 is ignored. *)
Definition sub_res {E : Type} (a b : nat) : res E nat :=
  if Nat.ltb a b then Panic else Ok (a - b).

(* monadic bind of [res]; exported, MultiUpdate.v uses it too.  Patterns are written without
   the quote: [do (a, b) <- e ;; f]. *)
Notation "'do' x <- e ;; f" := (bind e (fun x => f))
  (at level 200, x pattern, e at level 100, f at level 200, right associativity).

(* PathProofTerminal::path(): the 256 key bits of a leaf, the [depth] bits of a terminator's
   TriePosition *)
Definition term_path (t : terminal) : key :=
  match t with TLeaf k _ => k | TTerm p => p end.

(* PathProofTerminal::as_leaf_option() *)
Definition as_leaf_option (t : terminal) : option (key * value) :=
  match t with TLeaf k v => Some (k, v) | TTerm _ => None end.

(* BitSlice::cmp on two slices (lexicographic, a strict prefix is smaller) *)
Definition key_cmp (a b : key) : comparison :=
  if key_eqb a b then Eq else if key_ltb a b then Lt else Gt.

(* ------------------------------------------------------------------------------------------ *)
(* <[T]>::binary_search_by, branch-free version:

     let mut size = self.len();
     if size == 0 { return Err(0); }
     let mut base = 0usize;
     while size > 1 {
         let half = size / 2;
         let mid = base + half;
         let cmp = f(unsafe { self.get_unchecked(mid) });
         base = if cmp == Greater { base } else { mid };
         size -= half;
     }
     let cmp = f(unsafe { self.get_unchecked(base) });
     if cmp == Equal { Ok(base) } else { Err(base + (cmp == Less) as usize) }

   The comparison function may panic, hence it returns a [res].  Ordering::{Less,Equal,Greater}
   is Coq's [comparison] {Lt,Eq,Gt}. *)
Inductive search_result := Found (i : nat) | NotFound (i : nat).   (* Ok(i) | Err(i) *)

Section BinarySearch.
  Context {E A : Type}.
  Variable f : A -> res E comparison.
  Variable slice : list A.

  Fixpoint binary_search_loop (fuel size base : nat) : res E nat :=
    if Nat.leb size 1 then Ok base
    else
      match fuel with
      | O => Panic   (* unreachable: [size] at least halves (rounding up) per iteration and fuel = len + 1 *)
      | S fuel' =>
          let half := Nat.div2 size in
          let mid := base + half in
          (* get_unchecked(mid): always in range, the [Panic] of nth_res is unreachable *)
          do x <- nth_res slice mid ;;
          do cmp <- f x ;;
          let base' := match cmp with Gt => base | _ => mid end in
          binary_search_loop fuel' (size - half) base'
      end.

  Definition binary_search_by : res E search_result :=
    match slice with
    | [] => Ok (NotFound 0)
    | _ :: _ =>
        do base <- binary_search_loop (S (length slice)) (length slice) 0 ;;
        do x <- nth_res slice base ;;     (* get_unchecked(base): always in range *)
        do cmp <- f x ;;
        Ok (match cmp with
            | Eq => Found base
            | Lt => NotFound (base + 1)
            | Gt => NotFound base
            end)
    end.
End BinarySearch.

(* Result::unwrap_err() : panics on Ok *)
Definition unwrap_err {E : Type} (r : search_result) : res E nat :=
  match r with NotFound i => Ok i | Found _ => Panic end.

Section WithHasher.
  Variable H : Hasher.
  Variable KEYLEN : nat.   (* 256; not referred to in this file, see the header *)

  (* ---------------------------------------------------------------------------------------- *)
  (* :27 MultiPathProof, :41 MultiProof                                                        *)
  Record multi_path_proof := { mpp_terminal : terminal; mpp_depth : nat }.
  Record multi_proof := { mp_paths : list multi_path_proof; mp_siblings : list (node H) }.

  (* :64 PathProofRange, :74 PathProofRangeStep *)
  Record path_proof_range := { ppr_lower : nat; ppr_upper : nat; ppr_path_bit_index : nat }.
  Inductive path_proof_range_step :=
  | Bisect (l r : path_proof_range)
  | Advance (sibling : node H).

  Inductive no_err := .   (* from_path_proofs has no error value, it can only panic *)

  (* :85 PathProofRange::prove_unique_path_remainder *)
  Definition prove_unique_path_remainder (self : path_proof_range) (path_proofs : list (path_proof H))
    : res no_err (option (multi_path_proof * list (node H))) :=
    (* :91 [self.upper - 1] : usize underflow when upper = 0 (range {0,0} after a degenerate bisection) *)
    do upper_m1 <- sub_res (ppr_upper self) 1 ;;
    if negb (Nat.eqb (ppr_lower self) upper_m1) then Ok None
    else
      (* :95 [path_proofs[self.lower]] *)
      do path_proof <- nth_res path_proofs (ppr_lower self) ;;
      (* :96 .iter().skip(path_bit_index) never panics *)
      let unique_siblings := skipn (ppr_path_bit_index self) (pp_siblings path_proof) in
      Ok (Some ({| mpp_terminal := pp_terminal path_proof;
                   mpp_depth := ppr_path_bit_index self + length unique_siblings |},
                unique_siblings)).

  (* :112 PathProofRange::step.  [&mut self]: the updated range is returned with the step. *)
  Definition step (self : path_proof_range) (path_proofs : list (path_proof H))
    : res no_err (path_proof_range * path_proof_range_step) :=
    let idx := ppr_path_bit_index self in
    (* :118 [path_proofs[self.lower]] *)
    do pp_lower <- nth_res path_proofs (ppr_lower self) ;;
    let path_lower := term_path (pp_terminal pp_lower) in
    (* :119 [path_proofs[self.upper - 1]] : underflow, index *)
    do upper_m1 <- sub_res (ppr_upper self) 1 ;;
    do pp_upper <- nth_res path_proofs upper_m1 ;;
    let path_upper := term_path (pp_terminal pp_upper) in
    (* :121 [path_lower[self.path_bit_index]], [path_upper[self.path_bit_index]] *)
    do bit_lower <- nth_res path_lower idx ;;
    do bit_upper <- nth_res path_upper idx ;;
    if negb (Bool.eqb bit_lower bit_upper) then
      (* :134 [path_proofs[self.lower..self.upper]] *)
      do slice <- slice_res path_proofs (ppr_lower self) (ppr_upper self) ;;
      (* :135 binary_search_by; the closure indexes [path()[self.path_bit_index]] (:136) *)
      do search_result <-
         binary_search_by
           (fun path_proof : path_proof H =>
              do b <- nth_res (term_path (pp_terminal path_proof)) idx ;;
              Ok (if negb b then Lt else Gt))
           slice ;;
      (* :142 .unwrap_err() : never Ok because the closure never returns Equal *)
      do e <- unwrap_err search_result ;;
      let mid := ppr_lower self + e in
      let l := {| ppr_path_bit_index := idx + 1; ppr_lower := ppr_lower self; ppr_upper := mid |} in
      let r := {| ppr_path_bit_index := idx + 1; ppr_lower := mid; ppr_upper := ppr_upper self |} in
      Ok (self, Bisect l r)
    else
      (* :159 [path_proofs[self.lower].siblings[self.path_bit_index]] *)
      do sibling <- nth_res (pp_siblings pp_lower) idx ;;
      Ok ({| ppr_lower := ppr_lower self; ppr_upper := ppr_upper self; ppr_path_bit_index := idx + 1 |},
          Advance sibling).

  (* :230 the [loop] of from_path_proofs.  [stack]: top at the head.
     Fuel: every iteration handles one (range, path_bit_index) state.  States with the same
     path_bit_index have pairwise disjoint ranges, path_bit_index never exceeds the longest path
     (indexing the path panics otherwise), and the first empty range that is worked on panics after
     at most (longest path + 1) further iterations; hence at most (n + 1) * (L + 3) iterations. *)
  Fixpoint from_path_proofs_loop (fuel : nat) (path_proofs : list (path_proof H))
           (paths : list multi_path_proof) (siblings : list (node H))
           (proof_range : path_proof_range) (common_siblings : list (node H))
           (stack : list path_proof_range) : res no_err multi_proof :=
    match fuel with
    | O => Panic   (* out of fuel: unreachable by the bound above *)
    | S fuel' =>
        do unique <- prove_unique_path_remainder proof_range path_proofs ;;
        match unique with
        | Some (sub_path_proof, unique_siblings) =>
            let paths := paths ++ [sub_path_proof] in
            let siblings := siblings ++ unique_siblings in
            match common_siblings with
            | _ :: _ => Panic    (* :239 assert!(common_siblings.is_empty()) *)
            | [] =>
                match stack with
                | v :: stack' =>
                    from_path_proofs_loop fuel' path_proofs paths siblings v [] stack'
                | [] => Ok {| mp_paths := paths; mp_siblings := siblings |}
                end
            end
        | None =>
            do st <- step proof_range path_proofs ;;
            match st with
            | (_, Bisect l r) =>
                (* :255 siblings.extend(common_siblings.drain(..)) *)
                from_path_proofs_loop fuel' path_proofs paths (siblings ++ common_siblings)
                                      l [] (r :: stack)
            | (proof_range', Advance sibling) =>
                from_path_proofs_loop fuel' path_proofs paths siblings
                                      proof_range' (common_siblings ++ [sibling]) stack
            end
        end
    end.

  Definition max_path_len {A : Type} (path_of : A -> key) (l : list A) : nat :=
    fold_right (fun x m => Nat.max (length (path_of x)) m) 0 l.

  (* :172 MultiProof::from_path_proofs *)
  Definition from_path_proofs (path_proofs : list (path_proof H)) : res no_err multi_proof :=
    match path_proofs with
    | [] => Ok {| mp_paths := []; mp_siblings := [] |}
    | _ :: _ =>
        let fuel := S (length path_proofs)
                    * (max_path_len (fun p : path_proof H => term_path (pp_terminal p)) path_proofs + 3) in
        from_path_proofs_loop fuel path_proofs [] []
          {| ppr_path_bit_index := 0; ppr_lower := 0; ppr_upper := length path_proofs |} [] []
    end.

  (* ---------------------------------------------------------------------------------------- *)
  (* :271 MultiProofVerificationError (prefixed: PathProof.v already has RootMismatch ...)     *)
  Inductive multi_proof_verification_error :=
  | MultiRootMismatch | MultiPathsOutOfOrder | MultiTooManySiblings | MultiMalformed.

  (* :284 VerifiedMultiPath, :292 VerifiedBisection, :300 VerifiedMultiProof.
     [Range<usize>] fields are split into start / end. *)
  Record verified_multi_path := {
    vm_terminal : terminal;
    vm_depth : nat;
    vm_unique_siblings_start : nat;
    vm_unique_siblings_end : nat
  }.
  Record verified_bisection := {
    vb_start_depth : nat;
    vb_common_siblings_start : nat;
    vb_common_siblings_end : nat
  }.
  Record verified_multi_proof := {
    vmp_inner : list verified_multi_path;
    vmp_bisections : list verified_bisection;
    vmp_siblings : list (node H);
    vmp_root : node H
  }.

  (* :463 verify_range (after the fix d984855: structurally inconsistent ranges are reported as
     Err Malformed).  [verified_paths] / [verified_bisections] (&mut Vec) are threaded through
     and returned.
     Fuel bounds the recursion DEPTH: start_depth grows by at least one per level and a call with
     two or more paths returns Malformed once start_depth exceeds the first path's length, calls
     with zero or one path do not recurse; so the depth is at most (longest path + 1). *)
  Fixpoint verify_range (fuel : nat) (start_depth : nat) (paths : list multi_path_proof)
           (siblings : list (node H)) (sibling_offset : nat)
           (verified_paths : list verified_multi_path) (verified_bisections : list verified_bisection)
    : res multi_proof_verification_error
          (node H * nat * list verified_multi_path * list verified_bisection) :=
    match fuel with
    | O => Panic   (* out of fuel: unreachable by the bound above *)
    | S fuel' =>
        match paths with
        | [] =>
            (* :473 *)
            Ok (TERM H, 0,
                verified_paths ++ [{| vm_terminal := TTerm []; vm_depth := 0;
                                      vm_unique_siblings_start := 0; vm_unique_siblings_end := 0 |}],
                verified_bisections)
        | [terminal_path] =>
            let path := term_path (mpp_terminal terminal_path) in
            (* :487 *)
            if Nat.ltb (mpp_depth terminal_path) start_depth
               || Nat.ltb (length path) (mpp_depth terminal_path)
            then Err MultiMalformed
            else
            (* :492 [terminal_path.depth - start_depth] : cannot underflow after :487 *)
            do unique_len <- sub_res (mpp_depth terminal_path) start_depth ;;
            (* :493 *)
            if Nat.ltb (length siblings) unique_len then Err MultiMalformed
            else
            (* :499 [path()[start_depth..start_depth + unique_len]] : in range after :487 *)
            do bits <- slice_res path start_depth (start_depth + unique_len) ;;
            (* :500 [siblings[..unique_len]] : in range after :493 *)
            do sibs <- slice_to_res siblings unique_len ;;
            let node := hash_path H (terminal_node H (mpp_terminal terminal_path)) bits (rev sibs) in
            Ok (node, unique_len,
                verified_paths ++ [{| vm_terminal := mpp_terminal terminal_path;
                                      vm_depth := mpp_depth terminal_path;
                                      vm_unique_siblings_start := sibling_offset;
                                      vm_unique_siblings_end := sibling_offset + unique_len |}],
                verified_bisections)
        | start_path :: _ =>
            (* :516 [paths[paths.len() - 1]] : in range, paths is not empty *)
            do end_path <- nth_res paths (length paths - 1) ;;
            let start_bits := term_path (mpp_terminal start_path) in
            let end_bits := term_path (mpp_terminal end_path) in
            (* :518 *)
            if Nat.ltb (length start_bits) start_depth || Nat.ltb (length end_bits) start_depth
            then Err MultiMalformed
            else
            (* :524, :525 [path()[start_depth..]] : in range after :518 *)
            do a <- slice_from_res start_bits start_depth ;;
            do b <- slice_from_res end_bits start_depth ;;
            let common_bits := common a b in
            let common_len := start_depth + common_bits in
            (* :532 *)
            if existsb (fun path => Nat.leb (length (term_path (mpp_terminal path))) common_len) paths
               || Nat.ltb (length siblings) common_bits
            then Err MultiMalformed
            else
            let uncommon_start_len := common_len + 1 in
            (* :543 binary_search_by; the closure indexes [path()[uncommon_start_len - 1]] (:544),
               in range after :532 *)
            do search_result <-
               binary_search_by
                 (fun item : multi_path_proof =>
                    do bit <- nth_res (term_path (mpp_terminal item)) (uncommon_start_len - 1) ;;
                    Ok (if negb bit then Lt else Gt))
                 paths ;;
            (* :555 .unwrap_err() : never Ok because the closure never returns Equal *)
            do bisect_idx <- unwrap_err search_result ;;
            (* :558 *)
            if Nat.eqb bisect_idx 0 || Nat.eqb bisect_idx (length paths) then Err MultiMalformed
            else
            let verified_bisections :=
              if Nat.ltb 0 common_bits
              then verified_bisections ++
                   [{| vb_start_depth := start_depth;
                       vb_common_siblings_start := sibling_offset;
                       vb_common_siblings_end := sibling_offset + common_bits |}]
              else verified_bisections in
            (* :575 [paths[..bisect_idx]] (always in range), :576 [siblings[common_bits..]] (in range after :532) *)
            do paths_left <- slice_to_res paths bisect_idx ;;
            do siblings_left <- slice_from_res siblings common_bits ;;
            do left_res <- verify_range fuel' uncommon_start_len paths_left siblings_left
                                        (sibling_offset + common_bits)
                                        verified_paths verified_bisections ;;
            let '(left_node, left_siblings_used, verified_paths, verified_bisections) := left_res in
            (* :585 [paths[bisect_idx..]], :586 [siblings[common_bits + left_siblings_used..]]
               (a range never uses more siblings than it was given) *)
            do paths_right <- slice_from_res paths bisect_idx ;;
            do siblings_right <- slice_from_res siblings (common_bits + left_siblings_used) ;;
            do right_res <- verify_range fuel' uncommon_start_len paths_right siblings_right
                                         (sibling_offset + common_bits + left_siblings_used)
                                         verified_paths verified_bisections ;;
            let '(right_node, right_siblings_used, verified_paths, verified_bisections) := right_res in
            let total_siblings_used := common_bits + left_siblings_used + right_siblings_used in
            (* :599 [path()[start_depth..common_len]], :600 [siblings[..common_bits]] : both in range here *)
            do bits <- slice_res start_bits start_depth common_len ;;
            do sibs <- slice_to_res siblings common_bits ;;
            let node := hash_path H (hint H left_node right_node) bits (rev sibs) in
            Ok (node, total_siblings_used, verified_paths, verified_bisections)
        end
    end.

  (* :428 the ordering check of verify: [path.terminal.path() <= paths[i - 1].terminal.path()] *)
  Fixpoint paths_out_of_order (prev : option key) (paths : list multi_path_proof) : bool :=
    match paths with
    | [] => false
    | path :: paths' =>
        let p := term_path (mpp_terminal path) in
        match prev with
        | Some q => if negb (key_ltb q p) then true else paths_out_of_order (Some p) paths'
        | None => paths_out_of_order (Some p) paths'
        end
    end.

  (* :422 verify *)
  Definition verify (multi_proof : multi_proof) (root : node H)
    : res multi_proof_verification_error verified_multi_proof :=
    if paths_out_of_order None (mp_paths multi_proof) then Err MultiPathsOutOfOrder
    else
      let fuel := length (mp_paths multi_proof)
                  + max_path_len (fun p => term_path (mpp_terminal p)) (mp_paths multi_proof) + 2 in
      do r <- verify_range fuel 0 (mp_paths multi_proof) (mp_siblings multi_proof) 0 [] [] ;;
      let '(new_root, siblings_used, verified_paths, verified_bisections) := r in
      if negb (node_eqb H root new_root) then Err MultiRootMismatch
      else if negb (Nat.eqb siblings_used (length (mp_siblings multi_proof))) then Err MultiTooManySiblings
      else Ok {| vmp_inner := verified_paths;
                 vmp_bisections := verified_bisections;
                 vmp_siblings := mp_siblings multi_proof;
                 vmp_root := root |}.

  (* ---------------------------------------------------------------------------------------- *)
  (* VerifiedMultiProof queries.  KeyOutOfScope is PathProof.out_of_scope.                      *)

  (* :312 find_index_for.  The closure slices [v.terminal.path()[..v.depth]] and
     [key_path[..v.depth]] (:314), both can panic. *)
  Definition find_index_for (self : verified_multi_proof) (key_path : key) : res out_of_scope nat :=
    do search_result <-
       binary_search_by
         (fun v : verified_multi_path =>
            do a <- slice_to_res (term_path (vm_terminal v)) (vm_depth v) ;;
            do b <- slice_to_res key_path (vm_depth v) ;;
            Ok (key_cmp a b))
         (vmp_inner self) ;;
    match search_result with
    | Found i => Ok i
    | NotFound _ => Err KeyOutOfScope
    end.

  (* :402 confirm_nonexistence_inner *)
  Definition confirm_nonexistence_inner (self : verified_multi_proof) (key_path : key) (index : nat)
    : res out_of_scope bool :=
    do p <- nth_res (vmp_inner self) index ;;   (* :403 [self.inner[index]] *)
    Ok (match vm_terminal p with
        | TTerm _ => true
        | TLeaf k _ => negb (key_eqb k key_path)
        end).

  (* :410 confirm_value_inner; LeafData is the pair (key_path, value_hash) *)
  Definition confirm_value_inner (self : verified_multi_proof) (expected_leaf : key * value) (index : nat)
    : res out_of_scope bool :=
    do p <- nth_res (vmp_inner self) index ;;   (* :411 [self.inner[index]] *)
    Ok (match vm_terminal p with
        | TTerm _ => false
        | TLeaf k v => key_eqb k (fst expected_leaf) && N.eqb v (snd expected_leaf)
        end).

  (* :327 *)
  Definition confirm_nonexistence (self : verified_multi_proof) (key_path : key) : res out_of_scope bool :=
    do index <- find_index_for self key_path ;;
    confirm_nonexistence_inner self key_path index.

  (* :339 *)
  Definition confirm_value (self : verified_multi_proof) (expected_leaf : key * value) : res out_of_scope bool :=
    do index <- find_index_for self (fst expected_leaf) ;;
    confirm_value_inner self expected_leaf index.

  (* :361-360 the scope test shared by the two _with_index functions *)
  Definition in_scope_with_index (self : verified_multi_proof) (key_path : key) (index : nat)
    : res out_of_scope bool :=
    do path <- nth_res (vmp_inner self) index ;;                               (* :361 / :389 [self.inner[index]] *)
    let depth := vm_depth path in
    do a <- slice_to_res (term_path (vm_terminal path)) depth ;;               (* :363 / :392 [path()[..depth]] *)
    do b <- slice_to_res key_path depth ;;                                     (* :363 / :392 [key_path[..depth]] *)
    Ok (key_eqb a b).

  (* :356 *)
  Definition confirm_nonexistence_with_index (self : verified_multi_proof) (key_path : key) (index : nat)
    : res out_of_scope bool :=
    do in_scope <- in_scope_with_index self key_path index ;;
    if in_scope then confirm_nonexistence_inner self key_path index else Err KeyOutOfScope.

  (* :384 *)
  Definition confirm_value_with_index (self : verified_multi_proof) (expected_leaf : key * value) (index : nat)
    : res out_of_scope bool :=
    do in_scope <- in_scope_with_index self (fst expected_leaf) index ;;
    if in_scope then confirm_value_inner self expected_leaf index else Err KeyOutOfScope.
End WithHasher.

Arguments mp_paths {H}. Arguments mp_siblings {H}.
Arguments Bisect {H}. Arguments Advance {H}.
Arguments vmp_inner {H}. Arguments vmp_bisections {H}. Arguments vmp_siblings {H}. Arguments vmp_root {H}.

(* ------------------------------------------------------------------------------------------ *)
(* Replays of unit tests of multi_proof.rs with the free hasher and 8-bit keys                  *)
Module MultiProofExamples.
  Definition k (bits : list nat) : key := map (fun b => Nat.eqb b 1) bits.
  Definition o (i : N) : node FreeH := FO KInt i.           (* the opaque sibling [i; 32] *)
  Definition term (p : key) : terminal := TTerm p.          (* Terminator(from_path_and_depth(p, 256)) *)
  Definition pp (t : terminal) (s : list (node FreeH)) : path_proof FreeH :=
    {| pp_terminal := t; pp_siblings := s |}.
  Definition mpp (t : terminal) (d : nat) := {| mpp_terminal := t; mpp_depth := d |}.
  Definition mp (p : list multi_path_proof) (s : list (node FreeH)) : multi_proof FreeH :=
    {| mp_paths := p; mp_siblings := s |}.

  (* test_multiproof_creation_single_path_proof *)
  Example creation_single_path_proof :
    from_path_proofs FreeH [pp (term (k [1;0;0;0;0;0;0;0])) [o 1; o 2]]
    = Ok (mp [mpp (term (k [1;0;0;0;0;0;0;0])) 2] [o 1; o 2]).
  Proof. vm_compute. reflexivity. Qed.

  (* test_multiproof_creation_two_path_proofs *)
  Definition key_path_1 := k [0;0;0;0;0;0;0;0].
  Definition key_path_2 := k [0;0;1;1;1;0;0;0].
  Example creation_two_path_proofs :
    from_path_proofs FreeH
      [pp (term key_path_1) [o 1; o 2; o 120; o 3; o 4];
       pp (term key_path_2) [o 1; o 2; o 120; o 5; o 6]]
    = Ok (mp [mpp (term key_path_1) 5; mpp (term key_path_2) 5] [o 1; o 2; o 3; o 4; o 5; o 6]).
  Proof. vm_compute. reflexivity. Qed.

  (* test_multiproof_creation_multiple_path_proofs *)
  Definition m1 := k [0;0;0;0;0;0;0;0].
  Definition m2 := k [0;1;0;0;0;0;0;0].
  Definition m3 := k [0;1;0;0;1;1;0;0].
  Definition m4 := k [1;1;1;0;1;1;0;0].
  Definition m5 := k [1;1;1;1;0;1;0;0].
  Definition m6 := k [1;1;1;1;1;0;0;0].
  Example creation_multiple_path_proofs :
    from_path_proofs FreeH
      [pp (term m1) [o 1; o 2];
       pp (term m2) [o 1; o 3; o 4; o 5; o 6; o 7];
       pp (term m3) [o 1; o 3; o 4; o 5; o 8; o 9];
       pp (term m4) [o 10; o 11; o 12; o 13; o 14; o 15];
       pp (term m5) [o 10; o 11; o 12; o 16; o 17; o 18];
       pp (term m6) [o 10; o 11; o 12; o 16; o 19]]
    = Ok (mp [mpp (term m1) 2; mpp (term m2) 6; mpp (term m3) 6;
              mpp (term m4) 6; mpp (term m5) 6; mpp (term m6) 5]
             [o 4; o 5; o 7; o 9; o 11; o 12; o 14; o 15; o 18]).
  Proof. vm_compute. reflexivity. Qed.

  (* malformed: unsorted path proofs make the bisection degenerate; the range {0,0} then
     underflows [self.upper - 1] (:91) *)
  Example creation_unsorted_panics :
    from_path_proofs FreeH [pp (term (k [1;0])) [o 1; o 2]; pp (term (k [0;0])) [o 1; o 2]] = Panic.
  Proof. vm_compute. reflexivity. Qed.

  (* malformed: two equal paths run off the end of the path (:121) *)
  Example creation_duplicate_panics :
    from_path_proofs FreeH [pp (term (k [1;0])) [o 1; o 2]; pp (term (k [1;0])) [o 1; o 2]] = Panic.
  Proof. vm_compute. reflexivity. Qed.

  (* multi_proof_failure_empty_witness / multi_proof_verify_empty *)
  Example verify_empty :
    bind (from_path_proofs FreeH []) (fun m => Ok (verify FreeH m FT))
    = Ok (Ok {| vmp_inner := [{| vm_terminal := TTerm []; vm_depth := 0;
                                 vm_unique_siblings_start := 0; vm_unique_siblings_end := 0 |}];
                vmp_bisections := []; vmp_siblings := []; vmp_root := FT : node FreeH |}).
  Proof. vm_compute. reflexivity. Qed.

  (* test_verify_multiproof_two_leafs
         root
         /  \
        s3   v1
       / \
      v0  v2                                                                                  *)
  Definition key_path_0' := k [0;0;0;0;0;0;0;0].
  Definition key_path_1' := k [1;0;0;0;0;0;0;0].
  Definition key_path_2' := k [0;1;0;0;0;0;0;0].
  Definition v0 : node FreeH := FL key_path_0' 0%N.
  Definition v1 : node FreeH := FL key_path_1' 1%N.
  Definition v2 : node FreeH := FL key_path_2' 2%N.
  Definition s3 : node FreeH := FI v0 v2.
  Definition root : node FreeH := FI s3 v1.
  Definition two_leafs_proofs :=
    [pp (TLeaf key_path_0' 0%N) [v1; v2]; pp (TLeaf key_path_1' 1%N) [s3]].

  Example two_leafs_multi_proof :
    from_path_proofs FreeH two_leafs_proofs
    = Ok (mp [mpp (TLeaf key_path_0' 0%N) 2; mpp (TLeaf key_path_1' 1%N) 1] [v2]).
  Proof. vm_compute. reflexivity. Qed.

  Definition two_leafs_verified : verified_multi_proof FreeH :=
    {| vmp_inner := [{| vm_terminal := TLeaf key_path_0' 0%N; vm_depth := 2;
                        vm_unique_siblings_start := 0; vm_unique_siblings_end := 1 |};
                     {| vm_terminal := TLeaf key_path_1' 1%N; vm_depth := 1;
                        vm_unique_siblings_start := 1; vm_unique_siblings_end := 1 |}];
       vmp_bisections := []; vmp_siblings := [v2]; vmp_root := root |}.

  Example two_leafs_verify :
    verify FreeH (mp [mpp (TLeaf key_path_0' 0%N) 2; mpp (TLeaf key_path_1' 1%N) 1] [v2]) root
    = Ok two_leafs_verified.
  Proof. vm_compute. reflexivity. Qed.

  Example two_leafs_confirm :
    (confirm_value FreeH two_leafs_verified (key_path_0', 0%N),
     confirm_value FreeH two_leafs_verified (key_path_1', 1%N),
     confirm_value FreeH two_leafs_verified (key_path_1', 7%N),
     confirm_nonexistence FreeH two_leafs_verified (k [1;0;1;0;0;0;0;0]),
     confirm_nonexistence FreeH two_leafs_verified key_path_2',
     confirm_value_with_index FreeH two_leafs_verified (key_path_0', 0%N) 0,
     confirm_value_with_index FreeH two_leafs_verified (key_path_0', 0%N) 1,
     confirm_nonexistence_with_index FreeH two_leafs_verified key_path_0' 2)
    = (Ok true, Ok true, Ok false, Ok true, Err KeyOutOfScope, Ok true, Err KeyOutOfScope, Panic).
  Proof. vm_compute. reflexivity. Qed.

  Example two_leafs_wrong_root :
    verify FreeH (mp [mpp (TLeaf key_path_0' 0%N) 2; mpp (TLeaf key_path_1' 1%N) 1] [v2]) s3
    = Err MultiRootMismatch.
  Proof. vm_compute. reflexivity. Qed.

  Example two_leafs_extra_sibling :
    verify FreeH (mp [mpp (TLeaf key_path_0' 0%N) 2; mpp (TLeaf key_path_1' 1%N) 1] [v2; v2]) root
    = Err MultiTooManySiblings.
  Proof. vm_compute. reflexivity. Qed.

  Example two_leafs_out_of_order :
    verify FreeH (mp [mpp (TLeaf key_path_1' 1%N) 1; mpp (TLeaf key_path_0' 0%N) 2] [v2]) root
    = Err MultiPathsOutOfOrder.
  Proof. vm_compute. reflexivity. Qed.

  (* malformed (former finding F2, fixed in d984855): too few siblings (:493) *)
  Example verify_missing_sibling_malformed :
    verify FreeH (mp [mpp (TLeaf key_path_0' 0%N) 1] []) root = Err MultiMalformed.
  Proof. vm_compute. reflexivity. Qed.

  (* malformed: depth < start_depth (:487; underflowed [terminal_path.depth - start_depth] before d984855) *)
  Example verify_depth_underflow_malformed :
    verify FreeH (mp [mpp (TLeaf key_path_0' 0%N) 0; mpp (TLeaf key_path_1' 1%N) 1] []) root = Err MultiMalformed.
  Proof. vm_compute. reflexivity. Qed.

  (* malformed: a terminator path which is a prefix of the next path (:534; before d984855 the
     binary search indexed the shorter path out of range) *)
  Example verify_prefix_path_malformed :
    verify FreeH (mp [mpp (term (k [0])) 1; mpp (term (k [0;1])) 2] []) root = Err MultiMalformed.
  Proof. vm_compute. reflexivity. Qed.

  (* malformed: depth beyond the terminal's path (:488) *)
  Example verify_depth_beyond_path_malformed :
    verify FreeH (mp [mpp (term (k [0;1])) 3] [o 1; o 2; o 3]) root = Err MultiMalformed.
  Proof. vm_compute. reflexivity. Qed.

  (* test_verify_multiproof_siblings_structure: shape of the siblings vector and verification *)
  Definition q0 := k [0;0;0;0;0;0;0;0].
  Definition q1 := k [1;0;0;0;0;0;0;0].
  Definition q2 := k [1;0;0;0;0;0;0;1].
  Definition q3 := k [1;0;0;1;1;1;0;0].
  Definition q4 := k [1;0;0;1;1;1;1;0].
  Definition w0 : node FreeH := FL q0 0%N.
  Definition w1 : node FreeH := FL q1 1%N.
  Definition w2 : node FreeH := FL q2 2%N.
  Definition w3 : node FreeH := FL q3 3%N.
  Definition w4 : node FreeH := FL q4 4%N.
  Definition e1 := o 1. Definition e2 := o 2. Definition e3 := o 3.
  Definition e4 := o 4. Definition e5 := o 5. Definition e6 := o 6.
  Definition e7 : node FreeH := FT.
  Definition i1 : node FreeH := FI w1 w2.
  Definition i2 : node FreeH := FI i1 e1.
  Definition i3 : node FreeH := FI i2 e2.
  Definition i4 : node FreeH := FI i3 e3.
  Definition i5 : node FreeH := FI w3 w4.
  Definition i6 : node FreeH := FI e4 i5.
  Definition i7 : node FreeH := FI e5 i6.
  Definition i8 : node FreeH := FI i4 i7.
  Definition i9 : node FreeH := FI i8 e6.
  Definition i10 : node FreeH := FI i9 e7.
  Definition root' : node FreeH := FI w0 i10.
  Definition structure_proofs :=
    [pp (TLeaf q1 1%N) [w0; e7; e6; i7; e3; e2; e1; w2];
     pp (TLeaf q2 2%N) [w0; e7; e6; i7; e3; e2; e1; w1];
     pp (TLeaf q3 3%N) [w0; e7; e6; i4; e5; e4; w4];
     pp (TLeaf q4 4%N) [w0; e7; e6; i4; e5; e4; w3]].

  Example siblings_structure :
    from_path_proofs FreeH structure_proofs
    = Ok (mp [mpp (TLeaf q1 1%N) 8; mpp (TLeaf q2 2%N) 8; mpp (TLeaf q3 3%N) 7; mpp (TLeaf q4 4%N) 7]
             [w0; e7; e6; e3; e2; e1; e5; e4]).
  Proof. vm_compute. reflexivity. Qed.

  Example siblings_structure_verify :
    bind (from_path_proofs FreeH structure_proofs)
         (fun m => Ok (match verify FreeH m root' with
                       | Ok v => Some (vmp_inner v, vmp_bisections v)
                       | _ => None
                       end))
    = Ok (Some
       ([{| vm_terminal := TLeaf q1 1%N; vm_depth := 8; vm_unique_siblings_start := 6; vm_unique_siblings_end := 6 |};
         {| vm_terminal := TLeaf q2 2%N; vm_depth := 8; vm_unique_siblings_start := 6; vm_unique_siblings_end := 6 |};
         {| vm_terminal := TLeaf q3 3%N; vm_depth := 7; vm_unique_siblings_start := 8; vm_unique_siblings_end := 8 |};
         {| vm_terminal := TLeaf q4 4%N; vm_depth := 7; vm_unique_siblings_start := 8; vm_unique_siblings_end := 8 |}],
        [{| vb_start_depth := 0; vb_common_siblings_start := 0; vb_common_siblings_end := 3 |};
         {| vb_start_depth := 4; vb_common_siblings_start := 3; vb_common_siblings_end := 6 |};
         {| vb_start_depth := 4; vb_common_siblings_start := 6; vb_common_siblings_end := 8 |}])).
  Proof. vm_compute. reflexivity. Qed.
End MultiProofExamples.
