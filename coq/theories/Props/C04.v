(* C04 - Durability never depends on unsynced data (power-loss safety). *)
From Nomt Require Import Base SyncProto SyncProto_proofs SrcFacts_proofs.

(* For EVERY trace accepted by the monitor, every cut and EVERY subset of the not-yet-fsynced
   operations surviving: exactly the old or exactly the new state. *)
Theorem C04_powerloss_atomic : forall I d0 tr,
  inst_ok I -> start_ok I d0 -> wal_safe I d0 -> discipline I d0 tr = true ->
  forall n img, pl_image (drun d0 (firstn n tr)) img ->
    (recover I img = ROld \/ recover I img = RNew) /\
    (forall iw, index_of is_meta_write tr = Some iw -> n <= iw -> recover I img = ROld) /\
    (forall is_, index_of is_meta_sync tr = Some is_ -> is_ < n -> recover I img = RNew).
Proof. exact SyncProto_proofs.powerloss_atomic. Qed.
Print Assumptions C04_powerloss_atomic.

(* The hypothesis wal_safe cannot be dropped: the source skips the fsync of the post-meta WAL
   truncation, so the previous multi-page blob may still be durable when the next sync rewrites
   the WAL; a power loss can then leave the old header page followed by a page of the new blob,
   which reopening would re-apply (F8).  A disciplined trace with such an image: *)
Theorem C04_wal_unsafe_refuted : exists I d0 tr n img,
  inst_ok I /\ start_ok I d0 /\ discipline I d0 tr = true /\
  pl_image (drun d0 (firstn n tr)) img /\ recover I img = RBad.
Proof. exact SyncProto_proofs.wal_unsafe_refuted. Qed.
Print Assumptions C04_wal_unsafe_refuted.

(* every fsync the monitor demands is necessary: dropping it admits an image that is neither *)
Theorem C04_wal_fsync_necessary : exists I d0 tr n img,
  inst_ok I /\ start_ok I d0 /\ wal_safe I d0 /\ discipline I d0 tr = false /\
  pl_image (drun d0 (firstn n tr)) img /\ recover I img = RBad.
Proof. exact SyncProto_proofs.wal_fsync_necessary. Qed.
Print Assumptions C04_wal_fsync_necessary.

Theorem C04_tree_fsync_necessary : exists I d0 tr n img,
  inst_ok I /\ start_ok I d0 /\ wal_safe I d0 /\ discipline I d0 tr = false /\
  pl_image (drun d0 (firstn n tr)) img /\ recover I img = RBad.
Proof. exact SyncProto_proofs.tree_fsync_necessary. Qed.
Print Assumptions C04_tree_fsync_necessary.

Theorem C04_ht_fsync_necessary : exists I d0 tr n img,
  inst_ok I /\ start_ok I d0 /\ wal_safe I d0 /\ discipline I d0 tr = false /\
  pl_image (drun d0 (firstn n tr)) img /\ recover I img = RBad.
Proof. exact SyncProto_proofs.ht_fsync_necessary. Qed.
Print Assumptions C04_ht_fsync_necessary.

Theorem C04_sync_phase_order : sync_order_ok = true /\ sync_order_ok2 = true.
Proof. exact SrcFacts_proofs.sync_order_ok_true. Qed.
Print Assumptions C04_sync_phase_order.
