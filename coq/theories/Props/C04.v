(* C04 - Durability never depends on unsynced data (power-loss safety). *)
From Nomt Require Import Base SyncProto SyncProto_proofs.

(* For EVERY trace accepted by the monitor, every cut and EVERY subset of the not-yet-fsynced
   operations surviving: exactly the old or exactly the new state. *)
Theorem C04_powerloss_atomic : forall I d0 tr,
  inst_ok I -> start_ok I d0 -> wal_safe I d0 -> discipline I d0 tr = true ->
  forall n img, pl_image (drun d0 (firstn n tr)) img ->
    (recover I img = ROld \/ recover I img = RNew) /\
    (forall iw, index_of is_meta_write tr = Some iw -> n <= iw -> recover I img = ROld) /\
    (forall is_, index_of is_meta_sync tr = Some is_ -> is_ < n -> recover I img = RNew).
Proof. exact SyncProto_proofs.powerloss_atomic. Qed.
Print Assumptions C04_powerloss_atomic.

(* The hypothesis wal_safe cannot be dropped: if the post-meta WAL truncation is not made durable
   (as in the pinned source), the previous multi-page blob may still be on disk when the next
   sync rewrites the WAL; a power loss can then leave the old header page followed by a page of
   the new blob, which reopening would re-apply (F8, exhibited on the real code and repaired in
   /repo).  A disciplined trace with such an image: *)
Theorem C04_wal_unsafe_refuted : exists I d0 tr n img,
  inst_ok I /\ start_ok I d0 /\ discipline I d0 tr = true /\
  pl_image (drun d0 (firstn n tr)) img /\ recover I img = RBad.
Proof. exact SyncProto_proofs.wal_unsafe_refuted. Qed.
Print Assumptions C04_wal_unsafe_refuted.

(* every fsync the monitor demands is necessary: dropping it admits an image that is neither *)
Theorem C04_wal_fsync_necessary : exists I d0 tr n img,
  inst_ok I /\ start_ok I d0 /\ wal_safe I d0 /\ discipline I d0 tr = false /\
  pl_image (drun d0 (firstn n tr)) img /\ recover I img = RBad.
Proof. exact SyncProto_proofs.wal_fsync_necessary. Qed.
Print Assumptions C04_wal_fsync_necessary.

Theorem C04_tree_fsync_necessary : exists I d0 tr n img,
  inst_ok I /\ start_ok I d0 /\ wal_safe I d0 /\ discipline I d0 tr = false /\
  pl_image (drun d0 (firstn n tr)) img /\ recover I img = RBad.
Proof. exact SyncProto_proofs.tree_fsync_necessary. Qed.
Print Assumptions C04_tree_fsync_necessary.

Theorem C04_ht_fsync_necessary : exists I d0 tr n img,
  inst_ok I /\ start_ok I d0 /\ wal_safe I d0 /\ discipline I d0 tr = false /\
  pl_image (drun d0 (firstn n tr)) img /\ recover I img = RBad.
Proof. exact SyncProto_proofs.ht_fsync_necessary. Qed.
Print Assumptions C04_ht_fsync_necessary.

(* With the truncation fsynced (the repaired protocol: every complete sync ends with
   [ET FWal 0; EF FWal]) the hypothesis re-establishes itself: after a disciplined complete sync
   the WAL has nothing pending and is durably empty ... *)
Theorem C04_next_start_wal_safe : forall I d0 tr,
  inst_ok I -> start_ok I d0 -> discipline I d0 tr = true -> complete tr ->
  fpend (fget (drun d0 tr) FWal) = [] /\ wal_is (image_of_durable (drun d0 tr)) 0 [] = true.
Proof. exact SyncProto_proofs.next_start_wal_safe. Qed.
Print Assumptions C04_next_start_wal_safe.

(* ... so along a whole history of disciplined complete syncs EVERY sync is power-loss atomic;
   only the first one needs wal_safe (a freshly opened store: the WAL was durably truncated) *)
Theorem C04_history_atomic : forall h d0,
  match h with [] => True | (J, _) :: _ => wal_safe J d0 end ->
  history d0 h -> all_atomic d0 h.
Proof. exact SyncProto_proofs.history_atomic. Qed.
Print Assumptions C04_history_atomic.

(* ------------------------------------------------------------------------------------------ *)
(* the rollback log (RbProto.v): old range or new range completely present in every power-loss   *)
(* image of every cut of every trace accepted by the monitor                                     *)
From Nomt Require RbProto RbProto_proofs.

Theorem C04_rollback_log_atomic : forall I d0 tr,
  RbProto.rb_inst_okb I = true -> RbProto.rb_start_okb I d0 = true -> RbProto.rb_discipline I d0 tr = true ->
  forall n img, RbProto.rb_pl_image (RbProto.rb_run d0 (firstn n tr)) img ->
    (RbProto.i_new img = false ->
       RbProto.rb_recover (RbProto.o_recs I) (RbProto.o_start I) (RbProto.o_end I) img = true) /\
    (RbProto.i_new img = true ->
       RbProto.rb_recover (RbProto.rb_new_recs I tr) (RbProto.n_start I) (RbProto.n_end I) img = true) /\
    (forall iw, RbProto.index_of RbProto.is_meta_write tr = Some iw -> n <= iw -> RbProto.i_new img = false) /\
    (forall is_, RbProto.index_of RbProto.is_meta_sync tr = Some is_ -> is_ < n -> RbProto.i_new img = true).
Proof. exact RbProto_proofs.rb_powerloss_atomic. Qed.
Print Assumptions C04_rollback_log_atomic.
