(* C04 - power-loss safety: every fsync the argument needs is present and ordered in the source
   (regenerated on every run; the protocol theorem over the disk model is in progress). *)
From Nomt Require Import SrcFacts_proofs.

Theorem C04_sync_phase_order : sync_order_ok = true /\ sync_order_ok2 = true.
Proof. exact SrcFacts_proofs.sync_order_ok_true. Qed.
Print Assumptions C04_sync_phase_order.
