(* C03 - A process crash at any instant leaves exactly the old or the new state.
   Model: SyncProto.v (disk with pending operations, crash images, specification of what reopening
   reconstructs, executable monitor [discipline] evaluated on the real I/O traces). *)
From Nomt Require Import Base SyncProto SyncProto_proofs.

(* For EVERY instance, start disk, trace accepted by the monitor, cut point and crash image
   (completed operations survive, every subset of the in-flight asynchronous writes): reopening
   reconstructs exactly the old or exactly the new state; the old one before the manifest write,
   the new one after its fsync. *)
Theorem C03_crash_atomic : forall I d0 tr,
  inst_ok I -> start_ok I d0 -> wal_safe I d0 -> discipline I d0 tr = true ->
  forall n img, crash_image (drun d0 (firstn n tr)) img ->
    (recover I img = ROld \/ recover I img = RNew) /\
    (forall iw, index_of is_meta_write tr = Some iw -> n <= iw -> recover I img = ROld) /\
    (forall is_, index_of is_meta_sync tr = Some is_ -> is_ < n -> recover I img = RNew).
Proof. exact SyncProto_proofs.crash_atomic. Qed.
Print Assumptions C03_crash_atomic.

(* ------------------------------------------------------------------------------------------ *)
(* The recovery's own writes: the WAL redo (Wal.v mirrors bitbox/wal.rs and the redo loop of     *)
(* bitbox::recover; it decodes the REAL blobs in the walimg engine).                            *)
From Coq Require Import List NArith.
From Nomt Require Import Result Wal Wal_proofs.

(* whatever the decoder accepts can be redone on a hash table in which ANY subset of the
   interrupted write-out's meta bytes and pages has already landed (selm / selp arbitrary): the
   result is the completed table; and the redo is idempotent (recovery interrupted and repeated) *)
Theorem C03_wal_redo_repairs : forall tag_of bytes s es h selm selp,
  Wal.decode bytes = Ok (s, es) -> wf_ht h ->
  ht_eq (Wal.redo tag_of (torn_table h (Wal.redo tag_of h es) selm selp) es) (Wal.redo tag_of h es) /\
  ht_eq (Wal.redo tag_of (Wal.redo tag_of h es) es) (Wal.redo tag_of h es).
Proof. exact Wal_proofs.recover_repairs. Qed.
Print Assumptions C03_wal_redo_repairs.

(* the same from any table reachable by interleaving log entries being redone with final pages
   and meta bytes landing in any order *)
Theorem C03_wal_redo_after_torn : forall tag_of es h h', shaped es -> wf_ht h -> torn tag_of es h h' ->
  ht_eq (Wal.redo tag_of h' es) (Wal.redo tag_of h es).
Proof. exact Wal_proofs.redo_after_torn. Qed.
Print Assumptions C03_wal_redo_after_torn.
