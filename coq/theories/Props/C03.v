(* C03 - crash atomicity: source-order obligations regenerated from store/sync.rs, bitbox and
   seglog on every run (the protocol theorem over the disk model is in progress). *)
From Nomt Require Import SrcFacts_proofs.

Theorem C03_sync_phase_order : sync_order_ok = true /\ sync_order_ok2 = true.
Proof. exact SrcFacts_proofs.sync_order_ok_true. Qed.
Print Assumptions C03_sync_phase_order.
