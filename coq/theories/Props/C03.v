(* C03 - A process crash at any instant leaves exactly the old or the new state.
   Model: SyncProto.v (disk with pending operations, crash images, specification of what reopening
   reconstructs, executable monitor [discipline] evaluated on the real I/O traces). *)
From Nomt Require Import Base SyncProto SyncProto_proofs SrcFacts_proofs.

(* For EVERY instance, start disk, trace accepted by the monitor, cut point and crash image
   (completed operations survive, every subset of the in-flight asynchronous writes): reopening
   reconstructs exactly the old or exactly the new state; the old one before the manifest write,
   the new one after its fsync. *)
Theorem C03_crash_atomic : forall I d0 tr,
  inst_ok I -> start_ok I d0 -> wal_safe I d0 -> discipline I d0 tr = true ->
  forall n img, crash_image (drun d0 (firstn n tr)) img ->
    (recover I img = ROld \/ recover I img = RNew) /\
    (forall iw, index_of is_meta_write tr = Some iw -> n <= iw -> recover I img = ROld) /\
    (forall is_, index_of is_meta_sync tr = Some is_ -> is_ < n -> recover I img = RNew).
Proof. exact SyncProto_proofs.crash_atomic. Qed.
Print Assumptions C03_crash_atomic.

(* the phases of Sync::sync and the order inside its steps, regenerated from the source *)
Theorem C03_sync_phase_order : sync_order_ok = true /\ sync_order_ok2 = true.
Proof. exact SrcFacts_proofs.sync_order_ok_true. Qed.
Print Assumptions C03_sync_phase_order.
