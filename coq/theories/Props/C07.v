(* C07 - Multi-proofs are equivalent to the path proofs they aggregate.
   Proved here: aggregation of honest path proofs verifies and keeps every terminal and depth
   (completeness), and whatever a verified multi-proof answers is true of the key set (so it
   cannot disagree with an individual proof's answer, which is true by C08_path_sound).
   Agreement of the update verifiers is added by MultiUpdate_proofs when proved; until then it
   is compared (E-core). *)
From Coq Require Import List.
Import ListNotations.
From Nomt Require Import Base Hash Trie Result PathProof BuildTrie MultiProof MultiUpdate
     Base_proofs Trie_proofs PathProof_proofs MultiProof_proofs.

(* ANY non-empty ascending list of keys with pairwise distinct terminals: the canonical path
   proofs aggregate without a panic into a multi-proof that verifies against the same root, and
   the verified multi-proof lists exactly the terminals and depths of the path proofs, in order *)
Theorem C07_multi_complete : forall (H : Hasher), HasherOK H ->
  forall n S ks, wf n S ->
  ks <> [] -> sorted_keys ks = true -> (forall k, In k ks -> length k = n) ->
  NoDup (map (fun k => pp_terminal (canonical_proof H n S k)) ks) ->
  let pps := map (canonical_proof H n S) ks in
  exists mp v,
    from_path_proofs H pps = Ok mp /\
    MultiProof.verify H mp (root_n H n S) = Ok v /\
    map (fun t => (vm_terminal t, vm_depth t)) (vmp_inner v) =
    map (fun p => (pp_terminal p, length (pp_siblings p))) pps.
Proof. exact MultiProof_proofs.multi_complete_n. Qed.
Print Assumptions C07_multi_complete.

(* every answer of a verified multi-proof (ARBITRARY multi-proof object) is the truth about S;
   the individual path proofs' answers are the truth as well (C08_path_sound, C05_complete), so the
   two can never give different answers *)
Theorem C07_multi_answers_true : forall (H : Hasher), HasherOK H -> HasherCF H ->
  forall n S (mp : multi_proof H) v, wf n S ->
  MultiProof.verify H mp (root_n H n S) = Ok v ->
  forall k, length k = n ->
    (forall x, MultiProof.confirm_value H v (k, x) = Ok true -> get S k = Some x) /\
    (forall x, MultiProof.confirm_value H v (k, x) = Ok false -> get S k <> Some x) /\
    (MultiProof.confirm_nonexistence H v k = Ok true -> get S k = None) /\
    (MultiProof.confirm_nonexistence H v k = Ok false -> get S k <> None).
Proof. exact MultiProof_proofs.multi_sound. Qed.
Print Assumptions C07_multi_answers_true.

Example C07_hasher_exists : HasherOK FreeH /\ HasherCF FreeH.
Proof. exact (conj FreeH_OK FreeH_CF). Qed.
