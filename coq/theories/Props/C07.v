(* C07 - Multi-proofs are equivalent to the path proofs they aggregate.
   Proved here: aggregation of honest path proofs verifies and keeps every terminal and depth
   (completeness), and whatever a verified multi-proof answers is true of the key set (so it
   cannot disagree with an individual proof's answer, which is true by C08_path_sound).
   And for the aggregation of the canonical path proofs: every query is answered exactly as the
   individual proofs answer it (both directions), and the update verification over ANY in-scope
   sorted write set returns the root of the updated set = the per-path verifier's result. *)
From Coq Require Import List.
Import ListNotations.
From Nomt Require Import Base Hash Trie Result PathProof BuildTrie VerifyUpdate Witness MultiProof MultiUpdate
     Base_proofs Trie_proofs PathProof_proofs MultiProof_proofs MultiUpdate_proofs.

(* ANY non-empty ascending list of keys with pairwise distinct terminals: the canonical path
   proofs aggregate without a panic into a multi-proof that verifies against the same root, and
   the verified multi-proof lists exactly the terminals and depths of the path proofs, in order *)
Theorem C07_multi_complete : forall (H : Hasher), HasherOK H ->
  forall n S ks, wf n S ->
  ks <> [] -> sorted_keys ks = true -> (forall k, In k ks -> length k = n) ->
  NoDup (map (fun k => pp_terminal (canonical_proof H n S k)) ks) ->
  let pps := map (canonical_proof H n S) ks in
  exists mp v,
    from_path_proofs H pps = Ok mp /\
    MultiProof.verify H mp (root_n H n S) = Ok v /\
    map (fun t => (vm_terminal t, vm_depth t)) (vmp_inner v) =
    map (fun p => (pp_terminal p, length (pp_siblings p))) pps.
Proof. exact MultiProof_proofs.multi_complete_n. Qed.
Print Assumptions C07_multi_complete.

(* every answer of a verified multi-proof (ARBITRARY multi-proof object) is the truth about S;
   the individual path proofs' answers are the truth as well (C08_path_sound, C05_complete), so the
   two can never give different answers *)
Theorem C07_multi_answers_true : forall (H : Hasher), HasherOK H -> HasherCF H ->
  forall n S (mp : multi_proof H) v, wf n S ->
  MultiProof.verify H mp (root_n H n S) = Ok v ->
  forall k, length k = n ->
    (forall x, MultiProof.confirm_value H v (k, x) = Ok true -> get S k = Some x) /\
    (forall x, MultiProof.confirm_value H v (k, x) = Ok false -> get S k <> Some x) /\
    (MultiProof.confirm_nonexistence H v k = Ok true -> get S k = None) /\
    (MultiProof.confirm_nonexistence H v k = Ok false -> get S k <> None).
Proof. exact MultiProof_proofs.multi_sound. Qed.
Print Assumptions C07_multi_answers_true.

(* The setting of the remaining theorems: mp is the aggregation of the canonical path proofs of
   the ascending keys ks (pairwise distinct terminals) against S and v is what verify returns
   for it (C07_multi_complete: such mp and v exist).  Spelled out: *)
Definition C07_honest {H : Hasher} (n : nat) (S : kv) (ks : list key)
           (mp : multi_proof H) (v : verified_multi_proof H) : Prop :=
  wf n S /\ ks <> [] /\ sorted_keys ks = true /\ (forall k, In k ks -> length k = n) /\
  NoDup (map (fun k => pp_terminal (canonical_proof H n S k)) ks) /\
  from_path_proofs H (map (canonical_proof H n S) ks) = Ok mp /\
  MultiProof.verify H mp (root_n H n S) = Ok v.

(* whenever an individual proof answers a query about ANY key k (value x or non-existence), the
   multi-proof gives the same answer *)
Theorem C07_queries_agree : forall (H : Hasher), HasherOK H ->
  forall n S ks (mp : multi_proof H) v, C07_honest n S ks mp v ->
  forall ki, In ki ks -> forall vp,
  PathProof.verify H (canonical_proof H n S ki) ki (root_n H n S) = Ok vp ->
  forall k x, length k = n ->
   (forall b, PathProof.confirm_value H vp k x = Ok b -> MultiProof.confirm_value H v (k, x) = Ok b) /\
   (forall b, PathProof.confirm_nonexistence H vp k = Ok b -> MultiProof.confirm_nonexistence H v k = Ok b).
Proof. exact MultiUpdate_proofs.multi_queries_agree_n. Qed.
Print Assumptions C07_queries_agree.

(* conversely: whenever the multi-proof locates a key, the individual proof at that index
   verifies and gives IDENTICAL results (answers and error values alike) for every query on it *)
Theorem C07_queries_converse : forall (H : Hasher), HasherOK H ->
  forall n S ks (mp : multi_proof H) v, n <= 256 -> C07_honest n S ks mp v ->
  forall k, length k = n -> forall i, find_index_for H v k = Ok i ->
  exists ki vp, nth_error ks i = Some ki /\
    PathProof.verify H (canonical_proof H n S ki) ki (root_n H n S) = Ok vp /\
    (forall x, PathProof.confirm_value H vp k x = MultiProof.confirm_value H v (k, x)) /\
    PathProof.confirm_nonexistence H vp k = MultiProof.confirm_nonexistence H v k.
Proof. exact MultiUpdate_proofs.multi_queries_converse_n. Qed.
Print Assumptions C07_queries_converse.

(* update verification over ANY strictly ascending write set whose keys are in scope of the
   proof's terminals (the mirror's own scope test): the multi-proof verifier and the per-path
   verifier (on the witness grouped by terminal) both return the root of the updated set *)
Theorem C07_update_agrees : forall (H : Hasher), HasherOK H ->
  forall n S ks (mp : multi_proof H) v W, C07_honest n S ks mp v ->
  kv_sorted S = true ->
  sorted_keys (map fst W) = true -> (forall k o, In (k, o) W -> length k = n) ->
  (forall k o, In (k, o) W -> exists t, In t (vmp_inner v) /\ terminal_contains t k = Ok true) ->
  exists r, MultiUpdate.verify_update H n v W = Ok r /\
            VerifyUpdate.verify_update H n (root_n H n S) (group H n S W) = Ok r /\
            r = root_n H n (apply S W).
Proof. exact MultiUpdate_proofs.multi_update_agrees_n. Qed.
Print Assumptions C07_update_agrees.

Example C07_hasher_exists : HasherOK FreeH /\ HasherCF FreeH.
Proof. exact (conj FreeH_OK FreeH_CF). Qed.
