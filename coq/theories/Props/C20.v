(* C20 - One directory has at most one live handle (model of the flock protocol; the monitor
   open_discipline is evaluated on the observed I/O traces of real openers). *)
From Nomt Require Import Base OpenLock OpenLock_proofs.

Theorem C20_one_holder : forall g1 p e g2,
  all_disciplined (g1 ++ (p, e) :: g2) -> flock_consistent None (g1 ++ (p, e) :: g2) ->
  (e = OMut \/ e = OSubmit) -> holder g1 = Some p.
Proof. exact OpenLock_proofs.one_holder. Qed.
Print Assumptions C20_one_holder.

Theorem C20_holding_is_holder : forall g p s,
  all_disciplined g -> flock_consistent None g ->
  prun pst0 (proj p g) = Some s -> holding s = true -> holder g = Some p.
Proof. exact OpenLock_proofs.holding_is_holder. Qed.
Print Assumptions C20_holding_is_holder.

Theorem C20_refused_touches_nothing : forall tr,
  open_discipline tr = true -> (forall b, In (OLock b) tr -> b = false) ->
  ~ In OMut tr /\ ~ In OSubmit tr.
Proof. exact OpenLock_proofs.refused_touches_nothing. Qed.
Print Assumptions C20_refused_touches_nothing.

Theorem C20_release_after_drain : forall tr1 tr2 s,
  prun pst0 tr1 = Some s -> holding s = true ->
  open_discipline (tr1 ++ OUnlock :: tr2) = true -> inflight s = 0.
Proof. exact OpenLock_proofs.release_after_drain. Qed.
Print Assumptions C20_release_after_drain.

Example C20_discipline_example :
  open_discipline [OLockFile; OLock true; OMut; OSubmit; OSubmit; OComplete; OComplete; OMut; OUnlock; ODie] = true /\
  open_discipline [OLockFile; OLock false; ODie] = true /\
  open_discipline [OLockFile; OLock false; OMut] = false /\
  open_discipline [OLockFile; OLock true; OSubmit; OUnlock] = false.
Proof. vm_compute. repeat split; reflexivity. Qed.

