(* C13 - Results do not depend on parallelism, caching or tuning options: the part that is
   arithmetic - how a sorted batch is split between the commit workers (mirrors of
   page_cache.rs::shard_regions / shard_index_for and of merkle/worker.rs::RangeUpdater::new,
   compared with the real functions through the verif_api hook). *)
From Nomt Require Import Base Shards Shards_proofs.

Theorem C13_shards_partition : forall n, 1 <= n <= 64 ->
  (* one region per shard *)
  length (shard_regions n) = n /\
  (* every region is a non-empty run of root children below 64 *)
  (forall i, i < n -> 1 <= shard_count n i /\ shard_start n i + shard_count n i <= 64) /\
  (* contiguous, in order, from child 0 to child 63 *)
  shard_start n 0 = 0 /\
  (forall i, S i < n -> shard_start n (S i) = shard_start n i + shard_count n i) /\
  shard_start n (n - 1) + shard_count n (n - 1) = 64 /\
  (* pairwise disjoint *)
  (forall i j, i < j -> j < n -> shard_start n i + shard_count n i <= shard_start n j) /\
  (* shard_index_for is the index of THE region containing the child *)
  (forall c, c < 64 ->
     shard_index_for n c < n /\
     shard_start n (shard_index_for n c) <= c
       < shard_start n (shard_index_for n c) + shard_count n (shard_index_for n c)) /\
  (forall c i, c < 64 -> i < n ->
     shard_start n i <= c < shard_start n i + shard_count n i -> shard_index_for n c = i).
Proof. exact Shards_proofs.shards_partition. Qed.
Print Assumptions C13_shards_partition.

Theorem C13_ranges_partition : forall (ks : list key) n,
  1 <= n <= 64 ->
  sorted_keys ks = true ->
  (forall k, In k ks -> length k = 256) ->
  (* one [start, end) interval per worker, computed as in RangeUpdater::new *)
  ranges ks n = map (fun i => (range_start ks n i, range_end ks n i)) (seq 0 n) /\
  (* the intervals are consecutive, start at 0 and end at the batch length *)
  range_start ks n 0 = 0 /\
  (forall i, S i < n -> range_end ks n i = range_start ks n (S i)) /\
  range_end ks n (n - 1) = length ks /\
  (forall i, i < n -> range_start ks n i <= range_end ks n i <= length ks) /\
  (* every key lies in the interval of the shard selected by its top 6 bits ... *)
  (forall j d, j < length ks ->
     let s := shard_index_for n (child_of (nth j ks d)) in
     s < n /\ range_start ks n s <= j < range_end ks n s) /\
  (* ... and an interval holds only keys of its shard *)
  (forall i j d, i < n -> range_start ks n i <= j < range_end ks n i ->
     shard_index_for n (child_of (nth j ks d)) = i).
Proof. exact Shards_proofs.ranges_partition. Qed.
Print Assumptions C13_ranges_partition.
