(* C13 - Results do not depend on parallelism, caching or tuning options: the part that is
   arithmetic - how a sorted batch is split between the commit workers (mirrors of
   page_cache.rs::shard_regions / shard_index_for and of merkle/worker.rs::RangeUpdater::new,
   compared with the real functions through the verif_api hook). *)
From Nomt Require Import Base Shards Shards_proofs.

Theorem C13_shards_partition : forall n, 1 <= n <= 64 ->
  (* one region per shard *)
  length (shard_regions n) = n /\
  (* every region is a non-empty run of root children below 64 *)
  (forall i, i < n -> 1 <= shard_count n i /\ shard_start n i + shard_count n i <= 64) /\
  (* contiguous, in order, from child 0 to child 63 *)
  shard_start n 0 = 0 /\
  (forall i, S i < n -> shard_start n (S i) = shard_start n i + shard_count n i) /\
  shard_start n (n - 1) + shard_count n (n - 1) = 64 /\
  (* pairwise disjoint *)
  (forall i j, i < j -> j < n -> shard_start n i + shard_count n i <= shard_start n j) /\
  (* shard_index_for is the index of THE region containing the child *)
  (forall c, c < 64 ->
     shard_index_for n c < n /\
     shard_start n (shard_index_for n c) <= c
       < shard_start n (shard_index_for n c) + shard_count n (shard_index_for n c)) /\
  (forall c i, c < 64 -> i < n ->
     shard_start n i <= c < shard_start n i + shard_count n i -> shard_index_for n c = i).
Proof. exact Shards_proofs.shards_partition. Qed.
Print Assumptions C13_shards_partition.

Theorem C13_ranges_partition : forall (ks : list key) n,
  1 <= n <= 64 ->
  sorted_keys ks = true ->
  (forall k, In k ks -> length k = 256) ->
  (* one [start, end) interval per worker, computed as in RangeUpdater::new *)
  ranges ks n = map (fun i => (range_start ks n i, range_end ks n i)) (seq 0 n) /\
  (* the intervals are consecutive, start at 0 and end at the batch length *)
  range_start ks n 0 = 0 /\
  (forall i, S i < n -> range_end ks n i = range_start ks n (S i)) /\
  range_end ks n (n - 1) = length ks /\
  (forall i, i < n -> range_start ks n i <= range_end ks n i <= length ks) /\
  (* every key lies in the interval of the shard selected by its top 6 bits ... *)
  (forall j d, j < length ks ->
     let s := shard_index_for n (child_of (nth j ks d)) in
     s < n /\ range_start ks n s <= j < range_end ks n s) /\
  (* ... and an interval holds only keys of its shard *)
  (forall i j d, i < n -> range_start ks n i <= j < range_end ks n i ->
     shard_index_for n (child_of (nth j ks d)) = i).
Proof. exact Shards_proofs.ranges_partition. Qed.
Print Assumptions C13_ranges_partition.

(* ---- independent of the split policy: ANY list of regions accepted by regions_okb ---- *)
From Nomt Require Import ShardsGen ShardsGen_proofs.

Theorem C13_regions_okb_sound : forall regs, regions_okb regs = true ->
  let n := length regs in
  (* between 1 and 64 regions *)
  1 <= n <= 64 /\
  (* every region is a non-empty run of root children below 64 ... *)
  (forall i, i < n -> 1 <= count_of regs i /\ start_of regs i + count_of regs i <= 64) /\
  (* ... given by the min key of its first child, the max key of its last child, its count *)
  (forall i, i < n ->
     nth i regs dummy_region =
       (min_key (start_of regs i), max_key (start_of regs i + count_of regs i - 1),
        count_of regs i)) /\
  (* contiguous, in order, from child 0 to child 63 *)
  start_of regs 0 = 0 /\
  (forall i, S i < n -> start_of regs (S i) = start_of regs i + count_of regs i) /\
  start_of regs (n - 1) + count_of regs (n - 1) = 64 /\
  (* pairwise disjoint *)
  (forall i j, i < j -> j < n -> start_of regs i + count_of regs i <= start_of regs j) /\
  (* index_of_child is the index of THE region containing the child *)
  (forall c, c < 64 ->
     index_of_child regs c < n /\
     start_of regs (index_of_child regs c) <= c
       < start_of regs (index_of_child regs c) + count_of regs (index_of_child regs c)) /\
  (forall c i, c < 64 -> i < n ->
     start_of regs i <= c < start_of regs i + count_of regs i -> index_of_child regs c = i).
Proof. exact ShardsGen_proofs.regions_okb_sound. Qed.
Print Assumptions C13_regions_okb_sound.

(* the boolean accepts exactly the splits into positive child counts that add up to 64 *)
Theorem C13_regions_okb_counts : forall regs, regions_okb regs = true ->
  regs = regions_of_counts (map region_count regs) /\
  Forall (fun c => 1 <= c) (map region_count regs) /\
  list_sum (map region_count regs) = 64.
Proof. exact ShardsGen_proofs.regions_okb_counts. Qed.
Print Assumptions C13_regions_okb_counts.

Theorem C13_regions_of_counts_ok : forall cs,
  cs <> nil -> Forall (fun c => 1 <= c) cs -> list_sum cs = 64 ->
  regions_okb (regions_of_counts cs) = true.
Proof. exact ShardsGen_proofs.regions_of_counts_ok. Qed.
Print Assumptions C13_regions_of_counts_ok.

Theorem C13_ranges_partition_gen : forall (regs : list region) (ks : list key),
  regions_okb regs = true ->
  sorted_keys ks = true ->
  (forall k, In k ks -> length k = 256) ->
  let n := length regs in
  (* one [start, end) interval per worker, computed as in RangeUpdater::new *)
  ranges_of regs ks =
    map (fun i => (gen_range_start regs ks i, gen_range_end regs ks i)) (seq 0 n) /\
  (* the intervals are consecutive, start at 0 and end at the batch length *)
  gen_range_start regs ks 0 = 0 /\
  (forall i, S i < n -> gen_range_end regs ks i = gen_range_start regs ks (S i)) /\
  gen_range_end regs ks (n - 1) = length ks /\
  (forall i, i < n -> gen_range_start regs ks i <= gen_range_end regs ks i <= length ks) /\
  (* every key lies in the interval of the region that contains its root child ... *)
  (forall j d, j < length ks ->
     let s := index_of_child regs (child_of (nth j ks d)) in
     s < n /\ gen_range_start regs ks s <= j < gen_range_end regs ks s) /\
  (* ... and an interval holds only keys of its region *)
  (forall i j d, i < n -> gen_range_start regs ks i <= j < gen_range_end regs ks i ->
     index_of_child regs (child_of (nth j ks d)) = i).
Proof. exact ShardsGen_proofs.ranges_partition_gen. Qed.
Print Assumptions C13_ranges_partition_gen.

(* the mirror of the present policy is one such split *)
Theorem C13_shards_mirror_ok : forall n, 1 <= n <= 64 -> regions_okb (shard_regions n) = true.
Proof. exact ShardsGen_proofs.shards_mirror_ok. Qed.
Print Assumptions C13_shards_mirror_ok.

Theorem C13_shards_mirror_instance : forall n, 1 <= n <= 64 ->
  length (shard_regions n) = n /\
  (forall i, i < n -> start_of (shard_regions n) i = shard_start n i /\
                      count_of (shard_regions n) i = shard_count n i) /\
  (forall c, c < 64 -> index_of_child (shard_regions n) c = shard_index_for n c) /\
  (forall ks, ranges_of (shard_regions n) ks = ranges ks n) /\
  (forall ks i, gen_range_start (shard_regions n) ks i = range_start ks n i /\
                gen_range_end (shard_regions n) ks i = range_end ks n i).
Proof. exact ShardsGen_proofs.shards_mirror_instance. Qed.
Print Assumptions C13_shards_mirror_instance.

(* another valid split (the remainder 64 % n given to the LAST shards) and invalid ones *)
Theorem C13_remainder_last_ok :
  forallb (fun n => regions_okb (shard_regions_last n) && Nat.eqb (length (shard_regions_last n)) n)
    (seq 1 64) = true.
Proof. exact ShardsGen_proofs.remainder_last_ok. Qed.
Print Assumptions C13_remainder_last_ok.

Theorem C13_uneven_ok : regions_okb (regions_of_counts (1 :: 62 :: 1 :: nil)) = true.
Proof. exact ShardsGen_proofs.uneven_ok. Qed.
Print Assumptions C13_uneven_ok.

Theorem C13_reject_gap :
  regions_okb ((min_key 0, max_key 0, 1) :: (min_key 2, max_key 63, 62) :: nil) = false.
Proof. exact ShardsGen_proofs.reject_gap. Qed.
Print Assumptions C13_reject_gap.

Theorem C13_reject_overlap :
  regions_okb ((min_key 0, max_key 31, 32) :: (min_key 31, max_key 63, 33) :: nil) = false.
Proof. exact ShardsGen_proofs.reject_overlap. Qed.
Print Assumptions C13_reject_overlap.

(* ------------------------------------------------------------------------------------------ *)
(* Hash-table size and seed: where a page sits in the table is a function of both, what a lookup    *)
(* answers is not.  The lookup of a page (HtLookup.v: mirror of PageLoader::probe / try_complete and *)
(* of Store::load_page - triangular walk from hash mod buckets, tombstones and foreign tags passed  *)
(* over, a matching 7-bit tag is only a POSSIBLE hit: on a label mismatch the walk continues) finds  *)
(* every stored page of every decoded image that passes the decoder's probe check, whatever the     *)
(* table size and the hash function are, and returns nothing but stored pages with that label.      *)
(* Without the retry after a tag collision this is false.                                           *)
From Coq Require Import List NArith.
From Nomt Require Import Image HtLookup HtLookup_proofs.
Local Open Scope N_scope.

Theorem C13_lookup_finds_stored : forall fs xxh img p hash,
  decode_image fs = Ok img -> wf_ht_probe xxh img = true ->
  In p (h_pages (i_ht img)) -> xxh (p_label p) = Some hash ->
  let h := i_ht img in
  ht_lookup (N.to_nat (2 * h_buckets h + 2)) (h_meta_map h) (h_pages h) (h_buckets h) hash
            (p_label p) (hash mod h_buckets h) 0 = Some p.
Proof. exact HtLookup_proofs.image_lookup_finds_stored. Qed.
Print Assumptions C13_lookup_finds_stored.

Theorem C13_lookup_sound : forall fuel mm ps n hash label b s q,
  ht_lookup fuel mm ps n hash label b s = Some q -> In q ps /\ p_label q = label.
Proof. exact HtLookup_proofs.ht_lookup_sound. Qed.
Print Assumptions C13_lookup_sound.

Theorem C13_lookup_once_refuted :
  meta_consistent tc_mm (tc_P :: tc_Q :: nil) = true /\
  probe 18 tc_mm 8 (p_bucket tc_Q) 3 0 = None /\ p_meta tc_Q = full_entry 3 /\
  ht_lookup 18 tc_mm (tc_P :: tc_Q :: nil) 8 3 (p_label tc_Q) 3 0 = Some tc_Q /\
  ht_lookup_once 18 tc_mm (tc_P :: tc_Q :: nil) 8 3 (p_label tc_Q) 3 0 = None.
Proof. exact HtLookup_proofs.lookup_once_refuted. Qed.
Print Assumptions C13_lookup_once_refuted.
