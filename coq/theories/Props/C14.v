(* C14 - failures are examined, poison the store, and a poisoned store refuses commits before
   touching the rollback log.  The facts about which results Sync::sync and the write-out helpers
   examine are regenerated from the source on every run (Gen/SrcFacts.v). *)
From Nomt Require Import SrcFacts_proofs.

(* ------------------------------------------------------------------------------------------ *)
(* The fault model of commit / rollback (Fault.v: the `?`-structured control flow of Sync::sync,   *)
(* Store::commit, the commit entry points and Nomt::rollback under arbitrary failure oracles,      *)
(* one oracle per operation of a history; linked to the disk model of SyncProto.v).               *)
From Coq Require Import List.
From Nomt Require Import Base SyncProto SyncProto_proofs Fault Fault_proofs.
From Nomt.Gen Require Import SrcFacts.

(* regenerated from the source on every run: the five fallible calls of Sync::sync, in this order,
   are each followed by `?` and there is no other `?` in the body; inside write_wal, truncate_wal,
   write_ht, Meta::write, seglog append and the segment writer no write / resize / fsync result is
   dropped *)
Theorem C14_sync_results_checked : sync_results_checked = true.
Proof. exact SrcFacts_proofs.sync_results_checked_true. Qed.
Print Assumptions C14_sync_results_checked.

(* the model examines exactly the calls the translator lists, in the order of the source, and the
   control flow driven by the generated list IS the model's *)
Theorem C14_model_matches_source : model_fallible_calls = sync_fallible_calls.
Proof. exact Fault_proofs.sync_model_matches_source. Qed.
Print Assumptions C14_model_matches_source.

Theorem C14_sync_run_from_source : forall fails, sync_run_src fails = sync_run fails.
Proof. exact Fault_proofs.sync_run_src_eq. Qed.
Print Assumptions C14_sync_run_from_source.

(* an error is returned iff the handle was poisoned or an EXECUTED call reported a failure: no
   failure is swallowed, no error is made up; the failing call is the last one executed *)
Theorem C14_commit_err_iff : forall delta fails h,
  result_of (commit_run delta fails h) = RErr <->
  poisoned h = true \/
  exists s, In s (execd (commit_run delta fails h)) /\ fallible s = true /\ fails s = true.
Proof. exact Fault_proofs.commit_err_iff. Qed.
Print Assumptions C14_commit_err_iff.

Theorem C14_rollback_err_iff : forall fails h,
  result_of (rollback_run fails h) = RErr <->
  poisoned h = true \/
  exists s, In s (execd (rollback_run fails h)) /\ fallible s = true /\ fails s = true.
Proof. exact Fault_proofs.rollback_err_iff. Qed.
Print Assumptions C14_rollback_err_iff.

(* the same per I/O operation (write, resize, fsync, bucket allocation) behind the steps *)
Theorem C14_commit_err_iff_io : forall delta iof h,
  result_of (commit_run delta (step_fails iof) h) = RErr <->
  poisoned h = true \/
  exists s o, In s (execd (commit_run delta (step_fails iof) h)) /\ In o (ios_of_step s) /\ iof o = true.
Proof. exact Fault_proofs.commit_err_iff_io. Qed.
Print Assumptions C14_commit_err_iff_io.

Theorem C14_failing_step_is_last : forall delta fails h pfx s sfx,
  execd (commit_run delta fails h) = pfx ++ s :: sfx ->
  fallible s = true -> fails s = true -> sfx = [].
Proof. exact Fault_proofs.failing_step_is_last. Qed.
Print Assumptions C14_failing_step_is_last.

(* an error poisons the handle; a poisoned handle refuses every commit and rollback without
   executing a single call, forever *)
Theorem C14_err_poisons : forall o fails h,
  result_of (op_run o fails h) = RErr -> poisoned (after (op_run o fails h)) = true.
Proof. exact Fault_proofs.op_err_poisons. Qed.
Print Assumptions C14_err_poisons.

Theorem C14_poisoned_refuses : forall o fails h,
  poisoned h = true -> op_run o fails h = refuse.
Proof. exact Fault_proofs.poisoned_refuses. Qed.
Print Assumptions C14_poisoned_refuses.

Theorem C14_poisoned_forever : forall ops h,
  poisoned h = true ->
  poisoned (snd (run_ops ops h)) = true /\
  Forall (fun x => x = (RErr, [])) (fst (run_ops ops h)).
Proof. exact Fault_proofs.poisoned_forever. Qed.
Print Assumptions C14_poisoned_forever.

(* a commit that returns Ok executed everything and the manifest step completed *)
Theorem C14_ok_commit_new : forall delta fails h,
  result_of (commit_run delta fails h) = ROk ->
  poisoned h = false /\
  execd (commit_run delta fails h) = (if delta then [SDeltaAppend] else []) ++ sync_steps /\
  (forall s, In s (execd (commit_run delta fails h)) -> fallible s = true -> fails s = false) /\
  committed (after (commit_run delta fails h)) = true /\
  poisoned (after (commit_run delta fails h)) = false.
Proof. exact Fault_proofs.ok_commit_new. Qed.
Print Assumptions C14_ok_commit_new.

(* a commit fails at some call: the disk stands at a cut inside that call (and stays there: the
   handle does no further I/O); every crash image of it reopens as exactly the old or the new
   state - old if the failure came before Meta::write, new if it came after *)
Theorem C14_failed_commit_atomic : forall I d0 delta fails h n img,
  inst_ok I -> start_ok I d0 -> wal_safe I d0 -> discipline I d0 (full_trace I) = true ->
  poisoned h = false ->
  result_of (commit_run delta fails h) = RErr ->
  cut_ok (events_of_step I) (execd (commit_run delta fails h)) n ->
  crash_image (drun d0 (firstn n (full_trace I))) img ->
  (recover I img = ROld \/ recover I img = RNew) /\
  (step_idx (failed_step (execd (commit_run delta fails h))) < step_idx SMetaWrite ->
     recover I img = ROld) /\
  (step_idx SMetaWrite < step_idx (failed_step (execd (commit_run delta fails h))) ->
     recover I img = RNew).
Proof. exact Fault_proofs.failed_commit_atomic. Qed.
Print Assumptions C14_failed_commit_atomic.

(* the same for ANY attribution of the events of a disciplined trace to the calls during which
   they happened (real traces interleave the background write-outs) *)
Theorem C14_failed_commit_atomic_gen : forall I d0 seg,
  inst_ok I -> start_ok I d0 -> wal_safe I d0 -> seg_ok seg ->
  discipline I d0 (trace_of seg sync_steps) = true ->
  forall delta fails h n img,
  poisoned h = false ->
  result_of (commit_run delta fails h) = RErr ->
  cut_ok seg (execd (commit_run delta fails h)) n ->
  crash_image (drun d0 (firstn n (trace_of seg sync_steps))) img ->
  (recover I img = ROld \/ recover I img = RNew) /\
  (step_idx (failed_step (execd (commit_run delta fails h))) < step_idx SMetaWrite ->
     recover I img = ROld) /\
  (step_idx SMetaWrite < step_idx (failed_step (execd (commit_run delta fails h))) ->
     recover I img = RNew).
Proof. exact Fault_proofs.failed_commit_atomic_gen. Qed.
Print Assumptions C14_failed_commit_atomic_gen.

(* a commit that returns Ok has produced the whole trace and the new state is durable *)
Theorem C14_ok_commit_durable : forall I d0 delta fails h img,
  inst_ok I -> start_ok I d0 -> wal_safe I d0 -> discipline I d0 (full_trace I) = true ->
  result_of (commit_run delta fails h) = ROk ->
  trace_of (events_of_step I) (execd (commit_run delta fails h)) = full_trace I /\
  (crash_image (drun d0 (full_trace I)) img -> recover I img = RNew).
Proof. exact Fault_proofs.ok_commit_new_durable. Qed.
Print Assumptions C14_ok_commit_durable.

(* every one of the five checks is needed: with any single `?` dropped the first statement is false *)
Theorem C14_every_check_needed : forall s0, In s0 sync_steps -> fallible s0 = true ->
  ~ (forall fails,
       fst (run_steps (fun s => negb (step_eqb s s0)) fails sync_steps) = RErr <->
       exists s, In s (snd (run_steps (fun s => negb (step_eqb s s0)) fails sync_steps)) /\
                 fallible s = true /\ fails s = true).
Proof. exact Fault_proofs.every_check_needed. Qed.
Print Assumptions C14_every_check_needed.

(* ------------------------------------------------------------------------------------------ *)
(* "the merkle page table runs out of buckets -> an error, never a hang": the probe walk is bounded *)
(* (the decoder's mirror [Image.probe] by its fuel, the code by a multiple of the table size), and  *)
(* the bound is complete: the triangular walk has period 2 * buckets and its second half mirrors   *)
(* the first, so a walk of [factor * buckets] steps (any factor >= 1) that gives up has examined    *)
(* every bucket an unbounded walk could ever reach.                                                 *)
From Coq Require Import NArith.
From Nomt Require Import Image Probe_proofs.

Theorem C14_probe_period : forall n b s k, (0 < n)%N ->
  seqpos n b s (k + N.to_nat (2 * n)) = seqpos n b s k.
Proof. exact Probe_proofs.probe_period. Qed.
Print Assumptions C14_probe_period.

Theorem C14_probe_reach_half : forall n b k, (0 < n)%N ->
  exists j, (j < N.to_nat n)%nat /\ seqpos n b 0 j = seqpos n b 0 k.
Proof. exact Probe_proofs.probe_reach_half. Qed.
Print Assumptions C14_probe_reach_half.

Theorem C14_probe_bound_complete : forall factor fuel mm n target b,
  (0 < n)%N -> (1 <= factor)%N -> (N.to_nat (factor * n) <= fuel)%nat ->
  probe fuel mm n target b 0 = Some (WProbeFuel, target, 0%N) ->
  forall k, seqpos n b 0 k <> target.
Proof. exact Probe_proofs.probe_bound_complete. Qed.
Print Assumptions C14_probe_bound_complete.
