(* C14 - failures are examined, poison the store, and a poisoned store refuses commits before
   touching the rollback log (source-order obligations regenerated on every run). *)
From Nomt Require Import SrcFacts_proofs.

Theorem C14_fault_handling_order : fault_handling_ok = true.
Proof. exact SrcFacts_proofs.fault_handling_ok_true. Qed.
Print Assumptions C14_fault_handling_order.

Theorem C14_commit_entry_order : commit_orders_ok = true.
Proof. exact SrcFacts_proofs.commit_orders_ok_true. Qed.
Print Assumptions C14_commit_entry_order.
