(* C18 - Proof verifiers are total: path proofs, the per-path update verifier, multi-proofs and
   the multi-proof update verifier. *)
From Nomt Require Import Base Hash Trie Result PathProof BuildTrie VerifyUpdate
     Base_proofs Trie_proofs PathProof_proofs BuildTrie_proofs VerifyUpdate_proofs.

Theorem C18_verify_total : forall (H : Hasher) (p : path_proof H) kp root, verify H p kp root <> Panic.
Proof. exact PathProof_proofs.verify_total. Qed.
Print Assumptions C18_verify_total.

Theorem C18_verified_path_len : forall (H : Hasher) (p : path_proof H) kp root vp,
  verify H p kp root = Ok vp -> length (vp_path vp) <= 256 /\ length (vp_path vp) <= length kp.
Proof. exact PathProof_proofs.verify_path_len. Qed.
Print Assumptions C18_verified_path_len.

Theorem C18_confirm_total : forall (H : Hasher) (p : path_proof H) kp root vp k v,
  verify H p kp root = Ok vp -> length k = 256 ->
  confirm_value H vp k v <> Panic /\ confirm_nonexistence H vp k <> Panic.
Proof. exact PathProof_proofs.confirm_total. Qed.
Print Assumptions C18_confirm_total.

(* what PathProof::verify guarantees about its result (VerifyUpdate_proofs.vp_wf): as many path
   bits as siblings, at most 256 of them, and a leaf terminal lies under the proven path *)
Theorem C18_verify_vp_wf : forall (H : Hasher) (p : path_proof H) kp root vp,
  verify H p kp root = Ok vp -> length kp <= 256 ->
  length (vp_path vp) = length (vp_siblings vp) /\ length (vp_path vp) <= 256 /\
  (forall k v, vp_terminal vp = Some (k, v) -> is_prefix (vp_path vp) k = true).
Proof. exact VerifyUpdate_proofs.verify_vp_wf. Qed.
Print Assumptions C18_verify_vp_wf.

(* the per-path update verifier is total on ANY verified paths (anything PathProof::verify can
   return, for 256-bit leaf keys), ANY operation lists over 256-bit keys, ANY root - no
   collision-freeness, no well-formed trie behind the root *)
Theorem C18_verify_update_never_panics : forall (H : Hasher) root (paths : list (path_update H)),
  (forall p, In p paths ->
     (length (vp_path (pu_inner p)) = length (vp_siblings (pu_inner p)) /\
      length (vp_path (pu_inner p)) <= 256 /\
      (forall k v, vp_terminal (pu_inner p) = Some (k, v) ->
         is_prefix (vp_path (pu_inner p)) k = true)) /\
     (forall k v, vp_terminal (pu_inner p) = Some (k, v) -> length k = 256) /\
     (forall k o, In (k, o) (pu_ops p) -> length k = 256)) ->
  verify_update H 256 root paths <> Panic.
Proof. exact VerifyUpdate_proofs.verify_update_never_panics. Qed.
Print Assumptions C18_verify_update_never_panics.

(* ------------------------------------------------------------------------------------------ *)
(* multi-proofs                                                                                 *)
From Nomt Require Import MultiProof MultiUpdate MultiProof_proofs Extra2_proofs.

(* ANY multi-proof object, ANY root: a verdict, never a panic (no out-of-bounds index, no
   arithmetic underflow, the recursion's fuel suffices) *)
Theorem C18_multi_verify_total : forall (H : Hasher) (mp : multi_proof H) root,
  MultiProof.verify H mp root <> Panic.
Proof. exact MultiProof_proofs.multi_verify_total. Qed.
Print Assumptions C18_multi_verify_total.

(* queries on anything MultiProof::verify can return (terminal key paths have the type's length) *)
Theorem C18_multi_confirm_total : forall (H : Hasher) (mp : multi_proof H) root v k x,
  mp_typed 256 mp -> MultiProof.verify H mp root = Ok v -> length k = 256 ->
  MultiProof.confirm_value H v (k, x) <> Panic /\ MultiProof.confirm_nonexistence H v k <> Panic.
Proof. exact Extra2_proofs.multi_confirm_total_of_verify. Qed.
Print Assumptions C18_multi_confirm_total.

(* the multi-proof update verifier on anything verify can return and ANY operation list over
   256-bit keys (unsorted, duplicated, out of scope ...): an error value or a root, never a panic *)
Theorem C18_multi_verify_update_total : forall (H : Hasher) (mp : multi_proof H) root v ops,
  mp_typed 256 mp -> MultiProof.verify H mp root = Ok v ->
  (forall k o, In (k, o) ops -> length k = 256) ->
  MultiUpdate.verify_update H 256 v ops <> Panic.
Proof. exact MultiProof_proofs.multi_verify_then_update_total. Qed.
Print Assumptions C18_multi_verify_update_total.
