(* C10 - Reopening is transparent (abstract machine level: everything durable is unchanged and
   later commits / rollbacks behave as if the store had never been closed). *)
From Nomt Require Import Base Store Base_proofs Store_proofs.

Theorem C10_reopen_transparent : forall st,
  cur (reopen st) = cur st /\ hist (reopen st) = hist st /\ seqn (reopen st) = seqn st /\
  max_len (reopen st) = max_len st.
Proof. exact Store_proofs.reopen_transparent. Qed.
Print Assumptions C10_reopen_transparent.

Theorem C10_reopen_then_commit : forall st id b,
  cur (commit_batch (reopen st) id b) = cur (commit_batch st id b) /\
  hist (commit_batch (reopen st) id b) = hist (commit_batch st id b).
Proof. exact Store_proofs.reopen_then_commit. Qed.
Print Assumptions C10_reopen_then_commit.

Theorem C10_reopen_then_rollback : forall st n,
  cur (fst (rollback (reopen st) n)) = cur (fst (rollback st n)) /\
  snd (rollback (reopen st) n) = snd (rollback st n).
Proof. exact Store_proofs.reopen_then_rollback. Qed.
Print Assumptions C10_reopen_then_rollback.

(* ------------------------------------------------------------------------------------------ *)
(* At the level of the files: what ANY handle reads after opening a directory is a function of  *)
(* the abstraction of the image alone (mirrors of the read path and of the merkle seek, proved   *)
(* to refine the decoded image: C16_readpath_refines, C05_seek_refines).                         *)
From Coq Require Import List NArith.
From Nomt Require Import Hash Trie Result PathProof Image ReadPath SeekPath SeekPath_proofs Extra3_proofs.

Theorem C10_same_abstraction_same_reads : forall fs1 img1 fs2 img2,
  decode_image fs1 = Image.Ok img1 -> decode_image fs2 = Image.Ok img2 ->
  wf_leaf_order img1 = true -> wf_branches img1 = true -> passes (wf_pages_ln_v img1) = true ->
  wf_leaf_order img2 = true -> wf_branches img2 = true -> passes (wf_pages_ln_v img2) = true ->
  abs img1 = abs img2 ->
  forall k, lookup img1 k = lookup img2 k.
Proof. exact Extra3_proofs.same_abs_same_lookup. Qed.
Print Assumptions C10_same_abstraction_same_reads.

Theorem C10_same_abstraction_same_proofs : forall (H : Hasher) (enc : node H -> list N) h1 h2 fs1 img1 fs2 img2,
  decode_image fs1 = Image.Ok img1 -> decode_image fs2 = Image.Ok img2 ->
  HasherOK H -> enc (TERM H) = ZERO_NODE -> (forall n, node_kind (enc n) = kind H n) ->
  oracle_ok H enc h1 (ref_trie img1) -> oracle_ok H enc h2 (ref_trie img2) ->
  wf_merkle h1 img1 = true -> wf_root img1 = true ->
  wf_merkle h2 img2 = true -> wf_root img2 = true ->
  abs_kv img1 = abs_kv img2 ->
  forall k, length k = 256 -> seek_img h1 img1 k = seek_img h2 img2 k.
Proof. exact Extra3_proofs.same_abs_same_seek. Qed.
Print Assumptions C10_same_abstraction_same_proofs.
